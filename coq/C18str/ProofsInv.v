(* C18str/ProofsInv.v — the simulation invariant between the strdata heap and the byte-string
   specification, and its preservation by the heap primitives.

   InvG nv s a x extra:
   - every variable u < nv other than x is null, abstractly empty and not flagged "has
     storage", or points to live storage whose buffer is  (a u) ++ 0 :: rest  with
     len = |a u| and alloced = the size of the buffer  (vgood; the text may hold 0 bytes);
   - for every live storage, refcount + 1 = the number of variables (other than x) that
     point to it + the number of occurrences in [extra] (pointers held by the operation in
     progress: the variable x being modified, and locals such as olddata / newdata);
   - ids >= nxt are not allocated; the pointers in [extra] are live.
   Inv = InvG with no variable excluded and no extra pointer. *)
From Coq Require Import ZArith NArith List Bool Arith Lia Permutation.
From Morfuse Require Import Base.Arr C18str.Model C18str.Spec C18str.ProofsLib.
Import ListNotations.

Definition content (d : sdata) (l : list N) : Prop :=
  exists rest, buf d = l ++ 0%N :: rest /\ alloced d = length (buf d).

Definition good (d : sdata) (l : list N) : Prop := content d l /\ dlen d = length l.

Definition vgood (s : st) (p : option N) (l : list N) (b : bool) : Prop :=
  match p with
  | None => l = [] /\ b = false
  | Some id => exists d, get (heap s) id = Some d /\ good d l
  end.

Definition points (p : option N) (id : N) : nat :=
  match p with Some i => if N.eqb i id then 1 else 0 | None => 0 end.

Definition excluded (x : option N) (u : N) : bool :=
  match x with Some v => N.eqb v u | None => false end.

Fixpoint countX (n : nat) (f : arr (option N)) (x : option N) (id : N) : nat :=
  match n with
  | O => 0
  | S m => (if excluded x (N.of_nat m) then 0 else points (get f (N.of_nat m)) id) + countX m f x id
  end.

Fixpoint occ (extra : list N) (id : N) : nat :=
  match extra with
  | [] => 0
  | i :: r => (if N.eqb i id then 1 else 0) + occ r id
  end.

Definition olist (p : option N) : list N := match p with Some i => [i] | None => [] end.

Record InvG (nv : nat) (s : st) (a : abs) (h : has) (x : option N) (extra : list N) : Prop := mkInvG {
  g_vars : forall u, (u < N.of_nat nv)%N -> excluded x u = false ->
                     vgood s (get (vars s) u) (get a u) (get h u);
  g_cnt : forall id d, get (heap s) id = Some d ->
                       S (refc d) = countX nv (vars s) x id + occ extra id;
  g_fresh : forall id, (nxt s <= id)%N -> get (heap s) id = None;
  g_live : forall id, In id extra -> get (heap s) id <> None }.

Definition Inv (nv : nat) (s : st) (a : abs) (h : has) : Prop := InvG nv s a h None [].

(* ---- good / vgood ---------------------------------------------------------------------- *)

Lemma good_text d l : good d l -> cstr (buf d) = Some (clit l).
Proof. intros [[rest [Hb _]] _]. rewrite Hb. apply cstr_clit. Qed.

Lemma good_unique d l1 l2 : good d l1 -> good d l2 -> l1 = l2.
Proof.
  intros [[r1 [H1 _]] L1] [[r2 [H2 _]] L2]. rewrite H1 in H2.
  eapply app_inv_len; [exact H2|congruence].
Qed.

Lemma good_room d l : good d l -> length l < alloced d.
Proof.
  intros [[rest [Hb Ha]] _]. rewrite Ha, Hb, app_length. cbn. lia.
Qed.

Definition same_text (d d' : sdata) : Prop :=
  alloced d' = alloced d /\ dlen d' = dlen d /\ buf d' = buf d.

Lemma good_same d d' l : same_text d d' -> good d l -> good d' l.
Proof.
  intros [Ha [Hl Hb]] [[rest [H1 H3]] H4]. split.
  - exists rest. rewrite Hb, Ha. auto.
  - congruence.
Qed.

Lemma vgood_frame s s' p l b :
  (forall id, p = Some id -> get (heap s') id = get (heap s) id) -> vgood s p l b -> vgood s' p l b.
Proof.
  destruct p as [id|]; cbn; [|auto].
  intros H [d [Hd Hg]]. exists d. split; [|exact Hg]. rewrite H; auto.
Qed.

Lemma vgood_upd s id d d' p l b :
  get (heap s) id = Some d -> same_text d d' -> vgood s p l b -> vgood (upd s id d') p l b.
Proof.
  intros Hd Hs. destruct p as [j|]; cbn; [|auto].
  intros [e [He Hg]]. rewrite get_set. destruct (N.eqb_spec j id) as [->|Hne].
  - exists d'. split; [reflexivity|]. rewrite Hd in He. inversion He; subst. eapply good_same; eauto.
  - exists e. auto.
Qed.

(* ---- counting -------------------------------------------------------------------------- *)

Lemma occ_olist p id : occ (olist p) id = points p id.
Proof. destruct p as [i|]; cbn; [|reflexivity]. destruct (N.eqb i id); reflexivity. Qed.

Lemma occ_in_pos extra id : In id extra -> 1 <= occ extra id.
Proof.
  induction extra as [|i r IH]; cbn; [tauto|].
  intros [->|H].
  - rewrite N.eqb_refl. lia.
  - specialize (IH H). lia.
Qed.

Lemma occ_zero_notin extra id : occ extra id = 0 -> ~ In id extra.
Proof. intros H Hin. apply occ_in_pos in Hin. lia. Qed.

Lemma occ_notin_zero extra id : ~ In id extra -> occ extra id = 0.
Proof.
  induction extra as [|i r IH]; cbn; [reflexivity|].
  intro H. destruct (N.eqb_spec i id) as [->|Hne]; [tauto|]. rewrite IH; tauto.
Qed.

Lemma occ_perm e1 e2 id : Permutation e1 e2 -> occ e1 id = occ e2 id.
Proof. induction 1; cbn; lia. Qed.

Lemma countX_set_x n f v p id : countX n (set f v p) (Some v) id = countX n f (Some v) id.
Proof.
  induction n as [|m IH]; cbn [countX excluded]; [reflexivity|].
  rewrite IH. destruct (N.eqb_spec v (N.of_nat m)) as [E|E]; [reflexivity|].
  rewrite gso by congruence. reflexivity.
Qed.

Lemma countX_out n f v id : (N.of_nat n <= v)%N -> countX n f (Some v) id = countX n f None id.
Proof.
  induction n as [|m IH]; intro H; cbn [countX excluded]; [reflexivity|].
  rewrite IH by lia. destruct (N.eqb_spec v (N.of_nat m)) as [E|E]; [lia|reflexivity].
Qed.

Lemma countX_open n f v id :
  (v < N.of_nat n)%N -> countX n f None id = countX n f (Some v) id + points (get f v) id.
Proof.
  induction n as [|m IH]; intro H; [lia|].
  cbn [countX excluded]. destruct (N.eqb_spec v (N.of_nat m)) as [E|E].
  - subst v. rewrite countX_out by lia. lia.
  - rewrite IH by lia. lia.
Qed.

Lemma countX_zero n f x id u :
  countX n f x id = 0 -> (u < N.of_nat n)%N -> excluded x u = false -> points (get f u) id = 0.
Proof.
  induction n as [|m IH]; intros H Hu Hx; [lia|].
  cbn [countX] in H. destruct (N.eq_dec u (N.of_nat m)) as [E|E].
  - subst u. rewrite Hx in H. lia.
  - apply IH; [lia|lia|exact Hx].
Qed.

Lemma countX_all_zero n f x id :
  (forall u, (u < N.of_nat n)%N -> excluded x u = false -> points (get f u) id = 0) ->
  countX n f x id = 0.
Proof.
  induction n as [|m IH]; intro H; [reflexivity|].
  cbn [countX]. rewrite IH by (intros u Hu Hx; apply H; [lia|exact Hx]).
  destruct (excluded x (N.of_nat m)) eqn:E; [reflexivity|].
  rewrite H by (try lia; exact E). reflexivity.
Qed.

Lemma points_zero p id : points p id = 0 -> p <> Some id.
Proof.
  intros H E. subst p. cbn in H. rewrite N.eqb_refl in H. discriminate.
Qed.

(* ---- the primitives -------------------------------------------------------------------- *)

Lemma InvG_ext nv s a a' h h' x e :
  (forall u, get a' u = get a u) -> (forall u, get h' u = get h u) ->
  InvG nv s a h x e -> InvG nv s a' h' x e.
Proof.
  intros Hext Hext' [H1 H2 H3 H4]. constructor; auto.
  intros u Hu Hx. rewrite Hext, Hext'. auto.
Qed.

Lemma InvG_perm nv s a h x e e' : Permutation e e' -> InvG nv s a h x e -> InvG nv s a h x e'.
Proof.
  intros Hp [H1 H2 H3 H4]. constructor; auto.
  - intros id d Hd. rewrite <- (occ_perm e e' id Hp). auto.
  - intros id Hin. apply H4. eapply Permutation_in; [apply Permutation_sym; exact Hp|exact Hin].
Qed.

Lemma P_open nv s a h v :
  Inv nv s a h -> (v < N.of_nat nv)%N ->
  InvG nv s a h (Some v) (olist (get (vars s) v)) /\ vgood s (get (vars s) v) (get a v) (get h v).
Proof.
  intros [H1 H2 H3 H4] Hv.
  assert (Hg : vgood s (get (vars s) v) (get a v) (get h v)) by (apply H1; auto).
  split; [|exact Hg]. constructor.
  - intros u Hu _. apply H1; auto.
  - intros id d Hd. rewrite (H2 id d Hd). cbn [occ]. rewrite occ_olist.
    rewrite (countX_open nv (vars s) v id Hv). lia.
  - exact H3.
  - intros id Hin. destruct (get (vars s) v) as [j|] eqn:E; cbn in Hin; [|tauto].
    destruct Hin as [<-|[]]. cbn in Hg. destruct Hg as [d [Hd _]]. congruence.
Qed.

Lemma P_close nv s a h v l b :
  InvG nv s a h (Some v) (olist (get (vars s) v)) -> (v < N.of_nat nv)%N ->
  vgood s (get (vars s) v) l b -> Inv nv s (set a v l) (set h v b).
Proof.
  intros [H1 H2 H3 H4] Hv Hg. constructor.
  - intros u Hu _. rewrite !get_set. destruct (N.eqb_spec u v) as [->|Hne]; [exact Hg|].
    apply H1; [exact Hu|]. cbn. destruct (N.eqb_spec v u); congruence.
  - intros id d Hd. rewrite (H2 id d Hd). rewrite occ_olist. cbn [occ].
    rewrite (countX_open nv (vars s) v id Hv). lia.
  - exact H3.
  - intros id [].
Qed.

Lemma P_setvar nv s a h v p extra :
  InvG nv s a h (Some v) extra -> InvG nv (set_var s v p) a h (Some v) extra.
Proof.
  intros [H1 H2 H3 H4]. constructor; cbn [set_var heap vars nxt]; auto.
  - intros u Hu Hx. cbn in Hx. rewrite gso.
    + apply (vgood_frame s); [reflexivity|]. apply H1; auto.
    + destruct (N.eqb_spec v u); congruence.
  - intros id d Hd. rewrite countX_set_x. auto.
Qed.

Lemma P_addref nv s a h x extra id d :
  InvG nv s a h x extra -> get (heap s) id = Some d ->
  add_ref s id = Ok (upd s id (mkD (S (refc d)) (alloced d) (dlen d) (buf d))) /\
  InvG nv (upd s id (mkD (S (refc d)) (alloced d) (dlen d) (buf d))) a h x (id :: extra).
Proof.
  intros [H1 H2 H3 H4] Hd. split.
  - unfold add_ref, deref. rewrite Hd. reflexivity.
  - constructor; cbn [upd heap vars nxt].
    + intros u Hu Hx. apply vgood_upd with (d := d); [exact Hd|repeat split|]. apply H1; auto.
    + intros j e. rewrite get_set. cbn [occ]. destruct (N.eqb_spec j id) as [->|Hne].
      * intro E. inversion E; subst; clear E. cbn [refc]. rewrite N.eqb_refl.
        specialize (H2 id d Hd). lia.
      * intro E. destruct (N.eqb_spec id j); [congruence|]. rewrite (H2 j e E). lia.
    + intros j Hj. rewrite get_set. destruct (N.eqb_spec j id) as [->|Hne]; [|auto].
      rewrite (H3 id Hj) in Hd. discriminate.
    + intros j Hin. rewrite get_set. destruct (N.eqb_spec j id) as [->|Hne]; [discriminate|].
      apply H4. destruct Hin as [E|Hin]; [congruence|exact Hin].
Qed.

Lemma P_delref nv s a h x extra id :
  InvG nv s a h x (id :: extra) ->
  exists s' d, get (heap s) id = Some d /\ del_ref s id = Ok s' /\ InvG nv s' a h x extra /\
    vars s' = vars s /\ nxt s' = nxt s /\
    (forall j, j <> id -> get (heap s') j = get (heap s) j) /\
    (forall p l b, vgood s p l b -> (p = Some id -> refc d <> 0) -> vgood s' p l b) /\
    (refc d <> 0 -> exists d', get (heap s') id = Some d' /\ same_text d d').
Proof.
  intros [H1 H2 H3 H4].
  destruct (get (heap s) id) as [d|] eqn:Hd; [|exfalso; apply (H4 id); [now left|exact Hd]].
  pose proof (H2 id d Hd) as Hc. cbn [occ] in Hc. rewrite N.eqb_refl in Hc.
  unfold del_ref, deref. rewrite Hd. cbn [bind].
  destruct (refc d) as [|r] eqn:Hr.
  - (* freed *)
    assert (Hz : countX nv (vars s) x id = 0) by lia.
    assert (Ho : occ extra id = 0) by lia.
    eexists. exists d. split; [reflexivity|]. split; [reflexivity|].
    assert (Hfr : forall j, j <> id -> get (set (heap s) id None) j = get (heap s) j)
      by (intros j Hj; now rewrite gso).
    split; [|split; [reflexivity|split; [reflexivity|split; [exact Hfr|split; [|intro Hc0; congruence]]]]].
    + constructor; cbn [heap vars nxt].
      * intros u Hu Hx. apply (vgood_frame s); [|apply H1; auto].
        intros j E. apply Hfr. intro Ej. subst j.
        pose proof (countX_zero nv (vars s) x id u Hz Hu Hx) as Hp.
        apply points_zero in Hp. congruence.
      * intros j e. rewrite get_set. destruct (N.eqb_spec j id) as [->|Hne]; [discriminate|].
        intro E. rewrite (H2 j e E). cbn [occ]. destruct (N.eqb_spec id j); [congruence|]. lia.
      * intros j Hj. rewrite get_set. destruct (N.eqb_spec j id); [reflexivity|auto].
      * intros j Hin. rewrite get_set. destruct (N.eqb_spec j id) as [->|Hne].
        -- exfalso. apply (occ_zero_notin extra id Ho). exact Hin.
        -- apply H4. now right.
    + intros p l b Hg Hp. apply (vgood_frame s); [|exact Hg].
      intros j E. apply Hfr. intro Ej. subst j. now apply Hp.
  - (* one owner less *)
    eexists. exists d. split; [reflexivity|]. split; [reflexivity|].
    split; [|split; [reflexivity|split; [reflexivity|split; [|split]]]].
    + constructor; cbn [upd heap vars nxt].
      * intros u Hu Hx. apply vgood_upd with (d := d); [exact Hd|repeat split|]. apply H1; auto.
      * intros j e. rewrite get_set. destruct (N.eqb_spec j id) as [->|Hne].
        -- intro E. inversion E; subst; clear E. cbn [refc]. lia.
        -- intro E. rewrite (H2 j e E). cbn [occ]. destruct (N.eqb_spec id j); [congruence|]. lia.
      * intros j Hj. rewrite get_set. destruct (N.eqb_spec j id) as [->|Hne]; [|auto].
        rewrite (H3 id Hj) in Hd. discriminate.
      * intros j Hin. rewrite get_set. destruct (N.eqb_spec j id) as [->|Hne]; [discriminate|].
        apply H4. now right.
    + intros j Hj. cbn [upd heap]. now rewrite gso.
    + intros p l b Hg _. apply vgood_upd with (d := d); [exact Hd|repeat split|exact Hg].
    + intros _. eexists. cbn [upd heap]. rewrite gss. split; [reflexivity|repeat split].
Qed.

Lemma vgood_new s d p l b :
  get (heap s) (nxt s) = None -> vgood s p l b -> vgood (new_data s d) p l b.
Proof.
  intros Hf Hg. apply (vgood_frame s); [|exact Hg].
  intros j E. subst p. cbn [new_data heap]. rewrite gso; [reflexivity|].
  intro Ej. subst j. cbn in Hg. destruct Hg as [e [He _]]. congruence.
Qed.

Lemma P_new nv s a h x extra d :
  InvG nv s a h x extra -> refc d = 0 ->
  InvG nv (new_data s d) a h x (nxt s :: extra).
Proof.
  intros [H1 H2 H3 H4] Hr.
  assert (Hf : get (heap s) (nxt s) = None) by (apply H3; lia).
  constructor; cbn [new_data heap vars nxt].
  - intros u Hu Hx. apply vgood_new; [exact Hf|]. apply H1; auto.
  - intros j e. rewrite get_set. cbn [occ]. destruct (N.eqb_spec j (nxt s)) as [->|Hne].
    + intro E. inversion E; subst; clear E. rewrite Hr. rewrite N.eqb_refl.
      rewrite countX_all_zero.
      * rewrite occ_notin_zero; [lia|]. intro Hin. apply (H4 _ Hin). exact Hf.
      * intros u Hu Hx. specialize (H1 u Hu Hx).
        destruct (get (vars s) u) as [k|] eqn:Ek; [|reflexivity].
        cbn. destruct (N.eqb_spec k (nxt s)) as [->|]; [|reflexivity].
        cbn in H1. destruct H1 as [e' [He' _]]. congruence.
    + intro E. rewrite (H2 j e E). destruct (N.eqb_spec (nxt s) j); [congruence|]. lia.
  - intros j Hj. rewrite gso by lia. apply H3. lia.
  - intros j Hin. rewrite get_set. destruct (N.eqb_spec j (nxt s)) as [->|Hne]; [discriminate|].
    apply H4. destruct Hin as [E|Hin]; [congruence|exact Hin].
Qed.

Lemma P_upd nv s a h x extra id d d' :
  InvG nv s a h x extra -> get (heap s) id = Some d -> refc d = 0 -> In id extra -> refc d' = 0 ->
  InvG nv (upd s id d') a h x extra.
Proof.
  intros [H1 H2 H3 H4] Hd Hr Hin Hr'.
  pose proof (H2 id d Hd) as Hc. pose proof (occ_in_pos extra id Hin) as Ho.
  assert (Hz : countX nv (vars s) x id = 0) by lia.
  constructor; cbn [upd heap vars nxt].
  - intros u Hu Hx. apply (vgood_frame s); [|apply H1; auto].
    intros j E. cbn [upd heap]. rewrite gso; [reflexivity|]. intro Ej. subst j.
    pose proof (countX_zero nv (vars s) x id u Hz Hu Hx) as Hp.
    apply points_zero in Hp. congruence.
  - intros j e. rewrite get_set. destruct (N.eqb_spec j id) as [->|Hne].
    + intro E. inversion E; subst; clear E. rewrite Hr'. rewrite <- Hr. exact Hc.
    + intro E. apply H2. exact E.
  - intros j Hj. rewrite get_set. destruct (N.eqb_spec j id) as [->|Hne]; [|auto].
    rewrite (H3 id Hj) in Hd. discriminate.
  - intros j Hj. rewrite get_set. destruct (N.eqb_spec j id) as [->|Hne]; [discriminate|auto].
Qed.

(* a variable other than the one being modified does not point to storage that the
   operation owns exclusively *)
Lemma sole_owner nv s a h x extra id d u :
  InvG nv s a h x extra -> get (heap s) id = Some d -> refc d = 0 -> In id extra ->
  (u < N.of_nat nv)%N -> excluded x u = false -> get (vars s) u <> Some id.
Proof.
  intros [H1 H2 H3 H4] Hd Hr Hin Hu Hx.
  pose proof (H2 id d Hd) as Hc. pose proof (occ_in_pos extra id Hin) as Ho.
  assert (Hz : countX nv (vars s) x id = 0) by lia.
  apply points_zero. eapply countX_zero; eauto.
Qed.

(* closing an operation on v whose storage it owns exclusively *)
Lemma P_finish nv s a h v id d d' l b :
  InvG nv s a h (Some v) [id] -> (v < N.of_nat nv)%N ->
  get (vars s) v = Some id -> get (heap s) id = Some d -> refc d = 0 ->
  good d' l -> refc d' = 0 ->
  Inv nv (upd s id d') (set a v l) (set h v b).
Proof.
  intros HG Hv Hp Hd Hr Hg Hr'.
  apply P_close; [|exact Hv|].
  - cbn [upd vars]. rewrite Hp. cbn [olist]. eapply P_upd; eauto. now left.
  - cbn [upd vars]. rewrite Hp. cbn [vgood upd heap]. exists d'. rewrite gss. auto.
Qed.

Lemma Inv_init nv : Inv nv init abs_init has_init.
Proof.
  constructor; cbn [init heap vars nxt].
  - intros u _ _. rewrite get_empty. cbn. unfold abs_init, has_init. now rewrite !get_empty.
  - intros id d. rewrite get_empty. discriminate.
  - intros id _. now rewrite get_empty.
  - intros id [].
Qed.
