(* C18str/ProofsStep.v — every operation of the alphabet of the theorem simulates its
   specification (one lemma per operation), and the step lemma. *)
From Coq Require Import ZArith NArith List Bool Arith Lia Permutation.
From Morfuse Require Import Base.Arr C18str.Model C18str.Spec C18str.ProofsLib C18str.ProofsInv
  C18str.ProofsOps.
Import ListNotations.

(* the common tail of the operations that store into storage they own exclusively *)
Lemma finish_write nv s1 a v id d off bytes l' n rest' nb :
  InvG nv s1 a (Some v) [id] -> (v < N.of_nat nv)%N ->
  get (vars s1) v = Some id -> get (heap s1) id = Some d -> refc d = 0 ->
  alloced d <= length (buf d) ->
  write_at (buf d) off bytes = Some nb -> nb = l' ++ 0%N :: rest' -> nz l' -> n = length l' ->
  Inv nv (upd s1 id (mkD (refc d) (alloced d) n nb)) (set a v l').
Proof.
  intros HG Hv Ev Hd Hr Hal Hw Hnb Hn Hlen.
  eapply P_finish; eauto.
  split; [|exact Hlen]. exists rest'. cbn [buf alloced].
  split; [exact Hnb|]. split; [exact Hn|]. rewrite (write_at_length _ _ _ _ Hw). exact Hal.
Qed.

Lemma Inv_same nv s a v : Inv nv s a -> Inv nv s (set a v (get a v)).
Proof.
  apply InvG_ext. intro u. rewrite get_set. destruct (N.eqb_spec u v) as [->|]; reflexivity.
Qed.

Lemma Inv_set_eq nv s a v l : l = get a v -> Inv nv s a -> Inv nv s (set a v l).
Proof. intros ->. apply Inv_same. Qed.

(* ---- clear / operator=(const char* ) ------------------------------------------------------ *)

Lemma clear_G nv s a v :
  Inv nv s a -> (v < N.of_nat nv)%N ->
  exists s1, clear s v = Ok s1 /\ InvG nv s1 a (Some v) [] /\ get (vars s1) v = None /\
             (forall u, u <> v -> get (vars s1) u = get (vars s) u).
Proof.
  intros HI Hv. destruct (P_open nv s a v HI Hv) as [HG _]. unfold clear.
  destruct (get (vars s) v) as [id|] eqn:Ev; cbn [olist] in HG.
  - destruct (P_delref _ _ _ _ _ _ HG) as [s2 [d [Hd [Hdel [HG2 [Hvars [_ _]]]]]]].
    rewrite Hdel. cbn [bind]. eexists. split; [reflexivity|]. split; [|split].
    + apply P_setvar. exact HG2.
    + cbn [set_var vars]. apply gss.
    + intros u Hu. cbn [set_var vars]. rewrite gso by exact Hu. now rewrite Hvars.
  - exists s. auto.
Qed.

Lemma clear_ok nv s a v :
  Inv nv s a -> (v < N.of_nat nv)%N ->
  exists s', clear s v = Ok s' /\ Inv nv s' (set a v []).
Proof.
  intros HI Hv. destruct (clear_G nv s a v HI Hv) as [s1 [Hc [HG [Ev _]]]].
  exists s1. split; [exact Hc|]. apply P_close; [rewrite Ev; exact HG|exact Hv|].
  rewrite Ev. reflexivity.
Qed.

Lemma set_text_ok nv s a v t :
  Inv nv s a -> (v < N.of_nat nv)%N -> nz t ->
  exists s', set_text s v t = Ok s' /\ Inv nv s' (set a v t).
Proof.
  intros HI Hv Hn. destruct (clear_G nv s a v HI Hv) as [s1 [Hc [HG [Ev _]]]].
  unfold set_text. rewrite Hc. cbn [bind]. destruct t as [|c t'].
  - exists s1. split; [reflexivity|]. apply P_close; [rewrite Ev; exact HG|exact Hv|].
    rewrite Ev. reflexivity.
  - eexists. split; [reflexivity|].
    apply P_close; [|exact Hv|]; cbn [set_var vars]; rewrite gss.
    + cbn [olist]. apply P_setvar. apply P_new; [exact HG|reflexivity].
    + cbn [vgood set_var new_data heap]. eexists. rewrite gss. split; [reflexivity|].
      split; [|reflexivity]. exists []. cbn [buf alloced].
      split; [reflexivity|]. split; [exact Hn|]. rewrite app_length. cbn. lia.
Qed.

(* ---- operator=(const str&), copy construction, v = w.c_str() ------------------------------ *)

Lemma assign_str_ok nv s a v w :
  Inv nv s a -> (v < N.of_nat nv)%N -> (w < N.of_nat nv)%N ->
  exists s', assign_str s v w = Ok s' /\ Inv nv s' (set a v (get a w)).
Proof.
  intros HI Hv Hw.
  assert (Hgw : vgood s (get (vars s) w) (get a w)) by (apply (g_vars _ _ _ _ _ HI); auto).
  destruct (P_open nv s a v HI Hv) as [HG _].
  unfold assign_str.
  (* AddRef of w's storage *)
  assert (H1 : exists s1, match get (vars s) w with Some idw => add_ref s idw | None => Ok s end = Ok s1 /\
             InvG nv s1 a (Some v) (olist (get (vars s) w) ++ olist (get (vars s) v)) /\
             vars s1 = vars s /\ vgood s1 (get (vars s) w) (get a w) /\
             (forall idw d, get (vars s) w = Some idw -> get (heap s1) idw = Some d -> refc d <> 0)).
  { destruct (get (vars s) w) as [idw|] eqn:Ew.
    - cbn [vgood] in Hgw. destruct Hgw as [d [Hd Hg]].
      destruct (P_addref nv s a (Some v) _ idw d HG Hd) as [Ha HG1].
      eexists. split; [exact Ha|]. split; [exact HG1|]. split; [reflexivity|]. split.
      + cbn [vgood upd heap]. eexists. rewrite gss. split; [reflexivity|].
        eapply good_same; [|exact Hg]. repeat split.
      + intros idw' d' E. inversion E; subst idw'. cbn [upd heap]. rewrite gss.
        intro E'. inversion E'; subst d'. cbn [refc]. lia.
    - exists s. split; [reflexivity|]. split; [exact HG|]. split; [reflexivity|]. split; [exact Hgw|].
      intros idw d E. discriminate. }
  destruct H1 as [s1 [Ha [HG1 [Hvars1 [Hgw1 Hrc]]]]]. rewrite Ha. cbn [bind]. rewrite Hvars1.
  (* DelRef of v's old storage *)
  assert (H2 : exists s2, match get (vars s) v with Some idv => del_ref s1 idv | None => Ok s1 end = Ok s2 /\
             InvG nv s2 a (Some v) (olist (get (vars s) w)) /\
             vars s2 = vars s /\ vgood s2 (get (vars s) w) (get a w)).
  { destruct (get (vars s) v) as [idv|] eqn:Ev; cbn [olist] in HG1.
    - assert (HG1' : InvG nv s1 a (Some v) (idv :: olist (get (vars s) w))).
      { eapply InvG_perm; [|exact HG1]. apply Permutation_sym. apply Permutation_cons_append. }
      destruct (P_delref _ _ _ _ _ _ HG1') as [s2 [d [Hd [Hdel [HG2 [Hvars2 [_ [_ Hvg]]]]]]]].
      exists s2. split; [exact Hdel|]. split; [exact HG2|]. split; [congruence|].
      apply Hvg; [exact Hgw1|]. intro E. eapply Hrc; eauto.
    - exists s1. rewrite app_nil_r in HG1. auto. }
  destruct H2 as [s2 [Hdel [HG2 [Hvars2 Hgw2]]]]. rewrite Hdel. cbn [bind]. rewrite Hvars2.
  eexists. split; [reflexivity|].
  apply P_close; [|exact Hv|]; cbn [set_var vars]; rewrite gss.
  - apply P_setvar. exact HG2.
  - apply (vgood_frame s2); [reflexivity|exact Hgw2].
Qed.

Lemma ctor_copy_ok nv s a v w :
  Inv nv s a -> (v < N.of_nat nv)%N -> (w < N.of_nat nv)%N ->
  exists s', ctor_copy s v w = Ok s' /\ Inv nv s' (if N.eqb v w then a else set a v (get a w)).
Proof.
  intros HI Hv Hw. unfold ctor_copy. destruct (N.eqb_spec v w) as [E|Hne].
  - exists s. auto.
  - destruct (clear_G nv s a v HI Hv) as [s1 [Hc [HG [Ev Hoth]]]].
    rewrite Hc. cbn [bind]. cbn [set_var vars]. rewrite gss.
    assert (Hgw : vgood s1 (get (vars s1) w) (get a w)).
    { apply (g_vars _ _ _ _ _ HG); [exact Hw|]. cbn. destruct (N.eqb_spec v w); congruence. }
    destruct (get (vars s1) w) as [idw|] eqn:Ew.
    + cbn [vgood] in Hgw. destruct Hgw as [d [Hd Hg]].
      assert (HG2 : InvG nv (set_var s1 v (Some idw)) a (Some v) []) by (apply P_setvar; exact HG).
      destruct (P_addref nv _ a (Some v) [] idw d HG2 Hd) as [Ha HG3].
      rewrite Ha. eexists. split; [reflexivity|].
      apply P_close; [|exact Hv|]; cbn [upd set_var vars]; rewrite gss.
      * exact HG3.
      * cbn [vgood upd heap]. eexists. rewrite gss. split; [reflexivity|].
        eapply good_same; [|exact Hg]. repeat split.
    + eexists. split; [reflexivity|].
      apply P_close; [|exact Hv|]; cbn [set_var vars]; rewrite gss.
      * apply P_setvar. exact HG.
      * exact Hgw.
Qed.

Lemma assign_cstr_ok nv s a v w :
  Inv nv s a -> (v < N.of_nat nv)%N -> (w < N.of_nat nv)%N ->
  exists s', assign_cstr s v w = Ok s' /\ Inv nv s' (set a v (clit (get a w))).
Proof.
  intros HI Hv Hw.
  assert (Hgw : vgood s (get (vars s) w) (get a w)) by (apply (g_vars _ _ _ _ _ HI); auto).
  assert (Hgv : vgood s (get (vars s) v) (get a v)) by (apply (g_vars _ _ _ _ _ HI); auto).
  rewrite (clit_nz _ (vgood_nz _ _ _ Hgw)).
  unfold assign_cstr. destruct (get (vars s) w) as [idw|] eqn:Ew.
  - cbn [vgood] in Hgw. destruct Hgw as [dw [Hdw Hg]].
    assert (Hgo : exists s', (do dw0 <- deref s idw; do t <- ov (cstr (buf dw0)); set_text s v t) = Ok s' /\
                             Inv nv s' (set a v (get a w))).
    { unfold deref. rewrite Hdw. cbn [bind]. rewrite (good_text _ _ Hg). cbn [ov bind].
      apply set_text_ok; auto. eapply good_nz; eauto. }
    destruct (get (vars s) v) as [idv|] eqn:Ev; [|exact Hgo].
    destruct (N.eqb_spec idv idw) as [E|Hne]; [|exact Hgo].
    subst idv. exists s. split; [reflexivity|].
    cbn [vgood] in Hgv. destruct Hgv as [dv [Hdv Hg']].
    apply Inv_set_eq; [|exact HI]. rewrite Hdw in Hdv. inversion Hdv; subst dv.
    eapply good_unique; eauto.
  - cbn [vgood] in Hgw. rewrite Hgw. apply set_text_ok; auto. apply nz_nil.
Qed.

(* ---- the appends ------------------------------------------------------------------------- *)

Lemma append_lit_ok nv s a v lit :
  Inv nv s a -> (v < N.of_nat nv)%N -> (isnil (get a v) && isnil (clit lit))%bool = false ->
  exists s', append_lit s v lit = Ok s' /\ Inv nv s' (set a v (get a v ++ clit lit)).
Proof.
  intros HI Hv Hpre. destruct (P_open nv s a v HI Hv) as [HG Hg].
  unfold append_lit. rewrite (length_of_good _ _ _ Hg). cbn [bind].
  set (l := get a v) in *. set (t := clit lit) in *.
  destruct (ensure_alloced_ok nv s a v l (length l + length t + 1) HG Hg ltac:(lia))
    as [s1 [He [HG1 Hpost]]].
  rewrite He. cbn [bind].
  destruct (get (vars s1) v) as [id|] eqn:Ev1.
  - destruct Hpost as [d [Hd [Hc [Hr Hamt]]]]. cbn [olist] in HG1.
    rewrite (with_data_some s1 v id d _ Ev1 Hd).
    rewrite (content_text _ _ Hc). cbn [ov bind].
    destruct Hc as [rest [Hb [Hn Hal]]].
    assert (Hw : write_at (buf d) (length l) (t ++ [0%N]) =
                 Some (l ++ (t ++ [0%N]) ++ skipn (length (t ++ [0%N])) (0%N :: rest))).
    { rewrite Hb. apply write_at_app. rewrite Hb in Hamt. rewrite !app_length in *. cbn [length] in *. lia. }
    rewrite Hw. cbn [ov bind]. eexists. split; [reflexivity|].
    eapply finish_write with (rest' := skipn (length (t ++ [0%N])) (0%N :: rest)); eauto.
    + rewrite <- !app_assoc. reflexivity.
    + apply nz_app; [exact Hn|apply nz_clit].
    + now rewrite app_length.
  - destruct Hpost as [Hl Hamt]. exfalso.
    assert (Ht : length t = 0) by lia. destruct t; [|discriminate]. rewrite Hl in Hpre. discriminate.
Qed.

Lemma append_char_ok nv s a v c :
  Inv nv s a -> (v < N.of_nat nv)%N ->
  exists s', append_char s v c = Ok s' /\
             Inv nv s' (if N.eqb c 0 then a else set a v (get a v ++ [c])).
Proof.
  intros HI Hv. unfold append_char. destruct (N.eqb_spec c 0) as [E|Hc0].
  - exists s. auto.
  - destruct (P_open nv s a v HI Hv) as [HG Hg].
    rewrite (length_of_good _ _ _ Hg). cbn [bind]. set (l := get a v) in *.
    destruct (ensure_alloced_ok nv s a v l (length l + 1 + 1) HG Hg ltac:(lia))
      as [s1 [He [HG1 Hpost]]].
    rewrite He. cbn [bind].
    destruct (get (vars s1) v) as [id|] eqn:Ev1; [|destruct Hpost; lia].
    destruct Hpost as [d [Hd [Hc [Hr Hamt]]]]. cbn [olist] in HG1.
    rewrite (with_data_some s1 v id d _ Ev1 Hd).
    destruct Hc as [rest [Hb [Hn Hal]]].
    assert (Hw : write_at (buf d) (length l) [c; 0%N] =
                 Some (l ++ [c; 0%N] ++ skipn 2 (0%N :: rest))).
    { rewrite Hb. apply (write_at_app l (0%N :: rest) [c; 0%N]).
      rewrite Hb in Hamt. rewrite !app_length in *. cbn [length] in *. lia. }
    rewrite Hw. cbn [ov bind]. eexists. split; [reflexivity|].
    eapply finish_write with (rest' := skipn 2 (0%N :: rest)); eauto.
    + rewrite <- !app_assoc. reflexivity.
    + apply nz_app; [exact Hn|]. constructor; [exact Hc0|constructor].
    + rewrite app_length. cbn. lia.
Qed.

Lemma append_str_ok nv s a v w :
  Inv nv s a -> (v < N.of_nat nv)%N -> (w < N.of_nat nv)%N -> v <> w ->
  (isnil (get a v) && isnil (get a w))%bool = false ->
  exists s', append_str s v w = Ok s' /\ Inv nv s' (set a v (get a v ++ get a w)).
Proof.
  intros HI Hv Hw Hne Hpre.
  assert (Hgw : vgood s (get (vars s) w) (get a w)) by (apply (g_vars _ _ _ _ _ HI); auto).
  destruct (P_open nv s a v HI Hv) as [HG Hg].
  unfold append_str. rewrite (length_of_good _ _ _ Hg), (length_of_good _ _ _ Hgw). cbn [bind].
  set (l := get a v) in *. set (t := get a w) in *.
  destruct (ensure_alloced_ok nv s a v l (length l + length t + 1) HG Hg ltac:(lia))
    as [s1 [He [HG1 Hpost]]].
  rewrite He. cbn [bind].
  assert (Hxw : excluded (Some v) w = false) by (cbn; destruct (N.eqb_spec v w); congruence).
  assert (Hgw1 : vgood s1 (get (vars s1) w) t) by (apply (g_vars _ _ _ _ _ HG1); auto).
  destruct (get (vars s1) v) as [id|] eqn:Ev1.
  - destruct Hpost as [d [Hd [Hc [Hr Hamt]]]]. cbn [olist] in HG1.
    rewrite (with_data_some s1 v id d _ Ev1 Hd).
    rewrite (content_text _ _ Hc). cbn [ov bind].
    destruct Hc as [rest [Hb [Hn Hal]]].
    assert (Hw' : write_at (buf d) (length l) (t ++ [0%N]) =
                 Some (l ++ (t ++ [0%N]) ++ skipn (length (t ++ [0%N])) (0%N :: rest))).
    { rewrite Hb. apply write_at_app. rewrite Hb in Hamt. rewrite !app_length in *. cbn [length] in *. lia. }
    assert (Hfin : Inv nv (upd s1 id (mkD (refc d) (alloced d) (length l + length t)
                     (l ++ (t ++ [0%N]) ++ skipn (length (t ++ [0%N])) (0%N :: rest))))
                     (set a v (l ++ t))).
    { eapply finish_write with (rest' := skipn (length (t ++ [0%N])) (0%N :: rest)); eauto.
      - rewrite <- !app_assoc. reflexivity.
      - apply nz_app; [exact Hn|]. eapply vgood_nz; eauto.
      - now rewrite app_length. }
    destruct (get (vars s1) w) as [idw|] eqn:Ew1.
    + assert (Hidw : idw <> id).
      { intro E. subst idw.
        apply (sole_owner nv s1 a (Some v) [id] id d w HG1 Hd Hr ltac:(now left) Hw Hxw). exact Ew1. }
      destruct (N.eqb_spec idw id) as [E|_]; [contradiction|].
      cbn [vgood] in Hgw1. destruct Hgw1 as [dw [Hdw Hgdw]].
      unfold deref. rewrite Hdw. cbn [bind]. rewrite (good_text _ _ Hgdw). cbn [ov bind].
      rewrite Hw'. cbn [ov bind]. eexists. split; [reflexivity|exact Hfin].
    + cbn [vgood] in Hgw1. rewrite Hgw1 in *. cbn [app] in Hw'. rewrite Hw'. cbn [ov bind].
      eexists. split; [reflexivity|exact Hfin].
  - destruct Hpost as [Hl Hamt]. exfalso.
    assert (Ht : length t = 0) by lia. destruct t; [|discriminate]. rewrite Hl in Hpre. discriminate.
Qed.

(* ---- operations that call EnsureDataWritable --------------------------------------------- *)

Lemma set_char_ok nv s a v i c :
  Inv nv s a -> (v < N.of_nat nv)%N -> get a v <> [] -> c <> 0%N ->
  exists s', set_char s v i c = Ok s' /\ Inv nv s' (set a v (set_nth (get a v) i c)).
Proof.
  intros HI Hv Hnn Hc.
  destruct (open_writable nv s a v HI Hv Hnn) as [s1 [id [d [He [HG [Ev [Hd [Hg Hr]]]]]]]].
  unfold set_char. rewrite He. cbn [bind]. rewrite (with_data_some s1 v id d _ Ev Hd).
  destruct Hg as [[rest [Hb [Hn Hal]]] Hlen]. rewrite Hlen.
  destruct (Nat.leb_spec (length (get a v)) i) as [Hge|Hlt].
  - exists s1. split; [reflexivity|]. rewrite set_nth_oob by exact Hge.
    apply P_close; [rewrite Ev; exact HG|exact Hv|]. rewrite Ev. cbn [vgood].
    exists d. split; [exact Hd|]. split; [exists rest; auto|exact Hlen].
  - assert (Hw : write_at (buf d) i [c] = Some (set_nth (get a v) i c ++ 0%N :: rest))
      by (rewrite Hb; now apply write_at_set_nth).
    rewrite Hw. cbn [ov bind]. eexists. split; [reflexivity|].
    eapply finish_write; eauto.
    + now apply nz_set_nth.
    + rewrite set_nth_length. reflexivity.
Qed.

Lemma write_zero l q n : n < length l ->
  write_at (l ++ q) n [0%N] = Some (firstn n l ++ 0%N :: (skipn (S n) l ++ q)).
Proof.
  intro H. rewrite write_at_set_nth by exact H. rewrite set_nth_split by exact H.
  rewrite <- app_assoc. reflexivity.
Qed.

Lemma cap_length_ok nv s a v n :
  Inv nv s a -> (v < N.of_nat nv)%N ->
  exists s', cap_length s v n = Ok s' /\ Inv nv s' (set a v (firstn n (get a v))).
Proof.
  intros HI Hv. destruct (P_open nv s a v HI Hv) as [_ Hg0].
  unfold cap_length. rewrite (length_of_good _ _ _ Hg0). cbn [bind].
  destruct (Nat.leb_spec (length (get a v)) n) as [Hle|Hgt].
  - exists s. split; [reflexivity|]. apply Inv_set_eq; [|exact HI]. now apply firstn_all2.
  - assert (Hnn : get a v <> []) by (intro E; rewrite E in Hgt; cbn in Hgt; lia).
    destruct (open_writable nv s a v HI Hv Hnn) as [s1 [id [d [He [HG [Ev [Hd [Hg Hr]]]]]]]].
    rewrite He. cbn [bind]. rewrite (with_data_some s1 v id d _ Ev Hd).
    destruct Hg as [[rest [Hb [Hn Hal]]] Hlen].
    assert (Hw : write_at (buf d) n [0%N] =
                 Some (firstn n (get a v) ++ 0%N :: (skipn (S n) (get a v) ++ 0%N :: rest)))
      by (rewrite Hb; now apply write_zero).
    rewrite Hw. cbn [ov bind]. eexists. split; [reflexivity|].
    eapply finish_write; eauto.
    + now apply nz_firstn.
    + rewrite firstn_length. lia.
Qed.

Lemma minus_ok nv s a v c :
  Inv nv s a -> (v < N.of_nat nv)%N ->
  exists s', minus s v c = Ok s' /\
    Inv nv s' (if Z.leb c 0 then a
               else set a v (firstn (length (get a v) - Z.to_nat c) (get a v))).
Proof.
  intros HI Hv. destruct (P_open nv s a v HI Hv) as [_ Hg0].
  unfold minus. destruct (get (vars s) v) as [id0|] eqn:Ev0.
  - cbn [vgood] in Hg0. destruct Hg0 as [d0 [Hd0 Hg0]]. unfold deref at 1. rewrite Hd0. cbn [bind].
    assert (Hl0 : dlen d0 = length (get a v)) by apply Hg0.
    destruct (Z.leb_spec c 0) as [Hc|Hc].
    + rewrite orb_true_r. exists s. auto.
    + rewrite orb_false_r. destruct (Nat.eqb_spec (dlen d0) 0) as [Hz|Hnz].
      * exists s. split; [reflexivity|]. apply Inv_set_eq; [|exact HI].
        rewrite Hl0 in Hz. destruct (get a v); [now rewrite firstn_nil|discriminate].
      * assert (Hnn : get a v <> []) by (intro E; rewrite E in Hl0; cbn in Hl0; lia).
        destruct (open_writable nv s a v HI Hv Hnn) as [s1 [id [d [He [HG [Ev [Hd [Hg Hr]]]]]]]].
        rewrite He. cbn [bind]. rewrite (with_data_some s1 v id d _ Ev Hd).
        destruct Hg as [[rest [Hb [Hn Hal]]] Hlen]. rewrite Hlen.
        set (l := get a v) in *. set (cn := Z.to_nat c).
        assert (Hcn : 1 <= cn) by (unfold cn; lia).
        assert (Hnl : (if Nat.leb (length l) cn then 0 else length l - cn) = length l - cn)
          by (destruct (Nat.leb_spec (length l) cn); lia).
        rewrite Hnl.
        assert (Hl1 : 1 <= length l) by (apply nonnil_length; exact Hnn).
        assert (Hw : write_at (buf d) (length l - cn) [0%N] =
                     Some (firstn (length l - cn) l ++ 0%N :: (skipn (S (length l - cn)) l ++ 0%N :: rest)))
          by (rewrite Hb; apply write_zero; lia).
        rewrite Hw. cbn [ov bind]. eexists. split; [reflexivity|].
        eapply finish_write; eauto.
        -- now apply nz_firstn.
        -- rewrite firstn_length. lia.
  - cbn [vgood] in Hg0. exists s. split; [reflexivity|].
    destruct (Z.leb c 0); [exact HI|]. apply Inv_set_eq; [|exact HI]. rewrite Hg0. now rewrite firstn_nil.
Qed.

Lemma map_case_ok nv s a v f :
  (forall c, c <> 0%N -> f c <> 0%N) ->
  Inv nv s a -> (v < N.of_nat nv)%N -> get a v <> [] ->
  exists s', map_case f s v = Ok s' /\ Inv nv s' (set a v (map f (get a v))).
Proof.
  intros Hf HI Hv Hnn.
  destruct (open_writable nv s a v HI Hv Hnn) as [s1 [id [d [He [HG [Ev [Hd [Hg Hr]]]]]]]].
  unfold map_case. rewrite He. cbn [bind]. rewrite (with_data_some s1 v id d _ Ev Hd).
  rewrite (good_text _ _ Hg). cbn [ov bind].
  destruct Hg as [[rest [Hb [Hn Hal]]] Hlen]. set (l := get a v) in *.
  assert (Hw : write_at (buf d) 0 (map f l) = Some (map f l ++ 0%N :: rest)).
  { rewrite write_at_0.
    - rewrite Hb. rewrite map_length. rewrite skipn_app, skipn_all, Nat.sub_diag. reflexivity.
    - rewrite Hb, map_length, app_length. lia. }
  rewrite Hw. cbn [ov bind]. eexists. split; [reflexivity|].
  eapply finish_write; eauto.
  - now apply nz_map.
  - rewrite map_length. exact Hlen.
Qed.

(* ---- pure observations ------------------------------------------------------------------- *)

Lemma get_char_ok nv s a v i :
  Inv nv s a -> (v < N.of_nat nv)%N -> get_char s v i = Ok (nth i (get a v) 0%N).
Proof.
  intros HI Hv. assert (Hg : vgood s (get (vars s) v) (get a v)) by (apply (g_vars _ _ _ _ _ HI); auto).
  unfold get_char. destruct (get (vars s) v) as [id|].
  - cbn [vgood] in Hg. destruct Hg as [d [Hd [[rest [Hb [Hn Hal]]] Hlen]]].
    unfold deref. rewrite Hd. cbn [bind]. rewrite Hlen.
    destruct (Nat.leb_spec (length (get a v)) i) as [Hge|Hlt].
    + now rewrite nth_overflow.
    + rewrite Hb. rewrite nth_error_text by exact Hlt. reflexivity.
  - cbn [vgood] in Hg. rewrite Hg. now destruct i.
Qed.

Lemma c_str_ok nv s a v :
  Inv nv s a -> (v < N.of_nat nv)%N -> c_str_of s v = Ok (get a v) /\ clit (get a v) = get a v.
Proof.
  intros HI Hv. assert (Hg : vgood s (get (vars s) v) (get a v)) by (apply (g_vars _ _ _ _ _ HI); auto).
  split; [now apply c_str_of_good|]. apply clit_nz. eapply vgood_nz; eauto.
Qed.

Lemma observe_ok nv s a : Inv nv s a -> observe nv s = Ok (spec_observe nv a).
Proof.
  intro HI. unfold observe, spec_observe.
  assert (H : forall vs, (forall u, In u vs -> u < nv) ->
            observe_vars s vs = Ok (map (fun v => (clit (get a (N.of_nat v)), length (get a (N.of_nat v)))) vs)).
  { induction vs as [|u r IH]; intro Hin; [reflexivity|].
    cbn [observe_vars map].
    assert (Hu : (N.of_nat u < N.of_nat nv)%N) by (specialize (Hin u (or_introl eq_refl)); lia).
    destruct (c_str_ok nv s a _ HI Hu) as [Hc Hl]. rewrite Hc. cbn [bind].
    assert (Hg : vgood s (get (vars s) (N.of_nat u)) (get a (N.of_nat u))) by (apply (g_vars _ _ _ _ _ HI); auto).
    rewrite (length_of_good _ _ _ Hg). cbn [bind].
    rewrite IH by (intros x Hx; apply Hin; now right). cbn [bind]. rewrite Hl. reflexivity. }
  apply H. intros u Hu. apply in_seq in Hu. lia.
Qed.

(* ---- the step ---------------------------------------------------------------------------- *)

Lemma step_sim nv s a o :
  Inv nv s a -> pre nv a o = true ->
  exists s', step s o = Ok (s', snd (spec_step a o)) /\ Inv nv s' (fst (spec_step a o)).
Proof.
  intros HI Hpre.
  assert (Hnores : forall (x : outcome st) a', (exists s', x = Ok s' /\ Inv nv s' a') ->
            exists s', nores x = Ok (s', RNone) /\ Inv nv s' a').
  { intros x a' [s' [-> H]]. exists s'. split; [reflexivity|exact H]. }
  destruct o; cbn [pre] in Hpre; cbn [step spec_step fst snd];
    repeat (apply andb_prop in Hpre; destruct Hpre as [Hpre ?]);
    repeat match goal with H : inr _ _ = true |- _ => apply inr_lt in H end;
    repeat match goal with H : negb _ = true |- _ => apply negb_true_iff in H end;
    try discriminate.
  - apply Hnores. apply set_text_ok; auto. apply nz_clit.
  - apply Hnores. apply assign_str_ok; auto.
  - apply Hnores. apply ctor_copy_ok; auto.
  - apply Hnores. apply assign_cstr_ok; auto.
  - apply Hnores. apply append_lit_ok; auto.
  - apply Hnores. apply append_char_ok; auto.
  - apply Hnores. apply append_str_ok; auto. now apply N.eqb_neq.
  - apply Hnores. apply set_char_ok; auto; [now apply isnil_false|now apply N.eqb_neq].
  - rewrite (get_char_ok nv s a v i HI) by auto. exists s. split; [reflexivity|exact HI].
  - apply Hnores. apply cap_length_ok; auto.
  - apply Hnores. apply minus_ok; auto.
  - apply Hnores. apply clear_ok; auto.
  - apply Hnores. apply map_case_ok; auto; [exact lower_nz|now apply isnil_false].
  - apply Hnores. apply map_case_ok; auto; [exact upper_nz|now apply isnil_false].
  - destruct (c_str_ok nv s a v HI) as [Hc1 Hl1]; [auto|].
    destruct (c_str_ok nv s a w HI) as [Hc2 Hl2]; [auto|].
    rewrite Hc1, Hc2. cbn [bind]. rewrite Hl1, Hl2. exists s. split; [reflexivity|exact HI].
Qed.
