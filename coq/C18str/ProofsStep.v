(* C18str/ProofsStep.v — every operation of the alphabet of the theorem simulates its
   specification (one lemma per operation), and the step lemma. *)
From Coq Require Import ZArith NArith List Bool Arith Lia Permutation.
From Morfuse Require Import Base.Arr C18str.Model C18str.Spec C18str.ProofsLib C18str.ProofsInv
  C18str.ProofsOps.
Import ListNotations.

(* the common tail of the operations that store into storage they own exclusively *)
Lemma finish_write nv s1 a h v id d l' n rest' nb b :
  InvG nv s1 a h (Some v) [id] -> (v < N.of_nat nv)%N ->
  get (vars s1) v = Some id -> get (heap s1) id = Some d -> refc d = 0 ->
  alloced d = length (buf d) -> length nb = length (buf d) ->
  nb = l' ++ 0%N :: rest' -> n = length l' ->
  Inv nv (upd s1 id (mkD (refc d) (alloced d) n nb)) (set a v l') (set h v b).
Proof.
  intros HG Hv Ev Hd Hr Hal Hlen Hnb Hn.
  eapply P_finish; eauto.
  split; [|exact Hn]. exists rest'. cbn [buf alloced]. split; [exact Hnb|congruence].
Qed.

Lemma set_same {A} (f : arr A) v u : get (set f v (get f v)) u = get f u.
Proof. rewrite get_set. destruct (N.eqb_spec u v) as [->|]; reflexivity. Qed.

Lemma Inv_set_eq nv s a h v l b :
  l = get a v -> b = get h v -> Inv nv s a h -> Inv nv s (set a v l) (set h v b).
Proof. intros -> ->. apply InvG_ext; intro u; apply set_same. Qed.

Lemma Inv_a_eq nv s a h v l : l = get a v -> Inv nv s a h -> Inv nv s (set a v l) h.
Proof. intros ->. apply InvG_ext; intro u; [apply set_same|reflexivity]. Qed.

Lemma Inv_h_back nv s a h v b : get h v = b -> Inv nv s a (set h v b) -> Inv nv s a h.
Proof.
  intros <-. apply InvG_ext; intro u; [reflexivity|]. symmetry. apply set_same.
Qed.

Lemma Inv_a_back nv s a h v : Inv nv s (set a v (get a v)) h -> Inv nv s a h.
Proof. apply InvG_ext; intro u; [|reflexivity]. symmetry. apply set_same. Qed.

(* a variable that has storage may carry any flag *)
Lemma Inv_reflag nv s a h v b :
  Inv nv s a h -> (v < N.of_nat nv)%N -> get (vars s) v <> None -> Inv nv s a (set h v b).
Proof.
  intros HI Hv Hnn. destruct (P_open nv s a h v HI Hv) as [HG Hg].
  apply Inv_a_back with (v := v). apply P_close; [exact HG|exact Hv|].
  destruct (get (vars s) v); [exact Hg|congruence].
Qed.

(* ---- clear / operator=(const char* ) ------------------------------------------------------ *)

Lemma clear_G nv s a h v :
  Inv nv s a h -> (v < N.of_nat nv)%N ->
  exists s1, clear s v = Ok s1 /\ InvG nv s1 a h (Some v) [] /\ get (vars s1) v = None /\
             (forall u, u <> v -> get (vars s1) u = get (vars s) u).
Proof.
  intros HI Hv. destruct (P_open nv s a h v HI Hv) as [HG _]. unfold clear.
  destruct (get (vars s) v) as [id|] eqn:Ev; cbn [olist] in HG.
  - destruct (P_delref _ _ _ _ _ _ _ HG) as [s2 [d [Hd [Hdel [HG2 [Hvars [_ _]]]]]]].
    rewrite Hdel. cbn [bind]. eexists. split; [reflexivity|]. split; [|split].
    + apply P_setvar. exact HG2.
    + cbn [set_var vars]. apply gss.
    + intros u Hu. cbn [set_var vars]. rewrite gso by exact Hu. now rewrite Hvars.
  - exists s. auto.
Qed.

Lemma clear_ok nv s a h v :
  Inv nv s a h -> (v < N.of_nat nv)%N ->
  exists s', clear s v = Ok s' /\ Inv nv s' (set a v []) (set h v false).
Proof.
  intros HI Hv. destruct (clear_G nv s a h v HI Hv) as [s1 [Hc [HG [Ev _]]]].
  exists s1. split; [exact Hc|]. apply P_close; [rewrite Ev; exact HG|exact Hv|].
  rewrite Ev. split; reflexivity.
Qed.

Lemma set_text_ok nv s a h v t :
  Inv nv s a h -> (v < N.of_nat nv)%N ->
  exists s', set_text s v t = Ok s' /\ Inv nv s' (set a v t) (set h v (negb (isnil t))).
Proof.
  intros HI Hv. destruct (clear_G nv s a h v HI Hv) as [s1 [Hc [HG [Ev _]]]].
  unfold set_text. rewrite Hc. cbn [bind]. destruct t as [|c t'].
  - exists s1. split; [reflexivity|]. apply P_close; [rewrite Ev; exact HG|exact Hv|].
    rewrite Ev. split; reflexivity.
  - eexists. split; [reflexivity|].
    apply P_close; [|exact Hv|]; cbn [set_var vars]; rewrite gss.
    + cbn [olist]. apply P_setvar. apply P_new; [exact HG|reflexivity].
    + cbn [vgood set_var new_data heap]. eexists. rewrite gss. split; [reflexivity|].
      split; [|reflexivity]. exists []. cbn [buf alloced].
      split; [reflexivity|]. rewrite app_length. cbn. lia.
Qed.

(* ---- operator=(const str&), copy construction, v = w.c_str() ------------------------------ *)

Lemma assign_str_ok nv s a h v w :
  Inv nv s a h -> (v < N.of_nat nv)%N -> (w < N.of_nat nv)%N ->
  exists s', assign_str s v w = Ok s' /\ Inv nv s' (set a v (get a w)) (set h v (get h w)).
Proof.
  intros HI Hv Hw.
  assert (Hgw : vgood s (get (vars s) w) (get a w) (get h w)) by (apply (g_vars _ _ _ _ _ _ HI); auto).
  destruct (P_open nv s a h v HI Hv) as [HG _].
  unfold assign_str.
  (* AddRef of w's storage *)
  assert (H1 : exists s1, match get (vars s) w with Some idw => add_ref s idw | None => Ok s end = Ok s1 /\
             InvG nv s1 a h (Some v) (olist (get (vars s) w) ++ olist (get (vars s) v)) /\
             vars s1 = vars s /\ vgood s1 (get (vars s) w) (get a w) (get h w) /\
             (forall idw d, get (vars s) w = Some idw -> get (heap s1) idw = Some d -> refc d <> 0)).
  { destruct (get (vars s) w) as [idw|] eqn:Ew.
    - cbn [vgood] in Hgw. destruct Hgw as [d [Hd Hg]].
      destruct (P_addref nv s a h (Some v) _ idw d HG Hd) as [Ha HG1].
      eexists. split; [exact Ha|]. split; [exact HG1|]. split; [reflexivity|]. split.
      + cbn [vgood upd heap]. eexists. rewrite gss. split; [reflexivity|].
        eapply good_same; [|exact Hg]. repeat split.
      + intros idw' d' E. inversion E; subst idw'. cbn [upd heap]. rewrite gss.
        intro E'. inversion E'; subst d'. cbn [refc]. lia.
    - exists s. split; [reflexivity|]. split; [exact HG|]. split; [reflexivity|]. split; [exact Hgw|].
      intros idw d E. discriminate. }
  destruct H1 as [s1 [Ha [HG1 [Hvars1 [Hgw1 Hrc]]]]]. rewrite Ha. cbn [bind]. rewrite Hvars1.
  (* DelRef of v's old storage *)
  assert (H2 : exists s2, match get (vars s) v with Some idv => del_ref s1 idv | None => Ok s1 end = Ok s2 /\
             InvG nv s2 a h (Some v) (olist (get (vars s) w)) /\
             vars s2 = vars s /\ vgood s2 (get (vars s) w) (get a w) (get h w)).
  { destruct (get (vars s) v) as [idv|] eqn:Ev; cbn [olist] in HG1.
    - assert (HG1' : InvG nv s1 a h (Some v) (idv :: olist (get (vars s) w))).
      { eapply InvG_perm; [|exact HG1]. apply Permutation_sym. apply Permutation_cons_append. }
      destruct (P_delref _ _ _ _ _ _ _ HG1') as [s2 [d [Hd [Hdel [HG2 [Hvars2 [_ [_ [Hvg _]]]]]]]]].
      exists s2. split; [exact Hdel|]. split; [exact HG2|]. split; [congruence|].
      apply Hvg; [exact Hgw1|]. intro E. eapply Hrc; eauto.
    - exists s1. rewrite app_nil_r in HG1. auto. }
  destruct H2 as [s2 [Hdel [HG2 [Hvars2 Hgw2]]]]. rewrite Hdel. cbn [bind]. rewrite Hvars2.
  eexists. split; [reflexivity|].
  apply P_close; [|exact Hv|]; cbn [set_var vars]; rewrite gss.
  - apply P_setvar. exact HG2.
  - apply (vgood_frame s2); [reflexivity|exact Hgw2].
Qed.

Lemma ctor_copy_ok nv s a h v w :
  Inv nv s a h -> (v < N.of_nat nv)%N -> (w < N.of_nat nv)%N ->
  exists s', ctor_copy s v w = Ok s' /\
    Inv nv s' (if N.eqb v w then a else set a v (get a w)) (if N.eqb v w then h else set h v (get h w)).
Proof.
  intros HI Hv Hw. unfold ctor_copy. destruct (N.eqb_spec v w) as [E|Hne].
  - exists s. auto.
  - destruct (clear_G nv s a h v HI Hv) as [s1 [Hc [HG [Ev Hoth]]]].
    rewrite Hc. cbn [bind]. cbn [set_var vars]. rewrite gss.
    assert (Hgw : vgood s1 (get (vars s1) w) (get a w) (get h w)).
    { apply (g_vars _ _ _ _ _ _ HG); [exact Hw|]. cbn. destruct (N.eqb_spec v w); congruence. }
    destruct (get (vars s1) w) as [idw|] eqn:Ew.
    + cbn [vgood] in Hgw. destruct Hgw as [d [Hd Hg]].
      assert (HG2 : InvG nv (set_var s1 v (Some idw)) a h (Some v) []) by (apply P_setvar; exact HG).
      destruct (P_addref nv _ a h (Some v) [] idw d HG2 Hd) as [Ha HG3].
      rewrite Ha. eexists. split; [reflexivity|].
      apply P_close; [|exact Hv|]; cbn [upd set_var vars]; rewrite gss.
      * exact HG3.
      * cbn [vgood upd heap]. eexists. rewrite gss. split; [reflexivity|].
        eapply good_same; [|exact Hg]. repeat split.
    + eexists. split; [reflexivity|].
      apply P_close; [|exact Hv|]; cbn [set_var vars]; rewrite gss.
      * apply P_setvar. exact HG.
      * exact Hgw.
Qed.

Lemma assign_cstr_ok nv s a h v w :
  Inv nv s a h -> (v < N.of_nat nv)%N -> (w < N.of_nat nv)%N -> nz (get a w) ->
  exists s', assign_cstr s v w = Ok s' /\
    Inv nv s' (set a v (clit (get a w))) (set h v (negb (isnil (clit (get a w))))).
Proof.
  intros HI Hv Hw Hnz.
  assert (Hgw : vgood s (get (vars s) w) (get a w) (get h w)) by (apply (g_vars _ _ _ _ _ _ HI); auto).
  assert (Hgv : vgood s (get (vars s) v) (get a v) (get h v)) by (apply (g_vars _ _ _ _ _ _ HI); auto).
  unfold assign_cstr. destruct (get (vars s) w) as [idw|] eqn:Ew.
  - cbn [vgood] in Hgw. destruct Hgw as [dw [Hdw Hg]].
    assert (Hgo : exists s', (do dw0 <- deref s idw; do t <- ov (cstr (buf dw0)); set_text s v t) = Ok s' /\
                    Inv nv s' (set a v (clit (get a w))) (set h v (negb (isnil (clit (get a w)))))).
    { unfold deref. rewrite Hdw. cbn [bind]. rewrite (good_text _ _ Hg). cbn [ov bind].
      apply set_text_ok; auto. }
    destruct (get (vars s) v) as [idv|] eqn:Ev; [|exact Hgo].
    destruct (N.eqb_spec idv idw) as [E|Hne]; [|exact Hgo].
    subst idv. exists s. split; [reflexivity|].
    cbn [vgood] in Hgv. destruct Hgv as [dv [Hdv Hg']].
    rewrite Hdw in Hdv. inversion Hdv; subst dv.
    rewrite (clit_nz _ Hnz). rewrite (good_unique _ _ _ Hg Hg').
    apply Inv_a_eq; [reflexivity|]. apply Inv_reflag; [exact HI|exact Hv|congruence].
  - cbn [vgood] in Hgw. destruct Hgw as [Hl _]. rewrite Hl. cbn [clit].
    apply (set_text_ok nv s a h v []); auto.
Qed.

(* ---- the appends ------------------------------------------------------------------------- *)

Lemma append_lit_ok nv s a h v lit :
  Inv nv s a h -> (v < N.of_nat nv)%N -> nz (get a v) ->
  exists s', append_lit s v lit = Ok s' /\ Inv nv s' (set a v (get a v ++ clit lit)) (set h v true).
Proof.
  intros HI Hv Hnz. destruct (P_open nv s a h v HI Hv) as [HG Hg].
  unfold append_lit. rewrite (length_of_good _ _ _ _ Hg). cbn [bind].
  set (l := get a v) in *. set (t := clit lit) in *.
  rewrite <- (app_nil_r (olist _)) in HG.
  destruct (ensure_alloced_ok nv s a h v l _ (length l + length t + 1) [] HG Hg ltac:(lia))
    as [s1 [id [d [He [HG1 [[Ev1 [Hd [Hr [Hal [Hamt [Hlen Hb]]]]]] _]]]]]].
  rewrite He. cbn [bind]. rewrite (with_data_some s1 v id d _ Ev1 Hd).
  destruct Hb as [rest Hbuf].
  assert (Hcs : cstr (buf d) = Some l) by (rewrite Hbuf; now apply cstr_app).
  rewrite Hcs. cbn [ov bind].
  assert (Hw : write_at (buf d) (length l) (t ++ [0%N]) =
               Some (l ++ (t ++ [0%N]) ++ skipn (length (t ++ [0%N])) (0%N :: rest))).
  { rewrite Hbuf. apply write_at_app. rewrite Hbuf in Hamt. rewrite !app_length in *. cbn [length] in *. lia. }
  rewrite Hw. cbn [ov bind]. eexists. split; [reflexivity|].
  eapply finish_write with (rest' := skipn (length (t ++ [0%N])) (0%N :: rest)); eauto.
  - exact (write_at_length _ _ _ _ Hw).
  - rewrite <- !app_assoc. reflexivity.
  - now rewrite app_length.
Qed.

Lemma append_char_ok nv s a h v c :
  Inv nv s a h -> (v < N.of_nat nv)%N ->
  exists s', append_char s v c = Ok s' /\
             Inv nv s' (if N.eqb c 0 then a else set a v (get a v ++ [c]))
                       (if N.eqb c 0 then h else set h v true).
Proof.
  intros HI Hv. unfold append_char. destruct (N.eqb_spec c 0) as [E|Hc0].
  - exists s. auto.
  - destruct (P_open nv s a h v HI Hv) as [HG Hg].
    rewrite (length_of_good _ _ _ _ Hg). cbn [bind]. set (l := get a v) in *.
    rewrite <- (app_nil_r (olist _)) in HG.
    destruct (ensure_alloced_ok nv s a h v l _ (length l + 1 + 1) [] HG Hg ltac:(lia))
      as [s1 [id [d [He [HG1 [[Ev1 [Hd [Hr [Hal [Hamt [Hlen Hb]]]]]] _]]]]]].
    rewrite He. cbn [bind]. rewrite (with_data_some s1 v id d _ Ev1 Hd).
    destruct Hb as [rest Hbuf].
    assert (Hw : write_at (buf d) (length l) [c; 0%N] =
                 Some (l ++ [c; 0%N] ++ skipn 2 (0%N :: rest))).
    { rewrite Hbuf. apply (write_at_app l (0%N :: rest) [c; 0%N]).
      rewrite Hbuf in Hamt. rewrite !app_length in *. cbn [length] in *. lia. }
    rewrite Hw. cbn [ov bind]. eexists. split; [reflexivity|].
    eapply finish_write with (rest' := skipn 2 (0%N :: rest)); eauto.
    + exact (write_at_length _ _ _ _ Hw).
    + rewrite <- !app_assoc. reflexivity.
    + rewrite app_length. cbn. lia.
Qed.

(* the body of append(const str&): [src] yields storage (or null) whose text is t *)
Lemma append_src_ok nv s a h v E lw src t l b :
  InvG nv s a h (Some v) (olist (get (vars s) v) ++ E) ->
  vgood s (get (vars s) v) l b -> nz l -> nz t -> lw = length t ->
  (forall s1 id, InvG nv s1 a h (Some v) (id :: E) -> keeps s s1 E ->
                 exists bt, vgood s1 (src s1) t bt) ->
  (forall s1 id d, InvG nv s1 a h (Some v) (id :: E) -> get (heap s1) id = Some d -> refc d = 0 ->
                   src s1 <> Some id) ->
  exists s' id d', append_src s v lw src = Ok s' /\ InvG nv s' a h (Some v) (id :: E) /\
    get (vars s') v = Some id /\ get (heap s') id = Some d' /\ good d' (l ++ t) /\ refc d' = 0 /\
    (forall j dj, j <> id -> In j E -> get (heap s) j = Some dj ->
                  exists dj', get (heap s') j = Some dj' /\ same_text dj dj').
Proof.
  intros HG Hg Hnz Hnt Hlw Hsrc Hnes.
  unfold append_src. rewrite (length_of_good _ _ _ _ Hg). cbn [bind]. subst lw.
  destruct (ensure_alloced_ok nv s a h v l _ (length l + length t + 1) E HG Hg ltac:(lia))
    as [s1 [id [d [He [HG1 [[Ev1 [Hd [Hr [Hal [Hamt [Hlen Hb]]]]]] Hkeep]]]]]].
  rewrite He. cbn [bind]. rewrite (with_data_some s1 v id d _ Ev1 Hd).
  destruct Hb as [rest Hbuf].
  assert (Hcs : cstr (buf d) = Some l) by (rewrite Hbuf; now apply cstr_app).
  rewrite Hcs. cbn [ov bind].
  assert (Hw : write_at (buf d) (length l) (t ++ [0%N]) =
               Some (l ++ (t ++ [0%N]) ++ skipn (length (t ++ [0%N])) (0%N :: rest))).
  { rewrite Hbuf. apply write_at_app. rewrite Hbuf in Hamt. rewrite !app_length in *. cbn [length] in *. lia. }
  set (nb := l ++ (t ++ [0%N]) ++ skipn (length (t ++ [0%N])) (0%N :: rest)) in *.
  set (D' := mkD (refc d) (alloced d) (length l + length t) nb).
  assert (Hfin : InvG nv (upd s1 id D') a h (Some v) (id :: E) /\ get (vars (upd s1 id D')) v = Some id /\
                 get (heap (upd s1 id D')) id = Some D' /\ good D' (l ++ t) /\ refc D' = 0).
  { split; [apply P_upd with (d := d); auto; now left|]. split; [exact Ev1|].
    split; [cbn [upd heap]; apply gss|]. split; [|exact Hr].
    split; [|cbn [D' dlen]; now rewrite app_length].
    exists (skipn (length (t ++ [0%N])) (0%N :: rest)). cbn [D' buf alloced].
    split; [unfold nb; rewrite <- !app_assoc; reflexivity|].
    rewrite Hal. symmetry. exact (write_at_length _ _ _ _ Hw). }
  assert (Hk' : forall j dj, j <> id -> In j E -> get (heap s) j = Some dj ->
                  exists dj', get (heap (upd s1 id D')) j = Some dj' /\ same_text dj dj').
  { intros j dj Hj Hin Hdj. destruct (Hkeep j dj Hin Hdj) as [dj' [H1 H2]].
    exists dj'. split; [|exact H2]. cbn [upd heap]. rewrite gso by exact Hj. exact H1. }
  destruct (Hsrc s1 id HG1 Hkeep) as [bt Hgs].
  pose proof (Hnes s1 id d HG1 Hd Hr) as Hneq.
  destruct (src s1) as [idw|] eqn:Esrc.
  - destruct (N.eqb_spec idw id) as [E'|_]; [congruence|].
    cbn [vgood] in Hgs. destruct Hgs as [dw [Hdw Hgdw]].
    unfold deref. rewrite Hdw. cbn [bind]. rewrite (good_text _ _ Hgdw). cbn [ov bind].
    rewrite (clit_nz _ Hnt). rewrite Hw. cbn [ov bind].
    exists (upd s1 id D'), id, D'. split; [reflexivity|]. destruct Hfin as [F1 [F2 [F3 [F4 F5]]]].
    split; [exact F1|split; [exact F2|split; [exact F3|split; [exact F4|split; [exact F5|exact Hk']]]]].
  - cbn [vgood] in Hgs. destruct Hgs as [Ht _]. subst t. cbn [app] in Hw. rewrite Hw. cbn [ov bind].
    exists (upd s1 id D'), id, D'. split; [reflexivity|]. destruct Hfin as [F1 [F2 [F3 [F4 F5]]]].
    split; [exact F1|split; [exact F2|split; [exact F3|split; [exact F4|split; [exact F5|exact Hk']]]]].
Qed.

Lemma append_str_ok nv s a h v w :
  Inv nv s a h -> (v < N.of_nat nv)%N -> (w < N.of_nat nv)%N -> nz (get a v) -> nz (get a w) ->
  exists s', append_str s v w = Ok s' /\ Inv nv s' (set a v (get a v ++ get a w)) (set h v true).
Proof.
  intros HI Hv Hw Hnv Hnw.
  destruct (P_open nv s a h v HI Hv) as [HG Hg].
  unfold append_str. destruct (N.eqb_spec v w) as [E|Hne].
  - (* a.append(a): a temporary copy holds a second reference *)
    subst w. destruct (get (vars s) v) as [p|] eqn:Ep.
    + cbn [vgood] in Hg. destruct Hg as [d0 [Hd0 Hg0]]. cbn [olist] in HG.
      destruct (P_addref nv s a h (Some v) [p] p d0 HG Hd0) as [Ha HG0].
      rewrite Ha. cbn [bind].
      set (d1 := mkD (S (refc d0)) (alloced d0) (dlen d0) (buf d0)) in *.
      set (s0 := upd s p d1) in *.
      assert (Hp0 : get (heap s0) p = Some d1) by (unfold s0; cbn [upd heap]; apply gss).
      assert (Hg1 : good d1 (get a v)) by (eapply good_same; [|exact Hg0]; repeat split).
      unfold deref at 1. rewrite Hp0. cbn [bind dlen d1].
      assert (Hv0 : get (vars s0) v = Some p) by exact Ep.
      assert (HG0' : InvG nv s0 a h (Some v) (olist (get (vars s0) v) ++ [p])) by (rewrite Hv0; exact HG0).
      assert (Hgv0 : vgood s0 (get (vars s0) v) (get a v) true)
        by (rewrite Hv0; cbn [vgood]; exists d1; auto).
      destruct (append_src_ok nv s0 a h v [p] (dlen d0) (fun _ => Some p) (get a v) (get a v) true
                  HG0' Hgv0 Hnv Hnv) as [s1 [id [d' [Happ [HG1 [Ev1 [Hd' [Hgd' [Hr' Hk]]]]]]]]].
      * apply Hg0.
      * intros s1 id _ Hkeep. exists true. cbn [vgood].
        destruct (Hkeep p d1 ltac:(now left) Hp0) as [dj' [H1 H2]].
        exists dj'. split; [exact H1|]. eapply good_same; eauto.
      * intros s1 id d HGs Hds Hrs E. inversion E; subst id.
        pose proof (g_cnt _ _ _ _ _ _ HGs p d Hds) as Hc. cbn [occ] in Hc.
        rewrite N.eqb_refl in Hc. lia.
      * rewrite Happ. cbn [bind].
        assert (Hpid : p <> id).
        { intro E. subst id. pose proof (g_cnt _ _ _ _ _ _ HG1 p d' Hd') as Hc. cbn [occ] in Hc.
          rewrite N.eqb_refl in Hc. lia. }
        assert (HG1' : InvG nv s1 a h (Some v) [p; id])
          by (apply InvG_perm with (e := [id; p]); [apply perm_swap|exact HG1]).
        destruct (P_delref _ _ _ _ _ _ _ HG1') as [s2 [d2 [Hd2 [Hdel [HG2 [Hvars2 [_ [Hfr2 _]]]]]]]].
        rewrite Hdel. eexists. split; [reflexivity|].
        apply P_close; [|exact Hv|]; rewrite Hvars2, Ev1.
        -- exact HG2.
        -- cbn [vgood]. exists d'. split; [|exact Hgd']. rewrite Hfr2 by (intro E; apply Hpid; now symmetry). exact Hd'.
    + cbn [vgood] in Hg. destruct Hg as [Hl Hb]. cbn [bind olist] in *.
      assert (HG' : InvG nv s a h (Some v) (olist (get (vars s) v) ++ [])) by (rewrite Ep; exact HG).
      assert (Hgv : vgood s (get (vars s) v) (get a v) (get h v)) by (rewrite Ep; split; auto).
      destruct (append_src_ok nv s a h v [] 0 (fun _ => None) [] (get a v) (get h v)
                  HG' Hgv Hnv nz_nil eq_refl) as [s1 [id [d' [Happ [HG1 [Ev1 [Hd' [Hgd' [Hr' _]]]]]]]]].
      * intros s1 id _ _. exists false. split; reflexivity.
      * intros s1 id d _ _ _. discriminate.
      * rewrite Happ. cbn [bind]. exists s1. split; [reflexivity|].
        rewrite Hl in *. cbn [app] in *.
        apply P_close; [rewrite Ev1; exact HG1|exact Hv|]. rewrite Ev1. cbn [vgood]. exists d'. auto.
  - assert (Hgw : vgood s (get (vars s) w) (get a w) (get h w)) by (apply (g_vars _ _ _ _ _ _ HI); auto).
    rewrite (length_of_good _ _ _ _ Hgw). cbn [bind].
    assert (Hxw : excluded (Some v) w = false) by (cbn; destruct (N.eqb_spec v w); congruence).
    rewrite <- (app_nil_r (olist _)) in HG.
    destruct (append_src_ok nv s a h v [] (length (get a w)) (fun s1 => get (vars s1) w)
                (get a w) (get a v) (get h v) HG Hg Hnv Hnw eq_refl)
      as [s1 [id [d' [Happ [HG1 [Ev1 [Hd' [Hgd' [Hr' _]]]]]]]]].
    + intros s1 id HGs _. exists (get h w). apply (g_vars _ _ _ _ _ _ HGs); auto.
    + intros s1 id d HGs Hds Hrs.
      apply (sole_owner nv s1 a h (Some v) [id] id d w HGs Hds Hrs ltac:(now left) Hw Hxw).
    + exists s1. split; [exact Happ|].
      apply P_close; [rewrite Ev1; exact HG1|exact Hv|]. rewrite Ev1. cbn [vgood]. exists d'. auto.
Qed.

(* ---- operations that call EnsureDataWritable --------------------------------------------- *)

Lemma set_char_ok nv s a h v i c :
  Inv nv s a h -> (v < N.of_nat nv)%N -> get h v = true -> c <> 0%N ->
  exists s', set_char s v i c = Ok s' /\ Inv nv s' (set a v (set_nth (get a v) i c)) h.
Proof.
  intros HI Hv Hh Hc.
  destruct (open_writable nv s a h v HI Hv Hh) as [s1 [id [d [He [HG [Ev [Hd [Hg Hr]]]]]]]].
  unfold set_char. rewrite He. cbn [bind]. rewrite (with_data_some s1 v id d _ Ev Hd).
  destruct Hg as [[rest [Hb Hal]] Hlen]. rewrite Hlen.
  destruct (Nat.leb_spec (length (get a v)) i) as [Hge|Hlt].
  - exists s1. split; [reflexivity|]. rewrite set_nth_oob by exact Hge.
    apply Inv_h_back with (v := v) (b := true); [exact Hh|].
    apply P_close; [rewrite Ev; exact HG|exact Hv|]. rewrite Ev. cbn [vgood].
    exists d. split; [exact Hd|]. split; [exists rest; auto|exact Hlen].
  - assert (Hw : write_at (buf d) i [c] = Some (set_nth (get a v) i c ++ 0%N :: rest))
      by (rewrite Hb; now apply write_at_set_nth).
    rewrite Hw. cbn [ov bind]. eexists. split; [reflexivity|].
    apply Inv_h_back with (v := v) (b := true); [exact Hh|].
    eapply finish_write; eauto.
    + exact (write_at_length _ _ _ _ Hw).
    + now rewrite set_nth_length.
Qed.

Lemma write_zero l q n : n < length l ->
  write_at (l ++ q) n [0%N] = Some (firstn n l ++ 0%N :: (skipn (S n) l ++ q)).
Proof.
  intro H. rewrite write_at_set_nth by exact H. rewrite set_nth_split by exact H.
  rewrite <- app_assoc. reflexivity.
Qed.

Lemma cap_length_ok nv s a h v n :
  Inv nv s a h -> (v < N.of_nat nv)%N ->
  exists s', cap_length s v n = Ok s' /\ Inv nv s' (set a v (firstn n (get a v))) h.
Proof.
  intros HI Hv. destruct (P_open nv s a h v HI Hv) as [_ Hg0].
  unfold cap_length. rewrite (length_of_good _ _ _ _ Hg0). cbn [bind].
  destruct (Nat.leb_spec (length (get a v)) n) as [Hle|Hgt].
  - exists s. split; [reflexivity|]. apply Inv_a_eq; [|exact HI]. now apply firstn_all2.
  - assert (Hnn : get a v <> []) by (intro E; rewrite E in Hgt; cbn in Hgt; lia).
    destruct (open_writable_nonempty nv s a h v HI Hv Hnn) as [s1 [id [d [He [HG [Ev [Hd [Hg Hr]]]]]]]].
    rewrite He. cbn [bind]. rewrite (with_data_some s1 v id d _ Ev Hd).
    destruct Hg as [[rest [Hb Hal]] Hlen].
    assert (Hw : write_at (buf d) n [0%N] =
                 Some (firstn n (get a v) ++ 0%N :: (skipn (S n) (get a v) ++ 0%N :: rest)))
      by (rewrite Hb; now apply write_zero).
    rewrite Hw. cbn [ov bind]. eexists. split; [reflexivity|].
    apply Inv_h_back with (v := v) (b := get h v); [reflexivity|].
    eapply finish_write; eauto.
    + exact (write_at_length _ _ _ _ Hw).
    + rewrite firstn_length. lia.
Qed.

Lemma minus_ok nv s a h v c :
  Inv nv s a h -> (v < N.of_nat nv)%N ->
  exists s', minus s v c = Ok s' /\
    Inv nv s' (if Z.leb c 0 then a
               else set a v (firstn (length (get a v) - Z.to_nat c) (get a v))) h.
Proof.
  intros HI Hv. destruct (P_open nv s a h v HI Hv) as [_ Hg0].
  unfold minus. destruct (get (vars s) v) as [id0|] eqn:Ev0.
  - cbn [vgood] in Hg0. destruct Hg0 as [d0 [Hd0 Hg0]]. unfold deref at 1. rewrite Hd0. cbn [bind].
    assert (Hl0 : dlen d0 = length (get a v)) by apply Hg0.
    destruct (Z.leb_spec c 0) as [Hc|Hc].
    + rewrite orb_true_r. exists s. auto.
    + rewrite orb_false_r. destruct (Nat.eqb_spec (dlen d0) 0) as [Hz|Hnz0].
      * exists s. split; [reflexivity|]. apply Inv_a_eq; [|exact HI].
        rewrite Hl0 in Hz. destruct (get a v); [now rewrite firstn_nil|discriminate].
      * assert (Hnn : get a v <> []) by (intro E; rewrite E in Hl0; cbn in Hl0; lia).
        destruct (open_writable_nonempty nv s a h v HI Hv Hnn) as [s1 [id [d [He [HG [Ev [Hd [Hg Hr]]]]]]]].
        rewrite He. cbn [bind]. rewrite (with_data_some s1 v id d _ Ev Hd).
        destruct Hg as [[rest [Hb Hal]] Hlen]. rewrite Hlen.
        set (l := get a v) in *. set (cn := Z.to_nat c).
        assert (Hcn : 1 <= cn) by (unfold cn; lia).
        assert (Hnl : (if Nat.leb (length l) cn then 0 else length l - cn) = length l - cn)
          by (destruct (Nat.leb_spec (length l) cn); lia).
        rewrite Hnl.
        assert (Hl1 : 1 <= length l) by (destruct l; [congruence|cbn; lia]).
        assert (Hw : write_at (buf d) (length l - cn) [0%N] =
                     Some (firstn (length l - cn) l ++ 0%N :: (skipn (S (length l - cn)) l ++ 0%N :: rest)))
          by (rewrite Hb; apply write_zero; lia).
        rewrite Hw. cbn [ov bind]. eexists. split; [reflexivity|].
        apply Inv_h_back with (v := v) (b := get h v); [reflexivity|].
        eapply finish_write; eauto.
        -- exact (write_at_length _ _ _ _ Hw).
        -- rewrite firstn_length. lia.
  - cbn [vgood] in Hg0. destruct Hg0 as [Hl _]. exists s. split; [reflexivity|].
    destruct (Z.leb c 0); [exact HI|]. apply Inv_a_eq; [|exact HI]. rewrite Hl. now rewrite firstn_nil.
Qed.

Lemma map_case_ok nv s a h v f :
  Inv nv s a h -> (v < N.of_nat nv)%N -> get h v = true -> nz (get a v) ->
  exists s', map_case f s v = Ok s' /\ Inv nv s' (set a v (map f (get a v))) h.
Proof.
  intros HI Hv Hh Hnz.
  destruct (open_writable nv s a h v HI Hv Hh) as [s1 [id [d [He [HG [Ev [Hd [Hg Hr]]]]]]]].
  unfold map_case. rewrite He. cbn [bind]. rewrite (with_data_some s1 v id d _ Ev Hd).
  rewrite (good_text _ _ Hg). cbn [ov bind]. rewrite (clit_nz _ Hnz).
  destruct Hg as [[rest [Hb Hal]] Hlen]. set (l := get a v) in *.
  assert (Hw : write_at (buf d) 0 (map f l) = Some (map f l ++ 0%N :: rest)).
  { rewrite write_at_0.
    - rewrite Hb. rewrite map_length. rewrite skipn_app, skipn_all, Nat.sub_diag. reflexivity.
    - rewrite Hb, map_length, app_length. lia. }
  rewrite Hw. cbn [ov bind]. eexists. split; [reflexivity|].
  apply Inv_h_back with (v := v) (b := true); [exact Hh|].
  eapply finish_write; eauto.
  - exact (write_at_length _ _ _ _ Hw).
  - now rewrite map_length.
Qed.

(* ---- resize / reserve / assign(text, n) -------------------------------------------------- *)

Lemma resize_ok nv s a h v n :
  Inv nv s a h -> (v < N.of_nat nv)%N ->
  exists s', resize s v n = Ok s' /\
    Inv nv s' (set a v (if Nat.leb n (length (get a v)) then firstn n (get a v)
                        else get a v ++ repeat 0%N (n - length (get a v)))) (set h v true).
Proof.
  intros HI Hv. destruct (P_open nv s a h v HI Hv) as [HG Hg].
  unfold resize. set (l := get a v) in *.
  rewrite <- (app_nil_r (olist _)) in HG.
  destruct (ensure_alloced_ok nv s a h v l _ (n + 1) [] HG Hg ltac:(lia))
    as [s1 [id [d [He [HG1 [[Ev1 [Hd [Hr [Hal [Hamt [Hlen Hb]]]]]] _]]]]]].
  rewrite He. cbn [bind]. rewrite (with_data_some s1 v id d _ Ev1 Hd).
  destruct Hb as [rest Hbuf]. rewrite Hlen.
  destruct (Nat.leb_spec n (length l)) as [Hle|Hgt].
  - (* not growing: the fill loop stores at most the terminator that is already there *)
    destruct (Nat.eq_dec n (length l)) as [Hn|Hn].
    + subst n. replace (length l + 1 - length l) with 1 by lia. cbn [repeat].
      assert (Hw1 : write_at (buf d) (length l) [0%N] = Some (buf d)).
      { rewrite Hbuf. rewrite (write_at_app l (0%N :: rest) [0%N]) by (cbn; lia). reflexivity. }
      rewrite Hw1. cbn [ov bind]. rewrite Hw1. cbn [ov bind].
      eexists. split; [reflexivity|]. rewrite firstn_all.
      eapply finish_write; eauto.
    + replace (n + 1 - length l) with 0 by lia. cbn [repeat]. rewrite write_at_nil. cbn [ov bind].
      assert (Hw : write_at (buf d) n [0%N] =
                   Some (firstn n l ++ 0%N :: (skipn (S n) l ++ 0%N :: rest)))
        by (rewrite Hbuf; apply write_zero; lia).
      rewrite Hw. cbn [ov bind]. eexists. split; [reflexivity|].
      eapply finish_write; eauto.
      * exact (write_at_length _ _ _ _ Hw).
      * rewrite firstn_length. lia.
  - (* growing: zero fill from the old length to n inclusive *)
    set (k := n - length l).
    assert (Hk : n + 1 - length l = S k) by (unfold k; lia).
    rewrite Hk.
    assert (Hrest : S k <= length (0%N :: rest)).
    { rewrite Hbuf in Hamt. rewrite app_length in Hamt. unfold k. lia. }
    assert (Hw1 : write_at (buf d) (length l) (repeat 0%N (S k)) =
                  Some (l ++ repeat 0%N (S k) ++ skipn (S k) (0%N :: rest))).
    { rewrite Hbuf. rewrite (write_at_app l (0%N :: rest) (repeat 0%N (S k))); rewrite repeat_length; [reflexivity|exact Hrest]. }
    rewrite Hw1. cbn [ov bind].
    set (rest' := skipn (S k) (0%N :: rest)) in *.
    assert (Hshape : l ++ repeat 0%N (S k) ++ rest' = (l ++ repeat 0%N k) ++ 0%N :: rest').
    { rewrite <- app_assoc. f_equal. replace (S k) with (k + 1) by lia.
      rewrite repeat_app. cbn [repeat]. rewrite <- app_assoc. reflexivity. }
    assert (Hw2 : write_at (l ++ repeat 0%N (S k) ++ rest') n [0%N] =
                  Some ((l ++ repeat 0%N k) ++ 0%N :: rest')).
    { rewrite Hshape.
      replace n with (length (l ++ repeat 0%N k)) at 1 by (rewrite app_length, repeat_length; unfold k; lia).
      rewrite (write_at_app (l ++ repeat 0%N k) (0%N :: rest') [0%N]) by (cbn; lia). reflexivity. }
    rewrite Hw2. cbn [ov bind]. eexists. split; [reflexivity|].
    eapply finish_write; eauto.
    + rewrite <- Hshape. exact (write_at_length _ _ _ _ Hw1).
    + rewrite app_length, repeat_length. unfold k. lia.
Qed.

Lemma reserve_ok nv s a h v n :
  Inv nv s a h -> (v < N.of_nat nv)%N ->
  exists s', reserve s v n = Ok s' /\ Inv nv s' a (set h v true).
Proof.
  intros HI Hv. destruct (P_open nv s a h v HI Hv) as [HG Hg].
  unfold reserve. rewrite <- (app_nil_r (olist _)) in HG.
  destruct (ensure_alloced_ok nv s a h v (get a v) _ (n + 1) [] HG Hg ltac:(lia))
    as [s1 [id [d [He [HG1 [[Ev1 [Hd [Hr [Hal [Hamt [Hlen Hb]]]]]] _]]]]]].
  exists s1. split; [exact He|]. apply Inv_a_back with (v := v).
  apply P_close; [rewrite Ev1; exact HG1|exact Hv|]. rewrite Ev1. cbn [vgood].
  exists d. split; [exact Hd|]. destruct Hb as [rest Hbuf].
  split; [exists rest; auto|exact Hlen].
Qed.

Lemma assign_n_ok nv s a h v bytes :
  Inv nv s a h -> (v < N.of_nat nv)%N ->
  exists s', assign_n s v bytes = Ok s' /\ Inv nv s' (set a v bytes) (set h v true).
Proof.
  intros HI Hv. destruct (P_open nv s a h v HI Hv) as [HG Hg].
  unfold assign_n. rewrite <- (app_nil_r (olist _)) in HG.
  destruct (ensure_alloced_ok nv s a h v (get a v) _ (length bytes + 1) [] HG Hg ltac:(lia))
    as [s1 [id [d [He [HG1 [[Ev1 [Hd [Hr [Hal [Hamt [Hlen Hb]]]]]] _]]]]]].
  rewrite He. cbn [bind]. rewrite (with_data_some s1 v id d _ Ev1 Hd).
  assert (Hw : write_at (buf d) 0 (bytes ++ [0%N]) =
               Some ((bytes ++ [0%N]) ++ skipn (length (bytes ++ [0%N])) (buf d))).
  { apply write_at_0. rewrite app_length. cbn. lia. }
  rewrite Hw. cbn [ov bind]. eexists. split; [reflexivity|].
  eapply finish_write with (rest' := skipn (length (bytes ++ [0%N])) (buf d)); eauto.
  - exact (write_at_length _ _ _ _ Hw).
  - rewrite <- app_assoc. reflexivity.
Qed.

(* ---- pure observations ------------------------------------------------------------------- *)

Lemma get_char_ok nv s a h v i :
  Inv nv s a h -> (v < N.of_nat nv)%N -> get_char s v i = Ok (nth i (get a v) 0%N).
Proof.
  intros HI Hv.
  assert (Hg : vgood s (get (vars s) v) (get a v) (get h v)) by (apply (g_vars _ _ _ _ _ _ HI); auto).
  unfold get_char. destruct (get (vars s) v) as [id|].
  - cbn [vgood] in Hg. destruct Hg as [d [Hd [[rest [Hb Hal]] Hlen]]].
    unfold deref. rewrite Hd. cbn [bind]. rewrite Hlen.
    destruct (Nat.leb_spec (length (get a v)) i) as [Hge|Hlt].
    + now rewrite nth_overflow.
    + rewrite Hb. rewrite nth_error_text by exact Hlt. reflexivity.
  - cbn [vgood] in Hg. destruct Hg as [Hl _]. rewrite Hl. now destruct i.
Qed.

Lemma c_str_ok nv s a h v :
  Inv nv s a h -> (v < N.of_nat nv)%N -> c_str_of s v = Ok (clit (get a v)).
Proof.
  intros HI Hv. eapply c_str_of_good. apply (g_vars _ _ _ _ _ _ HI); auto.
Qed.

Lemma observe_ok nv s a h : Inv nv s a h -> observe nv s = Ok (spec_observe nv a).
Proof.
  intro HI. unfold observe, spec_observe.
  assert (H : forall vs, (forall u, In u vs -> u < nv) ->
            observe_vars s vs = Ok (map (fun v => (clit (get a (N.of_nat v)), length (get a (N.of_nat v)))) vs)).
  { induction vs as [|u r IH]; intro Hin; [reflexivity|].
    cbn [observe_vars map].
    assert (Hu : (N.of_nat u < N.of_nat nv)%N) by (specialize (Hin u (or_introl eq_refl)); lia).
    rewrite (c_str_ok nv s a h _ HI Hu). cbn [bind].
    assert (Hg : vgood s (get (vars s) (N.of_nat u)) (get a (N.of_nat u)) (get h (N.of_nat u)))
      by (apply (g_vars _ _ _ _ _ _ HI); auto).
    rewrite (length_of_good _ _ _ _ Hg). cbn [bind].
    rewrite IH by (intros x Hx; apply Hin; now right). reflexivity. }
  apply H. intros u Hu. apply in_seq in Hu. lia.
Qed.

(* ---- the step ---------------------------------------------------------------------------- *)

Lemma step_sim nv s a h o :
  Inv nv s a h -> pre nv a h o = true ->
  exists s', step s o = Ok (s', snd (spec_step a o)) /\
             Inv nv s' (fst (spec_step a o)) (has_step a h o).
Proof.
  intros HI Hpre.
  assert (Hnores : forall (x : outcome st) a' h', (exists s', x = Ok s' /\ Inv nv s' a' h') ->
            exists s', nores x = Ok (s', RNone) /\ Inv nv s' a' h').
  { intros x a' h' [s' [-> H]]. exists s'. split; [reflexivity|exact H]. }
  destruct o; cbn [pre] in Hpre; cbn [step spec_step has_step fst snd];
    repeat (apply andb_prop in Hpre; destruct Hpre as [Hpre ?]);
    repeat match goal with H : inr _ _ = true |- _ => apply inr_lt in H end;
    repeat match goal with H : nonul _ = true |- _ => apply nonul_nz in H end;
    repeat match goal with H : negb _ = true |- _ => apply negb_true_iff in H end.
  - apply Hnores. apply set_text_ok; auto.
  - apply Hnores. apply assign_str_ok; auto.
  - apply Hnores. apply ctor_copy_ok; auto.
  - apply Hnores. apply assign_cstr_ok; auto.
  - apply Hnores. apply append_lit_ok; auto.
  - apply Hnores. apply append_char_ok; auto.
  - apply Hnores. apply append_str_ok; auto.
  - apply Hnores. apply set_char_ok; auto. now apply N.eqb_neq.
  - rewrite (get_char_ok nv s a h v i HI) by auto. exists s. split; [reflexivity|exact HI].
  - apply Hnores. apply cap_length_ok; auto.
  - apply Hnores. apply minus_ok; auto.
  - apply Hnores. apply clear_ok; auto.
  - apply Hnores. apply map_case_ok; auto.
  - apply Hnores. apply map_case_ok; auto.
  - rewrite (c_str_ok nv s a h v HI) by auto. rewrite (c_str_ok nv s a h w HI) by auto.
    cbn [bind]. exists s. split; [reflexivity|exact HI].
  - apply Hnores. apply resize_ok; auto.
  - apply Hnores. apply reserve_ok; auto.
  - apply Hnores. apply assign_n_ok; auto.
Qed.
