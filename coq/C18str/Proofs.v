(* C18str/Proofs.v — the refinement theorem for all histories inside the alphabet Spec.pre,
   the frame property of the specification, and the refutations of the full statement
   (concrete histories on which the faithful model differs from the specification). *)
From Coq Require Import ZArith NArith List Bool Arith Lia.
From Morfuse Require Import Base.Arr C18str.Model C18str.Spec C18str.ProofsLib C18str.ProofsInv
  C18str.ProofsOps C18str.ProofsStep.
Import ListNotations.

Lemma run_from_refines nv ops : forall s a h,
  Inv nv s a h -> safe_from nv a h ops = true -> run_from nv s ops = map Ok (spec_from nv a ops).
Proof.
  induction ops as [|o ops IH]; intros s a h HI Hs; [reflexivity|].
  cbn [safe_from] in Hs. apply andb_prop in Hs. destruct Hs as [Hpre Hs].
  destruct (step_sim nv s a h o HI Hpre) as [s' [Hstep HI']].
  cbn [run_from spec_from]. rewrite Hstep.
  destruct (spec_step a o) as [a' r] eqn:E. cbn [fst snd] in *.
  rewrite (observe_ok nv s' a' _ HI'). cbn [map]. f_equal. eapply IH; eauto.
Qed.

Theorem run_refines_spec nv ops :
  safe nv ops = true -> run nv ops = map Ok (spec_run nv ops).
Proof. intro H. eapply run_from_refines; [apply Inv_init|exact H]. Qed.

(* the variable an operation may change *)
Definition target (o : op) : option N :=
  match o with
  | OSetLit v _ | OCopy v _ | OCtorCopy v _ | OAssignCstr v _ | OAppendLit v _ | OAppendChar v _
  | OAppendStr v _ | OSetChar v _ _ | OCap v _ | OMinus v _ | OClear v | OLower v | OUpper v
  | OResize v _ | OReserve v _ | OAssignN v _ => Some v
  | OGetChar _ _ | OCmp _ _ => None
  end.

Lemma spec_frame a o u : target o <> Some u -> get (fst (spec_step a o)) u = get a u.
Proof.
  intro Ht.
  assert (Hs : forall v l, Some v <> Some u -> get (set a v l) u = get a u)
    by (intros v l Hv; apply gso; congruence).
  destruct o; cbn [spec_step fst target] in *; try reflexivity; try (apply Hs; exact Ht).
  - destruct (N.eqb v w); [reflexivity|apply Hs; exact Ht].
  - destruct (N.eqb c 0); [reflexivity|apply Hs; exact Ht].
  - destruct (Z.leb c 0); [reflexivity|apply Hs; exact Ht].
Qed.

(* ---- what is still false of the faithful model: the full statement
     forall nv ops, run nv ops = map Ok (spec_run nv ops)
   needs the preconditions of Spec.pre.  One history per reason; each is re-run against the
   real code by props/C18str.py (WITNESSES), where the implementation behaves as the model. *)

Definition hello : list N := [104; 101; 108; 108; 111]%N.
Definition abc : list N := [97; 98; 99]%N.
Definition hello_world : list N := [104; 101; 108; 108; 111; 95; 119; 111; 114; 108; 100]%N.

Definition differs (nv : nat) (ops : list op) : Prop := run nv ops <> map Ok (spec_run nv ops).

Ltac refute := unfold differs; let H := fresh "H" in (intro H; vm_compute in H; discriminate H).

(* the code's own asserted precondition: tolower() / toupper() / the non-const operator[] on a
   string without storage dereference the null m_data *)
Lemma tolower_null_differs : differs 1 [OLower 0].
Proof. refute. Qed.
Lemma index_null_differs : differs 1 [OSetChar 0 0 65].
Proof. refute. Qed.

(* strings that hold 0 bytes (after a growing resize) and the operations with C-string semantics *)
(* append continues at the first 0 byte, not at length() *)
Lemma append_after_resize_differs : differs 1 [OResize 0 8; OAppendLit 0 [88; 89]%N].
Proof. refute. Qed.
(* a = a.c_str() is "the same thing": the length is not recomputed *)
Lemma assign_own_cstr_after_resize_differs : differs 1 [OSetLit 0 hello; OResize 0 8; OAssignCstr 0 0].
Proof. refute. Qed.

Lemma full_alphabet_refuted : exists nv ops, run nv ops <> map Ok (spec_run nv ops).
Proof. exists 1, [OResize 0%N 8; OAppendLit 0%N [88; 89]%N]. exact append_after_resize_differs. Qed.
