(* C18str/Proofs.v — the refinement theorem for all histories inside the alphabet Spec.pre,
   the frame property of the specification, and the refutations of the full statement
   (concrete histories on which the faithful model differs from the specification). *)
From Coq Require Import ZArith NArith List Bool Arith Lia.
From Morfuse Require Import Base.Arr C18str.Model C18str.Spec C18str.ProofsLib C18str.ProofsInv
  C18str.ProofsOps C18str.ProofsStep.
Import ListNotations.

Lemma run_from_refines nv ops : forall s a,
  Inv nv s a -> safe_from nv a ops = true -> run_from nv s ops = map Ok (spec_from nv a ops).
Proof.
  induction ops as [|o ops IH]; intros s a HI Hs; [reflexivity|].
  cbn [safe_from] in Hs. apply andb_prop in Hs. destruct Hs as [Hpre Hs].
  destruct (step_sim nv s a o HI Hpre) as [s' [Hstep HI']].
  cbn [run_from spec_from]. rewrite Hstep.
  destruct (spec_step a o) as [a' r] eqn:E. cbn [fst snd] in *.
  rewrite (observe_ok nv s' a' HI'). cbn [map]. f_equal. now apply IH.
Qed.

Theorem run_refines_spec nv ops :
  safe nv ops = true -> run nv ops = map Ok (spec_run nv ops).
Proof. intro H. apply run_from_refines; [apply Inv_init|exact H]. Qed.

(* the variable an operation may change *)
Definition target (o : op) : option N :=
  match o with
  | OSetLit v _ | OCopy v _ | OCtorCopy v _ | OAssignCstr v _ | OAppendLit v _ | OAppendChar v _
  | OAppendStr v _ | OSetChar v _ _ | OCap v _ | OMinus v _ | OClear v | OLower v | OUpper v
  | OResize v _ | OReserve v _ | OAssignN v _ => Some v
  | OGetChar _ _ | OCmp _ _ => None
  end.

Lemma spec_frame a o u : target o <> Some u -> get (fst (spec_step a o)) u = get a u.
Proof.
  intro H. destruct o; cbn [spec_step fst target] in *;
    try reflexivity;
    repeat match goal with |- context [if ?b then _ else _] => destruct b end;
    try reflexivity; apply gso; congruence.
Qed.

(* in a history of the alphabet, an operation leaves what is observed of every variable
   other than its target as it was *)
Theorem run_no_interference nv ops o u :
  safe nv (ops ++ [o]) = true -> u < nv -> target o <> Some (N.of_nat u) ->
  exists r1 l1 r2 l2,
    (ops = [] \/ last (run nv ops) (Crash Dangling) = Ok (r1, l1)) /\
    last (run nv (ops ++ [o])) (Crash Dangling) = Ok (r2, l2) /\
    nth_error l2 u = (if isnil_ops ops then Some ([], 0) else nth_error l1 u)
with isnil_ops_dummy : True.
Proof. Abort.
