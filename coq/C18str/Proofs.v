(* C18str/Proofs.v — the refinement theorem for all histories inside the alphabet Spec.pre,
   the frame property of the specification, and the refutations of the full statement
   (concrete histories on which the faithful model differs from the specification). *)
From Coq Require Import ZArith NArith List Bool Arith Lia.
From Morfuse Require Import Base.Arr C18str.Model C18str.Spec C18str.ProofsLib C18str.ProofsInv
  C18str.ProofsOps C18str.ProofsStep.
Import ListNotations.

Lemma run_from_refines nv ops : forall s a,
  Inv nv s a -> safe_from nv a ops = true -> run_from nv s ops = map Ok (spec_from nv a ops).
Proof.
  induction ops as [|o ops IH]; intros s a HI Hs; [reflexivity|].
  cbn [safe_from] in Hs. apply andb_prop in Hs. destruct Hs as [Hpre Hs].
  destruct (step_sim nv s a o HI Hpre) as [s' [Hstep HI']].
  cbn [run_from spec_from]. rewrite Hstep.
  destruct (spec_step a o) as [a' r] eqn:E. cbn [fst snd] in *.
  rewrite (observe_ok nv s' a' HI'). cbn [map]. f_equal. now apply IH.
Qed.

Theorem run_refines_spec nv ops :
  safe nv ops = true -> run nv ops = map Ok (spec_run nv ops).
Proof. intro H. apply run_from_refines; [apply Inv_init|exact H]. Qed.

(* the variable an operation may change *)
Definition target (o : op) : option N :=
  match o with
  | OSetLit v _ | OCopy v _ | OCtorCopy v _ | OAssignCstr v _ | OAppendLit v _ | OAppendChar v _
  | OAppendStr v _ | OSetChar v _ _ | OCap v _ | OMinus v _ | OClear v | OLower v | OUpper v
  | OResize v _ | OReserve v _ | OAssignN v _ => Some v
  | OGetChar _ _ | OCmp _ _ => None
  end.

Lemma spec_frame a o u : target o <> Some u -> get (fst (spec_step a o)) u = get a u.
Proof.
  intro Ht.
  assert (Hs : forall v l, Some v <> Some u -> get (set a v l) u = get a u)
    by (intros v l Hv; apply gso; congruence).
  destruct o; cbn [spec_step fst target] in *; try reflexivity; try (apply Hs; exact Ht).
  - destruct (N.eqb v w); [reflexivity|apply Hs; exact Ht].
  - destruct (N.eqb c 0); [reflexivity|apply Hs; exact Ht].
  - destruct (Z.leb c 0); [reflexivity|apply Hs; exact Ht].
Qed.

(* ---- refutations: the full statement  forall nv ops, run nv ops = map Ok (spec_run nv ops)
   is false of the faithful model.  One history per defect; each is re-run against the real
   code by props/C18str.py (WITNESSES), where the implementation behaves as the model. ---- *)

Definition hello : list N := [104; 101; 108; 108; 111]%N.
Definition abc : list N := [97; 98; 99]%N.
Definition hello_world : list N := [104; 101; 108; 108; 111; 95; 119; 111; 114; 108; 100]%N.

Definition differs (nv : nat) (ops : list op) : Prop := run nv ops <> map Ok (spec_run nv ops).

Ltac refute := unfold differs; let H := fresh "H" in (intro H; vm_compute in H; discriminate H).

(* resize(n) beyond the capacity: the reallocated strdata has len = 0, the zero fill starts at 0 *)
Lemma resize_grow_differs : differs 1 [OSetLit 0 hello; OResize 0 8].
Proof. refute. Qed.
(* resize(n) below the length stores no terminator *)
Lemma resize_shrink_differs : differs 1 [OSetLit 0 hello; OResize 0 3].
Proof. refute. Qed.
(* resize(0) of a null string dereferences m_data *)
Lemma resize_null_differs : differs 1 [OResize 0 0].
Proof. refute. Qed.
(* reserve(n) beyond the capacity: length() becomes 0 *)
Lemma reserve_differs : differs 1 [OSetLit 0 hello; OReserve 0 20].
Proof. refute. Qed.
(* ... and the next append overflows the storage it sizes from that length *)
Lemma reserve_append_differs : differs 1 [OSetLit 0 hello; OReserve 0 20; OAppendLit 0 [88%N]].
Proof. refute. Qed.
(* assign("", 0) on a null string dereferences m_data *)
Lemma assign_null_differs : differs 1 [OAssignN 0 []].
Proof. refute. Qed.
(* assign after a reallocation (alloced = 0): the old text is copied into n + 1 bytes *)
Lemma assign_after_growth_differs :
  differs 1 [OSetLit 0 [104; 105]%N; OAppendLit 0 hello_world; OAssignN 0 [120%N]].
Proof. refute. Qed.
(* append("") to a null string dereferences m_data *)
Lemma append_empty_differs : differs 1 [OAppendLit 0 []].
Proof. refute. Qed.
Lemma append_str_empty_differs : differs 2 [OAppendStr 0 1].
Proof. refute. Qed.
(* a.append(a): the source is the destination buffer *)
Lemma self_append_differs : differs 1 [OSetLit 0 [97; 98]%N; OAppendStr 0 0].
Proof. refute. Qed.
(* EnsureDataWritable on shared storage of length 0: EnsureAlloced(1) allocates nothing *)
Lemma index_shared_empty_differs :
  differs 2 [OSetLit 0 abc; OMinus 0 3; OCopy 1 0; OSetChar 0 0 65].
Proof. refute. Qed.
Lemma tolower_shared_empty_differs :
  differs 2 [OSetLit 0 abc; OCap 0 0; OCopy 1 0; OLower 0].
Proof. refute. Qed.

Lemma full_alphabet_refuted : exists nv ops, run nv ops <> map Ok (spec_run nv ops).
Proof. exists 1, [OSetLit 0%N hello; OResize 0%N 8]. exact resize_grow_differs. Qed.
