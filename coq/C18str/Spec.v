(* C18str/Spec.v — the abstract specification of the string variables: every variable is
   an independent byte string, [slot -> list byte].  An operation on one variable changes
   only that variable ("strings that share storage never observe each other's
   modifications"); there is no storage, no sharing and no capacity in the specification.
   The byte functions clit (a literal read as a C string), cmp, icmp, lower, upper are the
   ones of Model.v (pure functions on lists of bytes).
   [pre] is the part of the alphabet for which the refinement theorem is stated: genuine
   preconditions of the code, expressed on the abstract values and on a ghost flag "has
   storage" (what a client can know). *)
From Coq Require Import ZArith NArith List Bool Arith.
From Morfuse Require Import Base.Arr C18str.Model.
Import ListNotations.

Definition abs := arr (list N).

Definition abs_init : abs := aempty [].

Fixpoint set_nth (l : list N) (i : nat) (c : N) : list N :=
  match l, i with
  | [], _ => []
  | _ :: r, O => c :: r
  | x :: r, S j => x :: set_nth r j c
  end.

Definition isnil (l : list N) : bool := match l with [] => true | _ => false end.

Definition spec_step (a : abs) (o : op) : abs * ret :=
  match o with
  | OSetLit v lit => (set a v (clit lit), RNone)
  | OCopy v w => (set a v (get a w), RNone)
  | OCtorCopy v w => (if N.eqb v w then a else set a v (get a w), RNone)
  | OAssignCstr v w => (set a v (clit (get a w)), RNone)
  | OAppendLit v lit => (set a v (get a v ++ clit lit), RNone)
  | OAppendChar v c => (if N.eqb c 0 then a else set a v (get a v ++ [c]), RNone)
  | OAppendStr v w => (set a v (get a v ++ get a w), RNone)
  | OSetChar v i c => (set a v (set_nth (get a v) i c), RNone)
  | OGetChar v i => (a, RChar (nth i (get a v) 0%N))
  | OCap v n => (set a v (firstn n (get a v)), RNone)
  | OMinus v c =>
      (if Z.leb c 0 then a
       else set a v (firstn (length (get a v) - Z.to_nat c) (get a v)), RNone)
  | OClear v => (set a v [], RNone)
  | OLower v => (set a v (map lower (get a v)), RNone)
  | OUpper v => (set a v (map upper (get a v)), RNone)
  | OCmp v w =>
      let x := clit (get a v) in
      let y := clit (get a w) in
      (a, RCmp (Z.eqb (cmp x y) 0) (cmp x y) (icmp x y))
  | OResize v n =>
      (set a v (if Nat.leb n (length (get a v)) then firstn n (get a v)
                else get a v ++ repeat 0%N (n - length (get a v))), RNone)
  | OReserve v n => (a, RNone)
  | OAssignN v bytes => (set a v bytes, RNone)
  end.

(* what the client sees of a variable: c_str() (up to the first 0 byte) and length() *)
Definition spec_observe (nv : nat) (a : abs) : list (list N * nat) :=
  map (fun v => (clit (get a (N.of_nat v)), length (get a (N.of_nat v)))) (seq 0 nv).

Fixpoint spec_from (nv : nat) (a : abs) (ops : list op) : list obs :=
  match ops with
  | [] => []
  | o :: ops' =>
      let (a', r) := spec_step a o in
      (r, spec_observe nv a') :: spec_from nv a' ops'
  end.

Definition spec_run (nv : nat) (ops : list op) : list obs := spec_from nv abs_init ops.

(* ---- the alphabet of the theorem -------------------------------------------------------
   Genuine preconditions only, all of them conditions on what the client knows:
   - all variables are among the nv slots;
   - the non-const operator[], tolower() and toupper() assert m_data != null: they are
     applied only to a string that certainly has storage.  [has] is a conservative ghost
     flag per variable ("has been given storage": assigned a non-empty text, appended to,
     resized / reserved / assign(text, n)ed, or copied from such a string, and not cleared
     or assigned an empty text since); it is not part of the specification's values;
   - no 0 byte is stored through operator[];
   - the operations with C-string semantics (append of a literal or of a string, v = w.c_str(),
     tolower/toupper) are applied only to strings without 0 bytes: a string holds 0 bytes
     only after a growing resize() or an assign(text, n) of such bytes, until they are
     overwritten through operator[] or the string is given a new value.  Everything else
     (copies, operator[], append(char), CapLength, -=, resize, reserve, assign(text, n),
     clear, the comparisons) is length-counted and has no such precondition. *)
Definition inr (nv : nat) (v : N) : bool := N.ltb v (N.of_nat nv).

Definition nonul (l : list N) : bool := forallb (fun c => negb (N.eqb c 0)) l.

Definition has := arr bool.
Definition has_init : has := aempty false.

Definition has_step (a : abs) (h : has) (o : op) : has :=
  match o with
  | OSetLit v lit => set h v (negb (isnil (clit lit)))
  | OCopy v w => set h v (get h w)
  | OCtorCopy v w => if N.eqb v w then h else set h v (get h w)
  | OAssignCstr v w => set h v (negb (isnil (clit (get a w))))
  | OAppendLit v _ | OAppendStr v _ | OResize v _ | OReserve v _ | OAssignN v _ => set h v true
  | OAppendChar v c => if N.eqb c 0 then h else set h v true
  | OClear v => set h v false
  | OSetChar _ _ _ | OGetChar _ _ | OCap _ _ | OMinus _ _ | OLower _ | OUpper _ | OCmp _ _ => h
  end.

Definition pre (nv : nat) (a : abs) (h : has) (o : op) : bool :=
  match o with
  | OSetLit v _ | OGetChar v _ | OClear v | OAssignN v _ | OAppendChar v _ | OCap v _ | OMinus v _
  | OResize v _ | OReserve v _ => inr nv v
  | OCopy v w | OCtorCopy v w | OCmp v w => inr nv v && inr nv w
  | OAssignCstr v w => inr nv v && inr nv w && nonul (get a w)
  | OAppendLit v _ => inr nv v && nonul (get a v)
  | OAppendStr v w => inr nv v && inr nv w && nonul (get a v) && nonul (get a w)
  | OSetChar v _ c => inr nv v && get h v && negb (N.eqb c 0)
  | OLower v | OUpper v => inr nv v && get h v && nonul (get a v)
  end.

Fixpoint safe_from (nv : nat) (a : abs) (h : has) (ops : list op) : bool :=
  match ops with
  | [] => true
  | o :: ops' => pre nv a h o && safe_from nv (fst (spec_step a o)) (has_step a h o) ops'
  end.

Definition safe (nv : nat) (ops : list op) : bool := safe_from nv abs_init has_init ops.
