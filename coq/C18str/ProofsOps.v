(* C18str/ProofsOps.v — EnsureAlloced, EnsureDataWritable and every operation of the
   alphabet of the theorem preserve the invariant and do what the specification says. *)
From Coq Require Import ZArith NArith List Bool Arith Lia Permutation.
From Morfuse Require Import Base.Arr C18str.Model C18str.Spec C18str.ProofsLib C18str.ProofsInv.
Import ListNotations.

(* ---- small computation lemmas ----------------------------------------------------------- *)

Lemma with_data_some {A} s v id d (k : N -> sdata -> outcome A) :
  get (vars s) v = Some id -> get (heap s) id = Some d -> with_data s v k = k id d.
Proof. intros Hv Hd. unfold with_data, deref. rewrite Hv, Hd. reflexivity. Qed.

Lemma length_of_good s v l : vgood s (get (vars s) v) l -> length_of s v = Ok (length l).
Proof.
  unfold length_of, deref. destruct (get (vars s) v) as [id|]; cbn.
  - intros [d [Hd [_ Hl]]]. rewrite Hd. cbn. now rewrite Hl.
  - intros ->. reflexivity.
Qed.

Lemma c_str_of_good s v l : vgood s (get (vars s) v) l -> c_str_of s v = Ok l.
Proof.
  unfold c_str_of, deref. destruct (get (vars s) v) as [id|]; cbn.
  - intros [d [Hd Hg]]. rewrite Hd. cbn. now rewrite (good_text _ _ Hg).
  - intros ->. reflexivity.
Qed.

Lemma content_text d l : content d l -> cstr (buf d) = Some l.
Proof. intros [rest [Hb [Hn _]]]. rewrite Hb. now apply cstr_app. Qed.

Lemma inr_lt nv v : inr nv v = true -> (v < N.of_nat nv)%N.
Proof. unfold inr. intro H. now apply N.ltb_lt. Qed.

Lemma isnil_false l : isnil l = false -> l <> [].
Proof. destruct l; [discriminate|discriminate]. Qed.

Lemma isnil_true l : isnil l = true -> l = [].
Proof. destruct l; [reflexivity|discriminate]. Qed.

Lemma nonnil_length (l : list N) : l <> [] -> 1 <= length l.
Proof. destruct l; [congruence|cbn; lia]. Qed.

(* ---- EnsureAlloced (keepold = true) ------------------------------------------------------ *)

Lemma realloc_ok nv s a v id d l amt :
  InvG nv s a (Some v) [id] -> get (heap s) id = Some d -> good d l -> length l < amt ->
  exists s', realloc s v id d amt true = Ok s' /\
    InvG nv s' a (Some v) [nxt s] /\ get (vars s') v = Some (nxt s) /\
    exists d', get (heap s') (nxt s) = Some d' /\ content d' l /\ refc d' = 0 /\ length (buf d') = amt.
Proof.
  intros HG Hd Hg Hlt.
  assert (Hfresh : get (heap s) (nxt s) = None) by (apply (g_fresh _ _ _ _ _ HG); lia).
  assert (Hne : nxt s <> id) by (intro E; rewrite E in Hfresh; congruence).
  unfold realloc. rewrite (good_text _ _ Hg). cbn [ov bind].
  assert (Hw : write_at (repeat poison amt) 0 (l ++ [0%N]) =
               Some ((l ++ [0%N]) ++ skipn (length (l ++ [0%N])) (repeat poison amt))).
  { apply write_at_0. rewrite app_length, repeat_length. cbn. lia. }
  rewrite Hw. cbn [ov bind].
  set (nb := (l ++ [0%N]) ++ skipn (length (l ++ [0%N])) (repeat poison amt)).
  set (D := mkD 0 0 0 nb).
  assert (HG1 : InvG nv (new_data s D) a (Some v) [id; nxt s]).
  { apply InvG_perm with (e := [nxt s; id]); [apply perm_swap|]. apply P_new; [exact HG|reflexivity]. }
  destruct (P_delref _ _ _ _ _ _ HG1) as [s2 [d2 [Hd2 [Hdel [HG2 [Hvars [Hnxt [Hfr _]]]]]]]].
  rewrite Hdel. cbn [bind].
  eexists. split; [reflexivity|]. split; [|split].
  - apply P_setvar. exact HG2.
  - cbn [set_var vars]. apply gss.
  - exists D. cbn [set_var heap]. rewrite Hfr by exact Hne.
    cbn [new_data heap]. rewrite gss. split; [reflexivity|]. split; [|split].
    + exists (skipn (length (l ++ [0%N])) (repeat poison amt)). cbn [D buf alloced].
      split; [|split; [eapply good_nz; eauto|lia]].
      unfold nb. rewrite <- app_assoc. reflexivity.
    + reflexivity.
    + cbn [D buf]. unfold nb. rewrite (write_at_length _ _ _ _ Hw). apply repeat_length.
Qed.

Lemma ensure_alloced_ok nv s a v l amount :
  InvG nv s a (Some v) (olist (get (vars s) v)) ->
  vgood s (get (vars s) v) l -> length l < amount ->
  exists s', ensure_alloced s v amount true = Ok s' /\
    InvG nv s' a (Some v) (olist (get (vars s') v)) /\
    match get (vars s') v with
    | None => l = [] /\ amount <= 1
    | Some id => exists d, get (heap s') id = Some d /\ content d l /\ refc d = 0 /\
                           amount <= length (buf d)
    end.
Proof.
  intros HG Hg Hlt. unfold ensure_alloced.
  destruct (get (vars s) v) as [id|] eqn:Ev.
  - cbn [vgood] in Hg. destruct Hg as [d [Hd Hg]]. unfold deref. rewrite Hd. cbn [bind olist] in *.
    assert (Hre : forall amt, amount <= amt ->
              exists s', realloc s v id d amt true = Ok s' /\
                InvG nv s' a (Some v) (olist (get (vars s') v)) /\
                match get (vars s') v with
                | None => l = [] /\ amount <= 1
                | Some id => exists d, get (heap s') id = Some d /\ content d l /\ refc d = 0 /\
                                       amount <= length (buf d)
                end).
    { intros amt Hamt.
      destruct (realloc_ok nv s a v id d l amt HG Hd Hg ltac:(lia)) as [s' [Hr [HG' [Hv' [d' [Hd' [Hc [Hr' Hlen]]]]]]]].
      exists s'. split; [exact Hr|]. rewrite Hv'. cbn [olist]. split; [exact HG'|].
      exists d'. repeat split; auto. lia. }
    destruct (refc d) as [|r] eqn:Hr.
    + destruct (Nat.leb_spec amount (alloced d)) as [Hle|Hgt].
      * exists s. split; [reflexivity|]. rewrite Ev. cbn [olist]. split; [exact HG|].
        exists d. destruct Hg as [[rest [Hb [Hn Ha]]] Hl].
        split; [exact Hd|]. split; [exists rest; auto|]. split; [exact Hr|lia].
      * apply Hre. lia.
    + apply Hre. destruct (Nat.ltb_spec amount (alloced d)); lia.
  - cbn [vgood] in Hg. subst l. cbn [olist] in HG.
    destruct (Nat.ltb_spec 1 amount) as [H1|H1].
    + eexists. split; [reflexivity|]. cbn [set_var vars]. rewrite gss. cbn [olist].
      split.
      * apply P_setvar. apply P_new; [exact HG|reflexivity].
      * eexists. cbn [set_var new_data heap]. rewrite gss. split; [reflexivity|].
        cbn [buf refc alloced]. split; [|split; [reflexivity|cbn [length]; rewrite repeat_length; lia]].
        exists (repeat poison (amount - 1)). cbn [buf alloced]. split; [reflexivity|]. split; [apply nz_nil|].
        cbn [length]. rewrite repeat_length. lia.
    + exists s. split; [reflexivity|]. rewrite Ev. cbn [olist]. split; [exact HG|]. split; [reflexivity|lia].
Qed.

(* ---- EnsureDataWritable ------------------------------------------------------------------ *)

Lemma ensure_writable_ok nv s a v old d l :
  InvG nv s a (Some v) [old] -> get (vars s) v = Some old -> get (heap s) old = Some d ->
  good d l -> l <> [] ->
  exists s' id d', ensure_writable s v = Ok s' /\ InvG nv s' a (Some v) [id] /\
    get (vars s') v = Some id /\ get (heap s') id = Some d' /\ good d' l /\ refc d' = 0.
Proof.
  intros HG Ev Hd Hg Hnn. unfold ensure_writable. rewrite Ev. unfold deref at 1. rewrite Hd. cbn [bind].
  destruct (refc d) as [|r] eqn:Hr.
  - exists s, old, d. auto 10.
  - assert (Hlen : dlen d = length l) by apply Hg.
    pose proof (nonnil_length l Hnn) as Hl1.
    assert (Hfresh : get (heap s) (nxt s) = None) by (apply (g_fresh _ _ _ _ _ HG); lia).
    assert (Hne : old <> nxt s) by (intro E; rewrite <- E in Hfresh; congruence).
    unfold ensure_alloced. cbn [set_var vars]. rewrite gss.
    destruct (Nat.ltb_spec 1 (dlen d + 1)) as [_|Hbad]; [|lia].
    cbn [bind new_data set_var heap vars nxt].
    set (D := mkD 0 (dlen d + 1) 0 (0%N :: repeat poison (dlen d + 1 - 1))).
    set (s1 := set_var (new_data (set_var s v None) D) v (Some (nxt s))).
    assert (HG1 : InvG nv s1 a (Some v) [nxt s; old]).
    { apply (P_setvar nv (new_data (set_var s v None) D) a v (Some (nxt s))).
      apply (P_new nv (set_var s v None) a (Some v) [old] D); [|reflexivity].
      apply P_setvar. exact HG. }
    assert (Hv1 : get (vars s1) v = Some (nxt s)) by (unfold s1; cbn [set_var new_data vars]; apply gss).
    assert (Hn1 : get (heap s1) (nxt s) = Some D) by (unfold s1; cbn [set_var new_data heap nxt]; apply gss).
    assert (Ho1 : get (heap s1) old = Some d)
      by (unfold s1; cbn [set_var new_data heap nxt]; rewrite gso by exact Hne; exact Hd).
    rewrite (with_data_some s1 v (nxt s) D _ Hv1 Hn1).
    unfold deref. rewrite Ho1. cbn [bind]. rewrite (good_text _ _ Hg). cbn [ov bind].
    rewrite Hlen. rewrite firstn_snoc_all by lia.
    assert (Hw : write_at (buf D) 0 (l ++ [0%N]) = Some (l ++ [0%N])).
    { rewrite write_at_0.
      - rewrite skipn_all2; [now rewrite app_nil_r|].
        cbn [D buf length]. rewrite repeat_length, app_length. cbn. lia.
      - cbn [D buf length]. rewrite repeat_length, app_length. cbn. lia. }
    rewrite Hw. cbn [ov bind].
    set (D' := mkD (refc D) (alloced D) (length l) (l ++ [0%N])).
    assert (HG2 : InvG nv (upd s1 (nxt s) D') a (Some v) [old; nxt s]).
    { apply InvG_perm with (e := [nxt s; old]); [apply perm_swap|].
      apply P_upd with (d := D); auto. now left. }
    destruct (P_delref _ _ _ _ _ _ HG2) as [s2 [d2 [Hd2 [Hdel [HG3 [Hvars [Hnxt [Hfr _]]]]]]]].
    rewrite Hdel. exists s2, (nxt s), D'. split; [reflexivity|]. split; [exact HG3|].
    split; [rewrite Hvars; exact Hv1|]. split.
    + rewrite Hfr by (intro E; apply Hne; now symmetry). cbn [upd heap]. apply gss.
    + split; [|reflexivity]. split; [|reflexivity].
      exists []. cbn [D' D buf alloced]. split; [reflexivity|]. split; [eapply good_nz; eauto|].
      rewrite app_length. cbn. lia.
Qed.

(* an operation that first makes the (non-empty) string writable *)
Lemma open_writable nv s a v :
  Inv nv s a -> (v < N.of_nat nv)%N -> get a v <> [] ->
  exists s' id d', ensure_writable s v = Ok s' /\ InvG nv s' a (Some v) [id] /\
    get (vars s') v = Some id /\ get (heap s') id = Some d' /\ good d' (get a v) /\ refc d' = 0.
Proof.
  intros HI Hv Hnn. destruct (P_open nv s a v HI Hv) as [HG Hg].
  destruct (get (vars s) v) as [old|] eqn:Ev; cbn [vgood olist] in *; [|contradiction].
  destruct Hg as [d [Hd Hg]]. eapply ensure_writable_ok; eauto.
Qed.
