(* C18str/ProofsOps.v — EnsureAlloced and EnsureDataWritable preserve the invariant; what
   they guarantee to their callers. *)
From Coq Require Import ZArith NArith List Bool Arith Lia Permutation.
From Morfuse Require Import Base.Arr C18str.Model C18str.Spec C18str.ProofsLib C18str.ProofsInv.
Import ListNotations.

(* ---- small computation lemmas ----------------------------------------------------------- *)

Lemma with_data_some {A} s v id d (k : N -> sdata -> outcome A) :
  get (vars s) v = Some id -> get (heap s) id = Some d -> with_data s v k = k id d.
Proof. intros Hv Hd. unfold with_data, deref. rewrite Hv, Hd. reflexivity. Qed.

Lemma length_of_good s v l b : vgood s (get (vars s) v) l b -> length_of s v = Ok (length l).
Proof.
  unfold length_of, deref. destruct (get (vars s) v) as [id|]; cbn.
  - intros [d [Hd [_ Hl]]]. rewrite Hd. cbn. now rewrite Hl.
  - intros [-> _]. reflexivity.
Qed.

Lemma c_str_of_good s v l b : vgood s (get (vars s) v) l b -> c_str_of s v = Ok (clit l).
Proof.
  unfold c_str_of, deref. destruct (get (vars s) v) as [id|]; cbn.
  - intros [d [Hd Hg]]. rewrite Hd. cbn. now rewrite (good_text _ _ Hg).
  - intros [-> _]. reflexivity.
Qed.

Lemma inr_lt nv v : inr nv v = true -> (v < N.of_nat nv)%N.
Proof. unfold inr. intro H. now apply N.ltb_lt. Qed.

(* the pointers an operation holds besides the variable it modifies keep their text *)
Definition keeps (s s' : st) (E : list N) : Prop :=
  forall j dj, In j E -> get (heap s) j = Some dj ->
               exists dj', get (heap s') j = Some dj' /\ same_text dj dj'.

Lemma same_text_refl d : same_text d d.
Proof. repeat split. Qed.

Lemma keeps_refl s E : keeps s s E.
Proof. intros j dj _ H. exists dj. split; [exact H|apply same_text_refl]. Qed.

(* what EnsureAlloced(amount, true) guarantees: the variable owns, exclusively, storage of at
   least [amount] bytes with the old length and the old text (0 bytes included) *)
Definition owns (s' : st) (v : N) (id : N) (d : sdata) (l : list N) (amount : nat) : Prop :=
  get (vars s') v = Some id /\ get (heap s') id = Some d /\ refc d = 0 /\
  alloced d = length (buf d) /\ amount <= length (buf d) /\ dlen d = length l /\
  (exists rest, buf d = l ++ 0%N :: rest).

(* ---- EnsureAlloced (keepold = true) ------------------------------------------------------ *)

Lemma realloc_ok nv s a h v id d l amt E :
  InvG nv s a h (Some v) (id :: E) -> get (heap s) id = Some d -> good d l -> alloced d <= amt ->
  exists s' d', realloc s v id d amt true = Ok s' /\
    InvG nv s' a h (Some v) (nxt s :: E) /\ owns s' v (nxt s) d' l amt /\ keeps s s' E.
Proof.
  intros HG Hd Hg Hamt.
  assert (Hfresh : get (heap s) (nxt s) = None) by (apply (g_fresh _ _ _ _ _ _ HG); lia).
  assert (Hne : nxt s <> id) by (intro E'; rewrite E' in Hfresh; congruence).
  pose proof (good_room _ _ Hg) as Hroom.
  unfold realloc.
  assert (Hrd : read_n (buf d) (dlen d + 1) = Some (l ++ [0%N])).
  { destruct Hg as [[rest0 [Hb0 _]] Hl0]. rewrite Hb0, Hl0. apply read_n_text. }
  rewrite Hrd. cbn [ov bind].
  assert (Hw : write_at (repeat poison amt) 0 (l ++ [0%N]) =
               Some ((l ++ [0%N]) ++ skipn (length (l ++ [0%N])) (repeat poison amt))).
  { apply write_at_0. rewrite app_length, repeat_length. cbn. lia. }
  rewrite Hw. cbn [ov bind].
  set (nb := (l ++ [0%N]) ++ skipn (length (l ++ [0%N])) (repeat poison amt)).
  set (D := mkD 0 amt (dlen d) nb).
  assert (HG1 : InvG nv (new_data s D) a h (Some v) (id :: nxt s :: E)).
  { apply InvG_perm with (e := nxt s :: id :: E); [apply perm_swap|]. apply P_new; [exact HG|reflexivity]. }
  destruct (P_delref _ _ _ _ _ _ _ HG1) as [s2 [d2 [Hd2 [Hdel [HG2 [Hvars [Hnxt [Hfr [_ Hkeep]]]]]]]]].
  rewrite Hdel. cbn [bind].
  assert (Hd2' : d2 = d).
  { cbn [new_data heap] in Hd2. rewrite gso in Hd2 by (intro E'; apply Hne; now symmetry). congruence. }
  subst d2.
  eexists. exists D. split; [reflexivity|]. split; [apply P_setvar; exact HG2|]. split.
  - assert (Hlen : length nb = amt) by (unfold nb; rewrite (write_at_length _ _ _ _ Hw); apply repeat_length).
    split; [cbn [set_var vars]; apply gss|].
    split; [cbn [set_var heap]; rewrite Hfr by exact Hne; cbn [new_data heap]; apply gss|].
    cbn [D refc alloced dlen buf]. rewrite Hlen.
    split; [reflexivity|]. split; [reflexivity|]. split; [lia|]. split; [apply Hg|].
    exists (skipn (length (l ++ [0%N])) (repeat poison amt)).
    unfold nb. rewrite <- app_assoc. reflexivity.
  - intros j dj Hin Hj. cbn [set_var heap].
    assert (Hjn : j <> nxt s) by (intro E'; subst j; congruence).
    destruct (N.eq_dec j id) as [->|Hji].
    + rewrite Hd in Hj. inversion Hj; subst dj. apply Hkeep.
      (* id is held twice: by v's slot and in E, so its refcount is not 0 *)
      pose proof (g_cnt _ _ _ _ _ _ HG id d Hd) as Hc. cbn [occ] in Hc. rewrite N.eqb_refl in Hc.
      pose proof (occ_in_pos E id Hin). lia.
    + exists dj. split; [|apply same_text_refl]. rewrite Hfr by exact Hji.
      cbn [new_data heap]. rewrite gso by exact Hjn. exact Hj.
Qed.

Lemma ensure_alloced_ok nv s a h v l b amount E :
  InvG nv s a h (Some v) (olist (get (vars s) v) ++ E) ->
  vgood s (get (vars s) v) l b -> 1 <= amount ->
  exists s' id d, ensure_alloced s v amount true = Ok s' /\
    InvG nv s' a h (Some v) (id :: E) /\ owns s' v id d l amount /\ keeps s s' E.
Proof.
  intros HG Hg Hamt. unfold ensure_alloced.
  destruct (get (vars s) v) as [id|] eqn:Ev.
  - cbn [vgood] in Hg. destruct Hg as [d [Hd Hg]]. unfold deref. rewrite Hd.
    cbn [bind olist app] in *.
    assert (Hre : forall amt, amount <= amt -> alloced d <= amt ->
              exists s' id' d', realloc s v id d amt true = Ok s' /\
                InvG nv s' a h (Some v) (id' :: E) /\ owns s' v id' d' l amount /\ keeps s s' E).
    { intros amt H1 H2.
      destruct (realloc_ok nv s a h v id d l amt E HG Hd Hg H2) as [s' [d' [Hr [HG' [Ho Hk]]]]].
      exists s', (nxt s), d'. split; [exact Hr|]. split; [exact HG'|]. split; [|exact Hk].
      destruct Ho as [O1 [O2 [O3 [O4 [O5 [O6 O7]]]]]]. repeat split; auto. lia. }
    destruct (refc d) as [|r] eqn:Hr.
    + destruct (Nat.leb_spec amount (alloced d)) as [Hle|Hgt].
      * exists s, id, d. split; [reflexivity|]. split; [exact HG|]. split; [|apply keeps_refl].
        destruct Hg as [[rest [Hb Ha]] Hl]. repeat split; auto; [lia|].
        exists rest. exact Hb.
      * apply Hre; lia.
    + destruct (Nat.ltb_spec amount (alloced d)); apply Hre; lia.
  - cbn [vgood] in Hg. destruct Hg as [-> _]. cbn [olist app] in HG.
    destruct (Nat.ltb_spec 0 amount) as [_|Hbad]; [|lia].
    eexists. exists (nxt s). eexists. split; [reflexivity|]. split; [|split].
    + apply P_setvar. apply P_new; [exact HG|reflexivity].
    + split; [cbn [set_var vars]; apply gss|].
      split; [cbn [set_var new_data heap]; apply gss|].
      cbn [refc alloced dlen buf length]. rewrite repeat_length.
      split; [reflexivity|]. split; [lia|]. split; [lia|]. split; [reflexivity|].
      exists (repeat poison (amount - 1)). reflexivity.
    + intros j dj Hin Hj. exists dj. split; [|apply same_text_refl].
      cbn [set_var new_data heap]. rewrite gso; [exact Hj|].
      intro E'. subst j. rewrite (g_fresh _ _ _ _ _ _ HG (nxt s)) in Hj by lia. discriminate.
Qed.

(* ---- EnsureDataWritable ------------------------------------------------------------------ *)

Lemma ensure_writable_ok nv s a h v old d l :
  InvG nv s a h (Some v) [old] -> get (vars s) v = Some old -> get (heap s) old = Some d ->
  good d l ->
  exists s' id d', ensure_writable s v = Ok s' /\ InvG nv s' a h (Some v) [id] /\
    get (vars s') v = Some id /\ get (heap s') id = Some d' /\ good d' l /\ refc d' = 0.
Proof.
  intros HG Ev Hd Hg. unfold ensure_writable. rewrite Ev. unfold deref at 1. rewrite Hd. cbn [bind].
  destruct (refc d) as [|r] eqn:Hr.
  - exists s, old, d. auto 10.
  - assert (Hlen : dlen d = length l) by apply Hg.
    assert (Hfresh : get (heap s) (nxt s) = None) by (apply (g_fresh _ _ _ _ _ _ HG); lia).
    assert (Hne : old <> nxt s) by (intro E; rewrite <- E in Hfresh; congruence).
    unfold ensure_alloced. cbn [set_var vars]. rewrite gss.
    destruct (Nat.ltb_spec 0 (dlen d + 1)) as [_|Hbad]; [|lia].
    cbn [bind new_data set_var heap vars nxt].
    set (D := mkD 0 (dlen d + 1) 0 (0%N :: repeat poison (dlen d + 1 - 1))).
    set (s1 := set_var (new_data (set_var s v None) D) v (Some (nxt s))).
    assert (HG1 : InvG nv s1 a h (Some v) [nxt s; old]).
    { apply (P_setvar nv (new_data (set_var s v None) D) a h v (Some (nxt s))).
      apply (P_new nv (set_var s v None) a h (Some v) [old] D); [|reflexivity].
      apply P_setvar. exact HG. }
    assert (Hv1 : get (vars s1) v = Some (nxt s)) by (unfold s1; cbn [set_var new_data vars]; apply gss).
    assert (Hn1 : get (heap s1) (nxt s) = Some D) by (unfold s1; cbn [set_var new_data heap nxt]; apply gss).
    assert (Ho1 : get (heap s1) old = Some d)
      by (unfold s1; cbn [set_var new_data heap nxt]; rewrite gso by exact Hne; exact Hd).
    rewrite (with_data_some s1 v (nxt s) D _ Hv1 Hn1).
    unfold deref. rewrite Ho1. cbn [bind].
    assert (Hrd : read_n (buf d) (dlen d + 1) = Some (l ++ [0%N])).
    { destruct Hg as [[rest0 [Hb0 _]] Hl0]. rewrite Hb0, Hl0. apply read_n_text. }
    rewrite Hrd. cbn [ov bind]. rewrite Hlen.
    assert (Hw : write_at (buf D) 0 (l ++ [0%N]) = Some (l ++ [0%N])).
    { rewrite write_at_0.
      - rewrite skipn_all2; [now rewrite app_nil_r|].
        cbn [D buf length]. rewrite repeat_length, app_length. cbn. lia.
      - cbn [D buf length]. rewrite repeat_length, app_length. cbn. lia. }
    rewrite Hw. cbn [ov bind].
    set (D' := mkD (refc D) (alloced D) (length l) (l ++ [0%N])).
    assert (HG2 : InvG nv (upd s1 (nxt s) D') a h (Some v) [old; nxt s]).
    { apply InvG_perm with (e := [nxt s; old]); [apply perm_swap|].
      apply P_upd with (d := D); auto. now left. }
    destruct (P_delref _ _ _ _ _ _ _ HG2) as [s2 [d2 [Hd2 [Hdel [HG3 [Hvars [Hnxt [Hfr _]]]]]]]].
    rewrite Hdel. exists s2, (nxt s), D'. split; [reflexivity|]. split; [exact HG3|].
    split; [rewrite Hvars; exact Hv1|]. split.
    + rewrite Hfr by (intro E; apply Hne; now symmetry). cbn [upd heap]. apply gss.
    + split; [|reflexivity]. split; [|reflexivity].
      exists []. cbn [D' D buf alloced]. split; [reflexivity|].
      rewrite app_length. cbn. lia.
Qed.

(* an operation that first makes a string that has storage writable *)
Lemma open_writable nv s a h v :
  Inv nv s a h -> (v < N.of_nat nv)%N -> get h v = true ->
  exists s' id d', ensure_writable s v = Ok s' /\ InvG nv s' a h (Some v) [id] /\
    get (vars s') v = Some id /\ get (heap s') id = Some d' /\ good d' (get a v) /\ refc d' = 0.
Proof.
  intros HI Hv Hh. destruct (P_open nv s a h v HI Hv) as [HG Hg].
  destruct (get (vars s) v) as [old|] eqn:Ev; cbn [vgood olist] in *.
  - destruct Hg as [d [Hd Hg]]. eapply ensure_writable_ok; eauto.
  - destruct Hg as [_ Hb]. congruence.
Qed.

(* the same for a string that is known to be non-empty (it then has storage) *)
Lemma open_writable_nonempty nv s a h v :
  Inv nv s a h -> (v < N.of_nat nv)%N -> get a v <> [] ->
  exists s' id d', ensure_writable s v = Ok s' /\ InvG nv s' a h (Some v) [id] /\
    get (vars s') v = Some id /\ get (heap s') id = Some d' /\ good d' (get a v) /\ refc d' = 0.
Proof.
  intros HI Hv Hnn. destruct (P_open nv s a h v HI Hv) as [HG Hg].
  destruct (get (vars s) v) as [old|] eqn:Ev; cbn [vgood olist] in *.
  - destruct Hg as [d [Hd Hg]]. eapply ensure_writable_ok; eauto.
  - destruct Hg as [Hl _]. contradiction.
Qed.
