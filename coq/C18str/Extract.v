(* C18str/Extract.v — extraction of the model and the specification (ExtrOcamlBasic only). *)
Require Extraction.
Require Import ExtrOcamlBasic.
From Morfuse Require Import C18str.Model C18str.Spec.
Extraction "C18str_model.ml" run spec_run safe.
