(* C04/ProofsTable.v - finite facts about the value tables, decided by computation:
   the model's tables are the binary's (Generated.v), every entry is a value or a typed
   error, and a prediction made from the kinds alone agrees with the prediction made from the
   representative values. *)
From Coq Require Import ZArith List Bool Lia.
From Morfuse Require Import C04.Model C04.Table C04.Generated.
Import ListNotations.

Lemma tables_match : check_tables tables = true.
Proof. vm_compute. reflexivity. Qed.

Lemma tables_are_typed : tables_typed tables = true.
Proof. vm_compute. reflexivity. Qed.

Lemma tables_are_complete :
  table_entries tables = (16 * 43 * 43 + 12 * 43 + 43 * 43)%N.
Proof. vm_compute. reflexivity. Qed.

(* ------------------------------------------------------------------ enumeration *)

Lemma in_all_reps : forall r, In r all_reps.
Proof. destruct r; cbn; repeat (first [left; reflexivity | right]). Qed.

Lemma in_all_binops : forall o, In o all_binops.
Proof. destruct o; cbn; repeat (first [left; reflexivity | right]). Qed.

Lemma forall_reps (P : rep -> bool) : forallb P all_reps = true -> forall r, P r = true.
Proof. intros H r. rewrite forallb_forall in H. apply H, in_all_reps. Qed.

Lemma forall_binops (P : binop -> bool) : forallb P all_binops = true -> forall o, P o = true.
Proof. intros H o. rewrite forallb_forall in H. apply H, in_all_binops. Qed.

Definition all_unops : list unop := [UNeg; UCompl; UNot; USize; UTgt; UInc; UDec].
Lemma forall_unops (P : unop -> bool) : forallb P all_unops = true -> forall u, P u = true.
Proof. intros H u. rewrite forallb_forall in H. apply H. destruct u; cbn; repeat (first [left; reflexivity | right]). Qed.

Definition all_casts : list castfn := [CInt; CFloat; CString; CBool; CAbs; CVecLen; CTypeof; CIsDefined; CIsArray].
Lemma forall_casts (P : castfn -> bool) : forallb P all_casts = true -> forall c, P c = true.
Proof. intros H c. rewrite forallb_forall in H. apply H. destruct c; cbn; repeat (first [left; reflexivity | right]). Qed.

(* ------------------------------------------------------------------ equality of warning lists *)

Fixpoint wlist_beq (a b : list wclass) : bool :=
  match a, b with
  | [], [] => true
  | x :: a', y :: b' => wclass_beq x y && wlist_beq a' b'
  | _, _ => false
  end.

Lemma wlist_beq_eq a b : wlist_beq a b = true -> a = b.
Proof.
  revert b. induction a as [|x a IH]; destruct b as [|y b]; cbn; try discriminate; [reflexivity|].
  intro H. apply andb_prop in H. destruct H as [H1 H2].
  apply internal_wclass_dec_bl in H1. subst. f_equal. now apply IH.
Qed.

Lemma kind_beq_eq a b : kind_beq a b = true -> a = b.
Proof. apply internal_kind_dec_bl. Qed.

(* ------------------------------------------------------------------ totality on representatives *)

Definition total1 (o : option outcome) : bool :=
  match o with Some (_, ws) => Nat.leb (length ws) 1 | None => false end.

Lemma total1_spec o : total1 o = true -> exists v ws, o = Some (v, ws) /\ (length ws <= 1)%nat.
Proof.
  destruct o as [[v ws]|]; cbn; [|discriminate].
  intro H. apply Nat.leb_le in H. eauto.
Qed.

Lemma bin_total_b :
  forallb (fun o => forallb (fun a => forallb (fun b => total1 (bin o (Exact a) (Exact b))) all_reps) all_reps) all_binops = true.
Proof. vm_compute. reflexivity. Qed.

Lemma bin_total : forall o a b, exists v ws, bin o (Exact a) (Exact b) = Some (v, ws) /\ (length ws <= 1)%nat.
Proof.
  intros o a b. apply total1_spec.
  pose proof (forall_binops _ bin_total_b o) as H1. cbv beta in H1.
  pose proof (forall_reps _ H1 a) as H2. cbv beta in H2.
  exact (forall_reps _ H2 b).
Qed.

Lemma un_total_b :
  forallb (fun d => forallb (fun u => forallb (fun a => total1 (un d u (Exact a))) all_reps) all_unops) [true; false] = true.
Proof. vm_compute. reflexivity. Qed.

Lemma un_total : forall dbg u a, exists v ws, un dbg u (Exact a) = Some (v, ws) /\ (length ws <= 1)%nat.
Proof.
  intros dbg u a. apply total1_spec.
  pose proof un_total_b as H. cbn [forallb] in H.
  apply andb_prop in H. destruct H as [Ht H]. apply andb_prop in H. destruct H as [Hf _].
  destruct dbg.
  - pose proof (forall_unops _ Ht u) as H2. cbv beta in H2. exact (forall_reps _ H2 a).
  - pose proof (forall_unops _ Hf u) as H2. cbv beta in H2. exact (forall_reps _ H2 a).
Qed.

Lemma call_total_b :
  forallb (fun c => forallb (fun a => total1 (call c (Exact a))) all_reps) all_casts = true.
Proof. vm_compute. reflexivity. Qed.

Lemma call_total : forall c a, exists v ws, call c (Exact a) = Some (v, ws) /\ (length ws <= 1)%nat.
Proof.
  intros c a. apply total1_spec.
  pose proof (forall_casts _ call_total_b c) as H. cbv beta in H. exact (forall_reps _ H a).
Qed.

(* index read: total except where the C++ integer cast of the index is itself not defined
   (the negative float) *)
Definition index_total_or_undefined (a b : rep) : bool :=
  match index (Exact a) (Exact b) with
  | Some (_, ws) => Nat.leb (length ws) 1
  | None => match long_of b with CUnk => true | _ => false end
  end.
Lemma index_total_b :
  forallb (fun a => forallb (fun b => index_total_or_undefined a b) all_reps) all_reps = true.
Proof. vm_compute. reflexivity. Qed.

Lemma index_total : forall a b,
    (exists v ws, index (Exact a) (Exact b) = Some (v, ws) /\ (length ws <= 1)%nat) \/ long_of b = CUnk.
Proof.
  intros a b.
  pose proof (forall_reps _ index_total_b a) as H. cbv beta in H.
  pose proof (forall_reps _ H b) as H2. cbv beta in H2. unfold index_total_or_undefined in H2.
  destruct (index (Exact a) (Exact b)) as [[v ws]|].
  - left. apply Nat.leb_le in H2. eauto.
  - right. destruct (long_of b); try discriminate. reflexivity.
Qed.

(* ------------------------------------------------------------------ kinds alone never mispredict *)

(* [a] says no more than: the value is [r], or a value of the kind of [r] *)
Definition abstractions (r : rep) : list aval := [Exact r; OfKind (kind_of r)].

Definition agrees (abs conc : option outcome) : bool :=
  match abs with
  | None => true
  | Some (v, ws) =>
    match conc with
    | Some (v', ws') => wlist_beq ws ws' && kind_beq (akind v) (akind v')
    | None => false
    end
  end.

Lemma agrees_spec abs conc v ws :
  agrees abs conc = true -> abs = Some (v, ws) ->
  exists v', conc = Some (v', ws) /\ akind v' = akind v.
Proof.
  intros H ->. cbn in H. destruct conc as [[v' ws']|]; [|discriminate].
  apply andb_prop in H. destruct H as [H1 H2].
  apply wlist_beq_eq in H1. apply kind_beq_eq in H2. subst. eauto.
Qed.

Lemma bin_sound_b :
  forallb (fun o => forallb (fun ra => forallb (fun rb =>
    forallb (fun a => forallb (fun b => agrees (bin o a b) (bin o (Exact ra) (Exact rb))) (abstractions rb)) (abstractions ra))
    all_reps) all_reps) all_binops = true.
Proof. vm_compute. reflexivity. Qed.

Definition abstracts (a : aval) (r : rep) : Prop := a = Exact r \/ a = OfKind (kind_of r).

Lemma abstracts_in a r : abstracts a r -> In a (abstractions r).
Proof. intros [->| ->]; cbn; tauto. Qed.

Lemma bin_sound : forall o a b ra rb v ws,
    abstracts a ra -> abstracts b rb -> bin o a b = Some (v, ws) ->
    exists v', bin o (Exact ra) (Exact rb) = Some (v', ws) /\ akind v' = akind v.
Proof.
  intros o a b ra rb v ws Ha Hb E.
  pose proof (forall_binops _ bin_sound_b o) as H1. cbv beta in H1.
  pose proof (forall_reps _ H1 ra) as H2. cbv beta in H2.
  pose proof (forall_reps _ H2 rb) as H3. cbv beta in H3.
  rewrite forallb_forall in H3. specialize (H3 a (abstracts_in _ _ Ha)).
  rewrite forallb_forall in H3. specialize (H3 b (abstracts_in _ _ Hb)).
  eapply agrees_spec; eauto.
Qed.

Lemma un_sound_b :
  forallb (fun d => forallb (fun u => forallb (fun ra =>
    forallb (fun a => agrees (un d u a) (un d u (Exact ra))) (abstractions ra)) all_reps) all_unops) [true; false] = true.
Proof. vm_compute. reflexivity. Qed.

Lemma un_sound : forall dbg u a ra v ws,
    abstracts a ra -> un dbg u a = Some (v, ws) ->
    exists v', un dbg u (Exact ra) = Some (v', ws) /\ akind v' = akind v.
Proof.
  intros dbg u a ra v ws Ha E.
  pose proof un_sound_b as H. cbn [forallb] in H.
  apply andb_prop in H. destruct H as [Ht H]. apply andb_prop in H. destruct H as [Hf _].
  assert (Hd : forallb (fun u => forallb (fun ra => forallb (fun a => agrees (un dbg u a) (un dbg u (Exact ra))) (abstractions ra)) all_reps) all_unops = true)
    by (destruct dbg; assumption).
  pose proof (forall_unops _ Hd u) as H2. cbv beta in H2.
  pose proof (forall_reps _ H2 ra) as H3. cbv beta in H3.
  rewrite forallb_forall in H3. specialize (H3 a (abstracts_in _ _ Ha)).
  eapply agrees_spec; eauto.
Qed.

Lemma index_sound_b :
  forallb (fun ra => forallb (fun rb =>
    forallb (fun a => forallb (fun b => agrees (index a b) (index (Exact ra) (Exact rb))) (abstractions rb)) (abstractions ra))
    all_reps) all_reps = true.
Proof. vm_compute. reflexivity. Qed.

Lemma index_sound : forall a b ra rb v ws,
    abstracts a ra -> abstracts b rb -> index a b = Some (v, ws) ->
    exists v', index (Exact ra) (Exact rb) = Some (v', ws) /\ akind v' = akind v.
Proof.
  intros a b ra rb v ws Ha Hb E.
  pose proof (forall_reps _ index_sound_b ra) as H2. cbv beta in H2.
  pose proof (forall_reps _ H2 rb) as H3. cbv beta in H3.
  rewrite forallb_forall in H3. specialize (H3 a (abstracts_in _ _ Ha)).
  rewrite forallb_forall in H3. specialize (H3 b (abstracts_in _ _ Hb)).
  eapply agrees_spec; eauto.
Qed.

Lemma call_sound_b :
  forallb (fun c => forallb (fun ra =>
    forallb (fun a => agrees (call c a) (call c (Exact ra))) (abstractions ra)) all_reps) all_casts = true.
Proof. vm_compute. reflexivity. Qed.

Lemma call_sound : forall c a ra v ws,
    abstracts a ra -> call c a = Some (v, ws) ->
    exists v', call c (Exact ra) = Some (v', ws) /\ akind v' = akind v.
Proof.
  intros c a ra v ws Ha E.
  pose proof (forall_casts _ call_sound_b c) as H2. cbv beta in H2.
  pose proof (forall_reps _ H2 ra) as H3. cbv beta in H3.
  rewrite forallb_forall in H3. specialize (H3 a (abstracts_in _ _ Ha)).
  eapply agrees_spec; eauto.
Qed.
