(* C04/Table.v - comparison of the model's value tables with the tables dumped from the
   running binary (harness/C04.cpp, mode optable -> Generated.v).  Definitions only. *)
From Coq Require Import ZArith List Bool.
From Morfuse Require Import C04.Model.
Import ListNotations.
Local Open Scope Z_scope.

Scheme Equality for kind.
Scheme Equality for wclass.
Scheme Equality for lclass.
Scheme Equality for rep.
Scheme Equality for binop.

(* what the binary did with one table entry *)
Inductive dres :=
| DV (k : kind) (r : option rep)               (* a value of kind k (equal to representative r) *)
| DE (w : wclass) (k : kind) (r : option rep)  (* a typed script error; what the operand slot then holds *)
| DX                                           (* any other exception *)
| DS.                                          (* entry not executed *)

Definition all_binops : list binop :=
  [BAdd; BSub; BMul; BDiv; BMod; BAnd; BOr; BXor; BShl; BShr; BEq; BNe; BLt; BGt; BLe; BGe].

Definition opt_rep_beq (a b : option rep) : bool :=
  match a, b with Some x, Some y => rep_beq x y | None, None => true | _, _ => false end.

(* the model's value against the dumped one: same kind; when the model names a
   representative, the binary's value must be that one (null listeners of any origin are
   the same value: the dump names the first, Rnull) *)
Definition null_like (r : rep) : bool :=
  match r with Rnull | Rldead | Rlself => true | _ => false end.
Definition val_matches (v : aval) (k : kind) (r : option rep) : bool :=
  kind_beq (akind v) k &&
  match v with
  | OfKind _ => true
  | Exact x => match r with
               | Some y => rep_beq x y || (null_like x && null_like y)
               | None => false
               end
  end.

Definition out_matches (o : option outcome) (d : dres) : bool :=
  match o, d with
  | Some (v, []), DV k r => val_matches v k r
  | Some (v, [w]), DE w' k r => wclass_beq w w' && val_matches v k r
  | _, _ => false
  end.

(* only class / success kind (the harness cannot reproduce the cleared return slot) *)
Definition out_matches_weak (o : option outcome) (d : dres) : bool :=
  match o, d with
  | Some (v, []), DV k _ => kind_beq (akind v) k
  | Some (_, [w]), DE w' _ _ => wclass_beq w w'
  | _, _ => false
  end.

Fixpoint forallb2 {A B} (f : A -> B -> bool) (l : list A) (m : list B) : bool :=
  match l, m with
  | [], [] => true
  | a :: l', b :: m' => f a b && forallb2 f l' m'
  | _, _ => false
  end.

(* one row per (operator, left representative): the results for every right representative *)
Definition bin_row := (binop * rep * list dres)%type.
Definition check_bin_row (r : bin_row) : bool :=
  let '(o, a, ds) := r in
  forallb2 (fun b d => out_matches (bin o (Exact a) (Exact b)) d) all_reps ds.
Definition bin_keys : list (binop * rep) := list_prod all_binops all_reps.
Definition key_beq (x y : binop * rep) : bool := binop_beq (fst x) (fst y) && rep_beq (snd x) (snd y).
Definition check_bin (t : list bin_row) : bool :=
  forallb2 key_beq (map (fun r => (fst (fst r), snd (fst r))) t) bin_keys && forallb check_bin_row t.

(* unary operators and casts: one row per operator *)
Inductive utag := TNeg | TCompl | TInc | TDec | TNot | TSize | TCInt | TCFloat | TCString | TCBool | TCVecLen | TCChar.
Definition all_utags : list utag := [TNeg; TCompl; TInc; TDec; TNot; TSize; TCInt; TCFloat; TCString; TCBool; TCVecLen; TCChar].
Scheme Equality for utag.
Definition model_un (t : utag) (a : rep) : option outcome :=
  match t with
  | TNeg => un true UNeg (Exact a)
  | TCompl => un true UCompl (Exact a)
  | TInc => un true UInc (Exact a)
  | TDec => un true UDec (Exact a)
  | TNot => un true UNot (Exact a)
  | TSize => un true USize (Exact a)
  | TCInt => call CInt (Exact a)
  | TCFloat => call CFloat (Exact a)
  | TCString => call CString (Exact a)
  | TCBool => call CBool (Exact a)
  | TCVecLen => call CVecLen (Exact a)
  | TCChar => match char_cast (Exact a) with
              | Some true => ok KChar | Some false => err WCast (Exact a) | None => None
              end
  end.
Definition strict_tag (t : utag) : bool :=
  match t with TNeg | TCompl | TInc | TDec | TNot | TSize | TCChar => true | _ => false end.
Definition un_row := (utag * list dres)%type.
Definition check_un_row (r : un_row) : bool :=
  let '(t, ds) := r in
  forallb2 (fun a d => if strict_tag t then out_matches (model_un t a) d else out_matches_weak (model_un t a) d) all_reps ds.
Definition check_un (t : list un_row) : bool :=
  forallb2 utag_beq (map fst t) all_utags && forallb check_un_row t.

(* index read: one row per base representative *)
Definition idx_row := (rep * list dres)%type.
(* the model makes no prediction where the C++ cast itself is not defined (a negative float
   converted to an unsigned index): there the binary only has to answer with a value or a
   typed error *)
Definition out_matches_opt (o : option outcome) (d : dres) : bool :=
  match o with
  | None => match d with DV _ _ | DE _ _ _ => true | _ => false end
  | Some _ => out_matches o d
  end.
Definition check_idx_row (r : idx_row) : bool :=
  let '(a, ds) := r in forallb2 (fun b d => out_matches_opt (index (Exact a) (Exact b)) d) all_reps ds.
Definition unpredicted_idx : nat :=
  length (filter (fun ab => match index (Exact (fst ab)) (Exact (snd ab)) with None => true | Some _ => false end)
                 (list_prod all_reps all_reps)).
Definition check_idx (t : list idx_row) : bool :=
  forallb2 rep_beq (map fst t) all_reps && forallb check_idx_row t.

(* attributes *)
Inductive dlsn := DLE (w : wclass) | DLN | DLL (c : lclass).
Definition castres_beq (a b : castres) : bool :=
  match a, b with
  | CErr, CErr | CUnk, CUnk => true
  | CVal x, CVal y => x =? y
  | _, _ => false
  end.
Definition lres_matches (l : lres) (d : dlsn) : bool :=
  match l, d with
  | LErr w, DLE w' => wclass_beq w w'
  | LNull, DLN => true
  | LLive c, DLL c' => lclass_beq c c'
  | _, _ => false
  end.

Record tables := mkTables {
  t_kinds : list kind;                 (* the kind of every representative as built by the harness *)
  t_bin : list bin_row;
  t_un : list un_row;
  t_idx : list idx_row;
  t_size : list Z;
  t_arraysize : list Z;
  t_long : list castres;
  t_int : list castres;
  t_lsn : list dlsn }.

Definition check_tables (t : tables) : bool :=
  forallb2 (fun r k => kind_beq (kind_of r) k) all_reps (t_kinds t) &&
  check_bin (t_bin t) && check_un (t_un t) && check_idx (t_idx t) &&
  forallb2 (fun r z => size_of r =? z) all_reps (t_size t) &&
  forallb2 (fun r z => arraysize_of r =? z) all_reps (t_arraysize t) &&
  forallb2 (fun r c => castres_beq (long_of r) c) all_reps (t_long t) &&
  forallb2 (fun r c => castres_beq (int_of r) c) all_reps (t_int t) &&
  forallb2 (fun r d => lres_matches (lsn_of r) d) all_reps (t_lsn t).

(* no entry of the dump is anything but a value or a typed script error *)
Definition typed (d : dres) : bool := match d with DV _ _ | DE _ _ _ => true | DX | DS => false end.
Definition tables_typed (t : tables) : bool :=
  forallb (fun r => forallb typed (snd r)) (t_bin t) &&
  forallb (fun r => forallb typed (snd r)) (t_un t) &&
  forallb (fun r => forallb typed (snd r)) (t_idx t).
Definition table_entries (t : tables) : N :=
  (fold_right (fun r n => N.of_nat (length (snd r)) + n) 0 (t_bin t) +
   fold_right (fun r n => N.of_nat (length (snd r)) + n) 0 (t_un t) +
   fold_right (fun r n => N.of_nat (length (snd r)) + n) 0 (t_idx t))%N.
