(* C04/Model.v - executable model of how the morfuse interpreter treats values of the wrong
   kind: the operator / cast / index / field / receiver tables of src/Script/ScriptVariable.cpp
   and the per-opcode error paths of src/Script/ScriptVMOperation.cpp, as an abstract stack
   machine.

   What is modelled
     - value kinds (variableType_e) and a finite set of REPRESENTATIVE values [rep] (zero,
       negative, boundary ints, empty string, zero vector, live / removed / null listeners,
       hash array, const array, target list, pending result pointer ...) with the attributes
       the C++ switch statements consult (kind, zero-ness, integer cast, size, listener cast);
     - every binary operator (operator+= ... operator>>=, ==, !=, greaterthan ...), the unary
       operators (minus, complement, CastBoolean/!, size, $targetname, ++, --), the casts used
       by commands (intValue, floatValue, booleanNumericValue, vectorValue, stringValue),
       evalArrayAt (index read), setArrayAtRef (index write), field read / write on a
       receiver, receiver resolution of a command (ExecCmdMethodCommon) and the label position
       of thread / waitthread / goto: each is a total function to a result value and at most
       one typed script error ([wclass]); "the value is not known" is explicit ([OfKind]) and
       an operation whose result depends on an unknown attribute answers [None]
       (unpredictable, never "crash");
     - the interpreter as a stack machine: statements are compiled to instructions in the
       order of the emitter (Compiler.cpp EmitValue / EmitAssignmentStatement /
       EmitCommandMethod ...), each instruction pops / pushes exactly as its case in
       ScriptVM::Process does, INCLUDING the catch blocks (an error never aborts the
       statement: HandleScriptException logs the warning and the loop continues with the next
       instruction, the failing opcode having left NIL or the unchanged operand);
     - flow: a statement may end the thread (end, deleting the own thread) or suspend it
       (wait); later statements of an ended thread are not executed.
   What is abstracted
     - concrete results of successful arithmetic (only the kind is kept), the text of
       printed values and of warnings (only the class), time (a suspended thread resumes in a
       later frame), the contents of other threads (a started sub-thread prints one marker).
   `$name` with several bearers is a snapshot (a constant array of weak references, /repo
   8228a47): kind Container has no representative any more (no script produces one). *)
From Coq Require Import ZArith List Bool.
Import ListNotations.
Local Open Scope Z_scope.

(* ------------------------------------------------------------------ kinds and classes *)

Inductive kind :=
| KNone | KInt | KFloat | KChar | KCStr | KStr | KListener | KArray | KCArr | KCont | KPtr | KVec.

Inductive wclass :=
| WIncompat      (* ScriptVariableErrors::IncompatibleOperator *)
| WDivZero       (* DivideByZero *)
| WCast          (* CastError *)
| WIndex         (* TypeIndexOutOfRange *)
| WInvType       (* InvalidAppliedType ([] applied to ...) *)
| WNullField     (* ScriptVMErrors::NullListenerField *)
| WNilCmd        (* NilListenerCommand *)
| WNullCmd       (* NullListenerCommand *)
| WLabel         (* StateScriptErrors::LabelNotFound *)
| WNoTarget      (* TargetListErrors::NoTargetException *)
| WMultiTarget   (* MultipleTargetsException *)
| WBadHash       (* BadHashCodeValue *)
| WBadLabel      (* ListenerErrors::BadLabelType *)
| WFile          (* script file not found *)
| WScript.       (* plain ScriptException *)

(* classes of live listeners *)
Inductive lclass := LThread | LEntity | LPlain | LGame | LLevel | LParm | LGroup.

(* representative values; the harness builds exactly these (harness/C04.cpp, rep table) *)
Inductive rep :=
| Rnil | Rnull
| Ri0 | Ri1 | Ri2 | Ri3 | Rim1 | Ri64 | Ribig | Rimin
| Rf0 | Rf1 | Rf1h | Rfm2h
| Rse | Rsa | Rsabc | Rs12 | Rsvec | Rst1 | Rsg | Rsno | Rssub
| Rda | Rdabc
| Rch
| Rv0 | Rv123
| Rlth | Rlent | Rldead | Rlpl | Rlgame | Rllevel | Rlparm | Rlgroup | Rlself
| Rarr | Rearr | Rca123 | Rcal | Rgrp | Rptr.

Definition all_reps : list rep :=
  [Rnil; Rnull; Ri0; Ri1; Ri2; Ri3; Rim1; Ri64; Ribig; Rimin; Rf0; Rf1; Rf1h; Rfm2h;
   Rse; Rsa; Rsabc; Rs12; Rsvec; Rst1; Rsg; Rsno; Rssub; Rda; Rdabc; Rch; Rv0; Rv123;
   Rlth; Rlent; Rldead; Rlpl; Rlgame; Rllevel; Rlparm; Rlgroup; Rlself;
   Rarr; Rearr; Rca123; Rcal; Rgrp; Rptr].

Definition kind_of (r : rep) : kind :=
  match r with
  | Rnil => KNone
  | Rnull | Rlth | Rlent | Rldead | Rlpl | Rlgame | Rllevel | Rlparm | Rlgroup | Rlself => KListener
  | Ri0 | Ri1 | Ri2 | Ri3 | Rim1 | Ri64 | Ribig | Rimin => KInt
  | Rf0 | Rf1 | Rf1h | Rfm2h => KFloat
  | Rse | Rsa | Rsabc | Rs12 | Rsvec | Rst1 | Rsg | Rsno | Rssub => KCStr
  | Rda | Rdabc => KStr
  | Rch => KChar
  | Rv0 | Rv123 => KVec
  | Rarr | Rearr => KArray
  | Rca123 | Rcal | Rgrp => KCArr        (* $name with several bearers: a snapshot, a constant array *)
  | Rptr => KPtr
  end.

(* an abstract value: exactly a representative, or only its kind *)
Inductive aval := Exact (r : rep) | OfKind (k : kind).

Definition akind (a : aval) : kind := match a with Exact r => kind_of r | OfKind k => k end.

(* ------------------------------------------------------------------ attributes of reps *)

(* arithmetic zero (the tests `== 0` of operator/= and operator%=) *)
Definition zero_of (r : rep) : bool := match r with Ri0 | Rf0 => true | _ => false end.

(* result of a cast to an integer *)
Inductive castres := CErr | CVal (z : Z) | CUnk.

(* ScriptVariable::longValue: Integer, Float (cast to uint64), String/ConstString (strtoll) *)
Definition long_of (r : rep) : castres :=
  match r with
  | Ri0 => CVal 0 | Ri1 => CVal 1 | Ri2 => CVal 2 | Ri3 => CVal 3 | Rim1 => CVal (-1)
  | Ri64 => CVal 64 | Ribig => CVal 5000000000 | Rimin => CVal (-9223372036854775808)
  | Rf0 => CVal 0 | Rf1 => CVal 1 | Rf1h => CVal 1
  | Rfm2h => CUnk                     (* negative float to unsigned: not defined by C++ *)
  | Rs12 => CVal 12 | Rsvec => CVal 1
  | Rse | Rsa | Rsabc | Rst1 | Rsg | Rsno | Rssub | Rda | Rdabc => CVal 0
  | _ => CErr
  end.

(* ScriptVariable::intValue: the low 32 bits *)
Definition wrap32 (z : Z) : Z := let m := z mod 4294967296 in if m <? 2147483648 then m else m - 4294967296.
Definition int_of (r : rep) : castres :=
  match long_of r with CVal z => CVal (wrap32 z) | c => c end.

(* ScriptVariable::size() *)
Definition size_of (r : rep) : Z :=
  match r with
  | Rnil | Rptr => -1
  | Rse => 0 | Rsa | Rda => 1 | Rsabc | Rdabc => 3 | Rs12 => 2 | Rsvec => 5 | Rst1 => 2 | Rsg => 1
  | Rsno => 6 | Rssub => 3
  | Rnull | Rldead | Rlself => 0
  | Rlth | Rlent | Rlpl | Rlgame | Rllevel | Rlparm | Rlgroup => 1
  | Rarr => 2 | Rearr => 0 | Rca123 => 3 | Rcal => 3 | Rgrp => 2
  | _ => 1
  end.

(* ScriptVariable::arraysize() *)
Definition arraysize_of (r : rep) : Z :=
  match kind_of r with
  | KNone | KPtr => -1
  | KArray | KCArr | KCont => size_of r
  | _ => 1
  end.

(* ScriptVariable::listenerValue(): cast error, null, or a live listener; a string is looked
   up in the target list (exactly one target: that listener; several: MultipleTargets) *)
Inductive lres := LErr (w : wclass) | LNull | LLive (c : lclass).
Definition lsn_of (r : rep) : lres :=
  match r with
  | Rnull | Rldead | Rlself => LNull
  | Rlth => LLive LThread | Rlent => LLive LEntity | Rlpl => LLive LPlain
  | Rlgame => LLive LGame | Rllevel => LLive LLevel | Rlparm => LLive LParm | Rlgroup => LLive LGroup
  | Rst1 => LLive LEntity
  | Rsg => LErr WMultiTarget
  | Rse | Rsa | Rsabc | Rs12 | Rsvec | Rsno | Rssub | Rda | Rdabc => LNull
  | _ => LErr WCast
  end.

(* $( value ): the target list entry of the value's string form *)
Inductive tres := TNone | TOne | TMany.
Definition tgt_of (r : rep) : tres :=
  match r with Rst1 => TOne | Rsg => TMany | _ => TNone end.

(* floatValue(): Float, Integer, String, ConstString *)
Definition float_ok (k : kind) : bool :=
  match k with KFloat | KInt | KStr | KCStr => true | _ => false end.
(* intValue() / longValue() *)
Definition int_ok (k : kind) : bool := float_ok k.
(* Hash<ScriptVariable> *)
Definition hashable (k : kind) : bool :=
  match k with KStr | KCStr | KInt | KListener => true | _ => false end.
Definition is_string (k : kind) : bool := match k with KStr | KCStr => true | _ => false end.

(* element of an indexable representative (what evalArrayAt copies out) *)
Definition elem_of (r : rep) (i : Z) : option aval :=
  match r with
  | Rca123 => if i =? 1 then Some (Exact Ri1) else if i =? 2 then Some (Exact Ri2) else if i =? 3 then Some (Exact Ri3) else None
  | Rcal => if i =? 1 then Some (Exact Rlth) else if i =? 2 then Some (Exact Rlent) else if i =? 3 then Some (Exact Rlpl) else None
  | Rgrp => if (1 <=? i) && (i <=? 2) then Some (OfKind KListener) else None
  | Rv0 => if (0 <=? i) && (i <=? 2) then Some (Exact Rf0) else None
  | Rv123 => if i =? 0 then Some (Exact Rf1) else if (1 <=? i) && (i <=? 2) then Some (OfKind KFloat) else None
  | Rsabc | Rdabc => if i =? 0 then Some (Exact Rch) else if (1 <=? i) && (i <=? 2) then Some (OfKind KChar) else None
  | Rsa | Rda => if i =? 0 then Some (Exact Rch) else None
  | Rs12 | Rst1 => if (0 <=? i) && (i <=? 1) then Some (OfKind KChar) else None
  | Rsg => if i =? 0 then Some (OfKind KChar) else None
  | Rsvec => if (0 <=? i) && (i <=? 4) then Some (OfKind KChar) else None
  | Rsno => if (0 <=? i) && (i <=? 5) then Some (OfKind KChar) else None
  | Rssub => if (0 <=? i) && (i <=? 2) then Some (OfKind KChar) else None
  | _ => None
  end.

(* ------------------------------------------------------------------ outcomes *)

(* result value and at most one warning; [None] at the outer level = unpredictable *)
Definition outcome := (aval * list wclass)%type.
Definition ok (k : kind) : option outcome := Some (OfKind k, []).
Definition okv (a : aval) : option outcome := Some (a, []).
Definition err (w : wclass) (a : aval) : option outcome := Some (a, [w]).
Definition nil_v : aval := Exact Rnil.

(* ------------------------------------------------------------------ binary operators *)

Inductive binop :=
| BAdd | BSub | BMul | BDiv | BMod | BAnd | BOr | BXor | BShl | BShr
| BEq | BNe | BLt | BGt | BLe | BGe.

Definition numeric (k : kind) : bool := match k with KInt | KFloat => true | _ => false end.

(* the operand kinds of the string concatenation cases of operator+= *)
Definition concat_other (k : kind) : bool :=
  match k with KInt | KFloat | KChar | KListener | KVec => true | _ => false end.

Definition add_kind (a b : kind) : option kind :=
  match a, b with
  | KInt, KInt => Some KInt
  | KInt, KFloat | KFloat, KFloat | KFloat, KInt => Some KFloat
  | KVec, KVec => Some KVec
  | _, _ =>
    if (is_string a && (is_string b || concat_other b)) || (concat_other a && is_string b)
    then Some KStr else None
  end.

Definition sub_kind (a b : kind) : option kind :=
  match a, b with
  | KInt, KInt => Some KInt
  | KInt, KFloat | KFloat, KFloat | KFloat, KInt => Some KFloat
  | KVec, KVec => Some KVec
  | _, _ => None
  end.

Definition mul_kind (a b : kind) : option kind :=
  match a, b with
  | KInt, KInt => Some KInt
  | KInt, KFloat | KFloat, KFloat | KFloat, KInt => Some KFloat
  | KVec, KInt | KVec, KFloat | KInt, KVec | KFloat, KVec | KVec, KVec => Some KVec
  | _, _ => None
  end.

(* operator/= and operator%=: result kind and which operand is tested against zero *)
Inductive ztest := ZNone | ZLeft | ZRight.
Definition div_kind (a b : kind) : option (kind * ztest) :=
  match a, b with
  | KInt, KInt => Some (KInt, ZRight)
  | KVec, KInt | KVec, KFloat => Some (KVec, ZRight)
  | KInt, KFloat | KFloat, KFloat | KFloat, KInt => Some (KFloat, ZRight)
  | KInt, KVec | KFloat, KVec => Some (KVec, ZLeft)
  | KVec, KVec => Some (KVec, ZNone)
  | _, _ => None
  end.

Definition cmp_ok (a b : kind) : bool :=
  match a, b with
  | KInt, KInt | KInt, KFloat | KFloat, KFloat | KFloat, KInt | KChar, KChar => true
  | _, _ => false
  end.

Definition zero_av (a : aval) : option bool :=
  match a with Exact r => Some (zero_of r) | OfKind _ => None end.

(* left operand [a] (the stack slot that receives the result), right operand [b] *)
Definition bin (o : binop) (a b : aval) : option outcome :=
  let ka := akind a in let kb := akind b in
  let simple (r : option kind) :=
      match r with Some k => ok k | None => err WIncompat nil_v end in
  match o with
  | BAdd => simple (add_kind ka kb)
  | BSub => simple (sub_kind ka kb)
  | BMul => simple (mul_kind ka kb)
  | BDiv | BMod =>
    match div_kind ka kb with
    | None => err WIncompat nil_v
    | Some (k, ZNone) => ok k
    | Some (k, ZRight) =>
      match zero_av b with
      | Some true => err WDivZero a          (* thrown before anything is changed *)
      | Some false => ok k
      | None => None
      end
    | Some (k, ZLeft) =>
      match zero_av a with
      | Some true => err WDivZero a
      | Some false => ok k
      | None => None
      end
    end
  | BAnd | BOr | BXor | BShl | BShr =>
    match ka, kb with KInt, KInt => ok KInt | _, _ => err WIncompat nil_v end
  | BEq | BNe => ok KInt
  | BLt | BGt | BLe | BGe => if cmp_ok ka kb then ok KInt else err WIncompat nil_v
  end.

(* ------------------------------------------------------------------ unary operators *)

Inductive unop := UNeg | UCompl | UNot | USize | UTgt | UInc | UDec.

(* [dbg]: a Debug stream is attached (OP_UN_TARGETNAME only reports a missing target then) *)
Definition un (dbg : bool) (u : unop) (a : aval) : option outcome :=
  let k := akind a in
  match u with
  | UNeg =>
    match k with
    | KInt => ok KInt | KFloat => ok KFloat
    | _ => if int_ok k then ok KInt else err WCast a       (* setLongValue(-longValue()) *)
    end
  | UCompl =>
    if int_ok k then ok KInt else err WCast a              (* setIntValue(~intValue()) *)
  | UNot => ok KInt                                       (* CastBoolean never fails *)
  | USize => ok KInt
  | UTgt =>
    match a with
    | OfKind _ => None
    | Exact r =>
      match tgt_of r with
      | TNone => if dbg then err WNoTarget (OfKind KListener) else ok KListener
      | TOne => ok KListener
      | TMany => ok KCArr
      end
    end
  | UInc | UDec =>
    match k with
    | KNone => okv a
    | KInt => ok KInt | KFloat => ok KFloat
    | KPtr => okv nil_v                                    (* ClearPointerInternal *)
    | _ => if int_ok k then ok KInt else err WCast a
    end
  end.

(* ------------------------------------------------------------------ casts used by commands *)

Inductive castfn := CInt | CFloat | CString | CBool | CAbs | CVecLen | CTypeof | CIsDefined | CIsArray.

(* vectorValue() *)
Definition vec_cast (a : aval) : option (list wclass) :=
  match akind a with
  | KVec => Some []
  | KStr | KCStr =>
    match a with
    | Exact Rse => Some [WCast]                            (* "empty string" *)
    | Exact Rsvec => Some []
    | Exact _ => Some [WScript]                            (* malformed string *)
    | OfKind _ => None
    end
  | KListener =>
    match a with
    | Exact r => match lsn_of r with LLive LEntity => Some [] | _ => Some [WCast] end
    | OfKind _ => None
    end
  | _ => Some [WCast]
  end.

(* the command `c x` as an expression: the handler casts its argument; on an exception the
   return slot is cleared (executeCommandInternal<true>) *)
Definition call (c : castfn) (a : aval) : option outcome :=
  let k := akind a in
  let res (good : bool) (rk : kind) := if good then ok rk else err WCast nil_v in
  match c with
  | CInt => res (int_ok k) KInt
  | CFloat | CAbs => res (float_ok k) KFloat
  | CString => ok KStr
  | CBool => res (match k with KStr | KCStr | KInt | KFloat | KListener => true | _ => false end) KInt
  | CVecLen =>
    match vec_cast a with
    | None => None
    | Some [] => ok KFloat
    | Some ws => Some (nil_v, ws)
    end
  | CTypeof => ok KStr
  | CIsDefined | CIsArray => ok KInt
  end.

(* ------------------------------------------------------------------ index read: evalArrayAt *)

Definition long_av (a : aval) : castres :=
  match a with
  | Exact r => long_of r
  | OfKind k => if int_ok k then CUnk else CErr
  end.
Definition int_av (a : aval) : castres :=
  match a with
  | Exact r => int_of r
  | OfKind k => if int_ok k then CUnk else CErr
  end.

(* OP_STORE_ARRAY: base[idx]; every exception clears the result slot *)
Definition index (base idx : aval) : option outcome :=
  match akind base with
  | KNone => okv base
  | KArray =>
    if hashable (akind idx) then
      (* the representative array holds 1 -> "a" and "k" -> 2; no representative equals "k" *)
      match base, idx with
      | Exact Rarr, Exact Ri1 => okv (Exact Rsa)
      | Exact Rarr, Exact _ => okv nil_v
      | Exact Rearr, _ => okv nil_v
      | _, _ => None
      end
    else err WBadHash nil_v
  | KInt | KFloat | KChar | KPtr => err WInvType nil_v
  | KListener =>
    match long_av idx with
    | CErr => err WCast nil_v
    | CVal z => if z =? 1 then okv base else err WIndex nil_v
    | CUnk => None
    end
  | KVec | KStr | KCStr | KCArr | KCont =>
    match long_av idx with
    | CErr => err WCast nil_v
    | CUnk => None
    | CVal z =>
      match base with
      | OfKind _ => None
      | Exact r =>
        match elem_of r z with
        | Some v => okv v
        | None => err WIndex nil_v
        end
      end
    end
  end.

(* ------------------------------------------------------------------ index write: setArrayAtRef *)

(* charValue() *)
Definition char_cast (v : aval) : option bool :=
  match akind v with
  | KChar => Some true
  | KStr | KCStr => match v with Exact r => Some (size_of r =? 1) | OfKind _ => None end
  | _ => Some false
  end.

(* local.t = base ; local.t[idx] = v   ->   the warnings (the statement has no value) *)
Definition set_index (base : rep) (idx v : aval) : option (list wclass) :=
  match kind_of base with
  | KVec =>
    match int_av idx with
    | CErr => Some [WCast]
    | CUnk => None
    | CVal z =>
      if (z <? 0) || (2 <? z) then Some [WIndex]
      else if float_ok (akind v) then Some [] else Some [WCast]
    end
  | KNone =>
    if match akind v with KNone => true | _ => false end then Some []
    else if hashable (akind idx) then Some [] else Some [WBadHash]
  | KArray => if hashable (akind idx) then Some [] else Some [WBadHash]
  | KStr | KCStr =>
    match int_av idx with
    | CErr => Some [WCast]
    | CUnk => None
    | CVal z =>
      if (z <? 0) || (size_of base <=? z) then Some [WIndex]
      else match char_cast v with
           | Some true => Some [] | Some false => Some [WCast] | None => None
           end
    end
  | KCArr =>
    match int_av idx with
    | CErr => Some [WCast]
    | CUnk => None
    | CVal z =>
      (* the index is converted to unsigned int *)
      let u := z mod 4294967296 in
      if (u =? 0) || (size_of base <? u) then Some [WIndex] else Some []
    end
  | _ => Some [WInvType]
  end.

(* ------------------------------------------------------------------ field read / write *)

Definition lsn_av (a : aval) : option lres :=
  match a with
  | Exact r => Some (lsn_of r)
  | OfKind k =>
    match k with
    | KListener | KStr | KCStr => None
    | _ => Some (LErr WCast)
    end
  end.

(* OP_STORE_FIELD with a field that is no command and was never assigned *)
Definition field_get (recv : aval) : option outcome :=
  match lsn_av recv with
  | None => None
  | Some (LErr w) => err w nil_v
  | Some LNull => err WNullField nil_v
  | Some (LLive _) => okv nil_v
  end.

(* OP_LOAD_FIELD_VAR.  A target of array size >= 2 (hash array, constant array, target list)
   is a GROUP: ScriptVM::loadTopGroup snapshots it and assigns a copy of the value to every
   member, from the highest index down; a member that is no listener raises the cast error of
   listenerAt there (the members above it are already assigned), a dead member is skipped.
   Of a group only the representatives are followed (their members are known). *)
Definition field_set_one (recv : aval) : option (list wclass) :=
  match lsn_av recv with
  | None => None
  | Some (LErr w) => Some [w]
  | Some LNull => Some [WNullField]
  | Some (LLive _) => Some []
  end.

Definition field_set (recv : aval) : option (list wclass) :=
  match recv with
  | OfKind KArray | OfKind KCArr | OfKind KCont => None
  | OfKind _ => field_set_one recv
  | Exact r =>
    if 1 <? arraysize_of r then
      match r with
      | Rcal | Rgrp => Some []                 (* every member is a live listener *)
      | Rca123 | Rarr => Some [WCast]          (* a member that is no listener *)
      | _ => None
      end
    else field_set_one recv
  end.

(* ------------------------------------------------------------------ receivers of commands *)

(* ExecCmdMethodCommon: which listeners run the command, or the error *)
Inductive recv_res := RErr (w : wclass) | RRun (ls : list lclass).

Definition recv_of (a : aval) : option recv_res :=
  match a with
  | OfKind k =>
    match k with
    | KNone | KPtr => Some (RErr WNilCmd)
    | KInt | KFloat | KChar | KVec => Some (RErr WCast)
    | _ => None
    end
  | Exact r =>
    if arraysize_of r =? -1 then Some (RErr WNilCmd)
    else if 1 <? arraysize_of r then
      match r with
      | Rca123 => Some (RErr WCast)                        (* listenerAt(1) of an int *)
      | Rcal => Some (RRun [LThread; LEntity; LPlain])
      | Rgrp => Some (RRun [LEntity; LEntity])
      | Rarr => Some (RErr WCast)                          (* no element is a listener *)
      | _ => None
      end
    else
      match lsn_of r with
      | LErr w => Some (RErr w)
      | LNull => Some (RErr WNullCmd)
      | LLive c => Some (RRun [c])
      end
  end.

(* ------------------------------------------------------------------ labels *)

(* the label argument of thread / waitthread (Listener::CreateThreadInternal) and goto *)
Inductive label_res := LbErr (w : wclass) | LbSub.
Definition label_of (thread_call : bool) (a : aval) : option label_res :=
  match a with
  | Exact Rssub => Some LbSub
  | Exact Rse => None                                      (* the empty label restarts the script *)
  | Exact r =>
    if is_string (kind_of r) then Some (LbErr WLabel)
    else if thread_call then
      match kind_of r with
      | KCArr => Some (LbErr WFile)                        (* file::label of a missing file *)
      | _ => Some (LbErr WBadLabel)
      end
    else Some (LbErr WLabel)                               (* goto uses the string form *)
  | OfKind k =>
    if is_string k then None
    else if thread_call then
      match k with KCArr => None | _ => Some (LbErr WBadLabel) end
    else None
  end.

(* ------------------------------------------------------------------ programs *)

Inductive expr :=
| ELeaf (r : rep)
| EBin (o : binop) (a b : expr)
| ELogic (is_and : bool) (a b : expr)
| EUn (u : unop) (a : expr)
| EIdx (a i : expr)
| EFld (a : expr)
| EVec (a b c : expr)
| ECArr (a : expr) (rest : list expr)        (* a :: rest..., at least two elements *)
| ECall (c : castfn) (a : expr).

Inductive mcmd := MNotify | MThread | MWaitThread | MDelete.
(* CKill: `waitthread kill local <how> <depth>` (alone, or inside `local.t = (1 + (...)) * 2`):
   the running thread calls, and waits for, a thread that - depth calls deep - destroys the
   caller with delete / remove / immediateremove while the caller's VM is suspended inside
   the call instruction. *)
Inductive ccmd := CGoto | CThread | CWaitThread | CWait | CEnd | CKill.

Inductive stmt :=
| SPrint (e : expr)
| SAssign (e : expr)
| SIf (e : expr)
| SSetIdx (base : rep) (i v : expr)
| SSetFld (recv v : expr)
| SInc (dec : bool) (r : rep)
| SMethod (recv : expr) (c : mcmd) (arg : option expr)
| SCmd (c : ccmd) (arg : option expr).

(* ------------------------------------------------------------------ the machine *)

Inductive instr :=
| IPush (r : rep)                 (* OP_STORE_LOCAL_VAR of a prepared variable / a literal *)
| IBin (o : binop)
| ICastBool                       (* OP_UN_CAST_BOOLEAN *)
| ILogic (is_and : bool) (rhs : list instr)   (* OP_BOOL_LOGICAL_AND / OR, rhs, cast *)
| IUn (u : unop)
| IIndex                          (* OP_STORE_ARRAY *)
| IField                          (* OP_STORE_FIELD *)
| IVec                            (* OP_CALC_VECTOR *)
| ICArr (n : nat)                 (* OP_LOAD_CONST_ARRAY1 n *)
| ICall (c : castfn)              (* OP_STORE_LOCAL ; OP_EXEC_METHOD1 *)
| IPrint                          (* OP_EXEC_CMD1 println *)
| IStore                          (* OP_LOAD_LOCAL_VAR *)
| IJumpIf                         (* OP_VAR_JUMP_FALSE4 + one println in either branch *)
| IRef (base : rep)               (* OP_STORE_LOCAL ; OP_STORE_FIELD_REF t (t holds base) *)
| ISetIdx                         (* OP_LOAD_ARRAY_VAR *)
| ISetFld                         (* OP_LOAD_FIELD_VAR *)
| IMethod (c : mcmd) (nargs : nat)  (* OP_EXEC_CMD_METHODn *)
| ICmd (c : ccmd) (nargs : nat).    (* OP_EXEC_CMDn *)

Inductive flow := FNext | FSuspend | FEnd.

(* observation of one statement: warnings in order, number of printed lines, flow *)
Record sobs := mkObs { o_warn : list wclass; o_lines : nat; o_flow : flow }.

Record mstate := mkM { stk : list aval; warn : list wclass; lines : nat; fl : flow }.

Definition push (v : aval) (m : mstate) : mstate := mkM (v :: stk m) (warn m) (lines m) (fl m).
Definition warns (ws : list wclass) (m : mstate) : mstate := mkM (stk m) (warn m ++ ws) (lines m) (fl m).

Definition put (rest : list aval) (o : option outcome) (m : mstate) : option mstate :=
  match o with
  | None => None
  | Some (v, ws) => Some (mkM (v :: rest) (warn m ++ ws) (lines m) (fl m))
  end.

Definition drop (rest : list aval) (o : option (list wclass)) (m : mstate) : option mstate :=
  match o with
  | None => None
  | Some ws => Some (mkM rest (warn m ++ ws) (lines m) (fl m))
  end.

Definition all_float_ok (a b c : aval) : bool :=
  float_ok (akind a) && float_ok (akind b) && float_ok (akind c).

(* the sub-thread started by thread / waitthread prints one line and ends *)
Definition start_sub (lb : label_res) : list wclass * nat :=
  match lb with LbErr w => ([w], O) | LbSub => ([], 1%nat) end.

Definition method_effect (c : mcmd) (ls : list lclass) (arg : option aval) : option (list wclass * nat * flow) :=
  match c with
  | MNotify => Some ([], O, FNext)
  | MDelete =>
    (* deleting the running thread ends it; the other receivers used here survive a
       delete only as removed objects *)
    if existsb (fun c => match c with LThread => true | _ => false end) ls
    then Some ([], O, FEnd)
    else if forallb (fun c => match c with LEntity | LPlain => true | _ => false end) ls
         then Some ([], O, FNext) else None
  | MThread | MWaitThread =>
    match arg with
    | None => None
    | Some a =>
      match label_of true a with
      | None => None
      | Some lb =>
        (* the command runs once per receiver; the first error ends the loop *)
        match lb with
        | LbErr w => Some ([w], O, FNext)
        | LbSub => Some ([], length ls, FNext)
        end
      end
    end
  end.

(* floatValue() == 0 of a representative that casts to a float *)
Definition fzero_of (r : rep) : bool :=
  match r with
  | Ri0 | Rf0 | Rse | Rsa | Rsabc | Rst1 | Rsg | Rsno | Rssub | Rda | Rdabc => true
  | _ => false
  end.

(* wait x: a cast error, or the thread is suspended; a wait of 0 is due at once: the thread is
   resumed before the host's call returns, which looks like going on *)
Definition wait_flow (a : aval) : option (list wclass * flow) :=
  if float_ok (akind a) then
    match a with
    | Exact Rfm2h | Exact Rim1 | Exact Rimin => None     (* negative time: the cast is not defined *)
    | Exact Ribig => None                                (* longer than any run of the harness *)
    | Exact r => Some ([], if fzero_of r then FNext else FSuspend)
    | OfKind _ => None
    end
  else Some ([WCast], FNext).

(* nesting depth of the deleted-by-callee family: 1, 2 or 3 *)
Definition kill_depth (a : aval) : option nat :=
  match a with
  | Exact Ri1 => Some 1%nat | Exact Ri2 => Some 2%nat | Exact Ri3 => Some 3%nat
  | _ => None
  end.

Definition step_method (c : mcmd) (nargs : nat) (r : aval) (s : list aval) (m : mstate) : option mstate :=
  let arg := match nargs with O => None | S _ => hd_error s end in
  let rest := skipn nargs s in
  if Nat.leb nargs (length s) then
    match recv_of r with
    | None => None
    | Some (RErr w) => Some (mkM rest (warn m ++ [w]) (lines m) (fl m))
    | Some (RRun ls) =>
      match method_effect c ls arg with
      | None => None
      | Some (ws, n, f) => Some (mkM rest (warn m ++ ws) (lines m + n) f)
      end
    end
  else None.

Definition step_cmd (c : ccmd) (nargs : nat) (s : list aval) (m : mstate) : option mstate :=
  let arg := match nargs with O => None | S _ => hd_error s end in
  let rest := skipn nargs s in
  if Nat.leb nargs (length s) then
    match c, arg with
    | CEnd, _ => Some (mkM rest (warn m) (lines m) FEnd)
    | CKill, Some a =>
      (* the innermost callee prints one line and deletes the caller: the caller has ended,
         nothing of the statement runs afterwards; the callees, which nobody waits for any
         more, are destroyed with it *)
      match kill_depth a with
      | Some _ => Some (mkM rest (warn m) (lines m + 1) FEnd)
      | None => None
      end
    | CWait, Some a =>
      match wait_flow a with
      | None => None
      | Some (ws, f) => Some (mkM rest (warn m ++ ws) (lines m) f)
      end
    | CGoto, Some a =>
      match label_of false a with
      | Some (LbErr w) => Some (mkM rest (warn m ++ [w]) (lines m) (fl m))
      | _ => None
      end
    | (CThread | CWaitThread), Some a =>
      match label_of true a with
      | Some lb => let '(ws, n) := start_sub lb in
                   Some (mkM rest (warn m ++ ws) (lines m + n) (fl m))
      | None => None
      end
    | _, None => None
    end
  else None.

(* the right operand of && / || evaluated on its own: whether it runs depends on the truth of
   the left operand, which the model does not track, so the instruction is predictable only
   when the right operand raises nothing (both paths then look the same) *)
Definition logic_result (rest : list aval) (sub : option mstate) (m : mstate) : option mstate :=
  match sub with
  | Some m' =>
    match warn m', lines m', stk m' with
    | [], O, _ :: _ => put rest (ok KInt) m
    | _, _, _ => None
    end
  | None => None
  end.

Fixpoint step (dbg : bool) (i : instr) (m : mstate) {struct i} : option mstate :=
  match i with
  | IPush r => Some (push (Exact r) m)
  | IBin o => match stk m with b :: a :: rest => put rest (bin o a b) m | _ => None end
  | ICastBool => match stk m with a :: rest => put rest (ok KInt) m | _ => None end
  | ILogic _ rhs =>
    match stk m with
    | a :: rest =>
      logic_result rest
        ((fix go (is : list instr) (m0 : mstate) {struct is} : option mstate :=
            match is with
            | [] => Some m0
            | j :: is' => match step dbg j m0 with
                          | None => None
                          | Some m1 => go is' m1
                          end
            end) rhs (mkM rest [] O FNext)) m
    | _ => None
    end
  | IUn u => match stk m with a :: rest => put rest (un dbg u a) m | _ => None end
  | IIndex => match stk m with i :: b :: rest => put rest (index b i) m | _ => None end
  | IField => match stk m with a :: rest => put rest (field_get a) m | _ => None end
  | IVec =>
    match stk m with
    | c :: b :: a :: rest =>
      if all_float_ok a b c then put rest (ok KVec) m else put rest (err WCast a) m
    | _ => None
    end
  | ICArr n =>
    if Nat.leb 2 n && Nat.leb n (length (stk m))
    then Some (mkM (OfKind KCArr :: skipn n (stk m)) (warn m) (lines m) (fl m)) else None
  | ICall c => match stk m with a :: rest => put rest (call c a) m | _ => None end
  | IPrint => match stk m with a :: rest => Some (mkM rest (warn m) (S (lines m)) (fl m)) | _ => None end
  | IStore => match stk m with a :: rest => Some (mkM rest (warn m) (lines m) (fl m)) | _ => None end
  | IJumpIf => match stk m with a :: rest => Some (mkM rest (warn m) (S (lines m)) (fl m)) | _ => None end
  | IRef base => Some (push (Exact base) m)
  | ISetIdx =>
    match stk m with
    | i :: Exact base :: v :: rest => drop rest (set_index base i v) m
    | _ => None
    end
  | ISetFld => match stk m with r :: v :: rest => drop rest (field_set r) m | _ => None end
  | IMethod c nargs => match stk m with r :: s => step_method c nargs r s m | _ => None end
  | ICmd c nargs => step_cmd c nargs (stk m) m
  end.

Fixpoint run_code (dbg : bool) (is : list instr) (m : mstate) : option mstate :=
  match is with
  | [] => Some m
  | i :: is' => match step dbg i m with
                | None => None
                | Some m' => run_code dbg is' m'
                end
  end.

(* ------------------------------------------------------------------ the compiler (emitter order) *)

Fixpoint comp (e : expr) : list instr :=
  match e with
  | ELeaf r => [IPush r]
  | EBin o a b => comp a ++ comp b ++ [IBin o]
  | ELogic is_and a b => comp a ++ [ICastBool; ILogic is_and (comp b ++ [ICastBool])]
  | EUn UNot a => comp a ++ [ICastBool; IUn UNot]
  | EUn u a => comp a ++ [IUn u]
  | EIdx a i => comp a ++ comp i ++ [IIndex]
  | EFld a => comp a ++ [IField]
  | EVec a b c => comp a ++ comp b ++ comp c ++ [IVec]
  | ECArr a rest => comp a ++ flat_map comp rest ++ [ICArr (S (length rest))]
  | ECall c a => comp a ++ [ICall c]
  end.

Definition opt_comp (o : option expr) : list instr := match o with None => [] | Some e => comp e end.
Definition opt_n (o : option expr) : nat := match o with None => O | Some _ => 1%nat end.

Definition comp_stmt (s : stmt) : list instr :=
  match s with
  | SPrint e => comp e ++ [IPrint]
  | SAssign e => comp e ++ [IStore]
  | SIf e => comp e ++ [ICastBool; IJumpIf]
  | SSetIdx base i v => comp v ++ [IRef base] ++ comp i ++ [ISetIdx]
  | SSetFld r v => comp v ++ comp r ++ [ISetFld]
  | SInc dec r => [IPush r; IUn (if dec then UDec else UInc); IStore]
  | SMethod r c arg => opt_comp arg ++ comp r ++ [IMethod c (opt_n arg)]
  | SCmd c arg => opt_comp arg ++ [ICmd c (opt_n arg)]
  end.

(* observation of a statement started with an empty operand stack; [None]: unpredictable.
   The final stack height is part of the result: [run_stmt] answers only when it is 0. *)
Definition exec_stmt (dbg : bool) (s : stmt) : option mstate :=
  run_code dbg (comp_stmt s) (mkM [] [] O FNext).

(* Reading the size of a pending thread result, using it as a receiver or incrementing it
   CLEARS every variable that holds it (ScriptPointer::Clear): a second use of the pending
   result in the same statement then sees NIL or the pointer, depending on the order of the
   opcodes.  The model does not follow that: a statement that mentions the pending result more
   than once is not predicted. *)
Fixpoint ptr_uses (e : expr) : nat :=
  match e with
  | ELeaf Rptr => 1%nat
  | ELeaf _ => 0%nat
  | EBin _ a b | ELogic _ a b | EIdx a b => (ptr_uses a + ptr_uses b)%nat
  | EUn _ a | EFld a | ECall _ a => ptr_uses a
  | EVec a b c => (ptr_uses a + ptr_uses b + ptr_uses c)%nat
  | ECArr a rest => (ptr_uses a + fold_right (fun e n => ptr_uses e + n) 0 rest)%nat
  end.
Definition rep_is_ptr (r : rep) : nat := match r with Rptr => 1%nat | _ => 0%nat end.
Definition opt_ptr_uses (o : option expr) : nat := match o with None => 0%nat | Some e => ptr_uses e end.
Definition stmt_ptr_uses (s : stmt) : nat :=
  match s with
  | SPrint e | SAssign e | SIf e => ptr_uses e
  | SSetIdx base i v => (rep_is_ptr base + ptr_uses i + ptr_uses v)%nat
  | SSetFld r v => (ptr_uses r + ptr_uses v)%nat
  | SInc _ r => rep_is_ptr r
  | SMethod r _ arg => (ptr_uses r + opt_ptr_uses arg)%nat
  | SCmd _ arg => opt_ptr_uses arg
  end.
Definition ptr_twice (s : stmt) : bool := Nat.leb 2 (stmt_ptr_uses s).

Definition run_stmt0 (dbg : bool) (s : stmt) : option sobs :=
  match exec_stmt dbg s with
  | Some m => match stk m with
              | [] => Some (mkObs (warn m) (lines m) (fl m))
              | _ :: _ => None
              end
  | None => None
  end.

Definition run_stmt (dbg : bool) (s : stmt) : option sobs :=
  if ptr_twice s then None else run_stmt0 dbg s.

(* what the harness can see of a thread: per statement
     ODone o   - started and finished (bracketing markers both printed), with o
     OCut o    - started, the thread ended inside it
     OSkip     - never started (the thread had ended)
     OUnknown  - the model makes no prediction (from here on when the flow is unknown) *)
Inductive tobs := ODone (o : sobs) | OCut (o : sobs) | OSkip | OUnknown.

Fixpoint run_from (dbg : bool) (alive known : bool) (p : list stmt) : list tobs :=
  match p with
  | [] => []
  | s :: p' =>
    if negb known then OUnknown :: run_from dbg alive false p'
    else if negb alive then OSkip :: run_from dbg false true p'
    else match run_stmt dbg s with
         | None =>
           (* a statement without commands cannot change the flow *)
           match s with
           | SMethod _ _ _ | SCmd _ _ => OUnknown :: run_from dbg alive false p'
           | _ => OUnknown :: run_from dbg alive true p'
           end
         | Some o =>
           match o_flow o with
           | FEnd => OCut o :: run_from dbg false true p'
           | _ => ODone o :: run_from dbg true true p'
           end
         end
  end.

Definition run (dbg : bool) (p : list stmt) : list tobs := run_from dbg true true p.
