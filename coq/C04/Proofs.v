(* C04/Proofs.v - the stack machine of Model.v refines the big-step specification of Spec.v;
   consequences: the operand stack is empty after every statement, an error never stops the
   thread, statements do not interfere. *)
From Coq Require Import ZArith List Bool Lia.
From Morfuse Require Import C04.Model C04.Spec.
Import ListNotations.

(* ------------------------------------------------------------------ induction on expressions *)

Section ExprInd.
  Variable P : expr -> Prop.
  Hypothesis Hleaf : forall r, P (ELeaf r).
  Hypothesis Hbin : forall o a b, P a -> P b -> P (EBin o a b).
  Hypothesis Hlogic : forall x a b, P a -> P b -> P (ELogic x a b).
  Hypothesis Hun : forall u a, P a -> P (EUn u a).
  Hypothesis Hidx : forall a i, P a -> P i -> P (EIdx a i).
  Hypothesis Hfld : forall a, P a -> P (EFld a).
  Hypothesis Hvec : forall a b c, P a -> P b -> P c -> P (EVec a b c).
  Hypothesis Hcarr : forall a rest, P a -> Forall P rest -> P (ECArr a rest).
  Hypothesis Hcall : forall c a, P a -> P (ECall c a).

  Fixpoint expr_ind2 (e : expr) : P e :=
    match e with
    | ELeaf r => Hleaf r
    | EBin o a b => Hbin o a b (expr_ind2 a) (expr_ind2 b)
    | ELogic x a b => Hlogic x a b (expr_ind2 a) (expr_ind2 b)
    | EUn u a => Hun u a (expr_ind2 a)
    | EIdx a i => Hidx a i (expr_ind2 a) (expr_ind2 i)
    | EFld a => Hfld a (expr_ind2 a)
    | EVec a b c => Hvec a b c (expr_ind2 a) (expr_ind2 b) (expr_ind2 c)
    | ECArr a rest =>
      Hcarr a rest (expr_ind2 a)
            ((fix go (l : list expr) : Forall P l :=
                match l with
                | [] => Forall_nil P
                | x :: l' => Forall_cons x (expr_ind2 x) (go l')
                end) rest)
    | ECall c a => Hcall c a (expr_ind2 a)
    end.
End ExprInd.

(* ------------------------------------------------------------------ code sequences *)

Lemma run_code_app dbg a b m :
  run_code dbg (a ++ b) m = bind (run_code dbg a m) (run_code dbg b).
Proof.
  revert m. induction a as [|i a IH]; intro m; cbn [app run_code bind]; [reflexivity|].
  destruct (step dbg i m); cbn [bind]; [apply IH | reflexivity].
Qed.

(* the local loop inside [step] is [run_code] *)
Lemma inner_is_run_code dbg :
  forall is m0,
    (fix go (is : list instr) (m0 : mstate) {struct is} : option mstate :=
       match is with
       | [] => Some m0
       | j :: is' => match step dbg j m0 with
                     | None => None
                     | Some m1 => go is' m1
                     end
       end) is m0 = run_code dbg is m0.
Proof.
  induction is as [|j is IH]; intro m0; [reflexivity|].
  cbn [run_code]. destruct (step dbg j m0); [apply IH | reflexivity].
Qed.

Lemma step_logic dbg x rhs m :
  step dbg (ILogic x rhs) m =
  match stk m with
  | a :: rest => logic_result rest (run_code dbg rhs (mkM rest [] O FNext)) m
  | [] => None
  end.
Proof.
  cbn [step]. destruct (stk m) as [|a rest]; [reflexivity|].
  now rewrite inner_is_run_code.
Qed.

Lemma step_castbool dbg m :
  step dbg ICastBool m = match stk m with a :: rest => put rest (ok KInt) m | [] => None end.
Proof. reflexivity. Qed.

(* state after an expression: its value on top, its warnings appended *)
Definition after (m : mstate) (o : option outcome) : option mstate :=
  match o with
  | None => None
  | Some (v, ws) => Some (mkM (v :: stk m) (warn m ++ ws) (lines m) (fl m))
  end.

Lemma mk_eta m : mkM (stk m) (warn m) (lines m) (fl m) = m.
Proof. now destruct m. Qed.

(* warnings of a list of expressions (the elements of a constant array after the first) *)
Fixpoint evals (dbg : bool) (es : list expr) : option (list aval * list wclass) :=
  match es with
  | [] => Some ([], [])
  | e :: es' =>
    bind (eval dbg e) (fun '(v, w) =>
    bind (evals dbg es') (fun '(vs, ws) => Some (v :: vs, w ++ ws)))
  end.

Lemma spec_go_is_evals dbg es :
  (fix go (es : list expr) : option (list wclass) :=
     match es with
     | [] => Some []
     | e :: es' => bind (eval dbg e) (fun '(_, w) => bind (go es') (fun ws => Some (w ++ ws)))
     end) es = option_map snd (evals dbg es).
Proof.
  induction es as [|e es IH]; [reflexivity|].
  cbn [evals]. destruct (eval dbg e) as [[v w]|]; cbn [bind option_map]; [|reflexivity].
  rewrite IH. destruct (evals dbg es) as [[vs ws]|]; reflexivity.
Qed.

Lemma evals_length dbg es vs ws : evals dbg es = Some (vs, ws) -> length vs = length es.
Proof.
  revert vs ws. induction es as [|e es IH]; intros vs ws H; cbn [evals] in H.
  - now inversion H.
  - destruct (eval dbg e) as [[v w]|]; cbn [bind] in H; [|discriminate].
    destruct (evals dbg es) as [[vs' ws']|] eqn:E; cbn [bind] in H; [|discriminate].
    inversion H; subst. cbn. f_equal. eapply IH; reflexivity.
Qed.

Section CompCorrect.
  Variable dbg : bool.

  Definition good (e : expr) : Prop :=
    forall m, run_code dbg (comp e) m = after m (eval dbg e).

  Lemma good_list es :
    Forall good es ->
    forall m, run_code dbg (flat_map comp es) m =
              match evals dbg es with
              | None => None
              | Some (vs, ws) => Some (mkM (rev vs ++ stk m) (warn m ++ ws) (lines m) (fl m))
              end.
  Proof.
    induction 1 as [|e es He _ IH]; intro m.
    - cbn. rewrite app_nil_r. now rewrite mk_eta.
    - cbn [flat_map evals]. rewrite run_code_app, He.
      destruct (eval dbg e) as [[v w]|]; cbn [after bind]; [|reflexivity].
      rewrite IH. cbn [stk warn lines fl].
      destruct (evals dbg es) as [[vs ws]|]; cbn [bind]; [|reflexivity].
      cbn [rev]. now rewrite <- !app_assoc.
  Qed.

  Lemma comp_good : forall e, good e.
  Proof.
    induction e using expr_ind2; unfold good in *; intro m; cbn [comp eval].
    - (* leaf *) cbn. unfold push. now rewrite app_nil_r.
    - (* bin *)
      rewrite run_code_app, IHe1. destruct (eval dbg e1) as [[va wa]|]; cbn [after bind]; [|reflexivity].
      rewrite run_code_app, IHe2. destruct (eval dbg e2) as [[vb wb]|]; cbn [after bind]; [|reflexivity].
      cbn [run_code step stk]. unfold put.
      destruct (bin o va vb) as [[v w]|]; cbn [bind warn lines fl]; [|reflexivity].
      now rewrite <- !app_assoc.
    - (* logic *)
      rewrite run_code_app, IHe1. destruct (eval dbg e1) as [[va wa]|]; cbn [after bind]; [|reflexivity].
      cbn [run_code]. rewrite step_castbool. cbn [stk]. unfold put at 1. unfold ok at 1. cbn [warn lines fl stk].
      rewrite step_logic. cbn [stk].
      rewrite run_code_app, IHe2. cbn [stk warn lines fl].
      destruct (eval dbg e2) as [[vb wb]|]; cbn [after bind logic_result]; [|reflexivity].
      cbn [run_code step stk]. unfold put, ok. cbn [warn lines fl stk app logic_result].
      destruct wb as [|w0 wb]; cbn; [|reflexivity].
      now rewrite !app_nil_r.
    - (* un *)
      destruct u; cbn [comp];
        rewrite run_code_app, IHe; destruct (eval dbg e) as [[va wa]|]; cbn [after bind]; try reflexivity;
          cbn [run_code step stk]; unfold put, ok; cbn [warn lines fl stk];
            match goal with |- context [un dbg ?u ?x] => destruct (un dbg u x) as [[v w]|] end;
            cbn [bind]; unfold after; cbn [stk warn lines fl]; rewrite <- ?app_assoc; cbn [app]; reflexivity.
    - (* index *)
      rewrite run_code_app, IHe1. destruct (eval dbg e1) as [[va wa]|]; cbn [after bind]; [|reflexivity].
      rewrite run_code_app, IHe2. destruct (eval dbg e2) as [[vi wi]|]; cbn [after bind]; [|reflexivity].
      cbn [run_code step stk]. unfold put.
      destruct (index va vi) as [[v w]|]; cbn [bind warn lines fl]; [|reflexivity].
      now rewrite <- !app_assoc.
    - (* field *)
      rewrite run_code_app, IHe. destruct (eval dbg e) as [[va wa]|]; cbn [after bind]; [|reflexivity].
      cbn [run_code step stk]. unfold put.
      destruct (field_get va) as [[v w]|]; cbn [bind warn lines fl]; unfold after; cbn [stk warn lines fl]; now rewrite <- ?app_assoc.
    - (* vector *)
      rewrite run_code_app, IHe1. destruct (eval dbg e1) as [[va wa]|]; cbn [after bind]; [|reflexivity].
      rewrite run_code_app, IHe2. destruct (eval dbg e2) as [[vb wb]|]; cbn [after bind]; [|reflexivity].
      rewrite run_code_app, IHe3. destruct (eval dbg e3) as [[vc wc]|]; cbn [after bind]; [|reflexivity].
      cbn [run_code step stk].
      destruct (all_float_ok va vb vc); unfold put, ok, err; cbn [warn lines fl];
        now rewrite <- ?app_assoc, ?app_nil_r.
    - (* constant array *)
      rewrite run_code_app, IHe. destruct (eval dbg e) as [[va wa]|]; cbn [after bind]; [|reflexivity].
      rewrite run_code_app, (good_list rest H). cbn [stk warn lines fl].
      rewrite spec_go_is_evals.
      destruct (evals dbg rest) as [[vs ws]|] eqn:E; cbn [bind option_map snd]; [|reflexivity].
      cbn [run_code step stk warn lines fl].
      pose proof (evals_length _ _ _ _ E) as HL.
      destruct rest as [|r0 rest'].
      + cbn. reflexivity.
      + assert (Hn : Nat.leb 2 (S (length (r0 :: rest'))) = true) by (apply Nat.leb_le; cbn; lia).
        rewrite Hn.
        assert (Hl : Nat.leb (S (length (r0 :: rest'))) (length (rev vs ++ va :: stk m)) = true).
        { apply Nat.leb_le. rewrite app_length, rev_length, HL. cbn. lia. }
        rewrite Hl. cbn [andb].
        assert (Hs : skipn (S (length (r0 :: rest'))) (rev vs ++ va :: stk m) = stk m).
        { replace (S (length (r0 :: rest'))) with (length (rev vs ++ [va])).
          - replace (rev vs ++ va :: stk m) with ((rev vs ++ [va]) ++ stk m) by now rewrite <- app_assoc.
            now rewrite skipn_app, skipn_all, Nat.sub_diag.
          - rewrite app_length, rev_length, HL. cbn. lia. }
        rewrite Hs. now rewrite <- !app_assoc.
    - (* call *)
      rewrite run_code_app, IHe. destruct (eval dbg e) as [[va wa]|]; cbn [after bind]; [|reflexivity].
      cbn [run_code step stk]. unfold put.
      destruct (call c va) as [[v w]|]; cbn [bind warn lines fl]; unfold after; cbn [stk warn lines fl]; now rewrite <- ?app_assoc.
  Qed.

  Lemma comp_ok e m : run_code dbg (comp e) m = after m (eval dbg e).
  Proof. apply comp_good. Qed.

  (* ---------------------------------------------------------------- statements *)

  Definition init : mstate := mkM [] [] O FNext.

  Definition obs_of (o : option mstate) : option sobs :=
    match o with
    | Some m => match stk m with [] => Some (mkObs (warn m) (lines m) (fl m)) | _ :: _ => None end
    | None => None
    end.

  Lemma run_stmt_unfold s : run_stmt0 dbg s = obs_of (run_code dbg (comp_stmt s) init).
  Proof. reflexivity. Qed.

  Lemma stmt_refines0 : forall s, run_stmt0 dbg s = spec_stmt0 dbg s.
  Proof.
    intro s. rewrite run_stmt_unfold. destruct s; cbn [comp_stmt spec_stmt0].
    - (* print *)
      rewrite run_code_app, comp_ok. destruct (eval dbg e) as [[v w]|]; cbn; rewrite <- ?app_assoc, ?app_nil_r; reflexivity.
    - (* assign *)
      rewrite run_code_app, comp_ok. destruct (eval dbg e) as [[v w]|]; cbn; rewrite <- ?app_assoc, ?app_nil_r; reflexivity.
    - (* if *)
      rewrite run_code_app, comp_ok. destruct (eval dbg e) as [[v w]|]; cbn; [|now cbn].
      now rewrite app_nil_r.
    - (* index write *)
      rewrite run_code_app, comp_ok. destruct (eval dbg v) as [[vv wv]|]; cbn [after bind init stk warn lines fl]; [|now cbn].
      cbn [app run_code step bind]. unfold push. cbn [stk warn lines fl].
      rewrite run_code_app, comp_ok. cbn [stk warn lines fl].
      destruct (eval dbg i) as [[vi wi]|]; cbn [after bind]; [|now cbn].
      cbn [run_code step stk]. unfold drop.
      destruct (set_index base vi vv) as [w|]; cbn; [|now cbn].
      now rewrite <- !app_assoc.
    - (* field write *)
      rewrite run_code_app, comp_ok. destruct (eval dbg v) as [[vv wv]|]; cbn [after bind init stk warn lines fl]; [|now cbn].
      rewrite run_code_app, comp_ok. cbn [stk warn lines fl].
      destruct (eval dbg recv) as [[vr wr]|]; cbn [after bind]; [|now cbn].
      cbn [run_code step stk]. unfold drop.
      destruct (field_set vr) as [w|]; cbn; [|now cbn].
      now rewrite <- !app_assoc.
    - (* ++ / -- *)
      cbn [run_code step]. unfold push, put, init. cbn [stk warn lines fl].
      destruct (un dbg (if dec then UDec else UInc) (Exact r)) as [[v w]|]; cbn; rewrite <- ?app_assoc, ?app_nil_r; reflexivity.
    - (* method *)
      destruct arg as [a|]; cbn [opt_comp opt_n eval_opt].
      + rewrite run_code_app, comp_ok. destruct (eval dbg a) as [[va wa]|]; cbn [after bind init stk warn lines fl]; [|now cbn].
        rewrite run_code_app, comp_ok. cbn [stk warn lines fl].
        destruct (eval dbg recv) as [[vr wr]|]; cbn [after bind]; [|now cbn].
        cbn [run_code step stk]. unfold step_method, spec_method.
        cbn [length Nat.leb hd_error skipn stk warn lines fl].
        destruct (recv_of vr) as [[w|ls]|]; cbn [bind]; [| |now cbn].
        * cbn. now rewrite <- !app_assoc.
        * destruct (method_effect c ls (Some va)) as [[[ws n] f]|]; cbn; [|now cbn].
          now rewrite <- !app_assoc.
      + cbn [app bind].
        rewrite run_code_app, comp_ok. cbn [init stk warn lines fl].
        destruct (eval dbg recv) as [[vr wr]|]; cbn [after bind]; [|now cbn].
        cbn [run_code step stk]. unfold step_method, spec_method.
        cbn [length Nat.leb hd_error skipn stk warn lines fl].
        destruct (recv_of vr) as [[w|ls]|]; cbn [bind]; [| |now cbn].
        * cbn. rewrite <- ?app_assoc, ?app_nil_r. reflexivity.
        * destruct (method_effect c ls None) as [[[ws n] f]|]; cbn; rewrite <- ?app_assoc, ?app_nil_r; reflexivity.
    - (* command *)
      destruct arg as [a|]; cbn [opt_comp opt_n eval_opt].
      + rewrite run_code_app, comp_ok. destruct (eval dbg a) as [[va wa]|]; cbn [after bind init stk warn lines fl]; [|now cbn].
        cbn [run_code step]. unfold step_cmd, spec_cmd.
        cbn [length Nat.leb hd_error skipn stk warn lines fl].
        destruct c; cbn [bind].
        * (* goto *)
          destruct (label_of false va) as [[w|]|]; cbn; rewrite <- ?app_assoc, ?app_nil_r; reflexivity.
        * destruct (label_of true va) as [lb|]; cbn; [|now cbn].
          destruct (start_sub lb) as [ws n]; cbn. rewrite <- ?app_assoc, ?app_nil_r. reflexivity.
        * destruct (label_of true va) as [lb|]; cbn; [|now cbn].
          destruct (start_sub lb) as [ws n]; cbn. rewrite <- ?app_assoc, ?app_nil_r. reflexivity.
        * (* wait *)
          destruct (wait_flow va) as [[ws f]|]; cbn; rewrite <- ?app_assoc, ?app_nil_r; reflexivity.
        * cbn. rewrite <- ?app_assoc, ?app_nil_r. reflexivity.
        * (* kill *)
          destruct (kill_depth va); cbn; rewrite <- ?app_assoc, ?app_nil_r; reflexivity.
      + cbn [app bind run_code step]. unfold step_cmd, spec_cmd.
        cbn [length Nat.leb hd_error skipn init stk warn lines fl].
        destruct c; cbn; rewrite <- ?app_assoc, ?app_nil_r; reflexivity.
  Qed.

  Lemma stmt_refines : forall s, run_stmt dbg s = spec_stmt dbg s.
  Proof. intro s. unfold run_stmt, spec_stmt. destruct (ptr_twice s); [reflexivity | apply stmt_refines0]. Qed.

  Lemma from_refines : forall p alive known, run_from dbg alive known p = spec_from dbg alive known p.
  Proof.
    induction p as [|s p IH]; intros alive known; [reflexivity|].
    cbn [run_from spec_from]. rewrite stmt_refines.
    destruct (negb known); [now rewrite IH|].
    destruct (negb alive); [now rewrite IH|].
    destruct (spec_stmt dbg s) as [o|].
    - destruct (o_flow o); now rewrite IH.
    - destruct s; now rewrite IH.
  Qed.
End CompCorrect.

Theorem run_refines_spec : forall dbg p, run dbg p = spec_run dbg p.
Proof. intros. apply from_refines. Qed.

(* ------------------------------------------------------------------ the stack is empty after a statement *)

(* an expression leaves exactly one more value *)
Lemma comp_height dbg e m m' :
  run_code dbg (comp e) m = Some m' -> length (stk m') = S (length (stk m)).
Proof.
  rewrite comp_ok. destruct (eval dbg e) as [[v w]|]; cbn; intro H; inversion H; reflexivity.
Qed.

Definition is_command (s : stmt) : bool :=
  match s with SMethod _ _ _ | SCmd _ _ => true | _ => false end.

(* whatever errors occur, a statement that the model can follow ends with an empty operand
   stack: the pops and pushes of the error paths are balanced *)
Theorem stack_empty_after_statement :
  forall dbg s m, exec_stmt dbg s = Some m -> stk m = [].
Proof.
  intros dbg s m. unfold exec_stmt. destruct s; cbn [comp_stmt].
  - rewrite run_code_app, comp_ok. destruct (eval dbg e) as [[v w]|]; cbn; intro H; inversion H; reflexivity.
  - rewrite run_code_app, comp_ok. destruct (eval dbg e) as [[v w]|]; cbn; intro H; inversion H; reflexivity.
  - rewrite run_code_app, comp_ok. destruct (eval dbg e) as [[v w]|]; cbn; intro H; inversion H; reflexivity.
  - rewrite run_code_app, comp_ok. destruct (eval dbg v) as [[vv wv]|]; cbn [after bind stk warn lines fl]; [|now cbn].
    cbn [app run_code step bind]. unfold push. cbn [stk warn lines fl].
    rewrite run_code_app, comp_ok. cbn [stk warn lines fl].
    destruct (eval dbg i) as [[vi wi]|]; cbn [after bind]; [|now cbn].
    cbn [run_code step stk]. unfold drop.
    destruct (set_index base vi vv) as [w|]; cbn; intro H; inversion H; reflexivity.
  - rewrite run_code_app, comp_ok. destruct (eval dbg v) as [[vv wv]|]; cbn [after bind stk warn lines fl]; [|now cbn].
    rewrite run_code_app, comp_ok. cbn [stk warn lines fl].
    destruct (eval dbg recv) as [[vr wr]|]; cbn [after bind]; [|now cbn].
    cbn [run_code step stk]. unfold drop.
    destruct (field_set vr) as [w|]; cbn; intro H; inversion H; reflexivity.
  - cbn [run_code step]. unfold push, put. cbn [stk warn lines fl].
    destruct (un dbg (if dec then UDec else UInc) (Exact r)) as [[v w]|]; cbn; intro H; inversion H; reflexivity.
  - destruct arg as [a|]; cbn [opt_comp opt_n].
    + rewrite run_code_app, comp_ok. destruct (eval dbg a) as [[va wa]|]; cbn [after bind stk warn lines fl]; [|now cbn].
      rewrite run_code_app, comp_ok. cbn [stk warn lines fl].
      destruct (eval dbg recv) as [[vr wr]|]; cbn [after bind]; [|now cbn].
      cbn [run_code step stk]. unfold step_method.
      cbn [length Nat.leb hd_error skipn stk warn lines fl].
      destruct (recv_of vr) as [[w|ls]|]; cbn [bind]; [| |now cbn].
      * cbn. intro H; inversion H; reflexivity.
      * destruct (method_effect c ls (Some va)) as [[[ws n] f]|]; cbn; intro H; inversion H; reflexivity.
    + cbn [app bind].
      rewrite run_code_app, comp_ok. cbn [stk warn lines fl].
      destruct (eval dbg recv) as [[vr wr]|]; cbn [after bind]; [|now cbn].
      cbn [run_code step stk]. unfold step_method.
      cbn [length Nat.leb hd_error skipn stk warn lines fl].
      destruct (recv_of vr) as [[w|ls]|]; cbn [bind]; [| |now cbn].
      * cbn. intro H; inversion H; reflexivity.
      * destruct (method_effect c ls None) as [[[ws n] f]|]; cbn; intro H; inversion H; reflexivity.
  - destruct arg as [a|]; cbn [opt_comp opt_n].
    + rewrite run_code_app, comp_ok. destruct (eval dbg a) as [[va wa]|]; cbn [after bind stk warn lines fl]; [|now cbn].
      cbn [run_code step]. unfold step_cmd.
      cbn [length Nat.leb hd_error skipn stk warn lines fl].
      destruct c; cbn [bind].
      * destruct (label_of false va) as [[w|]|]; cbn; intro H; inversion H; reflexivity.
      * destruct (label_of true va) as [lb|]; cbn; [|now cbn].
        destruct (start_sub lb) as [ws n]; cbn. intro H; inversion H; reflexivity.
      * destruct (label_of true va) as [lb|]; cbn; [|now cbn].
        destruct (start_sub lb) as [ws n]; cbn. intro H; inversion H; reflexivity.
      * destruct (wait_flow va) as [[ws f]|]; cbn; intro H; inversion H; reflexivity.
      * cbn. intro H; inversion H; reflexivity.
      * destruct (kill_depth va); cbn; intro H; inversion H; reflexivity.
    + cbn [app bind run_code step]. unfold step_cmd.
      cbn [length Nat.leb hd_error skipn stk warn lines fl].
      destruct c; cbn; intro H; inversion H; reflexivity.
Qed.

(* hence [run_stmt] loses nothing by asking for the empty stack *)
Theorem run_stmt_is_exec :
  forall dbg s, run_stmt0 dbg s = option_map (fun m => mkObs (warn m) (lines m) (fl m)) (exec_stmt dbg s).
Proof.
  intros dbg s. unfold run_stmt0. destruct (exec_stmt dbg s) as [m|] eqn:E; [|now cbn].
  rewrite (stack_empty_after_statement _ _ _ E). reflexivity.
Qed.

(* ------------------------------------------------------------------ an error never stops the thread *)

Definition ends_thread (s : stmt) : bool :=
  match s with
  | SCmd CEnd _ => true
  | SCmd CKill _ => true
  | SMethod _ MDelete _ => true
  | _ => false
  end.

(* only `end` and a `delete` that reaches the running thread end it *)
Lemma flow_end_only_by_command0 dbg s o :
  spec_stmt0 dbg s = Some o -> o_flow o = FEnd -> ends_thread s = true.
Proof.
  destruct s; cbn [spec_stmt0 ends_thread].
  - destruct (eval dbg e) as [[v w]|]; cbn; intros H; inversion H; subst; cbn; discriminate.
  - destruct (eval dbg e) as [[v w]|]; cbn; intros H; inversion H; subst; cbn; discriminate.
  - destruct (eval dbg e) as [[v w]|]; cbn; intros H; inversion H; subst; cbn; discriminate.
  - destruct (eval dbg v) as [[vv wv]|]; cbn [bind]; [|now cbn].
    destruct (eval dbg i) as [[vi wi]|]; cbn [bind]; [|now cbn].
    destruct (set_index base vi vv); cbn; intros H; inversion H; subst; cbn; discriminate.
  - destruct (eval dbg v) as [[vv wv]|]; cbn [bind]; [|now cbn].
    destruct (eval dbg recv) as [[vr wr]|]; cbn [bind]; [|now cbn].
    destruct (field_set vr); cbn; intros H; inversion H; subst; cbn; discriminate.
  - destruct (un dbg (if dec then UDec else UInc) (Exact r)) as [[v w]|]; cbn; intros H; inversion H; subst; cbn; discriminate.
  - destruct (eval_opt dbg arg) as [[va wa]|]; cbn [bind]; [|now cbn].
    destruct (eval dbg recv) as [[vr wr]|]; cbn [bind]; [|now cbn].
    unfold spec_method. destruct (recv_of vr) as [[w|ls]|]; cbn [bind]; [| |now cbn].
    + intros H; inversion H; subst; cbn; discriminate.
    + destruct c; cbn [method_effect]; try reflexivity.
      * intros H; inversion H; subst; cbn; discriminate.
      * destruct va as [a|]; [|now cbn].
        destruct (label_of true a) as [[w|]|]; cbn; intros H; inversion H; subst; cbn; discriminate.
      * destruct va as [a|]; [|now cbn].
        destruct (label_of true a) as [[w|]|]; cbn; intros H; inversion H; subst; cbn; discriminate.
  - destruct (eval_opt dbg arg) as [[va wa]|]; cbn [bind]; [|now cbn].
    destruct c; try reflexivity; cbn [spec_cmd]; destruct va as [a|]; try discriminate.
    + destruct (label_of false a) as [[w|]|]; cbn; intros H; inversion H; subst; cbn; discriminate.
    + destruct (label_of true a) as [lb|]; cbn; [|now cbn].
      destruct (start_sub lb) as [ws n]; cbn. intros H; inversion H; subst; cbn; discriminate.
    + destruct (label_of true a) as [lb|]; cbn; [|now cbn].
      destruct (start_sub lb) as [ws n]; cbn. intros H; inversion H; subst; cbn; discriminate.
    + unfold wait_flow. destruct (float_ok (akind a)).
      * destruct a as [r|k]; [|now cbn].
        destruct r; cbn; intros H; inversion H; subst; cbn; discriminate.
      * cbn; intros H; inversion H; subst; cbn; discriminate.
Qed.

Lemma flow_end_only_by_command dbg s o :
  spec_stmt dbg s = Some o -> o_flow o = FEnd -> ends_thread s = true.
Proof.
  unfold spec_stmt. destruct (ptr_twice s); [discriminate | apply flow_end_only_by_command0].
Qed.

Definition obs_stmt (dbg : bool) (s : stmt) : tobs :=
  match spec_stmt dbg s with Some o => ODone o | None => OUnknown end.

(* programs without commands: every statement is executed and completes, and what is seen of
   a statement depends on that statement alone - however many errors the statements before it
   raised *)
Lemma spec_from_expressions dbg p :
  forallb (fun s => negb (is_command s)) p = true ->
  spec_from dbg true true p = map (obs_stmt dbg) p.
Proof.
  induction p as [|s p IH]; intro H; [reflexivity|].
  cbn [forallb] in H. apply andb_prop in H. destruct H as [Hs Hp].
  cbn [spec_from map negb]. unfold obs_stmt at 1.
  destruct (spec_stmt dbg s) as [o|] eqn:E.
  - destruct (o_flow o) eqn:F; try (now rewrite IH).
    pose proof (flow_end_only_by_command _ _ _ E F) as He.
    destruct s; cbn in Hs, He; discriminate.
  - destruct s; cbn in Hs; try discriminate; now rewrite IH.
Qed.

Theorem statements_do_not_interfere :
  forall dbg p,
    forallb (fun s => negb (is_command s)) p = true ->
    run dbg p = map (obs_stmt dbg) p.
Proof. intros. rewrite run_refines_spec. now apply spec_from_expressions. Qed.

(* with commands: as long as no statement is an `end` or a `delete`, nothing is cut or skipped *)
Lemma spec_from_never_cut dbg p : forall known,
  forallb (fun s => negb (ends_thread s)) p = true ->
  forall t, In t (spec_from dbg true known p) -> (exists o, t = ODone o) \/ t = OUnknown.
Proof.
  induction p as [|s p IH]; intros known H t Hin; [destruct Hin|].
  cbn [forallb] in H. apply andb_prop in H. destruct H as [Hs Hp].
  cbn [spec_from] in Hin. destruct known; cbn [negb] in Hin.
  - destruct (spec_stmt dbg s) as [o|] eqn:E.
    + destruct (o_flow o) eqn:F.
      * destruct Hin as [<-|Hin]; [left; eauto | eapply IH; eauto].
      * destruct Hin as [<-|Hin]; [left; eauto | eapply IH; eauto].
      * pose proof (flow_end_only_by_command _ _ _ E F) as He. rewrite He in Hs. discriminate.
    + destruct s; destruct Hin as [<-|Hin]; try (right; reflexivity); eapply IH; eauto.
  - destruct Hin as [<-|Hin]; [right; reflexivity | eapply IH; eauto].
Qed.

Theorem errors_never_stop_the_thread :
  forall dbg p,
    forallb (fun s => negb (ends_thread s)) p = true ->
    forall t, In t (run dbg p) -> (exists o, t = ODone o) \/ t = OUnknown.
Proof. intros dbg p H t. rewrite run_refines_spec. now apply spec_from_never_cut. Qed.

(* every operation raises at most one warning and always yields a value *)
Lemma bin_one_warning o a b v ws : bin o a b = Some (v, ws) -> (length ws <= 1)%nat.
Proof.
  unfold bin, ok, err.
  destruct o; cbn;
    repeat match goal with
           | |- context [match ?x with _ => _ end] => destruct x; cbn
           end; intro H; inversion H; cbn; lia.
Qed.

(* ------------------------------------------------------------------ deleted by a callee *)

Lemma dead_thread_runs_nothing dbg p : run_from dbg false true p = map (fun _ => OSkip) p.
Proof. induction p as [|s p IH]; [reflexivity|]. cbn [run_from negb map]. now rewrite IH. Qed.

(* a thread that calls (and waits for) a thread which destroys it - 1, 2 or 3 calls deep, with
   delete, remove or immediateremove, the call standing alone or inside an expression whose
   operands are already on the stack - has ended: the statement is cut after the one line the
   callee printed, no warning is raised, and no later statement of the program runs *)
Theorem deleted_by_callee_ends_the_thread :
  forall dbg d p,
    kill_depth (Exact d) <> None ->
    run dbg (SCmd CKill (Some (ELeaf d)) :: p) =
    OCut (mkObs [] 1 FEnd) :: map (fun _ => OSkip) p.
Proof.
  intros dbg d p Hd. unfold run. cbn [run_from negb].
  assert (E : run_stmt dbg (SCmd CKill (Some (ELeaf d))) = Some (mkObs [] 1 FEnd)).
  { destruct d; cbn in Hd; try (exfalso; apply Hd; reflexivity); reflexivity. }
  rewrite E. cbn [o_flow]. now rewrite dead_thread_runs_nothing.
Qed.
