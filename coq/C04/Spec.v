(* C04/Spec.v - the specification of error containment, as simple as possible: a statement is
   mapped to its outcome by a direct (big-step) evaluation of its expression tree with the
   value tables of Model.v - no operand stack, no instructions, no catch blocks.

     - every sub-expression has a value; a misuse contributes one warning class and the
       substitute value (NIL, or the unchanged left operand for a division by zero / a failed
       numeric cast) and evaluation simply goes on: the error is confined to the operation;
     - a statement contributes its warnings in evaluation order, the number of lines it
       prints, and whether the thread goes on, is suspended or has ended;
     - statements after the end of the thread do not run; nothing else connects statements:
       a statement's outcome does not depend on the statements before it.

   [spec_run] is what Model.run (the stack machine with the emitter's instruction order and
   the per-opcode stack repair) must reproduce: theorem run_refines_spec in Proofs.v. *)
From Coq Require Import ZArith List Bool.
From Morfuse Require Import C04.Model.
Import ListNotations.

Definition bind {A B} (o : option A) (f : A -> option B) : option B :=
  match o with None => None | Some a => f a end.

(* value and warnings of an expression *)
Fixpoint eval (dbg : bool) (e : expr) : option outcome :=
  match e with
  | ELeaf r => Some (Exact r, [])
  | EBin o a b =>
    bind (eval dbg a) (fun '(va, wa) =>
    bind (eval dbg b) (fun '(vb, wb) =>
    bind (bin o va vb) (fun '(v, w) => Some (v, wa ++ wb ++ w))))
  | ELogic _ a b =>
    bind (eval dbg a) (fun '(va, wa) =>
    bind (eval dbg b) (fun '(vb, wb) =>
    match wb with [] => Some (OfKind KInt, wa) | _ => None end))
  | EUn u a =>
    bind (eval dbg a) (fun '(va, wa) =>
    bind (un dbg u (match u with UNot => OfKind KInt | _ => va end)) (fun '(v, w) => Some (v, wa ++ w)))
  | EIdx a i =>
    bind (eval dbg a) (fun '(va, wa) =>
    bind (eval dbg i) (fun '(vi, wi) =>
    bind (index va vi) (fun '(v, w) => Some (v, wa ++ wi ++ w))))
  | EFld a =>
    bind (eval dbg a) (fun '(va, wa) =>
    bind (field_get va) (fun '(v, w) => Some (v, wa ++ w)))
  | EVec a b c =>
    bind (eval dbg a) (fun '(va, wa) =>
    bind (eval dbg b) (fun '(vb, wb) =>
    bind (eval dbg c) (fun '(vc, wc) =>
    if all_float_ok va vb vc then Some (OfKind KVec, wa ++ wb ++ wc)
    else Some (va, wa ++ wb ++ wc ++ [WCast]))))
  | ECArr a rest =>
    bind (eval dbg a) (fun '(va, wa) =>
    bind ((fix go (es : list expr) : option (list wclass) :=
             match es with
             | [] => Some []
             | e :: es' => bind (eval dbg e) (fun '(_, w) => bind (go es') (fun ws => Some (w ++ ws)))
             end) rest) (fun ws =>
    match rest with [] => None | _ :: _ => Some (OfKind KCArr, wa ++ ws) end))
  | ECall c a =>
    bind (eval dbg a) (fun '(va, wa) =>
    bind (call c va) (fun '(v, w) => Some (v, wa ++ w)))
  end.

Definition eval_opt (dbg : bool) (o : option expr) : option (option aval * list wclass) :=
  match o with
  | None => Some (None, [])
  | Some e => bind (eval dbg e) (fun '(v, w) => Some (Some v, w))
  end.

Definition spec_method (c : mcmd) (r : aval) (arg : option aval) : option (list wclass * nat * flow) :=
  match recv_of r with
  | None => None
  | Some (RErr w) => Some ([w], O, FNext)
  | Some (RRun ls) => method_effect c ls arg
  end.

Definition spec_cmd (c : ccmd) (arg : option aval) : option (list wclass * nat * flow) :=
  match c, arg with
  | CEnd, _ => Some ([], O, FEnd)
  | CKill, Some a =>
    match kill_depth a with
    | Some _ => Some ([], 1%nat, FEnd)
    | None => None
    end
  | CWait, Some a =>
    match wait_flow a with
    | None => None
    | Some (ws, f) => Some (ws, O, f)
    end
  | CGoto, Some a =>
    match label_of false a with
    | Some (LbErr w) => Some ([w], O, FNext)
    | _ => None
    end
  | (CThread | CWaitThread), Some a =>
    match label_of true a with
    | Some lb => let '(ws, n) := start_sub lb in Some (ws, n, FNext)
    | None => None
    end
  | _, None => None
  end.

Definition spec_stmt0 (dbg : bool) (s : stmt) : option sobs :=
  match s with
  | SPrint e => bind (eval dbg e) (fun '(_, w) => Some (mkObs w 1 FNext))
  | SAssign e => bind (eval dbg e) (fun '(_, w) => Some (mkObs w 0 FNext))
  | SIf e => bind (eval dbg e) (fun '(_, w) => Some (mkObs w 1 FNext))
  | SSetIdx base i v =>
    bind (eval dbg v) (fun '(vv, wv) =>
    bind (eval dbg i) (fun '(vi, wi) =>
    bind (set_index base vi vv) (fun w => Some (mkObs (wv ++ wi ++ w) 0 FNext))))
  | SSetFld r v =>
    bind (eval dbg v) (fun '(vv, wv) =>
    bind (eval dbg r) (fun '(vr, wr) =>
    bind (field_set vr) (fun w => Some (mkObs (wv ++ wr ++ w) 0 FNext))))
  | SInc dec r =>
    bind (un dbg (if dec then UDec else UInc) (Exact r)) (fun '(_, w) => Some (mkObs w 0 FNext))
  | SMethod r c arg =>
    bind (eval_opt dbg arg) (fun '(va, wa) =>
    bind (eval dbg r) (fun '(vr, wr) =>
    bind (spec_method c vr va) (fun '(w, n, f) => Some (mkObs (wa ++ wr ++ w) n f))))
  | SCmd c arg =>
    bind (eval_opt dbg arg) (fun '(va, wa) =>
    bind (spec_cmd c va) (fun '(w, n, f) => Some (mkObs (wa ++ w) n f)))
  end.

(* no prediction for a statement that uses the pending thread result twice (see Model.ptr_twice) *)
Definition spec_stmt (dbg : bool) (s : stmt) : option sobs :=
  if ptr_twice s then None else spec_stmt0 dbg s.

Fixpoint spec_from (dbg : bool) (alive known : bool) (p : list stmt) : list tobs :=
  match p with
  | [] => []
  | s :: p' =>
    if negb known then OUnknown :: spec_from dbg alive false p'
    else if negb alive then OSkip :: spec_from dbg false true p'
    else match spec_stmt dbg s with
         | None =>
           match s with
           | SMethod _ _ _ | SCmd _ _ => OUnknown :: spec_from dbg alive false p'
           | _ => OUnknown :: spec_from dbg alive true p'
           end
         | Some o =>
           match o_flow o with
           | FEnd => OCut o :: spec_from dbg false true p'
           | _ => ODone o :: spec_from dbg true true p'
           end
         end
  end.

Definition spec_run (dbg : bool) (p : list stmt) : list tobs := spec_from dbg true true p.
