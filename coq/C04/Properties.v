(* C04/Properties.v - the property theorems of C04, and nothing else.
   Every theorem is closed by [exact <lemma>] and followed by Print Assumptions. *)
From Coq Require Import ZArith List Bool.
From Morfuse Require Import C04.Model C04.Spec C04.Table C04.Generated C04.Proofs C04.ProofsTable.
Import ListNotations.

(* The value tables of the model ARE the tables of the binary built from the current tree:
   for every operator of ScriptVariable (+ - * / % & | ^ << >> == != < > <= >=) and every pair
   of representative values, for minus / complement / ++ / -- / ! / size and the casts used by
   commands on every representative value, for the index read of every pair, the model
   predicts the result kind (and the representative the result equals, where it names one) or
   the exception class that the harness observed through the C++ interface; the kinds, size(),
   arraysize(), longValue(), intValue() and listenerValue() of every representative value are
   the model's.  (Generated.v is rewritten from the dump on every run.) *)
Theorem C04_model_table_matches_binary : check_tables Generated.tables = true.
Proof. exact tables_match. Qed.
Print Assumptions C04_model_table_matches_binary.

(* operator totality, binary side: every one of the 31949 dumped entries is a value or a typed
   script error - no entry is a crash, a foreign exception or was skipped *)
Theorem C04_operator_totality :
  tables_typed Generated.tables = true /\
  table_entries Generated.tables = (16 * 43 * 43 + 12 * 43 + 43 * 43)%N.
Proof. exact (conj tables_are_typed tables_are_complete). Qed.
Print Assumptions C04_operator_totality.

(* operator totality, model side: on representative values every operation yields a value and
   at most one warning; there is no other outcome (the index read declines to predict only
   where the C++ conversion of the index is itself not defined: a negative float) *)
Theorem C04_model_binary_operators_total :
  forall o a b, exists v ws, bin o (Exact a) (Exact b) = Some (v, ws) /\ (length ws <= 1)%nat.
Proof. exact bin_total. Qed.
Print Assumptions C04_model_binary_operators_total.

Theorem C04_model_unary_operators_total :
  forall dbg u a, exists v ws, un dbg u (Exact a) = Some (v, ws) /\ (length ws <= 1)%nat.
Proof. exact un_total. Qed.
Print Assumptions C04_model_unary_operators_total.

Theorem C04_model_command_casts_total :
  forall c a, exists v ws, call c (Exact a) = Some (v, ws) /\ (length ws <= 1)%nat.
Proof. exact call_total. Qed.
Print Assumptions C04_model_command_casts_total.

Theorem C04_model_index_read_total :
  forall a b,
    (exists v ws, index (Exact a) (Exact b) = Some (v, ws) /\ (length ws <= 1)%nat) \/ long_of b = CUnk.
Proof. exact index_total. Qed.
Print Assumptions C04_model_index_read_total.

(* a prediction made from less information is never wrong: whenever an operation answers on
   operands of which only the kind is known (the result of an earlier operation), it answers
   the same warnings and the same result kind as on the representative values themselves *)
Theorem C04_kinds_alone_never_mispredict_a_binary_operator :
  forall o a b ra rb v ws,
    abstracts a ra -> abstracts b rb -> bin o a b = Some (v, ws) ->
    exists v', bin o (Exact ra) (Exact rb) = Some (v', ws) /\ akind v' = akind v.
Proof. exact bin_sound. Qed.
Print Assumptions C04_kinds_alone_never_mispredict_a_binary_operator.

Theorem C04_kinds_alone_never_mispredict_a_unary_operator :
  forall dbg u a ra v ws,
    abstracts a ra -> un dbg u a = Some (v, ws) ->
    exists v', un dbg u (Exact ra) = Some (v', ws) /\ akind v' = akind v.
Proof. exact un_sound. Qed.
Print Assumptions C04_kinds_alone_never_mispredict_a_unary_operator.

Theorem C04_kinds_alone_never_mispredict_an_index_read :
  forall a b ra rb v ws,
    abstracts a ra -> abstracts b rb -> index a b = Some (v, ws) ->
    exists v', index (Exact ra) (Exact rb) = Some (v', ws) /\ akind v' = akind v.
Proof. exact index_sound. Qed.
Print Assumptions C04_kinds_alone_never_mispredict_an_index_read.

Theorem C04_kinds_alone_never_mispredict_a_command_cast :
  forall c a ra v ws,
    abstracts a ra -> call c a = Some (v, ws) ->
    exists v', call c (Exact ra) = Some (v', ws) /\ akind v' = akind v.
Proof. exact call_sound. Qed.
Print Assumptions C04_kinds_alone_never_mispredict_a_command_cast.

(* For EVERY program (list of statements over the untyped expression grammar, every
   representative value in every operator / index / field / receiver / argument / label
   position) the stack machine - instructions in the emitter's order, each popping and
   pushing as its case in ScriptVM::Process does, error paths included - observes exactly what
   the big-step specification of Spec.v observes: per statement the warning classes in
   order, the printed lines, whether the thread goes on, is suspended or has ended, which
   statements are cut or skipped, and where no prediction is made. *)
Theorem C04_machine_refines_the_statement_specification :
  forall (dbg : bool) (p : list stmt), run dbg p = spec_run dbg p.
Proof. exact run_refines_spec. Qed.
Print Assumptions C04_machine_refines_the_statement_specification.

(* the operand stack is empty after every statement the model can follow, whatever errors
   were raised inside it: the pops and pushes of the error paths are balanced, so the stack
   height is 0 wherever the thread can end *)
Theorem C04_operand_stack_empty_after_every_statement :
  forall dbg s m, exec_stmt dbg s = Some m -> stk m = [].
Proof. exact stack_empty_after_statement. Qed.
Print Assumptions C04_operand_stack_empty_after_every_statement.

(* an expression - with any number of errors inside - leaves exactly one value *)
Theorem C04_an_expression_leaves_exactly_one_value :
  forall dbg e m m', run_code dbg (comp e) m = Some m' -> length (stk m') = S (length (stk m)).
Proof. exact comp_height. Qed.
Print Assumptions C04_an_expression_leaves_exactly_one_value.

(* containment in the thread: unless a statement is an `end` or a `delete` (the only ways to
   end the running thread), every statement of the program is executed and completes - no
   script error cuts a statement short or skips the statements after it *)
Theorem C04_errors_never_stop_the_thread :
  forall dbg p,
    forallb (fun s => negb (ends_thread s)) p = true ->
    forall t, In t (run dbg p) -> (exists o, t = ODone o) \/ t = OUnknown.
Proof. exact errors_never_stop_the_thread. Qed.
Print Assumptions C04_errors_never_stop_the_thread.

(* containment in the statement: in a program of expression statements (print, assignment,
   condition, index / field store, ++ / --) what is observed of a statement is a function of
   that statement alone, however many errors the other statements raised *)
Theorem C04_statements_do_not_interfere :
  forall dbg p,
    forallb (fun s => negb (is_command s)) p = true ->
    run dbg p = map (obs_stmt dbg) p.
Proof. exact statements_do_not_interfere. Qed.
Print Assumptions C04_statements_do_not_interfere.

(* a thread ends only by its own command: a statement whose flow is "ended" is an `end` or a
   `delete` *)
Theorem C04_only_end_and_delete_end_the_thread :
  forall dbg s o, spec_stmt dbg s = Some o -> o_flow o = FEnd -> ends_thread s = true.
Proof. exact flow_end_only_by_command. Qed.
Print Assumptions C04_only_end_and_delete_end_the_thread.

(* deletion through nesting: a thread that calls, and waits for, a thread which destroys the
   caller (1..3 calls deep; delete / remove / immediateremove; the call alone or inside an
   expression) has ended - one printed line, no warning, the statement is cut and no later
   statement runs *)
Theorem C04_a_thread_deleted_by_its_callee_has_ended :
  forall dbg d p,
    kill_depth (Exact d) <> None ->
    run dbg (SCmd CKill (Some (ELeaf d)) :: p) =
    OCut (mkObs [] 1 FEnd) :: map (fun _ => OSkip) p.
Proof. exact deleted_by_callee_ends_the_thread. Qed.
Print Assumptions C04_a_thread_deleted_by_its_callee_has_ended.

(* non-vacuity: a concrete program with a division by zero inside a nested expression, an
   incompatible operator whose NIL substitute flows into a comparison, an index out of range,
   a NULL receiver, a failing store, a thread call to an unknown label, a wait and the
   deletion of the running thread *)
Example C04_example_program :
  run true
      [ SAssign (EBin BAdd (EBin BDiv (ELeaf Ri1) (ELeaf Ri0)) (ELeaf Ri2));
        SPrint (EBin BLt (EBin BAdd (ELeaf Ri1) (ELeaf Rnil)) (ELeaf Ri3));
        SAssign (EIdx (ELeaf Rsabc) (ELeaf Ri3));
        SMethod (ELeaf Rnull) MNotify (Some (ELeaf Rsno));
        SSetIdx Rv123 (ELeaf Rim1) (ELeaf Rf1);
        SCmd CThread (Some (ELeaf Rsno));
        SCmd CWait (Some (ELeaf Rf1h));
        SMethod (ELeaf Rcal) MDelete None;
        SPrint (ELeaf Ri1) ]
  = [ ODone (mkObs [WDivZero] 0 FNext);
      ODone (mkObs [WIncompat; WIncompat] 1 FNext);
      ODone (mkObs [WIndex] 0 FNext);
      ODone (mkObs [WNullCmd] 0 FNext);
      ODone (mkObs [WIndex] 0 FNext);
      ODone (mkObs [WLabel] 0 FNext);
      ODone (mkObs [] 0 FSuspend);
      OCut (mkObs [] 0 FEnd);
      OSkip ].
Proof. vm_compute. reflexivity. Qed.
