(* C04/Extract.v - extraction of the model and the specification (ExtrOcamlBasic only).
   N.of_nat is extracted only because ocaml/helpers.ml mentions the type n. *)
Require Extraction.
Require Import ExtrOcamlBasic.
From Coq Require Import NArith.
From Morfuse Require Import C04.Model C04.Spec.
Extraction "C04_model.ml" run spec_run N.of_nat.
