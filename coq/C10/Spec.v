(* C10/Spec.v - what reading an archive back must deliver: the items that were written,
   value for value; a pointer comes back as the (reader's) object that stands at the place
   of its target, whether the target was archived (ArchiveObject / ArchiveObjectPosition)
   before or after the pointer or is the object that contains the pointer; null stays
   null; a pointer whose target is not in the archive at all comes back null.
   [wf_case]: the values fit their C++ types (the harness cannot even express others). *)
From Coq Require Import ZArith NArith List Bool.
From Morfuse Require Import C10.Model.
Import ListNotations.
Local Open Scope N_scope.

(* identities that ArchiveObject / ArchiveObjectPosition enter in the archive *)
(* a script variable enters itself and the holder it creates *)
Definition reg_tok {T} (t : tok T) : list N :=
  t_vid t ::
  match t_body t with
  | TArrayNew hid _ _ _ _ _ => [hid]
  | TConstArrayNew hid _ _ => [hid]
  | TPointerNew pid _ => [pid]
  | _ => []
  end.

Definition reg_leaf (l : leaf) : list N :=
  match l with
  | LPos id => [id]
  | LVar _ toks => flat_map reg_tok toks
  | _ => []
  end.

Definition reg_item (it : item) : list N :=
  match it with
  | ILeaf l => reg_leaf l
  | IObj _ id body => id :: flat_map reg_leaf body
  end.

Definition registered (its : list item) : list N := flat_map reg_item its.

Definition spec_tgt (reg : list N) (t : option N) : option N :=
  match t with
  | Some x => if memN x reg then Some x else None
  | None => None
  end.

Definition spec_body (reg : list N) (b : tbody (option N)) : tbody (option N) :=
  match b with
  | TPtr k t => TPtr k (spec_tgt reg t)
  | TPointerNew pid ts => TPointerNew pid (map (spec_tgt reg) ts)
  | THolderRef k h => THolderRef k (spec_tgt reg h)
  | _ => b
  end.

Definition spec_tok (reg : list N) (t : tok (option N)) : tok (option N) :=
  mkTok (t_vid t) (spec_body reg (t_body t)).

Definition spec_leaf (reg : list N) (l : leaf) : leaf :=
  match l with
  | LPtr s (Some t) => if memN t reg then l else LPtr s None
  | LVar key toks => LVar key (map (spec_tok reg) toks)
  | _ => l
  end.

Definition spec_item (reg : list N) (it : item) : item :=
  match it with
  | ILeaf l => ILeaf (spec_leaf reg l)
  | IObj c id body => IObj c id (map (spec_leaf reg) body)
  end.

Definition spec_items (its : list item) : list item := map (spec_item (registered its)) its.

(* every non-null pointer target is archived somewhere in the sequence *)
Definition targets_tgt (reg : list N) (t : option N) : bool :=
  match t with Some x => memN x reg | None => true end.

Definition targets_body (reg : list N) (b : tbody (option N)) : bool :=
  match b with
  | TPtr _ t => targets_tgt reg t
  | TPointerNew _ ts => forallb (targets_tgt reg) ts
  | THolderRef _ h => targets_tgt reg h
  | _ => true
  end.

Definition targets_leaf (reg : list N) (l : leaf) : bool :=
  match l with
  | LPtr _ (Some t) => memN t reg
  | LVar _ toks => forallb (fun t => targets_body reg (t_body t)) toks
  | _ => true
  end.

Definition targets_item (reg : list N) (it : item) : bool :=
  match it with
  | ILeaf l => targets_leaf reg l
  | IObj _ _ body => forallb (targets_leaf reg) body
  end.

Definition all_targets_archived (its : list item) : bool :=
  forallb (targets_item (registered its)) its.

(* ------------------------------------------------------------- representable values *)

Definition wf_bytes (l : list N) : bool := forallb (fun b => b <? 256) l.
Definition wf_cstr (l : list N) : bool := forallb (fun b => (0 <? b) && (b <? 256)) l.

Definition wf_body (b : tbody (option N)) : bool :=
  match b with
  | TNone => true
  | TStr bs => wf_bytes bs
  | TPrim k v => v <? 256 ^ N.of_nat (vp_width k)
  | TCStr None => true
  | TCStr (Some bs) => wf_bytes bs
  | TPtr _ _ => true
  | TArrayNew _ rc tl thr tli count =>
      (rc <? 4294967296) && (tl <? 4294967296) && (thr <? 4294967296) && (count <? 4294967296) &&
      (tli <? 65536) && ((0 <? tl) || (count =? 0))
  | TConstArrayNew _ rc size => (rc <? 4294967296) && (size <? 4294967296)
  | TPointerNew _ _ => true
  | THolderRef _ (Some _) => true
  | THolderRef _ None => false
  | TVector bs => wf_bytes bs && (nlen bs =? 12)
  end.

(* the token list is exactly one variable with everything it contains: [pend_after] counts
   the variables still to come *)
Fixpoint pend_after {T} (ts : list (tok T)) (p : N) : option N :=
  match ts with
  | [] => Some p
  | t :: r => if p =? 0 then None else pend_after r (p - 1 + kids (t_body t))
  end.

Definition balanced {T} (ts : list (tok T)) : bool :=
  match pend_after ts 1 with Some 0 => true | _ => false end.

Definition wf_leaf (l : leaf) : bool :=
  match l with
  | LPrim KBoolean v => v <? 2
  | LPrim k v => v <? 256 ^ N.of_nat (pwidth k)
  | LRaw bs => wf_bytes bs
  | LStr bs => wf_bytes bs
  | LPtr _ _ => true
  | LPos _ => true
  | LVar key toks =>
      match key with Some (Some k) => wf_bytes k | _ => true end &&
      forallb (fun t => wf_body (t_body t)) toks && balanced toks
  end.

(* the token says "new holder" exactly when the writer finds the holder absent from
   classpointerList (the host state a token list describes must be consistent) *)
Definition cons_tok (cpl : list N) (t : tok (option N)) : bool :=
  let cpl1 := fst (add_unique cpl (t_vid t)) in
  match t_body t with
  | TArrayNew hid _ _ _ _ _ => negb (memN hid cpl1)
  | TConstArrayNew hid _ _ => negb (memN hid cpl1)
  | TPointerNew pid _ => negb (memN pid cpl1)
  | THolderRef _ (Some hid) => memN hid cpl1
  | _ => true
  end.

Fixpoint cons_toks (cpl : list N) (ts : list (tok (option N))) : bool :=
  match ts with
  | [] => true
  | t :: r => cons_tok cpl t && cons_toks (fst (write_tok cpl t)) r
  end.

Definition cons_leaf (cpl : list N) (l : leaf) : bool :=
  match l with LVar _ toks => cons_toks cpl toks | _ => true end.

Fixpoint cons_leaves (cpl : list N) (ls : list leaf) : bool :=
  match ls with
  | [] => true
  | l :: r => cons_leaf cpl l && cons_leaves (fst (write_leaf cpl l)) r
  end.

Definition cons_item (cpl : list N) (it : item) : bool :=
  match it with
  | ILeaf l => cons_leaf cpl l
  | IObj _ id body => cons_leaves (fst (add_unique cpl id)) body
  end.

Fixpoint cons_items (cpl : list N) (its : list item) : bool :=
  match its with
  | [] => true
  | it :: r => cons_item cpl it && cons_items (fst (write_item cpl it)) r
  end.

Definition wf_item (it : item) : bool :=
  match it with
  | ILeaf l => wf_leaf l
  | IObj _ _ body => forallb wf_leaf body
  end.

(* number of bytes a leaf / an item occupies *)
Definition size_str (bs : list N) : N := 12 + match bs with [] => 0 | _ => 4 + nlen bs end.

Definition size_cstr (s : option (list N)) : N :=
  match s with None => 5 | Some bs => 5 + size_str bs end.

Definition size_body (b : tbody (option N)) : N :=
  match b with
  | TNone => 0
  | TStr bs => size_str bs
  | TPrim k _ => 4 + N.of_nat (vp_width k)
  | TCStr s => size_cstr s
  | TPtr _ _ => 8
  | TArrayNew _ _ _ _ _ _ => 51
  | TConstArrayNew _ _ _ => 29
  | TPointerNew _ ts => 21 + 8 * nlen ts
  | THolderRef _ (Some _) => 13
  | THolderRef _ None => 0
  | TVector bs => 3 * (4 + nlen bs)
  end.

Fixpoint size_toks (ts : list (tok (option N))) : N :=
  match ts with [] => 0 | t :: r => 13 + size_body (t_body t) + size_toks r end.

Definition size_key (key : option (option (list N))) : N :=
  match key with None => 0 | Some k => size_cstr k end.

Definition size_leaf (l : leaf) : N :=
  match l with
  | LPrim k _ => 4 + N.of_nat (pwidth k)
  | LRaw bs => 4 + nlen bs
  | LStr bs => size_str bs
  | LPtr _ _ => 8
  | LPos _ => 8
  | LVar key toks => size_key key + size_toks toks
  end.

Fixpoint size_leaves (ls : list leaf) : N :=
  match ls with [] => 0 | l :: r => size_leaf l + size_leaves r end.

Definition size_item (it : item) : N :=
  match it with
  | ILeaf l => size_leaf l
  | IObj c _ body => 12 + size_str (class_name c) + 8 + (if is_listener c then 5 else 0) + size_leaves body
  end.

Fixpoint size_items (its : list item) : N :=
  match its with [] => 0 | i :: r => size_item i + size_items r end.

Definition wf_items (its : list item) : bool :=
  forallb wf_item its && (size_items its <? 2147483648) && cons_items [] its.

Definition wf_hdr (h : hdr) : bool :=
  wf_cstr (h_magic h) && (h_version h <? 65536) && wf_cstr (h_name h) &&
  (nlen (h_name h) <? 2147483648).

Definition wf_case (h : hdr) (its : list item) : bool := wf_hdr h && wf_items its.

Definition spec_case (h : hdr) (its : list item) : outcome := OOk (spec_items its).
