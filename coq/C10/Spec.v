(* C10/Spec.v - what reading an archive back must deliver: the items that were written,
   value for value; a pointer comes back as the (reader's) object that stands at the place
   of its target, whether the target was archived (ArchiveObject / ArchiveObjectPosition)
   before or after the pointer or is the object that contains the pointer; null stays
   null; a pointer whose target is not in the archive at all comes back null.
   [wf_case]: the values fit their C++ types (the harness cannot even express others). *)
From Coq Require Import ZArith NArith List Bool.
From Morfuse Require Import C10.Model.
Import ListNotations.
Local Open Scope N_scope.

Definition memN (x : N) (l : list N) : bool := existsb (N.eqb x) l.

(* identities that ArchiveObject / ArchiveObjectPosition enter in the archive *)
Definition reg_leaf (l : leaf) : list N :=
  match l with LPos id => [id] | _ => [] end.

Definition reg_item (it : item) : list N :=
  match it with
  | ILeaf l => reg_leaf l
  | IObj _ id body => id :: flat_map reg_leaf body
  end.

Definition registered (its : list item) : list N := flat_map reg_item its.

Definition spec_leaf (reg : list N) (l : leaf) : leaf :=
  match l with
  | LPtr s (Some t) => if memN t reg then l else LPtr s None
  | _ => l
  end.

Definition spec_item (reg : list N) (it : item) : item :=
  match it with
  | ILeaf l => ILeaf (spec_leaf reg l)
  | IObj c id body => IObj c id (map (spec_leaf reg) body)
  end.

Definition spec_items (its : list item) : list item := map (spec_item (registered its)) its.

(* every non-null pointer target is archived somewhere in the sequence *)
Definition targets_leaf (reg : list N) (l : leaf) : bool :=
  match l with LPtr _ (Some t) => memN t reg | _ => true end.

Definition targets_item (reg : list N) (it : item) : bool :=
  match it with
  | ILeaf l => targets_leaf reg l
  | IObj _ _ body => forallb (targets_leaf reg) body
  end.

Definition all_targets_archived (its : list item) : bool :=
  forallb (targets_item (registered its)) its.

(* ------------------------------------------------------------- representable values *)

Definition wf_bytes (l : list N) : bool := forallb (fun b => b <? 256) l.
Definition wf_cstr (l : list N) : bool := forallb (fun b => (0 <? b) && (b <? 256)) l.

Definition wf_leaf (l : leaf) : bool :=
  match l with
  | LPrim KBoolean v => v <? 2
  | LPrim k v => v <? 256 ^ N.of_nat (pwidth k)
  | LRaw bs => wf_bytes bs
  | LStr bs => wf_cstr bs
  | LPtr _ _ => true
  | LPos _ => true
  end.

Definition wf_item (it : item) : bool :=
  match it with
  | ILeaf l => wf_leaf l
  | IObj _ _ body => forallb wf_leaf body
  end.

(* number of bytes a leaf / an item occupies *)
Definition size_str (bs : list N) : N := 12 + match bs with [] => 0 | _ => 4 + nlen bs end.

Definition size_leaf (l : leaf) : N :=
  match l with
  | LPrim k _ => 4 + N.of_nat (pwidth k)
  | LRaw bs => 4 + nlen bs
  | LStr bs => size_str bs
  | LPtr _ _ => 8
  | LPos _ => 8
  end.

Fixpoint size_leaves (ls : list leaf) : N :=
  match ls with [] => 0 | l :: r => size_leaf l + size_leaves r end.

Definition size_item (it : item) : N :=
  match it with
  | ILeaf l => size_leaf l
  | IObj c _ body => 12 + size_str (class_name c) + 8 + (if is_listener c then 5 else 0) + size_leaves body
  end.

Fixpoint size_items (its : list item) : N :=
  match its with [] => 0 | i :: r => size_item i + size_items r end.

Definition wf_items (its : list item) : bool :=
  forallb wf_item its && (size_items its <? 2147483648).

Definition wf_hdr (h : hdr) : bool :=
  wf_cstr (h_magic h) && (h_version h <? 65536) && wf_cstr (h_name h) &&
  (nlen (h_name h) <? 2147483648).

Definition wf_case (h : hdr) (its : list item) : bool := wf_hdr h && wf_items its.

Definition spec_case (h : hdr) (its : list item) : outcome := OOk (spec_items its).
