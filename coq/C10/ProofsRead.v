(* C10/ProofsRead.v - the reader, run over the bytes [enc_items F items] (any list F in
   which every mentioned identity occurs), performs exactly the registrations of the item
   list and delivers every value; pointers stay pending with the index of their target. *)
From Coq Require Import ZArith NArith List Bool Lia.
From Morfuse Require Import Base.Arr Base.ListX C10.Model C10.Spec C10.ProofsLib C10.ProofsWrite.
Import ListNotations.
Local Open Scope N_scope.

Definition reg1 (F : list N) (st : rst) (id : N) : rst :=
  mkRst (r_num st) (set (r_map st) (idx F id) (Some id)).

Definition reg_ids (F : list N) (ids : list N) (st : rst) : rst := fold_left (reg1 F) ids st.

Definition regs_item (it : item) : list N :=
  match it with
  | ILeaf l => reg_leaf l
  | IObj _ id body => flat_map reg_leaf body ++ [id]
  end.

Definition regs_items (its : list item) : list N := flat_map regs_item its.

Definition pend_leaf (F : list N) (l : leaf) : pleaf :=
  match l with
  | LPtr s (Some t) => PPending s (idx F t)
  | _ => PL l
  end.

Definition pend_item (F : list N) (it : item) : pitem :=
  match it with
  | ILeaf l => PLeaf (pend_leaf F l)
  | IObj c id body => PObj c id (map (pend_leaf F) body)
  end.

Lemma reg_ids_num F ids st : r_num (reg_ids F ids st) = r_num st.
Proof. unfold reg_ids. revert st. induction ids as [|a r IH]; intro st; cbn [fold_left]; [reflexivity|]. now rewrite IH. Qed.

Lemma reg_ids_app F a b st : reg_ids F (a ++ b) st = reg_ids F b (reg_ids F a st).
Proof. unfold reg_ids. apply fold_left_app. Qed.

Lemma add_at_reg F st id :
  In id F -> r_num st = nlen F -> add_at st (idx F id) id = Some (reg_ids F [id] st).
Proof.
  intros Hin Hn. pose proof (idx_in_range F id Hin) as R. unfold add_at.
  destruct (N.eqb_spec (idx F id) 0) as [E|_]; [lia|].
  destruct (N.ltb_spec (r_num st) (idx F id)) as [L|_]; [lia|]. reflexivity.
Qed.

(* ---------------------------------------------------------------------- sizes *)

Lemma nlen_rec t p : nlen (rec_bytes t p) = 4 + nlen p.
Proof. unfold rec_bytes. now rewrite nlen_app, nlen_le_encode. Qed.

Lemma nlen_w_str bs : nlen (w_str bs) = size_str bs.
Proof.
  unfold w_str, size_str. rewrite nlen_app, nlen_rec, nlen_le_encode.
  destruct bs; [unfold nlen; cbn; lia|]. rewrite nlen_rec. lia.
Qed.

Lemma nlen_enc_leaf F l : nlen (enc_leaf F l) = size_leaf l.
Proof.
  destruct l as [k v|bs|bs|s [t|]|id]; cbn [enc_leaf size_leaf];
    rewrite ?nlen_w_str, ?nlen_rec, ?nlen_le_encode; reflexivity.
Qed.

Lemma nlen_enc_leaves F ls : nlen (enc_leaves F ls) = size_leaves ls.
Proof.
  induction ls as [|l r IH]; cbn [enc_leaves size_leaves]; [reflexivity|].
  now rewrite nlen_app, nlen_enc_leaf, IH.
Qed.

Lemma nlen_listener_flag c : nlen (listener_flag c) = if is_listener c then 5 else 0.
Proof. unfold listener_flag. destruct (is_listener c); reflexivity. Qed.

Lemma nlen_enc_body F c body :
  nlen (enc_body F c body) = (if is_listener c then 5 else 0) + size_leaves body.
Proof. unfold enc_body. now rewrite nlen_app, nlen_listener_flag, nlen_enc_leaves. Qed.

Lemma nlen_enc_item F it : nlen (enc_item F it) = size_item it.
Proof.
  destruct it as [l|c id body]; cbn [enc_item size_item]; [apply nlen_enc_leaf|].
  rewrite !nlen_app, !nlen_le_encode, nlen_w_str, nlen_rec, nlen_le_encode, nlen_enc_body.
  change (N.of_nat 4) with 4. change (N.of_nat 8) with 8. lia.
Qed.

Lemma ptag_small k : ptag k < 256 ^ 4.
Proof. destruct k; vm_compute; reflexivity. Qed.

Lemma size_leaf_pos l : 1 <= size_leaf l.
Proof. destruct l as [k v|bs|bs|s t|id]; cbn [size_leaf]; unfold size_str; lia. Qed.

(* ------------------------------------------------------------------- strings *)

Section Reader.
  Context {A : Type}.
  Variable caf : bool.

  Lemma r_str_enc c (cont : rd -> prog A) bs pos tail :
    nlen bs < 256 ^ 8 ->
    run caf (r_str c cont) (Good pos (w_str bs ++ tail)) =
    run caf (cont (Bytes bs)) (Good (pos + Z.of_N (nlen (w_str bs))) tail).
  Proof.
    intro Hb. rewrite nlen_w_str. unfold r_str, w_str, size_str. rewrite <- app_assoc.
    rewrite run_record; [|vm_compute; reflexivity|apply nlen_le_encode].
    rewrite le_decode_encode by exact Hb.
    destruct bs as [|x bs].
    - cbn [app]. change (nlen [] =? 0) with true. cbv iota. f_equal. f_equal. change (N.of_nat 8) with 8. lia.
    - destruct (N.eqb_spec (nlen (x :: bs)) 0) as [E|_]; [rewrite nlen_cons in E; lia|].
      rewrite run_record; [|vm_compute; reflexivity|reflexivity].
      f_equal. f_equal. change (N.of_nat 8) with 8. lia.
  Qed.

  (* ------------------------------------------------------------------- leaves *)

  Definition leaf_ok (F : list N) (l : leaf) : Prop :=
    wf_leaf l = true /\ incl (ids_leaf l) F /\ size_leaf l < 2147483648.

  Lemma r_leaf_enc F st l (cont : rst -> pleaf -> prog A) pos tail :
    leaf_ok F l -> r_num st = nlen F -> nlen F < 2147483648 ->
    run caf (r_leaf st (shape_leaf l) cont) (Good pos (enc_leaf F l ++ tail)) =
    run caf (cont (reg_ids F (reg_leaf l) st) (pend_leaf F l))
        (Good (pos + Z.of_N (nlen (enc_leaf F l))) tail).
  Proof.
    intros (Hwf & Hin & Hsz) Hn HF. rewrite nlen_enc_leaf.
    destruct l as [k v|bs|bs|s [t|]|id]; cbn [r_leaf shape_leaf enc_leaf reg_leaf pend_leaf size_leaf reg_ids fold_left].
    - rewrite run_record; [|apply ptag_small|apply nlen_le_encode].
      rewrite le_decode_encode.
      + f_equal. f_equal. lia.
      + cbn [wf_leaf] in Hwf. destruct k; try (apply N.ltb_lt in Hwf; exact Hwf).
        apply N.ltb_lt in Hwf. cbn [pwidth]. change (256 ^ N.of_nat 1) with 256. lia.
    - assert (Hrep : nlen (repeat 0 (length bs)) = nlen bs) by (unfold nlen; now rewrite repeat_length).
      rewrite Hrep.
      rewrite run_record; [|vm_compute; reflexivity|reflexivity].
      f_equal. f_equal. lia.
    - cbn [size_leaf] in Hsz. rewrite r_str_enc.
      + now rewrite nlen_w_str.
      + unfold size_str in Hsz. destruct bs; [unfold nlen; cbn; lia|]. change (256 ^ 8) with 18446744073709551616. lia.
    - assert (Ht : In t F) by (apply Hin; now left).
      pose proof (idx_in_range F t Ht) as R.
      unfold ptr_tag. rewrite run_record; [|destruct s; vm_compute; reflexivity|apply nlen_le_encode].
      rewrite le_decode_encode by (change (256 ^ N.of_nat 4) with 4294967296; lia).
      destruct (N.eqb_spec (idx F t) NULLP) as [E|_]; [unfold NULLP in E; lia|].
      destruct (N.eqb_spec (idx F t) 0) as [E|_]; [lia|].
      destruct (N.ltb_spec (r_num st) (idx F t)) as [L|_]; [lia|].
      cbn [orb]. f_equal. f_equal. change (N.of_nat 4) with 4. lia.
    - unfold ptr_tag. rewrite run_record; [|destruct s; vm_compute; reflexivity|apply nlen_le_encode].
      rewrite le_decode_encode by (vm_compute; reflexivity).
      rewrite N.eqb_refl. f_equal. f_equal. change (N.of_nat 4) with 4. lia.
    - assert (Ht : In id F) by (apply Hin; now left).
      pose proof (idx_in_range F id Ht) as R.
      rewrite run_record; [|vm_compute; reflexivity|apply nlen_le_encode].
      rewrite le_decode_encode by (change (256 ^ N.of_nat 4) with 4294967296; lia).
      rewrite add_at_reg by assumption.
      cbn [reg_ids fold_left]. f_equal. f_equal. change (N.of_nat 4) with 4. lia.
  Qed.

  Lemma r_leaves_enc F ls : forall st (cont : rst -> list pleaf -> prog A) pos tail,
    Forall (leaf_ok F) ls -> r_num st = nlen F -> nlen F < 2147483648 ->
    run caf (r_leaves (map shape_leaf ls) st cont) (Good pos (enc_leaves F ls ++ tail)) =
    run caf (cont (reg_ids F (flat_map reg_leaf ls) st) (map (pend_leaf F) ls))
        (Good (pos + Z.of_N (nlen (enc_leaves F ls))) tail).
  Proof.
    induction ls as [|l r IH]; intros st cont pos tail Hok Hn HF; cbn [map r_leaves enc_leaves flat_map].
    - cbn [app reg_ids fold_left]. f_equal. f_equal. unfold nlen; cbn. lia.
    - inversion Hok as [|? ? Hl Hr]; subst. rewrite <- app_assoc.
      rewrite r_leaf_enc by assumption.
      rewrite IH; [|assumption|now rewrite reg_ids_num|assumption].
      rewrite reg_ids_app. f_equal. f_equal. rewrite nlen_app. lia.
  Qed.

  (* -------------------------------------------------------------------- items *)

  Lemma class_name_big c : 3 <= c -> class_name c = [86; 79; 98; 106].
  Proof. destruct c as [|[[p|p|]|[p|p|]|]]; cbn [class_name]; intro H; try lia; reflexivity. Qed.

  Lemma lookup_class_name c : lookup_class (class_name c) = Some (norm_class c).
  Proof.
    destruct (N.ltb_spec c 3) as [L|L].
    - assert (c = 0 \/ c = 1 \/ c = 2) as [ -> | [ -> | -> ] ] by lia; vm_compute; reflexivity.
    - rewrite class_name_big by exact L. unfold norm_class.
      destruct (N.ltb_spec c 3); [lia|]. vm_compute. reflexivity.
  Qed.

  Lemma class_name_len c : nlen (class_name c) < 256 ^ 8.
  Proof.
    destruct (N.ltb_spec c 3) as [L|L].
    - assert (c = 0 \/ c = 1 \/ c = 2) as [ -> | [ -> | -> ] ] by lia; vm_compute; reflexivity.
    - rewrite class_name_big by exact L. vm_compute. reflexivity.
  Qed.

  Definition item_ok (F : list N) (it : item) : Prop :=
    match it with
    | ILeaf l => leaf_ok F l
    | IObj c id body => Forall (leaf_ok F) body /\ In id F /\ size_item it < 2147483648
    end.

  Lemma to_signed64_small v : v < 9223372036854775808 -> to_signed64 v = Z.of_N v.
  Proof. intro H. unfold to_signed64. destruct (N.ltb_spec v 9223372036854775808); [reflexivity|lia]. Qed.

  Lemma r_listener_flag_enc c (cont : prog A) pos tail :
    run caf (r_listener_flag c cont) (Good pos (listener_flag c ++ tail)) =
    run caf cont (Good (pos + Z.of_N (nlen (listener_flag c))) tail).
  Proof.
    unfold r_listener_flag, listener_flag. destruct (is_listener c).
    - rewrite run_record; [|vm_compute; reflexivity|reflexivity].
      change (nlen (rec_bytes T_Byte [0])) with 5. cbv iota. f_equal. f_equal. lia.
    - cbn [app]. f_equal. f_equal. unfold nlen; cbn. lia.
  Qed.

  Lemma r_item_enc F st it (cont : rst -> pitem -> prog A) pos tail :
    item_ok F it -> r_num st = nlen F -> nlen F < 2147483648 ->
    run caf (r_item st (shape_item it) cont) (Good pos (enc_item F it ++ tail)) =
    run caf (cont (reg_ids F (regs_item it) st) (pend_item F it))
        (Good (pos + Z.of_N (nlen (enc_item F it))) tail).
  Proof.
    intros Hok Hn HF. destruct it as [l|c id body]; cbn [r_item shape_item enc_item regs_item pend_item].
    - now rewrite r_leaf_enc.
    - destruct Hok as (Hb & Hid & Hsz).
      pose proof (idx_in_range F id Hid) as R.
      pose proof (nlen_enc_item F (IObj c id body)) as Hlen. cbn [enc_item] in Hlen.
      rewrite Hlen.
      cbn [size_item] in Hsz.
      assert (Hbody : nlen (enc_body F c body) < 2147483648) by (rewrite nlen_enc_body; lia).
      rewrite <- !app_assoc.
      rewrite run_ReadTag by (vm_compute; reflexivity).
      rewrite run_Read by apply nlen_le_encode.
      rewrite r_str_enc by apply class_name_len.
      rewrite lookup_class_name. rewrite N.eqb_refl. cbn [negb].
      rewrite run_record; [|vm_compute; reflexivity|apply nlen_le_encode].
      rewrite run_Tell.
      change (enc_body F c body ++ tail) with ((listener_flag c ++ enc_leaves F body) ++ tail).
      rewrite <- app_assoc.
      rewrite r_listener_flag_enc.
      rewrite r_leaves_enc by assumption.
      rewrite run_Tell.
      rewrite le_decode_encode by (change (256 ^ N.of_nat 8) with 18446744073709551616; lia).
      rewrite to_signed64_small by lia.
      match goal with
      | |- context [(?a + Z.of_N (nlen (listener_flag c)) + Z.of_N (nlen (enc_leaves F body)) - ?a)%Z] =>
          replace (a + Z.of_N (nlen (listener_flag c)) + Z.of_N (nlen (enc_leaves F body)) - a)%Z
            with (Z.of_N (nlen (enc_body F c body))) by (unfold enc_body; rewrite nlen_app; lia)
      end.
      rewrite !Z.ltb_irrefl.
      rewrite le_decode_encode by (change (256 ^ N.of_nat 4) with 4294967296; lia).
      rewrite add_at_reg; [|assumption|now rewrite reg_ids_num].
      rewrite <- reg_ids_app.
      f_equal. f_equal. cbn [size_item]. rewrite nlen_w_str, nlen_listener_flag, nlen_enc_leaves. lia.
  Qed.

  Lemma r_items_enc F its : forall st (cont : rst -> list pitem -> prog A) pos tail,
    Forall (item_ok F) its -> r_num st = nlen F -> nlen F < 2147483648 ->
    run caf (r_items (shape its) st cont) (Good pos (enc_items F its ++ tail)) =
    run caf (cont (reg_ids F (regs_items its) st) (map (pend_item F) its))
        (Good (pos + Z.of_N (nlen (enc_items F its))) tail).
  Proof.
    unfold shape, regs_items.
    induction its as [|it r IH]; intros st cont pos tail Hok Hn HF; cbn [map r_items enc_items flat_map].
    - cbn [app reg_ids fold_left]. f_equal. f_equal. unfold nlen; cbn. lia.
    - inversion Hok as [|? ? Hl Hr]; subst. rewrite <- app_assoc.
      rewrite r_item_enc by assumption.
      rewrite IH; [|assumption|now rewrite reg_ids_num|assumption].
      rewrite reg_ids_app. f_equal. f_equal. rewrite nlen_app. lia.
  Qed.
End Reader.
