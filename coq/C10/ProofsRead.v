(* C10/ProofsRead.v - the reader, run over the bytes [enc_items F items] (any list F in
   which every mentioned identity occurs), performs exactly the registrations of the item
   list and delivers every value; pointers stay pending with the index of their target. *)
From Coq Require Import ZArith NArith List Bool Lia.
From Morfuse Require Import Base.Arr Base.ListX C10.Model C10.Spec C10.ProofsLib C10.ProofsWrite.
Import ListNotations.
Local Open Scope N_scope.

Definition reg1 (F : list N) (st : rst) (id : N) : rst :=
  mkRst (r_num st) (set (r_map st) (idx F id) (Some id)).

Definition reg_ids (F : list N) (ids : list N) (st : rst) : rst := fold_left (reg1 F) ids st.

Definition regs_item (it : item) : list N :=
  match it with
  | ILeaf l => reg_leaf l
  | IObj _ id body => flat_map reg_leaf body ++ [id]
  end.

Definition regs_items (its : list item) : list N := flat_map regs_item its.

Definition pend_tgt (F : list N) (t : option N) : ptgt :=
  match t with None => PN | Some x => PP (idx F x) end.

Definition pend_body (F : list N) (b : tbody (option N)) : tbody ptgt :=
  match b with
  | TNone => TNone
  | TStr bs => TStr bs
  | TPrim k v => TPrim k v
  | TCStr s => TCStr s
  | TPtr k t => TPtr k (pend_tgt F t)
  | TArrayNew hid rc tl thr tli count => TArrayNew hid rc tl thr tli count
  | TConstArrayNew hid rc size => TConstArrayNew hid rc size
  | TPointerNew pid ts => TPointerNew pid (map (pend_tgt F) ts)
  | THolderRef k h => THolderRef k (pend_tgt F h)
  | TVector bs => TVector bs
  end.

Definition pend_tok (F : list N) (t : tok (option N)) : tok ptgt :=
  mkTok (t_vid t) (pend_body F (t_body t)).

Definition pend_leaf (F : list N) (l : leaf) : pleaf :=
  match l with
  | LPtr s (Some t) => PPending s (idx F t)
  | LVar key toks => PVar key (map (pend_tok F) toks)
  | _ => PL l
  end.

Definition pend_item (F : list N) (it : item) : pitem :=
  match it with
  | ILeaf l => PLeaf (pend_leaf F l)
  | IObj c id body => PObj c id (map (pend_leaf F) body)
  end.

Lemma reg_ids_num F ids st : r_num (reg_ids F ids st) = r_num st.
Proof. unfold reg_ids. revert st. induction ids as [|a r IH]; intro st; cbn [fold_left]; [reflexivity|]. now rewrite IH. Qed.

Lemma reg_ids_app F a b st : reg_ids F (a ++ b) st = reg_ids F b (reg_ids F a st).
Proof. unfold reg_ids. apply fold_left_app. Qed.

Lemma add_at_reg F st id :
  In id F -> r_num st = nlen F -> add_at st (idx F id) id = Some (reg_ids F [id] st).
Proof.
  intros Hin Hn. pose proof (idx_in_range F id Hin) as R. unfold add_at.
  destruct (N.eqb_spec (idx F id) 0) as [E|_]; [lia|].
  destruct (N.ltb_spec (r_num st) (idx F id)) as [L|_]; [lia|]. reflexivity.
Qed.

(* ---------------------------------------------------------------------- sizes *)

Lemma nlen_rec t p : nlen (rec_bytes t p) = 4 + nlen p.
Proof. unfold rec_bytes. now rewrite nlen_app, nlen_le_encode. Qed.

Lemma nlen_w_str bs : nlen (w_str bs) = size_str bs.
Proof.
  unfold w_str, size_str. rewrite nlen_app, nlen_rec, nlen_le_encode.
  destruct bs; [unfold nlen; cbn; lia|]. rewrite nlen_rec. lia.
Qed.

Lemma nlen_enc_ptr F safe t : nlen (enc_ptr F safe t) = 8.
Proof. unfold enc_ptr. now rewrite nlen_rec, nlen_le_encode. Qed.

Lemma nlen_enc_ptrs F ts : nlen (enc_ptrs F ts) = 8 * nlen ts.
Proof.
  induction ts as [|t r IH]; cbn [enc_ptrs]; [reflexivity|].
  rewrite nlen_app, nlen_enc_ptr, IH, nlen_cons. lia.
Qed.

Lemma nlen_w_cstr s : nlen (w_cstr s) = size_cstr s.
Proof.
  destruct s as [bs|]; cbn [w_cstr size_cstr]; [|reflexivity].
  rewrite nlen_app, nlen_w_str. change (nlen (rec_bytes T_Byte [1])) with 5. reflexivity.
Qed.

Lemma nlen_u32 v : nlen (u32 v) = 8.
Proof. unfold u32. now rewrite nlen_rec, nlen_le_encode. Qed.

Lemma nlen_enc_tbody F b : nlen (enc_tbody F b) = size_body b.
Proof.
  destruct b as [|bs|k v|s|k x|hid rc tl thr tli count|hid rc size|pid ts|k [hid|]|bs]; cbn [enc_tbody size_body]; unfold enc_new;
    rewrite ?nlen_app, ?nlen_w_str, ?nlen_w_cstr, ?nlen_enc_ptr, ?nlen_enc_ptrs, ?nlen_u32, ?nlen_rec, ?nlen_le_encode;
    change (nlen [1]) with 1; change (nlen [0]) with 1; change (N.of_nat 4) with 4; change (N.of_nat 2) with 2;
    try reflexivity; try lia.
Qed.

Lemma nlen_enc_tok F t : nlen (enc_tok F t) = 13 + size_body (t_body t).
Proof.
  unfold enc_tok. rewrite !nlen_app, !nlen_rec, nlen_le_encode, nlen_enc_tbody.
  change (nlen [vtype (t_body t)]) with 1. change (N.of_nat 4) with 4. lia.
Qed.

Lemma nlen_enc_toks F ts : nlen (enc_toks F ts) = size_toks ts.
Proof.
  induction ts as [|t r IH]; cbn [enc_toks size_toks]; [reflexivity|].
  rewrite nlen_app, nlen_enc_tok, IH. lia.
Qed.

Lemma nlen_w_key key : nlen (w_key key) = size_key key.
Proof. destruct key as [k|]; cbn [w_key size_key]; [apply nlen_w_cstr|reflexivity]. Qed.

Lemma nlen_enc_leaf F l : nlen (enc_leaf F l) = size_leaf l.
Proof.
  destruct l as [k v|bs|bs|s [t|]|id|key toks]; cbn [enc_leaf size_leaf];
    rewrite ?nlen_app, ?nlen_w_key, ?nlen_enc_toks, ?nlen_w_str, ?nlen_rec, ?nlen_le_encode; reflexivity.
Qed.

Lemma nlen_enc_leaves F ls : nlen (enc_leaves F ls) = size_leaves ls.
Proof.
  induction ls as [|l r IH]; cbn [enc_leaves size_leaves]; [reflexivity|].
  now rewrite nlen_app, nlen_enc_leaf, IH.
Qed.

Lemma nlen_listener_flag c : nlen (listener_flag c) = if is_listener c then 5 else 0.
Proof. unfold listener_flag. destruct (is_listener c); reflexivity. Qed.

Lemma nlen_enc_body F c body :
  nlen (enc_body F c body) = (if is_listener c then 5 else 0) + size_leaves body.
Proof. unfold enc_body. now rewrite nlen_app, nlen_listener_flag, nlen_enc_leaves. Qed.

Lemma nlen_enc_item F it : nlen (enc_item F it) = size_item it.
Proof.
  destruct it as [l|c id body]; cbn [enc_item size_item]; [apply nlen_enc_leaf|].
  rewrite !nlen_app, !nlen_le_encode, nlen_w_str, nlen_rec, nlen_le_encode, nlen_enc_body.
  change (N.of_nat 4) with 4. change (N.of_nat 8) with 8. lia.
Qed.

Lemma ptag_small k : ptag k < 256 ^ 4.
Proof. destruct k; vm_compute; reflexivity. Qed.


(* ------------------------------------------------------------------- strings *)

(* evaluates comparisons of numerals (the type dispatch of a script variable) *)
Ltac eqb_lits :=
  repeat match goal with
         | |- context [N.eqb (Npos ?p) (Npos ?q)] =>
             let r := eval vm_compute in (N.eqb (Npos p) (Npos q)) in change (N.eqb (Npos p) (Npos q)) with r
         | |- context [N.eqb (Npos ?p) 0] => change (N.eqb (Npos p) 0) with false
         | |- context [N.eqb 0 0] => change (N.eqb 0 0) with true
         end;
  cbv beta iota zeta.

Section Reader.
  Context {A : Type}.
  Variable caf : bool.

  Lemma r_str_enc c (cont : rd -> prog A) bs pos tail :
    nlen bs < 256 ^ 8 ->
    run caf (r_str c cont) (Good pos (w_str bs ++ tail)) =
    run caf (cont (Bytes bs)) (Good (pos + Z.of_N (nlen (w_str bs))) tail).
  Proof.
    intro Hb. rewrite nlen_w_str. unfold r_str, w_str, size_str. rewrite <- app_assoc.
    rewrite run_record; [|vm_compute; reflexivity|apply nlen_le_encode].
    rewrite le_decode_encode by exact Hb.
    destruct bs as [|x bs].
    - cbn [app]. change (nlen [] =? 0) with true. cbv iota. f_equal. f_equal. change (N.of_nat 8) with 8. lia.
    - destruct (N.eqb_spec (nlen (x :: bs)) 0) as [E|_]; [rewrite nlen_cons in E; lia|].
      rewrite run_record; [|vm_compute; reflexivity|reflexivity].
      f_equal. f_equal. change (N.of_nat 8) with 8. lia.
  Qed.

  (* ------------------------------------------------------------ script variables *)

  Lemma le_decode_single c : le_decode [c] = c.
  Proof. cbn [le_decode]. lia. Qed.

  Lemma r_ptr_enc safe st (k : ptgt -> prog A) F t pos tail :
    incl (ids_tgt t) F -> r_num st = nlen F -> nlen F < 2147483648 ->
    run caf (r_ptr safe st k) (Good pos (enc_ptr F safe t ++ tail)) =
    run caf (k (pend_tgt F t)) (Good (pos + 8) tail).
  Proof.
    intros Hin Hn HF. unfold r_ptr, enc_ptr.
    rewrite run_record; [|destruct safe; vm_compute; reflexivity|apply nlen_le_encode].
    destruct t as [x|]; cbn [pend_tgt].
    - assert (Hx : In x F) by (apply Hin; now left).
      pose proof (idx_in_range F x Hx) as R.
      rewrite le_decode_encode by (change (256 ^ N.of_nat 4) with 4294967296; lia).
      destruct (N.eqb_spec (idx F x) NULLP) as [E|_]; [unfold NULLP in E; lia|].
      destruct (N.eqb_spec (idx F x) 0) as [E|_]; [lia|].
      destruct (N.ltb_spec (r_num st) (idx F x)) as [L|_]; [lia|].
      cbn [orb]. f_equal. f_equal. change (N.of_nat 4) with 4. lia.
    - rewrite le_decode_encode by (vm_compute; reflexivity).
      rewrite N.eqb_refl. f_equal. f_equal. change (N.of_nat 4) with 4. lia.
  Qed.

  Lemma r_ptrs_enc F st ts : forall (k : list ptgt -> prog A) pos tail,
    incl (flat_map ids_tgt ts) F -> r_num st = nlen F -> nlen F < 2147483648 ->
    run caf (r_ptrs (map (fun _ => None) ts) (nlen ts) st k) (Good pos (enc_ptrs F ts ++ tail)) =
    run caf (k (map (pend_tgt F) ts)) (Good (pos + Z.of_N (8 * nlen ts)) tail).
  Proof.
    induction ts as [|t r IH]; intros k pos tail Hin Hn HF; cbn [map r_ptrs enc_ptrs flat_map].
    - change (nlen (@nil (option N)) =? 0) with true. cbv iota. cbn [app]. f_equal. f_equal.
      change (nlen (@nil (option N))) with 0. lia.
    - rewrite nlen_cons. destruct (N.eqb_spec (1 + nlen r) 0) as [E|_]; [lia|].
      rewrite <- app_assoc. rewrite r_ptr_enc; [|intros x Hx; apply Hin; apply in_or_app; now left|assumption|assumption].
      replace (1 + nlen r - 1) with (nlen r) by lia.
      rewrite IH; [|intros x Hx; apply Hin; apply in_or_app; now right|assumption|assumption].
      f_equal. f_equal. lia.
  Qed.

  Lemma r_num32_enc (k : N -> prog A) v pos tail :
    v < 4294967296 ->
    run caf (r_num32 k) (Good pos (u32 v ++ tail)) = run caf (k v) (Good (pos + 8) tail).
  Proof.
    intro Hv. unfold r_num32, u32.
    rewrite run_record; [|vm_compute; reflexivity|apply nlen_le_encode].
    rewrite le_decode_encode by (change (256 ^ N.of_nat 4) with 4294967296; exact Hv).
    f_equal. f_equal. change (N.of_nat 4) with 4. lia.
  Qed.

  Lemma r_position_enc F st id (k : rst -> prog A) pos tail :
    In id F -> r_num st = nlen F -> nlen F < 2147483648 ->
    run caf (r_position st id k) (Good pos (rec_bytes T_Position (le_encode 4 (idx F id)) ++ tail)) =
    run caf (k (reg_ids F [id] st)) (Good (pos + 8) tail).
  Proof.
    intros Hin Hn HF. unfold r_position. pose proof (idx_in_range F id Hin) as R.
    rewrite run_record; [|vm_compute; reflexivity|apply nlen_le_encode].
    rewrite le_decode_encode by (change (256 ^ N.of_nat 4) with 4294967296; lia).
    rewrite add_at_reg by assumption.
    f_equal. f_equal. change (N.of_nat 4) with 4. lia.
  Qed.

  Lemma r_cstr_enc (k : option (list N) -> prog A) s pos tail :
    (forall bs, s = Some bs -> nlen bs < 256 ^ 8) ->
    run caf (r_cstr k) (Good pos (w_cstr s ++ tail)) =
    run caf (k s) (Good (pos + Z.of_N (size_cstr s)) tail).
  Proof.
    intro Hs. unfold r_cstr. destruct s as [bs|]; cbn [w_cstr size_cstr].
    - rewrite <- app_assoc. rewrite run_record; [|vm_compute; reflexivity|reflexivity].
      rewrite le_decode_single. change (1 =? 0) with false. cbv iota.
      rewrite r_str_enc by (now apply Hs). rewrite nlen_w_str. f_equal. f_equal. lia.
    - rewrite run_record; [|vm_compute; reflexivity|reflexivity].
      rewrite le_decode_single. change (0 =? 0) with true. cbv iota. f_equal; f_equal; lia.
  Qed.

  Lemma r_newref_enc (k : bool -> prog A) (b : bool) pos tail :
    run caf (r_newref k) (Good pos (rec_bytes T_Boolean [if b then 1 else 0] ++ tail)) =
    run caf (k b) (Good (pos + 5) tail).
  Proof.
    unfold r_newref. rewrite run_record; [|vm_compute; reflexivity|reflexivity].
    destruct b; cbv iota; f_equal; f_equal; lia.
  Qed.

  Lemma r_raw12_enc (k : list N -> prog A) bs pos tail :
    nlen bs = 12 ->
    run caf (r_raw12 k) (Good pos (rec_bytes T_Raw bs ++ tail)) = run caf (k bs) (Good (pos + 16) tail).
  Proof.
    intro Hb. unfold r_raw12. rewrite run_record; [|vm_compute; reflexivity|exact Hb].
    f_equal. f_equal. lia.
  Qed.

  Definition tok_ok (F : list N) (t : tok (option N)) : Prop :=
    wf_body (t_body t) = true /\ incl (ids_tok t) F /\ size_body (t_body t) < 2147483648.

  Lemma kids_pend F b : kids (pend_body F b) = kids b.
  Proof. destruct b; reflexivity. Qed.

  Lemma r_tok1_enc F st t (k : rst -> tok ptgt -> prog A) pos tail :
    tok_ok F t -> r_num st = nlen F -> nlen F < 2147483648 ->
    run caf (r_tok1 (shape_tok t) st k) (Good pos (enc_tok F t ++ tail)) =
    run caf (k (reg_ids F (reg_tok t) st) (pend_tok F t))
        (Good (pos + Z.of_N (13 + size_body (t_body t))) tail).
  Proof.
    intros (Hwf & Hin & Hsz) Hn HF.
    assert (Hvid : In (t_vid t) F) by (apply Hin; now left).
    assert (Hids : incl (ids_body (t_body t)) F) by (intros x Hx; apply Hin; now right).
    unfold r_tok1, enc_tok, pend_tok, reg_tok, shape_tok. cbn [t_vid t_body].
    rewrite <- !app_assoc.
    rewrite r_position_enc by assumption.
    rewrite run_record; [|vm_compute; reflexivity|reflexivity].
    rewrite le_decode_single.
    set (st1 := reg_ids F [t_vid t] st).
    assert (Hn1 : r_num st1 = nlen F) by (unfold st1; now rewrite reg_ids_num).
    destruct (t_body t) as [|bs|pk v|s|pk x|hid rc tl thr tli count|hid rc size|pid ts|hk [hid|]|bs] eqn:Eb;
      cbn [vtype enc_tbody pend_body size_body ids_body wf_body lab_hid lab_targets] in *.
    - eqb_lits. cbn [app]. f_equal. f_equal. lia.
    - eqb_lits.
      rewrite r_str_enc.
      + rewrite nlen_w_str. f_equal. f_equal. lia.
      + unfold size_str in Hsz. destruct bs; [vm_compute; reflexivity|]. change (256 ^ 8) with 18446744073709551616. lia.
    - apply N.ltb_lt in Hwf.
      destruct pk; cbn [vtype vp_tag vp_width] in *; eqb_lits;
        (rewrite run_record; [|vm_compute; reflexivity|apply nlen_le_encode]);
        rewrite le_decode_encode by exact Hwf; f_equal; f_equal; lia.
    - eqb_lits.
      rewrite r_cstr_enc.
      + f_equal. f_equal. lia.
      + intros bs0 ->. cbn [size_cstr] in Hsz. unfold size_str in Hsz.
        destruct bs0; [vm_compute; reflexivity|]. change (256 ^ 8) with 18446744073709551616. lia.
    - destruct pk; cbn [vtype vptr_safe] in *; eqb_lits;
        (rewrite r_ptr_enc by assumption); f_equal; f_equal; lia.
    - repeat match goal with Hx : (_ && _) = true |- _ => apply andb_true_iff in Hx; destruct Hx end.
      repeat match goal with Hx : (_ <? _) = true |- _ => apply N.ltb_lt in Hx end.
      eqb_lits. unfold enc_new. rewrite <- !app_assoc.
      rewrite (r_newref_enc _ true).
      rewrite r_position_enc; [|apply Hids; now left|assumption|assumption].
      rewrite !r_num32_enc by assumption.
      rewrite run_record; [|vm_compute; reflexivity|apply nlen_le_encode].
      rewrite le_decode_encode by (change (256 ^ N.of_nat 2) with 65536; assumption).
      assert (Hz : (tl =? 0) && (0 <? count) = false).
      { destruct (N.eqb_spec tl 0) as [->|_]; [|reflexivity]. cbn [andb].
        match goal with Hx : (0 <? 0) || (count =? 0) = true |- _ => cbn [orb] in Hx; change (0 <? 0) with false in Hx; cbn [orb] in Hx; apply N.eqb_eq in Hx; subst count end.
        reflexivity. }
      rewrite Hz. unfold st1. f_equal. f_equal. change (N.of_nat 2) with 2. lia.
    - repeat match goal with Hx : (_ && _) = true |- _ => apply andb_true_iff in Hx; destruct Hx end.
      repeat match goal with Hx : (_ <? _) = true |- _ => apply N.ltb_lt in Hx end.
      eqb_lits. unfold enc_new. rewrite <- !app_assoc.
      rewrite (r_newref_enc _ true).
      rewrite r_position_enc; [|apply Hids; now left|assumption|assumption].
      rewrite !r_num32_enc by assumption.
      unfold st1. f_equal. f_equal. lia.
    - eqb_lits. unfold enc_new. rewrite <- !app_assoc.
      rewrite (r_newref_enc _ true).
      rewrite r_position_enc; [|apply Hids; now left|assumption|assumption].
      rewrite r_num32_enc by lia.
      rewrite r_ptrs_enc; [|intros x Hx; apply Hids; now right|now rewrite reg_ids_num|assumption].
      unfold st1. f_equal. f_equal. lia.
    - destruct hk; cbn [vtype] in *; eqb_lits; rewrite <- !app_assoc;
        rewrite (r_newref_enc _ false); (rewrite r_ptr_enc by assumption);
        cbn [app]; f_equal; f_equal; lia.
    - discriminate.
    - apply andb_true_iff in Hwf as [_ Hl]. apply N.eqb_eq in Hl.
      eqb_lits. rewrite <- !app_assoc.
      rewrite !r_raw12_enc by exact Hl.
      cbn [app]. f_equal. f_equal. rewrite Hl. lia.
  Qed.

  Lemma r_toks_enc F toks : forall labs2 pending pend' st (cont : rst -> list (tok ptgt) -> prog A) pos tail,
    pend_after toks pending = Some pend' ->
    Forall (tok_ok F) toks -> size_toks toks < 2147483648 -> r_num st = nlen F -> nlen F < 2147483648 ->
    run caf (r_toks (map shape_tok toks ++ labs2) pending st cont) (Good pos (enc_toks F toks ++ tail)) =
    run caf (r_toks labs2 pend' (reg_ids F (flat_map reg_tok toks) st)
                    (fun st2 more => cont st2 (map (pend_tok F) toks ++ more)))
        (Good (pos + Z.of_N (nlen (enc_toks F toks))) tail).
  Proof.
    induction toks as [|t r IH]; intros labs2 pending pend' st cont pos tail Hp Hok Hsz Hn HF;
      cbn [map app enc_toks flat_map pend_after size_toks] in *.
    - inversion Hp; subst. cbn [reg_ids fold_left]. f_equal. f_equal. change (nlen (@nil N)) with 0. lia.
    - inversion Hok as [|? ? Ht Hr]; subst.
      destruct (N.eqb_spec pending 0) as [E|E]; [discriminate|].
      cbn [r_toks]. destruct (N.eqb_spec pending 0) as [E'|_]; [contradiction|].
      rewrite <- app_assoc.
      rewrite r_tok1_enc by assumption.
      cbn [pend_tok t_body]. rewrite kids_pend.
      rewrite (IH labs2 _ pend'); [|exact Hp|assumption|lia|now rewrite reg_ids_num|assumption].
      rewrite reg_ids_app. f_equal. f_equal. rewrite nlen_app, nlen_enc_tok. lia.
  Qed.

  Lemma r_key_enc key (k : option (option (list N)) -> prog A) pos tail :
    (forall bs, key = Some (Some bs) -> nlen bs < 256 ^ 8) ->
    run caf (r_key (match key with None => None | Some _ => Some None end) k) (Good pos (w_key key ++ tail)) =
    run caf (k key) (Good (pos + Z.of_N (size_key key)) tail).
  Proof.
    intro Hk. destruct key as [s|]; cbn [r_key w_key size_key].
    - rewrite r_cstr_enc; [reflexivity|]. intros bs ->. now apply Hk.
    - cbn [app]. f_equal. f_equal. lia.
  Qed.

  (* ------------------------------------------------------------------- leaves *)

  Definition leaf_ok (F : list N) (l : leaf) : Prop :=
    wf_leaf l = true /\ incl (ids_leaf l) F /\ size_leaf l < 2147483648.

  Lemma r_leaf_enc F st l (cont : rst -> pleaf -> prog A) pos tail :
    leaf_ok F l -> r_num st = nlen F -> nlen F < 2147483648 ->
    run caf (r_leaf st (shape_leaf l) cont) (Good pos (enc_leaf F l ++ tail)) =
    run caf (cont (reg_ids F (reg_leaf l) st) (pend_leaf F l))
        (Good (pos + Z.of_N (nlen (enc_leaf F l))) tail).
  Proof.
    intros (Hwf & Hin & Hsz) Hn HF. rewrite nlen_enc_leaf.
    destruct l as [k v|bs|bs|s [t|]|id|key toks]; cbn [r_leaf shape_leaf enc_leaf reg_leaf pend_leaf size_leaf reg_ids fold_left].
    7:{ cbn [wf_leaf ids_leaf size_leaf] in *.
        apply andb_true_iff in Hwf as [Hwf Hbal]. apply andb_true_iff in Hwf as [Hkey Hbodies].
        rewrite <- app_assoc. rewrite r_key_enc.
        2:{ intros bs ->. unfold size_key, size_cstr, size_str in Hsz. destruct bs; [vm_compute; reflexivity|].
            change (256 ^ 8) with 18446744073709551616. lia. }
        unfold balanced in Hbal. destruct (pend_after toks 1) as [[|p]|] eqn:Hp; try discriminate.
        pose proof (r_toks_enc F toks [] 1 0 st (fun st' ts => cont st' (PVar key ts))) as R.
        rewrite app_nil_r in R. rewrite R; [|exact Hp| |lia|assumption|assumption].
        - cbn [r_toks]. change (0 =? 0) with true. cbv iota. rewrite app_nil_r.
          f_equal. f_equal. rewrite nlen_enc_toks. lia.
        - rewrite forallb_forall in Hbodies. apply Forall_forall. intros t Ht. split; [now apply Hbodies|split].
          + intros x Hx. apply Hin. rewrite in_flat_map. eauto.
          + clear - Ht Hsz. induction toks as [|a r IH]; [destruct Ht|]. cbn [size_toks] in Hsz.
            destruct Ht as [->|Ht]; [lia|]. apply IH; try assumption; lia. }
    - rewrite run_record; [|apply ptag_small|apply nlen_le_encode].
      rewrite le_decode_encode.
      + f_equal. f_equal. lia.
      + cbn [wf_leaf] in Hwf. destruct k; try (apply N.ltb_lt in Hwf; exact Hwf).
        apply N.ltb_lt in Hwf. cbn [pwidth]. change (256 ^ N.of_nat 1) with 256. lia.
    - assert (Hrep : nlen (repeat 0 (length bs)) = nlen bs) by (unfold nlen; now rewrite repeat_length).
      rewrite Hrep.
      rewrite run_record; [|vm_compute; reflexivity|reflexivity].
      f_equal. f_equal. lia.
    - cbn [size_leaf] in Hsz. rewrite r_str_enc.
      + now rewrite nlen_w_str.
      + unfold size_str in Hsz. destruct bs; [unfold nlen; cbn; lia|]. change (256 ^ 8) with 18446744073709551616. lia.
    - assert (Ht : In t F) by (apply Hin; now left).
      pose proof (idx_in_range F t Ht) as R.
      unfold ptr_tag. rewrite run_record; [|destruct s; vm_compute; reflexivity|apply nlen_le_encode].
      rewrite le_decode_encode by (change (256 ^ N.of_nat 4) with 4294967296; lia).
      destruct (N.eqb_spec (idx F t) NULLP) as [E|_]; [unfold NULLP in E; lia|].
      destruct (N.eqb_spec (idx F t) 0) as [E|_]; [lia|].
      destruct (N.ltb_spec (r_num st) (idx F t)) as [L|_]; [lia|].
      cbn [orb]. f_equal. f_equal. change (N.of_nat 4) with 4. lia.
    - unfold ptr_tag. rewrite run_record; [|destruct s; vm_compute; reflexivity|apply nlen_le_encode].
      rewrite le_decode_encode by (vm_compute; reflexivity).
      rewrite N.eqb_refl. f_equal. f_equal. change (N.of_nat 4) with 4. lia.
    - assert (Ht : In id F) by (apply Hin; now left).
      pose proof (idx_in_range F id Ht) as R.
      rewrite run_record; [|vm_compute; reflexivity|apply nlen_le_encode].
      rewrite le_decode_encode by (change (256 ^ N.of_nat 4) with 4294967296; lia).
      rewrite add_at_reg by assumption.
      cbn [reg_ids fold_left]. f_equal. f_equal. change (N.of_nat 4) with 4. lia.
  Qed.

  Lemma r_leaves_enc F ls : forall st (cont : rst -> list pleaf -> prog A) pos tail,
    Forall (leaf_ok F) ls -> r_num st = nlen F -> nlen F < 2147483648 ->
    run caf (r_leaves (map shape_leaf ls) st cont) (Good pos (enc_leaves F ls ++ tail)) =
    run caf (cont (reg_ids F (flat_map reg_leaf ls) st) (map (pend_leaf F) ls))
        (Good (pos + Z.of_N (nlen (enc_leaves F ls))) tail).
  Proof.
    induction ls as [|l r IH]; intros st cont pos tail Hok Hn HF; cbn [map r_leaves enc_leaves flat_map].
    - cbn [app reg_ids fold_left]. f_equal. f_equal. unfold nlen; cbn. lia.
    - inversion Hok as [|? ? Hl Hr]; subst. rewrite <- app_assoc.
      rewrite r_leaf_enc by assumption.
      rewrite IH; [|assumption|now rewrite reg_ids_num|assumption].
      rewrite reg_ids_app. f_equal. f_equal. rewrite nlen_app. lia.
  Qed.

  (* -------------------------------------------------------------------- items *)

  Lemma class_name_big c : 3 <= c -> class_name c = [86; 79; 98; 106].
  Proof. destruct c as [|[[p|p|]|[p|p|]|]]; cbn [class_name]; intro H; try lia; reflexivity. Qed.

  Lemma lookup_class_name c : lookup_class (class_name c) = Some (norm_class c).
  Proof.
    destruct (N.ltb_spec c 3) as [L|L].
    - assert (c = 0 \/ c = 1 \/ c = 2) as [ -> | [ -> | -> ] ] by lia; vm_compute; reflexivity.
    - rewrite class_name_big by exact L. unfold norm_class.
      destruct (N.ltb_spec c 3); [lia|]. vm_compute. reflexivity.
  Qed.

  Lemma class_name_len c : nlen (class_name c) < 256 ^ 8.
  Proof.
    destruct (N.ltb_spec c 3) as [L|L].
    - assert (c = 0 \/ c = 1 \/ c = 2) as [ -> | [ -> | -> ] ] by lia; vm_compute; reflexivity.
    - rewrite class_name_big by exact L. vm_compute. reflexivity.
  Qed.

  Definition item_ok (F : list N) (it : item) : Prop :=
    match it with
    | ILeaf l => leaf_ok F l
    | IObj c id body => Forall (leaf_ok F) body /\ In id F /\ size_item it < 2147483648
    end.

  Lemma to_signed64_small v : v < 9223372036854775808 -> to_signed64 v = Z.of_N v.
  Proof. intro H. unfold to_signed64. destruct (N.ltb_spec v 9223372036854775808); [reflexivity|lia]. Qed.

  Lemma r_listener_flag_enc c (cont : prog A) pos tail :
    run caf (r_listener_flag c cont) (Good pos (listener_flag c ++ tail)) =
    run caf cont (Good (pos + Z.of_N (nlen (listener_flag c))) tail).
  Proof.
    unfold r_listener_flag, listener_flag. destruct (is_listener c).
    - rewrite run_record; [|vm_compute; reflexivity|reflexivity].
      change (nlen (rec_bytes T_Byte [0])) with 5. cbv iota. f_equal. f_equal. lia.
    - cbn [app]. f_equal. f_equal. unfold nlen; cbn. lia.
  Qed.

  Lemma r_item_enc F st it (cont : rst -> pitem -> prog A) pos tail :
    item_ok F it -> r_num st = nlen F -> nlen F < 2147483648 ->
    run caf (r_item st (shape_item it) cont) (Good pos (enc_item F it ++ tail)) =
    run caf (cont (reg_ids F (regs_item it) st) (pend_item F it))
        (Good (pos + Z.of_N (nlen (enc_item F it))) tail).
  Proof.
    intros Hok Hn HF. destruct it as [l|c id body]; cbn [r_item shape_item enc_item regs_item pend_item].
    - now rewrite r_leaf_enc.
    - destruct Hok as (Hb & Hid & Hsz).
      pose proof (idx_in_range F id Hid) as R.
      pose proof (nlen_enc_item F (IObj c id body)) as Hlen. cbn [enc_item] in Hlen.
      rewrite Hlen.
      cbn [size_item] in Hsz.
      assert (Hbody : nlen (enc_body F c body) < 2147483648) by (rewrite nlen_enc_body; lia).
      rewrite <- !app_assoc.
      rewrite run_ReadTag by (vm_compute; reflexivity).
      rewrite run_Read by apply nlen_le_encode.
      rewrite r_str_enc by apply class_name_len.
      rewrite lookup_class_name. rewrite N.eqb_refl. cbn [negb].
      rewrite run_record; [|vm_compute; reflexivity|apply nlen_le_encode].
      rewrite run_Tell.
      change (enc_body F c body ++ tail) with ((listener_flag c ++ enc_leaves F body) ++ tail).
      rewrite <- app_assoc.
      rewrite r_listener_flag_enc.
      rewrite r_leaves_enc by assumption.
      rewrite run_Tell.
      rewrite le_decode_encode by (change (256 ^ N.of_nat 8) with 18446744073709551616; lia).
      rewrite to_signed64_small by lia.
      match goal with
      | |- context [(?a + Z.of_N (nlen (listener_flag c)) + Z.of_N (nlen (enc_leaves F body)) - ?a)%Z] =>
          replace (a + Z.of_N (nlen (listener_flag c)) + Z.of_N (nlen (enc_leaves F body)) - a)%Z
            with (Z.of_N (nlen (enc_body F c body))) by (unfold enc_body; rewrite nlen_app; lia)
      end.
      rewrite !Z.ltb_irrefl.
      rewrite le_decode_encode by (change (256 ^ N.of_nat 4) with 4294967296; lia).
      rewrite add_at_reg; [|assumption|now rewrite reg_ids_num].
      rewrite <- reg_ids_app.
      f_equal. f_equal. cbn [size_item]. rewrite nlen_w_str, nlen_listener_flag, nlen_enc_leaves. lia.
  Qed.

  Lemma r_items_enc F its : forall st (cont : rst -> list pitem -> prog A) pos tail,
    Forall (item_ok F) its -> r_num st = nlen F -> nlen F < 2147483648 ->
    run caf (r_items (shape its) st cont) (Good pos (enc_items F its ++ tail)) =
    run caf (cont (reg_ids F (regs_items its) st) (map (pend_item F) its))
        (Good (pos + Z.of_N (nlen (enc_items F its))) tail).
  Proof.
    unfold shape, regs_items.
    induction its as [|it r IH]; intros st cont pos tail Hok Hn HF; cbn [map r_items enc_items flat_map].
    - cbn [app reg_ids fold_left]. f_equal. f_equal. unfold nlen; cbn. lia.
    - inversion Hok as [|? ? Hl Hr]; subst. rewrite <- app_assoc.
      rewrite r_item_enc by assumption.
      rewrite IH; [|assumption|now rewrite reg_ids_num|assumption].
      rewrite reg_ids_app. f_equal. f_equal. rewrite nlen_app. lia.
  Qed.
End Reader.
