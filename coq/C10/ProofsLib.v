(* C10/ProofsLib.v - little-endian encoding, [take], and how [run] steps over a record. *)
From Coq Require Import ZArith NArith List Bool Lia.
From Morfuse Require Import Base.Arr C10.Model.
Import ListNotations.
Local Open Scope N_scope.

Lemma nlen_app {A} (a b : list A) : nlen (a ++ b) = nlen a + nlen b.
Proof. unfold nlen. rewrite app_length. lia. Qed.

Lemma nlen_cons {A} (x : A) (l : list A) : nlen (x :: l) = 1 + nlen l.
Proof. unfold nlen. cbn [length]. lia. Qed.

Lemma nlen_nil {A} : nlen (@nil A) = 0.
Proof. reflexivity. Qed.

Lemma le_encode_length w v : length (le_encode w v) = w.
Proof. revert v. induction w as [|w IH]; intro v; cbn [le_encode length]; [reflexivity|]. now rewrite IH. Qed.

Lemma nlen_le_encode w v : nlen (le_encode w v) = N.of_nat w.
Proof. unfold nlen. now rewrite le_encode_length. Qed.

Lemma le_decode_encode w v : v < 256 ^ N.of_nat w -> le_decode (le_encode w v) = v.
Proof.
  revert v. induction w as [|w IH]; intros v Hv.
  - cbn in *. lia.
  - cbn [le_encode le_decode].
    rewrite IH.
    + pose proof (N.div_mod v 256). lia.
    + rewrite Nat2N.inj_succ, N.pow_succ_r' in Hv.
      apply N.div_lt_upper_bound; lia.
Qed.

Lemma le_encode_bytes w v : Forall (fun b => b < 256) (le_encode w v).
Proof.
  revert v. induction w as [|w IH]; intro v; cbn [le_encode]; constructor.
  - apply N.mod_lt. lia.
  - apply IH.
Qed.

(* decoding is injective on byte lists of equal length *)
Lemma le_decode_inj (a b : list N) :
  length a = length b -> Forall (fun x => x < 256) a -> Forall (fun x => x < 256) b ->
  le_decode a = le_decode b -> a = b.
Proof.
  revert b. induction a as [|x a IH]; intros [|y b] Hl Ha Hb He; cbn [le_decode length] in *; try discriminate; [reflexivity|].
  inversion Ha as [|? ? Hx Ha']; subst. inversion Hb as [|? ? Hy Hb']; subst.
  assert (x = y /\ le_decode a = le_decode b) as [-> E].
  { remember (le_decode a) as da. remember (le_decode b) as db. clear - Hx Hy He. lia. }
  f_equal. apply IH; auto.
Qed.

(* ------------------------------------------------------------------------- take *)

Lemma take_app (a b : list N) : take (a ++ b) (nlen a) = Some (a, b).
Proof.
  induction a as [|x a IH].
  - cbn [app]. unfold nlen; cbn [length N.of_nat]. destruct b; reflexivity.
  - cbn [app take]. rewrite nlen_cons.
    destruct (N.eqb_spec (1 + nlen a) 0) as [E|_]; [lia|].
    replace (1 + nlen a - 1) with (nlen a) by lia. now rewrite IH.
Qed.

Lemma take_some l k a b : take l k = Some (a, b) -> l = a ++ b /\ nlen a = k.
Proof.
  revert k a b. induction l as [|x l IH]; intros k a b H; cbn [take] in H.
  - destruct (N.eqb_spec k 0); inversion H; subst. split; reflexivity.
  - destruct (N.eqb_spec k 0) as [->|Hk].
    + inversion H; subst. split; reflexivity.
    + destruct (take l (k - 1)) as [[a' b']|] eqn:E; [|discriminate].
      inversion H; subst. destruct (IH _ _ _ E) as [-> Hn]. split; [reflexivity|].
      rewrite nlen_cons. lia.
Qed.

Lemma take_none l k : take l k = None <-> nlen l < k.
Proof.
  revert k. induction l as [|x l IH]; intro k; cbn [take].
  - unfold nlen; cbn. destruct (N.eqb_spec k 0); split; intro H; try discriminate; try reflexivity; try lia; exfalso; lia.
  - rewrite nlen_cons. destruct (N.eqb_spec k 0) as [->|Hk].
    + split; intro H; [discriminate|lia].
    + destruct (take l (k - 1)) as [[a b]|] eqn:E.
      * split; intro H; [discriminate|].
        assert (take l (k - 1) = None) as E' by (apply IH; lia). congruence.
      * split; intro H; [|reflexivity]. apply IH in E. lia.
Qed.

Lemma list_eqb_refl l : list_eqb l l = true.
Proof. induction l as [|x l IH]; cbn; [reflexivity|]. now rewrite N.eqb_refl, IH. Qed.

Lemma list_eqb_eq a b : list_eqb a b = true <-> a = b.
Proof.
  revert b. induction a as [|x a IH]; intros [|y b]; cbn; split; intro H; try discriminate; try reflexivity.
  - apply andb_true_iff in H as [H1 H2]. apply N.eqb_eq in H1. apply IH in H2. congruence.
  - inversion H; subst. now rewrite N.eqb_refl, list_eqb_refl.
Qed.

(* --------------------------------------------------------------- run over records *)

Section Run.
  Context {A : Type}.
  Variable caf : bool.

  Lemma run_ReadTag t (cont : prog A) pos rest :
    t < 256 ^ 4 ->
    run caf (ReadTag t cont) (Good pos (le_encode 4 t ++ rest)) = run caf cont (Good (pos + 4) rest).
  Proof.
    intro Ht. cbn [run].
    change 4 with (nlen (le_encode 4 t)) at 1. rewrite take_app.
    rewrite le_decode_encode by exact Ht. now rewrite N.eqb_refl.
  Qed.

  Lemma run_Read c k (cont : rd -> prog A) pos a rest :
    nlen a = k ->
    run caf (Read c k cont) (Good pos (a ++ rest)) = run caf (cont (Bytes a)) (Good (pos + Z.of_N k) rest).
  Proof. intros <-. cbn [run]. now rewrite take_app. Qed.

  Lemma run_ReadMagic m (cont : prog A) pos rest :
    run caf (ReadMagic m cont) (Good pos (m ++ rest)) = run caf cont (Good (pos + Z.of_N (nlen m)) rest).
  Proof. cbn [run]. rewrite take_app. now rewrite list_eqb_refl. Qed.

  Lemma run_Tell (cont : Z -> prog A) pos rest :
    run caf (Tell cont) (Good pos rest) = run caf (cont pos) (Good pos rest).
  Proof. reflexivity. Qed.

  (* a whole record: tag + payload *)
  Lemma run_record c t k (cont : rd -> prog A) pos payload rest :
    t < 256 ^ 4 -> nlen payload = k ->
    run caf (ReadTag t (Read c k cont)) (Good pos (rec_bytes t payload ++ rest)) =
    run caf (cont (Bytes payload)) (Good (pos + 4 + Z.of_N k) rest).
  Proof.
    intros Ht Hk. unfold rec_bytes. rewrite <- app_assoc.
    rewrite run_ReadTag by exact Ht. now rewrite run_Read by exact Hk.
  Qed.
End Run.
