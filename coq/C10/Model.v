(* C10/Model.v - executable model of mfuse::Archiver (src/Script/Archiver.cpp) and of the
   string codec mfuse::Archive(Archiver&, str&) (src/Common/str.cpp), x86-64 widths.

   WRITER, byte exact: CreateWrite (raw header bytes, tagged UInt16 engine version 1,
   tagged UInt16 program version, archive name as a string, tagged UInt32 class count
   patched by Close with the final size of classpointerList), every record = 4-byte
   little-endian tag (enum dataType_e order) + payload, strings = Size record (8 bytes)
   + Raw record when the length is not 0, ArchiveObjectPointer / ArchiveSafePointer =
   index of the target in classpointerList (AddUniqueObject: first occurrence, 1-based) or
   ARCHIVE_NULL_POINTER, ArchiveObjectPosition = Position record with that index,
   ArchiveObject = tag Object + 8-byte size of the body + class name string + tagged
   UInt32 index (the object is entered in classpointerList BEFORE its body is written)
   + body.

   READER, as a program over the stream (type prog): every ReadDataInternal call is one
   node (Read / ReadTag = CheckType or ReadType+compare / ReadMagic = header memcmp),
   tellg is Tell.  The reader makes the calls of the same item list (only the shape of
   the items is used: kinds, Raw lengths, object classes, identities of the host
   objects).  classpointerList = count + total map index -> host object, fix-ups are
   pending indices resolved by Close.  The two decisions that were repaired in /repo
   are parameters: caf (check_after_read: ReadDataInternal throws when gcount != size)
   and vor (the version test uses ||).  With caf = false a short read leaves the
   destination unwritten (Garbage), the stream failed; the next CheckRead throws; using
   a Garbage value in a comparison / as an index / delivering it is Undefined.

   Abstracted: memory allocation always succeeds (str::resize, Container::Resize);
   a pointer index that is 0 or beyond the current class count is Undefined when it is
   read (the fix-up in Close would index outside classpointerList unless a later
   AddObjectAt grew it); AddObjectAt(0) is Undefined; a Listener flag byte other than 0
   (notify/wait/var/end lists) is not modelled (Undefined); objects are flat (a body
   is a list of leaves: no object inside a body).  Strings are read into fresh
   (empty) destinations, so "length 0 leaves the destination untouched" reads "". *)
From Coq Require Import ZArith NArith List Bool.
From Morfuse Require Import Base.Arr.
Import ListNotations.
Local Open Scope N_scope.

(* ------------------------------------------------------------------ bytes, numbers *)

Fixpoint le_encode (w : nat) (v : N) : list N :=
  match w with
  | O => []
  | S w' => (v mod 256) :: le_encode w' (v / 256)
  end.

Fixpoint le_decode (l : list N) : N :=
  match l with
  | [] => 0
  | b :: r => b + 256 * le_decode r
  end.

Definition nlen {A} (l : list A) : N := N.of_nat (length l).

(* enum dataType_e *)
Definition T_Byte : N := 1.
Definition T_Char : N := 2.
Definition T_Short : N := 3.
Definition T_UShort : N := 4.
Definition T_Integer : N := 5.
Definition T_UInteger : N := 6.
Definition T_Long : N := 7.
Definition T_ULong : N := 8.
Definition T_Float : N := 9.
Definition T_Double : N := 10.
Definition T_Boolean : N := 11.
Definition T_Raw : N := 12.
Definition T_Object : N := 13.
Definition T_ObjectPointer : N := 14.
Definition T_SafePointer : N := 15.
Definition T_Position : N := 16.
Definition T_Size : N := 17.

Definition ARCHIVE_VERSION : N := 1.
Definition NULLP : N := 4294312974.     (* ~654321u *)

Inductive pkind :=
| KInt8 | KInt16 | KInt32 | KInt64 | KUInt8 | KUInt16 | KUInt32 | KUInt64
| KChar | KSize | KByte | KFloat | KDouble | KBoolean | KPosition.

Definition ptag (k : pkind) : N :=
  match k with
  | KInt8 => T_Char | KInt16 => T_Short | KInt32 => T_Integer | KInt64 => T_Long
  | KUInt8 => T_Byte | KUInt16 => T_UShort | KUInt32 => T_UInteger | KUInt64 => T_ULong
  | KChar => T_Char | KSize => T_Size | KByte => T_Byte | KFloat => T_Float
  | KDouble => T_Double | KBoolean => T_Boolean | KPosition => T_Position
  end.

Definition pwidth (k : pkind) : nat :=
  match k with
  | KInt8 | KUInt8 | KChar | KByte | KBoolean => 1
  | KInt16 | KUInt16 => 2
  | KInt32 | KUInt32 | KFloat | KPosition => 4
  | KInt64 | KUInt64 | KSize | KDouble => 8
  end%nat.

(* ------------------------------------------------------------------------- items *)

(* values are unsigned bit patterns (signed integers, floats: their bytes) *)
Inductive leaf :=
| LPrim (k : pkind) (v : N)
| LRaw (bs : list N)
| LStr (bs : list N)
| LPtr (safe : bool) (target : option N)
| LPos (id : N).

Inductive item :=
| ILeaf (l : leaf)
| IObj (c : N) (id : N) (body : list leaf).

Record hdr := mkHdr { h_magic : list N; h_version : N; h_name : list N }.

(* host classes of the harness: 0 VObjA, 1 VObjB, 2 VLis (a Listener), other: VObj *)
Definition class_name (c : N) : list N :=
  match c with
  | 0 => [86; 79; 98; 106; 65]
  | 1 => [86; 79; 98; 106; 66]
  | 2 => [86; 76; 105; 115]
  | _ => [86; 79; 98; 106]
  end.

Definition norm_class (c : N) : N := if c <? 3 then c else 3.
Definition is_listener (c : N) : bool := c =? 2.

(* ------------------------------------------------------------------------ writer *)

Fixpoint index_from (i : N) (id : N) (l : list N) : option N :=
  match l with
  | [] => None
  | x :: r => if x =? id then Some i else index_from (i + 1) id r
  end.

(* Container::AddUniqueObject *)
Definition add_unique (cpl : list N) (id : N) : list N * N :=
  match index_from 1 id cpl with
  | Some i => (cpl, i)
  | None => (cpl ++ [id], nlen cpl + 1)
  end.

Definition rec_bytes (tag : N) (payload : list N) : list N := le_encode 4 tag ++ payload.

Definition w_str (bs : list N) : list N :=
  rec_bytes T_Size (le_encode 8 (nlen bs)) ++
  match bs with [] => [] | _ => rec_bytes T_Raw bs end.

Definition write_leaf (cpl : list N) (l : leaf) : list N * list N :=
  match l with
  | LPrim k v => (cpl, rec_bytes (ptag k) (le_encode (pwidth k) v))
  | LRaw bs => (cpl, rec_bytes T_Raw bs)
  | LStr bs => (cpl, w_str bs)
  | LPtr safe None =>
      (cpl, rec_bytes (if safe then T_SafePointer else T_ObjectPointer) (le_encode 4 NULLP))
  | LPtr safe (Some t) =>
      let (cpl', i) := add_unique cpl t in
      (cpl', rec_bytes (if safe then T_SafePointer else T_ObjectPointer) (le_encode 4 i))
  | LPos id =>
      let (cpl', i) := add_unique cpl id in
      (cpl', rec_bytes T_Position (le_encode 4 i))
  end.

Fixpoint write_leaves (cpl : list N) (ls : list leaf) : list N * list N :=
  match ls with
  | [] => (cpl, [])
  | l :: r =>
      let (cpl1, b1) := write_leaf cpl l in
      let (cpl2, b2) := write_leaves cpl1 r in
      (cpl2, b1 ++ b2)
  end.

(* Listener::Archive of a listener without lists: one UInt8 flag = 0 *)
Definition listener_flag (c : N) : list N :=
  if is_listener c then rec_bytes T_Byte [0] else [].

Definition write_item (cpl : list N) (it : item) : list N * list N :=
  match it with
  | ILeaf l => write_leaf cpl l
  | IObj c id body =>
      let (cpl1, i) := add_unique cpl id in
      let (cpl2, bb) := write_leaves cpl1 body in
      let bb' := listener_flag c ++ bb in
      (cpl2, le_encode 4 T_Object ++ le_encode 8 (nlen bb') ++ w_str (class_name c) ++
             rec_bytes T_UInteger (le_encode 4 i) ++ bb')
  end.

Fixpoint write_items (cpl : list N) (its : list item) : list N * list N :=
  match its with
  | [] => (cpl, [])
  | it :: r =>
      let (cpl1, b1) := write_item cpl it in
      let (cpl2, b2) := write_items cpl1 r in
      (cpl2, b1 ++ b2)
  end.

Definition write_header (h : hdr) (count : N) : list N :=
  h_magic h ++ rec_bytes T_UShort (le_encode 2 ARCHIVE_VERSION) ++
  rec_bytes T_UShort (le_encode 2 (h_version h)) ++ w_str (h_name h) ++
  rec_bytes T_UInteger (le_encode 4 count).

Definition write (h : hdr) (its : list item) : list N :=
  let (cpl, bb) := write_items [] its in
  write_header h (nlen cpl) ++ bb.

(* ------------------------------------------------------------- reader: the programs *)

Inductive err :=
| InvalidArchiveHeader
| WrongVersion
| ReadStreamFail
| TypeError (expected found : N)
| InvalidClass
| ObjectClassError
| ReadPastEndObject
| NotReadEntireDataObject.

(* what a payload read is for (used by the layout of C11 only) *)
Inductive pclass := PVer | PSize | PName | POther.

Inductive rd := Bytes (l : list N) | Garbage.

Inductive prog (A : Type) :=
| Ret (a : A)
| Fail (e : err)
| Undefined
| Tell (cont : Z -> prog A)                       (* tellg *)
| Read (c : pclass) (k : N) (cont : rd -> prog A) (* ReadDataInternal(k bytes) *)
| ReadTag (t : N) (cont : prog A)                 (* ReadType + comparison -> TypeError *)
| ReadMagic (m : list N) (cont : prog A).         (* header read + memcmp *)
Arguments Ret {A}. Arguments Fail {A}. Arguments Undefined {A}. Arguments Tell {A}.
Arguments Read {A}. Arguments ReadTag {A}. Arguments ReadMagic {A}.

Inductive stream := Good (pos : Z) (rest : list N) | Failed.

Inductive res (A : Type) :=
| Ok (a : A) (s : stream)
| Err (e : err)
| Undef.
Arguments Ok {A}. Arguments Err {A}. Arguments Undef {A}.

(* the first k elements and the rest; None when there are fewer than k *)
Fixpoint take (l : list N) (k : N) : option (list N * list N) :=
  match l with
  | [] => if k =? 0 then Some ([], []) else None
  | x :: r =>
      if k =? 0 then Some ([], l)
      else match take r (k - 1) with
           | Some (a, b) => Some (x :: a, b)
           | None => None
           end
  end.

Fixpoint list_eqb (a b : list N) : bool :=
  match a, b with
  | [], [] => true
  | x :: a', y :: b' => (x =? y) && list_eqb a' b'
  | _, _ => false
  end.

Fixpoint run {A} (caf : bool) (p : prog A) (s : stream) : res A :=
  match p with
  | Ret a => Ok a s
  | Fail e => Err e
  | Undefined => Undef
  | Tell cont => run caf (cont (match s with Good pos _ => pos | Failed => (-1)%Z end)) s
  | Read _ k cont =>
      match s with
      | Failed => Err ReadStreamFail                          (* CheckRead: !good() *)
      | Good pos rest =>
          match take rest k with
          | Some (a, b) => run caf (cont (Bytes a)) (Good (pos + Z.of_N k) b)
          | None => if caf then Err ReadStreamFail else run caf (cont Garbage) Failed
          end
      end
  | ReadTag t cont =>
      match s with
      | Failed => Err ReadStreamFail
      | Good pos rest =>
          match take rest 4 with
          | Some (a, b) =>
              let v := le_decode a in
              if v =? t then run caf cont (Good (pos + 4) b) else Err (TypeError t v)
          | None => if caf then Err ReadStreamFail else Undef   (* compares garbage *)
          end
      end
  | ReadMagic m cont =>
      match s with
      | Failed => Err ReadStreamFail
      | Good pos rest =>
          match take rest (nlen m) with
          | Some (a, b) =>
              if list_eqb a m then run caf cont (Good (pos + Z.of_N (nlen m)) b)
              else Err InvalidArchiveHeader
          | None => if caf then Err ReadStreamFail else Undef
          end
      end
  end.

(* ------------------------------------------------------------- reader: the archiver *)

(* what has been read for a leaf before Close *)
Inductive pleaf :=
| PL (l : leaf)
| PPending (safe : bool) (idx : N)      (* an entry of fixupList *)
| PGarbage.

Inductive pitem :=
| PLeaf (l : pleaf)
| PObj (c id : N) (body : list pleaf).

Record rst := mkRst { r_num : N; r_map : arr (option N) }.

(* Container::AddObjectAt(index, obj) *)
Definition add_at (st : rst) (index : N) (id : N) : option rst :=
  if index =? 0 then None
  else Some (mkRst (if r_num st <? index then index else r_num st) (set (r_map st) index (Some id))).

(* mfuse::Archive(arc, str&) into an empty destination; the Raw payload has class c *)
Definition r_str {A} (c : pclass) (cont : rd -> prog A) : prog A :=
  ReadTag T_Size (Read POther 8 (fun d =>
    match d with
    | Garbage => Undefined                                   (* if (length) on garbage *)
    | Bytes l =>
        let len := le_decode l in
        if len =? 0 then cont (Bytes [])
        else ReadTag T_Raw (Read c len cont)
    end)).

Definition r_leaf {A} (st : rst) (sh : leaf) (cont : rst -> pleaf -> prog A) : prog A :=
  match sh with
  | LPrim k _ =>
      ReadTag (ptag k) (Read POther (N.of_nat (pwidth k)) (fun d =>
        cont st (match d with Bytes l => PL (LPrim k (le_decode l)) | Garbage => PGarbage end)))
  | LRaw bs =>
      ReadTag T_Raw (Read POther (nlen bs) (fun d =>
        cont st (match d with Bytes l => PL (LRaw l) | Garbage => PGarbage end)))
  | LStr _ =>
      r_str POther (fun d =>
        cont st (match d with Bytes l => PL (LStr l) | Garbage => PGarbage end))
  | LPtr safe _ =>
      ReadTag (if safe then T_SafePointer else T_ObjectPointer) (Read POther 4 (fun d =>
        match d with
        | Garbage => Undefined                               (* index == NULL on garbage *)
        | Bytes l =>
            let idx := le_decode l in
            if idx =? NULLP then cont st (PL (LPtr safe None))
            else if (idx =? 0) || (r_num st <? idx) then Undefined
            else cont st (PPending safe idx)
        end))
  | LPos id =>
      ReadTag T_Position (Read POther 4 (fun d =>
        match d with
        | Garbage => Undefined                               (* AddObjectAt(garbage) *)
        | Bytes l =>
            match add_at st (le_decode l) id with
            | None => Undefined
            | Some st' => cont st' (PL (LPos id))
            end
        end))
  end.

Fixpoint r_leaves {A} (shs : list leaf) (st : rst) (cont : rst -> list pleaf -> prog A) : prog A :=
  match shs with
  | [] => cont st []
  | sh :: r => r_leaf st sh (fun st1 v => r_leaves r st1 (fun st2 vs => cont st2 (v :: vs)))
  end.

Definition upper (b : N) : N := if (97 <=? b) && (b <=? 122) then b - 32 else b.

Fixpoint until_nul (l : list N) : list N :=
  match l with
  | [] => []
  | b :: r => if b =? 0 then [] else b :: until_nul r
  end.

Definition name_matches (nm : list N) (c : N) : bool :=
  list_eqb (map upper (until_nul nm)) (map upper (class_name c)).

(* ClassDef::GetClass(classname.c_str()) restricted to the host classes of the harness *)
Definition lookup_class (nm : list N) : option N :=
  if name_matches nm 0 then Some 0
  else if name_matches nm 1 then Some 1
  else if name_matches nm 2 then Some 2
  else if name_matches nm 3 then Some 3
  else None.

Definition to_signed64 (v : N) : Z :=
  if v <? 9223372036854775808 then Z.of_N v else (Z.of_N v - 18446744073709551616)%Z.

(* Listener::Archive reading: the flag byte *)
Definition r_listener_flag {A} (c : N) (cont : prog A) : prog A :=
  if is_listener c then
    ReadTag T_Byte (Read POther 1 (fun d =>
      match d with
      | Bytes [0] => cont
      | _ => Undefined
      end))
  else cont.

Definition r_item {A} (st : rst) (sh : item) (cont : rst -> pitem -> prog A) : prog A :=
  match sh with
  | ILeaf l => r_leaf st l (fun st' v => cont st' (PLeaf v))
  | IObj c id body =>
      ReadTag T_Object (Read PSize 8 (fun dsz =>
        r_str PName (fun dname =>
          match dname with
          | Garbage => Undefined
          | Bytes nm =>
              match lookup_class nm with
              | None => Fail InvalidClass
              | Some c' =>
                  if negb (c' =? norm_class c) then Fail ObjectClassError
                  else
                    ReadTag T_UInteger (Read POther 4 (fun didx =>
                      Tell (fun p0 =>
                        r_listener_flag c (r_leaves body st (fun st1 vs =>
                          Tell (fun p1 =>
                            match dsz with
                            | Garbage => Undefined
                            | Bytes lsz =>
                                let size := to_signed64 (le_decode lsz) in
                                if (size <? p1 - p0)%Z then Fail ReadPastEndObject
                                else if (p1 - p0 <? size)%Z then Fail NotReadEntireDataObject
                                else
                                  match didx with
                                  | Garbage => Undefined
                                  | Bytes li =>
                                      match add_at st1 (le_decode li) id with
                                      | None => Undefined
                                      | Some st2 => cont st2 (PObj c id vs)
                                      end
                                  end
                            end))))))
              end
          end)))
  end.

Fixpoint r_items {A} (shs : list item) (st : rst) (cont : rst -> list pitem -> prog A) : prog A :=
  match shs with
  | [] => cont st []
  | sh :: r => r_item st sh (fun st1 v => r_items r st1 (fun st2 vs => cont st2 (v :: vs)))
  end.

(* CreateRead followed by the calls of the item list *)
Definition reader (vor : bool) (h : hdr) (shs : list item) : prog (rst * list pitem) :=
  ReadMagic (h_magic h)
    (ReadTag T_UShort (Read PVer 2 (fun dm =>
     ReadTag T_UShort (Read PVer 2 (fun dv =>
       match dm, dv with
       | Bytes lm, Bytes lv =>
           let m_bad := negb (le_decode lm =? ARCHIVE_VERSION) in
           let v_bad := negb (le_decode lv =? h_version h) in
           if (if vor then m_bad || v_bad else m_bad && v_bad) then Fail WrongVersion
           else
             r_str POther (fun dname =>
               match dname with
               | Garbage => Undefined
               | Bytes _ =>
                   ReadTag T_UInteger (Read POther 4 (fun dn =>
                     match dn with
                     | Garbage => Undefined                    (* SetNumObjects(garbage) *)
                     | Bytes ln =>
                         r_items shs (mkRst (le_decode ln) (aempty None)) (fun st vs => Ret (st, vs))
                     end))
               end)
       | _, _ => Undefined
       end))))).

(* ------------------------------------------------------------------------ Close *)

Definition close_leaf (st : rst) (p : pleaf) : option leaf :=
  match p with
  | PL l => Some l
  | PPending safe idx =>
      if (idx =? 0) || (r_num st <? idx) then None          (* ObjectAt outside the list *)
      else Some (LPtr safe (get (r_map st) idx))
  | PGarbage => None
  end.

Fixpoint close_leaves (st : rst) (ps : list pleaf) : option (list leaf) :=
  match ps with
  | [] => Some []
  | p :: r =>
      match close_leaf st p, close_leaves st r with
      | Some l, Some ls => Some (l :: ls)
      | _, _ => None
      end
  end.

Definition close_item (st : rst) (p : pitem) : option item :=
  match p with
  | PLeaf l => match close_leaf st l with Some l' => Some (ILeaf l') | None => None end
  | PObj c id body => match close_leaves st body with Some b => Some (IObj c id b) | None => None end
  end.

Fixpoint close_items (st : rst) (ps : list pitem) : option (list item) :=
  match ps with
  | [] => Some []
  | p :: r =>
      match close_item st p, close_items st r with
      | Some l, Some ls => Some (l :: ls)
      | _, _ => None
      end
  end.

Inductive outcome :=
| OOk (its : list item)
| OErr (e : err)
| OUndef.

(* reading an archive with the calls of shs; h is what the reader expects *)
Definition read (caf vor : bool) (h : hdr) (shs : list item) (bytes : list N) : outcome :=
  match run caf (reader vor h shs) (Good 0 bytes) with
  | Ok (st, ps) _ =>
      match close_items st ps with
      | Some its => OOk its
      | None => OUndef
      end
  | Err e => OErr e
  | Undef => OUndef
  end.

(* the shape of an item list: what the reading host program knows (kinds, Raw lengths,
   classes and identities of its objects); all values erased *)
Definition shape_leaf (l : leaf) : leaf :=
  match l with
  | LPrim k _ => LPrim k 0
  | LRaw bs => LRaw (repeat 0 (length bs))
  | LStr _ => LStr []
  | LPtr s _ => LPtr s None
  | LPos id => LPos id
  end.

Definition shape_item (it : item) : item :=
  match it with
  | ILeaf l => ILeaf (shape_leaf l)
  | IObj c id body => IObj c id (map shape_leaf body)
  end.

Definition shape (its : list item) : list item := map shape_item its.

(* the differential run of C10: the bytes written and what the current code reads back *)
Definition run_case (h : hdr) (its : list item) : list N * outcome :=
  let bytes := write h its in (bytes, read true true h (shape its) bytes).
