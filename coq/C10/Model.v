(* C10/Model.v - executable model of mfuse::Archiver (src/Script/Archiver.cpp) and of the
   string codec mfuse::Archive(Archiver&, str&) (src/Common/str.cpp), x86-64 widths.

   WRITER, byte exact: CreateWrite (raw header bytes, tagged UInt16 engine version 1,
   tagged UInt16 program version, archive name as a string, tagged UInt32 class count
   patched by Close with the final size of classpointerList), every record = 4-byte
   little-endian tag (enum dataType_e order) + payload, strings = Size record (8 bytes)
   + Raw record when the length is not 0, ArchiveObjectPointer / ArchiveSafePointer =
   index of the target in classpointerList (AddUniqueObject: first occurrence, 1-based) or
   ARCHIVE_NULL_POINTER, ArchiveObjectPosition = Position record with that index,
   ArchiveObject = tag Object + 8-byte size of the body + class name string + tagged
   UInt32 index (the object is entered in classpointerList BEFORE its body is written)
   + body.

   READER, as a program over the stream (type prog): every ReadDataInternal call is one
   node (Read / ReadTag = CheckType or ReadType+compare / ReadMagic = header memcmp),
   tellg is Tell.  The reader makes the calls of the same item list (only the shape of
   the items is used: kinds, Raw lengths, object classes, identities of the host
   objects).  classpointerList = count + total map index -> host object, fix-ups are
   pending indices resolved by Close.  The two decisions that were repaired in /repo
   are parameters: caf (check_after_read: ReadDataInternal throws when gcount != size)
   and vor (the version test uses ||).  With caf = false a short read leaves the
   destination unwritten (Garbage), the stream failed; the next CheckRead throws; using
   a Garbage value in a comparison / as an index / delivering it is Undefined.

   Abstracted: memory allocation always succeeds (str::resize, Container::Resize);
   a pointer index that is 0 or beyond the current class count is Undefined when it is
   read (the fix-up in Close would index outside classpointerList unless a later
   AddObjectAt grew it); AddObjectAt(0) is Undefined; the sections Listener::Archive writes in
   front of a listener's body are named by the item list as leaves (see is_listener); objects are flat (a body
   is a list of leaves: no object inside a body).  Strings are read into fresh
   (empty) destinations, so "length 0 leaves the destination untouched" reads "".

   SCRIPT VARIABLES (ScriptVariable::Archive / ArchiveInternal, ScriptArrayHolder,
   ScriptConstArrayHolder, ScriptPointer in src/Script/ScriptVariable.cpp,
   StringDictionary::ArchiveString, con::set::Archive, con::Archive(Container)): a leaf
   LVar is one ScriptVariable in archive order: the flat list of its tokens = the variable
   itself followed (for a new array / constant array) by the variables it contains, keys
   and values alternating, depth first.  Every variable enters itself in classpointerList
   (ArchiveObjectPosition(this)), writes its type byte and then: nothing | string | Int64
   | Float | Char | dictionary string (flag byte + string) | weak / plain pointer |
   holder: Boolean newRef = !ObjectPositionExists(holder); new: position of the holder,
   UInt32 refCount, (array) UInt32 tableLength, threshold, count, UInt16 tableLengthIndex,
   then 2*count variables; (constant array) UInt32 size, then size variables; (pointer)
   UInt32 number + that many plain pointers; shared: plain pointer to the holder |
   Vector: ArchiveElements writes the 12 bytes three times.
   The READER of a variable is driven by the bytes (type byte, flags, counts), not by the
   host: the host only supplies the identity labels of the objects the reader creates
   (in order) - this is the shape of an LVar.  Abstracted: the hash table rebuilt by
   con::set::Archive (an array is the ordered list of its entries; tableLength 0 with
   entries is Undefined: hash % 0), allocation, a type byte above 13 and a newRef byte
   other than 0/1 are Undefined; with caf = false a short read inside a variable is
   Undefined at once. *)
From Coq Require Import ZArith NArith List Bool.
From Morfuse Require Import Base.Arr.
Import ListNotations.
Local Open Scope N_scope.

(* ------------------------------------------------------------------ bytes, numbers *)

Fixpoint le_encode (w : nat) (v : N) : list N :=
  match w with
  | O => []
  | S w' => (v mod 256) :: le_encode w' (v / 256)
  end.

Fixpoint le_decode (l : list N) : N :=
  match l with
  | [] => 0
  | b :: r => b + 256 * le_decode r
  end.

Definition nlen {A} (l : list A) : N := N.of_nat (length l).

(* enum dataType_e *)
Definition T_Byte : N := 1.
Definition T_Char : N := 2.
Definition T_Short : N := 3.
Definition T_UShort : N := 4.
Definition T_Integer : N := 5.
Definition T_UInteger : N := 6.
Definition T_Long : N := 7.
Definition T_ULong : N := 8.
Definition T_Float : N := 9.
Definition T_Double : N := 10.
Definition T_Boolean : N := 11.
Definition T_Raw : N := 12.
Definition T_Object : N := 13.
Definition T_ObjectPointer : N := 14.
Definition T_SafePointer : N := 15.
Definition T_Position : N := 16.
Definition T_Size : N := 17.

Definition ARCHIVE_VERSION : N := 1.
Definition NULLP : N := 4294312974.     (* ~654321u *)

Inductive pkind :=
| KInt8 | KInt16 | KInt32 | KInt64 | KUInt8 | KUInt16 | KUInt32 | KUInt64
| KChar | KSize | KByte | KFloat | KDouble | KBoolean | KPosition.

Definition ptag (k : pkind) : N :=
  match k with
  | KInt8 => T_Char | KInt16 => T_Short | KInt32 => T_Integer | KInt64 => T_Long
  | KUInt8 => T_Byte | KUInt16 => T_UShort | KUInt32 => T_UInteger | KUInt64 => T_ULong
  | KChar => T_Char | KSize => T_Size | KByte => T_Byte | KFloat => T_Float
  | KDouble => T_Double | KBoolean => T_Boolean | KPosition => T_Position
  end.

Definition pwidth (k : pkind) : nat :=
  match k with
  | KInt8 | KUInt8 | KChar | KByte | KBoolean => 1
  | KInt16 | KUInt16 => 2
  | KInt32 | KUInt32 | KFloat | KPosition => 4
  | KInt64 | KUInt64 | KSize | KDouble => 8
  end%nat.

(* ------------------------------------------------------------------------- items *)

(* script variables: T = what a pointer is (option N when written, pending index when read) *)
Inductive vprim := VInt | VFloat | VChar.
Inductive vptr := VListener | VRef | VContainer | VSafeContainer.
Inductive vhold := HArray | HConstArray | HPointer.

Inductive tbody (T : Type) :=
| TNone
| TStr (bs : list N)
| TPrim (k : vprim) (v : N)
| TCStr (s : option (list N))                 (* dictionary string; None = const_str 0 *)
| TPtr (k : vptr) (t : T)
| TArrayNew (hid rc tl thr tli count : N)     (* 2 * count variables follow *)
| TConstArrayNew (hid rc size : N)            (* size variables follow *)
| TPointerNew (pid : N) (targets : list T)
| THolderRef (k : vhold) (h : T)              (* a holder that is already in the archive *)
| TVector (bs : list N).
Arguments TNone {T}. Arguments TStr {T}. Arguments TPrim {T}. Arguments TCStr {T}.
Arguments TPtr {T}. Arguments TArrayNew {T}. Arguments TConstArrayNew {T}.
Arguments TPointerNew {T}. Arguments THolderRef {T}. Arguments TVector {T}.

Record tok (T : Type) := mkTok { t_vid : N; t_body : tbody T }.
Arguments mkTok {T}. Arguments t_vid {T}. Arguments t_body {T}.

(* values are unsigned bit patterns (signed integers, floats: their bytes) *)
Inductive leaf :=
| LPrim (k : pkind) (v : N)
| LRaw (bs : list N)
| LStr (bs : list N)
| LPtr (safe : bool) (target : option N)
| LPos (id : N)
| LVar (key : option (option (list N))) (toks : list (tok (option N))).
    (* key: None = ArchiveInternal; Some k = Archive (the variable's key k first) *)

Inductive item :=
| ILeaf (l : leaf)
| IObj (c : N) (id : N) (body : list leaf).

Record hdr := mkHdr { h_magic : list N; h_version : N; h_name : list N }.

(* host classes of the harness: 0 VObjA, 1 VObjB, 2 VLis (a Listener), other: VObj *)
Definition class_name (c : N) : list N :=
  match c with
  | 0 => [86; 79; 98; 106; 65]
  | 1 => [86; 79; 98; 106; 66]
  | 2 => [86; 76; 105; 115]
  | _ => [86; 79; 98; 106]
  end.

Definition norm_class (c : N) : N := if c <? 3 then c else 3.
(* Listener::Archive (section-flag byte, notify / wait-for / variable / end lists) is not modelled
   as such: what it writes in front of a VLis body are ordinary records, and the item list names
   them as the first leaves of that body (u8 flag; per section the set header u32 u32 u32 u16 and per
   entry the dictionary string, the u32 count and the weak pointers, or the keyed variable); the
   generator lays them out (props/C10.py), the harness lets Listener::Archive produce / consume them. *)
Definition is_listener (c : N) : bool := false.

(* ------------------------------------------------------------------------ writer *)

Fixpoint index_from (i : N) (id : N) (l : list N) : option N :=
  match l with
  | [] => None
  | x :: r => if x =? id then Some i else index_from (i + 1) id r
  end.

(* Container::AddUniqueObject *)
Definition add_unique (cpl : list N) (id : N) : list N * N :=
  match index_from 1 id cpl with
  | Some i => (cpl, i)
  | None => (cpl ++ [id], nlen cpl + 1)
  end.

Definition rec_bytes (tag : N) (payload : list N) : list N := le_encode 4 tag ++ payload.

Definition w_str (bs : list N) : list N :=
  rec_bytes T_Size (le_encode 8 (nlen bs)) ++
  match bs with [] => [] | _ => rec_bytes T_Raw bs end.

(* ------------------------------------------------------------- script variables *)

Definition memN (x : N) (l : list N) : bool := existsb (N.eqb x) l.

(* enum variableType_e *)
Definition vtype {T} (b : tbody T) : N :=
  match b with
  | TNone => 0
  | TStr _ => 1
  | TPrim VInt _ => 2
  | TPrim VFloat _ => 3
  | TPrim VChar _ => 4
  | TCStr _ => 5
  | TPtr VListener _ => 6
  | TPtr VRef _ => 7
  | TArrayNew _ _ _ _ _ _ => 8
  | THolderRef HArray _ => 8
  | TConstArrayNew _ _ _ => 9
  | THolderRef HConstArray _ => 9
  | TPtr VContainer _ => 10
  | TPtr VSafeContainer _ => 11
  | TPointerNew _ _ => 12
  | THolderRef HPointer _ => 12
  | TVector _ => 13
  end.

Definition vp_tag (k : vprim) : N :=
  match k with VInt => T_Long | VFloat => T_Float | VChar => T_Char end.
Definition vp_width (k : vprim) : nat :=
  match k with VInt => 8 | VFloat => 4 | VChar => 1 end%nat.
Definition vptr_safe (k : vptr) : bool :=
  match k with VListener | VSafeContainer => true | VRef | VContainer => false end.

Definition ptr_tag_of (safe : bool) : N := if safe then T_SafePointer else T_ObjectPointer.

Definition w_ptr (cpl : list N) (safe : bool) (t : option N) : list N * list N :=
  match t with
  | None => (cpl, rec_bytes (ptr_tag_of safe) (le_encode 4 NULLP))
  | Some x => let (cpl', i) := add_unique cpl x in (cpl', rec_bytes (ptr_tag_of safe) (le_encode 4 i))
  end.

Fixpoint w_ptrs (cpl : list N) (ts : list (option N)) : list N * list N :=
  match ts with
  | [] => (cpl, [])
  | t :: r =>
      let (cpl1, b1) := w_ptr cpl false t in
      let (cpl2, b2) := w_ptrs cpl1 r in
      (cpl2, b1 ++ b2)
  end.

(* StringDictionary::ArchiveString *)
Definition w_cstr (s : option (list N)) : list N :=
  match s with
  | None => rec_bytes T_Byte [0]
  | Some bs => rec_bytes T_Byte [1] ++ w_str bs
  end.

Definition u32 (v : N) : list N := rec_bytes T_UInteger (le_encode 4 v).

(* X::Archive(arc, holder*&): newRef = !arc.ObjectPositionExists(holder) *)
Definition w_holder (cpl : list N) (hid : N) (content : list N -> list N * list N) : list N * list N :=
  if memN hid cpl then
    let (cpl1, b) := w_ptr cpl false (Some hid) in (cpl1, rec_bytes T_Boolean [0] ++ b)
  else
    let (cpl1, j) := add_unique cpl hid in
    let (cpl2, b) := content cpl1 in
    (cpl2, rec_bytes T_Boolean [1] ++ rec_bytes T_Position (le_encode 4 j) ++ b).

(* ScriptVariable::ArchiveInternal without the variables it contains *)
Definition write_tok (cpl : list N) (t : tok (option N)) : list N * list N :=
  let (cpl1, i) := add_unique cpl (t_vid t) in
  let pre := rec_bytes T_Position (le_encode 4 i) ++ rec_bytes T_Byte [vtype (t_body t)] in
  let (cpl2, b) :=
    match t_body t with
    | TNone => (cpl1, [])
    | TStr bs => (cpl1, w_str bs)
    | TPrim k v => (cpl1, rec_bytes (vp_tag k) (le_encode (vp_width k) v))
    | TCStr s => (cpl1, w_cstr s)
    | TPtr k x => w_ptr cpl1 (vptr_safe k) x
    | TArrayNew hid rc tl thr tli count =>
        w_holder cpl1 hid (fun c => (c, u32 rc ++ u32 tl ++ u32 thr ++ u32 count ++
                                        rec_bytes T_UShort (le_encode 2 tli)))
    | TConstArrayNew hid rc size =>
        w_holder cpl1 hid (fun c => (c, u32 rc ++ u32 size))
    | TPointerNew pid ts =>
        w_holder cpl1 pid (fun c => let (c', b) := w_ptrs c ts in (c', u32 (nlen ts) ++ b))
    | THolderRef _ None => (cpl1, [])                 (* a null holder cannot be archived *)
    | THolderRef _ (Some hid) => w_holder cpl1 hid (fun c => (c, []))
    | TVector bs => (cpl1, rec_bytes T_Raw bs ++ rec_bytes T_Raw bs ++ rec_bytes T_Raw bs)
    end in
  (cpl2, pre ++ b).

Fixpoint write_toks (cpl : list N) (ts : list (tok (option N))) : list N * list N :=
  match ts with
  | [] => (cpl, [])
  | t :: r =>
      let (cpl1, b1) := write_tok cpl t in
      let (cpl2, b2) := write_toks cpl1 r in
      (cpl2, b1 ++ b2)
  end.

Definition w_key (key : option (option (list N))) : list N :=
  match key with None => [] | Some k => w_cstr k end.

Definition write_leaf (cpl : list N) (l : leaf) : list N * list N :=
  match l with
  | LPrim k v => (cpl, rec_bytes (ptag k) (le_encode (pwidth k) v))
  | LRaw bs => (cpl, rec_bytes T_Raw bs)
  | LStr bs => (cpl, w_str bs)
  | LPtr safe None =>
      (cpl, rec_bytes (if safe then T_SafePointer else T_ObjectPointer) (le_encode 4 NULLP))
  | LPtr safe (Some t) =>
      let (cpl', i) := add_unique cpl t in
      (cpl', rec_bytes (if safe then T_SafePointer else T_ObjectPointer) (le_encode 4 i))
  | LPos id =>
      let (cpl', i) := add_unique cpl id in
      (cpl', rec_bytes T_Position (le_encode 4 i))
  | LVar key toks =>
      let (cpl', b) := write_toks cpl toks in (cpl', w_key key ++ b)
  end.

Fixpoint write_leaves (cpl : list N) (ls : list leaf) : list N * list N :=
  match ls with
  | [] => (cpl, [])
  | l :: r =>
      let (cpl1, b1) := write_leaf cpl l in
      let (cpl2, b2) := write_leaves cpl1 r in
      (cpl2, b1 ++ b2)
  end.

(* Listener::Archive of a listener without lists: one UInt8 flag = 0 *)
Definition listener_flag (c : N) : list N :=
  if is_listener c then rec_bytes T_Byte [0] else [].

Definition write_item (cpl : list N) (it : item) : list N * list N :=
  match it with
  | ILeaf l => write_leaf cpl l
  | IObj c id body =>
      let (cpl1, i) := add_unique cpl id in
      let (cpl2, bb) := write_leaves cpl1 body in
      let bb' := listener_flag c ++ bb in
      (cpl2, le_encode 4 T_Object ++ le_encode 8 (nlen bb') ++ w_str (class_name c) ++
             rec_bytes T_UInteger (le_encode 4 i) ++ bb')
  end.

Fixpoint write_items (cpl : list N) (its : list item) : list N * list N :=
  match its with
  | [] => (cpl, [])
  | it :: r =>
      let (cpl1, b1) := write_item cpl it in
      let (cpl2, b2) := write_items cpl1 r in
      (cpl2, b1 ++ b2)
  end.

Definition write_header (h : hdr) (count : N) : list N :=
  h_magic h ++ rec_bytes T_UShort (le_encode 2 ARCHIVE_VERSION) ++
  rec_bytes T_UShort (le_encode 2 (h_version h)) ++ w_str (h_name h) ++
  rec_bytes T_UInteger (le_encode 4 count).

Definition write (h : hdr) (its : list item) : list N :=
  let (cpl, bb) := write_items [] its in
  write_header h (nlen cpl) ++ bb.

(* ------------------------------------------------------------- reader: the programs *)

Inductive err :=
| InvalidArchiveHeader
| WrongVersion
| ReadStreamFail
| TypeError (expected found : N)
| InvalidClass
| ObjectClassError
| ReadPastEndObject
| NotReadEntireDataObject.

(* what a payload read is for (used by the layout of C11 only) *)
Inductive pclass := PVer | PSize | PName | POther.

Inductive rd := Bytes (l : list N) | Garbage.

Inductive prog (A : Type) :=
| Ret (a : A)
| Fail (e : err)
| Undefined
| Tell (cont : Z -> prog A)                       (* tellg *)
| Read (c : pclass) (k : N) (cont : rd -> prog A) (* ReadDataInternal(k bytes) *)
| ReadTag (t : N) (cont : prog A)                 (* ReadType + comparison -> TypeError *)
| ReadMagic (m : list N) (cont : prog A).         (* header read + memcmp *)
Arguments Ret {A}. Arguments Fail {A}. Arguments Undefined {A}. Arguments Tell {A}.
Arguments Read {A}. Arguments ReadTag {A}. Arguments ReadMagic {A}.

Inductive stream := Good (pos : Z) (rest : list N) | Failed.

Inductive res (A : Type) :=
| Ok (a : A) (s : stream)
| Err (e : err)
| Undef.
Arguments Ok {A}. Arguments Err {A}. Arguments Undef {A}.

(* the first k elements and the rest; None when there are fewer than k *)
Fixpoint take (l : list N) (k : N) : option (list N * list N) :=
  match l with
  | [] => if k =? 0 then Some ([], []) else None
  | x :: r =>
      if k =? 0 then Some ([], l)
      else match take r (k - 1) with
           | Some (a, b) => Some (x :: a, b)
           | None => None
           end
  end.

Fixpoint list_eqb (a b : list N) : bool :=
  match a, b with
  | [], [] => true
  | x :: a', y :: b' => (x =? y) && list_eqb a' b'
  | _, _ => false
  end.

Fixpoint run {A} (caf : bool) (p : prog A) (s : stream) : res A :=
  match p with
  | Ret a => Ok a s
  | Fail e => Err e
  | Undefined => Undef
  | Tell cont => run caf (cont (match s with Good pos _ => pos | Failed => (-1)%Z end)) s
  | Read _ k cont =>
      match s with
      | Failed => Err ReadStreamFail                          (* CheckRead: !good() *)
      | Good pos rest =>
          match take rest k with
          | Some (a, b) => run caf (cont (Bytes a)) (Good (pos + Z.of_N k) b)
          | None => if caf then Err ReadStreamFail else run caf (cont Garbage) Failed
          end
      end
  | ReadTag t cont =>
      match s with
      | Failed => Err ReadStreamFail
      | Good pos rest =>
          match take rest 4 with
          | Some (a, b) =>
              let v := le_decode a in
              if v =? t then run caf cont (Good (pos + 4) b) else Err (TypeError t v)
          | None => if caf then Err ReadStreamFail else Undef   (* compares garbage *)
          end
      end
  | ReadMagic m cont =>
      match s with
      | Failed => Err ReadStreamFail
      | Good pos rest =>
          match take rest (nlen m) with
          | Some (a, b) =>
              if list_eqb a m then run caf cont (Good (pos + Z.of_N (nlen m)) b)
              else Err InvalidArchiveHeader
          | None => if caf then Err ReadStreamFail else Undef
          end
      end
  end.

(* ------------------------------------------------------------- reader: the archiver *)

(* a pointer of a script variable before Close: null or an entry of fixupList *)
Inductive ptgt := PN | PP (idx : N).

(* what has been read for a leaf before Close *)
Inductive pleaf :=
| PL (l : leaf)
| PPending (safe : bool) (idx : N)      (* an entry of fixupList *)
| PGarbage
| PVar (key : option (option (list N))) (toks : list (tok ptgt)).

Inductive pitem :=
| PLeaf (l : pleaf)
| PObj (c id : N) (body : list pleaf).

Record rst := mkRst { r_num : N; r_map : arr (option N) }.

(* Container::AddObjectAt(index, obj) *)
Definition add_at (st : rst) (index : N) (id : N) : option rst :=
  if index =? 0 then None
  else Some (mkRst (if r_num st <? index then index else r_num st) (set (r_map st) index (Some id))).

(* mfuse::Archive(arc, str&) into an empty destination; the Raw payload has class c *)
Definition r_str {A} (c : pclass) (cont : rd -> prog A) : prog A :=
  ReadTag T_Size (Read POther 8 (fun d =>
    match d with
    | Garbage => Undefined                                   (* if (length) on garbage *)
    | Bytes l =>
        let len := le_decode l in
        if len =? 0 then cont (Bytes [])
        else ReadTag T_Raw (Read c len cont)
    end)).

(* ------------------------------------------------------ reading script variables *)

(* ArchiveObjectPointer / ArchiveSafePointer when loading *)
Definition r_ptr {A} (safe : bool) (st : rst) (k : ptgt -> prog A) : prog A :=
  ReadTag (ptr_tag_of safe) (Read POther 4 (fun d =>
    match d with
    | Garbage => Undefined
    | Bytes l =>
        let idx := le_decode l in
        if idx =? NULLP then k PN
        else if (idx =? 0) || (r_num st <? idx) then Undefined
        else k (PP idx)
    end)).

(* the pointers of a ScriptPointer: the count comes from the archive, the host list
   bounds the recursion *)
Fixpoint r_ptrs {A} (labs : list (option N)) (n : N) (st : rst) (k : list ptgt -> prog A) : prog A :=
  if n =? 0 then k []
  else match labs with
       | [] => Undefined
       | _ :: labs' => r_ptr false st (fun p => r_ptrs labs' (n - 1) st (fun ps => k (p :: ps)))
       end.

Definition r_num32 {A} (k : N -> prog A) : prog A :=
  ReadTag T_UInteger (Read POther 4 (fun d =>
    match d with Garbage => Undefined | Bytes l => k (le_decode l) end)).

(* ArchiveObjectPosition(obj) when loading *)
Definition r_position {A} (st : rst) (id : N) (k : rst -> prog A) : prog A :=
  ReadTag T_Position (Read POther 4 (fun d =>
    match d with
    | Garbage => Undefined
    | Bytes l => match add_at st (le_decode l) id with None => Undefined | Some st' => k st' end
    end)).

(* StringDictionary::ArchiveString when loading *)
Definition r_cstr {A} (k : option (list N) -> prog A) : prog A :=
  ReadTag T_Byte (Read POther 1 (fun d =>
    match d with
    | Garbage => Undefined
    | Bytes l =>
        if le_decode l =? 0 then k None
        else r_str POther (fun d' => match d' with Bytes bs => k (Some bs) | Garbage => Undefined end)
    end)).

(* the identity labels the host supplies for one variable *)
Definition lab_hid (b : tbody (option N)) : N :=
  match b with
  | TArrayNew hid _ _ _ _ _ => hid
  | TConstArrayNew hid _ _ => hid
  | TPointerNew pid _ => pid
  | THolderRef _ (Some hid) => hid
  | _ => 0
  end.

Definition lab_targets (b : tbody (option N)) : list (option N) :=
  match b with TPointerNew _ ts => ts | _ => [] end.

(* Boolean newRef of X::Archive(arc, holder*&) when loading *)
Definition r_newref {A} (k : bool -> prog A) : prog A :=
  ReadTag T_Boolean (Read POther 1 (fun d =>
    match d with
    | Bytes [0] => k false
    | Bytes [1] => k true
    | _ => Undefined
    end)).

Definition r_raw12 {A} (k : list N -> prog A) : prog A :=
  ReadTag T_Raw (Read POther 12 (fun d => match d with Bytes l => k l | Garbage => Undefined end)).

(* ScriptVariable::ArchiveInternal when loading, without the variables it contains *)
Definition r_tok1 {A} (lb : tok (option N)) (st : rst) (k : rst -> tok ptgt -> prog A) : prog A :=
  r_position st (t_vid lb) (fun st1 =>
    ReadTag T_Byte (Read POther 1 (fun d =>
      match d with
      | Garbage => Undefined
      | Bytes l =>
          let ty := le_decode l in
          let ret := fun (s : rst) (b : tbody ptgt) => k s (mkTok (t_vid lb) b) in
          let hid := lab_hid (t_body lb) in
          let holder := fun (hk : vhold) (fresh : rst -> prog A) =>
            r_newref (fun nr =>
              if nr then r_position st1 hid fresh
              else r_ptr false st1 (fun p => ret st1 (THolderRef hk p))) in
          if ty =? 0 then ret st1 TNone
          else if ty =? 1 then
            r_str POther (fun d' => match d' with Bytes bs => ret st1 (TStr bs) | Garbage => Undefined end)
          else if ty =? 2 then
            ReadTag T_Long (Read POther 8 (fun d' =>
              match d' with Bytes b => ret st1 (TPrim VInt (le_decode b)) | Garbage => Undefined end))
          else if ty =? 3 then
            ReadTag T_Float (Read POther 4 (fun d' =>
              match d' with Bytes b => ret st1 (TPrim VFloat (le_decode b)) | Garbage => Undefined end))
          else if ty =? 4 then
            ReadTag T_Char (Read POther 1 (fun d' =>
              match d' with Bytes b => ret st1 (TPrim VChar (le_decode b)) | Garbage => Undefined end))
          else if ty =? 5 then r_cstr (fun s => ret st1 (TCStr s))
          else if ty =? 6 then r_ptr true st1 (fun p => ret st1 (TPtr VListener p))
          else if ty =? 7 then r_ptr false st1 (fun p => ret st1 (TPtr VRef p))
          else if ty =? 8 then
            holder HArray (fun st2 =>
              r_num32 (fun rc => r_num32 (fun tl => r_num32 (fun thr => r_num32 (fun count =>
                ReadTag T_UShort (Read POther 2 (fun d' =>
                  match d' with
                  | Garbage => Undefined
                  | Bytes b =>
                      if (tl =? 0) && (0 <? count) then Undefined           (* hash % tableLength *)
                      else ret st2 (TArrayNew hid rc tl thr (le_decode b) count)
                  end)))))))
          else if ty =? 9 then
            holder HConstArray (fun st2 =>
              r_num32 (fun rc => r_num32 (fun size => ret st2 (TConstArrayNew hid rc size))))
          else if ty =? 10 then r_ptr false st1 (fun p => ret st1 (TPtr VContainer p))
          else if ty =? 11 then r_ptr true st1 (fun p => ret st1 (TPtr VSafeContainer p))
          else if ty =? 12 then
            holder HPointer (fun st2 =>
              r_num32 (fun num =>
                r_ptrs (lab_targets (t_body lb)) num st2 (fun ps => ret st2 (TPointerNew hid ps))))
          else if ty =? 13 then
            r_raw12 (fun _ => r_raw12 (fun _ => r_raw12 (fun b => ret st1 (TVector b))))
          else Undefined
      end))).

Definition kids {T} (b : tbody T) : N :=
  match b with
  | TArrayNew _ _ _ _ _ count => 2 * count
  | TConstArrayNew _ _ size => size
  | _ => 0
  end.

(* pending = how many variables are still to be read; one host label per variable *)
Fixpoint r_toks {A} (labs : list (tok (option N))) (pending : N) (st : rst)
         (cont : rst -> list (tok ptgt) -> prog A) : prog A :=
  if pending =? 0 then cont st []
  else match labs with
       | [] => Undefined
       | lb :: labs' =>
           r_tok1 lb st (fun st1 t =>
             r_toks labs' (pending - 1 + kids (t_body t)) st1 (fun st2 ts => cont st2 (t :: ts)))
       end.

Definition r_key {A} (key : option (option (list N))) (k : option (option (list N)) -> prog A) : prog A :=
  match key with
  | None => k None
  | Some _ => r_cstr (fun s => k (Some s))
  end.

Definition r_leaf {A} (st : rst) (sh : leaf) (cont : rst -> pleaf -> prog A) : prog A :=
  match sh with
  | LPrim k _ =>
      ReadTag (ptag k) (Read POther (N.of_nat (pwidth k)) (fun d =>
        cont st (match d with Bytes l => PL (LPrim k (le_decode l)) | Garbage => PGarbage end)))
  | LRaw bs =>
      ReadTag T_Raw (Read POther (nlen bs) (fun d =>
        cont st (match d with Bytes l => PL (LRaw l) | Garbage => PGarbage end)))
  | LStr _ =>
      r_str POther (fun d =>
        cont st (match d with Bytes l => PL (LStr l) | Garbage => PGarbage end))
  | LPtr safe _ =>
      ReadTag (if safe then T_SafePointer else T_ObjectPointer) (Read POther 4 (fun d =>
        match d with
        | Garbage => Undefined                               (* index == NULL on garbage *)
        | Bytes l =>
            let idx := le_decode l in
            if idx =? NULLP then cont st (PL (LPtr safe None))
            else if (idx =? 0) || (r_num st <? idx) then Undefined
            else cont st (PPending safe idx)
        end))
  | LPos id =>
      ReadTag T_Position (Read POther 4 (fun d =>
        match d with
        | Garbage => Undefined                               (* AddObjectAt(garbage) *)
        | Bytes l =>
            match add_at st (le_decode l) id with
            | None => Undefined
            | Some st' => cont st' (PL (LPos id))
            end
        end))
  | LVar key labs =>
      r_key key (fun key' => r_toks labs 1 st (fun st' ts => cont st' (PVar key' ts)))
  end.

Fixpoint r_leaves {A} (shs : list leaf) (st : rst) (cont : rst -> list pleaf -> prog A) : prog A :=
  match shs with
  | [] => cont st []
  | sh :: r => r_leaf st sh (fun st1 v => r_leaves r st1 (fun st2 vs => cont st2 (v :: vs)))
  end.

Definition upper (b : N) : N := if (97 <=? b) && (b <=? 122) then b - 32 else b.

Fixpoint until_nul (l : list N) : list N :=
  match l with
  | [] => []
  | b :: r => if b =? 0 then [] else b :: until_nul r
  end.

Definition name_matches (nm : list N) (c : N) : bool :=
  list_eqb (map upper (until_nul nm)) (map upper (class_name c)).

(* ClassDef::GetClass(classname.c_str()) restricted to the host classes of the harness *)
Definition lookup_class (nm : list N) : option N :=
  if name_matches nm 0 then Some 0
  else if name_matches nm 1 then Some 1
  else if name_matches nm 2 then Some 2
  else if name_matches nm 3 then Some 3
  else None.

Definition to_signed64 (v : N) : Z :=
  if v <? 9223372036854775808 then Z.of_N v else (Z.of_N v - 18446744073709551616)%Z.

(* Listener::Archive reading: the flag byte *)
Definition r_listener_flag {A} (c : N) (cont : prog A) : prog A :=
  if is_listener c then
    ReadTag T_Byte (Read POther 1 (fun d =>
      match d with
      | Bytes [0] => cont
      | _ => Undefined
      end))
  else cont.

Definition r_item {A} (st : rst) (sh : item) (cont : rst -> pitem -> prog A) : prog A :=
  match sh with
  | ILeaf l => r_leaf st l (fun st' v => cont st' (PLeaf v))
  | IObj c id body =>
      ReadTag T_Object (Read PSize 8 (fun dsz =>
        r_str PName (fun dname =>
          match dname with
          | Garbage => Undefined
          | Bytes nm =>
              match lookup_class nm with
              | None => Fail InvalidClass
              | Some c' =>
                  if negb (c' =? norm_class c) then Fail ObjectClassError
                  else
                    ReadTag T_UInteger (Read POther 4 (fun didx =>
                      Tell (fun p0 =>
                        r_listener_flag c (r_leaves body st (fun st1 vs =>
                          Tell (fun p1 =>
                            match dsz with
                            | Garbage => Undefined
                            | Bytes lsz =>
                                let size := to_signed64 (le_decode lsz) in
                                if (size <? p1 - p0)%Z then Fail ReadPastEndObject
                                else if (p1 - p0 <? size)%Z then Fail NotReadEntireDataObject
                                else
                                  match didx with
                                  | Garbage => Undefined
                                  | Bytes li =>
                                      match add_at st1 (le_decode li) id with
                                      | None => Undefined
                                      | Some st2 => cont st2 (PObj c id vs)
                                      end
                                  end
                            end))))))
              end
          end)))
  end.

Fixpoint r_items {A} (shs : list item) (st : rst) (cont : rst -> list pitem -> prog A) : prog A :=
  match shs with
  | [] => cont st []
  | sh :: r => r_item st sh (fun st1 v => r_items r st1 (fun st2 vs => cont st2 (v :: vs)))
  end.

(* CreateRead followed by the calls of the item list *)
Definition reader (vor : bool) (h : hdr) (shs : list item) : prog (rst * list pitem) :=
  ReadMagic (h_magic h)
    (ReadTag T_UShort (Read PVer 2 (fun dm =>
     ReadTag T_UShort (Read PVer 2 (fun dv =>
       match dm, dv with
       | Bytes lm, Bytes lv =>
           let m_bad := negb (le_decode lm =? ARCHIVE_VERSION) in
           let v_bad := negb (le_decode lv =? h_version h) in
           if (if vor then m_bad || v_bad else m_bad && v_bad) then Fail WrongVersion
           else
             r_str POther (fun dname =>
               match dname with
               | Garbage => Undefined
               | Bytes _ =>
                   ReadTag T_UInteger (Read POther 4 (fun dn =>
                     match dn with
                     | Garbage => Undefined                    (* SetNumObjects(garbage) *)
                     | Bytes ln =>
                         r_items shs (mkRst (le_decode ln) (aempty None)) (fun st vs => Ret (st, vs))
                     end))
               end)
       | _, _ => Undefined
       end))))).

(* ------------------------------------------------------------------------ Close *)

Definition close_tgt (st : rst) (p : ptgt) : option (option N) :=
  match p with
  | PN => Some None
  | PP idx =>
      if (idx =? 0) || (r_num st <? idx) then None          (* ObjectAt outside the list *)
      else Some (get (r_map st) idx)
  end.

Fixpoint close_tgts (st : rst) (ps : list ptgt) : option (list (option N)) :=
  match ps with
  | [] => Some []
  | p :: r =>
      match close_tgt st p, close_tgts st r with
      | Some t, Some ts => Some (t :: ts)
      | _, _ => None
      end
  end.

Definition close_body (st : rst) (b : tbody ptgt) : option (tbody (option N)) :=
  match b with
  | TNone => Some TNone
  | TStr bs => Some (TStr bs)
  | TPrim k v => Some (TPrim k v)
  | TCStr s => Some (TCStr s)
  | TPtr k p => match close_tgt st p with Some t => Some (TPtr k t) | None => None end
  | TArrayNew hid rc tl thr tli count => Some (TArrayNew hid rc tl thr tli count)
  | TConstArrayNew hid rc size => Some (TConstArrayNew hid rc size)
  | TPointerNew pid ps => match close_tgts st ps with Some ts => Some (TPointerNew pid ts) | None => None end
  | THolderRef k p => match close_tgt st p with Some t => Some (THolderRef k t) | None => None end
  | TVector bs => Some (TVector bs)
  end.

Fixpoint close_toks (st : rst) (ts : list (tok ptgt)) : option (list (tok (option N))) :=
  match ts with
  | [] => Some []
  | t :: r =>
      match close_body st (t_body t), close_toks st r with
      | Some b, Some ts' => Some (mkTok (t_vid t) b :: ts')
      | _, _ => None
      end
  end.

Definition close_leaf (st : rst) (p : pleaf) : option leaf :=
  match p with
  | PL l => Some l
  | PPending safe idx =>
      if (idx =? 0) || (r_num st <? idx) then None          (* ObjectAt outside the list *)
      else Some (LPtr safe (get (r_map st) idx))
  | PGarbage => None
  | PVar key ts => match close_toks st ts with Some ts' => Some (LVar key ts') | None => None end
  end.

Fixpoint close_leaves (st : rst) (ps : list pleaf) : option (list leaf) :=
  match ps with
  | [] => Some []
  | p :: r =>
      match close_leaf st p, close_leaves st r with
      | Some l, Some ls => Some (l :: ls)
      | _, _ => None
      end
  end.

Definition close_item (st : rst) (p : pitem) : option item :=
  match p with
  | PLeaf l => match close_leaf st l with Some l' => Some (ILeaf l') | None => None end
  | PObj c id body => match close_leaves st body with Some b => Some (IObj c id b) | None => None end
  end.

Fixpoint close_items (st : rst) (ps : list pitem) : option (list item) :=
  match ps with
  | [] => Some []
  | p :: r =>
      match close_item st p, close_items st r with
      | Some l, Some ls => Some (l :: ls)
      | _, _ => None
      end
  end.

Inductive outcome :=
| OOk (its : list item)
| OErr (e : err)
| OUndef.

(* reading an archive with the calls of shs; h is what the reader expects *)
Definition read (caf vor : bool) (h : hdr) (shs : list item) (bytes : list N) : outcome :=
  match run caf (reader vor h shs) (Good 0 bytes) with
  | Ok (st, ps) _ =>
      match close_items st ps with
      | Some its => OOk its
      | None => OUndef
      end
  | Err e => OErr e
  | Undef => OUndef
  end.

(* the shape of an item list: what the reading host program knows (kinds, Raw lengths,
   classes and identities of its objects); all values erased *)
(* of a variable the reading host knows: the identity of the variable object and of the
   holder object that will be created for it, and (a bound on) the length of a pointer list *)
Definition shape_tok (t : tok (option N)) : tok (option N) :=
  mkTok (t_vid t)
    match t_body t with
    | TArrayNew hid _ _ _ _ _ => TArrayNew hid 0 0 0 0 0
    | TConstArrayNew hid _ _ => TConstArrayNew hid 0 0
    | TPointerNew pid ts => TPointerNew pid (map (fun _ => None) ts)
    | _ => TNone
    end.

Definition shape_leaf (l : leaf) : leaf :=
  match l with
  | LPrim k _ => LPrim k 0
  | LRaw bs => LRaw (repeat 0 (length bs))
  | LStr _ => LStr []
  | LPtr s _ => LPtr s None
  | LPos id => LPos id
  | LVar key toks => LVar (match key with None => None | Some _ => Some None end) (map shape_tok toks)
  end.

Definition shape_item (it : item) : item :=
  match it with
  | ILeaf l => ILeaf (shape_leaf l)
  | IObj c id body => IObj c id (map shape_leaf body)
  end.

Definition shape (its : list item) : list item := map shape_item its.

(* the differential run of C10: the bytes written and what the current code reads back *)
Definition run_case (h : hdr) (its : list item) : list N * outcome :=
  let bytes := write h its in (bytes, read true true h (shape its) bytes).
