(* C10/Proofs.v - CreateRead over the written header, Close, and the round-trip theorem. *)
From Coq Require Import ZArith NArith List Bool Lia.
From Morfuse Require Import Base.Arr Base.ListX C10.Model C10.Spec C10.ProofsLib C10.ProofsWrite C10.ProofsRead.
Import ListNotations.
Local Open Scope N_scope.

Definition st0 (F : list N) : rst := mkRst (nlen F) (aempty None).

Lemma nlen_write_header h n :
  nlen (write_header h n) = nlen (h_magic h) + 6 + 6 + size_str (h_name h) + 8.
Proof.
  unfold write_header. rewrite !nlen_app, !nlen_rec, !nlen_le_encode, nlen_w_str.
  change (N.of_nat 2) with 2. change (N.of_nat 4) with 4. lia.
Qed.

Lemma reader_enc caf vor h F its tail :
  h_version h < 65536 -> nlen (h_name h) < 256 ^ 8 ->
  Forall (item_ok F) its -> nlen F < 2147483648 ->
  run caf (reader vor h (shape its)) (Good 0 (write_header h (nlen F) ++ enc_items F its ++ tail)) =
  Ok (reg_ids F (regs_items its) (st0 F), map (pend_item F) its)
     (Good (Z.of_N (nlen (write_header h (nlen F)) + nlen (enc_items F its))) tail).
Proof.
  intros Hv Hname Hok HF. rewrite nlen_write_header.
  unfold reader, write_header. rewrite <- !app_assoc.
  rewrite run_ReadMagic.
  rewrite run_record; [|vm_compute; reflexivity|apply nlen_le_encode].
  rewrite run_record; [|vm_compute; reflexivity|apply nlen_le_encode].
  rewrite le_decode_encode by (vm_compute; reflexivity).
  rewrite le_decode_encode by (change (256 ^ N.of_nat 2) with 65536; exact Hv).
  rewrite !N.eqb_refl. cbn [negb orb andb].
  assert (Hif : (if vor then false else false) = false) by (destruct vor; reflexivity).
  rewrite Hif.
  rewrite r_str_enc by exact Hname.
  rewrite run_record; [|vm_compute; reflexivity|apply nlen_le_encode].
  rewrite le_decode_encode by (change (256 ^ N.of_nat 4) with 4294967296; lia).
  rewrite r_items_enc; [|assumption|reflexivity|assumption].
  cbn [run]. fold (st0 F). f_equal. f_equal. rewrite nlen_w_str.
  change (N.of_nat 2) with 2. change (N.of_nat 4) with 4. lia.
Qed.

(* ------------------------------------------------------------------------- Close *)

Lemma memN_ext x a b : (forall y, In y a <-> In y b) -> memN x a = memN x b.
Proof.
  intro H. destruct (memN x a) eqn:Ea; destruct (memN x b) eqn:Eb; try reflexivity.
  - apply memN_in in Ea. apply H in Ea. apply memN_in in Ea. congruence.
  - apply memN_in in Eb. apply H in Eb. apply memN_in in Eb. congruence.
Qed.

Lemma get_reg_ids F ids : forall st t,
  incl ids F -> In t F ->
  get (r_map (reg_ids F ids st)) (idx F t) = if memN t ids then Some t else get (r_map st) (idx F t).
Proof.
  unfold reg_ids. induction ids as [|a r IH]; intros st t Hin Ht; cbn [fold_left].
  - reflexivity.
  - rewrite IH; [|intros x Hx; apply Hin; now right|assumption].
    unfold memN. cbn [existsb]. fold (memN t r).
    destruct (memN t r); [now rewrite orb_true_r|]. rewrite orb_false_r.
    unfold reg1. cbn [r_map]. rewrite get_set.
    destruct (N.eqb_spec (idx F t) (idx F a)) as [E|E].
    + apply idx_inj in E; [|assumption|apply Hin; now left]. subst. now rewrite N.eqb_refl.
    + destruct (N.eqb_spec t a) as [->|_]; [contradiction|reflexivity].
Qed.

Section Close.
  Variables (F : list N) (stf : rst) (regs : list N).
  Hypothesis Hnum : r_num stf = nlen F.
  Hypothesis Hget : forall t, In t F -> get (r_map stf) (idx F t) = if memN t regs then Some t else None.

  Lemma close_tgt_pend t :
    incl (ids_tgt t) F -> close_tgt stf (pend_tgt F t) = Some (spec_tgt regs t).
  Proof.
    intro Hin. destruct t as [x|]; cbn [pend_tgt close_tgt spec_tgt]; [|reflexivity].
    assert (Hx : In x F) by (apply Hin; now left).
    pose proof (idx_in_range F x Hx) as R.
    destruct (N.eqb_spec (idx F x) 0) as [E|_]; [lia|].
    destruct (N.ltb_spec (r_num stf) (idx F x)) as [L|_]; [lia|].
    cbn [orb]. rewrite Hget by assumption. destruct (memN x regs); reflexivity.
  Qed.

  Lemma close_tgts_pend ts :
    incl (flat_map ids_tgt ts) F -> close_tgts stf (map (pend_tgt F) ts) = Some (map (spec_tgt regs) ts).
  Proof.
    induction ts as [|t r IH]; intro Hin; cbn [map close_tgts flat_map] in *; [reflexivity|].
    rewrite close_tgt_pend by (intros x Hx; apply Hin; apply in_or_app; now left).
    rewrite IH by (intros x Hx; apply Hin; apply in_or_app; now right). reflexivity.
  Qed.

  Lemma close_body_pend b :
    incl (ids_body b) F -> close_body stf (pend_body F b) = Some (spec_body regs b).
  Proof.
    intro Hin.
    destruct b as [|bs|k v|s|k x|hid rc tl thr tli count|hid rc size|pid ts|k h|bs];
      cbn [pend_body close_body spec_body ids_body] in *; try reflexivity.
    - now rewrite close_tgt_pend.
    - rewrite close_tgts_pend; [reflexivity|]. intros x Hx. apply Hin. now right.
    - now rewrite close_tgt_pend.
  Qed.

  Lemma close_toks_pend ts :
    incl (flat_map ids_tok ts) F -> close_toks stf (map (pend_tok F) ts) = Some (map (spec_tok regs) ts).
  Proof.
    induction ts as [|t r IH]; intro Hin; cbn [map close_toks flat_map] in *; [reflexivity|].
    cbn [pend_tok t_body t_vid].
    rewrite close_body_pend by (intros x Hx; apply Hin; apply in_or_app; left; now right).
    rewrite IH by (intros x Hx; apply Hin; apply in_or_app; now right). reflexivity.
  Qed.

  Lemma close_leaf_pend l :
    incl (ids_leaf l) F -> close_leaf stf (pend_leaf F l) = Some (spec_leaf regs l).
  Proof.
    intro Hin. destruct l as [k v|bs|bs|s [t|]|id|key toks]; cbn [pend_leaf close_leaf spec_leaf]; try reflexivity.
    2:{ cbn [ids_leaf] in Hin. now rewrite close_toks_pend. }
    assert (Ht : In t F) by (apply Hin; now left).
    pose proof (idx_in_range F t Ht) as R.
    destruct (N.eqb_spec (idx F t) 0) as [E|_]; [lia|].
    destruct (N.ltb_spec (r_num stf) (idx F t)) as [L|_]; [lia|].
    cbn [orb]. rewrite Hget by assumption. destruct (memN t regs); reflexivity.
  Qed.

  Lemma close_leaves_pend ls :
    incl (flat_map ids_leaf ls) F ->
    close_leaves stf (map (pend_leaf F) ls) = Some (map (spec_leaf regs) ls).
  Proof.
    induction ls as [|l r IH]; intro Hin; cbn [map close_leaves flat_map] in *; [reflexivity|].
    rewrite close_leaf_pend by (intros x Hx; apply Hin; apply in_or_app; now left).
    rewrite IH by (intros x Hx; apply Hin; apply in_or_app; now right). reflexivity.
  Qed.

  Lemma close_item_pend it :
    incl (ids_item it) F -> close_item stf (pend_item F it) = Some (spec_item regs it).
  Proof.
    destruct it as [l|c id body]; cbn [ids_item pend_item close_item spec_item]; intro Hin.
    - now rewrite close_leaf_pend.
    - rewrite close_leaves_pend; [reflexivity|]. intros x Hx. apply Hin. now right.
  Qed.

  Lemma close_items_pend its :
    incl (flat_map ids_item its) F ->
    close_items stf (map (pend_item F) its) = Some (map (spec_item regs) its).
  Proof.
    induction its as [|it r IH]; intro Hin; cbn [map close_items flat_map] in *; [reflexivity|].
    rewrite close_item_pend by (intros x Hx; apply Hin; apply in_or_app; now left).
    rewrite IH by (intros x Hx; apply Hin; apply in_or_app; now right). reflexivity.
  Qed.
End Close.

(* --------------------------------------------------------- from wf_case to item_ok *)

Lemma regs_items_in its x : In x (regs_items its) <-> In x (registered its).
Proof.
  unfold regs_items, registered. rewrite !in_flat_map. split; intros (it & Hit & Hx); exists it; (split; [assumption|]);
    destruct it as [l|c id body]; cbn [regs_item reg_item] in *; try assumption.
  - apply in_app_or in Hx as [Hx|[<-|[]]]; [now right|now left].
  - destruct Hx as [<-|Hx]; apply in_or_app; [right; now left|now left].
Qed.

Lemma reg_leaf_incl l : incl (reg_leaf l) (ids_leaf l).
Proof.
  intros x Hx. destruct l as [k v|bs|bs|s t|id|key toks]; cbn [reg_leaf ids_leaf] in *; try contradiction; try assumption.
  rewrite in_flat_map in *. destruct Hx as (t & Ht & Hx). exists t. split; [assumption|].
  unfold reg_tok, ids_tok in *. destruct Hx as [<-|Hx]; [now left|]. right.
  destruct (t_body t); cbn [ids_body] in *; try contradiction; try assumption.
  destruct Hx as [<-|[]]. now left.
Qed.

Lemma regs_items_incl its : incl (regs_items its) (flat_map ids_item its).
Proof.
  intros x Hx. unfold regs_items in Hx. rewrite in_flat_map in *. destruct Hx as (it & Hit & Hx). exists it. split; [assumption|].
  destruct it as [l|c id body]; cbn [regs_item ids_item] in *.
  - now apply reg_leaf_incl.
  - apply in_app_or in Hx as [Hx|[<-|[]]]; [right|now left].
    rewrite in_flat_map in *. destruct Hx as (l & Hl & Hx). exists l. split; [assumption|].
    now apply reg_leaf_incl.
Qed.

Lemma size_leaves_ge l ls : In l ls -> size_leaf l <= size_leaves ls.
Proof.
  induction ls as [|a r IH]; intros []; cbn [size_leaves]; [subst; lia|]. specialize (IH H). lia.
Qed.

Lemma cnt_toks_le_size ts : cnt_toks ts <= size_toks ts.
Proof.
  induction ts as [|t r IH]; cbn [cnt_toks size_toks]; [lia|].
  unfold cnt_tok. destruct (t_body t); cbn [cnt_body size_body]; try lia.
Qed.

Lemma count_le_size_leaf l : count_leaf l <= size_leaf l.
Proof.
  destruct l as [k v|bs|bs|s t|id|key toks]; cbn [count_leaf size_leaf]; unfold size_str; try lia.
  pose proof (cnt_toks_le_size toks). lia.
Qed.

Lemma count_le_size_leaves ls : count_leaves ls <= size_leaves ls.
Proof.
  induction ls as [|a r IH]; cbn [count_leaves size_leaves]; [lia|]. pose proof (count_le_size_leaf a). lia.
Qed.

Lemma count_le_size_item it : count_item it <= size_item it.
Proof.
  destruct it as [l|c id body]; cbn [count_item size_item]; [apply count_le_size_leaf|].
  pose proof (count_le_size_leaves body). lia.
Qed.

Lemma count_le_size_items its : count_items its <= size_items its.
Proof.
  induction its as [|a r IH]; cbn [count_items size_items]; [lia|]. pose proof (count_le_size_item a). lia.
Qed.

Lemma items_ok F its :
  forallb wf_item its = true -> size_items its < 2147483648 -> incl (flat_map ids_item its) F ->
  Forall (item_ok F) its.
Proof.
  induction its as [|it r IH]; intros Hwf Hsz Hin; [constructor|].
  cbn [forallb size_items flat_map] in *. apply andb_true_iff in Hwf as [Hw1 Hw2].
  constructor.
  - destruct it as [l|c id body]; cbn [item_ok wf_item ids_item size_item] in *.
    + split; [assumption|split; [|lia]]. intros x Hx. apply Hin. apply in_or_app. now left.
    + split; [|split; [apply Hin; now left|lia]].
      rewrite forallb_forall in Hw1. apply Forall_forall. intros l Hl.
      split; [now apply Hw1|split].
      * intros x Hx. apply Hin. right. apply in_or_app. left. rewrite in_flat_map. eauto.
      * pose proof (size_leaves_ge l body Hl). lia.
  - apply IH; [assumption|lia|]. intros x Hx. apply Hin. apply in_or_app. now right.
Qed.

(* ------------------------------------------------------------------ the theorem *)

Theorem round_trip caf vor h its :
  wf_case h its = true ->
  read caf vor h (shape its) (write h its) = OOk (spec_items its).
Proof.
  unfold wf_case, wf_hdr, wf_items. intro H.
  repeat match goal with Hx : (_ && _) = true |- _ => apply andb_true_iff in Hx; destruct Hx end.
  repeat match goal with Hx : (_ <? _) = true |- _ => apply N.ltb_lt in Hx end.
  destruct (write_as_enc h its) as (F & Hw & Hin & Hlen); [assumption|].
  pose proof (count_le_size_items its) as Hc.
  assert (HF : nlen F < 2147483648) by lia.
  unfold read. rewrite Hw.
  pose proof (reader_enc caf vor h F its []) as R. rewrite app_nil_r in R.
  rewrite R; [|assumption|change (256 ^ 8) with 18446744073709551616; lia|now apply items_ok|assumption].
  unfold spec_items.
  rewrite (close_items_pend F _ (registered its)); [reflexivity|now rewrite reg_ids_num| |assumption].
  intros t Ht. rewrite get_reg_ids; [|eapply incl_tran; [apply regs_items_incl|assumption]|assumption].
  rewrite (memN_ext t _ _ (regs_items_in its)).
  destruct (memN t (registered its)); [reflexivity|]. unfold st0. cbn [r_map]. apply get_empty.
Qed.

(* when every non-null target is archived somewhere, what is read is what was written *)
Lemma spec_items_id its : all_targets_archived its = true -> spec_items its = its.
Proof.
  unfold all_targets_archived, spec_items. generalize (registered its) as reg. intro reg.
  induction its as [|it r IH]; intro H; cbn [forallb map] in *; [reflexivity|].
  apply andb_true_iff in H as [H1 H2]. rewrite IH by assumption. f_equal.
  assert (HTt : forall t, targets_tgt reg t = true -> spec_tgt reg t = t).
  { intros [x|] Hx; cbn [targets_tgt spec_tgt] in *; [now rewrite Hx|reflexivity]. }
  assert (HBb : forall b, targets_body reg b = true -> spec_body reg b = b).
  { intros [|bs|k v|s|k x|hid rc tl thr tli count|hid rc size|pid ts|k h0|bs] Hx; cbn [targets_body spec_body] in *; try reflexivity.
    - now rewrite HTt.
    - f_equal. induction ts as [|t0 r0 IHr]; cbn [forallb map] in *; [reflexivity|].
      apply andb_true_iff in Hx as [Hx1 Hx2]. rewrite HTt by assumption. now rewrite IHr.
    - now rewrite HTt. }
  assert (Hl : forall l, targets_leaf reg l = true -> spec_leaf reg l = l).
  { intros [k v|bs|bs|s [t|]|id|key toks] Hl; cbn [targets_leaf spec_leaf] in *; try reflexivity; [now rewrite Hl|].
    f_equal. induction toks as [|t0 r0 IHr]; cbn [forallb map] in *; [reflexivity|].
    apply andb_true_iff in Hl as [Hl1 Hl2]. rewrite IHr by assumption. f_equal.
    unfold spec_tok. rewrite HBb by assumption. now destruct t0. }
  destruct it as [l|c id body]; cbn [targets_item spec_item] in *; [now rewrite Hl|].
  f_equal. induction body as [|l b IHb]; cbn [forallb map] in *; [reflexivity|].
  apply andb_true_iff in H1 as [Ha Hb]. rewrite Hl by assumption. now rewrite IHb.
Qed.

Theorem round_trip_identity caf vor h its :
  wf_case h its = true -> all_targets_archived its = true ->
  read caf vor h (shape its) (write h its) = OOk its.
Proof. intros H1 H2. rewrite round_trip by assumption. now rewrite spec_items_id. Qed.

(* the reader only looks at the shape *)
Lemma shape_tok_idem t : shape_tok (shape_tok t) = shape_tok t.
Proof.
  unfold shape_tok. cbn [t_vid t_body]. f_equal.
  destruct (t_body t); try reflexivity. f_equal. rewrite map_map. reflexivity.
Qed.

Lemma shape_leaf_idem l : shape_leaf (shape_leaf l) = shape_leaf l.
Proof.
  destruct l as [k v|bs|bs|s t|id|key toks]; cbn [shape_leaf]; try reflexivity.
  - now rewrite repeat_length.
  - f_equal; [now destruct key|]. rewrite map_map. apply map_ext. apply shape_tok_idem.
Qed.

Lemma shape_idem its : shape (shape its) = shape its.
Proof.
  unfold shape. rewrite map_map. apply map_ext. intros [l|c id body]; cbn [shape_item].
  - now rewrite shape_leaf_idem.
  - f_equal. rewrite map_map. apply map_ext. apply shape_leaf_idem.
Qed.
