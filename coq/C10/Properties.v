(* C10/Properties.v - the property theorems of C10, and nothing else.
   Every theorem is closed by [exact <lemma>] and followed by Print Assumptions. *)
From Coq Require Import ZArith NArith List Bool.
From Morfuse Require Import C10.Model C10.Spec C10.Proofs.
Import ListNotations.
Local Open Scope N_scope.

(* For EVERY header/version/name and EVERY sequence of Archive* calls (all primitive kinds,
   Raw blocks, byte strings - any bytes, NUL included -, plain and weak pointers - null,
   backward, forward, into the object that contains them, to objects that are only
   positioned -, object positions, script variables of every kind - none, string, integer,
   float, char, dictionary string, listener, reference, container, safe container, vector,
   arrays and constant arrays to any depth with their holders shared between variables or
   containing themselves, script pointers -, objects of the host classes with such calls
   as their body) whose values fit their C++ types and whose "new holder / shared holder"
   marks are the ones the writer computes (wf_case): a reader that makes the same sequence of calls on the bytes the writer produced
   - it only knows the shape of the items - completes without error and delivers every
   value unchanged and every pointer aimed at the reader's object that stands for the
   pointer's target; a pointer whose target was never archived comes back null.
   This holds whichever way the two repaired decisions of the reader (caf: report a short
   read; vor: version test with ||) are taken: an intact archive never triggers them. *)
Theorem C10_reading_back_what_was_written :
  forall (caf vor : bool) (h : hdr) (its : list item),
    wf_case h its = true ->
    read caf vor h (shape its) (write h its) = OOk (spec_items its).
Proof. exact round_trip. Qed.
Print Assumptions C10_reading_back_what_was_written.

(* ... and when every non-null pointer target is archived (ArchiveObject or
   ArchiveObjectPosition) somewhere in the sequence - before or after the pointer - the
   items read are exactly the items written: same values, same pointer-identity relation. *)
Theorem C10_values_and_pointer_identities_survive :
  forall (caf vor : bool) (h : hdr) (its : list item),
    wf_case h its = true -> all_targets_archived its = true ->
    read caf vor h (shape its) (write h its) = OOk its.
Proof. exact round_trip_identity. Qed.
Print Assumptions C10_values_and_pointer_identities_survive.

(* what the driver prints as "m" equals what it prints as "s" *)
Theorem C10_model_run_meets_the_specification :
  forall (h : hdr) (its : list item),
    wf_case h its = true -> snd (run_case h its) = spec_case h its.
Proof. intros h its H. exact (round_trip true true h its H). Qed.
Print Assumptions C10_model_run_meets_the_specification.

Theorem C10_the_reader_uses_only_the_shape :
  forall its : list item, shape (shape its) = shape its.
Proof. exact shape_idem. Qed.
Print Assumptions C10_the_reader_uses_only_the_shape.

(* non-vacuity: forward, backward, self and null pointers, a listener, a positioned object,
   an empty and a binary string, a NaN pattern *)
Definition ex_hdr : hdr := mkHdr [77; 70; 85; 83] 1 [77; 111; 114].
Definition ex_items : list item :=
  [ ILeaf (LPtr true (Some 5)); ILeaf (LPtr false (Some 7)); ILeaf (LStr []);
    IObj 0 5 [LPrim KInt16 32768; LPtr false (Some 5); LPtr true (Some 7); LStr [200; 1; 255]];
    IObj 2 7 [LPrim KUInt8 0; LPtr true None; LPrim KFloat 2143289344]; ILeaf (LPos 9); ILeaf (LPtr false (Some 9));
    ILeaf (LPtr false (Some 5)); ILeaf (LRaw [0; 255]) ].

Example C10_example_is_representable :
  wf_case ex_hdr ex_items = true /\ all_targets_archived ex_items = true.
Proof. vm_compute. split; reflexivity. Qed.

Example C10_example_round_trip :
  read true true ex_hdr (shape ex_items) (write ex_hdr ex_items) = OOk ex_items /\
  length (write ex_hdr ex_items) = 244%nat.
Proof. vm_compute. split; reflexivity. Qed.

(* script variables: an array shared by two variables and containing itself, a listener
   reference written before the listener, a constant array, a vector, a keyed variable *)
Definition ex_vars : list item :=
  [ ILeaf (LVar (Some (Some [107])) [mkTok 1002 (TArrayNew 5000 3 7 7 0 2); mkTok 2000 (TPrim VInt 2);
                                     mkTok 2001 (THolderRef HArray (Some 5000)); mkTok 2002 (TPrim VInt 1);
                                     mkTok 2003 (TPtr VListener (Some 5))]);
    IObj 2 5 [LPrim KUInt8 0; LVar None [mkTok 1003 (THolderRef HArray (Some 5000))]; LPtr false (Some 5)];
    ILeaf (LVar None [mkTok 1004 (TPtr VRef (Some 1002))]);
    ILeaf (LVar None [mkTok 1005 (TVector [0; 0; 0; 0; 0; 0; 128; 63; 0; 0; 0; 64])]);
    ILeaf (LVar (Some None) [mkTok 1006 (TConstArrayNew 5001 0 2); mkTok 2004 (TCStr (Some [97; 0; 98])); mkTok 2005 TNone]);
    ILeaf (LStr [0; 65; 0]) ].

Example C10_example_script_variables :
  wf_case ex_hdr ex_vars = true /\ all_targets_archived ex_vars = true /\
  read true true ex_hdr (shape ex_vars) (write ex_hdr ex_vars) = OOk ex_vars /\
  length (write ex_hdr ex_vars) = 503%nat.
Proof. vm_compute. repeat split; reflexivity. Qed.

(* a token list that calls a holder new although it is already in the archive is not a
   description of any host state: wf_case rejects it *)
Example C10_example_inconsistent_marks :
  wf_case ex_hdr [ILeaf (LVar None [mkTok 1 (TConstArrayNew 9 0 0)]); ILeaf (LVar None [mkTok 2 (TConstArrayNew 9 0 0)])] = false.
Proof. vm_compute. reflexivity. Qed.

(* a pointer to an object that is not in the archive comes back null *)
Example C10_example_dangling_target :
  read true true ex_hdr (shape [ILeaf (LPtr false (Some 3))]) (write ex_hdr [ILeaf (LPtr false (Some 3))])
  = OOk [ILeaf (LPtr false None)].
Proof. vm_compute. reflexivity. Qed.
