(* C10/Extract.v - extraction of the model and the specification (ExtrOcamlBasic only). *)
Require Extraction.
Require Import ExtrOcamlBasic.
From Morfuse Require Import C10.Model C10.Spec.
Extraction "C10_model.ml" run_case spec_case wf_case all_targets_archived.
