(* C10/ProofsWrite.v - the writer's bytes as a function of the FINAL classpointerList:
   an index handed out by AddUniqueObject never changes afterwards, so every pointer /
   position / object index in the archive is the index of its object in the final list. *)
From Coq Require Import ZArith NArith List Bool Lia.
From Morfuse Require Import Base.Arr Base.ListX C10.Model C10.Spec C10.ProofsLib.
Import ListNotations.
Local Open Scope N_scope.

Definition idx (F : list N) (id : N) : N :=
  match index_from 1 id F with Some i => i | None => 0 end.

Definition ptr_tag (safe : bool) : N := if safe then T_SafePointer else T_ObjectPointer.

Definition enc_leaf (F : list N) (l : leaf) : list N :=
  match l with
  | LPrim k v => rec_bytes (ptag k) (le_encode (pwidth k) v)
  | LRaw bs => rec_bytes T_Raw bs
  | LStr bs => w_str bs
  | LPtr s None => rec_bytes (ptr_tag s) (le_encode 4 NULLP)
  | LPtr s (Some t) => rec_bytes (ptr_tag s) (le_encode 4 (idx F t))
  | LPos id => rec_bytes T_Position (le_encode 4 (idx F id))
  end.

Fixpoint enc_leaves (F : list N) (ls : list leaf) : list N :=
  match ls with [] => [] | l :: r => enc_leaf F l ++ enc_leaves F r end.

Definition enc_body (F : list N) (c : N) (body : list leaf) : list N :=
  listener_flag c ++ enc_leaves F body.

Definition enc_item (F : list N) (it : item) : list N :=
  match it with
  | ILeaf l => enc_leaf F l
  | IObj c id body =>
      le_encode 4 T_Object ++ le_encode 8 (nlen (enc_body F c body)) ++ w_str (class_name c) ++
      rec_bytes T_UInteger (le_encode 4 (idx F id)) ++ enc_body F c body
  end.

Fixpoint enc_items (F : list N) (its : list item) : list N :=
  match its with [] => [] | i :: r => enc_item F i ++ enc_items F r end.

(* identities a leaf / an item mentions *)
Definition ids_leaf (l : leaf) : list N :=
  match l with LPtr _ (Some t) => [t] | LPos id => [id] | _ => [] end.

Definition ids_item (it : item) : list N :=
  match it with ILeaf l => ids_leaf l | IObj _ id body => id :: flat_map ids_leaf body end.

(* ---------------------------------------------------------------- index_from *)

Lemma index_from_app_in i id l m : In id l -> index_from i id (l ++ m) = index_from i id l.
Proof.
  revert i. induction l as [|x l IH]; intros i H; [destruct H|].
  cbn [app index_from]. destruct (N.eqb_spec x id) as [_|Hne]; [reflexivity|].
  apply IH. destruct H; [contradiction|assumption].
Qed.

Lemma index_from_some_in i id l j : index_from i id l = Some j -> In id l.
Proof.
  revert i. induction l as [|x l IH]; intros i H; cbn [index_from] in H; [discriminate|].
  destruct (N.eqb_spec x id) as [->|Hne]; [now left|]. right. eapply IH; eauto.
Qed.

Lemma index_from_none i id l : index_from i id l = None -> ~ In id l.
Proof.
  revert i. induction l as [|x l IH]; intros i H; cbn [index_from] in H; [intros []|].
  destruct (N.eqb_spec x id) as [->|Hne]; [discriminate|].
  intros [E|E]; [contradiction|]. eapply IH; eauto.
Qed.

Lemma index_from_notin_last i id l : ~ In id l -> index_from i id (l ++ [id]) = Some (i + nlen l).
Proof.
  revert i. induction l as [|x l IH]; intros i H; cbn [app index_from].
  - rewrite N.eqb_refl. f_equal. unfold nlen; cbn. lia.
  - destruct (N.eqb_spec x id) as [->|Hne]; [exfalso; apply H; now left|].
    rewrite IH by (intro; apply H; now right). f_equal. rewrite nlen_cons. lia.
Qed.

Lemma index_from_range i id l j : index_from i id l = Some j -> i <= j < i + nlen l.
Proof.
  revert i. induction l as [|x l IH]; intros i H; cbn [index_from] in H; [discriminate|].
  rewrite nlen_cons. destruct (N.eqb_spec x id) as [->|Hne].
  - inversion H; subst. lia.
  - apply IH in H. lia.
Qed.

Lemma index_from_inj i a b l j :
  index_from i a l = Some j -> index_from i b l = Some j -> a = b.
Proof.
  revert i. induction l as [|x l IH]; intros i Ha Hb; cbn [index_from] in *; [discriminate|].
  destruct (N.eqb_spec x a) as [Ea|Hna]; destruct (N.eqb_spec x b) as [Eb|Hnb].
  - congruence.
  - inversion Ha; subst. apply index_from_range in Hb. lia.
  - inversion Hb; subst. apply index_from_range in Ha. lia.
  - eapply IH; eauto.
Qed.

Lemma idx_in_range F id : In id F -> 1 <= idx F id <= nlen F.
Proof.
  intro H. unfold idx. destruct (index_from 1 id F) as [j|] eqn:E.
  - apply index_from_range in E. lia.
  - exfalso. eapply index_from_none; eauto.
Qed.

Lemma idx_inj F a b : In a F -> In b F -> idx F a = idx F b -> a = b.
Proof.
  intros Ha Hb. unfold idx.
  destruct (index_from 1 a F) as [i|] eqn:Ea; [|exfalso; eapply index_from_none; eauto].
  destruct (index_from 1 b F) as [j|] eqn:Eb; [|exfalso; eapply index_from_none; eauto].
  intros ->. eapply index_from_inj; eauto.
Qed.

Lemma add_unique_spec cpl id cpl' i :
  add_unique cpl id = (cpl', i) ->
  (exists ext, cpl' = cpl ++ ext) /\ index_from 1 id cpl' = Some i /\ nlen cpl' <= nlen cpl + 1.
Proof.
  unfold add_unique. destruct (index_from 1 id cpl) as [j|] eqn:E; intro H; inversion H; subst.
  - split; [exists []; now rewrite app_nil_r|]. split; [assumption|lia].
  - split; [eexists; reflexivity|]. split.
    + rewrite index_from_notin_last by (eapply index_from_none; eauto). f_equal. lia.
    + rewrite nlen_app. unfold nlen at 2; cbn. lia.
Qed.

Lemma idx_of_prefix cpl more id i : index_from 1 id cpl = Some i -> idx (cpl ++ more) id = i.
Proof.
  intro H. unfold idx. rewrite index_from_app_in by (eapply index_from_some_in; eauto). now rewrite H.
Qed.

(* ------------------------------------------------------------------- the writer *)

Definition wgood (cpl cpl' : list N) (ids : list N) (sz : N) : Prop :=
  (exists ext, cpl' = cpl ++ ext) /\ incl ids cpl' /\ nlen cpl' <= nlen cpl + sz.

Lemma wgood_ext cpl cpl' ids sz ids2 cpl2 sz2 :
  wgood cpl cpl' ids sz -> wgood cpl' cpl2 ids2 sz2 -> wgood cpl cpl2 (ids ++ ids2) (sz + sz2).
Proof.
  intros ([e1 ->] & I1 & L1) ([e2 ->] & I2 & L2). split; [|split].
  - exists (e1 ++ e2). now rewrite app_assoc.
  - intros x Hx. apply in_app_or in Hx as [Hx|Hx]; [apply in_or_app; left; now apply I1|now apply I2].
  - lia.
Qed.

Lemma write_leaf_enc cpl l cpl' b :
  write_leaf cpl l = (cpl', b) ->
  wgood cpl cpl' (ids_leaf l) 1 /\ forall more, b = enc_leaf (cpl' ++ more) l.
Proof.
  destruct l as [k v|bs|bs|s [t|]|id]; cbn [write_leaf enc_leaf ids_leaf]; intro H;
    try (inversion H; subst; split; [split; [exists []; now rewrite app_nil_r|split; [intros x []|lia]]|reflexivity]).
  - destruct (add_unique cpl t) as [c1 i] eqn:E. inversion H; subst.
    destruct (add_unique_spec _ _ _ _ E) as (Hx & Hi & Hl).
    split; [split; [assumption|split; [|assumption]]|].
    + intros x [<-|[]]. eapply index_from_some_in; eauto.
    + intro more. now rewrite (idx_of_prefix _ more _ _ Hi).
  - destruct (add_unique cpl id) as [c1 i] eqn:E. inversion H; subst.
    destruct (add_unique_spec _ _ _ _ E) as (Hx & Hi & Hl).
    split; [split; [assumption|split; [|assumption]]|].
    + intros x [<-|[]]. eapply index_from_some_in; eauto.
    + intro more. now rewrite (idx_of_prefix _ more _ _ Hi).
Qed.

Lemma write_leaves_enc ls : forall cpl cpl' b,
  write_leaves cpl ls = (cpl', b) ->
  wgood cpl cpl' (flat_map ids_leaf ls) (nlen ls) /\ forall more, b = enc_leaves (cpl' ++ more) ls.
Proof.
  induction ls as [|l r IH]; intros cpl cpl' b H; cbn [write_leaves enc_leaves flat_map] in *.
  - inversion H; subst. split; [|reflexivity].
    split; [exists []; now rewrite app_nil_r|split; [intros x []|unfold nlen; cbn; lia]].
  - destruct (write_leaf cpl l) as [c1 b1] eqn:E1. destruct (write_leaves c1 r) as [c2 b2] eqn:E2.
    inversion H; subst.
    destruct (write_leaf_enc _ _ _ _ E1) as (G1 & B1). destruct (IH _ _ _ E2) as (G2 & B2).
    split.
    + rewrite nlen_cons. eapply wgood_ext; eauto.
    + intro more. destruct G2 as ([e2 ->] & _ & _).
      rewrite <- app_assoc. rewrite <- (B1 (e2 ++ more)). rewrite app_assoc. now rewrite <- (B2 more).
Qed.

Definition count_item (it : item) : N :=
  match it with ILeaf _ => 1 | IObj _ _ body => 1 + nlen body end.

Fixpoint count_items (its : list item) : N :=
  match its with [] => 0 | i :: r => count_item i + count_items r end.

Lemma write_item_enc cpl it cpl' b :
  write_item cpl it = (cpl', b) ->
  wgood cpl cpl' (ids_item it) (count_item it) /\ forall more, b = enc_item (cpl' ++ more) it.
Proof.
  destruct it as [l|c id body]; cbn [write_item enc_item ids_item count_item]; intro H.
  - now apply write_leaf_enc.
  - destruct (add_unique cpl id) as [c1 i] eqn:E. destruct (write_leaves c1 body) as [c2 bb] eqn:E2.
    inversion H; subst.
    destruct (add_unique_spec _ _ _ _ E) as (Hx & Hi & Hl).
    destruct (write_leaves_enc _ _ _ _ E2) as (G2 & B2).
    split.
    + change (id :: flat_map ids_leaf body) with ([id] ++ flat_map ids_leaf body).
      eapply wgood_ext; [|exact G2].
      split; [assumption|split; [|assumption]]. intros x [<-|[]]. eapply index_from_some_in; eauto.
    + intro more. unfold enc_body. rewrite <- (B2 more).
      destruct G2 as ([e2 ->] & _ & _). rewrite <- app_assoc. now rewrite (idx_of_prefix _ (e2 ++ more) _ _ Hi).
Qed.

Lemma write_items_enc its : forall cpl cpl' b,
  write_items cpl its = (cpl', b) ->
  wgood cpl cpl' (flat_map ids_item its) (count_items its) /\ forall more, b = enc_items (cpl' ++ more) its.
Proof.
  induction its as [|it r IH]; intros cpl cpl' b H; cbn [write_items enc_items flat_map count_items] in *.
  - inversion H; subst. split; [|reflexivity].
    split; [exists []; now rewrite app_nil_r|split; [intros x []|lia]].
  - destruct (write_item cpl it) as [c1 b1] eqn:E1. destruct (write_items c1 r) as [c2 b2] eqn:E2.
    inversion H; subst.
    destruct (write_item_enc _ _ _ _ E1) as (G1 & B1). destruct (IH _ _ _ E2) as (G2 & B2).
    split.
    + eapply wgood_ext; eauto.
    + intro more. destruct G2 as ([e2 ->] & _ & _).
      rewrite <- app_assoc. rewrite <- (B1 (e2 ++ more)). rewrite app_assoc. now rewrite <- (B2 more).
Qed.

(* the whole archive *)
Lemma write_as_enc h its :
  exists F, write h its = write_header h (nlen F) ++ enc_items F its /\
            incl (flat_map ids_item its) F /\ nlen F <= count_items its.
Proof.
  unfold write. destruct (write_items [] its) as [F b] eqn:E.
  destruct (write_items_enc _ _ _ _ E) as ((_ & I & L) & B).
  exists F. split; [|split; [assumption|]].
  - f_equal. specialize (B []). now rewrite app_nil_r in B.
  - unfold nlen in L at 2. cbn in L. lia.
Qed.
