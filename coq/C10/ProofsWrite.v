(* C10/ProofsWrite.v - the writer's bytes as a function of the FINAL classpointerList:
   an index handed out by AddUniqueObject never changes afterwards, so every pointer /
   position / object index in the archive is the index of its object in the final list. *)
From Coq Require Import ZArith NArith List Bool Lia.
From Morfuse Require Import Base.Arr Base.ListX C10.Model C10.Spec C10.ProofsLib.
Import ListNotations.
Local Open Scope N_scope.

Definition idx (F : list N) (id : N) : N :=
  match index_from 1 id F with Some i => i | None => 0 end.

Definition ptr_tag (safe : bool) : N := if safe then T_SafePointer else T_ObjectPointer.

(* script variables *)
Definition enc_ptr (F : list N) (safe : bool) (t : option N) : list N :=
  rec_bytes (ptr_tag_of safe) (le_encode 4 (match t with None => NULLP | Some x => idx F x end)).

Fixpoint enc_ptrs (F : list N) (ts : list (option N)) : list N :=
  match ts with [] => [] | t :: r => enc_ptr F false t ++ enc_ptrs F r end.

Definition enc_new (F : list N) (hid : N) (content : list N) : list N :=
  rec_bytes T_Boolean [1] ++ rec_bytes T_Position (le_encode 4 (idx F hid)) ++ content.

Definition enc_tbody (F : list N) (b : tbody (option N)) : list N :=
  match b with
  | TNone => []
  | TStr bs => w_str bs
  | TPrim k v => rec_bytes (vp_tag k) (le_encode (vp_width k) v)
  | TCStr s => w_cstr s
  | TPtr k x => enc_ptr F (vptr_safe k) x
  | TArrayNew hid rc tl thr tli count =>
      enc_new F hid (u32 rc ++ u32 tl ++ u32 thr ++ u32 count ++ rec_bytes T_UShort (le_encode 2 tli))
  | TConstArrayNew hid rc size => enc_new F hid (u32 rc ++ u32 size)
  | TPointerNew pid ts => enc_new F pid (u32 (nlen ts) ++ enc_ptrs F ts)
  | THolderRef _ None => []
  | THolderRef _ (Some hid) => rec_bytes T_Boolean [0] ++ enc_ptr F false (Some hid)
  | TVector bs => rec_bytes T_Raw bs ++ rec_bytes T_Raw bs ++ rec_bytes T_Raw bs
  end.

Definition enc_tok (F : list N) (t : tok (option N)) : list N :=
  rec_bytes T_Position (le_encode 4 (idx F (t_vid t))) ++ rec_bytes T_Byte [vtype (t_body t)] ++
  enc_tbody F (t_body t).

Fixpoint enc_toks (F : list N) (ts : list (tok (option N))) : list N :=
  match ts with [] => [] | t :: r => enc_tok F t ++ enc_toks F r end.

Definition enc_leaf (F : list N) (l : leaf) : list N :=
  match l with
  | LPrim k v => rec_bytes (ptag k) (le_encode (pwidth k) v)
  | LRaw bs => rec_bytes T_Raw bs
  | LStr bs => w_str bs
  | LPtr s None => rec_bytes (ptr_tag s) (le_encode 4 NULLP)
  | LPtr s (Some t) => rec_bytes (ptr_tag s) (le_encode 4 (idx F t))
  | LPos id => rec_bytes T_Position (le_encode 4 (idx F id))
  | LVar key toks => w_key key ++ enc_toks F toks
  end.

Fixpoint enc_leaves (F : list N) (ls : list leaf) : list N :=
  match ls with [] => [] | l :: r => enc_leaf F l ++ enc_leaves F r end.

Definition enc_body (F : list N) (c : N) (body : list leaf) : list N :=
  listener_flag c ++ enc_leaves F body.

Definition enc_item (F : list N) (it : item) : list N :=
  match it with
  | ILeaf l => enc_leaf F l
  | IObj c id body =>
      le_encode 4 T_Object ++ le_encode 8 (nlen (enc_body F c body)) ++ w_str (class_name c) ++
      rec_bytes T_UInteger (le_encode 4 (idx F id)) ++ enc_body F c body
  end.

Fixpoint enc_items (F : list N) (its : list item) : list N :=
  match its with [] => [] | i :: r => enc_item F i ++ enc_items F r end.

(* identities a leaf / an item mentions *)
Definition ids_tgt (t : option N) : list N := match t with Some x => [x] | None => [] end.

Definition ids_body (b : tbody (option N)) : list N :=
  match b with
  | TPtr _ t => ids_tgt t
  | TArrayNew hid _ _ _ _ _ => [hid]
  | TConstArrayNew hid _ _ => [hid]
  | TPointerNew pid ts => pid :: flat_map ids_tgt ts
  | THolderRef _ h => ids_tgt h
  | _ => []
  end.

Definition ids_tok (t : tok (option N)) : list N := t_vid t :: ids_body (t_body t).

Definition ids_leaf (l : leaf) : list N :=
  match l with
  | LPtr _ (Some t) => [t]
  | LPos id => [id]
  | LVar _ toks => flat_map ids_tok toks
  | _ => []
  end.

Definition ids_item (it : item) : list N :=
  match it with ILeaf l => ids_leaf l | IObj _ id body => id :: flat_map ids_leaf body end.

(* ---------------------------------------------------------------- index_from *)

Lemma index_from_app_in i id l m : In id l -> index_from i id (l ++ m) = index_from i id l.
Proof.
  revert i. induction l as [|x l IH]; intros i H; [destruct H|].
  cbn [app index_from]. destruct (N.eqb_spec x id) as [_|Hne]; [reflexivity|].
  apply IH. destruct H; [contradiction|assumption].
Qed.

Lemma index_from_some_in i id l j : index_from i id l = Some j -> In id l.
Proof.
  revert i. induction l as [|x l IH]; intros i H; cbn [index_from] in H; [discriminate|].
  destruct (N.eqb_spec x id) as [->|Hne]; [now left|]. right. eapply IH; eauto.
Qed.

Lemma index_from_none i id l : index_from i id l = None -> ~ In id l.
Proof.
  revert i. induction l as [|x l IH]; intros i H; cbn [index_from] in H; [intros []|].
  destruct (N.eqb_spec x id) as [->|Hne]; [discriminate|].
  intros [E|E]; [contradiction|]. eapply IH; eauto.
Qed.

Lemma index_from_notin_last i id l : ~ In id l -> index_from i id (l ++ [id]) = Some (i + nlen l).
Proof.
  revert i. induction l as [|x l IH]; intros i H; cbn [app index_from].
  - rewrite N.eqb_refl. f_equal. unfold nlen; cbn. lia.
  - destruct (N.eqb_spec x id) as [->|Hne]; [exfalso; apply H; now left|].
    rewrite IH by (intro; apply H; now right). f_equal. rewrite nlen_cons. lia.
Qed.

Lemma index_from_range i id l j : index_from i id l = Some j -> i <= j < i + nlen l.
Proof.
  revert i. induction l as [|x l IH]; intros i H; cbn [index_from] in H; [discriminate|].
  rewrite nlen_cons. destruct (N.eqb_spec x id) as [->|Hne].
  - inversion H; subst. lia.
  - apply IH in H. lia.
Qed.

Lemma index_from_inj i a b l j :
  index_from i a l = Some j -> index_from i b l = Some j -> a = b.
Proof.
  revert i. induction l as [|x l IH]; intros i Ha Hb; cbn [index_from] in *; [discriminate|].
  destruct (N.eqb_spec x a) as [Ea|Hna]; destruct (N.eqb_spec x b) as [Eb|Hnb].
  - congruence.
  - inversion Ha; subst. apply index_from_range in Hb. lia.
  - inversion Hb; subst. apply index_from_range in Ha. lia.
  - eapply IH; eauto.
Qed.

Lemma idx_in_range F id : In id F -> 1 <= idx F id <= nlen F.
Proof.
  intro H. unfold idx. destruct (index_from 1 id F) as [j|] eqn:E.
  - apply index_from_range in E. lia.
  - exfalso. eapply index_from_none; eauto.
Qed.

Lemma idx_inj F a b : In a F -> In b F -> idx F a = idx F b -> a = b.
Proof.
  intros Ha Hb. unfold idx.
  destruct (index_from 1 a F) as [i|] eqn:Ea; [|exfalso; eapply index_from_none; eauto].
  destruct (index_from 1 b F) as [j|] eqn:Eb; [|exfalso; eapply index_from_none; eauto].
  intros ->. eapply index_from_inj; eauto.
Qed.

Lemma add_unique_spec cpl id cpl' i :
  add_unique cpl id = (cpl', i) ->
  (exists ext, cpl' = cpl ++ ext) /\ index_from 1 id cpl' = Some i /\ nlen cpl' <= nlen cpl + 1.
Proof.
  unfold add_unique. destruct (index_from 1 id cpl) as [j|] eqn:E; intro H; inversion H; subst.
  - split; [exists []; now rewrite app_nil_r|]. split; [assumption|lia].
  - split; [eexists; reflexivity|]. split.
    + rewrite index_from_notin_last by (eapply index_from_none; eauto). f_equal. lia.
    + rewrite nlen_app. unfold nlen at 2; cbn. lia.
Qed.

Lemma idx_of_prefix cpl more id i : index_from 1 id cpl = Some i -> idx (cpl ++ more) id = i.
Proof.
  intro H. unfold idx. rewrite index_from_app_in by (eapply index_from_some_in; eauto). now rewrite H.
Qed.

(* ------------------------------------------------------------------- the writer *)

Definition wgood (cpl cpl' : list N) (ids : list N) (sz : N) : Prop :=
  (exists ext, cpl' = cpl ++ ext) /\ incl ids cpl' /\ nlen cpl' <= nlen cpl + sz.

Lemma wgood_ext cpl cpl' ids sz ids2 cpl2 sz2 :
  wgood cpl cpl' ids sz -> wgood cpl' cpl2 ids2 sz2 -> wgood cpl cpl2 (ids ++ ids2) (sz + sz2).
Proof.
  intros ([e1 ->] & I1 & L1) ([e2 ->] & I2 & L2). split; [|split].
  - exists (e1 ++ e2). now rewrite app_assoc.
  - intros x Hx. apply in_app_or in Hx as [Hx|Hx]; [apply in_or_app; left; now apply I1|now apply I2].
  - lia.
Qed.

Lemma wgood_refl cpl : wgood cpl cpl [] 0.
Proof. split; [exists []; now rewrite app_nil_r|split; [intros x []|lia]]. Qed.

Lemma wgood_weaken cpl cpl' ids n m : wgood cpl cpl' ids n -> n <= m -> wgood cpl cpl' ids m.
Proof. intros (E & I & L) H. split; [assumption|split; [assumption|lia]]. Qed.

Lemma wgood_add cpl id cpl' i :
  add_unique cpl id = (cpl', i) -> wgood cpl cpl' [id] 1 /\ forall more, idx (cpl' ++ more) id = i.
Proof.
  intro E. destruct (add_unique_spec _ _ _ _ E) as (Hx & Hi & Hl). split.
  - split; [assumption|split; [|assumption]]. intros x [<-|[]]. eapply index_from_some_in; eauto.
  - intro more. now apply idx_of_prefix.
Qed.

Lemma memN_in x l : memN x l = true <-> In x l.
Proof.
  unfold memN. rewrite existsb_exists. split.
  - intros (y & Hy & E). apply N.eqb_eq in E. now subst.
  - intro H. exists x. split; [assumption|apply N.eqb_refl].
Qed.

Lemma w_ptr_enc cpl safe t cpl' b :
  w_ptr cpl safe t = (cpl', b) ->
  wgood cpl cpl' (ids_tgt t) 1 /\ forall more, b = enc_ptr (cpl' ++ more) safe t.
Proof.
  unfold w_ptr, enc_ptr. destruct t as [x|]; cbn [ids_tgt].
  - destruct (add_unique cpl x) as [c1 i] eqn:E. intro H. inversion H; subst.
    destruct (wgood_add _ _ _ _ E) as (G & I). split; [assumption|]. intro more. now rewrite I.
  - intro H. inversion H; subst. split; [eapply wgood_weaken; [apply wgood_refl|lia]|reflexivity].
Qed.

Lemma w_ptrs_enc ts : forall cpl cpl' b,
  w_ptrs cpl ts = (cpl', b) ->
  wgood cpl cpl' (flat_map ids_tgt ts) (nlen ts) /\ forall more, b = enc_ptrs (cpl' ++ more) ts.
Proof.
  induction ts as [|t r IH]; intros cpl cpl' b H; cbn [w_ptrs enc_ptrs flat_map] in *.
  - inversion H; subst. split; [apply wgood_refl|reflexivity].
  - destruct (w_ptr cpl false t) as [c1 b1] eqn:E1. destruct (w_ptrs c1 r) as [c2 b2] eqn:E2.
    inversion H; subst.
    destruct (w_ptr_enc _ _ _ _ _ E1) as (G1 & B1). destruct (IH _ _ _ E2) as (G2 & B2).
    split.
    + rewrite nlen_cons. eapply wgood_ext; eauto.
    + intro more. destruct G2 as ([e2 ->] & _ & _).
      rewrite <- app_assoc. rewrite <- (B1 (e2 ++ more)). rewrite app_assoc. now rewrite <- (B2 more).
Qed.

(* how much a token can add to classpointerList *)
Definition cnt_body (b : tbody (option N)) : N :=
  match b with TPointerNew _ ts => 1 + nlen ts | _ => 1 end.

Definition cnt_tok (t : tok (option N)) : N := 1 + cnt_body (t_body t).

Fixpoint cnt_toks (ts : list (tok (option N))) : N :=
  match ts with [] => 0 | t :: r => cnt_tok t + cnt_toks r end.

Lemma write_tok_enc cpl t cpl' b :
  write_tok cpl t = (cpl', b) -> cons_tok cpl t = true ->
  wgood cpl cpl' (ids_tok t) (cnt_tok t) /\ forall more, b = enc_tok (cpl' ++ more) t.
Proof.
  unfold write_tok, cons_tok, enc_tok, ids_tok, cnt_tok.
  destruct (add_unique cpl (t_vid t)) as [c1 i] eqn:E. cbn [fst].
  destruct (wgood_add _ _ _ _ E) as (G0 & I0).
  assert (Hpre : forall c2 bb ids n (bfin : list N -> list N),
            wgood c1 c2 ids n -> (forall more, bb = bfin (c2 ++ more)) ->
            wgood cpl c2 (t_vid t :: ids) (1 + n) /\
            forall more, (rec_bytes T_Position (le_encode 4 i) ++ rec_bytes T_Byte [vtype (t_body t)]) ++ bb =
                         rec_bytes T_Position (le_encode 4 (idx (c2 ++ more) (t_vid t))) ++
                         rec_bytes T_Byte [vtype (t_body t)] ++ bfin (c2 ++ more)).
  { intros c2 bb ids n bfin G B. split.
    - change (t_vid t :: ids) with ([t_vid t] ++ ids). eapply wgood_ext; eauto.
    - intro more. destruct G as ([e ->] & _ & _). rewrite <- (app_assoc c1 e more). rewrite (I0 (e ++ more)).
      rewrite <- app_assoc. do 2 f_equal. rewrite (app_assoc c1 e more). apply B. }
  assert (Hholder : forall hid content c2 bb ids n (cfin : list N -> list N),
            memN hid c1 = false ->
            (forall c c' b', content c = (c', b') -> wgood c c' ids n /\ forall more, b' = cfin (c' ++ more)) ->
            w_holder c1 hid content = (c2, bb) ->
            wgood c1 c2 (hid :: ids) (1 + n) /\ forall more, bb = enc_new (c2 ++ more) hid (cfin (c2 ++ more))).
  { intros hid content c2 bb ids n cfin Hm Hc Hw. unfold w_holder in Hw. rewrite Hm in Hw.
    destruct (add_unique c1 hid) as [c3 j] eqn:Ej. destruct (content c3) as [c4 b4] eqn:Ec. inversion Hw; subst.
    destruct (wgood_add _ _ _ _ Ej) as (Gj & Ij). destruct (Hc _ _ _ Ec) as (Gc & Bc). split.
    - change (hid :: ids) with ([hid] ++ ids). eapply wgood_ext; eauto.
    - intro more. unfold enc_new. destruct Gc as ([e ->] & _ & _). rewrite <- app_assoc, <- (Ij (e ++ more)).
      rewrite app_assoc. now rewrite <- (Bc more). }
  destruct (t_body t) as [|bs|k v|s|k x|hid rc tl thr tli count|hid rc size|pid ts|k [hid|]|bs] eqn:Eb;
    cbn [enc_tbody ids_body cnt_body]; intros H Hc.
  - injection H as <- <-. destruct (Hpre c1 _ [] 0 (fun _ => []) (wgood_refl _) (fun _ => eq_refl)) as (G & B).
    split; [eapply wgood_weaken; [exact G|lia]|exact B].
  - injection H as <- <-. destruct (Hpre c1 _ [] 0 (fun _ => w_str bs) (wgood_refl _) (fun _ => eq_refl)) as (G & B).
    split; [eapply wgood_weaken; [exact G|lia]|exact B].
  - injection H as <- <-. destruct (Hpre c1 _ [] 0 (fun _ => rec_bytes (vp_tag k) (le_encode (vp_width k) v)) (wgood_refl _) (fun _ => eq_refl)) as (G & B).
    split; [eapply wgood_weaken; [exact G|lia]|exact B].
  - injection H as <- <-. destruct (Hpre c1 _ [] 0 (fun _ => w_cstr s) (wgood_refl _) (fun _ => eq_refl)) as (G & B).
    split; [eapply wgood_weaken; [exact G|lia]|exact B].
  - destruct (w_ptr c1 (vptr_safe k) x) as [c2 b2] eqn:E2. injection H as <- <-.
    destruct (w_ptr_enc _ _ _ _ _ E2) as (G2 & B2).
    destruct (Hpre c2 b2 _ 1 (fun F => enc_ptr F (vptr_safe k) x) G2 B2) as (G & B). split; [eapply wgood_weaken; [exact G|lia]|exact B].
  - apply negb_true_iff in Hc.
    set (content := fun c : list N => (c, u32 rc ++ u32 tl ++ u32 thr ++ u32 count ++ rec_bytes T_UShort (le_encode 2 tli))) in *.
    destruct (w_holder c1 hid content) as [c2 b2] eqn:E2. injection H as <- <-.
    destruct (Hholder hid content c2 b2 [] 0
                (fun _ => u32 rc ++ u32 tl ++ u32 thr ++ u32 count ++ rec_bytes T_UShort (le_encode 2 tli)) Hc) as (G2 & B2); [|exact E2|].
    { intros c c' b' Hcc. inversion Hcc; subst. split; [apply wgood_refl|reflexivity]. }
    destruct (Hpre c2 b2 _ _ (fun F => enc_new F hid (u32 rc ++ u32 tl ++ u32 thr ++ u32 count ++ rec_bytes T_UShort (le_encode 2 tli))) G2 B2) as (G & B).
    split; [eapply wgood_weaken; [exact G|lia]|exact B].
  - apply negb_true_iff in Hc.
    set (content := fun c : list N => (c, u32 rc ++ u32 size)) in *.
    destruct (w_holder c1 hid content) as [c2 b2] eqn:E2. injection H as <- <-.
    destruct (Hholder hid content c2 b2 [] 0 (fun _ => u32 rc ++ u32 size) Hc) as (G2 & B2); [|exact E2|].
    { intros c c' b' Hcc. inversion Hcc; subst. split; [apply wgood_refl|reflexivity]. }
    destruct (Hpre c2 b2 _ _ (fun F => enc_new F hid (u32 rc ++ u32 size)) G2 B2) as (G & B).
    split; [eapply wgood_weaken; [exact G|lia]|exact B].
  - apply negb_true_iff in Hc.
    set (content := fun c : list N => let (c', b) := w_ptrs c ts in (c', u32 (nlen ts) ++ b)) in *.
    destruct (w_holder c1 pid content) as [c2 b2] eqn:E2. injection H as <- <-.
    destruct (Hholder pid content c2 b2 (flat_map ids_tgt ts) (nlen ts) (fun F => u32 (nlen ts) ++ enc_ptrs F ts) Hc) as (G2 & B2); [|exact E2|].
    { intros c c' b' Hcc. unfold content in Hcc. destruct (w_ptrs c ts) as [c5 b5] eqn:E5. inversion Hcc; subst.
      destruct (w_ptrs_enc _ _ _ _ E5) as (G5 & B5). split; [assumption|]. intro more. now rewrite <- (B5 more). }
    destruct (Hpre c2 b2 _ _ (fun F => enc_new F pid (u32 (nlen ts) ++ enc_ptrs F ts)) G2 B2) as (G & B).
    split; [eapply wgood_weaken; [exact G|lia]|exact B].
  - unfold w_holder in H. rewrite Hc in H.
    destruct (w_ptr c1 false (Some hid)) as [c3 b3] eqn:E3. injection H as <- <-.
    destruct (w_ptr_enc _ _ _ _ _ E3) as (G3 & B3).
    destruct (Hpre c3 (rec_bytes T_Boolean [0] ++ b3) _ 1 (fun F => rec_bytes T_Boolean [0] ++ enc_ptr F false (Some hid)) G3) as (G & B).
    { intro more. now rewrite <- (B3 more). }
    split; [eapply wgood_weaken; [exact G|lia]|exact B].
  - injection H as <- <-. destruct (Hpre c1 _ [] 0 (fun _ => []) (wgood_refl _) (fun _ => eq_refl)) as (G & B).
    split; [eapply wgood_weaken; [exact G|lia]|exact B].
  - injection H as <- <-.
    destruct (Hpre c1 _ [] 0 (fun _ => rec_bytes T_Raw bs ++ rec_bytes T_Raw bs ++ rec_bytes T_Raw bs) (wgood_refl _) (fun _ => eq_refl)) as (G & B).
    split; [eapply wgood_weaken; [exact G|lia]|exact B].
Qed.

Lemma write_toks_enc ts : forall cpl cpl' b,
  write_toks cpl ts = (cpl', b) -> cons_toks cpl ts = true ->
  wgood cpl cpl' (flat_map ids_tok ts) (cnt_toks ts) /\ forall more, b = enc_toks (cpl' ++ more) ts.
Proof.
  induction ts as [|t r IH]; intros cpl cpl' b H Hc; cbn [write_toks enc_toks flat_map cnt_toks cons_toks] in *.
  - inversion H; subst. split; [apply wgood_refl|reflexivity].
  - apply andb_true_iff in Hc as [Hc1 Hc2].
    destruct (write_tok cpl t) as [c1 b1] eqn:E1. destruct (write_toks c1 r) as [c2 b2] eqn:E2.
    inversion H; subst. cbn [fst] in Hc2.
    destruct (write_tok_enc _ _ _ _ E1 Hc1) as (G1 & B1). destruct (IH _ _ _ E2 Hc2) as (G2 & B2).
    split.
    + eapply wgood_ext; eauto.
    + intro more. destruct G2 as ([e2 ->] & _ & _).
      rewrite <- app_assoc. rewrite <- (B1 (e2 ++ more)). rewrite app_assoc. now rewrite <- (B2 more).
Qed.

Definition count_leaf (l : leaf) : N :=
  match l with LVar _ toks => cnt_toks toks | _ => 1 end.

Fixpoint count_leaves (ls : list leaf) : N :=
  match ls with [] => 0 | l :: r => count_leaf l + count_leaves r end.

Lemma write_leaf_enc cpl l cpl' b :
  write_leaf cpl l = (cpl', b) -> cons_leaf cpl l = true ->
  wgood cpl cpl' (ids_leaf l) (count_leaf l) /\ forall more, b = enc_leaf (cpl' ++ more) l.
Proof.
  destruct l as [k v|bs|bs|s [t|]|id|key toks]; cbn [write_leaf enc_leaf ids_leaf count_leaf cons_leaf]; intros H Hc;
    try (inversion H; subst; split; [split; [exists []; now rewrite app_nil_r|split; [intros x []|lia]]|reflexivity]).
  - destruct (add_unique cpl t) as [c1 i] eqn:E. inversion H; subst.
    destruct (add_unique_spec _ _ _ _ E) as (Hx & Hi & Hl).
    split; [split; [assumption|split; [|assumption]]|].
    + intros x [<-|[]]. eapply index_from_some_in; eauto.
    + intro more. now rewrite (idx_of_prefix _ more _ _ Hi).
  - destruct (add_unique cpl id) as [c1 i] eqn:E. inversion H; subst.
    destruct (add_unique_spec _ _ _ _ E) as (Hx & Hi & Hl).
    split; [split; [assumption|split; [|assumption]]|].
    + intros x [<-|[]]. eapply index_from_some_in; eauto.
    + intro more. now rewrite (idx_of_prefix _ more _ _ Hi).
  - destruct (write_toks cpl toks) as [c1 b1] eqn:E. inversion H; subst.
    destruct (write_toks_enc _ _ _ _ E Hc) as (G & B). split; [assumption|].
    intro more. now rewrite <- (B more).
Qed.

Lemma write_leaves_enc ls : forall cpl cpl' b,
  write_leaves cpl ls = (cpl', b) -> cons_leaves cpl ls = true ->
  wgood cpl cpl' (flat_map ids_leaf ls) (count_leaves ls) /\ forall more, b = enc_leaves (cpl' ++ more) ls.
Proof.
  induction ls as [|l r IH]; intros cpl cpl' b H Hc; cbn [write_leaves enc_leaves flat_map count_leaves cons_leaves] in *.
  - inversion H; subst. split; [apply wgood_refl|reflexivity].
  - apply andb_true_iff in Hc as [Hc1 Hc2].
    destruct (write_leaf cpl l) as [c1 b1] eqn:E1. destruct (write_leaves c1 r) as [c2 b2] eqn:E2.
    inversion H; subst. cbn [fst] in Hc2.
    destruct (write_leaf_enc _ _ _ _ E1 Hc1) as (G1 & B1). destruct (IH _ _ _ E2 Hc2) as (G2 & B2).
    split.
    + eapply wgood_ext; eauto.
    + intro more. destruct G2 as ([e2 ->] & _ & _).
      rewrite <- app_assoc. rewrite <- (B1 (e2 ++ more)). rewrite app_assoc. now rewrite <- (B2 more).
Qed.

Definition count_item (it : item) : N :=
  match it with ILeaf l => count_leaf l | IObj _ _ body => 1 + count_leaves body end.

Fixpoint count_items (its : list item) : N :=
  match its with [] => 0 | i :: r => count_item i + count_items r end.

Lemma write_item_enc cpl it cpl' b :
  write_item cpl it = (cpl', b) -> cons_item cpl it = true ->
  wgood cpl cpl' (ids_item it) (count_item it) /\ forall more, b = enc_item (cpl' ++ more) it.
Proof.
  destruct it as [l|c id body]; cbn [write_item enc_item ids_item count_item cons_item]; intros H Hc.
  - now apply write_leaf_enc.
  - destruct (add_unique cpl id) as [c1 i] eqn:E. cbn [fst] in Hc. destruct (write_leaves c1 body) as [c2 bb] eqn:E2.
    inversion H; subst.
    destruct (add_unique_spec _ _ _ _ E) as (Hx & Hi & Hl).
    destruct (write_leaves_enc _ _ _ _ E2 Hc) as (G2 & B2).
    split.
    + change (id :: flat_map ids_leaf body) with ([id] ++ flat_map ids_leaf body).
      eapply wgood_ext; [|exact G2].
      split; [assumption|split; [|assumption]]. intros x [<-|[]]. eapply index_from_some_in; eauto.
    + intro more. unfold enc_body. rewrite <- (B2 more).
      destruct G2 as ([e2 ->] & _ & _). rewrite <- app_assoc. now rewrite (idx_of_prefix _ (e2 ++ more) _ _ Hi).
Qed.

Lemma write_items_enc its : forall cpl cpl' b,
  write_items cpl its = (cpl', b) -> cons_items cpl its = true ->
  wgood cpl cpl' (flat_map ids_item its) (count_items its) /\ forall more, b = enc_items (cpl' ++ more) its.
Proof.
  induction its as [|it r IH]; intros cpl cpl' b H Hc; cbn [write_items enc_items flat_map count_items cons_items] in *.
  - inversion H; subst. split; [apply wgood_refl|reflexivity].
  - apply andb_true_iff in Hc as [Hc1 Hc2].
    destruct (write_item cpl it) as [c1 b1] eqn:E1. destruct (write_items c1 r) as [c2 b2] eqn:E2.
    inversion H; subst. cbn [fst] in Hc2.
    destruct (write_item_enc _ _ _ _ E1 Hc1) as (G1 & B1). destruct (IH _ _ _ E2 Hc2) as (G2 & B2).
    split.
    + eapply wgood_ext; eauto.
    + intro more. destruct G2 as ([e2 ->] & _ & _).
      rewrite <- app_assoc. rewrite <- (B1 (e2 ++ more)). rewrite app_assoc. now rewrite <- (B2 more).
Qed.

(* the whole archive *)
Lemma write_as_enc h its :
  cons_items [] its = true ->
  exists F, write h its = write_header h (nlen F) ++ enc_items F its /\
            incl (flat_map ids_item its) F /\ nlen F <= count_items its.
Proof.
  intro Hc. unfold write. destruct (write_items [] its) as [F b] eqn:E.
  destruct (write_items_enc _ _ _ _ E Hc) as ((_ & I & L) & B).
  exists F. split; [|split; [assumption|]].
  - f_equal. specialize (B []). now rewrite app_nil_r in B.
  - unfold nlen in L at 2. cbn in L. lia.
Qed.
