(* C18arr/Extract.v - extraction of the model and the specification (ExtrOcamlBasic only). *)
Require Extraction.
Require Import ExtrOcamlBasic.
From Morfuse Require Import C18arr.Model C18arr.Spec.
Extraction "C18arr_model.ml" run run_tlen spec_run.
