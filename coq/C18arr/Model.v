(* C18arr/Model.v - executable model of con::arrayset<K,V,HashT,KeyEqT,AllocatorT>
   (include/morfuse/Container/arrayset.h, growth sizes from src/Container/set.cpp), the
   indexed set behind StringDictionary, at the level of the code.

   What is modelled
   - one flat memory [cells] of entry pointers.  Address 0 is the member [defaultEntry];
     every table block handed out by AllocTable (2*n pointers: n chain heads followed by the
     n cells of the reverse table) gets fresh addresses from a bump pointer [brk] and is
     never reused.  [tbl] is the address of table[0], [rev1] the address of reverseTable[1]
     (the C++ keeps reverseTable = that address - 1, indices are 1-based).  The constructor
     and clear() set table = &defaultEntry and reverseTable = &defaultEntry - 1, i.e.
     tbl = rev1 = 0: table[0], reverseTable[1] and defaultEntry are then the SAME cell.
     clear() resets reverseTable only when tableLength > 1 and frees the table only when
     tableLength > 1; resize(1) (shrink() with one element) allocates a separate block,
     so after it tbl/rev1 point into the heap although tableLength = 1, and a following
     clear() leaves rev1 pointing into that (leaked) block.
   - entries {value, next, index} as arrays indexed by a fresh entry id; Key() and Value()
     return the same field [ekey]; [elive] records DeleteEntry.
   - addKeyEntry / addNewKeyEntry (count >= threshold -> rehash -> resize(next prime);
     index recomputed; count++; entry index = new count; the defaultEntry == nullptr branch
     that sets next = nullptr instead of table[index]; table[index] = entry;
     reverseTable[count] = entry), findKeyEntry / findKeyIndex, operator[], resize (new
     block, every old bucket from the last to the first re-linked at the head of its new
     chain, the hash is taken of the entry's value field; reverse table copied for the
     indices 1..min(old,new) from the highest down), rehash (first prime of set_primes
     greater than tableLength; the 24th element of set_primes is 0), shrink, clear (chains
     deleted bucket by bucket), size, remove (reverse table scan 1..tableLength, then the
     chain unlink with the defaultEntry = prev update BEFORE the unlink, count--).
   - undefined behaviour of the C++ is the outcome [Undef]: operator[] outside the reverse
     table, through a null cell or through a deleted entry; remove's scan reading a deleted
     entry; resize(0) (the next hash computation is a division by zero).  The client-level
     preconditions "resize(n) needs n >= size()" (otherwise reverseTable[count] is written
     behind the block) and n <= max_len are checked by [step], not by [resize].
   - loops over linked chains take fuel (the number of entries ever allocated); [Hang] =
     fuel exhausted.

   What is abstracted
   - Free/FreeTable (memory is never reused; use-after-free of a TABLE is not tracked, the
     harness runs under AddressSanitizer), tableLengthIndex (written, never read),
     findKeyValue/addKeyValue (same lookups), size_t wrap-around (count-- at 0 is a
     truncated subtraction here), the const/non-const duplicates of the lookups. *)
From Coq Require Import NArith List Bool.
From Morfuse Require Import Base.Arr.
Import ListNotations.
Local Open Scope N_scope.

Inductive out (A : Type) : Type := Ok (a : A) | Undef | Hang.
Arguments Ok {A} a.
Arguments Undef {A}.
Arguments Hang {A}.

Definition bind {A B : Type} (x : out A) (f : A -> out B) : out B :=
  match x with
  | Ok a => f a
  | Undef => Undef
  | Hang => Hang
  end.

Record st := mkSt {
  cells : arr (option N);     (* pointer memory: address -> entry id *)
  tbl : N;                    (* address of table[0] *)
  rev1 : N;                   (* address of reverseTable[1] *)
  tlen : N;                   (* tableLength *)
  thr : N;                    (* threshold *)
  cnt : N;                    (* count *)
  ekey : arr N;               (* EntryArraySet::value (Key() = Value()) *)
  enext : arr (option N);     (* EntryArraySet::next *)
  eidx : arr N;               (* EntryArraySet::index *)
  elive : arr bool;           (* allocated and not yet deleted *)
  nid : N;                    (* next fresh entry id *)
  brk : N }.                  (* next fresh table address *)

(* arrayset::arrayset() *)
Definition init : st :=
  mkSt (aempty None) 0 0 1 1 0 (aempty 0) (aempty None) (aempty 0) (aempty false) 0 1.

Definition set_cells (s : st) (c : arr (option N)) : st :=
  mkSt c (tbl s) (rev1 s) (tlen s) (thr s) (cnt s) (ekey s) (enext s) (eidx s) (elive s)
       (nid s) (brk s).

(* con::set_primes[24]: 23 primes, the last element is zero-initialised *)
Definition primes : list N :=
  [7; 17; 37; 79; 163; 331; 673; 1361; 2729; 5471; 10949; 21911; 43853; 87719; 175447;
   701819; 1403641; 2807303; 5614657; 11229331; 22458671; 44917381; 89834777; 0].

(* the loop of rehash(): newLen = set_primes[i]; if (newLen > tableLength) break; *)
Fixpoint first_gt (l : list N) (t acc : N) : N :=
  match l with
  | [] => acc
  | p :: l' => if t <? p then p else first_gt l' t p
  end.

Definition next_len (t : N) : N := first_gt primes t 0.

(* the largest table length rehash() can produce; step rejects larger client sizes *)
Definition max_len : N := 89834777.

Inductive op :=
| OAdd (k : N)          (* addKeyIndex(k) *)
| OFind (k : N)         (* findKeyIndex(k) *)
| OAt (i : N)           (* operator[](i) *)
| OResize (n : N)       (* resize(n) *)
| OShrink
| OClear
| OSize
| ORemove (k : N).

Inductive res := RUnit | RIdx (i : N) | RKey (k : N) | RNum (n : N) | RBool (b : bool).

(* what is observed after every operation: its result, size(), and for each key
   0..u-1 (findKeyIndex k, operator[] of that index when it is not 0) *)
Inductive outcome :=
| Obs (r : res) (size : N) (snap : list (N * option N))
| OUndef
| OHang.

Section Model.
  Variable hash : N -> N.       (* HashT()(key) as an unsigned number *)

  Definition bucket (s : st) (k : N) : N := hash k mod tlen s.

  (* the chain walk of findKeyEntry / addKeyEntry *)
  Fixpoint find_chain (fuel : nat) (s : st) (e : option N) (k : N) : out (option N) :=
    match e with
    | None => Ok None
    | Some x =>
        match fuel with
        | O => Hang
        | S f =>
            if N.eqb (get (ekey s) x) k then Ok (Some x)
            else find_chain f s (get (enext s) x) k
        end
    end.

  Definition find_entry (fuel : nat) (s : st) (k : N) : out (option N) :=
    find_chain fuel s (get (cells s) (tbl s + bucket s k)) k.

  (* findKeyIndex *)
  Definition find_index (fuel : nat) (s : st) (k : N) : out N :=
    bind (find_entry fuel s k)
         (fun r => Ok (match r with Some x => get (eidx s) x | None => 0 end)).

  (* operator[] : reverseTable[i]->Value() *)
  Definition at_index (s : st) (i : N) : out N :=
    if (i =? 0) || (tlen s <? i) then Undef
    else match get (cells s) (rev1 s + (i - 1)) with
         | None => Undef
         | Some x => if get (elive s) x then Ok (get (ekey s) x) else Undef
         end.

  (* the inner loop of resize: e = oldTable[i-1]; old = e->Next(); index = hash(e->Value())
     % tableLength; e->SetNext(table[index]); table[index] = e; e = old *)
  Fixpoint rehash_chain (fuel : nat) (s : st) (e : option N) : out st :=
    match e with
    | None => Ok s
    | Some x =>
        match fuel with
        | O => Hang
        | S f =>
            let old := get (enext s) x in
            let a := tbl s + bucket s (get (ekey s) x) in
            let s' := mkSt (set (cells s) a (Some x)) (tbl s) (rev1 s) (tlen s) (thr s) (cnt s)
                           (ekey s) (set (enext s) x (get (cells s) a)) (eidx s) (elive s)
                           (nid s) (brk s) in
            rehash_chain f s' old
        end
    end.

  (* for (i = oldTableLength; i > 0; i--) rehash oldTable[i - 1] *)
  Fixpoint rehash_buckets (fuel : nat) (i : nat) (oldt : N) (s : st) : out st :=
    match i with
    | O => Ok s
    | S j => bind (rehash_chain fuel s (get (cells s) (oldt + N.of_nat j)))
                  (rehash_buckets fuel j oldt)
    end.

  (* for (i = min(old,new); i > 0; i--) reverseTable[i] = oldReverseTable[i] *)
  Fixpoint copy_rev (i : nat) (oldr : N) (s : st) : st :=
    match i with
    | O => s
    | S j => copy_rev j oldr
               (set_cells s (set (cells s) (rev1 s + N.of_nat j) (get (cells s) (oldr + N.of_nat j))))
    end.

  Definition resize (fuel : nat) (s : st) (n : N) : out st :=
    if n =? 0 then Undef
    else
      let t := brk s in
      let s1 := mkSt (cells s) t (t + n) n n (cnt s) (ekey s) (enext s) (eidx s) (elive s)
                     (nid s) (t + 2 * n) in
      bind (rehash_buckets fuel (N.to_nat (tlen s)) (tbl s) s1)
           (fun s2 => Ok (copy_rev (N.to_nat (N.min (tlen s) n)) (rev1 s) s2)).

  Definition rehash (fuel : nat) (s : st) : out st := resize fuel s (next_len (tlen s)).

  (* addNewKeyEntry(key, index) *)
  Definition add_new (fuel : nat) (s : st) (k idx : N) : out (st * N) :=
    bind (if thr s <=? cnt s
          then bind (rehash fuel s) (fun s1 => Ok (s1, bucket s1 k))
          else Ok (s, idx))
         (fun p =>
            let s1 := fst p in
            let a := tbl s1 + snd p in
            let c := cnt s1 + 1 in
            let e := nid s1 in
            (* NewEntry(key, count): next = nullptr *)
            let nx0 := set (enext s1) e None in
            let c1 := match get (cells s1) 0 with
                      | None => set (cells s1) 0 (Some e)
                      | Some _ => cells s1
                      end in
            let nx1 := match get (cells s1) 0 with
                       | None => set nx0 e None
                       | Some _ => set nx0 e (get (cells s1) a)
                       end in
            let c2 := set c1 a (Some e) in
            let c3 := set c2 (rev1 s1 + (c - 1)) (Some e) in
            Ok (mkSt c3 (tbl s1) (rev1 s1) (tlen s1) (thr s1) c
                     (set (ekey s1) e k) nx1 (set (eidx s1) e c) (set (elive s1) e true)
                     (e + 1) (brk s1), e)).

  (* addKeyEntry(key) *)
  Definition add_key (fuel : nat) (s : st) (k : N) : out (st * N) :=
    let idx := bucket s k in
    bind (find_chain fuel s (get (cells s) (tbl s + idx)) k)
         (fun r => match r with
                   | Some x => Ok (s, x)
                   | None => add_new fuel s k idx
                   end).

  (* the inner loop of clear(): next = entry->Next(); DeleteEntry(entry) *)
  Fixpoint delete_chain (fuel : nat) (s : st) (e : option N) : out st :=
    match e with
    | None => Ok s
    | Some x =>
        match fuel with
        | O => Hang
        | S f =>
            let nx := get (enext s) x in
            delete_chain f (mkSt (cells s) (tbl s) (rev1 s) (tlen s) (thr s) (cnt s) (ekey s)
                                 (enext s) (eidx s) (set (elive s) x false) (nid s) (brk s)) nx
        end
    end.

  (* for (i = 0; i < tableLength; i++) *)
  Fixpoint delete_buckets (fuel : nat) (rem : nat) (i : N) (s : st) : out st :=
    match rem with
    | O => Ok s
    | S r => bind (delete_chain fuel s (get (cells s) (tbl s + i)))
                  (delete_buckets fuel r (i + 1))
    end.

  Definition clear (fuel : nat) (s : st) : out st :=
    let s0 := if 1 <? tlen s
              then mkSt (cells s) (tbl s) 0 (tlen s) (thr s) (cnt s) (ekey s) (enext s) (eidx s)
                        (elive s) (nid s) (brk s)
              else s in
    bind (delete_buckets fuel (N.to_nat (tlen s0)) 0 s0)
         (fun s1 => Ok (mkSt (set (cells s1) 0 None) 0 (rev1 s1) 1 1 0 (ekey s1) (enext s1)
                             (eidx s1) (elive s1) (nid s1) (brk s1))).

  Definition shrink (fuel : nat) (s : st) : out st :=
    if cnt s =? 0 then clear fuel s else resize fuel s (cnt s).

  (* remove, first loop: for (i = 1; i <= tableLength; i++) if (reverseTable[i] &&
     KeyEq(reverseTable[i]->Key(), key)) reverseTable[i] = nullptr;   j = i - 1 *)
  Fixpoint remove_rev (rem : nat) (j : N) (s : st) (k : N) : out st :=
    match rem with
    | O => Ok s
    | S r =>
        match get (cells s) (rev1 s + j) with
        | None => remove_rev r (j + 1) s k
        | Some x =>
            if get (elive s) x then
              if N.eqb (get (ekey s) x) k
              then remove_rev r (j + 1) (set_cells s (set (cells s) (rev1 s + j) None)) k
              else remove_rev r (j + 1) s k
            else Undef
        end
    end.

  (* remove, second loop, a = address of table[index] *)
  Fixpoint remove_chain (fuel : nat) (s : st) (a : N) (prev entry : option N) (k : N)
    : out (st * bool) :=
    match entry with
    | None => Ok (s, false)
    | Some x =>
        match fuel with
        | O => Hang
        | S f =>
            if negb (N.eqb (get (ekey s) x) k)
            then remove_chain f s a (Some x) (get (enext s) x) k
            else
              (* if (defaultEntry == entry) defaultEntry = prev; *)
              let c1 := match get (cells s) 0 with
                        | Some d => if N.eqb d x then set (cells s) 0 prev else cells s
                        | None => cells s
                        end in
              let nx := get (enext s) x in
              (* if (prev) prev->SetNext(entry->Next()); else table[index] = entry->Next(); *)
              let c2 := match prev with Some _ => c1 | None => set c1 a nx end in
              let n2 := match prev with Some p => set (enext s) p nx | None => enext s end in
              Ok (mkSt c2 (tbl s) (rev1 s) (tlen s) (thr s) (cnt s - 1) (ekey s) n2 (eidx s)
                       (set (elive s) x false) (nid s) (brk s), true)
        end
    end.

  Definition remove (fuel : nat) (s : st) (k : N) : out (st * bool) :=
    bind (remove_rev (N.to_nat (tlen s)) 0 s k)
         (fun s1 =>
            let a := tbl s1 + bucket s1 k in
            remove_chain fuel s1 a None (get (cells s1) a) k).

  (* ---- the client level ------------------------------------------------------------- *)
  Definition fuel_of (s : st) : nat := N.to_nat (nid s).

  Definition step (s : st) (o : op) : out (st * res) :=
    let fuel := fuel_of s in
    match o with
    | OAdd k => bind (add_key fuel s k)
                     (fun p => Ok (fst p, RIdx (get (eidx (fst p)) (snd p))))
    | OFind k => bind (find_index fuel s k) (fun i => Ok (s, RIdx i))
    | OAt i => bind (at_index s i) (fun v => Ok (s, RKey v))
    | OResize n =>
        if (n =? 0) || (n <? cnt s) || (max_len <? n) then Undef
        else bind (resize fuel s n) (fun s' => Ok (s', RUnit))
    | OShrink => bind (shrink fuel s) (fun s' => Ok (s', RUnit))
    | OClear => bind (clear fuel s) (fun s' => Ok (s', RUnit))
    | OSize => Ok (s, RNum (cnt s))
    | ORemove k => bind (remove fuel s k) (fun p => Ok (fst p, RBool (snd p)))
    end.

  Definition snap_key (fuel : nat) (s : st) (k : N) : out (N * option N) :=
    bind (find_index fuel s k)
         (fun i => if i =? 0 then Ok (0, None)
                   else bind (at_index s i) (fun v => Ok (i, Some v))).

  Fixpoint snap_keys (fuel : nat) (s : st) (ks : list N) : out (list (N * option N)) :=
    match ks with
    | [] => Ok []
    | k :: ks' => bind (snap_key fuel s k)
                       (fun x => bind (snap_keys fuel s ks') (fun l => Ok (x :: l)))
    end.

  Definition universe (u : nat) : list N := map N.of_nat (seq 0 u).

  Fixpoint run_from (u : nat) (s : st) (ops : list op) : list outcome :=
    match ops with
    | [] => []
    | o :: ops' =>
        match step s o with
        | Ok p =>
            match snap_keys (fuel_of (fst p)) (fst p) (universe u) with
            | Ok sn => Obs (snd p) (cnt (fst p)) sn :: run_from u (fst p) ops'
            | Undef => [OUndef]
            | Hang => [OHang]
            end
        | Undef => [OUndef]
        | Hang => [OHang]
        end
    end.

  Definition run (u : nat) (ops : list op) : list outcome := run_from u init ops.

  (* allocated(), for the model-vs-implementation detail line of the driver *)
  Fixpoint tlen_trace (s : st) (ops : list op) : list N :=
    match ops with
    | [] => []
    | o :: ops' =>
        match step s o with
        | Ok p => tlen (fst p) :: tlen_trace (fst p) ops'
        | _ => []
        end
    end.

  Definition run_tlen (ops : list op) : list N := tlen_trace init ops.
End Model.
