(* C18arr/ProofsInv.v - linked chains, the representation invariant of the arrayset model,
   and the basic facts about the specification's list functions. *)
From Coq Require Import NArith List Bool Lia.
From Morfuse Require Import Base.Arr Base.ListX C18arr.Model C18arr.Spec.
Import ListNotations.
Local Open Scope N_scope.

(* ---- chains: the list of entries reached from a head pointer through [next] ------------- *)
Fixpoint chain (nx : arr (option N)) (h : option N) (es : list N) : Prop :=
  match es with
  | [] => h = None
  | e :: es' => h = Some e /\ chain nx (get nx e) es'
  end.

Lemma chain_frame nx nx' h es :
  (forall x, In x es -> get nx' x = get nx x) -> chain nx h es -> chain nx' h es.
Proof.
  revert h. induction es as [|e es IH]; cbn [chain]; intros h Hf Hc; [exact Hc|].
  destruct Hc as [-> Hc]. split; [reflexivity|].
  rewrite (Hf e (or_introl eq_refl)). apply IH; [|exact Hc].
  intros x Hx. apply Hf. now right.
Qed.

Lemma chain_none nx es : chain nx None es -> es = [].
Proof. destruct es as [|e es]; cbn [chain]; [reflexivity|]. intros [H _]. discriminate. Qed.

Lemma find_chain_spec es : forall fuel s h k,
  chain (enext s) h es -> (length es <= fuel)%nat ->
  find_chain fuel s h k = Ok (find (fun e => N.eqb (get (ekey s) e) k) es).
Proof.
  induction es as [|e es IH]; intros fuel s h k Hc Hf; cbn [chain] in Hc.
  - subst h. destruct fuel; reflexivity.
  - destruct Hc as [-> Hc]. destruct fuel as [|f]; [cbn [length] in Hf; lia|].
    cbn [find_chain find]. destruct (N.eqb (get (ekey s) e) k); [reflexivity|].
    apply IH; [exact Hc | cbn [length] in Hf; lia].
Qed.

Lemma find_all_false {A} (f : A -> bool) l : (forall x, In x l -> f x = false) -> find f l = None.
Proof.
  intro H. destruct (find f l) as [x|] eqn:E; [|reflexivity].
  apply find_some in E. destruct E as [Hi Hf]. rewrite (H x Hi) in Hf. discriminate.
Qed.

Lemma nodup_incl_len (l l' : list N) : NoDup l -> incl l l' -> (length l <= length l')%nat.
Proof. intros Hn Hi. apply NoDup_incl_length; assumption. Qed.

(* ---- the specification on lists without tombstones -------------------------------------- *)
Lemma index_from_notin k ks : forall i, ~ In k ks -> index_from i k (map Some ks) = 0.
Proof.
  induction ks as [|k' ks IH]; intros i Hn; cbn [map index_from]; [reflexivity|].
  destruct (N.eqb_spec k' k) as [->|Hne]; [exfalso; apply Hn; now left|].
  apply IH. intro H. apply Hn. now right.
Qed.

Lemma index_from_nth k ks : forall i j,
  NoDup ks -> nth_error ks j = Some k -> index_from i k (map Some ks) = i + N.of_nat j.
Proof.
  induction ks as [|k' ks IH]; intros i j Hnd Hj; [destruct j; discriminate|].
  cbn [map index_from]. inversion Hnd as [|? ? Hni Hnd']; subst.
  destruct j as [|j]; cbn [nth_error] in Hj.
  - injection Hj as ->. rewrite N.eqb_refl. cbn. lia.
  - destruct (N.eqb_spec k' k) as [->|Hne].
    + exfalso. apply Hni. eapply nth_error_In; eauto.
    + rewrite (IH (i + 1) j Hnd' Hj). lia.
Qed.

Lemma live_count_map ks : live_count (map Some ks) = N.of_nat (length ks).
Proof.
  unfold live_count. f_equal. induction ks as [|k ks IH]; cbn [map filter is_live length]; [reflexivity|].
  now rewrite IH.
Qed.

Lemma len_map ks : len (map Some ks) = N.of_nat (length ks).
Proof. unfold len. now rewrite map_length. Qed.

Lemma nth_error_map_some (ks : list N) j :
  nth_error (map Some ks) j = match nth_error ks j with Some k => Some (Some k) | None => None end.
Proof.
  revert j. induction ks as [|k ks IH]; intro j; destruct j; cbn [map nth_error]; auto.
Qed.

(* ---- growth sizes ------------------------------------------------------------------------- *)
Lemma next_len_spec t : t < max_len -> t < next_len t <= max_len.
Proof.
  unfold next_len, primes, max_len. cbn [first_gt]. intro H.
  repeat match goal with
         | |- context [?a <? ?b] => destruct (N.ltb_spec a b); [lia|]
         end.
  lia.
Qed.

Lemma next_len_max : next_len max_len = 0.
Proof. vm_compute. reflexivity. Qed.

(* ---- the representation invariant ---------------------------------------------------------- *)
Definition upd (s : st) (c : arr (option N)) (nx : arr (option N)) : st :=
  mkSt c (tbl s) (rev1 s) (tlen s) (thr s) (cnt s) (ekey s) nx (eidx s) (elive s) (nid s) (brk s).

Section Inv.
  Variable hash : N -> N.

  (* bucket of entry e in a table of m buckets *)
  Definition ebucket (s : st) (m : N) (e : N) : N := hash (get (ekey s) e) mod m.

  Definition beyond_ok (s : st) (j : N) : Prop :=
    match get (cells s) (rev1 s + j) with
    | None => True
    | Some x => x < nid s /\ get (elive s) x = false
    end.

  (* ks: the keys in index order; ents: their entries in index order *)
  Record inv (s : st) (ks ents : list N) : Prop := mkInv {
    i_len : length ents = length ks;
    i_cnt : cnt s = N.of_nat (length ks);
    i_ndk : NoDup ks;
    i_nde : NoDup ents;
    i_ent : forall i e, nth_error ents i = Some e ->
              e < nid s /\ get (elive s) e = true /\ get (eidx s) e = N.of_nat i + 1 /\
              nth_error ks i = Some (get (ekey s) e) /\
              get (cells s) (rev1 s + N.of_nat i) = Some e;
    i_tlen : 1 <= tlen s <= max_len;
    i_thr : thr s = tlen s;
    i_cap : cnt s <= tlen s;
    i_nid : cnt s <= nid s;
    i_lay : (tbl s = 0 /\ tlen s = 1 /\ rev1 s < brk s) \/
            (1 <= tbl s /\ rev1 s = tbl s + tlen s /\ tbl s + 2 * tlen s <= brk s);
    i_brk : 1 <= brk s;
    i_chn : forall b, b < tlen s ->
              exists es, chain (enext s) (get (cells s) (tbl s + b)) es /\ NoDup es /\
                         forall e, In e es <-> (In e ents /\ ebucket s (tlen s) e = b);
    i_bey : forall j, cnt s <= j < tlen s -> beyond_ok s j;
    i_def : get (cells s) 0 = None -> ks = [];
    i_fresh : forall a, brk s <= a -> get (cells s) a = None }.

  Definition Inv (s : st) (ks : list N) : Prop := exists ents, inv s ks ents.

  Lemma inv_init : inv init [] [].
  Proof.
    constructor; cbn [init cnt tlen thr nid tbl rev1 brk cells enext elive eidx ekey length].
    - reflexivity.
    - reflexivity.
    - constructor.
    - constructor.
    - intros i e H. destruct i; discriminate.
    - unfold max_len. lia.
    - reflexivity.
    - lia.
    - lia.
    - left. lia.
    - lia.
    - intros b Hb. exists []. cbn [chain]. rewrite get_empty. split; [reflexivity|].
      split; [constructor|]. intro e. split; [intros []|intros [[] _]].
    - intros j Hj. unfold beyond_ok. cbn [init cells rev1]. now rewrite get_empty.
    - reflexivity.
    - intros a _. apply get_empty.
  Qed.

  Lemma chain_len s ks ents es :
    inv s ks ents -> NoDup es -> (forall e, In e es -> In e ents) -> (length es <= length ks)%nat.
  Proof.
    intros I Hn Hi. rewrite <- (i_len _ _ _ I). apply nodup_incl_len; [exact Hn|exact Hi].
  Qed.

  Lemma fuel_ok s ks ents : inv s ks ents -> (length ks <= fuel_of s)%nat.
  Proof.
    intro I. unfold fuel_of. pose proof (i_nid _ _ _ I) as H. rewrite (i_cnt _ _ _ I) in H. lia.
  Qed.

  (* address facts that follow from the layout *)
  Lemma lay_tbl_lt s ks ents b : inv s ks ents -> b < tlen s -> tbl s + b < brk s.
  Proof. intros I Hb. destruct (i_lay _ _ _ I) as [[? [? ?]]|[? [? ?]]]; pose proof (i_brk _ _ _ I); lia. Qed.

  Lemma lay_rev_lt s ks ents j : inv s ks ents -> j < tlen s -> rev1 s + j < brk s.
  Proof. intros I Hj. destruct (i_lay _ _ _ I) as [[? [? ?]]|[? [? ?]]]; lia. Qed.
End Inv.
