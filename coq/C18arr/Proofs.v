(* C18arr/Proofs.v - the arrayset model refines the list specification on every history
   without remove(); with remove() it does not (witnesses). *)
From Coq Require Import Arith NArith List Bool Lia.
From Morfuse Require Import Base.Arr Base.ListX C18arr.Model C18arr.Spec C18arr.ProofsInv
     C18arr.ProofsResize C18arr.ProofsOps.
Import ListNotations.
Local Open Scope N_scope.

Definition not_remove (o : op) : Prop := match o with ORemove _ => False | _ => True end.

Section Main.
  Variable hash : N -> N.

  Lemma step_sim s ks o :
    Inv hash s ks -> not_remove o ->
    match spec_step (map Some ks) o with
    | None => step hash s o = Undef
    | Some p => exists s' ks', step hash s o = Ok (s', snd p) /\ fst p = map Some ks' /\ Inv hash s' ks'
    end.
  Proof.
    intros [ents I] Hnr. pose proof (fuel_ok hash s ks ents I) as Hf.
    pose proof (i_cnt _ _ _ _ I) as Hcnt.
    destruct o as [k|k|i|n| | | |k]; cbn [spec_step step not_remove] in *.
    - (* add *)
      unfold add_key.
      destruct (find_chain_ok hash s ks ents (fuel_of s) k I Hf) as [r [Hr Hs]]. rewrite Hr. cbn [bind].
      destruct r as [x|].
      + destruct Hs as [i [Hx Hk]]. unfold index_of.
        rewrite (index_from_nth k ks 1 i (i_ndk _ _ _ _ I) Hk).
        destruct (N.eqb_spec (1 + N.of_nat i) 0) as [E|_]; [lia|].
        exists s, ks. cbn [bind fst snd]. split; [|split; [reflexivity|exists ents; exact I]].
        destruct (i_ent _ _ _ _ I i x Hx) as [_ [_ [Hidx _]]]. rewrite Hidx. do 3 f_equal. lia.
      + unfold index_of. rewrite (index_from_notin k ks 1 Hs). cbn [N.eqb].
        pose proof (add_new_ok hash s ks ents (fuel_of s) k I Hs Hf) as Han.
        destruct (len (map Some ks) <? max_len).
        * destruct Han as [s' [e [Ha [I' Hidx]]]]. rewrite Ha. cbn [bind fst snd].
          exists s', (ks ++ [k]). split; [rewrite Hidx; reflexivity|].
          split; [rewrite map_app; reflexivity|exists (ents ++ [e]); exact I'].
        * rewrite Han. reflexivity.
    - (* find *)
      rewrite (find_index_ok hash s ks ents (fuel_of s) k I Hf). cbn [bind fst snd].
      exists s, ks. split; [reflexivity|]. split; [reflexivity|exists ents; exact I].
    - (* at *)
      rewrite (at_index_ok hash s ks ents i I).
      destruct (lookup_id i (map Some ks)) as [k|]; [|reflexivity]. cbn [bind fst snd].
      exists s, ks. split; [reflexivity|]. split; [reflexivity|exists ents; exact I].
    - (* resize *)
      rewrite len_map, <- Hcnt.
      destruct ((n =? 0) || (n <? cnt s) || (max_len <? n)) eqn:G; [reflexivity|].
      apply orb_false_iff in G. destruct G as [G G3]. apply orb_false_iff in G. destruct G as [G1 G2].
      apply N.eqb_neq in G1. apply N.ltb_ge in G2. apply N.ltb_ge in G3.
      destruct (resize_ok hash s ks ents n (fuel_of s) I) as [s' [Hr [I' _]]]; try lia.
      rewrite Hr. cbn [bind fst snd]. exists s', ks.
      split; [reflexivity|]. split; [reflexivity|exists ents; exact I'].
    - (* shrink *)
      unfold shrink. rewrite live_count_map, <- Hcnt.
      destruct (N.eqb_spec (cnt s) 0) as [E|NE].
      + destruct (clear_ok hash s ks ents (fuel_of s) I Hf) as [s' [Hr [I' _]]].
        rewrite Hr. cbn [bind fst snd]. exists s', []. split; [reflexivity|].
        split; [reflexivity|exists []; exact I'].
      + pose proof (i_cap _ _ _ _ I). pose proof (i_tlen _ _ _ _ I).
        destruct (resize_ok hash s ks ents (cnt s) (fuel_of s) I) as [s' [Hr [I' _]]]; try lia.
        rewrite Hr. cbn [bind fst snd]. exists s', ks.
        split; [reflexivity|]. split; [reflexivity|exists ents; exact I'].
    - (* clear *)
      destruct (clear_ok hash s ks ents (fuel_of s) I Hf) as [s' [Hr [I' _]]].
      rewrite Hr. cbn [bind fst snd]. exists s', []. split; [reflexivity|].
      split; [reflexivity|exists []; exact I'].
    - (* size *)
      exists s, ks. cbn [fst snd]. rewrite live_count_map, <- Hcnt.
      split; [reflexivity|]. split; [reflexivity|exists ents; exact I].
    - contradiction.
  Qed.

  Lemma run_from_ok u : forall ops s ks,
    Inv hash s ks -> (forall k, ~ In (ORemove k) ops) ->
    run_from hash u s ops = spec_from u (map Some ks) ops.
  Proof.
    induction ops as [|o ops IH]; intros s ks HI Hnr; cbn [run_from spec_from]; [reflexivity|].
    assert (Ho : not_remove o).
    { destruct o; cbn; auto. apply (Hnr k). now left. }
    pose proof (step_sim s ks o HI Ho) as Hs.
    destruct (spec_step (map Some ks) o) as [p|].
    - destruct Hs as [s' [ks' [Hst [Hp HI']]]]. rewrite Hst. cbn [fst snd].
      destruct HI' as [ents' I']. rewrite Hp.
      rewrite (snap_keys_ok hash s' ks' ents' (fuel_of s') (universe u) I' (fuel_ok hash s' ks' ents' I')).
      rewrite (i_cnt _ _ _ _ I'), live_count_map. unfold spec_snap. f_equal.
      apply IH; [exists ents'; exact I'|]. intros k Hk. apply (Hnr k). now right.
    - rewrite Hs. reflexivity.
  Qed.

  Theorem run_refines_spec u ops :
    (forall k, ~ In (ORemove k) ops) -> run hash u ops = spec_run u ops.
  Proof.
    intro Hnr. unfold run, spec_run. apply (run_from_ok u ops init []); [|exact Hnr].
    exists []. apply inv_init.
  Qed.
End Main.

Lemma spec_no_hang u : forall ops l, ~ In OHang (spec_from u l ops).
Proof.
  induction ops as [|o ops IH]; intros l; cbn [spec_from]; [intros []|].
  destruct (spec_step l o) as [p|].
  - intros [H|H]; [discriminate|]. apply (IH _ H).
  - intros [H|[]]. discriminate.
Qed.

Theorem run_never_hangs hash u ops :
  (forall k, ~ In (ORemove k) ops) -> ~ In OHang (run hash u ops).
Proof.
  intro Hnr. rewrite (run_refines_spec hash u ops Hnr). apply spec_no_hang.
Qed.

(* ---- remove(): the refinement is false ----------------------------------------------------------- *)
Definition hash_mod2 (k : N) : N := k mod 2.

Theorem remove_refuted : ~ (forall hash u ops, run hash u ops = spec_run u ops).
Proof.
  intro H. specialize (H hash_mod2 4%nat [OAdd 0; ORemove 0]). vm_compute in H. discriminate H.
Qed.
