(* C18arr/ProofsOps.v - every operation of the remove-free alphabet keeps the invariant and
   returns what the list specification returns. *)
From Coq Require Import Arith NArith List Bool Lia.
From Morfuse Require Import Base.Arr Base.ListX C18arr.Model C18arr.Spec C18arr.ProofsInv
     C18arr.ProofsResize.
Import ListNotations.
Local Open Scope N_scope.

Definition upd_live (s : st) (el : arr bool) : st :=
  mkSt (cells s) (tbl s) (rev1 s) (tlen s) (thr s) (cnt s) (ekey s) (enext s) (eidx s) el
       (nid s) (brk s).

Lemma upd_live_self s : s = upd_live s (elive s).
Proof. destruct s; reflexivity. Qed.

Lemma index_cases k ks :
  NoDup ks ->
  (~ In k ks /\ index_of k (map Some ks) = 0) \/
  (exists j, nth_error ks j = Some k /\ index_of k (map Some ks) = 1 + N.of_nat j).
Proof.
  intro Hnd. destruct (in_dec N.eq_dec k ks) as [Hin|Hn].
  - right. apply In_nth_error in Hin. destruct Hin as [j Hj]. exists j. split; [exact Hj|].
    unfold index_of. apply index_from_nth; assumption.
  - left. split; [exact Hn|]. unfold index_of. apply index_from_notin. exact Hn.
Qed.

Lemma lookup_id_nth ks j k :
  nth_error ks j = Some k -> lookup_id (1 + N.of_nat j) (map Some ks) = Some k.
Proof.
  intro H. unfold lookup_id. destruct (N.eqb_spec (1 + N.of_nat j) 0) as [E|_]; [lia|].
  replace (N.to_nat (1 + N.of_nat j - 1)) with j by lia.
  rewrite nth_error_map_some, H. reflexivity.
Qed.

Section Ops.
  Variable hash : N -> N.

  Lemma ents_lt s ks ents e : inv hash s ks ents -> In e ents -> e < nid s.
  Proof.
    intros I He. apply In_nth_error in He. destruct He as [i Hi].
    apply (i_ent _ _ _ _ I i e Hi).
  Qed.

  Lemma ents_nth s ks ents j k :
    inv hash s ks ents -> nth_error ks j = Some k ->
    exists e, nth_error ents j = Some e /\ get (ekey s) e = k.
  Proof.
    intros I Hj. destruct (nth_error ents j) as [e|] eqn:E.
    - exists e. split; [reflexivity|]. destruct (i_ent _ _ _ _ I j e E) as [_ [_ [_ [H _]]]]. congruence.
    - apply nth_error_None in E. rewrite (i_len _ _ _ _ I) in E.
      assert (j < length ks)%nat by (apply nth_error_Some; congruence). lia.
  Qed.

  (* ---- lookups ------------------------------------------------------------------------------ *)
  Lemma find_chain_ok s ks ents fuel k :
    inv hash s ks ents -> (length ks <= fuel)%nat ->
    exists r, find_chain fuel s (get (cells s) (tbl s + bucket hash s k)) k = Ok r /\
              match r with
              | Some x => exists i, nth_error ents i = Some x /\ nth_error ks i = Some k
              | None => ~ In k ks
              end.
  Proof.
    intros I Hf. pose proof (i_tlen _ _ _ _ I) as Htl.
    assert (Hb : bucket hash s k < tlen s) by (apply N.mod_lt; lia).
    destruct (i_chn _ _ _ _ I _ Hb) as [es [Hc [Hn Hi]]].
    rewrite (find_chain_spec es fuel s _ k Hc).
    2:{ etransitivity; [|exact Hf]. eapply chain_len; [exact I|exact Hn|]. intros e He. apply Hi in He. tauto. }
    eexists. split; [reflexivity|].
    destruct (find (fun e => get (ekey s) e =? k) es) as [x|] eqn:E.
    - apply find_some in E. destruct E as [Hx Hk]. apply N.eqb_eq in Hk.
      apply Hi in Hx. destruct Hx as [Hx _]. apply In_nth_error in Hx. destruct Hx as [i Hxi].
      exists i. split; [exact Hxi|]. destruct (i_ent _ _ _ _ I i x Hxi) as [_ [_ [_ [H _]]]]. congruence.
    - intro Hin. apply In_nth_error in Hin. destruct Hin as [j Hj].
      destruct (ents_nth s ks ents j k I Hj) as [e [He Hk]].
      assert (Hes : In e es).
      { apply Hi. split; [eapply nth_error_In; eauto|]. unfold ebucket. rewrite Hk. reflexivity. }
      pose proof (find_none _ _ E e Hes) as Hfalse. cbn in Hfalse. rewrite Hk, N.eqb_refl in Hfalse. discriminate.
  Qed.

  Lemma find_index_ok s ks ents fuel k :
    inv hash s ks ents -> (length ks <= fuel)%nat ->
    find_index hash fuel s k = Ok (index_of k (map Some ks)).
  Proof.
    intros I Hf. unfold find_index, find_entry.
    destruct (find_chain_ok s ks ents fuel k I Hf) as [r [Hr Hs]]. rewrite Hr. cbn [bind].
    f_equal. destruct r as [x|].
    - destruct Hs as [i [Hx Hk]]. destruct (i_ent _ _ _ _ I i x Hx) as [_ [_ [Hidx _]]].
      rewrite Hidx. unfold index_of. rewrite (index_from_nth k ks 1 i (i_ndk _ _ _ _ I) Hk). lia.
    - unfold index_of. symmetry. apply index_from_notin. exact Hs.
  Qed.

  Lemma at_index_ok s ks ents i :
    inv hash s ks ents ->
    at_index s i = match lookup_id i (map Some ks) with Some k => Ok k | None => Undef end.
  Proof.
    intro I. unfold at_index, lookup_id.
    pose proof (i_cnt _ _ _ _ I) as Hc. pose proof (i_cap _ _ _ _ I) as Hcap.
    destruct (N.eqb_spec i 0) as [E|Hi0]; [reflexivity|]. cbn [orb].
    rewrite nth_error_map_some.
    destruct (N.ltb_spec (tlen s) i) as [Hgt|Hle].
    - assert (Hn : nth_error ks (N.to_nat (i - 1)) = None) by (apply nth_error_None; lia).
      rewrite Hn. reflexivity.
    - destruct (N.leb_spec i (cnt s)) as [Hin|Hout].
      + destruct (nth_error ents (N.to_nat (i - 1))) as [e|] eqn:E.
        * destruct (i_ent _ _ _ _ I _ e E) as [_ [Hl [_ [Hk Hcell]]]].
          replace (N.of_nat (N.to_nat (i - 1))) with (i - 1) in Hcell by lia.
          rewrite Hcell, Hl, Hk. reflexivity.
        * apply nth_error_None in E. rewrite (i_len _ _ _ _ I) in E. lia.
      + assert (Hn : nth_error ks (N.to_nat (i - 1)) = None) by (apply nth_error_None; lia).
        rewrite Hn. pose proof (i_bey _ _ _ _ I (i - 1)) as Hb. unfold beyond_ok in Hb.
        destruct (get (cells s) (rev1 s + (i - 1))) as [x|]; [|reflexivity].
        destruct Hb as [_ Hd]; [lia|]. rewrite Hd. reflexivity.
  Qed.

  Lemma snap_key_ok s ks ents fuel k :
    inv hash s ks ents -> (length ks <= fuel)%nat ->
    snap_key hash fuel s k =
    Ok (index_of k (map Some ks), if index_of k (map Some ks) =? 0 then None else Some k).
  Proof.
    intros I Hf. unfold snap_key. rewrite (find_index_ok s ks ents fuel k I Hf). cbn [bind].
    destruct (index_cases k ks (i_ndk _ _ _ _ I)) as [[_ E]|[j [Hj E]]]; rewrite E.
    - reflexivity.
    - destruct (N.eqb_spec (1 + N.of_nat j) 0) as [E0|_]; [lia|].
      rewrite (at_index_ok s ks ents _ I), (lookup_id_nth ks j k Hj). reflexivity.
  Qed.

  Lemma snap_keys_ok s ks ents fuel kl :
    inv hash s ks ents -> (length ks <= fuel)%nat ->
    snap_keys hash fuel s kl =
    Ok (map (fun k => let i := index_of k (map Some ks) in (i, if i =? 0 then None else Some k)) kl).
  Proof.
    intros I Hf. induction kl as [|k kl IH]; cbn [snap_keys map]; [reflexivity|].
    rewrite (snap_key_ok s ks ents fuel k I Hf). cbn [bind]. rewrite IH. reflexivity.
  Qed.

  (* ---- insertion of a new key ------------------------------------------------------------------ *)
  Lemma empty_heads s ents b :
    inv hash s [] ents -> b < tlen s -> get (cells s) (tbl s + b) = None.
  Proof.
    intros I Hb. destruct (i_chn _ _ _ _ I b Hb) as [es [Hc [_ Hi]]].
    pose proof (i_len _ _ _ _ I) as Hl. destruct ents; [|discriminate].
    destruct es as [|e es]; [exact Hc|]. exfalso. destruct (proj1 (Hi e) (or_introl eq_refl)) as [[] _].
  Qed.

  Lemma insert_ok s ks ents k :
    inv hash s ks ents -> ~ In k ks -> cnt s < tlen s ->
    let e := nid s in
    let a := tbl s + bucket hash s k in
    let c := cnt s + 1 in
    let nx0 := set (enext s) e None in
    let c1 := match get (cells s) 0 with None => set (cells s) 0 (Some e) | Some _ => cells s end in
    let nx1 := match get (cells s) 0 with
               | None => set nx0 e None
               | Some _ => set nx0 e (get (cells s) a)
               end in
    let c3 := set (set c1 a (Some e)) (rev1 s + (c - 1)) (Some e) in
    inv hash (mkSt c3 (tbl s) (rev1 s) (tlen s) (thr s) c (set (ekey s) e k) nx1
                   (set (eidx s) e c) (set (elive s) e true) (e + 1) (brk s))
        (ks ++ [k]) (ents ++ [e]).
  Proof.
    intros I Hnk Hlt e a c nx0 c1 nx1 c3.
    pose proof (i_tlen _ _ _ _ I) as Htl. pose proof (i_cnt _ _ _ _ I) as Hcnt.
    pose proof (i_len _ _ _ _ I) as Hlen. pose proof (i_brk _ _ _ _ I) as Hbrk.
    pose proof (i_nid _ _ _ _ I) as Hnid.
    assert (Hbk : bucket hash s k < tlen s) by (apply N.mod_lt; lia).
    set (r := rev1 s + (c - 1)) in *.
    assert (Hr : r = rev1 s + cnt s) by (unfold r, c; lia).
    assert (Halt : a < brk s) by (apply (lay_tbl_lt hash s ks ents); assumption).
    assert (Hrlt : r < brk s) by (rewrite Hr; apply (lay_rev_lt hash s ks ents); assumption).
    assert (Hfresh : forall x, In x ents -> x <> e).
    { intros x Hx. pose proof (ents_lt s ks ents x I Hx). unfold e. lia. }
    (* the new entry's next is the old head of its bucket *)
    assert (Hnxe : get nx1 e = get (cells s) a).
    { unfold nx1. destruct (get (cells s) 0) eqn:E0; [apply gss|].
      rewrite gss. symmetry. pose proof (i_def _ _ _ _ I E0) as Hks. subst ks.
      apply (empty_heads s ents); assumption. }
    assert (Hnxo : forall x, x <> e -> get nx1 x = get (enext s) x).
    { intros x Hx. unfold nx1, nx0. destruct (get (cells s) 0); rewrite !gso by exact Hx; reflexivity. }
    assert (Hc3a : get c3 a = Some e).
    { unfold c3. fold r. destruct (N.eq_dec a r) as [->|Hne]; [apply gss|]. rewrite gso by exact Hne. apply gss. }
    assert (Hc3r : get c3 r = Some e) by (unfold c3; fold r; apply gss).
    assert (Hc3o : forall x, x <> r -> x <> a -> (x <> 0 \/ get (cells s) 0 <> None) ->
                             get c3 x = get (cells s) x).
    { intros x H1 H2 H3. unfold c3. fold r. rewrite !gso by assumption. unfold c1.
      destruct (get (cells s) 0) eqn:E0; [reflexivity|].
      destruct H3 as [H3|H3]; [apply gso; exact H3|congruence]. }
    assert (Hheap : 1 <= cnt s -> 1 <= tbl s /\ rev1 s = tbl s + tlen s /\ get (cells s) 0 <> None).
    { intro H1. destruct (i_lay _ _ _ _ I) as [[? [? ?]]|[? [? ?]]]; [lia|].
      split; [assumption|]. split; [assumption|]. intro E0. pose proof (i_def _ _ _ _ I E0). subst ks.
      cbn [length] in Hcnt. lia. }
    constructor; cbn [cells tbl rev1 tlen thr cnt ekey enext eidx elive nid brk].
    - rewrite !app_length, Hlen. reflexivity.
    - rewrite app_length. cbn [length]. unfold c. lia.
    - apply nodup_app_intro; [apply (i_ndk _ _ _ _ I)|repeat constructor; intros []|].
      intros x Hx [<-|[]]. contradiction.
    - apply nodup_app_intro; [apply (i_nde _ _ _ _ I)|repeat constructor; intros []|].
      intros x Hx [<-|[]]. apply (Hfresh _ Hx). reflexivity.
    - intros i x Hi.
      destruct (Nat.lt_ge_cases i (length ents)) as [Hil|Hil].
      + rewrite nth_error_app1 in Hi by exact Hil.
        destruct (i_ent _ _ _ _ I i x Hi) as [H1 [H2 [H3 [H4 H5]]]].
        assert (Hxe : x <> e) by (apply Hfresh; eapply nth_error_In; eauto).
        rewrite !gso by exact Hxe.
        destruct Hheap as [Ht [Hrv Hd]]; [lia|].
        repeat split; try assumption; [lia| |].
        * rewrite nth_error_app1 by lia. exact H4.
        * rewrite Hc3o; [exact H5|lia|unfold a; lia|right; exact Hd].
      + rewrite nth_error_app2 in Hi by exact Hil.
        destruct (i - length ents)%nat as [|d] eqn:Ed; [|destruct d; discriminate].
        cbn [nth_error] in Hi. injection Hi as <-.
        assert (i = length ents) by lia. subst i.
        rewrite !gss. repeat split; [lia|unfold c; lia| |].
        * rewrite nth_error_app2 by lia. rewrite Hlen, Nat.sub_diag. reflexivity.
        * replace (rev1 s + N.of_nat (length ents)) with r by lia. exact Hc3r.
    - exact Htl.
    - apply (i_thr _ _ _ _ I).
    - unfold c. lia.
    - unfold c. lia.
    - apply (i_lay _ _ _ _ I).
    - exact Hbrk.
    - intros b Hb. destruct (i_chn _ _ _ _ I b Hb) as [es [Hc [Hn Hi]]].
      assert (Hese : forall x, In x es -> x <> e) by (intros x Hx; apply Hfresh; apply Hi in Hx; tauto).
      assert (Hebo : forall x, x <> e ->
                ebucket hash (mkSt c3 (tbl s) (rev1 s) (tlen s) (thr s) c (set (ekey s) e k) nx1
                   (set (eidx s) e c) (set (elive s) e true) (e + 1) (brk s)) (tlen s) x
                = ebucket hash s (tlen s) x).
      { intros x Hx. unfold ebucket. cbn [ekey]. rewrite gso by exact Hx. reflexivity. }
      assert (Hebe : ebucket hash (mkSt c3 (tbl s) (rev1 s) (tlen s) (thr s) c (set (ekey s) e k) nx1
                   (set (eidx s) e c) (set (elive s) e true) (e + 1) (brk s)) (tlen s) e
                = bucket hash s k).
      { unfold ebucket, bucket. cbn [ekey]. rewrite gss. reflexivity. }
      destruct (N.eq_dec b (bucket hash s k)) as [Eb|Nb].
      + subst b. fold a. exists (e :: es). split; [|split].
        * cbn [chain]. split; [exact Hc3a|]. rewrite Hnxe.
          eapply chain_frame; [|exact Hc]. intros x Hx. apply Hnxo. apply Hese. exact Hx.
        * constructor; [|exact Hn]. intro He. apply (Hese e He). reflexivity.
        * intro x. cbn [In]. rewrite in_app_iff. cbn [In]. split.
          -- intros [<-|Hx]; [split; [right; now left|exact Hebe]|].
             rewrite (Hebo x (Hese x Hx)). apply Hi in Hx. split; [left; tauto|tauto].
          -- intros [[Hx|[<-|[]]] Hbx]; [|now left]. right. apply Hi.
             rewrite (Hebo x (Hfresh x Hx)) in Hbx. split; assumption.
      + exists es. split; [|split; [exact Hn|]].
        * rewrite Hc3o.
          -- eapply chain_frame; [|exact Hc]. intros x Hx. apply Hnxo. apply Hese. exact Hx.
          -- destruct (i_lay _ _ _ _ I) as [[? [? ?]]|[? [? ?]]]; lia.
          -- unfold a. lia.
          -- left. destruct (i_lay _ _ _ _ I) as [[? [? ?]]|[? [? ?]]]; lia.
        * intro x. rewrite in_app_iff. cbn [In]. split.
          -- intro Hx. rewrite (Hebo x (Hese x Hx)). apply Hi in Hx. split; [left; tauto|tauto].
          -- intros [[Hx|[<-|[]]] Hbx]; [|rewrite Hebe in Hbx; congruence].
             apply Hi. rewrite (Hebo x (Hfresh x Hx)) in Hbx. split; assumption.
    - intros j Hj. unfold beyond_ok. cbn [cells rev1 nid elive].
      unfold c in Hj.
      destruct (i_lay _ _ _ _ I) as [[? [? ?]]|[Ht [Hrv _]]]; [lia|].
      rewrite Hc3o; [|lia|unfold a; lia|left; lia].
      pose proof (i_bey _ _ _ _ I j) as Hb. unfold beyond_ok in Hb.
      destruct (get (cells s) (rev1 s + j)) as [x|]; [|exact Logic.I].
      destruct Hb as [Hx Hdead]; [lia|].
      split; [lia|]. rewrite gso by (unfold e; lia). exact Hdead.
    - intro H0. exfalso.
      destruct (N.eq_dec 0 r) as [E|Nr]; [rewrite E, Hc3r in H0; discriminate|].
      destruct (N.eq_dec 0 a) as [E|Na]; [rewrite E, Hc3a in H0; discriminate|].
      unfold c3 in H0. fold r in H0. rewrite !gso in H0 by assumption. unfold c1 in H0.
      destruct (get (cells s) 0) eqn:E0; [congruence|]. rewrite gss in H0. discriminate.
    - intros x Hx. rewrite Hc3o; [apply (i_fresh _ _ _ _ I); exact Hx|lia|lia|left; lia].
  Qed.

  Lemma add_new_ok s ks ents fuel k :
    inv hash s ks ents -> ~ In k ks -> (length ks <= fuel)%nat ->
    if len (map Some ks) <? max_len
    then exists s' e, add_new hash fuel s k (bucket hash s k) = Ok (s', e) /\
                      inv hash s' (ks ++ [k]) (ents ++ [e]) /\
                      get (eidx s') e = len (map Some ks) + 1
    else add_new hash fuel s k (bucket hash s k) = Undef.
  Proof.
    intros I Hnk Hf. rewrite len_map.
    pose proof (i_cnt _ _ _ _ I) as Hcnt. pose proof (i_thr _ _ _ _ I) as Hthr.
    pose proof (i_cap _ _ _ _ I) as Hcap. pose proof (i_tlen _ _ _ _ I) as Htl.
    unfold add_new. rewrite Hthr.
    assert (Hfin : forall s1, inv hash s1 ks ents -> cnt s1 < tlen s1 ->
              exists s' e,
                (let a := tbl s1 + bucket hash s1 k in
                 let c := cnt s1 + 1 in
                 let e := nid s1 in
                 let nx0 := set (enext s1) e None in
                 let c1 := match get (cells s1) 0 with None => set (cells s1) 0 (Some e) | Some _ => cells s1 end in
                 let nx1 := match get (cells s1) 0 with
                            | None => set nx0 e None
                            | Some _ => set nx0 e (get (cells s1) a)
                            end in
                 let c2 := set c1 a (Some e) in
                 let c3 := set c2 (rev1 s1 + (c - 1)) (Some e) in
                 Ok (mkSt c3 (tbl s1) (rev1 s1) (tlen s1) (thr s1) c (set (ekey s1) e k) nx1
                          (set (eidx s1) e c) (set (elive s1) e true) (e + 1) (brk s1), e))
                = Ok (s', e) /\
                inv hash s' (ks ++ [k]) (ents ++ [e]) /\
                get (eidx s') e = N.of_nat (length ks) + 1).
    { intros s1 I1 Hlt. eexists. eexists. split; [reflexivity|]. split.
      - apply (insert_ok s1 ks ents k I1 Hnk Hlt).
      - cbn [eidx]. rewrite gss. rewrite (i_cnt _ _ _ _ I1). reflexivity. }
    destruct (N.leb_spec (tlen s) (cnt s)) as [Hfull|Hroom].
    - assert (Hct : cnt s = tlen s) by lia.
      unfold rehash.
      destruct (N.ltb_spec (N.of_nat (length ks)) max_len) as [Hlt|Hge].
      + pose proof (next_len_spec (tlen s)) as Hnl.
        destruct (resize_ok hash s ks ents (next_len (tlen s)) fuel I) as [s1 [Hr [I1 [Ht1 _]]]]; try lia.
        rewrite Hr. cbn [bind fst snd].
        destruct (Hfin s1 I1) as [s' [e [He [I' Hidx]]]].
        { rewrite Ht1, (i_cnt _ _ _ _ I1). lia. }
        exists s', e. split; [exact He|]. split; [exact I'|exact Hidx].
      + assert (Hmax : tlen s = max_len) by lia.
        rewrite Hmax, next_len_max. unfold resize. cbn [N.eqb bind]. reflexivity.
    - destruct (N.ltb_spec (N.of_nat (length ks)) max_len) as [Hlt|Hge]; [|lia].
      cbn [bind fst snd]. destruct (Hfin s I Hroom) as [s' [e [He [I' Hidx]]]].
      exists s', e. split; [exact He|]. split; [exact I'|exact Hidx].
  Qed.

  (* ---- clear -------------------------------------------------------------------------------------- *)
  Lemma delete_chain_ok es : forall fuel s h,
    chain (enext s) h es -> (length es <= fuel)%nat ->
    exists el, delete_chain fuel s h = Ok (upd_live s el) /\
               (forall x, In x es -> get el x = false) /\
               (forall x, ~ In x es -> get el x = get (elive s) x).
  Proof.
    induction es as [|x es IH]; intros fuel s h Hc Hf; cbn [chain] in Hc.
    - subst h. exists (elive s). split; [destruct fuel; cbn [delete_chain]; f_equal; apply upd_live_self|].
      split; [intros x []|reflexivity].
    - destruct Hc as [-> Hc]. destruct fuel as [|f]; [cbn [length] in Hf; lia|].
      cbn [delete_chain].
      change (mkSt (cells s) (tbl s) (rev1 s) (tlen s) (thr s) (cnt s) (ekey s) (enext s) (eidx s)
                   (set (elive s) x false) (nid s) (brk s)) with (upd_live s (set (elive s) x false)).
      destruct (IH f (upd_live s (set (elive s) x false)) (get (enext s) x)) as [el [Hr [Hin Hout]]].
      { exact Hc. } { cbn [length] in Hf. lia. }
      exists el. split; [exact Hr|]. cbn [upd_live elive] in Hout. split.
      + intros y Hy. destruct (in_dec N.eq_dec y es) as [Hyes|Hyn]; [apply Hin; exact Hyes|].
        destruct Hy as [<-|Hy]; [|contradiction]. rewrite Hout by exact Hyn. apply gss.
      + intros y Hy. rewrite Hout by (intro H; apply Hy; now right).
        apply gso. intro E. apply Hy. now left.
  Qed.

  Lemma delete_buckets_ok s ents fuel :
    tlen s <> 0 ->
    (forall b, b < tlen s ->
       exists es, chain (enext s) (get (cells s) (tbl s + b)) es /\ (length es <= fuel)%nat /\
                  forall e, In e es <-> (In e ents /\ ebucket hash s (tlen s) e = b)) ->
    forall rem i el,
      i + N.of_nat rem = tlen s ->
      exists el', delete_buckets fuel rem i (upd_live s el) = Ok (upd_live s el') /\
                  (forall x, In x ents -> i <= ebucket hash s (tlen s) x -> get el' x = false) /\
                  (forall x, get el x = false -> get el' x = false).
  Proof.
    intros Hz Hch. induction rem as [|rem IH]; intros i el Hi.
    - exists el. split; [reflexivity|]. split; [|auto].
      intros x Hx Hb.
      assert (ebucket hash s (tlen s) x < tlen s) by (apply N.mod_lt; assumption). lia.
    - cbn [delete_buckets]. cbn [upd_live cells tbl].
      destruct (Hch i) as [es [Hc [Hl Hie]]]; [lia|].
      destruct (delete_chain_ok es fuel (upd_live s el) (get (cells s) (tbl s + i))) as [el1 [Hr [Hin Hout]]].
      { exact Hc. } { exact Hl. }
      rewrite Hr. cbn [bind]. change (upd_live (upd_live s el) el1) with (upd_live s el1).
      cbn [upd_live elive] in Hout.
      destruct (IH (i + 1) el1) as [el' [Hr' [Hk Hm]]]; [lia|].
      exists el'. split; [exact Hr'|]. split.
      + intros x Hx Hb. destruct (N.eq_dec (ebucket hash s (tlen s) x) i) as [E|NE].
        * apply Hm. apply Hin. apply Hie. split; assumption.
        * apply Hk; [exact Hx|lia].
      + intros x Hx. apply Hm. destruct (in_dec N.eq_dec x es) as [Hxe|Hxn]; [apply Hin; exact Hxe|].
        rewrite Hout by exact Hxn. exact Hx.
  Qed.

  Lemma clear_ok s ks ents fuel :
    inv hash s ks ents -> (length ks <= fuel)%nat ->
    exists s', clear fuel s = Ok s' /\ inv hash s' [] [] /\ nid s' = nid s.
  Proof.
    intros I Hf. pose proof (i_tlen _ _ _ _ I) as Htl.
    assert (Hch : forall b, b < tlen s ->
       exists es, chain (enext s) (get (cells s) (tbl s + b)) es /\ (length es <= fuel)%nat /\
                  forall e, In e es <-> (In e ents /\ ebucket hash s (tlen s) e = b)).
    { intros b Hb. destruct (i_chn _ _ _ _ I b Hb) as [es [Hc [Hn Hi]]]. exists es.
      split; [exact Hc|]. split; [|exact Hi]. etransitivity; [|exact Hf].
      eapply chain_len; [exact I|exact Hn|]. intros e He. apply Hi in He. tauto. }
    unfold clear.
    set (rv := if 1 <? tlen s then 0 else rev1 s).
    set (s0 := mkSt (cells s) (tbl s) rv (tlen s) (thr s) (cnt s) (ekey s) (enext s) (eidx s)
                    (elive s) (nid s) (brk s)).
    assert (Hs0 : (if 1 <? tlen s
                   then mkSt (cells s) (tbl s) 0 (tlen s) (thr s) (cnt s) (ekey s) (enext s) (eidx s)
                             (elive s) (nid s) (brk s)
                   else s) = s0).
    { unfold s0, rv. destruct (1 <? tlen s); [reflexivity|destruct s; reflexivity]. }
    rewrite Hs0.
    assert (Hz : tlen s0 <> 0) by (cbn [s0 tlen]; lia).
    destruct (delete_buckets_ok s0 ents fuel Hz Hch (N.to_nat (tlen s0)) 0 (elive s0)) as [el' [Hr [Hk Hm]]].
    { cbn [s0 tlen]. lia. }
    change (delete_buckets fuel (N.to_nat (tlen s0)) 0 s0)
      with (delete_buckets fuel (N.to_nat (tlen s0)) 0 (upd_live s0 (elive s0))).
    rewrite Hr. cbn [bind].
    eexists. split; [reflexivity|]. split; [|reflexivity].
    cbn [s0 upd_live cells tbl rev1 tlen thr cnt ekey enext eidx elive nid brk].
    cbn [s0 elive tlen] in Hk, Hm.
    assert (Hrv : rv < brk s).
    { unfold rv. destruct (N.ltb_spec 1 (tlen s)); [pose proof (i_brk _ _ _ _ I); lia|].
      replace (rev1 s) with (rev1 s + 0) by lia. apply (lay_rev_lt hash s ks ents); [exact I|lia]. }
    constructor; cbn [cells tbl rev1 tlen thr cnt ekey enext eidx elive nid brk length].
    - reflexivity.
    - reflexivity.
    - constructor.
    - constructor.
    - intros i e H. destruct i; discriminate.
    - unfold max_len. lia.
    - reflexivity.
    - lia.
    - lia.
    - left. split; [reflexivity|]. split; [reflexivity|exact Hrv].
    - apply (i_brk _ _ _ _ I).
    - intros b Hb. assert (b = 0) by lia. subst b. exists []. cbn [chain N.add]. rewrite gss.
      split; [reflexivity|]. split; [constructor|]. intro e. split; [intros []|intros [[] _]].
    - intros j Hj. assert (j = 0) by lia. subst j. unfold beyond_ok. cbn [cells rev1 nid elive].
      rewrite N.add_0_r. destruct (N.eq_dec rv 0) as [->|Hne]; [rewrite gss; exact Logic.I|].
      rewrite gso by exact Hne.
      assert (Hrv1 : rv = rev1 s /\ tlen s = 1).
      { unfold rv in *. destruct (N.ltb_spec 1 (tlen s)); [contradiction|]. split; [reflexivity|lia]. }
      destruct Hrv1 as [-> Ht1].
      pose proof (i_cnt _ _ _ _ I) as Hcnt. pose proof (i_cap _ _ _ _ I) as Hcap.
      destruct ents as [|e0 ents'].
      + pose proof (i_len _ _ _ _ I) as Hl. cbn [length] in Hl.
        pose proof (i_bey _ _ _ _ I 0) as Hb. unfold beyond_ok in Hb. rewrite N.add_0_r in Hb.
        destruct (get (cells s) (rev1 s)) as [x|]; [|exact Logic.I].
        destruct Hb as [Hx Hd]; [lia|]. split; [exact Hx|]. apply Hm. exact Hd.
      + destruct (i_ent _ _ _ _ I 0%nat e0 eq_refl) as [H1 [_ [_ [_ H5]]]].
        cbn [N.of_nat] in H5. rewrite N.add_0_r in H5. rewrite H5. split; [exact H1|].
        apply Hk; [now left|lia].
    - reflexivity.
    - intros a Ha. pose proof (i_brk _ _ _ _ I). rewrite gso by lia. apply (i_fresh _ _ _ _ I). exact Ha.
  Qed.
End Ops.
