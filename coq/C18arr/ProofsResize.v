(* C18arr/ProofsResize.v - resize keeps the representation invariant: every entry of every
   old bucket is re-linked into the chain of its new bucket (in-place pointer reversal),
   and the reverse table is copied for all live indices. *)
From Coq Require Import NArith List Bool Lia.
From Morfuse Require Import Base.Arr Base.ListX C18arr.Model C18arr.Spec C18arr.ProofsInv.
Import ListNotations.
Local Open Scope N_scope.

Lemma upd_self s : s = upd s (cells s) (enext s).
Proof. destruct s; reflexivity. Qed.

Lemma set_cells_self s : s = set_cells s (cells s).
Proof. destruct s; reflexivity. Qed.

Section Resize.
  Variable hash : N -> N.

  (* ---- one old chain --------------------------------------------------------------------- *)
  Lemma rehash_chain_ok es : forall fuel s h,
    tlen s <> 0 ->
    chain (enext s) h es -> NoDup es -> (length es <= fuel)%nat ->
    exists c' nx',
      rehash_chain hash fuel s h = Ok (upd s c' nx') /\
      (forall a, a < tbl s \/ tbl s + tlen s <= a -> get c' a = get (cells s) a) /\
      (forall x, ~ In x es -> get nx' x = get (enext s) x) /\
      (forall b cs, b < tlen s ->
         chain (enext s) (get (cells s) (tbl s + b)) cs -> NoDup cs ->
         (forall x, In x cs -> ~ In x es) ->
         exists cs', chain nx' (get c' (tbl s + b)) cs' /\ NoDup cs' /\
                     forall e, In e cs' <-> (In e cs \/ (In e es /\ ebucket hash s (tlen s) e = b))).
  Proof.
    induction es as [|x es IH]; intros fuel s h Hz Hc Hnd Hf.
    - cbn [chain] in Hc. subst h. exists (cells s), (enext s).
      split; [destruct fuel; cbn [rehash_chain]; f_equal; apply upd_self|].
      split; [reflexivity|]. split; [reflexivity|].
      intros b cs Hb Hcs Hn Hd. exists cs. split; [exact Hcs|]. split; [exact Hn|].
      intro e. split; [now left|]. intros [H|[[] _]]. exact H.
    - cbn [chain] in Hc. destruct Hc as [-> Hc].
      destruct fuel as [|f]; [cbn [length] in Hf; lia|].
      inversion Hnd as [|? ? Hxn Hnd']; subst.
      cbn [rehash_chain].
      set (bx := ebucket hash s (tlen s) x).
      assert (Hbx : bx < tlen s) by (apply N.mod_lt; exact Hz).
      set (a := tbl s + bx).
      change (bucket hash s (get (ekey s) x)) with bx.
      change (tbl s + bx) with a.
      set (c1 := set (cells s) a (Some x)).
      set (n1 := set (enext s) x (get (cells s) a)).
      change (mkSt c1 (tbl s) (rev1 s) (tlen s) (thr s) (cnt s) (ekey s) n1 (eidx s) (elive s)
                   (nid s) (brk s)) with (upd s c1 n1).
      assert (Hc1 : chain (enext (upd s c1 n1)) (get (enext s) x) es).
      { cbn [upd enext]. eapply chain_frame; [|exact Hc]. intros y Hy. unfold n1.
        apply gso. intro E. subst y. contradiction. }
      destruct (IH f (upd s c1 n1) (get (enext s) x) Hz Hc1 Hnd') as [c' [nx' [Hr [Ha [Hx Hb]]]]].
      { cbn [length] in Hf. lia. }
      exists c', nx'. split; [exact Hr|].
      cbn [upd tbl tlen cells enext] in Ha, Hx, Hb.
      split; [|split].
      + intros a' Ha'. rewrite (Ha a' Ha'). unfold c1. apply gso. unfold a. lia.
      + intros y Hy. rewrite Hx; [|intro H; apply Hy; now right].
        unfold n1. apply gso. intro E. apply Hy. now left.
      + intros b cs Hblt Hcs Hn Hd.
        assert (Hxcs : ~ In x cs) by (intro H; apply (Hd x H); now left).
        destruct (N.eq_dec b bx) as [Eb|Nb].
        * subst b.
          destruct (Hb bx (x :: cs) Hblt) as [cs' [Hch [Hn' Hi]]].
          { cbn [chain]. fold a. unfold c1. rewrite gss. split; [reflexivity|].
            unfold n1. rewrite gss. eapply chain_frame; [|exact Hcs].
            intros y Hy. apply gso. intro E. subst y. contradiction. }
          { constructor; assumption. }
          { intros y [<-|Hy]; [exact Hxn|]. intro H. apply (Hd y Hy). now right. }
          exists cs'. split; [exact Hch|]. split; [exact Hn'|].
          intro e. rewrite Hi. cbn [In].
          change (ebucket hash (upd s c1 n1) (tlen s) e) with (ebucket hash s (tlen s) e).
          split.
          -- intros [[<-|H]|[H1 H2]]; [right; split; [now left|reflexivity] | now left | right; split; [now right|exact H2]].
          -- intros [H|[[<-|H1] H2]]; [left; now right | left; now left | right; split; assumption].
        * destruct (Hb b cs Hblt) as [cs' [Hch [Hn' Hi]]].
          { unfold c1. rewrite gso by (unfold a; lia).
            eapply chain_frame; [|exact Hcs].
            intros y Hy. unfold n1. apply gso. intro E. subst y. contradiction. }
          { exact Hn. }
          { intros y Hy H. apply (Hd y Hy). now right. }
          exists cs'. split; [exact Hch|]. split; [exact Hn'|].
          intro e. rewrite Hi. cbn [In].
          change (ebucket hash (upd s c1 n1) (tlen s) e) with (ebucket hash s (tlen s) e).
          split.
          -- intros [H|[H1 H2]]; [now left | right; split; [now right|exact H2]].
          -- intros [H|[[<-|H1] H2]]; [now left | exfalso; apply Nb; symmetry; exact H2 | right; split; assumption].
  Qed.

  (* ---- the reverse table copy ---------------------------------------------------------------- *)
  Lemma copy_rev_spec m : forall oldr s,
    (forall j, j < N.of_nat m -> oldr + j < rev1 s) ->
    exists c', copy_rev m oldr s = set_cells s c' /\
               (forall j, j < N.of_nat m -> get c' (rev1 s + j) = get (cells s) (oldr + j)) /\
               (forall a, a < rev1 s \/ rev1 s + N.of_nat m <= a -> get c' a = get (cells s) a).
  Proof.
    induction m as [|m IH]; intros oldr s Hlt.
    - exists (cells s). split; [apply set_cells_self|]. split; [intros j Hj; lia|reflexivity].
    - cbn [copy_rev].
      set (c1 := set (cells s) (rev1 s + N.of_nat m) (get (cells s) (oldr + N.of_nat m))).
      destruct (IH oldr (set_cells s c1)) as [c' [Hr [Hj Ha]]].
      { intros j Hj. cbn [set_cells rev1]. apply Hlt. lia. }
      cbn [set_cells rev1 cells] in Hj, Ha.
      exists c'. split; [exact Hr|]. split.
      + intros j Hjm. destruct (N.eq_dec j (N.of_nat m)) as [->|Hne].
        * rewrite Ha by lia. unfold c1. apply gss.
        * rewrite Hj by lia. unfold c1. apply gso.
          assert (oldr + j < rev1 s) by (apply Hlt; lia). lia.
      + intros a Haa. rewrite Ha by lia. unfold c1. apply gso. lia.
  Qed.

  (* ---- all old buckets ------------------------------------------------------------------------ *)
  Section Buckets.
    Variables (s0 : st) (ks ents : list N) (n : N) (fuel : nat).
    Hypothesis I : inv hash s0 ks ents.
    Hypothesis Hn : 1 <= n.
    Hypothesis Hfuel : (length ks <= fuel)%nat.

    Let t := brk s0.
    Let s1 := mkSt (cells s0) t (t + n) n n (cnt s0) (ekey s0) (enext s0) (eidx s0) (elive s0)
                   (nid s0) (t + 2 * n).

    Definition RI (j : nat) (c nx : arr (option N)) : Prop :=
      (forall a, a < t -> get c a = get (cells s0) a) /\
      (forall a, t + n <= a -> get c a = None) /\
      (forall b, b < n ->
         exists es, chain nx (get c (t + b)) es /\ NoDup es /\
                    forall e, In e es <-> (In e ents /\ ebucket hash s0 n e = b /\
                                           N.of_nat j <= ebucket hash s0 (tlen s0) e)) /\
      (forall b, b < N.of_nat j ->
         exists es, chain nx (get (cells s0) (tbl s0 + b)) es /\ NoDup es /\
                    forall e, In e es <-> (In e ents /\ ebucket hash s0 (tlen s0) e = b)).

    Lemma rehash_buckets_ok : forall j c nx,
      N.of_nat j <= tlen s0 -> RI j c nx ->
      exists c' nx', rehash_buckets hash fuel j (tbl s0) (upd s1 c nx) = Ok (upd s1 c' nx') /\
                     RI 0 c' nx'.
    Proof.
      induction j as [|j IH]; intros c nx Hj R.
      - exists c, nx. split; [reflexivity|exact R].
      - destruct R as [RB [RC [RD RE]]].
        cbn [rehash_buckets]. cbn [upd cells].
        assert (Hjl : N.of_nat j < tlen s0) by lia.
        rewrite RB by (apply (lay_tbl_lt hash s0 ks ents); assumption).
        destruct (RE (N.of_nat j)) as [esj [Hcj [Hnj Hij]]]; [lia|].
        destruct (rehash_chain_ok esj fuel (upd s1 c nx) (get (cells s0) (tbl s0 + N.of_nat j)))
          as [c1 [n1 [Hr [Ha [Hx Hb]]]]].
        { cbn. lia. }
        { exact Hcj. }
        { exact Hnj. }
        { etransitivity; [|exact Hfuel]. eapply chain_len; [exact I|exact Hnj|].
          intros e He. apply Hij in He. tauto. }
        rewrite Hr. cbn [bind].
        change (upd (upd s1 c nx) c1 n1) with (upd s1 c1 n1).
        cbn [upd s1 tbl tlen cells enext] in Ha, Hx, Hb.
        apply IH; [lia|].
        split; [|split; [|split]].
        + intros a Hat. rewrite Ha by lia. apply RB. exact Hat.
        + intros a Hat. rewrite Ha by lia. apply RC. exact Hat.
        + intros b Hbn. destruct (RD b Hbn) as [es [Hce [Hne Hie]]].
          destruct (Hb b es Hbn Hce Hne) as [cs' [Hch [Hn' Hi]]].
          { intros x Hx1 Hx2. apply Hie in Hx1. apply Hij in Hx2.
            destruct Hx1 as [_ [_ H1]]. destruct Hx2 as [_ H2]. rewrite H2 in H1. lia. }
          exists cs'. split; [exact Hch|]. split; [exact Hn'|].
          intro e. rewrite Hi, Hie, Hij.
          change (ebucket hash (upd s1 c nx) n e) with (ebucket hash s0 n e).
          split.
          * intros [[H1 [H2 H3]]|[[H1 H2] H3]]; (split; [exact H1|split; [assumption|lia]]).
          * intros [H1 [H2 H3]].
            destruct (N.eq_dec (ebucket hash s0 (tlen s0) e) (N.of_nat j)) as [E|NE].
            -- right. split; [split|]; assumption.
            -- left. split; [exact H1|split; [exact H2|lia]].
        + intros b Hbj. destruct (RE b) as [es [Hce [Hne Hie]]]; [lia|].
          exists es. split; [|split; [exact Hne|exact Hie]].
          eapply chain_frame; [|exact Hce]. intros x Hx1. apply Hx. intro Hx2.
          apply Hie in Hx1. apply Hij in Hx2. destruct Hx1 as [_ H1]. destruct Hx2 as [_ H2]. lia.
    Qed.
  End Buckets.

  (* ---- resize --------------------------------------------------------------------------------- *)
  Lemma resize_ok s ks ents n fuel :
    inv hash s ks ents -> 1 <= n -> cnt s <= n -> n <= max_len -> (length ks <= fuel)%nat ->
    exists s', resize hash fuel s n = Ok s' /\ inv hash s' ks ents /\ tlen s' = n /\ nid s' = nid s.
  Proof.
    intros I Hn Hcn Hmax Hfuel.
    unfold resize. destruct (N.eqb_spec n 0) as [E|_]; [lia|].
    set (t := brk s).
    set (s1 := mkSt (cells s) t (t + n) n n (cnt s) (ekey s) (enext s) (eidx s) (elive s)
                    (nid s) (t + 2 * n)).
    change s1 with (upd s1 (cells s) (enext s)).
    pose proof (i_tlen _ _ _ _ I) as Htl.
    destruct (rehash_buckets_ok s ks ents n fuel I Hn Hfuel (N.to_nat (tlen s)) (cells s) (enext s))
      as [c' [nx' [Hr [RB [RC [RD _]]]]]].
    { rewrite N2Nat.id. lia. }
    { split; [reflexivity|]. split; [|split].
      - intros a Ha. apply (i_fresh _ _ _ _ I). lia.
      - intros b Hb. exists []. cbn [chain]. split; [apply (i_fresh _ _ _ _ I); lia|].
        split; [constructor|]. intro e. split; [intros []|]. intros [_ [_ H]].
        rewrite N2Nat.id in H. assert (ebucket hash s (tlen s) e < tlen s) by (apply N.mod_lt; lia). lia.
      - intros b Hb. rewrite N2Nat.id in Hb. apply (i_chn _ _ _ _ I). exact Hb. }
    fold t in Hr, RB, RC, RD. fold s1 in Hr. rewrite Hr. cbn [bind].
    set (m := N.to_nat (N.min (tlen s) n)).
    assert (Hm : N.of_nat m = N.min (tlen s) n) by (unfold m; apply N2Nat.id).
    destruct (copy_rev_spec m (rev1 s) (upd s1 c' nx')) as [c'' [Hcp [Hj Ha]]].
    { intros j Hjm. cbn [upd s1 rev1]. assert (rev1 s + j < t); [|lia].
      apply (lay_rev_lt hash s ks ents); [exact I|lia]. }
    rewrite Hcp. cbn [upd s1 rev1 cells] in Hj, Ha.
    eexists. split; [reflexivity|]. split; [|split; reflexivity].
    assert (Hcl : cnt s = N.of_nat (length ks)) by apply (i_cnt _ _ _ _ I).
    constructor; cbn [set_cells upd s1 cells tbl rev1 tlen thr cnt ekey enext eidx elive nid brk].
    - apply (i_len _ _ _ _ I).
    - exact Hcl.
    - apply (i_ndk _ _ _ _ I).
    - apply (i_nde _ _ _ _ I).
    - intros i e Hi. destruct (i_ent _ _ _ _ I i e Hi) as [H1 [H2 [H3 [H4 H5]]]].
      repeat split; try assumption.
      assert (Hil : (i < length ents)%nat) by (apply nth_error_Some; congruence).
      rewrite (i_len _ _ _ _ I) in Hil. pose proof (i_cap _ _ _ _ I).
      rewrite Hj by lia. rewrite RB; [exact H5|].
      apply (lay_rev_lt hash s ks ents); [exact I|lia].
    - lia.
    - reflexivity.
    - exact Hcn.
    - apply (i_nid _ _ _ _ I).
    - right. pose proof (i_brk _ _ _ _ I). fold t in H. lia.
    - pose proof (i_brk _ _ _ _ I). fold t in H. lia.
    - intros b Hb. destruct (RD b Hb) as [es [Hce [Hne Hie]]].
      exists es. rewrite Ha by lia. split; [exact Hce|]. split; [exact Hne|].
      intro e. rewrite Hie. change (ebucket hash (set_cells (upd s1 c' nx') c'') n e) with (ebucket hash s n e).
      split; [intros [H1 [H2 _]]; split; assumption|intros [H1 H2]; split; [exact H1|split; [exact H2|lia]]].
    - intros j Hjn. unfold beyond_ok. cbn [set_cells upd s1 cells rev1 nid elive].
      destruct (N.ltb_spec j (N.of_nat m)) as [Hlt|Hge].
      + rewrite Hj by exact Hlt. rewrite RB.
        * apply (i_bey _ _ _ _ I). lia.
        * apply (lay_rev_lt hash s ks ents); [exact I|lia].
      + rewrite Ha by lia. rewrite RC by lia. exact Logic.I.
    - intro H0. apply (i_def _ _ _ _ I). pose proof (i_brk _ _ _ _ I) as Hb. fold t in Hb.
      rewrite Ha in H0 by lia. rewrite RB in H0 by lia. exact H0.
    - intros a Haa. rewrite Ha by lia. apply RC. lia.
  Qed.
End Resize.
