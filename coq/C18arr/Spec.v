(* C18arr/Spec.v - the abstract specification of the indexed set: a list of slots, the
   index (id) of a key is its 1-based position.  intern (addKeyIndex) returns the position
   of the key or appends it; lookup by key gives the position or 0; lookup by id gives the
   key.  Without [ORemove] every slot is [Some key] and the state is just a list of keys.

   remove k keeps the ids of all other keys: it turns the slot of k into a tombstone
   [None]; a later intern appends (an id is never handed out twice while the set is not
   emptied).  size() = number of live slots.  shrink() has no observable effect, except
   that a set without live keys may restart its ids (the code calls clear()).

   Preconditions (violated = [OUndef], the rest of the history is unconstrained):
   operator[] needs a live id; resize(n) needs 1 <= n, size() <= n <= max_len;
   interning a NEW key needs fewer than max_len = 89834777 slots (the growth table of the
   implementation ends there). *)
From Coq Require Import NArith List Bool.
From Morfuse Require Import C18arr.Model.
Import ListNotations.
Local Open Scope N_scope.

Definition slots := list (option N).

Fixpoint index_from (i : N) (k : N) (l : slots) : N :=
  match l with
  | [] => 0
  | Some k' :: l' => if N.eqb k' k then i else index_from (i + 1) k l'
  | None :: l' => index_from (i + 1) k l'
  end.

Definition index_of (k : N) (l : slots) : N := index_from 1 k l.

Definition len (l : slots) : N := N.of_nat (length l).

Definition is_live (x : option N) : bool := match x with Some _ => true | None => false end.

Definition live_count (l : slots) : N := N.of_nat (length (filter is_live l)).

Definition lookup_id (i : N) (l : slots) : option N :=
  if i =? 0 then None
  else match nth_error l (N.to_nat (i - 1)) with
       | Some (Some k) => Some k
       | _ => None
       end.

Fixpoint tomb (k : N) (l : slots) : slots :=
  match l with
  | [] => []
  | Some k' :: l' => (if N.eqb k' k then None else Some k') :: tomb k l'
  | None :: l' => None :: tomb k l'
  end.

Definition spec_step (l : slots) (o : op) : option (slots * res) :=
  match o with
  | OAdd k =>
      let i := index_of k l in
      if i =? 0
      then if len l <? max_len then Some (l ++ [Some k], RIdx (len l + 1)) else None
      else Some (l, RIdx i)
  | OFind k => Some (l, RIdx (index_of k l))
  | OAt i => match lookup_id i l with
             | Some k => Some (l, RKey k)
             | None => None
             end
  | OResize n =>
      if (n =? 0) || (n <? len l) || (max_len <? n) then None else Some (l, RUnit)
  | OShrink => Some (if live_count l =? 0 then [] else l, RUnit)
  | OClear => Some ([], RUnit)
  | OSize => Some (l, RNum (live_count l))
  | ORemove k =>
      if index_of k l =? 0 then Some (l, RBool false) else Some (tomb k l, RBool true)
  end.

(* for every key of the universe: its id, and the key stored under that id *)
Definition spec_snap (u : nat) (l : slots) : list (N * option N) :=
  map (fun k => let i := index_of k l in (i, if i =? 0 then None else Some k)) (universe u).

Fixpoint spec_from (u : nat) (l : slots) (ops : list op) : list outcome :=
  match ops with
  | [] => []
  | o :: ops' =>
      match spec_step l o with
      | None => [OUndef]
      | Some p => Obs (snd p) (live_count (fst p)) (spec_snap u (fst p))
                  :: spec_from u (fst p) ops'
      end
  end.

Definition spec_run (u : nat) (ops : list op) : list outcome := spec_from u [] ops.
