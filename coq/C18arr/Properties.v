(* C18arr/Properties.v - placeholder while the model is validated against the code *)
From Coq Require Import NArith List Bool.
From Morfuse Require Import Base.Arr C18arr.Model C18arr.Spec.
Import ListNotations.
Local Open Scope N_scope.
