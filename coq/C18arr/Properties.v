(* C18arr/Properties.v - the property theorems of unit C18arr (con::arrayset, the indexed
   set behind StringDictionary), and nothing else.  Every theorem is closed by
   [exact <lemma>] and followed by Print Assumptions. *)
From Coq Require Import NArith List Bool.
From Morfuse Require Import Base.Arr C18arr.Model C18arr.Spec C18arr.Proofs.
Import ListNotations.
Local Open Scope N_scope.

(* The full statement of the property for this container,
     forall hash u ops, run hash u ops = spec_run u ops,
   is FALSE of the faithful model and of the real code because of remove():
   see C18arr_remove_refuted and the witnesses below.  Proved instead:

   For EVERY hash function, every universe size u and EVERY sequence of the operations
   addKeyIndex k, findKeyIndex k, operator[] i, resize n, shrink, clear, size (the alphabet
   StringDictionary uses), the model of the chained hash table with its reverse index table,
   the inline defaultEntry slot that table and reverse table alias while tableLength = 1,
   growth through set_primes and the in-place re-linking of resize shows after every operation
   exactly what a list of keys shows: the operation's result, size(), and for every key
   0..u-1 its id and the key stored under that id.  In particular ids are the 1-based
   insertion positions, lookups find precisely the keys present, growth, resize(n), shrink
   and the reverse-table copy preserve every id, clear empties the set, and the model runs
   into undefined behaviour ([OUndef]: null/stale/out-of-table dereference, division by
   zero after resize(0), reverseTable written behind its block) exactly when the
   specification's precondition is violated (operator[] on an id that is not live;
   resize(n) with n = 0, n < size() or n > 89834777; interning a new key into a set that
   already holds 89834777 keys). *)
Theorem C18arr_indexed_set_refines_list_without_remove :
  forall (hash : N -> N) (u : nat) (ops : list op),
    (forall k, ~ In (ORemove k) ops) ->
    run hash u ops = spec_run u ops.
Proof. exact run_refines_spec. Qed.
Print Assumptions C18arr_indexed_set_refines_list_without_remove.

(* The chain walks of the model (find, insert, rehash, clear) always terminate within their
   fuel: no history without remove() makes a chain cyclic. *)
Theorem C18arr_chain_walks_terminate :
  forall (hash : N -> N) (u : nat) (ops : list op),
    (forall k, ~ In (ORemove k) ops) ->
    ~ In OHang (run hash u ops).
Proof. exact run_never_hangs. Qed.
Print Assumptions C18arr_chain_walks_terminate.

(* With remove() the refinement does not hold (witness: hash = k mod 2, add 0; remove 0). *)
Theorem C18arr_remove_refuted :
  ~ (forall (hash : N -> N) (u : nat) (ops : list op), run hash u ops = spec_run u ops).
Proof. exact remove_refuted. Qed.
Print Assumptions C18arr_remove_refuted.

(* ---- non-vacuity: a concrete history of the proved alphabet ------------------------------------
   hash = k mod 3, so keys 0 and 3 have the same hash value and share a bucket in every
   table.  Three insertions (the second one leaves the inline slot: table 1 -> 7), lookup by
   id, resize(5), shrink() to 3 buckets, a fourth insertion (3 -> 7 again), lookup by key,
   clear, re-insertion (ids restart at 1), size, and finally operator[] on an id that is not
   live: undefined behaviour in model and specification alike. *)
Example C18arr_model_history :
  run (fun k => k mod 3) 4
      [OAdd 0; OAdd 3; OAdd 1; OAt 2; OResize 5; OShrink; OAdd 2; OFind 3; OClear; OAdd 3; OSize; OAt 2] =
  [Obs (RIdx 1) 1 [(1, Some 0); (0, None); (0, None); (0, None)];
   Obs (RIdx 2) 2 [(1, Some 0); (0, None); (0, None); (2, Some 3)];
   Obs (RIdx 3) 3 [(1, Some 0); (3, Some 1); (0, None); (2, Some 3)];
   Obs (RKey 3) 3 [(1, Some 0); (3, Some 1); (0, None); (2, Some 3)];
   Obs RUnit 3 [(1, Some 0); (3, Some 1); (0, None); (2, Some 3)];
   Obs RUnit 3 [(1, Some 0); (3, Some 1); (0, None); (2, Some 3)];
   Obs (RIdx 4) 4 [(1, Some 0); (3, Some 1); (4, Some 2); (2, Some 3)];
   Obs (RIdx 2) 4 [(1, Some 0); (3, Some 1); (4, Some 2); (2, Some 3)];
   Obs RUnit 0 [(0, None); (0, None); (0, None); (0, None)];
   Obs (RIdx 1) 1 [(0, None); (0, None); (0, None); (1, Some 3)];
   Obs (RNum 1) 1 [(0, None); (0, None); (0, None); (1, Some 3)];
   OUndef].
Proof. vm_compute. reflexivity. Qed.

(* allocated() along the same history: 1 -> 7 on the second insertion, resize(5), shrink() to
   the element count, 7 again, back to the inline slot after clear() *)
Example C18arr_model_history_allocated :
  run_tlen (fun k => k mod 3)
      [OAdd 0; OAdd 3; OAdd 1; OAt 2; OResize 5; OShrink; OAdd 2; OFind 3; OClear; OAdd 3; OSize] =
  [1; 7; 7; 7; 5; 3; 7; 7; 1; 1; 1].
Proof. vm_compute. reflexivity. Qed.

Example C18arr_spec_history :
  spec_run 4
      [OAdd 0; OAdd 3; OAdd 1; OAt 2; OResize 5; OShrink; OAdd 2; OFind 3; OClear; OAdd 3; OSize; OAt 2] =
  [Obs (RIdx 1) 1 [(1, Some 0); (0, None); (0, None); (0, None)];
   Obs (RIdx 2) 2 [(1, Some 0); (0, None); (0, None); (2, Some 3)];
   Obs (RIdx 3) 3 [(1, Some 0); (3, Some 1); (0, None); (2, Some 3)];
   Obs (RKey 3) 3 [(1, Some 0); (3, Some 1); (0, None); (2, Some 3)];
   Obs RUnit 3 [(1, Some 0); (3, Some 1); (0, None); (2, Some 3)];
   Obs RUnit 3 [(1, Some 0); (3, Some 1); (0, None); (2, Some 3)];
   Obs (RIdx 4) 4 [(1, Some 0); (3, Some 1); (4, Some 2); (2, Some 3)];
   Obs (RIdx 2) 4 [(1, Some 0); (3, Some 1); (4, Some 2); (2, Some 3)];
   Obs RUnit 0 [(0, None); (0, None); (0, None); (0, None)];
   Obs (RIdx 1) 1 [(0, None); (0, None); (0, None); (1, Some 3)];
   Obs (RNum 1) 1 [(0, None); (0, None); (0, None); (1, Some 3)];
   OUndef].
Proof. vm_compute. reflexivity. Qed.

(* ---- the remove() witnesses (all confirmed on the real code by harness/C18arr.cpp) -------------
   hash = k mod 2 in all of them. *)

(* W0: while tableLength = 1, table[0], reverseTable[1] and defaultEntry are one cell.  remove's
   first loop nulls reverseTable[1] and thereby the only chain head: the key is never
   unlinked, remove() returns false, size() stays 1, the entry is leaked.  The specification
   answers true / 0. *)
Example C18arr_remove_witness_inline_slot :
  run (fun k => k mod 2) 4 [OAdd 0; ORemove 0; OSize; OFind 0] =
  [Obs (RIdx 1) 1 [(1, Some 0); (0, None); (0, None); (0, None)];
   Obs (RBool false) 1 [(0, None); (0, None); (0, None); (0, None)];
   Obs (RNum 1) 1 [(0, None); (0, None); (0, None); (0, None)];
   Obs (RIdx 0) 1 [(0, None); (0, None); (0, None); (0, None)]]
  /\
  spec_run 4 [OAdd 0; ORemove 0; OSize; OFind 0] =
  [Obs (RIdx 1) 1 [(1, Some 0); (0, None); (0, None); (0, None)];
   Obs (RBool true) 0 [(0, None); (0, None); (0, None); (0, None)];
   Obs (RNum 0) 0 [(0, None); (0, None); (0, None); (0, None)];
   Obs (RIdx 0) 0 [(0, None); (0, None); (0, None); (0, None)]].
Proof. vm_compute. split; reflexivity. Qed.

(* W1: remove does count--, the next insertion takes index = count = 2, which still belongs
   to the live key 1: two live keys share id 2, operator[](2) now returns key 2, so the key
   stored under the id of key 1 is no longer key 1. *)
Example C18arr_remove_witness_id_reused :
  run (fun k => k mod 2) 4 [OAdd 0; OAdd 1; ORemove 0; OAdd 2; OFind 1; OAt 2] =
  [Obs (RIdx 1) 1 [(1, Some 0); (0, None); (0, None); (0, None)];
   Obs (RIdx 2) 2 [(1, Some 0); (2, Some 1); (0, None); (0, None)];
   Obs (RBool true) 1 [(0, None); (2, Some 1); (0, None); (0, None)];
   Obs (RIdx 2) 2 [(0, None); (2, Some 2); (2, Some 2); (0, None)];
   Obs (RIdx 2) 2 [(0, None); (2, Some 2); (2, Some 2); (0, None)];
   Obs (RKey 2) 2 [(0, None); (2, Some 2); (2, Some 2); (0, None)]].
Proof. vm_compute. reflexivity. Qed.

(* W2: removing the entry that defaultEntry points to sets defaultEntry = prev = nullptr while
   the table still holds key 1; the next insertion into the bucket of key 1 (key 3) takes
   the "defaultEntry == nullptr" branch, sets next = nullptr and drops key 1's chain:
   key 1 was never removed but is no longer found (and its entry is leaked). *)
Example C18arr_remove_witness_chain_dropped :
  run (fun k => k mod 2) 4 [OAdd 0; OAdd 1; ORemove 0; OAdd 3; OFind 1] =
  [Obs (RIdx 1) 1 [(1, Some 0); (0, None); (0, None); (0, None)];
   Obs (RIdx 2) 2 [(1, Some 0); (2, Some 1); (0, None); (0, None)];
   Obs (RBool true) 1 [(0, None); (2, Some 1); (0, None); (0, None)];
   Obs (RIdx 2) 2 [(0, None); (0, None); (0, None); (2, Some 3)];
   Obs (RIdx 0) 2 [(0, None); (0, None); (0, None); (2, Some 3)]]
  /\
  spec_run 4 [OAdd 0; OAdd 1; ORemove 0; OAdd 3; OFind 1] =
  [Obs (RIdx 1) 1 [(1, Some 0); (0, None); (0, None); (0, None)];
   Obs (RIdx 2) 2 [(1, Some 0); (2, Some 1); (0, None); (0, None)];
   Obs (RBool true) 1 [(0, None); (2, Some 1); (0, None); (0, None)];
   Obs (RIdx 3) 2 [(0, None); (2, Some 1); (0, None); (3, Some 3)];
   Obs (RIdx 2) 2 [(0, None); (2, Some 1); (0, None); (3, Some 3)]].
Proof. vm_compute. split; reflexivity. Qed.

(* W3: shrink() with one element allocates a table of length 1 outside the object; clear()
   resets reverseTable only when tableLength > 1, so reverseTable[1] keeps pointing at the
   deleted entry; remove's first loop then reads that entry's key: use after free
   (AddressSanitizer: heap-use-after-free in the real code).  The specification: false. *)
Example C18arr_remove_witness_use_after_free :
  run (fun k => k mod 2) 4 [OAdd 0; OShrink; OClear; ORemove 5] =
  [Obs (RIdx 1) 1 [(1, Some 0); (0, None); (0, None); (0, None)];
   Obs RUnit 1 [(1, Some 0); (0, None); (0, None); (0, None)];
   Obs RUnit 0 [(0, None); (0, None); (0, None); (0, None)];
   OUndef]
  /\
  spec_run 4 [OAdd 0; OShrink; OClear; ORemove 5] =
  [Obs (RIdx 1) 1 [(1, Some 0); (0, None); (0, None); (0, None)];
   Obs RUnit 1 [(1, Some 0); (0, None); (0, None); (0, None)];
   Obs RUnit 0 [(0, None); (0, None); (0, None); (0, None)];
   Obs (RBool false) 0 [(0, None); (0, None); (0, None); (0, None)]].
Proof. vm_compute. split; reflexivity. Qed.
