(* C15/ProofsSpec.v — what the specification itself guarantees (no model involved):
   the invariant of the naming list, the membership rule of lookup, rename moves, destroy
   removes, and the fan-out reaches members only, each at most once, all of them for mark. *)
From Coq Require Import NArith List Bool Lia.
From Morfuse Require Import Base.ListX C15.Model C15.Spec C15.ProofsLib.
Import ListNotations.
Local Open Scope N_scope.

Definition inv (a : abs) : Prop :=
  NoDup (map fst (sobjs a)) /\ forall k, In k (map fst (sobjs a)) -> k < snext a.

Lemma inv_init : inv abs_init.
Proof. split; cbn; [constructor|tauto]. Qed.

Lemma inv_set_name a k n : inv a -> inv (s_set_name a k n).
Proof.
  intros [Hnd Hb]. unfold s_set_name, alive_in.
  destruct (find_name (sobjs a) k) as [old|] eqn:Hf; [|now split].
  split; cbn [sobjs snext s_with].
  - rewrite map_app, ids_without. cbn [map fst]. apply nodup_app_intro.
    + now apply rm_nodup.
    + constructor; [tauto|constructor].
    + intros x Hx [Hk|[]]. subst x. exact (rm_not_in k _ Hx).
  - intros k' Hin. rewrite map_app, ids_without in Hin. cbn [map fst] in Hin.
    apply in_app_or in Hin. destruct Hin as [Hin|[Hin|[]]].
    + apply Hb. eapply rm_in; eauto.
    + subst k'. apply Hb. eapply find_name_in_ids; eauto.
Qed.

Lemma inv_destroy a k : inv a -> inv (s_destroy a k).
Proof.
  intros [Hnd Hb]. split; cbn [s_destroy sobjs snext s_with]; rewrite ids_without.
  - now apply rm_nodup.
  - intros k' Hin. apply Hb. eapply rm_in; eauto.
Qed.

Lemma inv_spawn a n : inv a -> inv (s_spawn a n).
Proof.
  intros [Hnd Hb]. split; cbn [s_spawn sobjs snext]; rewrite map_app; cbn [map fst].
  - apply nodup_app_intro; [exact Hnd|constructor; [tauto|constructor]|].
    intros x Hx [Hk|[]]. subst x. apply Hb in Hx. lia.
  - intros k' Hin. apply in_app_or in Hin. destruct Hin as [Hin|[Hin|[]]].
    + apply Hb in Hin. lia.
    + subst k'. lia.
Qed.

Lemma inv_apply a k c log : inv a -> inv (fst (s_apply a k c log)).
Proof.
  intro H. destruct c; cbn; auto using inv_set_name, inv_destroy.
Qed.

Lemma inv_fanout grp : forall a c log, inv a -> inv (fst (s_fanout a grp c log)).
Proof.
  induction grp as [|k r IH]; intros a c log H; cbn [s_fanout]; [exact H|].
  destruct (alive_in (sobjs a) k); [|now apply IH].
  pose proof (inv_apply a k c log H) as H'.
  destruct (s_apply a k c log) as [a' lg]. now apply IH.
Qed.

Lemma inv_fstore a k f log : inv a -> inv (fst (fst (s_fstore a k f log))).
Proof.
  intro H. destruct f; cbn; auto using inv_set_name, inv_destroy.
Qed.

Lemma inv_ffanout grp : forall a f log, inv a -> inv (fst (fst (s_ffanout a grp f log))).
Proof.
  induction grp as [|k r IH]; intros a f log H; cbn [s_ffanout]; [exact H|].
  destruct (alive_in (sobjs a) k); [|now apply IH].
  pose proof (inv_fstore a k f log H) as H'.
  destruct (s_fstore a k f log) as [[a' lg] e]. destruct e; [exact H'|now apply IH].
Qed.

Lemma inv_step a o : inv a -> inv (fst (spec_step a o)).
Proof.
  intro H. destruct o as [n|k n|k|t|t|t i|t c|t f|j n]; cbn [spec_step].
  - now apply inv_spawn.
  - destruct (alive_in (sobjs a) k); cbn; [now apply inv_set_name|exact H].
  - destruct (alive_in (sobjs a) k); cbn; [now apply inv_destroy|exact H].
  - destruct (s_resolve a t) as [r w]. exact H.
  - destruct (s_resolve a t) as [r w]. exact H.
  - destruct (s_resolve a t) as [r w]. destruct (q_index r i). exact H.
  - destruct (s_resolve a t) as [r w]. destruct r as [|k|l]; try exact H.
    + pose proof (inv_apply a k c [] H) as H'. destruct (s_apply a k c []). exact H'.
    + pose proof (inv_fanout l a c [] H) as H'. destruct (s_fanout a l c []). exact H'.
  - destruct (s_resolve a t) as [r w]. destruct r as [|k|l]; try exact H.
    + pose proof (inv_fstore a k f [] H) as H'. destruct (s_fstore a k f []) as [[a' lg] e]. exact H'.
    + pose proof (inv_ffanout l a f [] H) as H'. destruct (s_ffanout a l f []) as [[a' lg] e]. exact H'.
  - destruct (s_eval_name a n). exact H.
Qed.

(* who is in lookup n *)
Lemma lookup_iff a n k :
  inv a -> (In k (lookup n (sobjs a)) <-> n <> 0 /\ find_name (sobjs a) k = Some n).
Proof.
  intros [Hnd _]. rewrite lookup_named. split.
  - destruct (N.eqb_spec n 0) as [E|E]; [intros []|]. intro Hin. split; [exact E|].
    apply find_name_of_in; [exact Hnd|]. now apply named_in.
  - intros [Hn Hf]. destruct (N.eqb_spec n 0) as [E|E]; [contradiction|].
    clear Hnd. induction (sobjs a) as [|[i m] l IH]; cbn in Hf; [discriminate|].
    rewrite named_cons. destruct (N.eqb_spec i k) as [E2|E2].
    + inversion Hf; subst. rewrite N.eqb_refl. now left.
    + destruct (m =? n); [right|]; now apply IH.
Qed.

(* naming an object moves it to the end of the new name's group and out of every other *)
Lemma rename_moves a k n n' :
  alive_in (sobjs a) k = true ->
  lookup n' (sobjs (s_set_name a k n)) =
  rm k (lookup n' (sobjs a)) ++ (if n' =? norm n then [k] else []).
Proof.
  intro Hal. unfold s_set_name. rewrite Hal. cbn [sobjs s_with].
  rewrite lookup_app, lookup_without. f_equal.
  destruct (N.eqb_spec (norm n) n') as [E|E]; destruct (N.eqb_spec n' (norm n)) as [E2|E2];
    try congruence; cbn [andb]; [|reflexivity].
  destruct (N.eqb_spec n' 0) as [E3|E3]; [|reflexivity].
  exfalso. apply (norm_nz n). congruence.
Qed.

Lemma destroy_removes a k n' :
  lookup n' (sobjs (s_destroy a k)) = rm k (lookup n' (sobjs a)) /\
  alive_in (sobjs (s_destroy a k)) k = false.
Proof.
  cbn [s_destroy sobjs s_with]. split; [apply lookup_without|].
  unfold alive_in. now rewrite find_name_without_same.
Qed.

(* fan-out: receivers are members of the group, each at most once *)
Lemma apply_log a k c log :
  snd (s_apply a k c log) = log \/ snd (s_apply a k c log) = log ++ [k].
Proof. destruct c; cbn; tauto. Qed.

Lemma fanout_receivers grp : forall a c log,
  exists l', snd (s_fanout a grp c log) = log ++ l' /\
             (forall x, In x l' -> In x grp) /\ (NoDup grp -> NoDup l').
Proof.
  induction grp as [|k r IH]; intros a c log; cbn [s_fanout].
  - exists []. rewrite app_nil_r. repeat split; [tauto|constructor].
  - destruct (alive_in (sobjs a) k).
    + pose proof (apply_log a k c log) as Hl.
      destruct (s_apply a k c log) as [a' lg]. cbn [snd] in Hl.
      destruct (IH a' c lg) as [l' [E [Hin Hnd]]].
      destruct Hl as [Hl|Hl]; subst lg.
      * exists l'. split; [exact E|]. split; [intros x Hx; right; now apply Hin|].
        intro H. inversion H; subst. now apply Hnd.
      * exists (k :: l'). split; [rewrite E, <- app_assoc; reflexivity|].
        split; [intros x [Hx|Hx]; [now left|right; now apply Hin]|].
        intro H. inversion H as [|x y Hnin Hnd']; subst. constructor; [|now apply Hnd].
        intro Hk. apply Hnin. now apply Hin.
    + destruct (IH a c log) as [l' [E [Hin Hnd]]]. exists l'. split; [exact E|].
      split; [intros x Hx; right; now apply Hin|]. intro H. inversion H; subst. now apply Hnd.
Qed.

(* mark reaches every member of the group exactly once, in naming order, and changes nothing *)
Lemma fanout_mark_all grp : forall a log,
  (forall k, In k grp -> alive_in (sobjs a) k = true) ->
  s_fanout a grp CMark log = (a, log ++ grp).
Proof.
  induction grp as [|k r IH]; intros a log Hal; cbn [s_fanout s_apply].
  - now rewrite app_nil_r.
  - rewrite (Hal k (or_introl eq_refl)). rewrite IH.
    + now rewrite <- app_assoc.
    + intros x Hx. apply Hal. now right.
Qed.

Lemma mark_reaches_the_group a n :
  s_fanout a (lookup n (sobjs a)) CMark [] = (a, lookup n (sobjs a)).
Proof.
  rewrite fanout_mark_all; [reflexivity|].
  intros k Hin. apply lookup_in_alive in Hin. unfold alive_in.
  now destruct (find_name (sobjs a) k).
Qed.

(* remove reaches every member: afterwards nobody bears the name and `$n` is NULL *)
Lemma fanout_remove_kills grp : forall a log k,
  In k grp -> alive_in (sobjs (fst (s_fanout a grp CRemove log))) k = false.
Proof.
  assert (forall g a log k, alive_in (sobjs a) k = false ->
          alive_in (sobjs (fst (s_fanout a g CRemove log))) k = false) as Hstay.
  { induction g as [|x r IH]; intros a log k Hd; cbn [s_fanout s_apply]; [exact Hd|].
    destruct (alive_in (sobjs a) x); [|now apply IH].
    apply IH. cbn [s_destroy sobjs s_with]. unfold alive_in in *.
    destruct (N.eqb_spec k x) as [E|E].
    - subst. now rewrite find_name_without_same.
    - now rewrite find_name_without_other. }
  induction grp as [|x r IH]; intros a log k Hin; [contradiction|].
  cbn [s_fanout s_apply]. destruct Hin as [E|Hin].
  - subst x. destruct (alive_in (sobjs a) k) eqn:Hal.
    + apply Hstay. exact (proj2 (destroy_removes a k 0)).
    + now apply Hstay.
  - destruct (alive_in (sobjs a) x); now apply IH.
Qed.

(* ---- field assignments *)
Lemma fstore_log a k f log :
  snd (fst (s_fstore a k f log)) = log \/ snd (fst (s_fstore a k f log)) = log ++ [k].
Proof. destruct f; cbn; tauto. Qed.

(* receivers of a field assignment are members of the group, each at most once *)
Lemma ffanout_receivers grp : forall a f log,
  exists l', snd (fst (s_ffanout a grp f log)) = log ++ l' /\
             (forall x, In x l' -> In x grp) /\ (NoDup grp -> NoDup l').
Proof.
  induction grp as [|k r IH]; intros a f log; cbn [s_ffanout].
  - exists []. rewrite app_nil_r. repeat split; [tauto|constructor].
  - destruct (alive_in (sobjs a) k).
    + pose proof (fstore_log a k f log) as Hl.
      destruct (s_fstore a k f log) as [[a' lg] e]. cbn [fst snd] in Hl.
      destruct e.
      * cbn [fst snd]. destruct Hl as [Hl|Hl]; subst lg.
        -- exists []. rewrite app_nil_r. split; [reflexivity|split; [intros x []|constructor]].
        -- exists [k]. split; [reflexivity|split; [intros x [Hx|[]]; now left|]].
           intros _. constructor; [intros []|constructor].
      * destruct (IH a' f lg) as [l' [E [Hin Hnd]]].
        destruct Hl as [Hl|Hl]; subst lg.
        -- exists l'. split; [exact E|]. split; [intros x Hx; right; now apply Hin|].
           intro H. inversion H; subst. now apply Hnd.
        -- exists (k :: l'). split; [rewrite E, <- app_assoc; reflexivity|].
           split; [intros x [Hx|Hx]; [now left|right; now apply Hin]|].
           intro H. inversion H as [|x y Hnin Hnd']; subst. constructor; [|now apply Hnd].
           intro Hk. apply Hnin. now apply Hin.
    + destruct (IH a f log) as [l' [E [Hin Hnd]]]. exists l'. split; [exact E|].
      split; [intros x Hx; right; now apply Hin|]. intro H. inversion H; subst. now apply Hnd.
Qed.

(* a plain field reaches every member of the group exactly once, in naming order, without error *)
Lemma ffanout_tag_all grp : forall a log,
  (forall k, In k grp -> alive_in (sobjs a) k = true) ->
  s_ffanout a grp FTag log = (a, log ++ grp, false).
Proof.
  induction grp as [|k r IH]; intros a log Hal; cbn [s_ffanout s_fstore].
  - now rewrite app_nil_r.
  - rewrite (Hal k (or_introl eq_refl)). rewrite IH.
    + now rewrite <- app_assoc.
    + intros x Hx. apply Hal. now right.
Qed.

Lemma tag_reaches_the_group a n :
  s_ffanout a (lookup n (sobjs a)) FTag [] = (a, lookup n (sobjs a), false).
Proof.
  rewrite ffanout_tag_all; [reflexivity|].
  intros k Hin. apply lookup_in_alive in Hin. unfold alive_in.
  now destruct (find_name (sobjs a) k).
Qed.

(* a targetname assignment through a group moves every member *)
Lemma find_name_set_name a y x k :
  alive_in (sobjs a) y = true ->
  find_name (sobjs (s_set_name a y x)) k = if k =? y then Some (norm x) else find_name (sobjs a) k.
Proof.
  intro Hal. unfold s_set_name. rewrite Hal. cbn [sobjs s_with]. rewrite find_name_app.
  destruct (N.eqb_spec k y) as [E|E].
  - subst k. now rewrite find_name_without_same, N.eqb_refl.
  - rewrite find_name_without_other by exact E.
    destruct (find_name (sobjs a) k); [reflexivity|].
    destruct (N.eqb_spec y k); [congruence|reflexivity].
Qed.

Lemma ffanout_name_moves grp : forall a x log k,
  (In k grp /\ alive_in (sobjs a) k = true) \/ find_name (sobjs a) k = Some (norm x) ->
  find_name (sobjs (fst (fst (s_ffanout a grp (FName x) log)))) k = Some (norm x) /\
  snd (s_ffanout a grp (FName x) log) = false.
Proof.
  induction grp as [|y r IH]; intros a x log k Hk; cbn [s_ffanout s_fstore].
  - split; [|reflexivity]. destruct Hk as [[[] _]|Hk]. exact Hk.
  - destruct (alive_in (sobjs a) y) eqn:Hy.
    + apply IH. rewrite (find_name_set_name a y x k Hy).
      destruct (N.eqb_spec k y) as [E|E]; [now right|].
      destruct Hk as [[[Hk|Hk] Hal]|Hk]; [congruence| |now right].
      left. split; [exact Hk|]. unfold alive_in in *. rewrite (find_name_set_name a y x k Hy).
      destruct (N.eqb_spec k y); [contradiction|exact Hal].
    + apply IH. destruct Hk as [[[Hk|Hk] Hal]|Hk]; [subst; congruence|left; tauto|now right].
Qed.

Lemma name_through_the_group_moves_everyone a n x k :
  In k (lookup n (sobjs a)) ->
  find_name (sobjs (fst (fst (s_ffanout a (lookup n (sobjs a)) (FName x) [])))) k = Some (norm x) /\
  snd (s_ffanout a (lookup n (sobjs a)) (FName x) []) = false.
Proof.
  intro Hin. apply ffanout_name_moves. left. split; [exact Hin|].
  apply lookup_in_alive in Hin. unfold alive_in. now destruct (find_name (sobjs a) k).
Qed.

(* a stored group keeps its size and its members: element i is the i-th object or NULL *)
Lemma stored_group_is_stable o l :
  look o (VArr l) = RGrp (map (fun k => if alive_in o k then k else 0) l) /\
  q_size (look o (VArr l)) = OInt (N.of_nat (length l)).
Proof. cbn. now rewrite map_length. Qed.
