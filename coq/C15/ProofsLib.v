(* C15/ProofsLib.v — list, table and naming-list lemmas for the C15 refinement proof. *)
From Coq Require Import NArith List Bool Lia.
From Morfuse Require Import Base.ListX C15.Model C15.Spec.
Import ListNotations.
Local Open Scope N_scope.

(* ---- removing an element *)
Definition rm (k : N) (l : list N) : list N := filter (fun x => negb (x =? k)) l.

Lemma rm_notin k l : ~ In k l -> rm k l = l.
Proof.
  induction l as [|x l IH]; cbn; intro H; [reflexivity|].
  destruct (N.eqb_spec x k) as [E|Hne]; [subst|]; cbn.
  - exfalso. apply H. now left.
  - f_equal. apply IH. intro Hin. apply H. now right.
Qed.

Lemma rm_not_in k l : ~ In k (rm k l).
Proof.
  unfold rm. intro H. apply filter_In in H. destruct H as [_ H].
  rewrite N.eqb_refl in H. discriminate.
Qed.

Lemma rm_in k x l : In x (rm k l) -> In x l.
Proof. unfold rm. intro H. apply filter_In in H. tauto. Qed.

Lemma rm_nodup k l : NoDup l -> NoDup (rm k l).
Proof. apply NoDup_filter. Qed.

Lemma rm_app k l1 l2 : rm k (l1 ++ l2) = rm k l1 ++ rm k l2.
Proof. unfold rm. apply filter_app. Qed.

Lemma remove_first_rm k l : NoDup l -> remove_first k l = rm k l.
Proof.
  induction l as [|x l IH]; cbn; intro Hnd; [reflexivity|].
  inversion Hnd as [|y l' Hnin Hnd']; subst.
  destruct (N.eqb_spec x k) as [E|Hne]; [subst|]; cbn.
  - symmetry. now apply rm_notin.
  - f_equal. now apply IH.
Qed.

(* ---- the table *)
Lemma find_entry_upd_same t n f :
  find_entry (upd_entry t n f) n =
  option_map (fun e => mkEntry (ename e) (eid e) (f (emem e))) (find_entry t n).
Proof.
  induction t as [|e t IH]; [reflexivity|].
  cbn [upd_entry map find_entry]. fold (upd_entry t n f).
  destruct (N.eqb_spec (ename e) n) as [He|He].
  - subst n. cbn [ename]. rewrite N.eqb_refl. reflexivity.
  - destruct (N.eqb_spec (ename e) n); [contradiction|]. exact IH.
Qed.

Lemma find_entry_upd_other t n f n' :
  n' <> n -> find_entry (upd_entry t n f) n' = find_entry t n'.
Proof.
  intro Hne. induction t as [|e t IH]; [reflexivity|].
  cbn [upd_entry map find_entry]. fold (upd_entry t n f).
  destruct (N.eqb_spec (ename e) n) as [He|He].
  - cbn [ename]. destruct (N.eqb_spec (ename e) n'); [congruence|]. exact IH.
  - destruct (ename e =? n'); [reflexivity|exact IH].
Qed.

Lemma find_entry_upd t n f n' :
  find_entry (upd_entry t n f) n' =
  if n' =? n then option_map (fun e => mkEntry (ename e) (eid e) (f (emem e))) (find_entry t n)
  else find_entry t n'.
Proof.
  destruct (N.eqb_spec n' n) as [E|Hne]; [subst|].
  - apply find_entry_upd_same.
  - now apply find_entry_upd_other.
Qed.

Lemma find_entry_drop t n n' :
  find_entry (drop_entry t n) n' = if n' =? n then None else find_entry t n'.
Proof.
  induction t as [|e t IH]; [cbn; now destruct (n' =? n)|].
  unfold drop_entry in *. cbn [filter].
  destruct (N.eqb_spec (ename e) n) as [He|He]; cbn [negb].
  - rewrite IH. cbn [find_entry]. destruct (N.eqb_spec n' n) as [E|Hn]; [subst; reflexivity|].
    destruct (N.eqb_spec (ename e) n'); [congruence|reflexivity].
  - cbn [find_entry]. destruct (N.eqb_spec (ename e) n') as [He'|He'].
    + destruct (N.eqb_spec n' n); [congruence|reflexivity].
    + apply IH.
Qed.

Lemma find_entry_app t e n' :
  find_entry (t ++ [e]) n' =
  match find_entry t n' with Some x => Some x | None => if ename e =? n' then Some e else None end.
Proof.
  induction t as [|x t IH]; cbn; [reflexivity|].
  destruct (ename x =? n'); [reflexivity|apply IH].
Qed.

Lemma mem_of_upd t n f n' :
  mem_of (upd_entry t n f) n' =
  if n' =? n then match find_entry t n with Some e => f (emem e) | None => [] end
  else mem_of t n'.
Proof.
  unfold mem_of. rewrite find_entry_upd.
  destruct (n' =? n); [|reflexivity]. now destruct (find_entry t n).
Qed.

Lemma mem_of_drop t n n' :
  mem_of (drop_entry t n) n' = if n' =? n then [] else mem_of t n'.
Proof. unfold mem_of. rewrite find_entry_drop. now destruct (n' =? n). Qed.

Lemma add_listener_mem s k n n' :
  n <> 0 ->
  mem_of (tab (add_listener s k n)) n' =
  if n' =? n then mem_of (tab s) n' ++ [k] else mem_of (tab s) n'.
Proof.
  intro Hn. unfold add_listener.
  destruct (N.eqb_spec n 0) as [|_]; [contradiction|].
  destruct (find_entry (tab s) n) as [e|] eqn:Hf; cbn [tab with_tab].
  - rewrite mem_of_upd, Hf.
    destruct (N.eqb_spec n' n) as [E|]; [subst; |reflexivity].
    unfold mem_of. now rewrite Hf.
  - unfold mem_of. rewrite find_entry_app. cbn [ename emem].
    destruct (N.eqb_spec n' n) as [E|Hne]; [subst|].
    + rewrite Hf, N.eqb_refl. reflexivity.
    + destruct (find_entry (tab s) n'); [reflexivity|].
      destruct (N.eqb_spec n n'); [congruence|reflexivity].
Qed.

Lemma remove_listener_mem s k n n' :
  mem_of (tab (remove_listener s k n)) n' =
  if (n' =? n) && negb (n =? 0) then remove_first k (mem_of (tab s) n') else mem_of (tab s) n'.
Proof.
  unfold remove_listener.
  destruct (N.eqb_spec n 0) as [E|Hn0]; [subst; now rewrite andb_false_r|].
  rewrite andb_true_r.
  destruct (find_entry (tab s) n) as [e|] eqn:Hf.
  - destruct (remove_first k (emem e)) as [|x r] eqn:Hr; cbn [tab with_tab].
    + rewrite mem_of_drop. destruct (N.eqb_spec n' n) as [E|]; [subst; |reflexivity].
      unfold mem_of. now rewrite Hf, Hr.
    + rewrite mem_of_upd, Hf. destruct (N.eqb_spec n' n) as [E|]; [subst; |reflexivity].
      unfold mem_of. now rewrite Hf.
  - destruct (N.eqb_spec n' n) as [E|]; [subst; |reflexivity].
    unfold mem_of. now rewrite Hf.
Qed.

Lemma add_listener_rest s k n :
  objs (add_listener s k n) = objs s /\ nextid (add_listener s k n) = nextid s /\
  caps (add_listener s k n) = caps s /\ stuck (add_listener s k n) = stuck s.
Proof.
  unfold add_listener. destruct (n =? 0); [tauto|].
  destruct (find_entry (tab s) n); cbn; tauto.
Qed.

Lemma remove_listener_rest s k n :
  objs (remove_listener s k n) = objs s /\ nextid (remove_listener s k n) = nextid s /\
  caps (remove_listener s k n) = caps s /\ stuck (remove_listener s k n) = stuck s.
Proof.
  unfold remove_listener. destruct (n =? 0); [tauto|].
  destruct (find_entry (tab s) n) as [e|]; [|tauto].
  destruct (remove_first k (emem e)); cbn; tauto.
Qed.

(* ---- (id, name) lists *)
Lemma find_name_without k l k' :
  find_name (without k l) k' = if k' =? k then None else find_name l k'.
Proof.
  induction l as [|[i n] l IH]; cbn.
  - now destruct (k' =? k).
  - destruct (N.eqb_spec i k) as [E|Hik]; [subst|]; cbn.
    + rewrite IH. destruct (N.eqb_spec k' k) as [E|Hne]; [subst; reflexivity|].
      destruct (N.eqb_spec k k'); [congruence|reflexivity].
    + destruct (N.eqb_spec i k') as [->|Hik'].
      * destruct (N.eqb_spec k' k); [congruence|reflexivity].
      * apply IH.
Qed.

Lemma find_name_app l k n k' :
  find_name (l ++ [(k, n)]) k' =
  match find_name l k' with Some x => Some x | None => if k =? k' then Some n else None end.
Proof.
  induction l as [|[i m] l IH]; cbn; [reflexivity|].
  destruct (i =? k'); [reflexivity|apply IH].
Qed.

Lemma find_name_rename k n l k' :
  find_name (rename_in k n l) k' =
  if k' =? k then option_map (fun _ => n) (find_name l k) else find_name l k'.
Proof.
  induction l as [|[i m] l IH]; cbn.
  - now destruct (k' =? k).
  - destruct (N.eqb_spec i k) as [E|Hik]; [subst|]; cbn.
    + destruct (N.eqb_spec k' k) as [E|Hne]; [subst|].
      * now rewrite N.eqb_refl.
      * destruct (N.eqb_spec k k'); [congruence|].
        rewrite IH. destruct (N.eqb_spec k' k); [contradiction|reflexivity].
    + destruct (N.eqb_spec k' k) as [E|Hne]; [subst|].
      * destruct (N.eqb_spec i k); [contradiction|].
        rewrite IH, N.eqb_refl. reflexivity.
      * destruct (i =? k'); [reflexivity|].
        rewrite IH. destruct (N.eqb_spec k' k); [contradiction|reflexivity].
Qed.

Lemma find_name_in_ids l k n : find_name l k = Some n -> In k (map fst l).
Proof.
  induction l as [|[i m] l IH]; cbn; [discriminate|].
  destruct (N.eqb_spec i k) as [E|]; [subst; now left|]. intro H. right. now apply IH.
Qed.

Lemma find_name_none l k : ~ In k (map fst l) -> find_name l k = None.
Proof.
  induction l as [|[i m] l IH]; cbn; [reflexivity|]. intro H.
  destruct (N.eqb_spec i k) as [E|]; [subst; exfalso; apply H; now left|].
  apply IH. intro Hin. apply H. now right.
Qed.

Lemma find_name_of_in l k n : NoDup (map fst l) -> In (k, n) l -> find_name l k = Some n.
Proof.
  induction l as [|[i m] l IH]; cbn; intros Hnd Hin; [contradiction|].
  inversion Hnd as [|x y Hnin Hnd']; subst.
  destruct Hin as [Heq|Hin].
  - inversion Heq; subst. now rewrite N.eqb_refl.
  - destruct (N.eqb_spec i k) as [E|]; [subst|].
    + exfalso. apply Hnin. apply in_map_iff. exists (k, n). split; [reflexivity|exact Hin].
    + now apply IH.
Qed.

Lemma ids_without k l : map fst (without k l) = rm k (map fst l).
Proof.
  induction l as [|[i m] l IH]; cbn; [reflexivity|].
  destruct (i =? k); cbn; [exact IH|now rewrite IH].
Qed.

Lemma without_notin k l : ~ In k (map fst l) -> without k l = l.
Proof.
  induction l as [|[i m] l IH]; cbn; intro H; [reflexivity|].
  destruct (N.eqb_spec i k) as [E|]; [subst|]; cbn.
  - exfalso. apply H. now left.
  - f_equal. apply IH. intro Hin. apply H. now right.
Qed.

Lemma without_app k l1 l2 : without k (l1 ++ l2) = without k l1 ++ without k l2.
Proof. unfold without. apply filter_app. Qed.

(* ---- lookup *)
Lemma lookup_app n l k m :
  lookup n (l ++ [(k, m)]) = lookup n l ++ (if (m =? n) && negb (n =? 0) then [k] else []).
Proof.
  unfold lookup. destruct (n =? 0); [now rewrite andb_false_r|].
  rewrite andb_true_r, filter_app, map_app. cbn. now destruct (m =? n).
Qed.

Lemma lookup_without n k l : lookup n (without k l) = rm k (lookup n l).
Proof.
  unfold lookup. destruct (n =? 0); [reflexivity|].
  induction l as [|[i m] l IH]; cbn; [reflexivity|].
  destruct (N.eqb_spec i k) as [E|Hik]; [subst|]; cbn.
  - destruct (m =? n); cbn; [rewrite N.eqb_refl; cbn|]; exact IH.
  - destruct (m =? n); cbn.
    + destruct (N.eqb_spec i k); [contradiction|]. cbn. now rewrite IH.
    + exact IH.
Qed.

Lemma lookup_in n l k : In k (lookup n l) -> n <> 0 /\ In (k, n) l.
Proof.
  unfold lookup. destruct (N.eqb_spec n 0) as [|Hn]; [contradiction|].
  intro H. apply in_map_iff in H. destruct H as [[i m] [Hfst Hin]]. cbn in Hfst. subst i.
  apply filter_In in Hin. destruct Hin as [Hin Hm]. cbn in Hm. apply N.eqb_eq in Hm. subst m.
  tauto.
Qed.

Lemma lookup_nodup n l : NoDup (map fst l) -> NoDup (lookup n l).
Proof.
  unfold lookup. destruct (n =? 0); [constructor|].
  induction l as [|[i m] l IH]; cbn; intro Hnd; [constructor|].
  inversion Hnd as [|x y Hnin Hnd']; subst.
  destruct (m =? n); cbn; [|now apply IH].
  constructor; [|now apply IH].
  intro Hin. apply Hnin. apply in_map_iff in Hin. destruct Hin as [p [Hp Hin]].
  apply filter_In in Hin. apply in_map_iff. exists p. tauto.
Qed.

Lemma lookup_other n l k a :
  NoDup (map fst l) -> find_name l k = Some a -> n <> a -> ~ In k (lookup n l).
Proof.
  intros Hnd Hf Hne Hin. apply lookup_in in Hin. destruct Hin as [_ Hin].
  rewrite (find_name_of_in l k n Hnd Hin) in Hf. congruence.
Qed.

Lemma lookup_dead n l k : find_name l k = None -> ~ In k (lookup n l).
Proof.
  intros Hf Hin. apply lookup_in in Hin. destruct Hin as [_ Hin].
  assert (In k (map fst l)) as Hk by (apply in_map_iff; exists (k, n); tauto).
  clear Hin. induction l as [|[i m] l IH]; cbn in *; [contradiction|].
  destruct (N.eqb_spec i k) as [E|Hik]; [subst; discriminate|].
  destruct Hk as [|Hk]; [contradiction|]. now apply IH.
Qed.

(* ---- the never-named objects *)
Lemma unnamed_app l k m : unnamed (l ++ [(k, m)]) = unnamed l ++ (if m =? 0 then [k] else []).
Proof. unfold unnamed. rewrite filter_app, map_app. cbn. now destruct (m =? 0). Qed.

Lemma unnamed_without k l : unnamed (without k l) = rm k (unnamed l).
Proof.
  unfold unnamed. induction l as [|[i m] l IH]; cbn; [reflexivity|].
  destruct (N.eqb_spec i k) as [E|Hik]; [subst|]; cbn.
  - destruct (m =? 0); cbn; [rewrite N.eqb_refl; cbn|]; exact IH.
  - destruct (m =? 0); cbn.
    + destruct (N.eqb_spec i k); [contradiction|]. cbn. now rewrite IH.
    + exact IH.
Qed.

Lemma unnamed_rename k n l : n <> 0 -> unnamed (rename_in k n l) = rm k (unnamed l).
Proof.
  intro Hn. unfold unnamed. induction l as [|[i m] l IH]; cbn; [reflexivity|].
  destruct (N.eqb_spec i k) as [E|Hik]; [subst|]; cbn.
  - destruct (N.eqb_spec n 0); [contradiction|].
    destruct (m =? 0); cbn; [rewrite N.eqb_refl; cbn|]; exact IH.
  - destruct (m =? 0); cbn.
    + destruct (N.eqb_spec i k); [contradiction|]. cbn. now rewrite IH.
    + exact IH.
Qed.

Lemma norm_nz n : norm n <> 0.
Proof. unfold norm, EMPTY. destruct (N.eqb_spec n 0); [discriminate|assumption]. Qed.

Lemma getc_cons {A} (d : A) l j v j' :
  getc d ((j, v) :: l) j' = if j =? j' then v else getc d l j'.
Proof. unfold getc. cbn. now destruct (j =? j'). Qed.
