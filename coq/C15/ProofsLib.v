(* C15/ProofsLib.v — list, table and naming-list lemmas for the C15 refinement proof. *)
From Coq Require Import NArith List Bool Lia.
From Morfuse Require Import Base.ListX C15.Model C15.Spec.
Import ListNotations.
Local Open Scope N_scope.

(* ---- removing an element *)
Definition rm (k : N) (l : list N) : list N := filter (fun x => negb (x =? k)) l.

Lemma rm_cons k x l : rm k (x :: l) = if x =? k then rm k l else x :: rm k l.
Proof. unfold rm. cbn. now destruct (x =? k). Qed.

Lemma rm_notin k l : ~ In k l -> rm k l = l.
Proof.
  induction l as [|x l IH]; intro H; [reflexivity|].
  rewrite rm_cons. destruct (N.eqb_spec x k) as [E|E].
  - exfalso. apply H. now left.
  - f_equal. apply IH. intro Hin. apply H. now right.
Qed.

Lemma rm_not_in k l : ~ In k (rm k l).
Proof.
  unfold rm. intro H. apply filter_In in H. destruct H as [_ H].
  rewrite N.eqb_refl in H. discriminate.
Qed.

Lemma rm_in k x l : In x (rm k l) -> In x l.
Proof. unfold rm. intro H. apply filter_In in H. tauto. Qed.

Lemma rm_nodup k l : NoDup l -> NoDup (rm k l).
Proof. apply NoDup_filter. Qed.

Lemma remove_first_rm k l : NoDup l -> remove_first k l = rm k l.
Proof.
  induction l as [|x l IH]; intro Hnd; [reflexivity|].
  inversion Hnd as [|y l' Hnin Hnd']; subst.
  rewrite rm_cons. cbn [remove_first]. destruct (N.eqb_spec x k) as [E|E].
  - subst x. symmetry. now apply rm_notin.
  - f_equal. now apply IH.
Qed.

(* ---- the table *)
Lemma upd_entry_cons e t n f :
  upd_entry (e :: t) n f =
  (if ename e =? n then mkEntry (ename e) (f (emem e)) else e) :: upd_entry t n f.
Proof. reflexivity. Qed.

Lemma drop_entry_cons e t n :
  drop_entry (e :: t) n = if ename e =? n then drop_entry t n else e :: drop_entry t n.
Proof. unfold drop_entry. cbn. now destruct (ename e =? n). Qed.

Lemma find_entry_upd_same t n f :
  find_entry (upd_entry t n f) n =
  option_map (fun e => mkEntry (ename e) (f (emem e))) (find_entry t n).
Proof.
  induction t as [|e t IH]; [reflexivity|].
  rewrite upd_entry_cons. cbn [find_entry].
  destruct (N.eqb_spec (ename e) n) as [He|He]; cbn [ename].
  - rewrite He, N.eqb_refl. cbn. now rewrite He.
  - destruct (N.eqb_spec (ename e) n); [contradiction|]. exact IH.
Qed.

Lemma find_entry_upd_other t n f n' :
  n' <> n -> find_entry (upd_entry t n f) n' = find_entry t n'.
Proof.
  intro Hne. induction t as [|e t IH]; [reflexivity|].
  rewrite upd_entry_cons. cbn [find_entry].
  destruct (N.eqb_spec (ename e) n) as [He|He]; cbn [ename].
  - destruct (N.eqb_spec (ename e) n'); [congruence|]. exact IH.
  - destruct (ename e =? n'); [reflexivity|exact IH].
Qed.

Lemma find_entry_drop_same t n : find_entry (drop_entry t n) n = None.
Proof.
  induction t as [|e t IH]; [reflexivity|].
  rewrite drop_entry_cons.
  destruct (N.eqb_spec (ename e) n) as [He|He]; [exact IH|].
  cbn [find_entry]. destruct (N.eqb_spec (ename e) n); [contradiction|]. exact IH.
Qed.

Lemma find_entry_drop_other t n n' :
  n' <> n -> find_entry (drop_entry t n) n' = find_entry t n'.
Proof.
  intro Hne. induction t as [|e t IH]; [reflexivity|].
  rewrite drop_entry_cons. cbn [find_entry].
  destruct (N.eqb_spec (ename e) n) as [He|He].
  - destruct (N.eqb_spec (ename e) n'); [congruence|]. exact IH.
  - cbn [find_entry]. destruct (ename e =? n'); [reflexivity|exact IH].
Qed.

Lemma find_entry_app t e n' :
  find_entry (t ++ [e]) n' =
  match find_entry t n' with Some x => Some x | None => if ename e =? n' then Some e else None end.
Proof.
  induction t as [|x t IH]; cbn; [reflexivity|].
  destruct (ename x =? n'); [reflexivity|apply IH].
Qed.

Lemma mem_of_upd t n f n' :
  mem_of (upd_entry t n f) n' =
  if n' =? n then match find_entry t n with Some e => f (emem e) | None => [] end
  else mem_of t n'.
Proof.
  unfold mem_of. destruct (N.eqb_spec n' n) as [E|E].
  - subst n'. rewrite find_entry_upd_same. now destruct (find_entry t n).
  - now rewrite find_entry_upd_other.
Qed.

Lemma mem_of_drop t n n' :
  mem_of (drop_entry t n) n' = if n' =? n then [] else mem_of t n'.
Proof.
  unfold mem_of. destruct (N.eqb_spec n' n) as [E|E].
  - subst n'. now rewrite find_entry_drop_same.
  - now rewrite find_entry_drop_other.
Qed.

Lemma add_listener_mem s k n n' :
  n <> 0 ->
  mem_of (tab (add_listener s k n)) n' =
  if n' =? n then mem_of (tab s) n' ++ [k] else mem_of (tab s) n'.
Proof.
  intro Hn. unfold add_listener.
  destruct (N.eqb_spec n 0) as [|_]; [contradiction|].
  destruct (find_entry (tab s) n) as [e|] eqn:Hf; cbn [tab with_tab].
  - rewrite mem_of_upd, Hf.
    destruct (N.eqb_spec n' n) as [E|E]; [|reflexivity].
    subst n'. unfold mem_of. now rewrite Hf.
  - unfold mem_of. rewrite find_entry_app. cbn [ename emem].
    destruct (N.eqb_spec n' n) as [E|E].
    + subst n'. rewrite Hf, N.eqb_refl. reflexivity.
    + destruct (find_entry (tab s) n'); [reflexivity|].
      destruct (N.eqb_spec n n'); [congruence|reflexivity].
Qed.

Lemma remove_listener_mem s k n n' :
  mem_of (tab (remove_listener s k n)) n' =
  if (n' =? n) && negb (n =? 0) then remove_first k (mem_of (tab s) n') else mem_of (tab s) n'.
Proof.
  unfold remove_listener.
  destruct (N.eqb_spec n 0) as [Hn0|Hn0]; [now rewrite andb_false_r|].
  rewrite andb_true_r.
  destruct (find_entry (tab s) n) as [e|] eqn:Hf.
  - destruct (remove_first k (emem e)) as [|x r] eqn:Hr; cbn [tab with_tab].
    + rewrite mem_of_drop. destruct (N.eqb_spec n' n) as [E|E]; [|reflexivity].
      subst n'. unfold mem_of. now rewrite Hf, Hr.
    + rewrite mem_of_upd, Hf. destruct (N.eqb_spec n' n) as [E|E]; [|reflexivity].
      subst n'. unfold mem_of. now rewrite Hf.
  - destruct (N.eqb_spec n' n) as [E|E]; [|reflexivity].
    subst n'. unfold mem_of. now rewrite Hf.
Qed.

Lemma add_listener_rest s k n :
  objs (add_listener s k n) = objs s /\ nextid (add_listener s k n) = nextid s /\
  caps (add_listener s k n) = caps s.
Proof.
  unfold add_listener. destruct (n =? 0); [tauto|].
  destruct (find_entry (tab s) n); cbn; tauto.
Qed.

Lemma remove_listener_rest s k n :
  objs (remove_listener s k n) = objs s /\ nextid (remove_listener s k n) = nextid s /\
  caps (remove_listener s k n) = caps s.
Proof.
  unfold remove_listener. destruct (n =? 0); [tauto|].
  destruct (find_entry (tab s) n) as [e|]; [|tauto].
  destruct (remove_first k (emem e)); cbn; tauto.
Qed.

(* ---- (id, name) lists *)
Lemma without_cons k i m l :
  without k ((i, m) :: l) = if i =? k then without k l else (i, m) :: without k l.
Proof. unfold without. cbn. now destruct (i =? k). Qed.

Lemma rename_in_cons k n i m l :
  rename_in k n ((i, m) :: l) = (if i =? k then (k, n) else (i, m)) :: rename_in k n l.
Proof. reflexivity. Qed.

Lemma find_name_without_same k l : find_name (without k l) k = None.
Proof.
  induction l as [|[i m] l IH]; [reflexivity|].
  rewrite without_cons. destruct (N.eqb_spec i k) as [E|E]; [exact IH|].
  cbn [find_name]. destruct (N.eqb_spec i k); [contradiction|exact IH].
Qed.

Lemma find_name_without_other k l k' : k' <> k -> find_name (without k l) k' = find_name l k'.
Proof.
  intro Hne. induction l as [|[i m] l IH]; [reflexivity|].
  rewrite without_cons. cbn [find_name]. destruct (N.eqb_spec i k) as [E|E].
  - destruct (N.eqb_spec i k'); [congruence|exact IH].
  - cbn [find_name]. destruct (i =? k'); [reflexivity|exact IH].
Qed.

Lemma find_name_app l k n k' :
  find_name (l ++ [(k, n)]) k' =
  match find_name l k' with Some x => Some x | None => if k =? k' then Some n else None end.
Proof.
  induction l as [|[i m] l IH]; cbn; [reflexivity|].
  destruct (i =? k'); [reflexivity|apply IH].
Qed.

Lemma find_name_rename_same k n l :
  find_name (rename_in k n l) k = option_map (fun _ => n) (find_name l k).
Proof.
  induction l as [|[i m] l IH]; [reflexivity|].
  rewrite rename_in_cons. cbn [find_name]. destruct (N.eqb_spec i k) as [E|E].
  - now rewrite N.eqb_refl.
  - destruct (N.eqb_spec i k); [contradiction|exact IH].
Qed.

Lemma find_name_rename_other k n l k' :
  k' <> k -> find_name (rename_in k n l) k' = find_name l k'.
Proof.
  intro Hne. induction l as [|[i m] l IH]; [reflexivity|].
  rewrite rename_in_cons. cbn [find_name]. destruct (N.eqb_spec i k) as [E|E].
  - destruct (N.eqb_spec k k'); [congruence|].
    destruct (N.eqb_spec i k'); [congruence|exact IH].
  - destruct (i =? k'); [reflexivity|exact IH].
Qed.

Lemma find_name_in_ids l k n : find_name l k = Some n -> In k (map fst l).
Proof.
  induction l as [|[i m] l IH]; cbn; [discriminate|].
  destruct (N.eqb_spec i k) as [E|E]; [now left|]. intro H. right. now apply IH.
Qed.

Lemma find_name_none l k : ~ In k (map fst l) -> find_name l k = None.
Proof.
  induction l as [|[i m] l IH]; cbn; [reflexivity|]. intro H.
  destruct (N.eqb_spec i k) as [E|E]; [exfalso; apply H; now left|].
  apply IH. intro Hin. apply H. now right.
Qed.

Lemma find_name_of_in l k n : NoDup (map fst l) -> In (k, n) l -> find_name l k = Some n.
Proof.
  induction l as [|[i m] l IH]; cbn; intros Hnd Hin; [contradiction|].
  inversion Hnd as [|x y Hnin Hnd']; subst.
  destruct Hin as [Heq|Hin].
  - inversion Heq; subst. now rewrite N.eqb_refl.
  - destruct (N.eqb_spec i k) as [E|E].
    + subst i. exfalso. apply Hnin. apply in_map_iff. exists (k, n). split; [reflexivity|exact Hin].
    + now apply IH.
Qed.

Lemma ids_without k l : map fst (without k l) = rm k (map fst l).
Proof.
  induction l as [|[i m] l IH]; [reflexivity|].
  rewrite without_cons. cbn [map fst]. rewrite rm_cons.
  destruct (i =? k); cbn; [exact IH|now rewrite IH].
Qed.

Lemma without_notin k l : ~ In k (map fst l) -> without k l = l.
Proof.
  induction l as [|[i m] l IH]; intro H; [reflexivity|].
  rewrite without_cons. destruct (N.eqb_spec i k) as [E|E].
  - exfalso. apply H. now left.
  - f_equal. apply IH. intro Hin. apply H. now right.
Qed.

Lemma without_app k l1 l2 : without k (l1 ++ l2) = without k l1 ++ without k l2.
Proof. unfold without. apply filter_app. Qed.

(* ---- lookup *)
Definition named (n : N) (l : list (N * N)) : list N := map fst (filter (fun p => snd p =? n) l).

Lemma named_cons n i m l : named n ((i, m) :: l) = if m =? n then i :: named n l else named n l.
Proof. unfold named. cbn. now destruct (m =? n). Qed.

Lemma lookup_named n l : lookup n l = if n =? 0 then [] else named n l.
Proof. reflexivity. Qed.

Lemma unnamed_named l : unnamed l = named 0 l.
Proof. reflexivity. Qed.

Lemma named_app n l k m : named n (l ++ [(k, m)]) = named n l ++ (if m =? n then [k] else []).
Proof. unfold named. rewrite filter_app, map_app. cbn. now destruct (m =? n). Qed.

Lemma named_without n k l : named n (without k l) = rm k (named n l).
Proof.
  induction l as [|[i m] l IH]; [reflexivity|].
  rewrite without_cons, named_cons.
  destruct (N.eqb_spec i k) as [E|E].
  - destruct (m =? n); [|exact IH]. rewrite rm_cons. subst i. now rewrite N.eqb_refl.
  - rewrite named_cons. destruct (m =? n); [|exact IH].
    rewrite rm_cons. destruct (N.eqb_spec i k); [contradiction|]. now rewrite IH.
Qed.

Lemma named_rename n k n' l : n' <> n -> named n (rename_in k n' l) = rm k (named n l).
Proof.
  intro Hn. induction l as [|[i m] l IH]; [reflexivity|].
  rewrite rename_in_cons, named_cons. destruct (N.eqb_spec i k) as [E|E].
  - rewrite named_cons. destruct (N.eqb_spec n' n); [contradiction|].
    destruct (m =? n); [|exact IH]. rewrite rm_cons. subst i. now rewrite N.eqb_refl.
  - rewrite named_cons. destruct (m =? n); [|exact IH].
    rewrite rm_cons. destruct (N.eqb_spec i k); [contradiction|]. now rewrite IH.
Qed.

Lemma unnamed_app l k m : unnamed (l ++ [(k, m)]) = unnamed l ++ (if m =? 0 then [k] else []).
Proof. exact (named_app 0 l k m). Qed.

Lemma unnamed_without k l : unnamed (without k l) = rm k (unnamed l).
Proof. exact (named_without 0 k l). Qed.

Lemma unnamed_rename k n l : n <> 0 -> unnamed (rename_in k n l) = rm k (unnamed l).
Proof. exact (named_rename 0 k n l). Qed.

Lemma named_in n l k : In k (named n l) -> In (k, n) l.
Proof.
  unfold named. intro H. apply in_map_iff in H. destruct H as [[i m] [Hfst Hin]].
  cbn in Hfst. subst i. apply filter_In in Hin. destruct Hin as [Hin Hm]. cbn in Hm.
  apply N.eqb_eq in Hm. now subst m.
Qed.

Lemma named_nodup n l : NoDup (map fst l) -> NoDup (named n l).
Proof.
  induction l as [|[i m] l IH]; intro Hnd; [constructor|].
  cbn in Hnd. inversion Hnd as [|x y Hnin Hnd']; subst.
  rewrite named_cons. destruct (m =? n); [|now apply IH].
  constructor; [|now apply IH].
  intro Hin. apply Hnin. apply named_in in Hin. apply in_map_iff. exists (i, n). tauto.
Qed.

Lemma named_other n l k a :
  NoDup (map fst l) -> find_name l k = Some a -> n <> a -> ~ In k (named n l).
Proof.
  intros Hnd Hf Hne Hin. apply named_in in Hin.
  rewrite (find_name_of_in l k n Hnd Hin) in Hf. congruence.
Qed.

Lemma named_dead n l k : find_name l k = None -> ~ In k (named n l).
Proof.
  intros Hf Hin. apply named_in in Hin.
  assert (In k (map fst l)) as Hk by (apply in_map_iff; exists (k, n); tauto).
  clear Hin. induction l as [|[i m] l IH]; cbn in *; [contradiction|].
  destruct (N.eqb_spec i k) as [E|E]; [discriminate|].
  destruct Hk as [|Hk]; [contradiction|]. now apply IH.
Qed.

Lemma lookup_app n l k m :
  lookup n (l ++ [(k, m)]) = lookup n l ++ (if (m =? n) && negb (n =? 0) then [k] else []).
Proof.
  rewrite !lookup_named. destruct (n =? 0); [now rewrite andb_false_r|].
  rewrite andb_true_r. apply named_app.
Qed.

Lemma lookup_without n k l : lookup n (without k l) = rm k (lookup n l).
Proof. rewrite !lookup_named. destruct (n =? 0); [reflexivity|apply named_without]. Qed.

Lemma lookup_nodup n l : NoDup (map fst l) -> NoDup (lookup n l).
Proof. intro H. rewrite lookup_named. destruct (n =? 0); [constructor|now apply named_nodup]. Qed.

Lemma lookup_other n l k a :
  NoDup (map fst l) -> find_name l k = Some a -> n <> a -> ~ In k (lookup n l).
Proof.
  intros Hnd Hf Hne. rewrite lookup_named. destruct (n =? 0); [tauto|].
  eapply named_other; eauto.
Qed.

Lemma lookup_dead n l k : find_name l k = None -> ~ In k (lookup n l).
Proof.
  intro Hf. rewrite lookup_named. destruct (n =? 0); [tauto|]. now apply named_dead.
Qed.

Lemma lookup_in_alive n l k : In k (lookup n l) -> find_name l k <> None.
Proof. intros Hin Hf. exact (lookup_dead n l k Hf Hin). Qed.

Lemma norm_nz n : norm n <> 0.
Proof. unfold norm, EMPTY. destruct (N.eqb_spec n 0); [discriminate|assumption]. Qed.

Lemma getc_cons {A} (d : A) l j v j' :
  getc d ((j, v) :: l) j' = if j =? j' then v else getc d l j'.
Proof. unfold getc. cbn. now destruct (j =? j'). Qed.
