(* C15/Extract.v — extraction of the model and the specification (ExtrOcamlBasic only). *)
Require Extraction.
Require Import ExtrOcamlBasic.
From Morfuse Require Import C15.Model C15.Spec.
Extraction "C15_model.ml" run spec_run.
