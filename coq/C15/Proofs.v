(* C15/Proofs.v — the table of the model refines the naming list of the specification. *)
From Coq Require Import NArith List Bool Lia.
From Morfuse Require Import Base.ListX C15.Model C15.Spec C15.ProofsLib.
Import ListNotations.
Local Open Scope N_scope.

Inductive vrel : value -> sval -> Prop :=
| vrel_null : vrel VNull SNull
| vrel_obj k : vrel (VObj k) (SObj k)
| vrel_grp e l : vrel (VGrp e) (SArr l).

(* the simulation relation *)
Record R (m : st) (a : abs) : Prop := mkR {
  r_stuck : stuck m = false;
  r_next : nextid m = snext a;
  r_tab : forall n, mem_of (tab m) n = lookup n (sobjs a);
  r_names : forall k, find_name (objs m) k = find_name (sobjs a) k;
  r_unnamed : unnamed (objs m) = unnamed (sobjs a);
  r_caps : forall j, vrel (getc VNull (caps m) j) (getc SNull (scaps a) j);
  r_nodup : NoDup (map fst (sobjs a));
  r_bound : forall k, In k (map fst (sobjs a)) -> k < snext a }.

Lemma R_init : R init abs_init.
Proof.
  constructor; cbn; try reflexivity; try (intros; constructor); try tauto.
  intro n. unfold lookup. now destruct (n =? 0).
Qed.

Lemma R_dump m a : R m a -> dump m = s_dump a.
Proof.
  intro H. unfold dump, dump_of, s_dump. rewrite !(r_tab m a H), (r_unnamed m a H). reflexivity.
Qed.

Lemma R_alive m a k : R m a -> alive_in (objs m) k = alive_in (sobjs a) k.
Proof. intro H. unfold alive_in. now rewrite (r_names m a H). Qed.

(* ---- SetTargetName *)
Lemma set_name_R m a k n : R m a -> R (set_name m k n) (s_set_name a k n).
Proof.
  intro H. unfold set_name, s_set_name, alive_in.
  rewrite <- (r_names m a H).
  destruct (find_name (objs m) k) as [old|] eqn:Hf; [|exact H].
  assert (find_name (sobjs a) k = Some old) as Hfa by (now rewrite <- (r_names m a H)).
  pose proof (norm_nz n) as Hnn. pose proof (r_nodup m a H) as Hnd.
  set (m1 := remove_listener m k (norm old)).
  destruct (remove_listener_rest m k (norm old)) as [Ho1 [Hn1 [Hc1 Hs1]]]. fold m1 in Ho1, Hn1, Hc1, Hs1.
  set (m2 := with_objs m1 (rename_in k (norm n) (objs m1))).
  destruct (add_listener_rest m2 k (norm n)) as [Ho3 [Hn3 [Hc3 Hs3]]].
  constructor; cbn [sobjs snext scaps s_with].
  - rewrite Hs3. cbn. rewrite Hs1. exact (r_stuck m a H).
  - rewrite Hn3. cbn. rewrite Hn1. exact (r_next m a H).
  - intro n'. rewrite add_listener_mem by exact Hnn. cbn [tab m2 with_objs].
    unfold m1. rewrite remove_listener_mem. rewrite (r_tab m a H).
    rewrite lookup_app, lookup_without.
    assert ((if (n' =? norm old) && negb (norm old =? 0)
             then remove_first k (lookup n' (sobjs a)) else lookup n' (sobjs a))
            = rm k (lookup n' (sobjs a))) as ->.
    { destruct (N.eqb_spec n' (norm old)) as [E|E]; cbn [andb].
      - destruct (N.eqb_spec (norm old) 0) as [E0|E0]; [exfalso; exact (norm_nz old E0)|]. cbn [negb].
        apply remove_first_rm. now apply lookup_nodup.
      - symmetry. apply rm_notin.
        destruct (N.eqb_spec n' old) as [E2|E2].
        + (* n' = old but n' <> norm old: old = 0, and nothing is listed under 0 *)
          subst n'. unfold norm in E. destruct (N.eqb_spec old 0) as [E3|E3]; [|congruence].
          subst old. cbn. tauto.
        + eapply lookup_other; eauto. }
    destruct (N.eqb_spec n' (norm n)) as [E|E].
    + subst n'. rewrite N.eqb_refl. destruct (N.eqb_spec (norm n) 0); [contradiction|]. reflexivity.
    + destruct (N.eqb_spec (norm n) n'); [congruence|]. cbn [andb]. now rewrite app_nil_r.
  - intro k'. rewrite Ho3. cbn [objs m2 with_objs]. rewrite Ho1.
    rewrite find_name_app.
    destruct (N.eqb_spec k' k) as [E|E].
    + subst k'. rewrite find_name_rename_same, Hf, find_name_without_same, N.eqb_refl. reflexivity.
    + rewrite find_name_rename_other, find_name_without_other by exact E.
      rewrite (r_names m a H). destruct (find_name (sobjs a) k'); [reflexivity|].
      destruct (N.eqb_spec k k'); [congruence|reflexivity].
  - rewrite Ho3. cbn [objs m2 with_objs]. rewrite Ho1.
    rewrite unnamed_app, unnamed_without, unnamed_rename by exact Hnn.
    destruct (N.eqb_spec (norm n) 0); [contradiction|]. rewrite app_nil_r.
    now rewrite (r_unnamed m a H).
  - intro j. rewrite Hc3. cbn [caps m2 with_objs]. rewrite Hc1. exact (r_caps m a H j).
  - rewrite map_app, ids_without. cbn [map fst].
    apply nodup_app_intro.
    + now apply rm_nodup.
    + constructor; [tauto|constructor].
    + intros x Hx [Hk|[]]. subst x. exact (rm_not_in k _ Hx).
  - intros k' Hin. rewrite map_app, ids_without in Hin. cbn [map fst] in Hin.
    apply in_app_or in Hin. destruct Hin as [Hin|[Hin|[]]].
    + apply (r_bound m a H). eapply rm_in; eauto.
    + subst k'. apply (r_bound m a H). eapply find_name_in_ids; eauto.
Qed.

(* ---- delete *)
Lemma destroy_R m a k : R m a -> R (destroy m k) (s_destroy a k).
Proof.
  intro H. unfold destroy, s_destroy.
  pose proof (r_nodup m a H) as Hnd.
  destruct (find_name (objs m) k) as [old|] eqn:Hf.
  - assert (find_name (sobjs a) k = Some old) as Hfa by (now rewrite <- (r_names m a H)).
    set (m1 := remove_listener m k (norm old)).
    destruct (remove_listener_rest m k (norm old)) as [Ho1 [Hn1 [Hc1 Hs1]]]. fold m1 in Ho1, Hn1, Hc1, Hs1.
    constructor; cbn [sobjs snext scaps s_with stuck nextid tab objs caps with_objs].
    + rewrite Hs1. exact (r_stuck m a H).
    + rewrite Hn1. exact (r_next m a H).
    + intro n'. unfold m1. rewrite remove_listener_mem, (r_tab m a H), lookup_without.
      destruct (N.eqb_spec n' (norm old)) as [E|E]; cbn [andb].
      * destruct (N.eqb_spec (norm old) 0) as [E0|E0]; [exfalso; exact (norm_nz old E0)|]. cbn [negb].
        apply remove_first_rm. now apply lookup_nodup.
      * symmetry. apply rm_notin.
        destruct (N.eqb_spec n' old) as [E2|E2].
        -- subst n'. unfold norm in E. destruct (N.eqb_spec old 0) as [E3|E3]; [|congruence].
           subst old. cbn. tauto.
        -- eapply lookup_other; eauto.
    + intro k'. rewrite Ho1. destruct (N.eqb_spec k' k) as [E|E].
      * subst k'. now rewrite !find_name_without_same.
      * rewrite !find_name_without_other by exact E. exact (r_names m a H k').
    + rewrite Ho1, !unnamed_without. now rewrite (r_unnamed m a H).
    + intro j. rewrite Hc1. exact (r_caps m a H j).
    + rewrite ids_without. now apply rm_nodup.
    + intros k' Hin. rewrite ids_without in Hin. apply (r_bound m a H). eapply rm_in; eauto.
  - (* already dead: nothing happens on either side *)
    assert (find_name (sobjs a) k = None) as Hfa by (now rewrite <- (r_names m a H)).
    rewrite without_notin.
    + destruct a; exact H.
    + intro Hin. apply in_map_iff in Hin. destruct Hin as [[i nm] [Hi Hin]]. cbn in Hi. subst i.
      rewrite (find_name_of_in _ _ _ Hnd Hin) in Hfa. discriminate.
Qed.

(* ---- spawn *)
Lemma spawn_R m a n : R m a -> R (spawn m n) (s_spawn a n).
Proof.
  intro H. unfold spawn.
  set (m1 := mkSt (tab m) (objs m ++ [(nextid m, 0)]) (nextid m + 1) (nexteid m) (caps m) (stuck m)).
  pose proof (r_next m a H) as Hnx.
  assert (~ In (snext a) (map fst (sobjs a))) as Hfresh.
  { intro Hin. apply (r_bound m a H) in Hin. lia. }
  assert (R m1 (s_spawn a 0)) as H1.
  { unfold s_spawn. cbn [N.eqb]. constructor; cbn [sobjs snext scaps stuck nextid tab objs caps m1].
    - exact (r_stuck m a H).
    - now rewrite Hnx.
    - intro n'. rewrite lookup_app.
      replace ((0 =? n') && negb (n' =? 0)) with false.
      + rewrite app_nil_r. exact (r_tab m a H n').
      + destruct (N.eqb_spec 0 n'); destruct (N.eqb_spec n' 0); try reflexivity; congruence.
    - intro k'. rewrite !find_name_app, (r_names m a H), Hnx. reflexivity.
    - rewrite !unnamed_app, (r_unnamed m a H), Hnx. reflexivity.
    - exact (r_caps m a H).
    - rewrite map_app. cbn [map fst]. apply nodup_app_intro.
      + exact (r_nodup m a H).
      + constructor; [tauto|constructor].
      + intros x Hx [Hk|[]]. subst x. contradiction.
    - intros k' Hin. rewrite map_app in Hin. cbn [map fst] in Hin.
      apply in_app_or in Hin. destruct Hin as [Hin|[Hin|[]]].
      + apply (r_bound m a H) in Hin. lia.
      + subst k'. lia. }
  destruct (N.eqb_spec n 0) as [E|E].
  - subst n. exact H1.
  - pose proof (set_name_R m1 (s_spawn a 0) (nextid m) n H1) as H2.
    assert (s_set_name (s_spawn a 0) (nextid m) n = s_spawn a n) as <-; [|exact H2].
    unfold s_set_name, s_spawn, alive_in. cbn [sobjs snext scaps s_with N.eqb].
    destruct (N.eqb_spec n 0); [contradiction|].
    rewrite Hnx, find_name_app, (find_name_none _ _ Hfresh), N.eqb_refl.
    rewrite without_app, (without_notin _ _ Hfresh), without_cons, N.eqb_refl. cbn [without filter app].
    now rewrite app_nil_r.
Qed.

(* ---- handlers and the fan-out *)
Lemma apply_sim m a k c log :
  R m a -> R (fst (apply m k c log)) (fst (s_apply a k c log)) /\
           snd (apply m k c log) = snd (s_apply a k c log).
Proof.
  intro H. destruct c as [n| | |j]; cbn.
  - split; [now apply set_name_R|reflexivity].
  - split; [now apply destroy_R|reflexivity].
  - split; [exact H|reflexivity].
  - split; [now apply destroy_R|reflexivity].
Qed.

Lemma fanout_sim snap : forall m a c log,
  R m a -> R (fst (fanout m snap c log)) (fst (s_fanout a snap c log)) /\
           snd (fanout m snap c log) = snd (s_fanout a snap c log).
Proof.
  induction snap as [|k r IH]; intros m a c log H; cbn [fanout s_fanout].
  - split; [exact H|reflexivity].
  - rewrite <- (R_alive m a k H). destruct (alive_in (objs m) k).
    + destruct (apply_sim m a k c log H) as [HR Hl].
      destruct (apply m k c log) as [m' lg]. destruct (s_apply a k c log) as [a' lg'].
      cbn in HR, Hl. subst lg'. now apply IH.
    + now apply IH.
Qed.

(* ---- evaluation of a target *)
Lemma resolve_sim m a t :
  R m a ->
  snd (resolve m t) = snd (s_resolve a t) /\
  snd (fst (resolve m t)) = snd (fst (s_resolve a t)) /\
  (snd (resolve m t) = false -> fst (fst (resolve m t)) = fst (fst (s_resolve a t))).
Proof.
  intro H. destruct t as [n|j]; cbn [resolve s_resolve].
  - rewrite (r_tab m a H). destruct (rval_of_list (lookup n (sobjs a))). cbn. tauto.
  - pose proof (r_caps m a H j) as Hv. inversion Hv as [Hm Ha|k Hm Ha|e l Hm Ha]; cbn.
    + tauto.
    + rewrite (R_alive m a k H). tauto.
    + destruct (find_eid (tab m) e); cbn; repeat split; intro; discriminate.
Qed.

Lemma eval_name_sim m a n :
  R m a -> vrel (fst (eval_name m n)) (fst (s_eval_name a n)) /\
           snd (eval_name m n) = snd (s_eval_name a n).
Proof.
  intro H. unfold eval_name, s_eval_name. pose proof (r_tab m a H n) as Ht. unfold mem_of in Ht.
  destruct (find_entry (tab m) n) as [e|]; rewrite <- Ht.
  - destruct (emem e) as [|x [|y r]]; cbn; split; try reflexivity; constructor.
  - cbn. split; [constructor|reflexivity].
Qed.

Lemma resolve_cases m a t :
  R m a ->
  (exists r w, resolve m t = (r, w, false) /\ s_resolve a t = (r, w, false) /\ r <> RDangling /\
               (forall l, r = RGrp l -> exists x y l', l = x :: y :: l')) \/
  (exists r r' w, resolve m t = (r, w, true) /\ s_resolve a t = (r', w, true)).
Proof.
  intro H. destruct t as [n|j]; cbn [resolve s_resolve].
  - left. rewrite (r_tab m a H).
    destruct (lookup n (sobjs a)) as [|x [|y l]]; cbn; eexists; eexists;
      (split; [reflexivity|split; [reflexivity|split; [discriminate|]]]); intros l0 E; try discriminate.
    inversion E. eauto.
  - pose proof (r_caps m a H j) as Hv. inversion Hv as [Hm Ha|k Hm Ha|e l Hm Ha].
    + left. eexists; eexists. split; [reflexivity|split; [reflexivity|split; [discriminate|]]].
      intros l0 E; discriminate.
    + left. rewrite (R_alive m a k H). destruct (alive_in (sobjs a) k);
        eexists; eexists; (split; [reflexivity|split; [reflexivity|split; [discriminate|]]]);
        intros l0 E; discriminate.
    + right. destruct (find_eid (tab m) e); eexists; eexists; eexists; split; reflexivity.
Qed.

(* ---- one step *)
Definition step_ok (m : st) (a : abs) (o : op) : Prop :=
  (oflag (snd (step m o)) = 0 /\ snd (step m o) = snd (spec_step a o) /\
   R (fst (step m o)) (fst (spec_step a o))) \/
  (oflag (snd (step m o)) = 1 /\ oflag (snd (spec_step a o)) = 1 /\
   R (fst (step m o)) (fst (spec_step a o))) \/
  (oflag (snd (step m o)) = 2 /\ oflag (snd (spec_step a o)) = 2).

Ltac same_obs H :=
  left; cbn [fst snd mk s_mk oflag]; split; [reflexivity|split; [rewrite (R_dump _ _ H); reflexivity|exact H]].

Lemma step_sim m a o : R m a -> step_ok m a o.
Proof.
  intro H. unfold step_ok, step. rewrite (r_stuck m a H).
  destruct o as [n|k n|k|t|t|t i|t c|t|j n]; cbn [spec_step].
  - (* spawn *)
    pose proof (spawn_R m a n H) as H'. same_obs H'.
  - (* rename *)
    rewrite <- (R_alive m a k H). destruct (alive_in (objs m) k).
    + pose proof (set_name_R m a k n H) as H'. same_obs H'.
    + same_obs H.
  - (* destroy *)
    rewrite <- (R_alive m a k H). destruct (alive_in (objs m) k).
    + pose proof (destroy_R m a k H) as H'. same_obs H'.
    + same_obs H.
  - (* query *)
    destruct (resolve_cases m a t H) as [[r [w [E1 [E2 [Hnd _]]]]]|[r [r' [w [E1 E2]]]]]; rewrite E1, E2.
    + destruct r; try contradiction; same_obs H.
    + right. right. destruct r; cbn; tauto.
  - (* size *)
    destruct (resolve_cases m a t H) as [[r [w [E1 [E2 [Hnd _]]]]]|[r [r' [w [E1 E2]]]]]; rewrite E1, E2.
    + destruct r; try contradiction; same_obs H.
    + right. right. destruct r; cbn; tauto.
  - (* index *)
    destruct (resolve_cases m a t H) as [[r [w [E1 [E2 [Hnd _]]]]]|[r [r' [w [E1 E2]]]]]; rewrite E1, E2.
    + destruct r; try contradiction; destruct (q_index _ i); same_obs H.
    + right. right. destruct (q_index r' i). destruct r; try destruct (q_index _ i); cbn; tauto.
  - (* command *)
    destruct (resolve_cases m a t H) as [[r [w [E1 [E2 [Hnd Hg]]]]]|[r [r' [w [E1 E2]]]]]; rewrite E1, E2.
    + destruct r as [|k|l|]; try contradiction.
      * same_obs H.
      * destruct (apply_sim m a k c [] H) as [HR Hl].
        destruct (apply m k c []) as [m' lg]. destruct (s_apply a k c []) as [a' lg'].
        cbn in HR, Hl. subst lg'. same_obs HR.
      * destruct (Hg l eq_refl) as [x [y [l' El]]]. subst l.
        destruct (fanout_sim (x :: y :: l') m a c [] H) as [HR Hl].
        destruct (fanout m (x :: y :: l') c []) as [m' lg].
        destruct (s_fanout a (x :: y :: l') c []) as [a' lg'].
        cbn in HR, Hl. subst lg'. same_obs HR.
    + right. right. split.
      * destruct r as [|k|l|]; [reflexivity| | |reflexivity].
        -- destruct (apply m k c []). reflexivity.
        -- destruct l as [|x [|y l']]; [reflexivity|reflexivity|].
           destruct (fanout m (x :: y :: l') c []). reflexivity.
      * destruct r' as [|k|l|]; [reflexivity| | |reflexivity].
        -- destruct (s_apply a k c []). reflexivity.
        -- destruct (s_fanout a l c []). reflexivity.
  - (* field assignment *)
    destruct (resolve_cases m a t H) as [[r [w [E1 [E2 [Hnd Hg]]]]]|[r [r' [w [E1 E2]]]]]; rewrite E1, E2.
    + destruct r as [|k|l|]; try contradiction.
      * same_obs H.
      * same_obs H.
      * right. left. cbn. tauto.
    + right. right. destruct r, r'; cbn; tauto.
  - (* capture *)
    destruct (eval_name_sim m a n H) as [Hv Hw].
    destruct (eval_name m n) as [v w]. destruct (s_eval_name a n) as [v' w'].
    cbn in Hv, Hw. subst w'.
    assert (R (mkSt (tab m) (objs m) (nextid m) (nexteid m) ((j, v) :: caps m) false)
              (mkAbs (sobjs a) (snext a) ((j, v') :: scaps a))) as H'.
    { destruct H. constructor; cbn; try assumption; try reflexivity.
      intro j'. rewrite !getc_cons. destruct (j =? j'); [exact Hv|apply r_caps0]. }
    same_obs H'.
Qed.

(* ---- all histories *)
(* two runs agree: equal observations where no flag is raised; a field assignment to a
   group (flag 1) may be observed differently but leaves the states related; from the first
   use of a stored group (flag 2) on nothing is claimed *)
Inductive agree : list obs -> list obs -> Prop :=
| agree_nil : agree [] []
| agree_same o l1 l2 : oflag o = 0 -> agree l1 l2 -> agree (o :: l1) (o :: l2)
| agree_field o1 o2 l1 l2 : oflag o1 = 1 -> oflag o2 = 1 -> agree l1 l2 -> agree (o1 :: l1) (o2 :: l2)
| agree_stored o1 o2 l1 l2 : oflag o1 = 2 -> oflag o2 = 2 -> length l1 = length l2 ->
                             agree (o1 :: l1) (o2 :: l2).

Lemma run_from_length ops : forall m, length (run_from m ops) = length ops.
Proof.
  induction ops as [|o ops IH]; intro m; cbn; [reflexivity|].
  destruct (step m o) as [m' ob]. cbn. now rewrite IH.
Qed.

Lemma spec_from_length ops : forall a, length (spec_from a ops) = length ops.
Proof.
  induction ops as [|o ops IH]; intro a; cbn; [reflexivity|].
  destruct (spec_step a o) as [a' ob]. cbn. now rewrite IH.
Qed.

Lemma run_from_agree ops : forall m a, R m a -> agree (run_from m ops) (spec_from a ops).
Proof.
  induction ops as [|o ops IH]; intros m a H; cbn [run_from spec_from]; [constructor|].
  pose proof (step_sim m a o H) as Hs. unfold step_ok in Hs.
  destruct (step m o) as [m' ob]. destruct (spec_step a o) as [a' ob']. cbn [fst snd] in Hs.
  destruct Hs as [[Hf [He HR]]|[[Hf [Hf' HR]]|[Hf Hf']]].
  - subst ob'. apply agree_same; [exact Hf|now apply IH].
  - apply agree_field; [exact Hf|exact Hf'|now apply IH].
  - apply agree_stored; [exact Hf|exact Hf'|]. now rewrite run_from_length, spec_from_length.
Qed.

Theorem run_agrees_with_spec : forall ops, agree (run ops) (spec_run ops).
Proof. intro ops. apply run_from_agree. exact R_init. Qed.

Lemma agree_unflagged l1 l2 : agree l1 l2 -> Forall (fun o => oflag o = 0) l1 -> l1 = l2.
Proof.
  induction 1 as [|o l1 l2 Hf Ha IH|o1 o2 l1 l2 Hf1 Hf2 Ha IH|o1 o2 l1 l2 Hf1 Hf2 Hl]; intro HF.
  - reflexivity.
  - inversion HF; subst. f_equal. now apply IH.
  - inversion HF as [|x y Hx Hy]; subst. rewrite Hf1 in Hx. discriminate.
  - inversion HF as [|x y Hx Hy]; subst. rewrite Hf1 in Hx. discriminate.
Qed.

(* the ops that neither assign a field nor touch a stored value *)
Definition plain_target (t : target) : bool := match t with TName _ => true | TCap _ => false end.
Definition plain (o : op) : bool :=
  match o with
  | OSpawn _ | ORename _ _ | ODestroy _ | OCapture _ _ => true
  | OQuery t | OSize t | OIndex t _ | OCmd t _ => plain_target t
  | OField _ => false
  end.

Lemma plain_step_unflagged m o : plain o = true -> oflag (snd (step m o)) = 0.
Proof.
  intro Hp. unfold step. destruct (stuck m); [reflexivity|].
  destruct o as [n|k n|k|t|t|t i|t c|t|j n]; cbn in Hp; try discriminate;
    try (destruct t as [n|j]; [|discriminate]; cbn [resolve];
         destruct (rval_of_list (mem_of (tab m) n)) as [r w] eqn:Er;
         assert (r <> RDangling) as Hnd
           by (intro; subst r; destruct (mem_of (tab m) n) as [|x [|y l]]; cbn in Er; discriminate)).
  - reflexivity.
  - now destruct (alive_in (objs m) k).
  - now destruct (alive_in (objs m) k).
  - destruct r; try contradiction; reflexivity.
  - destruct r; try contradiction; reflexivity.
  - destruct r; try contradiction; destruct (q_index _ i); reflexivity.
  - destruct r as [|k|l|]; try contradiction; try reflexivity.
    + destruct (apply m k c []). reflexivity.
    + destruct l as [|x [|y l']]; try reflexivity. destruct (fanout m (x :: y :: l') c []). reflexivity.
  - destruct (eval_name m n). reflexivity.
Qed.

Lemma plain_run_unflagged ops : forall m,
  forallb plain ops = true -> Forall (fun o => oflag o = 0) (run_from m ops).
Proof.
  induction ops as [|o ops IH]; intros m Hp; cbn [run_from]; [constructor|].
  cbn in Hp. apply andb_true_iff in Hp. destruct Hp as [Hp Hps].
  pose proof (plain_step_unflagged m o Hp) as Hf.
  destruct (step m o) as [m' ob]. constructor; [exact Hf|now apply IH].
Qed.

Theorem plain_run_refines_spec : forall ops, forallb plain ops = true -> run ops = spec_run ops.
Proof.
  intros ops Hp. apply agree_unflagged; [apply run_agrees_with_spec|].
  now apply plain_run_unflagged.
Qed.

Theorem unflagged_run_refines_spec :
  forall ops, Forall (fun o => oflag o = 0) (run ops) -> run ops = spec_run ops.
Proof. intros ops Hf. apply agree_unflagged; [apply run_agrees_with_spec|exact Hf]. Qed.

(* ---- the full statement is false of the code *)
Definition witness_field : list op := [OSpawn 1; OSpawn 1; OField (TName 1)].
Definition witness_stored_alias : list op :=
  [OSpawn 1; OSpawn 1; OCapture 1 1; OSpawn 1; OSize (TCap 1)].
Definition witness_stored_dangling : list op :=
  [OSpawn 1; OSpawn 1; OCapture 1 1; OCmd (TName 1) (CName 2); OSize (TCap 1)].

Lemma field_witness_differs : run witness_field <> spec_run witness_field.
Proof. vm_compute. intro H. discriminate H. Qed.

Lemma stored_alias_witness_differs : run witness_stored_alias <> spec_run witness_stored_alias.
Proof. vm_compute. intro H. discriminate H. Qed.

Lemma stored_dangling_witness_undefined :
  map oundef (run witness_stored_dangling) = [false; false; false; false; true] /\
  map oval_ (spec_run witness_stored_dangling) = [ONone; ONone; ONone; ONone; OInt 2].
Proof. vm_compute. split; reflexivity. Qed.
