(* C15/Proofs.v — the table of the model refines the naming list of the specification. *)
From Coq Require Import NArith List Bool Lia.
From Morfuse Require Import Base.ListX C15.Model C15.Spec C15.ProofsLib.
Import ListNotations.
Local Open Scope N_scope.

(* the simulation relation *)
Record R (m : st) (a : abs) : Prop := mkR {
  r_next : nextid m = snext a;
  r_tab : forall n, mem_of (tab m) n = lookup n (sobjs a);
  r_names : forall k, find_name (objs m) k = find_name (sobjs a) k;
  r_unnamed : unnamed (objs m) = unnamed (sobjs a);
  r_caps : caps m = scaps a;
  r_big : forall j l, getc VNull (scaps a) j = VArr l -> exists x y l', l = x :: y :: l';
  r_nodup : NoDup (map fst (sobjs a));
  r_bound : forall k, In k (map fst (sobjs a)) -> k < snext a }.

Lemma R_init : R init abs_init.
Proof.
  constructor; cbn; try reflexivity; try (intros; constructor); try tauto.
  - intro n. unfold lookup. now destruct (n =? 0).
  - intros j l E. discriminate.
Qed.

Lemma R_dump m a : R m a -> dump m = s_dump a.
Proof.
  intro H. unfold dump, dump_of, s_dump. rewrite !(r_tab m a H), (r_unnamed m a H). reflexivity.
Qed.

Lemma R_alive m a k : R m a -> alive_in (objs m) k = alive_in (sobjs a) k.
Proof. intro H. unfold alive_in. now rewrite (r_names m a H). Qed.

(* ---- SetTargetName *)
Lemma set_name_R m a k n : R m a -> R (set_name m k n) (s_set_name a k n).
Proof.
  intro H. unfold set_name, s_set_name, alive_in.
  rewrite <- (r_names m a H).
  destruct (find_name (objs m) k) as [old|] eqn:Hf; [|exact H].
  assert (find_name (sobjs a) k = Some old) as Hfa by (now rewrite <- (r_names m a H)).
  pose proof (norm_nz n) as Hnn. pose proof (r_nodup m a H) as Hnd.
  set (m1 := remove_listener m k (norm old)).
  destruct (remove_listener_rest m k (norm old)) as [Ho1 [Hn1 Hc1]]. fold m1 in Ho1, Hn1, Hc1.
  set (m2 := with_objs m1 (rename_in k (norm n) (objs m1))).
  destruct (add_listener_rest m2 k (norm n)) as [Ho3 [Hn3 Hc3]].
  constructor; cbn [sobjs snext scaps s_with].
  - rewrite Hn3. cbn. rewrite Hn1. exact (r_next m a H).
  - intro n'. rewrite add_listener_mem by exact Hnn. cbn [tab m2 with_objs].
    unfold m1. rewrite remove_listener_mem. rewrite (r_tab m a H).
    rewrite lookup_app, lookup_without.
    assert ((if (n' =? norm old) && negb (norm old =? 0)
             then remove_first k (lookup n' (sobjs a)) else lookup n' (sobjs a))
            = rm k (lookup n' (sobjs a))) as ->.
    { destruct (N.eqb_spec n' (norm old)) as [E|E]; cbn [andb].
      - destruct (N.eqb_spec (norm old) 0) as [E0|E0]; [exfalso; exact (norm_nz old E0)|]. cbn [negb].
        apply remove_first_rm. now apply lookup_nodup.
      - symmetry. apply rm_notin.
        destruct (N.eqb_spec n' old) as [E2|E2].
        + (* n' = old but n' <> norm old: old = 0, and nothing is listed under 0 *)
          subst n'. unfold norm in E. destruct (N.eqb_spec old 0) as [E3|E3]; [|congruence].
          subst old. cbn. tauto.
        + eapply lookup_other; eauto. }
    destruct (N.eqb_spec n' (norm n)) as [E|E].
    + subst n'. rewrite N.eqb_refl. destruct (N.eqb_spec (norm n) 0); [contradiction|]. reflexivity.
    + destruct (N.eqb_spec (norm n) n'); [congruence|]. cbn [andb]. now rewrite app_nil_r.
  - intro k'. rewrite Ho3. cbn [objs m2 with_objs]. rewrite Ho1.
    rewrite find_name_app.
    destruct (N.eqb_spec k' k) as [E|E].
    + subst k'. rewrite find_name_rename_same, Hf, find_name_without_same, N.eqb_refl. reflexivity.
    + rewrite find_name_rename_other, find_name_without_other by exact E.
      rewrite (r_names m a H). destruct (find_name (sobjs a) k'); [reflexivity|].
      destruct (N.eqb_spec k k'); [congruence|reflexivity].
  - rewrite Ho3. cbn [objs m2 with_objs]. rewrite Ho1.
    rewrite unnamed_app, unnamed_without, unnamed_rename by exact Hnn.
    destruct (N.eqb_spec (norm n) 0); [contradiction|]. rewrite app_nil_r.
    now rewrite (r_unnamed m a H).
  - rewrite Hc3. cbn [caps m2 with_objs]. rewrite Hc1. exact (r_caps m a H).
  - exact (r_big m a H).
  - rewrite map_app, ids_without. cbn [map fst].
    apply nodup_app_intro.
    + now apply rm_nodup.
    + constructor; [tauto|constructor].
    + intros x Hx [Hk|[]]. subst x. exact (rm_not_in k _ Hx).
  - intros k' Hin. rewrite map_app, ids_without in Hin. cbn [map fst] in Hin.
    apply in_app_or in Hin. destruct Hin as [Hin|[Hin|[]]].
    + apply (r_bound m a H). eapply rm_in; eauto.
    + subst k'. apply (r_bound m a H). eapply find_name_in_ids; eauto.
Qed.

(* ---- delete *)
Lemma destroy_R m a k : R m a -> R (destroy m k) (s_destroy a k).
Proof.
  intro H. unfold destroy, s_destroy.
  pose proof (r_nodup m a H) as Hnd.
  destruct (find_name (objs m) k) as [old|] eqn:Hf.
  - assert (find_name (sobjs a) k = Some old) as Hfa by (now rewrite <- (r_names m a H)).
    set (m1 := remove_listener m k (norm old)).
    destruct (remove_listener_rest m k (norm old)) as [Ho1 [Hn1 Hc1]]. fold m1 in Ho1, Hn1, Hc1.
    constructor; cbn [sobjs snext scaps s_with nextid tab objs caps with_objs].
    + rewrite Hn1. exact (r_next m a H).
    + intro n'. unfold m1. rewrite remove_listener_mem, (r_tab m a H), lookup_without.
      destruct (N.eqb_spec n' (norm old)) as [E|E]; cbn [andb].
      * destruct (N.eqb_spec (norm old) 0) as [E0|E0]; [exfalso; exact (norm_nz old E0)|]. cbn [negb].
        apply remove_first_rm. now apply lookup_nodup.
      * symmetry. apply rm_notin.
        destruct (N.eqb_spec n' old) as [E2|E2].
        -- subst n'. unfold norm in E. destruct (N.eqb_spec old 0) as [E3|E3]; [|congruence].
           subst old. cbn. tauto.
        -- eapply lookup_other; eauto.
    + intro k'. rewrite Ho1. destruct (N.eqb_spec k' k) as [E|E].
      * subst k'. now rewrite !find_name_without_same.
      * rewrite !find_name_without_other by exact E. exact (r_names m a H k').
    + rewrite Ho1, !unnamed_without. now rewrite (r_unnamed m a H).
    + rewrite Hc1. exact (r_caps m a H).
    + exact (r_big m a H).
    + rewrite ids_without. now apply rm_nodup.
    + intros k' Hin. rewrite ids_without in Hin. apply (r_bound m a H). eapply rm_in; eauto.
  - (* already dead: nothing happens on either side *)
    assert (find_name (sobjs a) k = None) as Hfa by (now rewrite <- (r_names m a H)).
    rewrite without_notin.
    + destruct a; exact H.
    + intro Hin. apply in_map_iff in Hin. destruct Hin as [[i nm] [Hi Hin]]. cbn in Hi. subst i.
      rewrite (find_name_of_in _ _ _ Hnd Hin) in Hfa. discriminate.
Qed.

(* ---- spawn *)
Lemma spawn_R m a n : R m a -> R (spawn m n) (s_spawn a n).
Proof.
  intro H. unfold spawn.
  set (m1 := mkSt (tab m) (objs m ++ [(nextid m, 0)]) (nextid m + 1) (caps m)).
  pose proof (r_next m a H) as Hnx.
  assert (~ In (snext a) (map fst (sobjs a))) as Hfresh.
  { intro Hin. apply (r_bound m a H) in Hin. lia. }
  assert (R m1 (s_spawn a 0)) as H1.
  { unfold s_spawn. cbn [N.eqb]. constructor; cbn [sobjs snext scaps nextid tab objs caps m1].
    - now rewrite Hnx.
    - intro n'. rewrite lookup_app.
      replace ((0 =? n') && negb (n' =? 0)) with false.
      + rewrite app_nil_r. exact (r_tab m a H n').
      + destruct (N.eqb_spec 0 n'); destruct (N.eqb_spec n' 0); try reflexivity; congruence.
    - intro k'. rewrite !find_name_app, (r_names m a H), Hnx. reflexivity.
    - rewrite !unnamed_app, (r_unnamed m a H), Hnx. reflexivity.
    - exact (r_caps m a H).
    - exact (r_big m a H).
    - rewrite map_app. cbn [map fst]. apply nodup_app_intro.
      + exact (r_nodup m a H).
      + constructor; [tauto|constructor].
      + intros x Hx [Hk|[]]. subst x. contradiction.
    - intros k' Hin. rewrite map_app in Hin. cbn [map fst] in Hin.
      apply in_app_or in Hin. destruct Hin as [Hin|[Hin|[]]].
      + apply (r_bound m a H) in Hin. lia.
      + subst k'. lia. }
  destruct (N.eqb_spec n 0) as [E|E].
  - subst n. exact H1.
  - pose proof (set_name_R m1 (s_spawn a 0) (nextid m) n H1) as H2.
    assert (s_set_name (s_spawn a 0) (nextid m) n = s_spawn a n) as <-; [|exact H2].
    unfold s_set_name, s_spawn, alive_in. cbn [sobjs snext scaps s_with N.eqb].
    destruct (N.eqb_spec n 0); [contradiction|].
    rewrite Hnx, find_name_app, (find_name_none _ _ Hfresh), N.eqb_refl.
    rewrite without_app, (without_notin _ _ Hfresh), without_cons, N.eqb_refl. cbn [without filter app].
    now rewrite app_nil_r.
Qed.

(* ---- handlers and the fan-outs *)
Lemma apply_sim m a k c log :
  R m a -> R (fst (apply m k c log)) (fst (s_apply a k c log)) /\
           snd (apply m k c log) = snd (s_apply a k c log).
Proof.
  intro H. destruct c as [n| | |j]; cbn.
  - split; [now apply set_name_R|reflexivity].
  - split; [now apply destroy_R|reflexivity].
  - split; [exact H|reflexivity].
  - split; [now apply destroy_R|reflexivity].
Qed.

Lemma fanout_sim snap : forall m a c log,
  R m a -> R (fst (fanout m snap c log)) (fst (s_fanout a snap c log)) /\
           snd (fanout m snap c log) = snd (s_fanout a snap c log).
Proof.
  induction snap as [|k r IH]; intros m a c log H; cbn [fanout s_fanout].
  - split; [exact H|reflexivity].
  - rewrite <- (R_alive m a k H). destruct (alive_in (objs m) k).
    + destruct (apply_sim m a k c log H) as [HR Hl].
      destruct (apply m k c log) as [m' lg]. destruct (s_apply a k c log) as [a' lg'].
      cbn in HR, Hl. subst lg'. now apply IH.
    + now apply IH.
Qed.

Lemma fstore_sim m a k f log :
  R m a -> R (fst (fst (fstore m k f log))) (fst (fst (s_fstore a k f log))) /\
           snd (fst (fstore m k f log)) = snd (fst (s_fstore a k f log)) /\
           snd (fstore m k f log) = snd (s_fstore a k f log).
Proof.
  intro H. destruct f as [|n|j|j]; cbn.
  - split; [exact H|split; reflexivity].
  - split; [now apply set_name_R|split; reflexivity].
  - split; [exact H|split; reflexivity].
  - split; [now apply destroy_R|split; reflexivity].
Qed.

Lemma ffanout_sim snap : forall m a f log,
  R m a -> R (fst (fst (ffanout m snap f log))) (fst (fst (s_ffanout a snap f log))) /\
           snd (fst (ffanout m snap f log)) = snd (fst (s_ffanout a snap f log)) /\
           snd (ffanout m snap f log) = snd (s_ffanout a snap f log).
Proof.
  induction snap as [|k r IH]; intros m a f log H; cbn [ffanout s_ffanout].
  - split; [exact H|split; reflexivity].
  - rewrite <- (R_alive m a k H). destruct (alive_in (objs m) k).
    + destruct (fstore_sim m a k f log H) as [HR [Hl He]].
      destruct (fstore m k f log) as [[m' lg] e]. destruct (s_fstore a k f log) as [[a' lg'] e'].
      cbn in HR, Hl, He. subst lg' e'. destruct e.
      * cbn. split; [exact HR|split; reflexivity].
      * now apply IH.
    + now apply IH.
Qed.

(* ---- evaluation of a target *)
Lemma look_eq o o' v : (forall k, alive_in o k = alive_in o' k) -> look o v = look o' v.
Proof.
  intro H. destruct v as [|k|l]; cbn; [reflexivity|now rewrite H|].
  f_equal. apply map_ext. intro k. now rewrite H.
Qed.

Lemma eval_name_sim m a n : R m a -> eval_name m n = s_eval_name a n.
Proof. intro H. unfold eval_name, s_eval_name. now rewrite (r_tab m a H). Qed.

Lemma value_of_list_big l0 l : fst (value_of_list l0) = VArr l -> exists x y l', l = x :: y :: l'.
Proof.
  destruct l0 as [|x [|y l']]; cbn; intro E; try discriminate. inversion E. eauto.
Qed.

Lemma resolve_sim m a t : R m a -> resolve m t = s_resolve a t.
Proof.
  intro H. destruct t as [n|j]; cbn [resolve s_resolve].
  - rewrite (eval_name_sim m a n H). destruct (s_eval_name a n) as [v w].
    now rewrite (look_eq _ (sobjs a) v (fun k => R_alive m a k H)).
  - rewrite (r_caps m a H). now rewrite (look_eq _ (sobjs a) _ (fun k => R_alive m a k H)).
Qed.

(* a group that comes out of a target has at least two elements *)
Lemma s_resolve_big a t l :
  (forall j l, getc VNull (scaps a) j = VArr l -> exists x y l', l = x :: y :: l') ->
  fst (s_resolve a t) = RGrp l -> exists x y l', l = x :: y :: l'.
Proof.
  intros Hbig E.
  assert (forall v, (forall l0, v = VArr l0 -> exists x y l', l0 = x :: y :: l') ->
          look (sobjs a) v = RGrp l -> exists x y l', l = x :: y :: l') as Hlook.
  { intros v Hv El. destruct v as [|k|l0]; cbn in El.
    - discriminate.
    - destruct (alive_in (sobjs a) k); discriminate.
    - destruct (Hv l0 eq_refl) as [x [y [l' E0]]]. subst l0. inversion El. cbn. eauto. }
  destruct t as [n|j]; cbn [s_resolve] in E.
  - unfold s_eval_name in E.
    pose proof (value_of_list_big (lookup n (sobjs a))) as Hb.
    destruct (value_of_list (lookup n (sobjs a))) as [v w]. cbn in E, Hb.
    apply (Hlook v); [intros l0 E0; now apply Hb|exact E].
  - cbn in E. apply (Hlook (getc VNull (scaps a) j)); [intros l0 E0; now apply (Hbig j)|exact E].
Qed.

(* ---- one step *)
Ltac same_obs H :=
  cbn [fst snd mk s_mk]; split; [rewrite (R_dump _ _ H); reflexivity|exact H].

Lemma step_sim m a o :
  R m a -> snd (step m o) = snd (spec_step a o) /\ R (fst (step m o)) (fst (spec_step a o)).
Proof.
  intro H. unfold step.
  destruct o as [n|k n|k|t|t|t i|t c|t f|j n]; cbn [spec_step].
  - pose proof (spawn_R m a n H) as H'. same_obs H'.
  - rewrite <- (R_alive m a k H). destruct (alive_in (objs m) k).
    + pose proof (set_name_R m a k n H) as H'. same_obs H'.
    + same_obs H.
  - rewrite <- (R_alive m a k H). destruct (alive_in (objs m) k).
    + pose proof (destroy_R m a k H) as H'. same_obs H'.
    + same_obs H.
  - rewrite (resolve_sim m a t H). destruct (s_resolve a t) as [r w]. same_obs H.
  - rewrite (resolve_sim m a t H). destruct (s_resolve a t) as [r w]. same_obs H.
  - rewrite (resolve_sim m a t H). destruct (s_resolve a t) as [r w].
    destruct (q_index r i). same_obs H.
  - (* command *)
    rewrite (resolve_sim m a t H).
    pose proof (s_resolve_big a t) as Hbig.
    destruct (s_resolve a t) as [r w]. cbn [fst] in Hbig.
    destruct r as [|k|l].
    + same_obs H.
    + destruct (apply_sim m a k c [] H) as [HR Hl].
      destruct (apply m k c []) as [m' lg]. destruct (s_apply a k c []) as [a' lg'].
      cbn in HR, Hl. subst lg'. same_obs HR.
    + destruct (Hbig l (r_big m a H) eq_refl) as [x [y [l' El]]]. subst l.
      destruct (fanout_sim (x :: y :: l') m a c [] H) as [HR Hl].
      destruct (fanout m (x :: y :: l') c []) as [m' lg].
      destruct (s_fanout a (x :: y :: l') c []) as [a' lg'].
      cbn in HR, Hl. subst lg'. same_obs HR.
  - (* field assignment *)
    rewrite (resolve_sim m a t H).
    pose proof (s_resolve_big a t) as Hbig.
    destruct (s_resolve a t) as [r w]. cbn [fst] in Hbig.
    destruct r as [|k|l].
    + same_obs H.
    + destruct (fstore_sim m a k f [] H) as [HR [Hl He]].
      destruct (fstore m k f []) as [[m' lg] e]. destruct (s_fstore a k f []) as [[a' lg'] e'].
      cbn in HR, Hl, He. subst lg' e'. same_obs HR.
    + destruct (Hbig l (r_big m a H) eq_refl) as [x [y [l' El]]]. subst l.
      destruct (ffanout_sim (x :: y :: l') m a f [] H) as [HR [Hl He]].
      destruct (ffanout m (x :: y :: l') f []) as [[m' lg] e].
      destruct (s_ffanout a (x :: y :: l') f []) as [[a' lg'] e'].
      cbn in HR, Hl, He. subst lg' e'. same_obs HR.
  - (* capture *)
    rewrite (eval_name_sim m a n H).
    pose proof (value_of_list_big (lookup n (sobjs a))) as Hb. fold (s_eval_name a n) in Hb.
    destruct (s_eval_name a n) as [v w]. cbn [fst] in Hb.
    assert (R (mkSt (tab m) (objs m) (nextid m) ((j, v) :: caps m))
              (mkAbs (sobjs a) (snext a) ((j, v) :: scaps a))) as H'.
    { destruct H. constructor; cbn [sobjs snext scaps nextid tab objs caps]; try assumption.
      - now f_equal.
      - intros j' l. rewrite getc_cons. destruct (j =? j'); [intro E; now apply Hb|apply r_big0]. }
    same_obs H'.
Qed.

(* ---- all histories *)
Lemma run_from_refines ops : forall m a, R m a -> run_from m ops = spec_from a ops.
Proof.
  induction ops as [|o ops IH]; intros m a H; cbn [run_from spec_from]; [reflexivity|].
  destruct (step_sim m a o H) as [He HR].
  destruct (step m o) as [m' ob]. destruct (spec_step a o) as [a' ob']. cbn [fst snd] in He, HR.
  subst ob'. f_equal. now apply IH.
Qed.

Theorem run_refines_spec : forall ops, run ops = spec_run ops.
Proof. intro ops. apply run_from_refines. exact R_init. Qed.
