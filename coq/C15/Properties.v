(* C15/Properties.v — the property theorems of C15, and nothing else.
   Every theorem is closed by [exact <lemma>] and followed by Print Assumptions. *)
From Coq Require Import NArith List Bool.
From Morfuse Require Import C15.Model C15.Spec C15.ProofsLib C15.ProofsSpec C15.Proofs.
Import ListNotations.
Local Open Scope N_scope.

(* For EVERY history of spawn / SetTargetName / destroy / `t` / `t.size` / `t[i]` /
   `t <command>` (targetname, remove, mark, kill j) / `t.<field> = v` (a plain field,
   targetname, a setter that fails for one object, a setter that destroys an object) /
   `level.c<j> = $n`, where t is `$n` or a stored `level.c<j>`, the code-level table (entries
   appended and dropped, RemoveObject of the first occurrence, the dead `if (!targetName)`
   guards, the ConstStrings::Empty key of a never-named object, the array taken by `$n`, the
   fan-out loops of ExecCmdMethodCommon and loadTopGroup) observes exactly what the naming
   list of C15/Spec.v observes: the same value (NULL + NoTarget warning / the object / the
   group in naming order), the same size and elements, the same receivers in the same order,
   the same warnings, the same members of all five names and the same never-named objects
   after every operation. *)
Theorem C15_the_table_refines_the_naming_list :
  forall ops : list op, run ops = spec_run ops.
Proof. exact run_refines_spec. Qed.
Print Assumptions C15_the_table_refines_the_naming_list.

Theorem C15_every_operation_keeps_the_simulation :
  forall m a o, R m a ->
    snd (step m o) = snd (spec_step a o) /\ R (fst (step m o)) (fst (spec_step a o)).
Proof. exact step_sim. Qed.
Print Assumptions C15_every_operation_keeps_the_simulation.

(* ---- what the specification guarantees *)
Theorem C15_spec_invariant_is_kept :
  forall a o, inv a -> inv (fst (spec_step a o)).
Proof. exact inv_step. Qed.
Print Assumptions C15_spec_invariant_is_kept.

(* `$n` denotes exactly the live objects bearing the name n *)
Theorem C15_spec_lookup_is_exactly_the_bearers :
  forall a n k, inv a ->
    (In k (lookup n (sobjs a)) <-> n <> 0 /\ find_name (sobjs a) k = Some n).
Proof. exact lookup_iff. Qed.
Print Assumptions C15_spec_lookup_is_exactly_the_bearers.

Theorem C15_spec_rename_moves :
  forall a k n n', alive_in (sobjs a) k = true ->
    lookup n' (sobjs (s_set_name a k n)) =
    rm k (lookup n' (sobjs a)) ++ (if n' =? norm n then [k] else []).
Proof. exact rename_moves. Qed.
Print Assumptions C15_spec_rename_moves.

Theorem C15_spec_destroy_removes :
  forall a k n', lookup n' (sobjs (s_destroy a k)) = rm k (lookup n' (sobjs a)) /\
                 alive_in (sobjs (s_destroy a k)) k = false.
Proof. exact destroy_removes. Qed.
Print Assumptions C15_spec_destroy_removes.

(* a command reaches members of the group only, each at most once *)
Theorem C15_spec_fanout_reaches_members_only_and_once :
  forall grp a c log,
    exists l', snd (s_fanout a grp c log) = log ++ l' /\
               (forall x, In x l' -> In x grp) /\ (NoDup grp -> NoDup l').
Proof. exact fanout_receivers. Qed.
Print Assumptions C15_spec_fanout_reaches_members_only_and_once.

(* mark reaches every bearer of the name exactly once, in naming order *)
Theorem C15_spec_mark_reaches_the_whole_group :
  forall a n, s_fanout a (lookup n (sobjs a)) CMark [] = (a, lookup n (sobjs a)).
Proof. exact mark_reaches_the_group. Qed.
Print Assumptions C15_spec_mark_reaches_the_whole_group.

Theorem C15_spec_remove_reaches_the_whole_group :
  forall grp a log k,
    In k grp -> alive_in (sobjs (fst (s_fanout a grp CRemove log))) k = false.
Proof. exact fanout_remove_kills. Qed.
Print Assumptions C15_spec_remove_reaches_the_whole_group.

(* the clause "field assignments applied to `$name` reach every object in the group exactly
   once": members only, each at most once ... *)
Theorem C15_spec_field_assignment_reaches_members_only_and_once :
  forall grp a f log,
    exists l', snd (fst (s_ffanout a grp f log)) = log ++ l' /\
               (forall x, In x l' -> In x grp) /\ (NoDup grp -> NoDup l').
Proof. exact ffanout_receivers. Qed.
Print Assumptions C15_spec_field_assignment_reaches_members_only_and_once.

(* ... and all of them, in naming order, without error, for a plain field ... *)
Theorem C15_spec_field_assignment_reaches_the_whole_group :
  forall a n, s_ffanout a (lookup n (sobjs a)) FTag [] = (a, lookup n (sobjs a), false).
Proof. exact tag_reaches_the_group. Qed.
Print Assumptions C15_spec_field_assignment_reaches_the_whole_group.

(* ... and `$n.targetname = x` gives every bearer of n the name x *)
Theorem C15_spec_targetname_through_the_group_moves_everyone :
  forall a n x k, In k (lookup n (sobjs a)) ->
    find_name (sobjs (fst (fst (s_ffanout a (lookup n (sobjs a)) (FName x) [])))) k = Some (norm x) /\
    snd (s_ffanout a (lookup n (sobjs a)) (FName x) []) = false.
Proof. exact name_through_the_group_moves_everyone. Qed.
Print Assumptions C15_spec_targetname_through_the_group_moves_everyone.

(* a stored group keeps denoting the objects it held: same size, element i = the i-th object
   or NULL once it is dead - whatever happened to the table since *)
Theorem C15_a_stored_group_is_stable :
  forall o l,
    look o (VArr l) = RGrp (map (fun k => if alive_in o k then k else 0) l) /\
    q_size (look o (VArr l)) = OInt (N.of_nat (length l)).
Proof. exact stored_group_is_stable. Qed.
Print Assumptions C15_a_stored_group_is_stable.

(* Non-vacuity.  Objects 1,2,3 take the name 1; re-naming 2 with the same name moves it to the
   end; `$1 kill 3` reaches 1 (who kills 3), not the dead 3, then 2; `$1 targetname 2` moves
   both; `$1` is then NULL with the NoTarget warning; object 4 is never named, object 5 is
   named "" (name 5) and listed there; `$2 remove` destroys the group.
   Shown: (value, warnings, receivers, [members of names 1..5; never named]). *)
Example C15_history_example :
  map (fun o => (oval_ o, owarn o, olog o, odump o))
      (run [ OSpawn 1; OSpawn 1; OSpawn 1; ORename 2 1; OQuery (TName 1);
             OCmd (TName 1) (CKill 3); OCmd (TName 1) (CName 2); OQuery (TName 1);
             OSpawn 0; OSpawn 5; OIndex (TName 2) 2; OSize (TName 5);
             OCmd (TName 2) CRemove; OCmd (TName 2) CMark ]) =
  [ (ONone, [], [], [[1]; []; []; []; []; []]);
    (ONone, [], [], [[1; 2]; []; []; []; []; []]);
    (ONone, [], [], [[1; 2; 3]; []; []; []; []; []]);
    (ONone, [], [], [[1; 3; 2]; []; []; []; []; []]);
    (OGrp [1; 3; 2], [], [], [[1; 3; 2]; []; []; []; []; []]);
    (ONone, [], [1; 2], [[1; 2]; []; []; []; []; []]);
    (ONone, [], [], [[]; [1; 2]; []; []; []; []]);
    (ONull, [WNoTarget], [], [[]; [1; 2]; []; []; []; []]);
    (ONone, [], [], [[]; [1; 2]; []; []; []; [4]]);
    (ONone, [], [], [[]; [1; 2]; []; []; [5]; [4]]);
    (OObj 2, [], [], [[]; [1; 2]; []; []; [5]; [4]]);
    (OInt 1, [], [], [[]; [1; 2]; []; []; [5]; [4]]);
    (ONone, [], [], [[]; []; []; []; [5]; [4]]);
    (ONone, [WNoTarget; WNull], [], [[]; []; []; []; [5]; [4]]) ].
Proof. vm_compute. reflexivity. Qed.

(* Field assignments and stored groups (the three former defects, now regression examples).
   Objects 1,2,3 bear the name 1.  A plain field reaches 1,2,3; `fuse = 2` reaches 1, then 2
   whose setter fails, and not 3; `zap = 3` reaches 1 (who destroys 3) and 2; the stored `$1`
   = [1,2] keeps its size when 4 joins the name and reads NULL for the destroyed 1;
   `level.c1.targetname = 2` moves the surviving member 2 only; after that the name's entry is
   gone and the stored group still denotes [NULL, 2]. *)
Example C15_field_and_stored_group_example :
  map (fun o => (oval_ o, owarn o, olog o, odump o))
      (run [ OSpawn 1; OSpawn 1; OSpawn 1;
             OField (TName 1) FTag; OField (TName 1) (FFuse 2); OField (TName 1) (FZap 3);
             OCapture 1 1; OSpawn 1; OSize (TCap 1); ODestroy 1; OQuery (TCap 1);
             OField (TCap 1) (FName 2); ODestroy 4; OQuery (TCap 1); OCmd (TCap 1) CMark ]) =
  [ (ONone, [], [], [[1]; []; []; []; []; []]);
    (ONone, [], [], [[1; 2]; []; []; []; []; []]);
    (ONone, [], [], [[1; 2; 3]; []; []; []; []; []]);
    (ONone, [], [1; 2; 3], [[1; 2; 3]; []; []; []; []; []]);
    (ONone, [WFail], [1; 2], [[1; 2; 3]; []; []; []; []; []]);
    (ONone, [], [1; 2], [[1; 2]; []; []; []; []; []]);
    (ONone, [], [], [[1; 2]; []; []; []; []; []]);
    (ONone, [], [], [[1; 2; 4]; []; []; []; []; []]);
    (OInt 2, [], [], [[1; 2; 4]; []; []; []; []; []]);
    (ONone, [], [], [[2; 4]; []; []; []; []; []]);
    (OGrp [0; 2], [], [], [[2; 4]; []; []; []; []; []]);
    (ONone, [], [], [[4]; [2]; []; []; []; []]);
    (ONone, [], [], [[]; [2]; []; []; []; []]);
    (OGrp [0; 2], [], [], [[]; [2]; []; []; []; []]);
    (ONone, [], [2], [[]; [2]; []; []; []; []]) ].
Proof. vm_compute. reflexivity. Qed.
