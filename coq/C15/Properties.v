(* C15/Properties.v — the property theorems of C15, and nothing else.
   Every theorem is closed by [exact <lemma>] and followed by Print Assumptions. *)
From Coq Require Import NArith List Bool.
From Morfuse Require Import C15.Model C15.Spec C15.ProofsLib C15.ProofsSpec C15.Proofs.
Import ListNotations.
Local Open Scope N_scope.

(* For EVERY history of spawn / SetTargetName / destroy / `$n` / `$n.size` / `$n[i]` /
   `$n <command>` (targetname, remove, mark, kill j) / `level.c<j> = $n` the code-level table
   (entries appended and dropped, RemoveObject of the first occurrence, the dead
   `if (!targetName)` guards, the ConstStrings::Empty key of a never-named object, the
   snapshot fan-out) observes exactly what the naming list of C15/Spec.v observes: the same
   value (NULL + NoTarget warning / the object / the group in naming order), the same size
   and elements, the same receivers in the same order, the same members of all five names and
   the same never-named objects after every operation. *)
Theorem C15_the_table_refines_the_naming_list :
  forall ops : list op, forallb plain ops = true -> run ops = spec_run ops.
Proof. exact plain_run_refines_spec. Qed.
Print Assumptions C15_the_table_refines_the_naming_list.

(* The same for every history none of whose observations raises a flag: that includes field
   assignments to `$n` when `$n` is no group, and every use of a stored value that is NULL or
   a single object. *)
Theorem C15_every_unflagged_history_refines_the_naming_list :
  forall ops : list op, Forall (fun o => oflag o = 0) (run ops) -> run ops = spec_run ops.
Proof. exact unflagged_run_refines_spec. Qed.
Print Assumptions C15_every_unflagged_history_refines_the_naming_list.

(* ALL histories: model and specification agree observation by observation, except that a
   field assignment to a `$n` group (flag 1) is observed differently (both raise the flag,
   the states stay related) and that nothing is claimed from the first use of a stored
   group (flag 2, raised by both) on. *)
Theorem C15_all_histories_agree_up_to_the_two_flags :
  forall ops : list op, agree (run ops) (spec_run ops).
Proof. exact run_agrees_with_spec. Qed.
Print Assumptions C15_all_histories_agree_up_to_the_two_flags.

Theorem C15_every_operation_keeps_the_simulation :
  forall m a o, R m a -> step_ok m a o.
Proof. exact step_sim. Qed.
Print Assumptions C15_every_operation_keeps_the_simulation.

(* The full statement  forall ops, run ops = spec_run ops  is FALSE of the code:
   (1) a field assignment to a group does not fan out (CastError, nobody is reached);
   (2) a stored group aliases the live list instead of the objects it denoted when stored;
   (3) once the name's entry was dropped the stored value points at a dead entry. *)
Theorem C15_field_assignment_to_a_group_refuted :
  run witness_field <> spec_run witness_field.
Proof. exact field_witness_differs. Qed.
Print Assumptions C15_field_assignment_to_a_group_refuted.

Theorem C15_stored_group_aliases_the_live_list_refuted :
  run witness_stored_alias <> spec_run witness_stored_alias.
Proof. exact stored_alias_witness_differs. Qed.
Print Assumptions C15_stored_group_aliases_the_live_list_refuted.

Theorem C15_stored_group_dangles_after_the_entry_is_dropped :
  map oundef (run witness_stored_dangling) = [false; false; false; false; true] /\
  map oval_ (spec_run witness_stored_dangling) = [ONone; ONone; ONone; ONone; OInt 2].
Proof. exact stored_dangling_witness_undefined. Qed.
Print Assumptions C15_stored_group_dangles_after_the_entry_is_dropped.

(* ---- what the specification guarantees *)
Theorem C15_spec_invariant_is_kept :
  forall a o, inv a -> inv (fst (spec_step a o)).
Proof. exact inv_step. Qed.
Print Assumptions C15_spec_invariant_is_kept.

(* `$n` denotes exactly the live objects bearing the name n *)
Theorem C15_spec_lookup_is_exactly_the_bearers :
  forall a n k, inv a ->
    (In k (lookup n (sobjs a)) <-> n <> 0 /\ find_name (sobjs a) k = Some n).
Proof. exact lookup_iff. Qed.
Print Assumptions C15_spec_lookup_is_exactly_the_bearers.

Theorem C15_spec_rename_moves :
  forall a k n n', alive_in (sobjs a) k = true ->
    lookup n' (sobjs (s_set_name a k n)) =
    rm k (lookup n' (sobjs a)) ++ (if n' =? norm n then [k] else []).
Proof. exact rename_moves. Qed.
Print Assumptions C15_spec_rename_moves.

Theorem C15_spec_destroy_removes :
  forall a k n', lookup n' (sobjs (s_destroy a k)) = rm k (lookup n' (sobjs a)) /\
                 alive_in (sobjs (s_destroy a k)) k = false.
Proof. exact destroy_removes. Qed.
Print Assumptions C15_spec_destroy_removes.

(* a command reaches members of the group only, each at most once *)
Theorem C15_spec_fanout_reaches_members_only_and_once :
  forall grp a c log,
    exists l', snd (s_fanout a grp c log) = log ++ l' /\
               (forall x, In x l' -> In x grp) /\ (NoDup grp -> NoDup l').
Proof. exact fanout_receivers. Qed.
Print Assumptions C15_spec_fanout_reaches_members_only_and_once.

(* mark reaches every bearer of the name exactly once, in naming order *)
Theorem C15_spec_mark_reaches_the_whole_group :
  forall a n, s_fanout a (lookup n (sobjs a)) CMark [] = (a, lookup n (sobjs a)).
Proof. exact mark_reaches_the_group. Qed.
Print Assumptions C15_spec_mark_reaches_the_whole_group.

Theorem C15_spec_remove_reaches_the_whole_group :
  forall grp a log k,
    In k grp -> alive_in (sobjs (fst (s_fanout a grp CRemove log))) k = false.
Proof. exact fanout_remove_kills. Qed.
Print Assumptions C15_spec_remove_reaches_the_whole_group.

(* Non-vacuity.  Objects 1,2,3 take the name 1; re-naming 2 with the same name moves it to the
   end; `$1 kill 3` reaches 1 (who kills 3), not the dead 3, then 2; `$1 targetname 2` moves
   both; `$1` is then NULL with the NoTarget warning; object 4 is never named, object 5 is
   named "" (name 5) and listed there; `$2 remove` destroys the group.
   Shown: (value, warnings, receivers, [members of names 1..5; never named]). *)
Example C15_history_example :
  map (fun o => (oval_ o, owarn o, olog o, odump o))
      (run [ OSpawn 1; OSpawn 1; OSpawn 1; ORename 2 1; OQuery (TName 1);
             OCmd (TName 1) (CKill 3); OCmd (TName 1) (CName 2); OQuery (TName 1);
             OSpawn 0; OSpawn 5; OIndex (TName 2) 2; OSize (TName 5);
             OCmd (TName 2) CRemove; OCmd (TName 2) CMark ]) =
  [ (ONone, [], [], [[1]; []; []; []; []; []]);
    (ONone, [], [], [[1; 2]; []; []; []; []; []]);
    (ONone, [], [], [[1; 2; 3]; []; []; []; []; []]);
    (ONone, [], [], [[1; 3; 2]; []; []; []; []; []]);
    (OGrp [1; 3; 2], [], [], [[1; 3; 2]; []; []; []; []; []]);
    (ONone, [], [1; 2], [[1; 2]; []; []; []; []; []]);
    (ONone, [], [], [[]; [1; 2]; []; []; []; []]);
    (ONull, [WNoTarget], [], [[]; [1; 2]; []; []; []; []]);
    (ONone, [], [], [[]; [1; 2]; []; []; []; [4]]);
    (ONone, [], [], [[]; [1; 2]; []; []; [5]; [4]]);
    (OObj 2, [], [], [[]; [1; 2]; []; []; [5]; [4]]);
    (OInt 1, [], [], [[]; [1; 2]; []; []; [5]; [4]]);
    (ONone, [], [], [[]; []; []; []; [5]; [4]]);
    (ONone, [WNoTarget; WNull], [], [[]; []; []; []; [5]; [4]]) ].
Proof. vm_compute. reflexivity. Qed.

(* the three defects, as (model, specification) observations of the last operation *)
Example C15_defect_example :
  (map (fun o => (owarn o, olog o)) (skipn 2 (run witness_field)),
   map (fun o => (owarn o, olog o)) (skipn 2 (spec_run witness_field)),
   map oval_ (skipn 4 (run witness_stored_alias)),
   map oval_ (skipn 4 (spec_run witness_stored_alias))) =
  ([([WCast], [])], [([], [1; 2])], [OInt 3], [OInt 2]).
Proof. vm_compute. reflexivity. Qed.
