(* C15/Spec.v — the abstract specification of target names.

   The state is ONE list of the live objects (id, name), ordered by the time each object
   most recently took its name (a never-named object, name 0, stays where its creation put
   it).  There is no table, no entry, no key for the empty string:
     lookup n = [ o | o alive, name_of o = n ]   in that order            (n <> 0)
   Naming an object (also with the name it already has) moves it to the end under the new
   name; destroying it takes it out.  `$n` is NULL (with the NoTarget warning), the object,
   or the group [lookup n] according to 0 / 1 / more members.  A command applied to a group
   reaches every member of the group as it was when the command started, in order, exactly
   once, provided the member is still alive at its turn - and nobody else; a field
   assignment reaches every member.
   A value stored in a variable keeps denoting what it denoted: NULL, the object (NULL once
   the object is dead), or the ARRAY of the objects that formed the group when it was
   stored (dead members read as NULL, the size does not change, commands and field
   assignments reach the members still alive). *)
From Coq Require Import NArith List Bool.
From Morfuse Require Import C15.Model.
Import ListNotations.
Local Open Scope N_scope.

Inductive sval := SNull | SObj (k : N) | SArr (l : list N).

Record abs := mkAbs {
  sobjs : list (N * N);         (* (id, name), most recently named last *)
  snext : N;
  scaps : list (N * sval) }.

Definition abs_init : abs := mkAbs [] 1 [].

Definition lookup (n : N) (l : list (N * N)) : list N :=
  if n =? 0 then [] else map fst (filter (fun p => snd p =? n) l).

Definition s_with (a : abs) (l : list (N * N)) : abs := mkAbs l (snext a) (scaps a).

Definition s_set_name (a : abs) (k n : N) : abs :=
  if alive_in (sobjs a) k then s_with a (without k (sobjs a) ++ [(k, norm n)]) else a.

Definition s_destroy (a : abs) (k : N) : abs := s_with a (without k (sobjs a)).

Definition s_spawn (a : abs) (n : N) : abs :=
  mkAbs (sobjs a ++ [(snext a, if n =? 0 then 0 else norm n)]) (snext a + 1) (scaps a).

Definition s_dump (a : abs) : list (list N) :=
  [lookup 1 (sobjs a); lookup 2 (sobjs a); lookup 3 (sobjs a); lookup 4 (sobjs a);
   lookup 5 (sobjs a); unnamed (sobjs a)].

Definition s_eval_name (a : abs) (n : N) : sval * list warn :=
  match lookup n (sobjs a) with
  | [] => (SNull, [WNoTarget])
  | [k] => (SObj k, [])
  | l => (SArr l, [])
  end.

Definition s_resolve (a : abs) (t : target) : rval * list warn * bool :=
  match t with
  | TName n => let '(r, w) := rval_of_list (lookup n (sobjs a)) in (r, w, false)
  | TCap j =>
      match getc SNull (scaps a) j with
      | SNull => (RNull, [], false)
      | SObj k => (if alive_in (sobjs a) k then RObj k else RNull, [], false)
      | SArr l => (RGrp (map (fun k => if alive_in (sobjs a) k then k else 0) l), [], true)
      end
  end.

Definition s_apply (a : abs) (k : N) (c : cmd) (log : list N) : abs * list N :=
  match c with
  | CName n => (s_set_name a k n, log)
  | CRemove => (s_destroy a k, log)
  | CMark => (a, log ++ [k])
  | CKill j => (s_destroy a j, log ++ [k])
  end.

(* every member of the group as it was, alive at its turn, once, in order *)
Fixpoint s_fanout (a : abs) (grp : list N) (c : cmd) (log : list N) : abs * list N :=
  match grp with
  | [] => (a, log)
  | k :: r =>
      if alive_in (sobjs a) k
      then let '(a', log') := s_apply a k c log in s_fanout a' r c log'
      else s_fanout a r c log
  end.

Definition s_mk (a : abs) (v : oval) (w : list warn) (lg : list N) (fl : N) : abs * obs :=
  (a, mkObs v w lg fl (s_dump a) false).

Definition spec_step (a : abs) (o : op) : abs * obs :=
  match o with
  | OSpawn n => s_mk (s_spawn a n) ONone [] [] 0
  | ORename k n =>
      if alive_in (sobjs a) k then s_mk (s_set_name a k n) ONone [] [] 0 else s_mk a ODead [] [] 0
  | ODestroy k =>
      if alive_in (sobjs a) k then s_mk (s_destroy a k) ONone [] [] 0 else s_mk a ODead [] [] 0
  | OQuery t => let '(r, w, sg) := s_resolve a t in s_mk a (q_value r) w [] (flag_of sg)
  | OSize t => let '(r, w, sg) := s_resolve a t in s_mk a (q_size r) w [] (flag_of sg)
  | OIndex t i =>
      let '(r, w, sg) := s_resolve a t in
      let '(v, w2) := q_index r i in s_mk a v (w ++ w2) [] (flag_of sg)
  | OCmd t c =>
      let '(r, w, sg) := s_resolve a t in
      match r with
      | RNull => s_mk a ONone (w ++ [WNull]) [] (flag_of sg)
      | RObj k => let '(a', lg) := s_apply a k c [] in s_mk a' ONone w lg (flag_of sg)
      | RGrp l => let '(a', lg) := s_fanout a l c [] in s_mk a' ONone w lg (flag_of sg)
      | RDangling => s_mk a ONone w [] (flag_of sg)      (* never produced by s_resolve *)
      end
  | OField t =>
      let '(r, w, sg) := s_resolve a t in
      match r with
      | RNull => s_mk a ONone (w ++ [WNull]) [] (flag_of sg)
      | RObj k => s_mk a ONone w [k] (flag_of sg)
      | RGrp l => s_mk a ONone w (filter (fun k => alive_in (sobjs a) k) l) (if sg then 2 else 1)
      | RDangling => s_mk a ONone w [] (flag_of sg)
      end
  | OCapture j n =>
      let '(v, w) := s_eval_name a n in
      s_mk (mkAbs (sobjs a) (snext a) ((j, v) :: scaps a)) ONone w [] 0
  end.

Fixpoint spec_from (a : abs) (ops : list op) : list obs :=
  match ops with
  | [] => []
  | o :: ops' => let '(a', ob) := spec_step a o in ob :: spec_from a' ops'
  end.

Definition spec_run (ops : list op) : list obs := spec_from abs_init ops.
