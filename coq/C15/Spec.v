(* C15/Spec.v — the abstract specification of target names.

   The state is ONE list of the live objects (id, name), ordered by the time each object
   most recently took its name (a never-named object, name 0, stays where its creation put
   it).  There is no table, no entry, no key for the empty string:
     lookup n = [ o | o alive, name_of o = n ]   in that order            (n <> 0)
   Naming an object (also with the name it already has) moves it to the end under the new
   name; destroying it takes it out.  `$n` is NULL (with the NoTarget warning), the object,
   or the group [lookup n] according to 0 / 1 / more members.  A group is a value: the array
   of the objects that bear the name at that moment, in naming order; stored in a variable it
   keeps denoting those objects (a destroyed member reads NULL, the size does not change).
   A command applied to a group reaches every member, in order, exactly once, provided the
   member is still alive at its turn - and nobody else.  A field assignment applied to a group
   does the same; it ends at the first member whose setter raises an error.  A targetname
   assignment through a group therefore moves every member. *)
From Coq Require Import NArith List Bool.
From Morfuse Require Import C15.Model.
Import ListNotations.
Local Open Scope N_scope.

Record abs := mkAbs {
  sobjs : list (N * N);         (* (id, name), most recently named last *)
  snext : N;
  scaps : list (N * value) }.

Definition abs_init : abs := mkAbs [] 1 [].

Definition lookup (n : N) (l : list (N * N)) : list N :=
  if n =? 0 then [] else map fst (filter (fun p => snd p =? n) l).

Definition s_with (a : abs) (l : list (N * N)) : abs := mkAbs l (snext a) (scaps a).

Definition s_set_name (a : abs) (k n : N) : abs :=
  if alive_in (sobjs a) k then s_with a (without k (sobjs a) ++ [(k, norm n)]) else a.

Definition s_destroy (a : abs) (k : N) : abs := s_with a (without k (sobjs a)).

Definition s_spawn (a : abs) (n : N) : abs :=
  mkAbs (sobjs a ++ [(snext a, if n =? 0 then 0 else norm n)]) (snext a + 1) (scaps a).

Definition s_dump (a : abs) : list (list N) :=
  [lookup 1 (sobjs a); lookup 2 (sobjs a); lookup 3 (sobjs a); lookup 4 (sobjs a);
   lookup 5 (sobjs a); unnamed (sobjs a)].

(* the 0 / 1 / many rule *)
Definition s_eval_name (a : abs) (n : N) : value * list warn := value_of_list (lookup n (sobjs a)).

Definition s_resolve (a : abs) (t : target) : rval * list warn :=
  match t with
  | TName n => let '(v, w) := s_eval_name a n in (look (sobjs a) v, w)
  | TCap j => (look (sobjs a) (getc VNull (scaps a) j), [])
  end.

Definition s_apply (a : abs) (k : N) (c : cmd) (log : list N) : abs * list N :=
  match c with
  | CName n => (s_set_name a k n, log)
  | CRemove => (s_destroy a k, log)
  | CMark => (a, log ++ [k])
  | CKill j => (s_destroy a j, log ++ [k])
  end.

(* every member of the group, alive at its turn, once, in order *)
Fixpoint s_fanout (a : abs) (grp : list N) (c : cmd) (log : list N) : abs * list N :=
  match grp with
  | [] => (a, log)
  | k :: r =>
      if alive_in (sobjs a) k
      then let '(a', log') := s_apply a k c log in s_fanout a' r c log'
      else s_fanout a r c log
  end.

Definition s_fstore (a : abs) (k : N) (f : fld) (log : list N) : abs * list N * bool :=
  match f with
  | FTag => (a, log ++ [k], false)
  | FName n => (s_set_name a k n, log, false)
  | FFuse j => (a, log ++ [k], k =? j)
  | FZap j => (s_destroy a j, log ++ [k], false)
  end.

Fixpoint s_ffanout (a : abs) (grp : list N) (f : fld) (log : list N) : abs * list N * bool :=
  match grp with
  | [] => (a, log, false)
  | k :: r =>
      if alive_in (sobjs a) k
      then let '(a', log', e) := s_fstore a k f log in
           if e then (a', log', true) else s_ffanout a' r f log'
      else s_ffanout a r f log
  end.

Definition s_mk (a : abs) (v : oval) (w : list warn) (lg : list N) : abs * obs :=
  (a, mkObs v w lg (s_dump a)).

Definition spec_step (a : abs) (o : op) : abs * obs :=
  match o with
  | OSpawn n => s_mk (s_spawn a n) ONone [] []
  | ORename k n =>
      if alive_in (sobjs a) k then s_mk (s_set_name a k n) ONone [] [] else s_mk a ODead [] []
  | ODestroy k =>
      if alive_in (sobjs a) k then s_mk (s_destroy a k) ONone [] [] else s_mk a ODead [] []
  | OQuery t => let '(r, w) := s_resolve a t in s_mk a (q_value r) w []
  | OSize t => let '(r, w) := s_resolve a t in s_mk a (q_size r) w []
  | OIndex t i =>
      let '(r, w) := s_resolve a t in
      let '(v, w2) := q_index r i in s_mk a v (w ++ w2) []
  | OCmd t c =>
      let '(r, w) := s_resolve a t in
      match r with
      | RNull => s_mk a ONone (w ++ [WNull]) []
      | RObj k => let '(a', lg) := s_apply a k c [] in s_mk a' ONone w lg
      | RGrp l => let '(a', lg) := s_fanout a l c [] in s_mk a' ONone w lg
      end
  | OField t f =>
      let '(r, w) := s_resolve a t in
      match r with
      | RNull => s_mk a ONone (w ++ [WNull]) []
      | RObj k => let '(a', lg, e) := s_fstore a k f [] in s_mk a' ONone (w ++ fail_warn e) lg
      | RGrp l => let '(a', lg, e) := s_ffanout a l f [] in s_mk a' ONone (w ++ fail_warn e) lg
      end
  | OCapture j n =>
      let '(v, w) := s_eval_name a n in
      s_mk (mkAbs (sobjs a) (snext a) ((j, v) :: scaps a)) ONone w []
  end.

Fixpoint spec_from (a : abs) (ops : list op) : list obs :=
  match ops with
  | [] => []
  | o :: ops' => let '(a', ob) := spec_step a o in ob :: spec_from a' ops'
  end.

Definition spec_run (ops : list op) : list obs := spec_from abs_init ops.
