(* C15/Model.v — executable model of target names: TargetList (src/Script/TargetList.cpp),
   TargetComponent::SetTargetName / ~TargetComponent (src/Script/Components/
   TargetComponent.cpp), OP_UN_TARGETNAME, ScriptVM::ExecCmdMethodCommon, OP_LOAD_FIELD_VAR /
   ScriptVM::loadTopGroup (src/Script/ScriptVMOperation.cpp) and the array values of
   src/Script/ScriptVariable.cpp (size, 1-based [i], listenerValue).

   Code level.  The table m_targetList is an association list name -> list of object ids in
   the code's own order.  AddListener appends (creating the entry when missing),
   RemoveListener removes the first occurrence and drops the entry when its list became
   empty; both return at once for the const_str 0.  set<> enumeration order is never used
   (look-up by key only).  SetTargetName = RemoveListener(old key); store; AddListener(new
   key); the destructor = RemoveListener(old key).  The key of a targetName member that was
   never set is NOT 0: the non-const StringResolvable::GetConstString() turns an empty string
   into ConstStrings::Empty, the same key as the explicit name "" - so the `if (!targetName)`
   guards of TargetList are dead code, an object explicitly named "" IS listed under "" and
   a never-named object is not listed (its removal looks into the "" list and finds
   nothing).  Names: 0 = never named, 1..4 = "a".."d", 5 = "".
   `$n`: no entry or empty -> NULL and (the Debug stream is attached) a NoTarget script
   warning, after which the statement goes on with NULL; one member -> that object; more ->
   setContainerValue + CastConstArrayValue: a constant array of weak references to the
   members in the list's order, taken at that moment.  Stored in a variable
   (`level.c<j> = $n`) the value stays what it is: NULL / a weak reference / the array
   (a destroyed member reads NULL, the size does not change).
   A command applied to an array of size > 1 walks a copy of it from 1 to size and sends the
   command to every element that is non-null at its turn; a field assignment does the same
   through loadTopGroup (plain SetVariable or the field's setter event) and ends at the
   first member whose setter raises a script error (later members are not assigned).  An
   array of size <= 1 would end in listenerValue() -> CastError (arrays made by `$n` always
   have at least two elements).
   Handlers are data.  Commands: targetname n, remove, mark (logs the receiver), kill j (logs
   the receiver and destroys object j if alive).  Fields: tag (plain variable; the receiver
   is logged), targetname n (the built-in setter), fuse j (a setter that logs the receiver
   and raises an error when the receiver is j), zap j (a setter that logs the receiver and
   destroys object j if alive).
   Abstracted: Container<SafePtr<Listener>> is a Coq list; objects are their spawn numbers
   1,2,..; the VM, the parser and the event system are not modelled. *)
From Coq Require Import NArith List Bool.
Import ListNotations.
Local Open Scope N_scope.

Inductive cmd := CName (n : N) | CRemove | CMark | CKill (j : N).
Inductive fld := FTag | FName (n : N) | FFuse (j : N) | FZap (j : N).
Inductive target := TName (n : N) | TCap (j : N).       (* `$n`  |  `level.c<j>` *)

Inductive op :=
| OSpawn (n : N)                   (* new object; n <> 0: SetTargetName(n) *)
| ORename (k n : N)                (* SetTargetName of object k *)
| ODestroy (k : N)                 (* delete object k *)
| OQuery (t : target)              (* the value itself *)
| OSize (t : target)               (* t.size *)
| OIndex (t : target) (i : N)      (* t[i] *)
| OCmd (t : target) (c : cmd)      (* t <command> *)
| OField (t : target) (f : fld)    (* t.<field> = <value> *)
| OCapture (j n : N).              (* level.c<j> = $n *)

Definition EMPTY : N := 5.
(* the key under which SetTargetName / the destructor look: ConstStrings::Empty for an
   empty string *)
Definition norm (n : N) : N := if n =? 0 then EMPTY else n.

Record entry := mkEntry { ename : N; emem : list N }.

Inductive value := VNull | VObj (k : N) | VArr (l : list N).

Record st := mkSt {
  tab : list entry;              (* m_targetList *)
  objs : list (N * N);           (* live objects (id, name member), spawn order *)
  nextid : N;
  caps : list (N * value) }.     (* level.c<j> *)

Definition init : st := mkSt [] [] 1 [].

(* ---- association lists *)
Fixpoint find_name (l : list (N * N)) (k : N) : option N :=
  match l with
  | [] => None
  | (k', n) :: l' => if k' =? k then Some n else find_name l' k
  end.

Definition alive_in (l : list (N * N)) (k : N) : bool :=
  match find_name l k with Some _ => true | None => false end.

Definition unnamed (l : list (N * N)) : list N :=
  map fst (filter (fun p => snd p =? 0) l).

Definition without (k : N) (l : list (N * N)) : list (N * N) :=
  filter (fun p => negb (fst p =? k)) l.

Definition getc {A} (d : A) (l : list (N * A)) (j : N) : A :=
  match find (fun p => fst p =? j) l with Some p => snd p | None => d end.

(* ---- the table *)
Fixpoint find_entry (t : list entry) (n : N) : option entry :=
  match t with
  | [] => None
  | e :: t' => if ename e =? n then Some e else find_entry t' n
  end.

Definition mem_of (t : list entry) (n : N) : list N :=
  match find_entry t n with Some e => emem e | None => [] end.

(* Container::RemoveObject: IndexOfObject (first match), RemoveObjectAt *)
Fixpoint remove_first (k : N) (l : list N) : list N :=
  match l with
  | [] => []
  | x :: l' => if x =? k then l' else x :: remove_first k l'
  end.

Definition upd_entry (t : list entry) (n : N) (f : list N -> list N) : list entry :=
  map (fun e => if ename e =? n then mkEntry (ename e) (f (emem e)) else e) t.

Definition drop_entry (t : list entry) (n : N) : list entry :=
  filter (fun e => negb (ename e =? n)) t.

Definition with_tab (s : st) (t : list entry) : st := mkSt t (objs s) (nextid s) (caps s).

(* TargetList::AddListener *)
Definition add_listener (s : st) (k n : N) : st :=
  if n =? 0 then s
  else match find_entry (tab s) n with
       | Some _ => with_tab s (upd_entry (tab s) n (fun l => l ++ [k]))
       | None => with_tab s (tab s ++ [mkEntry n [k]])
       end.

(* TargetList::RemoveListener *)
Definition remove_listener (s : st) (k n : N) : st :=
  if n =? 0 then s
  else match find_entry (tab s) n with
       | Some e =>
           match remove_first k (emem e) with
           | [] => with_tab s (drop_entry (tab s) n)
           | _ => with_tab s (upd_entry (tab s) n (remove_first k))
           end
       | None => s
       end.

Definition with_objs (s : st) (l : list (N * N)) : st := mkSt (tab s) l (nextid s) (caps s).

Definition rename_in (k n : N) (l : list (N * N)) : list (N * N) :=
  map (fun p => if fst p =? k then (k, n) else p) l.

(* TargetComponent::SetTargetName on a live object (nothing for a dead one) *)
Definition set_name (s : st) (k n : N) : st :=
  match find_name (objs s) k with
  | None => s
  | Some old =>
      let s1 := remove_listener s k (norm old) in
      let s2 := with_objs s1 (rename_in k (norm n) (objs s1)) in
      add_listener s2 k (norm n)
  end.

(* delete: ~TargetComponent, then every weak reference to the object becomes null *)
Definition destroy (s : st) (k : N) : st :=
  match find_name (objs s) k with
  | None => s
  | Some old =>
      let s1 := remove_listener s k (norm old) in
      with_objs s1 (without k (objs s1))
  end.

Definition spawn (s : st) (n : N) : st :=
  let k := nextid s in
  let s1 := mkSt (tab s) (objs s ++ [(k, 0)]) (k + 1) (caps s) in
  if n =? 0 then s1 else set_name s1 k n.

(* ---- observations *)
Inductive warn := WNoTarget | WNull | WCast | WRange | WFail.
Inductive oval :=
| ONone                (* nothing is reported *)
| ODead                (* the op names a dead object: not executed *)
| ONil                 (* a value of type none *)
| ONull
| OObj (k : N)
| OGrp (l : list N)    (* 0 = a null element *)
| OInt (n : N).

Record obs := mkObs {
  oval_ : oval;
  owarn : list warn;
  olog : list N;            (* receivers of mark / kill / tag / fuse / zap, in order *)
  odump : list (list N) }.  (* the lists of the names 1..5, then the never-named objects *)

Definition dump_of (t : list entry) (o : list (N * N)) : list (list N) :=
  [mem_of t 1; mem_of t 2; mem_of t 3; mem_of t 4; mem_of t 5; unnamed o].

Definition dump (s : st) : list (list N) := dump_of (tab s) (objs s).

(* a value after the VM looked at it: null elements of an array are 0 *)
Inductive rval := RNull | RObj (k : N) | RGrp (l : list N).

(* OP_UN_TARGETNAME *)
Definition value_of_list (l : list N) : value * list warn :=
  match l with
  | [] => (VNull, [WNoTarget])
  | [k] => (VObj k, [])
  | _ => (VArr l, [])
  end.

Definition eval_name (s : st) (n : N) : value * list warn := value_of_list (mem_of (tab s) n).

Definition look (o : list (N * N)) (v : value) : rval :=
  match v with
  | VNull => RNull
  | VObj k => if alive_in o k then RObj k else RNull
  | VArr l => RGrp (map (fun k => if alive_in o k then k else 0) l)
  end.

Definition resolve (s : st) (t : target) : rval * list warn :=
  match t with
  | TName n => let '(v, w) := eval_name s n in (look (objs s) v, w)
  | TCap j => (look (objs s) (getc VNull (caps s) j), [])
  end.

(* ---- command fan-out *)
Definition apply (s : st) (k : N) (c : cmd) (log : list N) : st * list N :=
  match c with
  | CName n => (set_name s k n, log)
  | CRemove => (destroy s k, log)
  | CMark => (s, log ++ [k])
  | CKill j => (destroy s j, log ++ [k])
  end.

(* the loop of ExecCmdMethodCommon over the copy of the array *)
Fixpoint fanout (s : st) (snap : list N) (c : cmd) (log : list N) : st * list N :=
  match snap with
  | [] => (s, log)
  | k :: r =>
      if alive_in (objs s) k
      then let '(s', log') := apply s k c log in fanout s' r c log'
      else fanout s r c log
  end.

(* ---- field store: loadTop on one object; true = the setter raised a script error *)
Definition fstore (s : st) (k : N) (f : fld) (log : list N) : st * list N * bool :=
  match f with
  | FTag => (s, log ++ [k], false)
  | FName n => (set_name s k n, log, false)
  | FFuse j => (s, log ++ [k], k =? j)
  | FZap j => (destroy s j, log ++ [k], false)
  end.

(* the loop of loadTopGroup: ends at the first error *)
Fixpoint ffanout (s : st) (snap : list N) (f : fld) (log : list N) : st * list N * bool :=
  match snap with
  | [] => (s, log, false)
  | k :: r =>
      if alive_in (objs s) k
      then let '(s', log', e) := fstore s k f log in
           if e then (s', log', true) else ffanout s' r f log'
      else ffanout s r f log
  end.

Definition mk (s : st) (v : oval) (w : list warn) (lg : list N) : st * obs :=
  (s, mkObs v w lg (dump s)).

Definition fail_warn (e : bool) : list warn := if e then [WFail] else [].

(* the reported value, .size, [i] *)
Definition q_value (r : rval) : oval :=
  match r with RNull => ONull | RObj k => OObj k | RGrp l => OGrp l end.

Definition q_size (r : rval) : oval :=
  match r with RNull => OInt 0 | RObj _ => OInt 1 | RGrp l => OInt (N.of_nat (length l)) end.

(* evalArrayAt: a listener value accepts exactly the index 1; an array 1..size *)
Definition q_index (r : rval) (i : N) : oval * list warn :=
  match r with
  | RNull => if i =? 1 then (ONull, []) else (ONil, [WRange])
  | RObj k => if i =? 1 then (OObj k, []) else (ONil, [WRange])
  | RGrp l =>
      if (i =? 0) || (N.of_nat (length l) <? i) then (ONil, [WRange])
      else (match nth_error l (N.to_nat (i - 1)) with
            | Some 0 => ONull | Some k => OObj k | None => ONil end, [])
  end.

Definition step (s : st) (o : op) : st * obs :=
  match o with
  | OSpawn n => mk (spawn s n) ONone [] []
  | ORename k n =>
      if alive_in (objs s) k then mk (set_name s k n) ONone [] [] else mk s ODead [] []
  | ODestroy k =>
      if alive_in (objs s) k then mk (destroy s k) ONone [] [] else mk s ODead [] []
  | OQuery t => let '(r, w) := resolve s t in mk s (q_value r) w []
  | OSize t => let '(r, w) := resolve s t in mk s (q_size r) w []
  | OIndex t i =>
      let '(r, w) := resolve s t in
      let '(v, w2) := q_index r i in mk s v (w ++ w2) []
  | OCmd t c =>
      let '(r, w) := resolve s t in
      match r with
      | RNull => mk s ONone (w ++ [WNull]) []
      | RObj k => let '(s', lg) := apply s k c [] in mk s' ONone w lg
      | RGrp l =>
          match l with
          | _ :: _ :: _ => let '(s', lg) := fanout s l c [] in mk s' ONone w lg
          | _ => mk s ONone (w ++ [WCast]) []       (* arraysize <= 1: listenerValue() *)
          end
      end
  | OField t f =>
      let '(r, w) := resolve s t in
      match r with
      | RNull => mk s ONone (w ++ [WNull]) []
      | RObj k => let '(s', lg, e) := fstore s k f [] in mk s' ONone (w ++ fail_warn e) lg
      | RGrp l =>
          match l with
          | _ :: _ :: _ => let '(s', lg, e) := ffanout s l f [] in mk s' ONone (w ++ fail_warn e) lg
          | _ => mk s ONone (w ++ [WCast]) []
          end
      end
  | OCapture j n =>
      let '(v, w) := eval_name s n in
      mk (mkSt (tab s) (objs s) (nextid s) ((j, v) :: caps s)) ONone w []
  end.

Fixpoint run_from (s : st) (ops : list op) : list obs :=
  match ops with
  | [] => []
  | o :: ops' => let '(s', ob) := step s o in ob :: run_from s' ops'
  end.

Definition run (ops : list op) : list obs := run_from init ops.
