(* C15/Model.v — executable model of target names: TargetList (src/Script/TargetList.cpp),
   TargetComponent::SetTargetName / ~TargetComponent (src/Script/Components/
   TargetComponent.cpp), OP_UN_TARGETNAME and ScriptVM::ExecCmdMethodCommon
   (src/Script/ScriptVMOperation.cpp), OP_STORE_FIELD on a `$name` value, and the container
   values of src/Script/ScriptVariable.cpp (size, 1-based [i], listenerValue).

   Code level.  The table m_targetList is an association list name -> entry; an entry has the
   list of object ids in the code's own order and an identity [eid] (= the address of the
   entry inside the set: entries are separately allocated nodes, a rehash does not move
   them).  AddListener appends (creating the entry when missing), RemoveListener removes the
   first occurrence and drops the entry when its list became empty; both return at once for
   the const_str 0.  set<> enumeration order is never used (look-up by key only).
   SetTargetName = RemoveListener(old key); store; AddListener(new key); the destructor =
   RemoveListener(old key).  The key of a targetName member that was never set is NOT 0:
   the non-const StringResolvable::GetConstString() turns an empty string into
   ConstStrings::Empty, the same key as the explicit name "" - so the `if (!targetName)`
   guards of TargetList are dead code, an object explicitly named "" IS listed under ""
   and a never-named object is not listed (its removal looks into the "" list and finds
   nothing).  Names: 0 = never named, 1..4 = "a".."d", 5 = "".
   `$n`: no entry or empty -> NULL and (the Debug stream is attached) a NoTarget script
   warning, after which the statement goes on with NULL; one member -> that object; more ->
   a container value that POINTS AT the entry's list.  A command applied to a container
   value of size > 1 copies it into a const array (snapshot) and sends the command to every
   element whose SafePtr is still non-null at its turn; a container value of size <= 1 and
   every field assignment to a container value end in listenerValue() -> CastError.
   Values stored in a variable (`level.c<j> = $n`): NULL / a SafePtr to one object / the
   raw pointer [VGrp eid].  A stored pointer is well-defined exactly as long as that entry
   exists (it then aliases the LIVE list); once the entry was dropped any use is undefined
   behaviour: the model reports [oundef] and stops ([stuck]).
   Handlers are data: targetname n, remove, mark (logs the receiver), kill j (logs the
   receiver and destroys object j if alive).
   Abstracted: Container<SafePtr<Listener>> is a Coq list; objects are their spawn numbers
   1,2,..; the VM, the parser and the event system are not modelled. *)
From Coq Require Import NArith List Bool.
Import ListNotations.
Local Open Scope N_scope.

Inductive cmd := CName (n : N) | CRemove | CMark | CKill (j : N).
Inductive target := TName (n : N) | TCap (j : N).       (* `$n`  |  `level.c<j>` *)

Inductive op :=
| OSpawn (n : N)                   (* new object; n <> 0: SetTargetName(n) *)
| ORename (k n : N)                (* SetTargetName of object k *)
| ODestroy (k : N)                 (* delete object k *)
| OQuery (t : target)              (* the value itself *)
| OSize (t : target)               (* t.size *)
| OIndex (t : target) (i : N)      (* t[i] *)
| OCmd (t : target) (c : cmd)      (* t <command> *)
| OField (t : target)              (* t.tag = <fresh value> *)
| OCapture (j n : N).              (* level.c<j> = $n *)

Definition EMPTY : N := 5.
(* the key under which SetTargetName / the destructor look: ConstStrings::Empty for an
   empty string *)
Definition norm (n : N) : N := if n =? 0 then EMPTY else n.

Record entry := mkEntry { ename : N; eid : N; emem : list N }.

Inductive value := VNull | VObj (k : N) | VGrp (e : N).

Record st := mkSt {
  tab : list entry;              (* m_targetList *)
  objs : list (N * N);           (* live objects (id, name member), spawn order *)
  nextid : N;
  nexteid : N;
  caps : list (N * value);       (* level.c<j> *)
  stuck : bool }.

Definition init : st := mkSt [] [] 1 1 [] false.

(* ---- association lists *)
Fixpoint find_name (l : list (N * N)) (k : N) : option N :=
  match l with
  | [] => None
  | (k', n) :: l' => if k' =? k then Some n else find_name l' k
  end.

Definition alive_in (l : list (N * N)) (k : N) : bool :=
  match find_name l k with Some _ => true | None => false end.

Definition unnamed (l : list (N * N)) : list N :=
  map fst (filter (fun p => snd p =? 0) l).

Definition without (k : N) (l : list (N * N)) : list (N * N) :=
  filter (fun p => negb (fst p =? k)) l.

Definition getc {A} (d : A) (l : list (N * A)) (j : N) : A :=
  match find (fun p => fst p =? j) l with Some p => snd p | None => d end.

(* ---- the table *)
Fixpoint find_entry (t : list entry) (n : N) : option entry :=
  match t with
  | [] => None
  | e :: t' => if ename e =? n then Some e else find_entry t' n
  end.

Fixpoint find_eid (t : list entry) (i : N) : option entry :=
  match t with
  | [] => None
  | e :: t' => if eid e =? i then Some e else find_eid t' i
  end.

Definition mem_of (t : list entry) (n : N) : list N :=
  match find_entry t n with Some e => emem e | None => [] end.

(* Container::RemoveObject: IndexOfObject (first match), RemoveObjectAt *)
Fixpoint remove_first (k : N) (l : list N) : list N :=
  match l with
  | [] => []
  | x :: l' => if x =? k then l' else x :: remove_first k l'
  end.

Definition upd_entry (t : list entry) (n : N) (f : list N -> list N) : list entry :=
  map (fun e => if ename e =? n then mkEntry (ename e) (eid e) (f (emem e)) else e) t.

Definition drop_entry (t : list entry) (n : N) : list entry :=
  filter (fun e => negb (ename e =? n)) t.

Definition with_tab (s : st) (t : list entry) (ne : N) : st :=
  mkSt t (objs s) (nextid s) ne (caps s) (stuck s).

(* TargetList::AddListener *)
Definition add_listener (s : st) (k n : N) : st :=
  if n =? 0 then s
  else match find_entry (tab s) n with
       | Some _ => with_tab s (upd_entry (tab s) n (fun l => l ++ [k])) (nexteid s)
       | None => with_tab s (tab s ++ [mkEntry n (nexteid s) [k]]) (nexteid s + 1)
       end.

(* TargetList::RemoveListener *)
Definition remove_listener (s : st) (k n : N) : st :=
  if n =? 0 then s
  else match find_entry (tab s) n with
       | Some e =>
           match remove_first k (emem e) with
           | [] => with_tab s (drop_entry (tab s) n) (nexteid s)
           | _ => with_tab s (upd_entry (tab s) n (remove_first k)) (nexteid s)
           end
       | None => s
       end.

Definition with_objs (s : st) (l : list (N * N)) : st :=
  mkSt (tab s) l (nextid s) (nexteid s) (caps s) (stuck s).

Definition rename_in (k n : N) (l : list (N * N)) : list (N * N) :=
  map (fun p => if fst p =? k then (k, n) else p) l.

(* TargetComponent::SetTargetName on a live object (nothing for a dead one) *)
Definition set_name (s : st) (k n : N) : st :=
  match find_name (objs s) k with
  | None => s
  | Some old =>
      let s1 := remove_listener s k (norm old) in
      let s2 := with_objs s1 (rename_in k (norm n) (objs s1)) in
      add_listener s2 k (norm n)
  end.

(* delete: ~TargetComponent, then every SafePtr to the object becomes null *)
Definition destroy (s : st) (k : N) : st :=
  match find_name (objs s) k with
  | None => s
  | Some old =>
      let s1 := remove_listener s k (norm old) in
      with_objs s1 (without k (objs s1))
  end.

Definition spawn (s : st) (n : N) : st :=
  let k := nextid s in
  let s1 := mkSt (tab s) (objs s ++ [(k, 0)]) (k + 1) (nexteid s) (caps s) (stuck s) in
  if n =? 0 then s1 else set_name s1 k n.

(* ---- observations *)
Inductive warn := WNoTarget | WNull | WCast | WRange.
Inductive oval :=
| ONone                (* nothing is reported *)
| ODead                (* the op names a dead object: not executed *)
| ONil                 (* a value of type none *)
| ONull
| OObj (k : N)
| OGrp (l : list N)    (* 0 = a null element *)
| OInt (n : N).

Record obs := mkObs {
  oval_ : oval;
  owarn : list warn;
  olog : list N;            (* receivers of mark / kill / the field assignment, in order *)
  oflag : N;                (* 1: field assignment to a `$n` group; 2: use of a stored group *)
  odump : list (list N);    (* the lists of the names 1..5, then the never-named objects *)
  oundef : bool }.

Definition dump_of (t : list entry) (o : list (N * N)) : list (list N) :=
  [mem_of t 1; mem_of t 2; mem_of t 3; mem_of t 4; mem_of t 5; unnamed o].

Definition dump (s : st) : list (list N) := dump_of (tab s) (objs s).

(* a value after the VM looked at it *)
Inductive rval := RNull | RObj (k : N) | RGrp (l : list N) | RDangling.

(* OP_UN_TARGETNAME, as a variable value *)
Definition eval_name (s : st) (n : N) : value * list warn :=
  match find_entry (tab s) n with
  | None => (VNull, [WNoTarget])
  | Some e =>
      match emem e with
      | [] => (VNull, [WNoTarget])
      | [k] => (VObj k, [])
      | _ => (VGrp (eid e), [])
      end
  end.

Definition rval_of_list (l : list N) : rval * list warn :=
  match l with
  | [] => (RNull, [WNoTarget])
  | [k] => (RObj k, [])
  | _ => (RGrp l, [])
  end.

(* (value as seen now, warnings, a stored group?) *)
Definition resolve (s : st) (t : target) : rval * list warn * bool :=
  match t with
  | TName n => let '(r, w) := rval_of_list (mem_of (tab s) n) in (r, w, false)
  | TCap j =>
      match getc VNull (caps s) j with
      | VNull => (RNull, [], false)
      | VObj k => (if alive_in (objs s) k then RObj k else RNull, [], false)
      | VGrp e =>
          match find_eid (tab s) e with
          | Some en => (RGrp (emem en), [], true)
          | None => (RDangling, [], true)
          end
      end
  end.

Definition flag_of (stored : bool) : N := if stored then 2 else 0.

(* ---- command fan-out *)
Definition apply (s : st) (k : N) (c : cmd) (log : list N) : st * list N :=
  match c with
  | CName n => (set_name s k n, log)
  | CRemove => (destroy s k, log)
  | CMark => (s, log ++ [k])
  | CKill j => (destroy s j, log ++ [k])
  end.

(* the loop of ExecCmdMethodCommon over the snapshot array *)
Fixpoint fanout (s : st) (snap : list N) (c : cmd) (log : list N) : st * list N :=
  match snap with
  | [] => (s, log)
  | k :: r =>
      if alive_in (objs s) k
      then let '(s', log') := apply s k c log in fanout s' r c log'
      else fanout s r c log
  end.

Definition undef_obs (fl : N) : obs := mkObs ONone [] [] fl [] true.

Definition mk (s : st) (v : oval) (w : list warn) (lg : list N) (fl : N) : st * obs :=
  (s, mkObs v w lg fl (dump s) false).

Definition stick (s : st) : st :=
  mkSt (tab s) (objs s) (nextid s) (nexteid s) (caps s) true.

(* the reported value, .size, [i] *)
Definition q_value (r : rval) : oval :=
  match r with RNull => ONull | RObj k => OObj k | RGrp l => OGrp l | RDangling => ONone end.

Definition q_size (r : rval) : oval :=
  match r with RNull => OInt 0 | RObj _ => OInt 1 | RGrp l => OInt (N.of_nat (length l)) | RDangling => ONone end.

(* evalArrayAt: a listener value accepts exactly the index 1; a container 1..size *)
Definition q_index (r : rval) (i : N) : oval * list warn :=
  match r with
  | RNull => if i =? 1 then (ONull, []) else (ONil, [WRange])
  | RObj k => if i =? 1 then (OObj k, []) else (ONil, [WRange])
  | RGrp l =>
      if (i =? 0) || (N.of_nat (length l) <? i) then (ONil, [WRange])
      else (match nth_error l (N.to_nat (i - 1)) with
            | Some 0 => ONull | Some k => OObj k | None => ONil end, [])
  | RDangling => (ONone, [])
  end.

Definition step (s : st) (o : op) : st * obs :=
  if stuck s then (s, undef_obs 0)
  else
  match o with
  | OSpawn n => mk (spawn s n) ONone [] [] 0
  | ORename k n =>
      if alive_in (objs s) k then mk (set_name s k n) ONone [] [] 0 else mk s ODead [] [] 0
  | ODestroy k =>
      if alive_in (objs s) k then mk (destroy s k) ONone [] [] 0 else mk s ODead [] [] 0
  | OQuery t =>
      let '(r, w, sg) := resolve s t in
      match r with
      | RDangling => (stick s, undef_obs 2)
      | _ => mk s (q_value r) w [] (flag_of sg)
      end
  | OSize t =>
      let '(r, w, sg) := resolve s t in
      match r with
      | RDangling => (stick s, undef_obs 2)
      | _ => mk s (q_size r) w [] (flag_of sg)
      end
  | OIndex t i =>
      let '(r, w, sg) := resolve s t in
      match r with
      | RDangling => (stick s, undef_obs 2)
      | _ => let '(v, w2) := q_index r i in mk s v (w ++ w2) [] (flag_of sg)
      end
  | OCmd t c =>
      let '(r, w, sg) := resolve s t in
      match r with
      | RDangling => (stick s, undef_obs 2)
      | RNull => mk s ONone (w ++ [WNull]) [] (flag_of sg)
      | RObj k => let '(s', lg) := apply s k c [] in mk s' ONone w lg (flag_of sg)
      | RGrp l =>
          match l with
          | _ :: _ :: _ => let '(s', lg) := fanout s l c [] in mk s' ONone w lg (flag_of sg)
          | _ => mk s ONone (w ++ [WCast]) [] (flag_of sg)     (* arraysize <= 1: listenerValue() *)
          end
      end
  | OField t =>
      let '(r, w, sg) := resolve s t in
      match r with
      | RDangling => (stick s, undef_obs 2)
      | RNull => mk s ONone (w ++ [WNull]) [] (flag_of sg)
      | RObj k => mk s ONone w [k] (flag_of sg)
      | RGrp _ => mk s ONone (w ++ [WCast]) [] (if sg then 2 else 1)
      end
  | OCapture j n =>
      let '(v, w) := eval_name s n in
      mk (mkSt (tab s) (objs s) (nextid s) (nexteid s) ((j, v) :: caps s) (stuck s)) ONone w [] 0
  end.

Fixpoint run_from (s : st) (ops : list op) : list obs :=
  match ops with
  | [] => []
  | o :: ops' => let '(s', ob) := step s o in ob :: run_from s' ops'
  end.

Definition run (ops : list op) : list obs := run_from init ops.
