(* Base/Ring.v — circular doubly linked rings threaded through two index arrays
   (next / prev), as in block_s::next_data/prev_data and SafePtrBase::next/prev.

   [seg f x l y]    : following [f] from [x] visits exactly the nodes of [l] (in order,
                      [x] first) and then reaches [y].
   [ring nx pv h l] : [l] is duplicate free and starts with [h]; [nx] walks it
                      cyclically and [pv] is the inverse of [nx] on it.  The predicate is
                      invariant under rotation ([ring_rot]). *)
From Coq Require Import NArith List Lia Permutation.
From Morfuse Require Import Base.Arr.
Import ListNotations.
Local Open Scope N_scope.

Fixpoint seg (f : arr N) (x : N) (l : list N) (y : N) : Prop :=
  match l with
  | [] => x = y
  | a :: l' => x = a /\ seg f (get f a) l' y
  end.

Lemma seg_app f l1 : forall x l2 z,
  seg f x (l1 ++ l2) z <-> exists y, seg f x l1 y /\ seg f y l2 z.
Proof.
  induction l1 as [|a l1 IH]; cbn; intros x l2 z.
  - split; [intro H; exists x; auto | intros [y [-> H]]; exact H].
  - split.
    + intros [-> H]. apply IH in H. destruct H as [y [H1 H2]]. exists y; auto.
    + intros [y [[-> H1] H2]]. split; [reflexivity|]. apply IH. exists y; auto.
Qed.

Lemma seg_frame f k v l : forall x y,
  ~ In k l -> (seg (set f k v) x l y <-> seg f x l y).
Proof.
  induction l as [|a l IH]; cbn; intros x y Hk; [tauto|].
  rewrite gso by (intro; subst; tauto).
  rewrite IH by tauto. tauto.
Qed.

Lemma seg_snoc f x l a y :
  seg f x (l ++ [a]) y <-> seg f x l a /\ get f a = y.
Proof.
  rewrite seg_app. cbn. split.
  - intros [z [H1 [-> H2]]]; auto.
  - intros [H1 H2]. exists a; auto.
Qed.

(* every node of a segment maps to the next node or to the end point *)
Lemma seg_next_in f l : forall x y a,
  seg f x l y -> In a l -> In (get f a) l \/ get f a = y.
Proof.
  induction l as [|b l IH]; cbn; intros x y a Hs Hin; [tauto|].
  destruct Hs as [-> Hs]. destruct Hin as [<-|Hin].
  - destruct l as [|c l]; cbn in Hs.
    + now right.
    + destruct Hs as [-> _]. left. right. now left.
  - destruct (IH _ _ _ Hs Hin) as [H|H]; [left; now right | now right].
Qed.

Lemma exists_snoc {A} (l : list A) : l <> [] -> exists s p, l = s ++ [p].
Proof.
  intro H. destruct (exists_last H) as [s [p ->]]. eauto.
Qed.

Definition ring (nx pv : arr N) (h : N) (l : list N) : Prop :=
  NoDup l /\ (exists t, l = h :: t) /\ seg nx h l h /\
  (forall x, In x l -> get pv (get nx x) = x).

Lemma ring_in_head nx pv h l : ring nx pv h l -> In h l.
Proof. intros (_ & [t ->] & _). now left. Qed.

Lemma ring_closed nx pv h l x : ring nx pv h l -> In x l -> In (get nx x) l.
Proof.
  intros (Hnd & [t ->] & Hs & _) Hin.
  destruct (seg_next_in _ _ _ _ _ Hs Hin) as [H|H]; [exact H|].
  rewrite H. now left.
Qed.

Lemma ring_inj nx pv h l x y :
  ring nx pv h l -> In x l -> In y l -> get nx x = get nx y -> x = y.
Proof.
  intros (_ & _ & _ & Hp) Hx Hy E.
  rewrite <- (Hp x Hx), <- (Hp y Hy). now rewrite E.
Qed.

(* --- a singleton ring ---------------------------------------------------------- *)
Lemma ring_single nx pv x : ring (set nx x x) (set pv x x) x [x].
Proof.
  unfold ring; cbn. rewrite !gss. repeat split.
  - constructor; [cbn; tauto | constructor].
  - now exists [].
  - intros y [<-|[]]. now rewrite !gss.
Qed.

Lemma ring_single_iff nx pv h l x :
  ring nx pv h l -> In x l -> (get nx x = x <-> l = [x]).
Proof.
  intros (Hnd & [t ->] & Hs & _) Hin. split.
  - intro Hx. apply in_split in Hin. destruct Hin as [l1 [l2 E]].
    rewrite E in Hs, Hnd |- *.
    apply seg_app in Hs. destruct Hs as [y [H1 H2]]. cbn in H2.
    destruct H2 as [-> H2]. rewrite Hx in H2.
    destruct l2 as [|b l2].
    + cbn in H2. subst h.
      destruct l1 as [|a l1]; [reflexivity|].
      cbn in H1. destruct H1 as [<- _].
      apply NoDup_remove_2 in Hnd. exfalso. apply Hnd.
      rewrite app_nil_r. now left.
    + cbn in H2. destruct H2 as [<- _].
      apply NoDup_remove_2 in Hnd. exfalso. apply Hnd.
      apply in_or_app. right. now left.
  - intros E. injection E as -> ->. cbn in Hs. destruct Hs as [_ Hs]. now symmetry.
Qed.

(* --- rotation ------------------------------------------------------------------- *)
Lemma NoDup_rot {A} (l1 l2 : list A) : NoDup (l1 ++ l2) -> NoDup (l2 ++ l1).
Proof.
  intro H. eapply Permutation_NoDup; [apply Permutation_app_comm | exact H].
Qed.

Lemma seg_rot f h l1 m l2 :
  seg f h (l1 ++ m :: l2) h -> seg f m (m :: l2 ++ l1) m.
Proof.
  intro H. apply seg_app in H. destruct H as [y [H1 H2]].
  assert (y = m) by (cbn in H2; tauto). subst y.
  change (m :: l2 ++ l1) with ((m :: l2) ++ l1).
  apply seg_app. exists h. split; assumption.
Qed.

Lemma ring_rot nx pv h l1 m l2 :
  ring nx pv h (l1 ++ m :: l2) -> ring nx pv m (m :: l2 ++ l1).
Proof.
  intros (Hnd & _ & Hs & Hp).
  split; [|split; [|split]].
  - change (NoDup ((m :: l2) ++ l1)). now apply NoDup_rot.
  - eauto.
  - eapply seg_rot; exact Hs.
  - intros x Hx. apply Hp. change (In x ((m :: l2) ++ l1)) in Hx.
    apply in_app_or in Hx. apply in_or_app. tauto.
Qed.

(* the predecessor read through [pv] is the last node *)
Lemma ring_prev_head nx pv h s p :
  ring nx pv h (s ++ [p]) -> get pv h = p /\ get nx p = h.
Proof.
  intros (_ & _ & Hs & Hp). apply seg_snoc in Hs. destruct Hs as [_ Hn].
  split; [|exact Hn]. rewrite <- Hn. apply Hp. apply in_or_app. right. now left.
Qed.

(* --- frame ---------------------------------------------------------------------- *)
Lemma ring_frame_nx nx pv h l k v :
  ring nx pv h l -> ~ In k l -> ring (set nx k v) pv h l.
Proof.
  intros (Hnd & Ht & Hs & Hp) Hk. repeat split; auto.
  - now apply seg_frame.
  - intros x Hx. rewrite gso by (intro; subst; tauto). now apply Hp.
Qed.

Lemma ring_frame_pv nx pv h l k v :
  ring nx pv h l -> ~ In k l -> ring nx (set pv k v) h l.
Proof.
  intros R Hk. pose proof R as (Hnd & Ht & Hs & Hp). repeat split; auto.
  intros x Hx. rewrite gso; [now apply Hp|].
  intro E. apply Hk. rewrite <- E. eapply ring_closed; eauto.
Qed.

(* --- unlink the head; the ring continues at its successor ------------------------ *)
Lemma ring_unlink_head nx pv x n t :
  ring nx pv x (x :: n :: t) ->
  get nx x = n /\
  In (get pv x) (n :: t) /\
  ring (set nx (get pv x) n) (set pv n (get pv x)) n (n :: t).
Proof.
  intros R. pose proof R as (Hnd & _ & Hs & Hp).
  assert (Hn : get nx x = n) by (cbn in Hs; tauto).
  split; [exact Hn|].
  destruct (@exists_snoc _ (n :: t)) as [s [p E]]; [congruence|].
  assert (R' : ring nx pv x ((x :: s) ++ [p])).
  { cbn. rewrite <- E. exact R. }
  destruct (ring_prev_head _ _ _ _ _ R') as [Hpv Hnp]. rewrite Hpv.
  split; [rewrite E; apply in_or_app; right; now left|].
  assert (Hs' : seg nx n (n :: t) x).
  { cbn in Hs. destruct Hs as [_ Hs]. rewrite Hn in Hs. exact Hs. }
  rewrite E in Hs' |- *. rewrite E in Hnd.
  apply seg_snoc in Hs'. destruct Hs' as [Hs1 _].
  assert (Hnd' : NoDup (s ++ [p])) by (inversion Hnd; assumption).
  assert (Hps : ~ In p s).
  { apply NoDup_rot in Hnd'. cbn in Hnd'. now inversion Hnd'. }
  assert (Hxs : ~ In x (s ++ [p])) by (inversion Hnd; assumption).
  split; [exact Hnd'|]. split.
  { destruct s; cbn in E |- *; injection E as -> _; eauto. }
  split.
  - apply seg_snoc. split; [now apply seg_frame | now rewrite gss].
  - intros y Hy. destruct (N.eq_dec y p) as [->|Hyp].
    + now rewrite !gss.
    + rewrite (gso nx y p n) by exact Hyp.
      assert (Hy' : In y (x :: s ++ [p])) by now right.
      rewrite gso; [apply Hp; rewrite E; exact Hy'|].
      intro En. rewrite <- Hn in En.
      assert (y = x).
      { eapply ring_inj; [exact R | rewrite E; exact Hy' | now left | exact En]. }
      subst y. contradiction.
Qed.

(* --- insert a new node before the head (i.e. at the tail of the list) ------------- *)
Lemma ring_insert_tail nx pv h l x :
  ring nx pv h l -> ~ In x l ->
  let p := get pv h in
  In p l /\
  ring (set (set nx p x) x h) (set (set pv h x) x p) h (l ++ [x]).
Proof.
  intros R Hx. cbv zeta. remember (get pv h) as p eqn:Ep.
  pose proof R as (Hnd & [t El] & Hs & Hp).
  destruct (@exists_snoc _ l) as [s [p' E]]; [rewrite El; congruence|].
  rewrite E in R. destruct (ring_prev_head _ _ _ _ _ R) as [Hpv Hnp].
  rewrite <- E in R. rewrite <- Ep in Hpv. subst p'.
  assert (Hpl : In p l) by (rewrite E; apply in_or_app; right; now left).
  split; [exact Hpl|].
  assert (Hxp : x <> p) by (intro; subst; contradiction).
  assert (Hhl : In h l) by (rewrite El; now left).
  assert (Hxh : x <> h) by (intro; subst; contradiction).
  assert (Hnd' : NoDup (s ++ [p])) by (rewrite <- E; exact Hnd).
  assert (Hps : ~ In p s).
  { apply NoDup_rot in Hnd'. cbn in Hnd'. now inversion Hnd'. }
  assert (Hxs : ~ In x s) by (intro; apply Hx; rewrite E; apply in_or_app; now left).
  split; [|split; [|split]].
  - apply NoDup_rot. cbn. constructor; assumption.
  - rewrite El. cbn. eauto.
  - rewrite E, <- app_assoc. cbn.
    rewrite E in Hs. apply seg_snoc in Hs. destruct Hs as [Hs1 _].
    apply seg_app. exists p. split.
    + apply seg_frame; [exact Hxs|]. apply seg_frame; assumption.
    + cbn. split; [reflexivity|]. rewrite gso by congruence. rewrite gss.
      split; [reflexivity|]. now rewrite gss.
  - intros y Hy. apply in_app_or in Hy. destruct Hy as [Hy|[<-|[]]].
    + destruct (N.eq_dec y p) as [->|Hyp].
      * rewrite (gso _ p x) by congruence. rewrite gss. now rewrite gss.
      * assert (Hyx : y <> x) by (intro; subst; contradiction).
        rewrite (gso (set nx p x) y x h Hyx), (gso nx y p x Hyp).
        assert (Hc : In (get nx y) l) by (eapply ring_closed; eauto).
        rewrite gso by (intro Ee; rewrite <- Ee in Hx; contradiction).
        rewrite gso; [now apply Hp|].
        intro Ee. apply Hyp. eapply ring_inj; eauto. congruence.
    + rewrite gss. rewrite gso by congruence. now rewrite gss.
Qed.

(* --- traversal (Count) ------------------------------------------------------------ *)
(* do { count++; cur = next[cur]; } while (cur != head);  with explicit fuel *)
Fixpoint ring_walk (nx : arr N) (h cur : N) (fuel : nat) : option nat :=
  match fuel with
  | O => None
  | S f =>
      let c := get nx cur in
      if N.eqb c h then Some 1%nat
      else match ring_walk nx h c f with
           | Some k => Some (S k)
           | None => None
           end
  end.

Lemma ring_walk_seg nx h : forall l cur fuel,
  seg nx cur l h -> l <> [] -> ~ In h (tl l) -> (length l <= fuel)%nat ->
  ring_walk nx h cur fuel = Some (length l).
Proof.
  induction l as [|a l IH]; intros cur fuel Hs Hne Hh Hf; [congruence|].
  cbn in Hs. destruct Hs as [-> Hs]. cbn in Hh.
  destruct fuel as [|f]; [cbn in Hf; lia|]. cbn [ring_walk].
  destruct l as [|b l].
  - cbn in Hs. rewrite Hs, N.eqb_refl. reflexivity.
  - assert (Hb : get nx a = b) by (cbn in Hs; tauto).
    rewrite Hb. destruct (N.eqb_spec b h) as [->|Hbh].
    + exfalso. apply Hh. now left.
    + rewrite Hb in Hs. rewrite (IH b f Hs); [reflexivity | congruence | | cbn in Hf |- *; lia].
      cbn. intro Hin. apply Hh. now right.
Qed.

Lemma ring_walk_ring nx pv h l fuel :
  ring nx pv h l -> (length l <= fuel)%nat ->
  ring_walk nx h h fuel = Some (length l).
Proof.
  intros (Hnd & [t ->] & Hs & _) Hf.
  apply ring_walk_seg; auto; [congruence|]. cbn. now inversion Hnd.
Qed.
