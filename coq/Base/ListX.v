(* Base/ListX.v — small list facts missing from the 8.16 standard library. *)
From Coq Require Import List Permutation Lia.
Import ListNotations.

Lemma nodup_app_l {A} (l1 l2 : list A) : NoDup (l1 ++ l2) -> NoDup l1.
Proof.
  induction l1 as [|a l1 IH]; cbn; intro H; [constructor|].
  inversion H as [|x l Hn Hd]; subst. constructor; [|now apply IH].
  intro Hin. apply Hn. apply in_or_app. now left.
Qed.

Lemma nodup_app_r {A} (l1 l2 : list A) : NoDup (l1 ++ l2) -> NoDup l2.
Proof.
  induction l1 as [|a l1 IH]; cbn; intro H; [exact H|].
  inversion H; subst. now apply IH.
Qed.

Lemma notin_app_l {A} (x : A) l1 l2 : NoDup (l1 ++ l2) -> In x l1 -> ~ In x l2.
Proof.
  intros Hnd H1 H2. apply in_split in H1. destruct H1 as [a [c ->]].
  rewrite <- app_assoc in Hnd. cbn in Hnd. apply NoDup_remove_2 in Hnd.
  apply Hnd. apply in_or_app. right. apply in_or_app. now right.
Qed.

Lemma notin_app_r {A} (x : A) l1 l2 : NoDup (l1 ++ l2) -> In x l2 -> ~ In x l1.
Proof. intros Hnd H2 H1. eapply notin_app_l; eauto. Qed.

Lemma nodup_app_intro {A} (l1 l2 : list A) :
  NoDup l1 -> NoDup l2 -> (forall x, In x l1 -> ~ In x l2) -> NoDup (l1 ++ l2).
Proof.
  induction l1 as [|a l1 IH]; cbn; intros H1 H2 Hd; [exact H2|].
  inversion H1; subst. constructor.
  - intro Hin. apply in_app_or in Hin. destruct Hin; [tauto|]. eapply Hd; eauto.
  - apply IH; auto.
Qed.

Lemma nodup_swap_app {A} (l1 l2 : list A) : NoDup (l1 ++ l2) -> NoDup (l2 ++ l1).
Proof.
  intro H. eapply Permutation_NoDup; [apply Permutation_app_comm | exact H].
Qed.
