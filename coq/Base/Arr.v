(* Base/Arr.v — total finite maps N -> A (C++ index arrays, pointer fields, heaps).
   A read of a never-written cell returns the default; there are no length side
   conditions, frame reasoning is [gss]/[gso]. *)
From Coq Require Import NArith PArith FMapPositive List Lia.
Local Open Scope N_scope.

Module PM := PositiveMap.

Section Arr.
  Context {A : Type}.

  Record arr := mkArr { adef : A; amap : PM.t A }.

  Definition aempty (d : A) : arr := mkArr d (PM.empty A).

  Definition get (a : arr) (i : N) : A :=
    match PM.find (N.succ_pos i) (amap a) with
    | Some v => v
    | None => adef a
    end.

  Definition set (a : arr) (i : N) (v : A) : arr :=
    mkArr (adef a) (PM.add (N.succ_pos i) v (amap a)).

  Lemma get_empty d i : get (aempty d) i = d.
  Proof. unfold get, aempty; cbn. now rewrite PM.gempty. Qed.

  Lemma gss a i v : get (set a i v) i = v.
  Proof. unfold get, set; cbn. now rewrite PM.gss. Qed.

  Lemma succ_pos_inj i j : N.succ_pos i = N.succ_pos j -> i = j.
  Proof.
    intro H. apply (f_equal Npos) in H. rewrite !N.succ_pos_spec in H. lia.
  Qed.

  Lemma gso a i j v : i <> j -> get (set a j v) i = get a i.
  Proof.
    intro H. unfold get, set; cbn. rewrite PM.gso; [reflexivity|].
    intro E. apply H. now apply succ_pos_inj.
  Qed.

  Lemma get_set a i j v :
    get (set a j v) i = if N.eqb i j then v else get a i.
  Proof.
    destruct (N.eqb_spec i j) as [->|H]; [apply gss | now apply gso].
  Qed.
End Arr.

Arguments arr : clear implicits.
Global Opaque get set.
