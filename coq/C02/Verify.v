(* C02/Verify.v - the certificate checker [check] (trusted through its soundness proof,
   C02/Proofs.v), the untrusted worklist inference [infer] that produces the certificate, and
   [verify] = infer then check.  No proofs in this file.

   A certificate is a height annotation H : offset -> option astate.  [check p H] accepts when
   - every entry point (offset 0, every label, case label, catch label) is inside the program and
     annotated with the initial state (height 0, no mark) and the declared stack has room for it;
   - for every offset inside the program that is annotated with a state s, the instruction there
     is well-formed in s ([exec] = Some: decodes inside the program, references in range, no
     underflow, height 0 where the thread can end) and every successor (pc', s') is inside the
     program, annotated with exactly s' (equal heights at joins) and s' fits the declared stack
     (height < GetRequiredStackSize(): Process aborts the thread when index >= size). *)
From Coq Require Import NArith List Bool.
From Morfuse Require Import Base.Arr C02.Generated C02.Model.
Import ListNotations.
Local Open Scope N_scope.

Definition annot := arr (option astate).

Definition oastate_eqb (a : option astate) (b : astate) : bool :=
  match a with Some x => astate_eqb x b | None => false end.

Definition state_fits (p : program) (s : astate) : bool := ht s <? pstack p.

Definition succ_ok (p : program) (H : annot) (c : config) : bool :=
  (fst c <? plen p) && oastate_eqb (get H (fst c)) (snd c) && state_fits p (snd c).

Definition check_at (p : program) (H : annot) (pc : N) : bool :=
  match get H pc with
  | None => true
  | Some s =>
      match exec p pc s with
      | None => false
      | Some succs => forallb (succ_ok p H) succs
      end
  end.

Definition entry_ok (p : program) (H : annot) (e : N) : bool := succ_ok p H (e, init).

Fixpoint offsets_from (k : nat) (start : N) : list N :=
  match k with
  | O => []
  | S k' => start :: offsets_from k' (start + 1)
  end.
Definition offsets (n : N) : list N := offsets_from (N.to_nat n) 0.

Definition check (p : program) (H : annot) : bool :=
  forallb (entry_ok p H) (pentries p) && forallb (check_at p H) (offsets (plen p)).

(* ------------------------------------------------------------------ inference (untrusted) *)

Inductive verdict :=
| VOk
| VConflict (pc : N) (have want : astate)     (* two paths reach pc with different states *)
| VStuck (pc : N) (s : astate)                (* exec = None *)
| VFuel.

Fixpoint infer_loop (fuel : nat) (p : program) (H : annot) (work : list config) : annot * verdict :=
  match fuel with
  | O => (H, VFuel)
  | S f =>
      match work with
      | [] => (H, VOk)
      | (pc, s) :: rest =>
          match get H pc with
          | Some s0 => if astate_eqb s0 s then infer_loop f p H rest else (H, VConflict pc s0 s)
          | None =>
              match exec p pc s with
              | None => (H, VStuck pc s)
              | Some succs => infer_loop f p (set H pc (Some s)) (succs ++ rest)
              end
          end
      end
  end.

(* every work item is either dropped (already annotated) or annotates a fresh offset and adds the
   successors of one instruction: fuel (plen + 1) * (2 + entries + largest successor list) is ample;
   the driver may pass more *)
Definition infer (fuel : nat) (p : program) : annot * verdict :=
  infer_loop fuel p (aempty None) (map (fun e => (e, init)) (pentries p)).

Definition verify (fuel : nat) (p : program) : bool :=
  match infer fuel p with
  | (H, VOk) => check p H
  | _ => false
  end.

(* first offset (or entry) at which [check] fails, for diagnostics *)
Definition first_failure (p : program) (H : annot) : option N :=
  match find (fun e => negb (entry_ok p H e)) (pentries p) with
  | Some e => Some e
  | None => find (fun pc => negb (check_at p H pc)) (offsets (plen p))
  end.
