(* C02/Generated.v - GENERATED on every run by props/C02.py from `harness/C02 optable`, i.e. from the
   binary built from /repo's current tree (include/morfuse/Script/ScriptOpcodes.h, src/Script/ScriptOpcodes.cpp).
   Do not edit. *)
From Coq Require Import List NArith ZArith.
Import ListNotations.
Local Open Scope N_scope.

Definition OP_DONE : N := 0.  (* "OPCODE_EOF" *)
Definition OP_BOOL_JUMP_FALSE4 : N := 1.  (* "OPCODE_BOOL_JUMP_FALSE4" *)
Definition OP_BOOL_JUMP_TRUE4 : N := 2.  (* "OPCODE_BOOL_JUMP_TRUE4" *)
Definition OP_VAR_JUMP_FALSE4 : N := 3.  (* "OPCODE_VAR_JUMP_FALSE4" *)
Definition OP_VAR_JUMP_TRUE4 : N := 4.  (* "OPCODE_VAR_JUMP_TRUE4" *)
Definition OP_BOOL_LOGICAL_AND : N := 5.  (* "OPCODE_BOOL_LOGICAL_AND" *)
Definition OP_BOOL_LOGICAL_OR : N := 6.  (* "OPCODE_BOOL_LOGICAL_OR" *)
Definition OP_VAR_LOGICAL_AND : N := 7.  (* "OPCODE_VAR_LOGICAL_AND" *)
Definition OP_VAR_LOGICAL_OR : N := 8.  (* "OPCODE_VAR_LOGICAL_OR" *)
Definition OP_BOOL_TO_VAR : N := 9.  (* "OPCODE_BOOL_TO_VAR" *)
Definition OP_JUMP4 : N := 10.  (* "OPCODE_JUMP4" *)
Definition OP_JUMP_BACK4 : N := 11.  (* "OPCODE_JUMP_BACK4" *)
Definition OP_STORE_INT0 : N := 12.  (* "OPCODE_STORE_INT0" *)
Definition OP_STORE_INT1 : N := 13.  (* "OPCODE_STORE_INT1" *)
Definition OP_STORE_INT2 : N := 14.  (* "OPCODE_STORE_INT2" *)
Definition OP_STORE_INT3 : N := 15.  (* "OPCODE_STORE_INT3" *)
Definition OP_STORE_INT4 : N := 16.  (* "OPCODE_STORE_INT4" *)
Definition OP_STORE_INT8 : N := 17.  (* "OPCODE_STORE_INT4" *)
Definition OP_BOOL_STORE_FALSE : N := 18.  (* "OPCODE_BOOL_STORE_FALSE" *)
Definition OP_BOOL_STORE_TRUE : N := 19.  (* "OPCODE_BOOL_STORE_TRUE" *)
Definition OP_STORE_STRING : N := 20.  (* "OPCODE_STORE_STRING" *)
Definition OP_STORE_FLOAT : N := 21.  (* "OPCODE_STORE_FLOAT" *)
Definition OP_STORE_VECTOR : N := 22.  (* "OPCODE_STORE_VECTOR" *)
Definition OP_CALC_VECTOR : N := 23.  (* "OPCODE_CALC_VECTOR" *)
Definition OP_STORE_NULL : N := 24.  (* "OPCODE_STORE_NULL" *)
Definition OP_STORE_NIL : N := 25.  (* "OPCODE_STORE_NIL" *)
Definition OP_EXEC_CMD0 : N := 26.  (* "OPCODE_EXEC_CMD0" *)
Definition OP_EXEC_CMD1 : N := 27.  (* "OPCODE_EXEC_CMD1" *)
Definition OP_EXEC_CMD2 : N := 28.  (* "OPCODE_EXEC_CMD2" *)
Definition OP_EXEC_CMD3 : N := 29.  (* "OPCODE_EXEC_CMD3" *)
Definition OP_EXEC_CMD4 : N := 30.  (* "OPCODE_EXEC_CMD4" *)
Definition OP_EXEC_CMD5 : N := 31.  (* "OPCODE_EXEC_CMD5" *)
Definition OP_EXEC_CMD_COUNT1 : N := 32.  (* "OPCODE_EXEC_CMD_COUNT1" *)
Definition OP_EXEC_CMD_METHOD0 : N := 33.  (* "OPCODE_EXEC_CMD_METHOD0" *)
Definition OP_EXEC_CMD_METHOD1 : N := 34.  (* "OPCODE_EXEC_CMD_METHOD1" *)
Definition OP_EXEC_CMD_METHOD2 : N := 35.  (* "OPCODE_EXEC_CMD_METHOD2" *)
Definition OP_EXEC_CMD_METHOD3 : N := 36.  (* "OPCODE_EXEC_CMD_METHOD3" *)
Definition OP_EXEC_CMD_METHOD4 : N := 37.  (* "OPCODE_EXEC_CMD_METHOD4" *)
Definition OP_EXEC_CMD_METHOD5 : N := 38.  (* "OPCODE_EXEC_CMD_METHOD5" *)
Definition OP_EXEC_CMD_METHOD_COUNT1 : N := 39.  (* "OPCODE_EXEC_CMD_METHOD_COUNT1" *)
Definition OP_EXEC_METHOD0 : N := 40.  (* "OPCODE_EXEC_METHOD0" *)
Definition OP_EXEC_METHOD1 : N := 41.  (* "OPCODE_EXEC_METHOD1" *)
Definition OP_EXEC_METHOD2 : N := 42.  (* "OPCODE_EXEC_METHOD2" *)
Definition OP_EXEC_METHOD3 : N := 43.  (* "OPCODE_EXEC_METHOD3" *)
Definition OP_EXEC_METHOD4 : N := 44.  (* "OPCODE_EXEC_METHOD4" *)
Definition OP_EXEC_METHOD5 : N := 45.  (* "OPCODE_EXEC_METHOD5" *)
Definition OP_EXEC_METHOD_COUNT1 : N := 46.  (* "OPCODE_EXEC_METHOD_COUNT1" *)
Definition OP_LOAD_GAME_VAR : N := 47.  (* "OPCODE_LOAD_GAME_VAR" *)
Definition OP_LOAD_LEVEL_VAR : N := 48.  (* "OPCODE_LOAD_LEVEL_VAR" *)
Definition OP_LOAD_LOCAL_VAR : N := 49.  (* "OPCODE_LOAD_LOCAL_VAR" *)
Definition OP_LOAD_PARM_VAR : N := 50.  (* "OPCODE_LOAD_PARM_VAR" *)
Definition OP_LOAD_SELF_VAR : N := 51.  (* "OPCODE_LOAD_SELF_VAR" *)
Definition OP_LOAD_GROUP_VAR : N := 52.  (* "OPCODE_LOAD_GROUP_VAR" *)
Definition OP_LOAD_OWNER_VAR : N := 53.  (* "OPCODE_LOAD_OWNER_VAR" *)
Definition OP_LOAD_FIELD_VAR : N := 54.  (* "OPCODE_LOAD_FIELD_VAR" *)
Definition OP_LOAD_ARRAY_VAR : N := 55.  (* "OPCODE_LOAD_ARRAY_VAR" *)
Definition OP_LOAD_CONST_ARRAY1 : N := 56.  (* "OPCODE_LOAD_CONST_ARRAY1" *)
Definition OP_STORE_FIELD_REF : N := 57.  (* "OPCODE_STORE_FIELD_REF" *)
Definition OP_STORE_ARRAY_REF : N := 58.  (* "OPCODE_STORE_ARRAY_REF" *)
Definition OP_MARK_STACK_POS : N := 59.  (* "OPCODE_MARK_STACK_POS" *)
Definition OP_STORE_PARAM : N := 60.  (* "OPCODE_STORE_PARAM" *)
Definition OP_RESTORE_STACK_POS : N := 61.  (* "OPCODE_RESTORE_STACK_POS" *)
Definition OP_LOAD_STORE_GAME_VAR : N := 62.  (* "OPCODE_LOAD_STORE_GAME_VAR" *)
Definition OP_LOAD_STORE_LEVEL_VAR : N := 63.  (* "OPCODE_LOAD_STORE_LEVEL_VAR" *)
Definition OP_LOAD_STORE_LOCAL_VAR : N := 64.  (* "OPCODE_LOAD_STORE_LOCAL_VAR" *)
Definition OP_LOAD_STORE_PARM_VAR : N := 65.  (* "OPCODE_LOAD_STORE_PARM_VAR" *)
Definition OP_LOAD_STORE_SELF_VAR : N := 66.  (* "OPCODE_LOAD_STORE_SELF_VAR" *)
Definition OP_LOAD_STORE_GROUP_VAR : N := 67.  (* "OPCODE_LOAD_STORE_GROUP_VAR" *)
Definition OP_LOAD_STORE_OWNER_VAR : N := 68.  (* "OPCODE_LOAD_STORE_OWNER_VAR" *)
Definition OP_STORE_GAME_VAR : N := 69.  (* "OPCODE_STORE_GAME_VAR" *)
Definition OP_STORE_LEVEL_VAR : N := 70.  (* "OPCODE_STORE_LEVEL_VAR" *)
Definition OP_STORE_LOCAL_VAR : N := 71.  (* "OPCODE_STORE_LOCAL_VAR" *)
Definition OP_STORE_PARM_VAR : N := 72.  (* "OPCODE_STORE_PARM_VAR" *)
Definition OP_STORE_SELF_VAR : N := 73.  (* "OPCODE_STORE_SELF_VAR" *)
Definition OP_STORE_GROUP_VAR : N := 74.  (* "OPCODE_STORE_GROUP_VAR" *)
Definition OP_STORE_OWNER_VAR : N := 75.  (* "OPCODE_STORE_OWNER_VAR" *)
Definition OP_STORE_FIELD : N := 76.  (* "OPCODE_STORE_FIELD" *)
Definition OP_STORE_ARRAY : N := 77.  (* "OPCODE_STORE_ARRAY" *)
Definition OP_STORE_GAME : N := 78.  (* "OPCODE_STORE_GAME" *)
Definition OP_STORE_LEVEL : N := 79.  (* "OPCODE_STORE_LEVEL" *)
Definition OP_STORE_LOCAL : N := 80.  (* "OPCODE_STORE_LOCAL" *)
Definition OP_STORE_PARM : N := 81.  (* "OPCODE_STORE_PARM" *)
Definition OP_STORE_SELF : N := 82.  (* "OPCODE_STORE_SELF" *)
Definition OP_STORE_GROUP : N := 83.  (* "OPCODE_STORE_GROUP" *)
Definition OP_STORE_OWNER : N := 84.  (* "OPCODE_STORE_OWNER" *)
Definition OP_BIN_BITWISE_AND : N := 85.  (* "OPCODE_BIN_BITWISE_AND" *)
Definition OP_BIN_BITWISE_OR : N := 86.  (* "OPCODE_BIN_BITWISE_OR" *)
Definition OP_BIN_BITWISE_EXCL_OR : N := 87.  (* "OPCODE_BIN_BITWISE_EXCL_OR" *)
Definition OP_BIN_EQUALITY : N := 88.  (* "OPCODE_BIN_EQUALITY" *)
Definition OP_BIN_INEQUALITY : N := 89.  (* "OPCODE_BIN_INEQUALITY" *)
Definition OP_BIN_LESS_THAN : N := 90.  (* "OPCODE_BIN_LESS_THAN" *)
Definition OP_BIN_GREATER_THAN : N := 91.  (* "OPCODE_BIN_GREATER_THAN" *)
Definition OP_BIN_LESS_THAN_OR_EQUAL : N := 92.  (* "OPCODE_BIN_LESS_THAN_OR_EQUAL" *)
Definition OP_BIN_GREATER_THAN_OR_EQUAL : N := 93.  (* "OPCODE_BIN_GREATER_THAN_OR_EQUAL" *)
Definition OP_BIN_PLUS : N := 94.  (* "OPCODE_BIN_PLUS" *)
Definition OP_BIN_MINUS : N := 95.  (* "OPCODE_BIN_MINUS" *)
Definition OP_BIN_MULTIPLY : N := 96.  (* "OPCODE_BIN_MULTIPLY" *)
Definition OP_BIN_DIVIDE : N := 97.  (* "OPCODE_BIN_DIVIDE" *)
Definition OP_BIN_PERCENTAGE : N := 98.  (* "OPCODE_BIN_PERCENTAGE" *)
Definition OP_UN_MINUS : N := 99.  (* "OPCODE_UN_MINUS" *)
Definition OP_UN_COMPLEMENT : N := 100.  (* "OPCODE_UN_COMPLEMENT" *)
Definition OP_UN_TARGETNAME : N := 101.  (* "OPCODE_UN_TARGETNAME" *)
Definition OP_BOOL_UN_NOT : N := 102.  (* "OPCODE_BOOL_UN_NOT" *)
Definition OP_VAR_UN_NOT : N := 103.  (* "OPCODE_VAR_UN_NOT" *)
Definition OP_UN_CAST_BOOLEAN : N := 104.  (* "OPCODE_UN_CAST_BOOLEAN" *)
Definition OP_UN_INC : N := 105.  (* "OPCODE_UN_INC" *)
Definition OP_UN_DEC : N := 106.  (* "OPCODE_UN_DEC" *)
Definition OP_UN_SIZE : N := 107.  (* "OPCODE_UN_SIZE" *)
Definition OP_SWITCH : N := 108.  (* "OPCODE_SWITCH" *)
Definition OP_FUNC : N := 109.  (* "OPCODE_FUNC" *)
Definition OP_NOP : N := 110.  (* "OPCODE_NOP" *)
Definition OP_BIN_SHIFT_LEFT : N := 111.  (* "OPCODE_BIN_SHIFT_LEFT" *)
Definition OP_BIN_SHIFT_RIGHT : N := 112.  (* "OPCODE_BIN_SHIFT_RIGHT" *)
Definition OP_END : N := 113.  (* "OPCODE_END" *)
Definition OP_RETURN : N := 114.  (* "OPCODE_RETURN" *)
Definition OP_PREVIOUS : N := 115.
Definition OP_MAX : N := 116.

Definition sz_opval_t : N := 1.
Definition sz_op_offset_t : N := 4.
Definition sz_op_name_t : N := 4.
Definition sz_op_evName_t : N := 4.
Definition sz_op_ev_t : N := 4.
Definition sz_op_parmNum_t : N := 1.
Definition sz_op_arrayParmNum_t : N := 2.
Definition sz_bool : N := 1.
Definition sz_uint8_t : N := 1.
Definition sz_uint16_t : N := 2.
Definition sz_short3 : N := 3.
Definition sz_uint32_t : N := 4.
Definition sz_uint64_t : N := 8.
Definition sz_float : N := 4.
Definition sz_Vector : N := 12.
Definition sz_StateScriptPtr : N := 8.

(* opcode, OpcodeLength, OpcodeVarStackOffset, IsExternalOpcode *)
Definition optable : list (N * (N * Z * bool)) := [
  (OP_DONE, (0, 0%Z, false));
  (OP_BOOL_JUMP_FALSE4, (5, (-1)%Z, false));
  (OP_BOOL_JUMP_TRUE4, (5, (-1)%Z, false));
  (OP_VAR_JUMP_FALSE4, (5, (-1)%Z, false));
  (OP_VAR_JUMP_TRUE4, (5, (-1)%Z, false));
  (OP_BOOL_LOGICAL_AND, (5, (-1)%Z, false));
  (OP_BOOL_LOGICAL_OR, (5, (-1)%Z, false));
  (OP_VAR_LOGICAL_AND, (5, (-1)%Z, false));
  (OP_VAR_LOGICAL_OR, (5, (-1)%Z, false));
  (OP_BOOL_TO_VAR, (0, 0%Z, false));
  (OP_JUMP4, (5, 0%Z, false));
  (OP_JUMP_BACK4, (5, 0%Z, false));
  (OP_STORE_INT0, (1, 1%Z, false));
  (OP_STORE_INT1, (2, 1%Z, false));
  (OP_STORE_INT2, (3, 1%Z, false));
  (OP_STORE_INT3, (4, 1%Z, false));
  (OP_STORE_INT4, (5, 1%Z, false));
  (OP_STORE_INT8, (9, 1%Z, false));
  (OP_BOOL_STORE_FALSE, (1, 1%Z, false));
  (OP_BOOL_STORE_TRUE, (1, 1%Z, false));
  (OP_STORE_STRING, (5, 1%Z, false));
  (OP_STORE_FLOAT, (5, 1%Z, false));
  (OP_STORE_VECTOR, (13, 1%Z, false));
  (OP_CALC_VECTOR, (1, (-2)%Z, false));
  (OP_STORE_NULL, (1, 1%Z, false));
  (OP_STORE_NIL, (1, 1%Z, false));
  (OP_EXEC_CMD0, (5, 0%Z, true));
  (OP_EXEC_CMD1, (5, (-1)%Z, true));
  (OP_EXEC_CMD2, (5, (-2)%Z, true));
  (OP_EXEC_CMD3, (5, (-3)%Z, true));
  (OP_EXEC_CMD4, (5, (-4)%Z, true));
  (OP_EXEC_CMD5, (5, (-5)%Z, true));
  (OP_EXEC_CMD_COUNT1, (6, (-128)%Z, true));
  (OP_EXEC_CMD_METHOD0, (5, (-1)%Z, true));
  (OP_EXEC_CMD_METHOD1, (5, (-2)%Z, true));
  (OP_EXEC_CMD_METHOD2, (5, (-3)%Z, true));
  (OP_EXEC_CMD_METHOD3, (5, (-4)%Z, true));
  (OP_EXEC_CMD_METHOD4, (5, (-5)%Z, true));
  (OP_EXEC_CMD_METHOD5, (5, (-6)%Z, true));
  (OP_EXEC_CMD_METHOD_COUNT1, (6, (-128)%Z, true));
  (OP_EXEC_METHOD0, (5, 0%Z, true));
  (OP_EXEC_METHOD1, (5, (-1)%Z, true));
  (OP_EXEC_METHOD2, (5, (-2)%Z, true));
  (OP_EXEC_METHOD3, (5, (-3)%Z, true));
  (OP_EXEC_METHOD4, (5, (-4)%Z, true));
  (OP_EXEC_METHOD5, (5, (-5)%Z, true));
  (OP_EXEC_METHOD_COUNT1, (6, (-128)%Z, true));
  (OP_LOAD_GAME_VAR, (9, (-1)%Z, false));
  (OP_LOAD_LEVEL_VAR, (9, (-1)%Z, false));
  (OP_LOAD_LOCAL_VAR, (9, (-1)%Z, false));
  (OP_LOAD_PARM_VAR, (9, (-1)%Z, false));
  (OP_LOAD_SELF_VAR, (9, (-1)%Z, false));
  (OP_LOAD_GROUP_VAR, (9, (-1)%Z, false));
  (OP_LOAD_OWNER_VAR, (9, (-1)%Z, false));
  (OP_LOAD_FIELD_VAR, (9, (-2)%Z, false));
  (OP_LOAD_ARRAY_VAR, (1, (-3)%Z, false));
  (OP_LOAD_CONST_ARRAY1, (3, (-128)%Z, false));
  (OP_STORE_FIELD_REF, (5, 0%Z, false));
  (OP_STORE_ARRAY_REF, (1, (-1)%Z, false));
  (OP_MARK_STACK_POS, (1, 0%Z, false));
  (OP_STORE_PARAM, (1, 1%Z, false));
  (OP_RESTORE_STACK_POS, (1, 0%Z, false));
  (OP_LOAD_STORE_GAME_VAR, (9, 0%Z, false));
  (OP_LOAD_STORE_LEVEL_VAR, (9, 0%Z, false));
  (OP_LOAD_STORE_LOCAL_VAR, (9, 0%Z, false));
  (OP_LOAD_STORE_PARM_VAR, (9, 0%Z, false));
  (OP_LOAD_STORE_SELF_VAR, (9, 0%Z, false));
  (OP_LOAD_STORE_GROUP_VAR, (9, 0%Z, false));
  (OP_LOAD_STORE_OWNER_VAR, (9, 0%Z, false));
  (OP_STORE_GAME_VAR, (9, 1%Z, false));
  (OP_STORE_LEVEL_VAR, (9, 1%Z, false));
  (OP_STORE_LOCAL_VAR, (9, 1%Z, false));
  (OP_STORE_PARM_VAR, (9, 1%Z, false));
  (OP_STORE_SELF_VAR, (9, 1%Z, false));
  (OP_STORE_GROUP_VAR, (9, 1%Z, false));
  (OP_STORE_OWNER_VAR, (9, 1%Z, false));
  (OP_STORE_FIELD, (9, 0%Z, false));
  (OP_STORE_ARRAY, (1, (-1)%Z, false));
  (OP_STORE_GAME, (1, 1%Z, false));
  (OP_STORE_LEVEL, (1, 1%Z, false));
  (OP_STORE_LOCAL, (1, 1%Z, false));
  (OP_STORE_PARM, (1, 1%Z, false));
  (OP_STORE_SELF, (1, 1%Z, false));
  (OP_STORE_GROUP, (1, 1%Z, false));
  (OP_STORE_OWNER, (1, 1%Z, false));
  (OP_BIN_BITWISE_AND, (1, (-1)%Z, false));
  (OP_BIN_BITWISE_OR, (1, (-1)%Z, false));
  (OP_BIN_BITWISE_EXCL_OR, (1, (-1)%Z, false));
  (OP_BIN_EQUALITY, (1, (-1)%Z, false));
  (OP_BIN_INEQUALITY, (1, (-1)%Z, false));
  (OP_BIN_LESS_THAN, (1, (-1)%Z, false));
  (OP_BIN_GREATER_THAN, (1, (-1)%Z, false));
  (OP_BIN_LESS_THAN_OR_EQUAL, (1, (-1)%Z, false));
  (OP_BIN_GREATER_THAN_OR_EQUAL, (1, (-1)%Z, false));
  (OP_BIN_PLUS, (1, (-1)%Z, false));
  (OP_BIN_MINUS, (1, (-1)%Z, false));
  (OP_BIN_MULTIPLY, (1, (-1)%Z, false));
  (OP_BIN_DIVIDE, (1, (-1)%Z, false));
  (OP_BIN_PERCENTAGE, (1, (-1)%Z, false));
  (OP_UN_MINUS, (1, 0%Z, false));
  (OP_UN_COMPLEMENT, (1, 0%Z, false));
  (OP_UN_TARGETNAME, (1, 0%Z, false));
  (OP_BOOL_UN_NOT, (1, 0%Z, false));
  (OP_VAR_UN_NOT, (1, 0%Z, false));
  (OP_UN_CAST_BOOLEAN, (1, 0%Z, false));
  (OP_UN_INC, (1, 0%Z, false));
  (OP_UN_DEC, (1, 0%Z, false));
  (OP_UN_SIZE, (1, 0%Z, false));
  (OP_SWITCH, (9, (-1)%Z, false));
  (OP_FUNC, (11, (-128)%Z, true));
  (OP_NOP, (1, 0%Z, false));
  (OP_BIN_SHIFT_LEFT, (1, (-1)%Z, false));
  (OP_BIN_SHIFT_RIGHT, (1, (-1)%Z, false));
  (OP_END, (1, (-1)%Z, false));
  (OP_RETURN, (1, (-1)%Z, false))
].

(* numbers of the events that move the code position of the thread that executes them or end it:
   end=52, goto=56, throw=31, delaythrow=30, delete=22, remove=24, immediateremove=23, killclass=64, removeclass=65 *)
Definition ev_end : N := 52.
Definition ev_goto : N := 56.
Definition ev_throw : N := 31.
Definition ev_delaythrow : N := 30.
Definition ev_delete : N := 22.
Definition ev_remove : N := 24.
Definition ev_immediateremove : N := 23.
Definition ev_killclass : N := 64.
Definition ev_removeclass : N := 65.
Definition control_events : list N := [ev_end; ev_goto; ev_throw; ev_delaythrow; ev_delete; ev_remove; ev_immediateremove; ev_killclass; ev_removeclass].
