(* C02/Model.v - the abstract instruction set of the script VM, derived from
   ScriptVM::Process / ExecCmdCommon / ExecCmdMethodCommon / ExecMethodCommon / ExecFunction /
   loadTop / storeTop / loadStoreTop / doJumpIf / doJumpVarIf / Switch
   (src/Script/ScriptVMOperation.cpp, src/Script/ScriptVM.cpp).

   Modelled, per opcode, exactly as the VM does it:
   - which operand bytes are read (ReadOpcodeValue<T> advances by sizeof T, ReadGetOpcodeValue<T>
     does not: OP_JUMP_BACK4 and OP_SWITCH; skipField = name + event name); the sizes are the
     sizeof's of the running binary (Generated.v), multi-byte operands are little-endian;
   - the successors: fall-through, `m_CodePos += offset` after the 4-byte offset was consumed,
     `m_CodePos -= offset` with the offset NOT consumed (OP_JUMP_BACK4), the labels of the switch
     table whose address is the pointer-sized operand of OP_SWITCH or 8 bytes further when no label
     matches, no successor for OP_DONE;
   - the effect on the operand stack on the normal path: ScriptStack keeps `pTop`, height =
     pTop - localStack (GetIndex); Pop/Push move pTop; an instruction that only reads GetTop needs
     one element; command opcodes pop their parameter count (an operand for the ..._COUNT1 forms),
     the receiver (METHOD forms) and push the result (EXEC_METHOD forms);
     OP_MARK_STACK_POS remembers the height, OP_STORE_PARAM moves the top to mark + 1 (or into the
     event's own data - then the index is meaningless until the next OP_RESTORE_STACK_POS),
     OP_RESTORE_STACK_POS returns to the mark;
   - the references: string indices 1..dictionary size, event-name indices 0..name-table size
     (0 = none), event numbers 1..number of events, the switch pointer must be one of the program's
     switch tables;
   - commands whose event is one of Generated.control_events (end, goto, throw, delaythrow, delete,
     remove, immediateremove, killclass, removeclass) end the thread or continue at a label / catch
     label: they need the stack height 0 that every entry has.
   Opcodes the interpreter has no case for (OP_BOOL_TO_VAR, OP_END, OP_RETURN, OP_PREVIOUS, anything
   >= OP_MAX fall into `default:` which prints "unknown opcode") are NOT well-formed code: exec = None.

   Abstracted: values (only the height and the mark are kept), which branch is taken (all are
   successors), what commands do besides moving the code position, run-time script errors (the
   error paths are ErrModel, below, and the theorems about them are separate).

   [exec_err] lists, for each instruction, where a script error raised inside it leaves the code
   position and the stack (the hand-written catch blocks and the code before the throw). *)
From Coq Require Import NArith ZArith List Bool.
From Morfuse Require Import Base.Arr C02.Generated.
Import ListNotations.
Local Open Scope N_scope.

(* ------------------------------------------------------------------ programs *)

Record program := mkProgram {
  pcode : arr N;                       (* code bytes, GetProgBuffer()[0 .. plen) *)
  plen : N;                            (* GetProgLength() *)
  pstack : N;                          (* GetRequiredStackSize() = slots allocated per thread *)
  pnstr : N;                           (* size of the string dictionary *)
  pnevname : N;                        (* size of the event-name table *)
  pnev : N;                            (* number of events *)
  pswitch : list (N * list N);         (* address of each switch StateScript, its case offsets *)
  pentries : list N                    (* offset 0, every label (public, private), case and catch label *)
}.

Fixpoint fill (a : arr N) (i : N) (l : list N) : arr N :=
  match l with
  | [] => a
  | b :: r => fill (set a i b) (i + 1) r
  end.
Definition code_of_list (l : list N) : arr N := fill (aempty 0) 0 l.

Definition byte (p : program) (i : N) : option N :=
  if i <? plen p then Some (get (pcode p) i) else None.

(* n bytes at off, little-endian *)
Fixpoint read_le (p : program) (off : N) (n : nat) : option N :=
  match n with
  | O => Some 0
  | S k => match byte p off, read_le p (off + 1) k with
           | Some b, Some r => Some (b + 256 * r)
           | _, _ => None
           end
  end.
Definition rd (p : program) (off sz : N) : option N := read_le p off (N.to_nat sz).

(* ------------------------------------------------------------------ abstract states *)

Record astate := mkA { ht : N; mk : option N }.
Definition init : astate := mkA 0 None.

Definition optN_eqb (a b : option N) : bool :=
  match a, b with
  | None, None => true
  | Some x, Some y => x =? y
  | _, _ => false
  end.
Definition astate_eqb (a b : astate) : bool := (ht a =? ht b) && optN_eqb (mk a) (mk b).

(* pop [pops] then push [pushes] *)
Definition adj (s : astate) (pops pushes : N) : option astate :=
  if pops <=? ht s then Some (mkA (ht s - pops + pushes) (mk s)) else None.

(* ------------------------------------------------------------------ shapes *)

Inductive shape :=
| ShEnd                                   (* OP_DONE: End(), the thread is deleted *)
| ShPlain (operand pops pushes : N)       (* operand bytes that are no references *)
| ShStr (pops pushes : N)                 (* op_name_t: string index *)
| ShField (pops pushes : N)               (* op_name_t string index, op_evName_t event name *)
| ShCondJump                              (* Pop; offset; fall through or jump forward *)
| ShLogJump                               (* offset; jump keeps the top, fall through pops it *)
| ShJump
| ShJumpBack
| ShCmd (fixed : option N) (recv ret : bool)  (* [parmNum operand] op_ev_t; pops parms (+ receiver), pushes result *)
| ShConstArray                            (* op_arrayParmNum_t n; PopAndGet(n - 1) *)
| ShMark | ShParam | ShRestore
| ShSwitch                                (* StateScript pointer, not consumed unless no label matches *)
| ShFunc                                  (* bool; [file] label; parmNum *)
| ShUnknown.

Definition bin := ShPlain 0 2 1.          (* Pop a; GetTop b *)
Definition un := ShPlain 0 1 1.           (* GetTop *)
Definition lit (operand : N) := ShPlain operand 0 1.   (* PushAndGet *)

Definition shapes : list (N * shape) := [
  (OP_DONE, ShEnd);
  (OP_BOOL_JUMP_FALSE4, ShCondJump); (OP_BOOL_JUMP_TRUE4, ShCondJump);
  (OP_VAR_JUMP_FALSE4, ShCondJump); (OP_VAR_JUMP_TRUE4, ShCondJump);
  (OP_BOOL_LOGICAL_AND, ShLogJump); (OP_BOOL_LOGICAL_OR, ShLogJump);
  (OP_VAR_LOGICAL_AND, ShLogJump); (OP_VAR_LOGICAL_OR, ShLogJump);
  (OP_JUMP4, ShJump); (OP_JUMP_BACK4, ShJumpBack);
  (OP_STORE_INT0, lit 0); (OP_STORE_INT1, lit sz_uint8_t); (OP_STORE_INT2, lit sz_uint16_t);
  (OP_STORE_INT3, lit sz_short3); (OP_STORE_INT4, lit sz_uint32_t); (OP_STORE_INT8, lit sz_uint64_t);
  (OP_BOOL_STORE_FALSE, lit 0); (OP_BOOL_STORE_TRUE, lit 0);
  (OP_STORE_STRING, ShStr 0 1); (OP_STORE_FLOAT, lit sz_float); (OP_STORE_VECTOR, lit sz_Vector);
  (OP_CALC_VECTOR, ShPlain 0 3 1);
  (OP_STORE_NULL, lit 0); (OP_STORE_NIL, lit 0);
  (OP_EXEC_CMD0, ShCmd (Some 0) false false); (OP_EXEC_CMD1, ShCmd (Some 1) false false);
  (OP_EXEC_CMD2, ShCmd (Some 2) false false); (OP_EXEC_CMD3, ShCmd (Some 3) false false);
  (OP_EXEC_CMD4, ShCmd (Some 4) false false); (OP_EXEC_CMD5, ShCmd (Some 5) false false);
  (OP_EXEC_CMD_COUNT1, ShCmd None false false);
  (OP_EXEC_CMD_METHOD0, ShCmd (Some 0) true false); (OP_EXEC_CMD_METHOD1, ShCmd (Some 1) true false);
  (OP_EXEC_CMD_METHOD2, ShCmd (Some 2) true false); (OP_EXEC_CMD_METHOD3, ShCmd (Some 3) true false);
  (OP_EXEC_CMD_METHOD4, ShCmd (Some 4) true false); (OP_EXEC_CMD_METHOD5, ShCmd (Some 5) true false);
  (OP_EXEC_CMD_METHOD_COUNT1, ShCmd None true false);
  (OP_EXEC_METHOD0, ShCmd (Some 0) true true); (OP_EXEC_METHOD1, ShCmd (Some 1) true true);
  (OP_EXEC_METHOD2, ShCmd (Some 2) true true); (OP_EXEC_METHOD3, ShCmd (Some 3) true true);
  (OP_EXEC_METHOD4, ShCmd (Some 4) true true); (OP_EXEC_METHOD5, ShCmd (Some 5) true true);
  (OP_EXEC_METHOD_COUNT1, ShCmd None true true);
  (OP_LOAD_GAME_VAR, ShField 1 0); (OP_LOAD_LEVEL_VAR, ShField 1 0); (OP_LOAD_LOCAL_VAR, ShField 1 0);
  (OP_LOAD_PARM_VAR, ShField 1 0); (OP_LOAD_SELF_VAR, ShField 1 0); (OP_LOAD_GROUP_VAR, ShField 1 0);
  (OP_LOAD_OWNER_VAR, ShField 1 0);
  (OP_LOAD_FIELD_VAR, ShField 2 0);
  (OP_LOAD_ARRAY_VAR, ShPlain 0 3 0);
  (OP_LOAD_CONST_ARRAY1, ShConstArray);
  (OP_STORE_FIELD_REF, ShField 1 1);
  (OP_STORE_ARRAY_REF, ShPlain 0 2 1);
  (OP_MARK_STACK_POS, ShMark); (OP_STORE_PARAM, ShParam); (OP_RESTORE_STACK_POS, ShRestore);
  (OP_LOAD_STORE_GAME_VAR, ShField 1 1); (OP_LOAD_STORE_LEVEL_VAR, ShField 1 1);
  (OP_LOAD_STORE_LOCAL_VAR, ShField 1 1); (OP_LOAD_STORE_PARM_VAR, ShField 1 1);
  (OP_LOAD_STORE_SELF_VAR, ShField 1 1); (OP_LOAD_STORE_GROUP_VAR, ShField 1 1);
  (OP_LOAD_STORE_OWNER_VAR, ShField 1 1);
  (OP_STORE_GAME_VAR, ShField 0 1); (OP_STORE_LEVEL_VAR, ShField 0 1); (OP_STORE_LOCAL_VAR, ShField 0 1);
  (OP_STORE_PARM_VAR, ShField 0 1); (OP_STORE_SELF_VAR, ShField 0 1); (OP_STORE_GROUP_VAR, ShField 0 1);
  (OP_STORE_OWNER_VAR, ShField 0 1);
  (OP_STORE_FIELD, ShField 1 1);
  (OP_STORE_ARRAY, ShPlain 0 2 1);
  (OP_STORE_GAME, lit 0); (OP_STORE_LEVEL, lit 0); (OP_STORE_LOCAL, lit 0); (OP_STORE_PARM, lit 0);
  (OP_STORE_SELF, lit 0); (OP_STORE_GROUP, lit 0); (OP_STORE_OWNER, lit 0);
  (OP_BIN_BITWISE_AND, bin); (OP_BIN_BITWISE_OR, bin); (OP_BIN_BITWISE_EXCL_OR, bin);
  (OP_BIN_EQUALITY, bin); (OP_BIN_INEQUALITY, bin); (OP_BIN_LESS_THAN, bin); (OP_BIN_GREATER_THAN, bin);
  (OP_BIN_LESS_THAN_OR_EQUAL, bin); (OP_BIN_GREATER_THAN_OR_EQUAL, bin); (OP_BIN_PLUS, bin);
  (OP_BIN_MINUS, bin); (OP_BIN_MULTIPLY, bin); (OP_BIN_DIVIDE, bin); (OP_BIN_PERCENTAGE, bin);
  (OP_UN_MINUS, un); (OP_UN_COMPLEMENT, un); (OP_UN_TARGETNAME, un); (OP_BOOL_UN_NOT, un);
  (OP_VAR_UN_NOT, un); (OP_UN_CAST_BOOLEAN, un); (OP_UN_INC, un); (OP_UN_DEC, un); (OP_UN_SIZE, un);
  (OP_SWITCH, ShSwitch);
  (OP_FUNC, ShFunc);
  (OP_NOP, ShPlain 0 0 0);
  (OP_BIN_SHIFT_LEFT, bin); (OP_BIN_SHIFT_RIGHT, bin)
].

Fixpoint assoc {A} (l : list (N * A)) (k : N) : option A :=
  match l with
  | [] => None
  | (k', v) :: r => if k =? k' then Some v else assoc r k
  end.

Definition shape_of (op : N) : shape :=
  match assoc shapes op with Some s => s | None => ShUnknown end.

(* ------------------------------------------------------------------ references *)

Definition valid_str (p : program) (i : N) : bool := (1 <=? i) && (i <=? pnstr p).
Definition valid_evname (p : program) (i : N) : bool := i <=? pnevname p.
Definition valid_ev (p : program) (i : N) : bool := (1 <=? i) && (i <=? pnev p).
Definition is_control (ev : N) : bool := existsb (N.eqb ev) control_events.
Definition astate_is_init (s : astate) : bool := (ht s =? 0) && optN_eqb (mk s) None.

(* ------------------------------------------------------------------ one instruction *)

Definition config := (N * astate)%type.

Definition opt_bind {A B} (o : option A) (f : A -> option B) : option B :=
  match o with Some a => f a | None => None end.
Notation "'do' x <- o ; r" := (opt_bind o (fun x => r)) (at level 200, x name, o at level 100, r at level 200).
Notation "'doif' b ; r" := (if b then r else None) (at level 200, b at level 100, r at level 200).

Definition exec_shape (p : program) (pc : N) (s : astate) (sh : shape) : option (list config) :=
  match sh with
  | ShEnd => doif astate_is_init s; Some []
  | ShPlain operand pops pushes =>
      doif (pc + 1 + operand <=? plen p);
      do s' <- adj s pops pushes;
      Some [(pc + 1 + operand, s')]
  | ShStr pops pushes =>
      do i <- rd p (pc + 1) sz_op_name_t;
      doif valid_str p i;
      do s' <- adj s pops pushes;
      Some [(pc + 1 + sz_op_name_t, s')]
  | ShField pops pushes =>
      do i <- rd p (pc + 1) sz_op_name_t;
      do e <- rd p (pc + 1 + sz_op_name_t) sz_op_evName_t;
      doif valid_str p i;
      doif valid_evname p e;
      do s' <- adj s pops pushes;
      Some [(pc + 1 + sz_op_name_t + sz_op_evName_t, s')]
  | ShCondJump =>
      do off <- rd p (pc + 1) sz_op_offset_t;
      do s' <- adj s 1 0;
      Some [(pc + 1 + sz_op_offset_t, s'); (pc + 1 + sz_op_offset_t + off, s')]
  | ShLogJump =>
      do off <- rd p (pc + 1) sz_op_offset_t;
      do s' <- adj s 1 0;
      Some [(pc + 1 + sz_op_offset_t + off, s); (pc + 1 + sz_op_offset_t, s')]
  | ShJump =>
      do off <- rd p (pc + 1) sz_op_offset_t;
      Some [(pc + 1 + sz_op_offset_t + off, s)]
  | ShJumpBack =>
      do off <- rd p (pc + 1) sz_op_offset_t;
      doif (off <=? pc + 1);
      Some [(pc + 1 - off, s)]
  | ShCmd fixed recv ret =>
      do nq <- match fixed with
               | Some n => Some (n, pc + 1)
               | None => do n <- rd p (pc + 1) sz_op_parmNum_t; Some (n, pc + 1 + sz_op_parmNum_t)
               end;
      let (n, evpos) := nq in
      do ev <- rd p evpos sz_op_ev_t;
      doif valid_ev p ev;
      do s' <- adj s (n + (if recv then 1 else 0)) (if ret then 1 else 0);
      if is_control ev
      then doif astate_is_init s';
           Some ((evpos + sz_op_ev_t, s') :: map (fun e => (e, init)) (pentries p))
      else Some [(evpos + sz_op_ev_t, s')]
  | ShConstArray =>
      do n <- rd p (pc + 1) sz_op_arrayParmNum_t;
      do s' <- (if n =? 0 then adj s 0 1 else adj s n 1);
      Some [(pc + 1 + sz_op_arrayParmNum_t, s')]
  | ShMark => Some [(pc + 1, mkA (ht s) (Some (ht s)))]
  | ShParam =>
      match mk s with
      | Some m => Some [(pc + 1, mkA (m + 1) (Some m))]
      | None => None
      end
  | ShRestore =>
      match mk s with
      | Some m => Some [(pc + 1, mkA m None)]
      | None => None
      end
  | ShSwitch =>
      do a <- rd p (pc + 1) sz_StateScriptPtr;
      do tbl <- assoc (pswitch p) a;
      do s' <- adj s 1 0;
      Some ((pc + 1 + sz_StateScriptPtr, s') :: map (fun o => (o, s')) tbl)
  | ShFunc =>
      do b <- rd p (pc + 1) sz_bool;
      if b =? 0
      then do l <- rd p (pc + 1 + sz_bool) sz_op_name_t;
           do n <- rd p (pc + 1 + sz_bool + sz_op_name_t) sz_op_parmNum_t;
           doif valid_str p l;
           do s' <- adj s (n + 1) 1;
           Some [(pc + 1 + sz_bool + sz_op_name_t + sz_op_parmNum_t, s')]
      else do f <- rd p (pc + 1 + sz_bool) sz_op_name_t;
           do l <- rd p (pc + 1 + sz_bool + sz_op_name_t) sz_op_name_t;
           do n <- rd p (pc + 1 + sz_bool + sz_op_name_t + sz_op_name_t) sz_op_parmNum_t;
           doif valid_str p f;
           doif valid_str p l;
           do s' <- adj s (n + 1) 1;
           Some [(pc + 1 + sz_bool + sz_op_name_t + sz_op_name_t + sz_op_parmNum_t, s')]
  | ShUnknown => None
  end.

(* None = the instruction at pc is not well-formed in state s (decodes outside the program,
   dangling reference, stack underflow, end of thread with a non-empty stack, no interpreter case) *)
Definition exec (p : program) (pc : N) (s : astate) : option (list config) :=
  do op <- byte p pc;
  exec_shape p pc s (shape_of op).

(* ------------------------------------------------------------------ the table's view *)

(* encoded length when it does not depend on operands *)
Definition shape_len (sh : shape) : option N :=
  match sh with
  | ShEnd => Some 1
  | ShPlain operand _ _ => Some (operand + 1)
  | ShStr _ _ => Some (1 + sz_op_name_t)
  | ShField _ _ => Some (1 + sz_op_name_t + sz_op_evName_t)
  | ShCondJump | ShLogJump | ShJump | ShJumpBack => Some (1 + sz_op_offset_t)
  | ShCmd (Some _) _ _ => Some (1 + sz_op_ev_t)
  | ShCmd None _ _ => Some (1 + sz_op_parmNum_t + sz_op_ev_t)
  | ShConstArray => Some (1 + sz_op_arrayParmNum_t)
  | ShMark | ShParam | ShRestore => Some 1
  | ShSwitch => Some (1 + sz_StateScriptPtr)
  | ShFunc => None
  | ShUnknown => Some 1                 (* `default:` consumed the opcode byte only *)
  end.

(* effect on the height along the fall-through path when it does not depend on operands
   (OP_STORE_PARAM / OP_RESTORE_STACK_POS: relative to the mark = the height in the emitter's
   MARK (PARAM LOAD)* RESTORE pattern) *)
Definition shape_effect (sh : shape) : option Z :=
  match sh with
  | ShEnd => Some 0%Z
  | ShPlain _ pops pushes | ShStr pops pushes | ShField pops pushes => Some (Z.of_N pushes - Z.of_N pops)%Z
  | ShCondJump | ShLogJump => Some (-1)%Z
  | ShJump | ShJumpBack => Some 0%Z
  | ShCmd (Some n) recv ret => Some ((if ret then 1 else 0) - Z.of_N n - (if recv then 1 else 0))%Z
  | ShCmd None _ _ => None
  | ShConstArray => None
  | ShMark => Some 0%Z
  | ShParam => Some 1%Z
  | ShRestore => Some 0%Z
  | ShSwitch => Some (-1)%Z
  | ShFunc => None
  | ShUnknown => Some 0%Z
  end.

(* the table writes -128 where the effect depends on an operand *)
Definition table_variable : Z := (-128)%Z.

Definition entry_matches (e : N * (N * Z * bool)) : bool :=
  let '(op, (len, eff, _)) := e in
  let sh := shape_of op in
  match shape_len sh with
  | Some l => l =? len
  | None => false
  end &&
  match shape_effect sh with
  | Some z => Z.eqb z eff
  | None => Z.eqb eff table_variable
  end.

(* opcodes whose table entry is allowed to differ from the interpreter (see Properties.v) *)
Definition table_exceptions : list N :=
  [OP_DONE; OP_BOOL_TO_VAR; OP_STORE_FIELD_REF; OP_FUNC; OP_END; OP_RETURN].

(* ------------------------------------------------------------------ error paths *)

(* Where a script error raised by the instruction at pc (in state s) leaves the VM: Execute
   catches it, prints a warning and calls Process again, which goes on from m_CodePos with the
   stack as the failed instruction left it.
   - Most instructions fail inside a ScriptVariable operation or a command, after every Pop /
     Push / operand read of the normal path was done: the error state is the normal successor.
   - The field opcodes have hand-written error handling; [err_table] lists, per opcode, the
     (pops, pushes) of each way it can fail - the code position is always after the two operands
     (skipField where they were not read yet):
       loadTop (OP_LOAD_<group>_VAR): catch { Pop } around the setter, like the normal path;
       OP_LOAD_SELF/OWNER_VAR: NULL self / owner: Pop, skipField, throw; else loadTop;
       OP_LOAD_FIELD_VAR: Pop a; then catch { if (!eventCalled) { Pop; skipField } }: 2 pops when the
         value is no listener or NULL, and 2 pops when loadTop's setter throws (loadTop's catch pops);
         when a is a group (arraysize > 1) loadTopGroup runs - see [load_field_group] below: also 2 pops
         and the code position behind the operands, whichever member fails;
       OP_LOAD_STORE_SELF/OWNER_VAR: skipField before `self is NULL`; loadStoreTop keeps the top;
       OP_STORE_SELF/OWNER_VAR: Push, skipField, throw; storeTop pushes before the getter;
       OP_STORE_FIELD, OP_STORE_FIELD_REF: catch { if (!operandsRead) skipField; ... } keeps the top. *)
Definition at_ (pc : N) (s : astate) (pops pushes : N) : list config :=
  match adj s pops pushes with Some s' => [(pc, s')] | None => [] end.

Definition fieldlen : N := 1 + sz_op_name_t + sz_op_evName_t.

Definition err_table : list (N * list (N * N)) := [
  (OP_LOAD_GAME_VAR, [(1, 0)]); (OP_LOAD_LEVEL_VAR, [(1, 0)]); (OP_LOAD_LOCAL_VAR, [(1, 0)]);
  (OP_LOAD_PARM_VAR, [(1, 0)]); (OP_LOAD_GROUP_VAR, [(1, 0)]);
  (OP_LOAD_SELF_VAR, [(1, 0)]); (OP_LOAD_OWNER_VAR, [(1, 0)]);
  (OP_LOAD_FIELD_VAR, [(2, 0); (2, 0); (2, 0)]);   (* no listener or NULL; setter throws; a member of a group fails *)
  (OP_LOAD_STORE_GAME_VAR, [(1, 1)]); (OP_LOAD_STORE_LEVEL_VAR, [(1, 1)]); (OP_LOAD_STORE_LOCAL_VAR, [(1, 1)]);
  (OP_LOAD_STORE_PARM_VAR, [(1, 1)]); (OP_LOAD_STORE_GROUP_VAR, [(1, 1)]);
  (OP_LOAD_STORE_SELF_VAR, [(1, 1)]); (OP_LOAD_STORE_OWNER_VAR, [(1, 1)]);
  (OP_STORE_GAME_VAR, [(0, 1)]); (OP_STORE_LEVEL_VAR, [(0, 1)]); (OP_STORE_LOCAL_VAR, [(0, 1)]);
  (OP_STORE_PARM_VAR, [(0, 1)]); (OP_STORE_GROUP_VAR, [(0, 1)]);
  (OP_STORE_SELF_VAR, [(0, 1)]); (OP_STORE_OWNER_VAR, [(0, 1)]);
  (OP_STORE_FIELD, [(1, 1)]); (OP_STORE_FIELD_REF, [(1, 1)])
].

Definition exec_err (p : program) (pc : N) (s : astate) : list config :=
  match byte p pc with
  | None => []
  | Some op =>
      match assoc err_table op with
      | Some outcomes => flat_map (fun ab => at_ (pc + fieldlen) s (fst ab) (snd ab)) outcomes
      | None =>
          match shape_of op, exec p pc s with
          | ShCmd _ _ _, Some (c :: _) => [c]        (* after the pops and the operand reads *)
          | _, Some [c] => [c]                        (* after the normal-path effects *)
          | _, _ => []                                (* jumps, switch, OP_DONE: no failing operation *)
          end
      end
  end.

(* OP_LOAD_FIELD_VAR applied to a group of objects (ScriptVM::loadTopGroup), micro-step by
   micro-step.  The instruction has popped the target a (height h - 1, the assigned value on top)
   and m_CodePos = operands = pc + 1.  For the members in the order they are visited (1..n when the
   group is a constant array - which `$name` with several bearers now is -, n..1 otherwise):
     a member that is gone is skipped;
     listenerAt may throw (the element is no listener): nothing was pushed or read;
     otherwise m_CodePos = operands, a copy of the value is pushed, loadTop reads the two operands
     and pops the copy - also when the member's setter throws (its catch block pops).
   At the end, and in the catch block before rethrowing: m_CodePos = operands; skipField(); Pop().
   The opcode's own catch does nothing then (eventCalled is true). *)
Inductive member :=
| MLive            (* the setter succeeds (or the plain variable is set) *)
| MDead            (* NULL: skipped *)
| MNoListener      (* listenerAt throws *)
| MSetterFails.    (* loadTop's setter throws *)

Record gstate := mkG { gpos : N; gh : N; gmax : N }.

(* (state, threw) after the loop over the members in the order they are visited *)
Fixpoint group_loop (operands : N) (g : gstate) (ms : list member) : gstate * bool :=
  match ms with
  | [] => (g, false)
  | MDead :: r => group_loop operands g r
  | MNoListener :: _ => (g, true)
  | MLive :: r =>
      group_loop operands
        (mkG (operands + sz_op_name_t + sz_op_evName_t) (gh g + 1 - 1) (N.max (gmax g) (gh g + 1))) r
  | MSetterFails :: _ =>
      (mkG (operands + sz_op_name_t + sz_op_evName_t) (gh g + 1 - 1) (N.max (gmax g) (gh g + 1)), true)
  end.

(* the whole instruction at pc with height h (>= 2: the target and the value): final code
   position, final height, greatest height seen on the way, whether a script error is raised *)
Definition load_field_group (pc h : N) (ms : list member) : option (N * N * N * bool) :=
  if 2 <=? h then
    let operands := pc + 1 in
    let '(g, threw) := group_loop operands (mkG operands (h - 1) (h - 1)) ms in
    Some (operands + sz_op_name_t + sz_op_evName_t, gh g - 1, gmax g, threw)
  else None.

(* an outcome of the table agrees with the normal path when the opcode's shape is the field shape
   with the same pops and pushes *)
Definition shape_is_field (sh : shape) (a b : N) : bool :=
  match sh with ShField x y => (x =? a) && (y =? b) | _ => false end.
Definition err_row_ok (row : N * list (N * N)) : bool :=
  forallb (fun ab => shape_is_field (shape_of (fst row)) (fst ab) (snd ab)) (snd row).

(* the opcodes with an error path that breaks the discipline: computed from the table *)
Definition err_defective : list N := map fst (filter (fun row => negb (err_row_ok row)) err_table).

Definition err_ok (p : program) (pc : N) (s : astate) : bool :=
  match exec p pc s with
  | Some succs => forallb (fun c => existsb (fun c' => (fst c =? fst c') && astate_eqb (snd c) (snd c')) succs) (exec_err p pc s)
  | None => true
  end.
