(* C02/Extract.v - extraction of the checker, the inference and the instruction model (ExtrOcamlBasic only). *)
Require Extraction.
Require Import ExtrOcamlBasic.
From Morfuse Require Import C02.Generated C02.Model C02.Verify.
Extraction "C02_model.ml" verify infer check first_failure check_at exec code_of_list err_ok exec_err
  optable table_exceptions entry_matches control_events shape_of.
