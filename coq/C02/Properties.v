(* C02/Properties.v - the property theorems of C02 and nothing else.
   Every theorem is closed by [exact <lemma>] and followed by Print Assumptions. *)
From Coq Require Import NArith ZArith List Bool.
From Morfuse Require Import Base.Arr C02.Generated C02.Model C02.Verify C02.Spec C02.Proofs.
Import ListNotations.
Local Open Scope N_scope.

(* SOUNDNESS OF THE CERTIFICATE CHECKER.  If [check p H] accepts a height annotation H for a
   program p (code bytes, entry points = offset 0 + every label, case label and catch label,
   declared stack size, sizes of the string / event-name / event tables, switch tables), then every
   configuration the instruction model (= ScriptVM::Process, C02/Model.v) can reach from ANY entry
   point in ANY number of steps along ANY branch
     - is the one H records for its offset (so every branch target is an annotated instruction
       boundary and the height there is the same on all paths),
     - lies inside the program together with all the operand bytes the interpreter reads,
     - embeds only references to existing strings, event names, events and switch tables,
     - has a height below the declared stack size and never pops below zero,
     - has the empty stack where the thread ends. *)
Theorem C02_check_sound :
  forall p H, check p H = true -> forall n c, reach p n c -> safe p H c.
Proof. exact check_sound. Qed.
Print Assumptions C02_check_sound.

(* the same for [verify] = untrusted inference + check: what the harness-side pipeline runs on
   every program the real compiler accepts *)
Theorem C02_verify_sound :
  forall fuel p, verify fuel p = true -> forall n c, reach p n c -> wf_config p c.
Proof. exact verify_sound. Qed.
Print Assumptions C02_verify_sound.

Theorem C02_heights_agree_on_all_paths :
  forall p H, check p H = true ->
  forall n m pc s1 s2, reach p n (pc, s1) -> reach p m (pc, s2) -> s1 = s2.
Proof. exact heights_agree. Qed.
Print Assumptions C02_heights_agree_on_all_paths.

Theorem C02_branch_targets_are_instruction_boundaries :
  forall p H, check p H = true ->
  forall n c succs c', reach p n c -> exec p (fst c) (snd c) = Some succs -> In c' succs -> safe p H c'.
Proof. exact successors_are_boundaries. Qed.
Print Assumptions C02_branch_targets_are_instruction_boundaries.

(* TABLE = DECODER.  For every opcode of the running binary (Generated.optable, regenerated on
   every run) the table's OpcodeLength is 1 + the operand bytes the interpreter model consumes and
   the table's OpcodeVarStackOffset is the model's fall-through stack effect (-128 exactly where the
   effect depends on an operand) - except for the listed entries, which are inconsistent in the
   C++ table itself and which the emitter never uses for what they state:
     OP_DONE (length 0, the VM consumes the opcode byte), OP_BOOL_TO_VAR (length 0; a pseudo opcode
     that is never written), OP_STORE_FIELD_REF (length 5, the emitter writes and the VM reads
     1 + 4 + 4), OP_FUNC (11; 7 without a file name), OP_END / OP_RETURN (no interpreter case). *)
Theorem C02_table_matches_decode :
  forall e, In e optable -> In (fst e) table_exceptions \/ entry_matches e = true.
Proof. exact table_matches_decode. Qed.
Print Assumptions C02_table_matches_decode.

Theorem C02_table_is_complete : map fst optable = offsets OP_PREVIOUS.
Proof. exact table_is_complete. Qed.
Print Assumptions C02_table_is_complete.

(* what the table view states is what [exec] does: the successor at pc + length has height + effect *)
Theorem C02_exec_agrees_with_table_view :
  forall p pc s succs op L z,
  byte p pc = Some op -> exec p pc s = Some succs ->
  shape_len (shape_of op) = Some L -> shape_effect (shape_of op) = Some z ->
  shape_of op <> ShEnd -> shape_of op <> ShJump -> shape_of op <> ShJumpBack ->
  shape_of op <> ShParam -> shape_of op <> ShRestore ->
  exists s', In (pc + L, s') succs /\ Z.of_N (ht s') = (Z.of_N (ht s) + z)%Z.
Proof. exact exec_agrees_with_table_view. Qed.
Print Assumptions C02_exec_agrees_with_table_view.

(* ERROR PATHS.  Full statement:
     forall p pc s, err_discipline p pc s
   i.e. wherever a script error raised inside an instruction leaves the VM (Execute prints the
   warning and calls Process again) is a normal successor of that instruction: same code
   position, same height.  [err_defective] is computed from the error-path table of the model
   (Model.err_table, written after the hand-written catch blocks of Process); the statement is
   proved for every opcode outside it, hence in full as soon as it is empty. *)
Theorem C02_error_path_preserves_discipline_partial :
  forall p pc s op, byte p pc = Some op -> ~ In op err_defective -> err_discipline p pc s.
Proof. exact error_path_preserves_discipline_partial. Qed.
Print Assumptions C02_error_path_preserves_discipline_partial.

Theorem C02_error_path_preserves_discipline_if_no_defect :
  err_defective = [] -> forall p pc s, err_discipline p pc s.
Proof. exact error_path_preserves_discipline_if_no_defect. Qed.
Print Assumptions C02_error_path_preserves_discipline_if_no_defect.

(* On the current tree (after the fix commits e516f4d, 1b3be9a, 14e888f that this unit's findings
   led to) no row of the table is defective, so the full statement holds.  Before them it was
   refuted by OP_STORE_OWNER (two pushes with a NULL self), OP_LOAD_STORE_SELF_VAR and
   OP_STORE_FIELD_REF (operands not skipped), loadTop (no pop when the setter throws),
   OP_STORE_FIELD (operands skipped twice) and, in between, OP_LOAD_FIELD_VAR (three pops). *)
Theorem C02_err_defective_now : err_defective = [].
Proof. exact err_defective_now. Qed.
Print Assumptions C02_err_defective_now.

Theorem C02_error_path_preserves_discipline :
  forall p pc s, err_discipline p pc s.
Proof. exact error_path_preserves_discipline. Qed.
Print Assumptions C02_error_path_preserves_discipline.

(* OP_LOAD_FIELD_VAR applied to a GROUP of objects (loadTopGroup, micro-step model
   Model.load_field_group): for every number of members and every mix of live members, members
   that are gone, elements that are no listeners and failing setters - i.e. an error at the first,
   a middle or the last member, or none - the instruction ends behind its operands with two values
   popped, which is the successor [exec] lists, and no height on the way exceeds the height before. *)
Theorem C02_group_store_is_the_normal_successor :
  forall p pc s succs ms,
  byte p pc = Some OP_LOAD_FIELD_VAR -> exec p pc s = Some succs ->
  exists s' mx threw,
    load_field_group pc (ht s) ms = Some (pc + fieldlen, ht s', mx, threw) /\
    In (pc + fieldlen, s') succs /\ mk s' = mk s /\ mx <= ht s.
Proof. exact group_store_is_the_normal_successor. Qed.
Print Assumptions C02_group_store_is_the_normal_successor.

Example group_store_fails_at_the_middle_member :
  load_field_group 10 3 [MLive; MDead; MSetterFails; MLive] = Some (19, 1, 3, true).
Proof. vm_compute. reflexivity. Qed.
Example group_store_element_is_no_listener :
  load_field_group 10 3 [MNoListener; MLive] = Some (19, 1, 2, true).
Proof. vm_compute. reflexivity. Qed.
Example group_store_reaches_everybody :
  load_field_group 10 3 [MLive; MLive; MLive] = Some (19, 1, 3, false).
Proof. vm_compute. reflexivity. Qed.

(* ------------------------------------------------------------------ non-vacuity *)

(* the code the real compiler emitted (dump of harness/C02) for
     main: local.a = 3; println "hello " local.a
     for (local.i = 0; local.i < 3; local.i++) { if (local.i == 1) continue
       switch (local.i) { case 0: println "zero"; break  case 2: println "two"  default: println "def" } }
     thread foo 1 2
     try { throw bar 5 } catch { bar local.q: println "caught " local.q }
     end
     foo local.x local.y: println local.x local.y; end
   with the event numbers of `throw` and `end` taken from the current binary (Generated.v) *)
(* an event number that is none of the control events *)
Definition ev_plain : N := 1 + fold_right N.max 0 control_events.
Definition example_code : list N := [
13; 3; 49; 7; 0; 0; 0; 0; 0; 0; 0; 20; 8; 0; 0; 0; 71; 7; 0; 0; 0; 0; 0; 0; 0; 28; ev_plain; 0; 0; 0; 12;
49; 9; 0; 0; 0; 0; 0; 0; 0; 71; 9; 0; 0; 0; 0; 0; 0; 0; 13; 3; 90; 3; 104; 0; 0; 0; 71; 9; 0; 0; 0;
0; 0; 0; 0; 13; 1; 88; 3; 5; 0; 0; 0; 10; 58; 0; 0; 0; 71; 9; 0; 0; 0; 0; 0; 0; 0; 108; 140; 54; 0;
0; 16; 98; 0; 0; 10; 35; 0; 0; 0; 20; 11; 0; 0; 0; 27; ev_plain; 0; 0; 0; 10; 20; 0; 0; 0; 20; 13; 0; 0;
0; 27; ev_plain; 0; 0; 0; 20; 14; 0; 0; 0; 27; ev_plain; 0; 0; 0; 71; 9; 0; 0; 0; 0; 0; 0; 0; 105; 49; 9; 0; 0;
0; 0; 0; 0; 0; 11; 117; 0; 0; 0; 20; 15; 0; 0; 0; 13; 1; 13; 2; 29; ev_plain; 0; 0; 0; 20; 16; 0; 0; 0; 13;
5; 28; ev_throw; 0; 0; 0; 10; 31; 0; 0; 0; 59; 60; 49; 17; 0; 0; 0; 0; 0; 0; 0; 61; 20; 18; 0; 0; 0; 71;
17; 0; 0; 0; 0; 0; 0; 0; 28; ev_plain; 0; 0; 0; 26; ev_end; 0; 0; 0; 59; 60; 49; 19; 0; 0; 0; 0; 0; 0; 0; 60;
49; 20; 0; 0; 0; 0; 0; 0; 0; 61; 71; 19; 0; 0; 0; 0; 0; 0; 0; 71; 20; 0; 0; 0; 0; 0; 0; 0; 28; ev_plain;
0; 0; 0; 26; ev_end; 0; 0; 0; 0; 0; 0].

Definition example_with (code : list N) (stack : N) : program :=
  mkProgram (code_of_list code) 281 stack 20 126 100000 [(107820859012748, [102; 117; 127])]
            [0; 102; 117; 127; 192; 228].
Definition example_prog : program := example_with example_code 31.

Example example_is_accepted : verify 3000 example_prog = true.
Proof. vm_compute. reflexivity. Qed.

(* 57 instructions are reachable; the `throw` at 187 is annotated with height 0 after its pops *)
Example example_annotation :
  let H := fst (infer 3000 example_prog) in
  (get H 0, get H 2, get H 170, get H 194, get H 203, get H 204, get H 1)
  = (Some init, Some (mkA 1 None), Some (mkA 3 None), Some (mkA 1 (Some 0)), Some (mkA 0 (Some 0)),
     Some init, None).
Proof. vm_compute. reflexivity. Qed.

Fixpoint set_nth (l : list N) (i : nat) (v : N) : list N :=
  match l, i with
  | [], _ => []
  | _ :: r, O => v :: r
  | x :: r, S k => x :: set_nth r k v
  end.

(* a jump offset that is one too large (the `continue` at 74..78: 58 -> 59) lands inside an instruction *)
Example mispatched_jump_is_rejected : verify 3000 (example_with (set_nth example_code 75 59) 31) = false.
Proof. vm_compute. reflexivity. Qed.
(* an extra push per loop iteration (the OP_UN_INC of `local.i++` at 146 replaced by OP_STORE_NIL): the
   loop head is reached with height 0 from above and height 1 from the back jump *)
Example leaked_slot_is_rejected :
  snd (infer 3000 (example_with (set_nth example_code 146 OP_STORE_NIL) 31)) = VConflict 40 init (mkA 1 None)
  /\ verify 3000 (example_with (set_nth example_code 146 OP_STORE_NIL) 31) = false.
Proof. vm_compute. split; reflexivity. Qed.
(* a declared stack that is one slot too small for the three operands of `throw bar 5` ... *)
Example small_stack_is_rejected : verify 3000 (example_with example_code 3) = false.
Proof. vm_compute. reflexivity. Qed.
Example exact_stack_is_accepted : verify 3000 (example_with example_code 4) = true.
Proof. vm_compute. reflexivity. Qed.
(* a dangling string index *)
Example dangling_string_is_rejected : verify 3000 (example_with (set_nth example_code 12 21) 31) = false.
Proof. vm_compute. reflexivity. Qed.
(* a switch operand that is not one of the program's tables *)
Example dangling_switch_is_rejected : verify 3000 (example_with (set_nth example_code 93 141) 31) = false.
Proof. vm_compute. reflexivity. Qed.
(* `end` with two values left on the stack: the OP_EXEC_CMD2 println at 218 replaced by OP_EXEC_CMD0 end *)
Example end_with_operand_left_is_rejected : verify 3000 (example_with (set_nth (set_nth example_code 218 OP_EXEC_CMD0) 219 ev_end) 31) = false.
Proof. vm_compute. reflexivity. Qed.
