(* C02/Proofs.v - soundness of the certificate checker, consequences of a defined [exec],
   table = decoder, error paths. *)
From Coq Require Import NArith ZArith List Bool Lia.
From Morfuse Require Import Base.Arr C02.Generated C02.Model C02.Verify C02.Spec.
Import ListNotations.
Local Open Scope N_scope.

(* ------------------------------------------------------------------ small facts *)

Lemma optN_eqb_eq a b : optN_eqb a b = true -> a = b.
Proof.
  destruct a as [x|], b as [y|]; cbn; try discriminate; try reflexivity.
  intro E. apply N.eqb_eq in E. now subst.
Qed.

Lemma astate_eqb_eq a b : astate_eqb a b = true -> a = b.
Proof.
  destruct a as [h1 m1], b as [h2 m2]. unfold astate_eqb. cbn [ht mk].
  intro E. apply andb_true_iff in E as [E1 E2].
  apply N.eqb_eq in E1. apply optN_eqb_eq in E2. now subst.
Qed.

Lemma astate_eqb_refl a : astate_eqb a a = true.
Proof.
  destruct a as [h m]. unfold astate_eqb. cbn [ht mk]. rewrite N.eqb_refl. cbn.
  destruct m; cbn; [apply N.eqb_refl | reflexivity].
Qed.

Lemma astate_is_init_eq s : astate_is_init s = true -> s = init.
Proof.
  destruct s as [h m]. unfold astate_is_init, init. cbn [ht mk]. intro E.
  apply andb_true_iff in E as [E1 E2]. apply N.eqb_eq in E1. apply optN_eqb_eq in E2. now subst.
Qed.

Lemma in_offsets_from k : forall start x, start <= x -> x < start + N.of_nat k -> In x (offsets_from k start).
Proof.
  induction k as [|k IH]; intros start x L U.
  - cbn in U. lia.
  - cbn [offsets_from]. destruct (N.eq_dec x start) as [->|NE]; [now left|].
    right. apply IH; [lia|]. rewrite Nat2N.inj_succ in U. lia.
Qed.

Lemma in_offsets n pc : pc < n -> In pc (offsets n).
Proof.
  intro L. unfold offsets. apply in_offsets_from; [lia|]. rewrite N2Nat.id. lia.
Qed.

Lemma byte_some p pc b : byte p pc = Some b -> pc < plen p.
Proof. unfold byte. destruct (N.ltb_spec pc (plen p)); [auto | discriminate]. Qed.

Lemma read_le_bound p n : forall off v, read_le p off (S n) = Some v -> off + N.of_nat (S n) <= plen p.
Proof.
  induction n as [|n IH]; intros off v E.
  - cbn [read_le] in E. destruct (byte p off) eqn:B; [|discriminate]. apply byte_some in B. lia.
  - change (read_le p off (S (S n))) with
      (match byte p off, read_le p (off + 1) (S n) with
       | Some b, Some r => Some (b + 256 * r) | _, _ => None end) in E.
    destruct (byte p off) eqn:B; [|discriminate].
    destruct (read_le p (off + 1) (S n)) eqn:R; [|discriminate].
    apply IH in R. rewrite Nat2N.inj_succ in *. lia.
Qed.

Lemma rd_bound p off sz v : rd p off sz = Some v -> sz <> 0 -> off + sz <= plen p.
Proof.
  unfold rd. intros E NZ. destruct (N.to_nat sz) as [|k] eqn:K; [lia|].
  apply read_le_bound in E. rewrite <- K, N2Nat.id in E. exact E.
Qed.

(* ------------------------------------------------------------------ check is sound *)

Lemma succ_ok_inv p H c :
  succ_ok p H c = true -> fst c < plen p /\ get H (fst c) = Some (snd c) /\ ht (snd c) < pstack p.
Proof.
  unfold succ_ok, state_fits, oastate_eqb. intro E.
  apply andb_true_iff in E as [E E3]. apply andb_true_iff in E as [E1 E2].
  apply N.ltb_lt in E1. apply N.ltb_lt in E3.
  destruct (get H (fst c)) as [x|]; [|discriminate].
  apply astate_eqb_eq in E2. subst. auto.
Qed.

Lemma annotated_ok p H :
  check p H = true ->
  forall pc s, pc < plen p -> get H pc = Some s ->
  exists succs, exec p pc s = Some succs /\ forallb (succ_ok p H) succs = true.
Proof.
  unfold check. intros C pc s L G. apply andb_true_iff in C as [_ C].
  rewrite forallb_forall in C. specialize (C pc (in_offsets _ _ L)).
  unfold check_at in C. rewrite G in C.
  destruct (exec p pc s) as [succs|]; [|discriminate]. eauto.
Qed.

Definition annotated (p : program) (H : annot) (c : config) : Prop :=
  fst c < plen p /\ get H (fst c) = Some (snd c) /\ ht (snd c) < pstack p.

Lemma reach_annotated p H :
  check p H = true -> forall n c, reach p n c -> annotated p H c.
Proof.
  intros C n c R. induction R as [e IN | n c c' R IH [succs [E IN]]].
  - unfold check in C. apply andb_true_iff in C as [C _].
    rewrite forallb_forall in C. specialize (C e IN). unfold entry_ok in C.
    apply succ_ok_inv in C. exact C.
  - destruct IH as [L [G _]].
    destruct (annotated_ok p H C _ _ L G) as [succs' [E' F]].
    rewrite E in E'. injection E' as <-.
    rewrite forallb_forall in F. apply succ_ok_inv. now apply F.
Qed.

(* ------------------------------------------------------------------ what a defined exec means *)

Ltac szs := unfold sz_op_name_t, sz_op_evName_t, sz_op_offset_t, sz_op_ev_t, sz_op_parmNum_t,
  sz_op_arrayParmNum_t, sz_bool, sz_StateScriptPtr in *.

Ltac bind_in E :=
  match type of E with
  | opt_bind ?o _ = Some _ =>
      let X := fresh "X" in destruct o eqn:X; cbn [opt_bind] in E; [|discriminate E]
  | (if ?b then _ else None) = Some _ =>
      let X := fresh "B" in destruct b eqn:X; [|discriminate E]
  end.

Lemma exec_byte p pc s succs :
  exec p pc s = Some succs -> exists op, byte p pc = Some op /\ exec_shape p pc s (shape_of op) = Some succs.
Proof. unfold exec. destruct (byte p pc) as [op|]; cbn [opt_bind]; [eauto | discriminate]. Qed.

Lemma rdb p off sz v : rd p off sz = Some v -> sz <> 0 -> off + sz <= plen p.
Proof. apply rd_bound. Qed.

Lemma exec_decodes_inside p pc s succs :
  exec p pc s = Some succs -> exists L, instr_len p pc = Some L /\ pc + L <= plen p.
Proof.
  intro E. apply exec_byte in E as [op [B E]].
  pose proof (byte_some _ _ _ B) as LT.
  unfold instr_len. rewrite B.
  destruct (shape_of op) as [ | operand pops pushes | pops pushes | pops pushes | | | | | fixed recv ret | | | | | | | ];
    cbn [exec_shape shape_len] in *.
  - eexists; split; [reflexivity | lia].
  - bind_in E. apply N.leb_le in B0. eexists; split; [reflexivity | lia].
  - bind_in E. apply rdb in X; [|szs; lia]. eexists; split; [reflexivity | szs; lia].
  - bind_in E. bind_in E. apply rdb in X0; [|szs; lia]. eexists; split; [reflexivity | szs; lia].
  - bind_in E. apply rdb in X; [|szs; lia]. eexists; split; [reflexivity | szs; lia].
  - bind_in E. apply rdb in X; [|szs; lia]. eexists; split; [reflexivity | szs; lia].
  - bind_in E. apply rdb in X; [|szs; lia]. eexists; split; [reflexivity | szs; lia].
  - bind_in E. apply rdb in X; [|szs; lia]. eexists; split; [reflexivity | szs; lia].
  - destruct fixed as [n|].
    + cbn [opt_bind] in E. bind_in E. apply rdb in X; [|szs; lia]. eexists; split; [reflexivity | szs; lia].
    + destruct (rd p (pc + 1) sz_op_parmNum_t) eqn:X0; cbn [opt_bind] in E; [|discriminate E].
      bind_in E. apply rdb in X; [|szs; lia].
      eexists; split; [reflexivity | szs; lia].
  - bind_in E. apply rdb in X; [|szs; lia]. eexists; split; [reflexivity | szs; lia].
  - eexists; split; [reflexivity | lia].
  - eexists; split; [reflexivity | lia].
  - eexists; split; [reflexivity | lia].
  - bind_in E. apply rdb in X; [|szs; lia]. eexists; split; [reflexivity | szs; lia].
  - bind_in E. destruct (n =? 0).
    + bind_in E. bind_in E. apply rdb in X1; [|szs; lia]. eexists; split; [reflexivity | szs; lia].
    + bind_in E. bind_in E. bind_in E. apply rdb in X2; [|szs; lia]. eexists; split; [reflexivity | szs; lia].
  - discriminate.
Qed.

Lemma exec_refs_ok p pc s succs : exec p pc s = Some succs -> refs_ok p pc = true.
Proof.
  intro E. apply exec_byte in E as [op [B E]].
  unfold refs_ok. rewrite B.
  destruct (shape_of op) as [ | operand pops pushes | pops pushes | pops pushes | | | | | fixed recv ret | | | | | | | ];
    cbn [exec_shape] in *; try reflexivity.
  - bind_in E. bind_in E. reflexivity.
  - bind_in E. bind_in E. bind_in E. bind_in E. reflexivity.
  - destruct fixed as [n|].
    + cbn [opt_bind] in E. bind_in E. bind_in E. reflexivity.
    + destruct (rd p (pc + 1) sz_op_parmNum_t) eqn:X0; cbn [opt_bind] in E; [|discriminate E].
      bind_in E. bind_in E. reflexivity.
  - bind_in E. bind_in E. reflexivity.
  - bind_in E. destruct (n =? 0).
    + bind_in E. bind_in E. bind_in E. reflexivity.
    + bind_in E. bind_in E. bind_in E. bind_in E. bind_in E. reflexivity.
  - discriminate.
Qed.

Lemma exec_end_init p pc s succs :
  exec p pc s = Some succs -> may_end_at p pc = true -> s = init.
Proof.
  intros E M. apply exec_byte in E as [op [B E]].
  unfold may_end_at in M. rewrite B in M.
  destruct (shape_of op); try discriminate.
  cbn [exec_shape] in E. bind_in E. now apply astate_is_init_eq.
Qed.

Theorem check_sound p H :
  check p H = true -> forall n c, reach p n c -> safe p H c.
Proof.
  intros C n c R. destruct (reach_annotated p H C n c R) as [L [G F]].
  destruct (annotated_ok p H C _ _ L G) as [succs [E _]].
  split; [exact G|].
  constructor.
  - exact L.
  - eapply exec_decodes_inside; eauto.
  - eapply exec_refs_ok; eauto.
  - exact F.
  - eauto.
  - intro M. eapply exec_end_init; eauto.
Qed.

Theorem verify_sound fuel p :
  verify fuel p = true -> forall n c, reach p n c -> wf_config p c.
Proof.
  unfold verify. destruct (infer fuel p) as [H v]. destruct v; try discriminate.
  intros C n c R. exact (proj2 (check_sound p H C n c R)).
Qed.

Theorem heights_agree p H :
  check p H = true ->
  forall n m pc s1 s2, reach p n (pc, s1) -> reach p m (pc, s2) -> s1 = s2.
Proof.
  intros C n m pc s1 s2 R1 R2.
  destruct (reach_annotated p H C _ _ R1) as [_ [G1 _]].
  destruct (reach_annotated p H C _ _ R2) as [_ [G2 _]].
  cbn [fst snd] in *. congruence.
Qed.

(* branch targets are instruction boundaries: a successor of a reachable instruction is again a
   reachable configuration, hence decoded as an instruction in its own right (wf_config of it) *)
Theorem successors_are_boundaries p H :
  check p H = true ->
  forall n c succs c', reach p n c -> exec p (fst c) (snd c) = Some succs -> In c' succs ->
  safe p H c'.
Proof.
  intros C n c succs c' R E IN.
  apply (check_sound p H C (S n) c'). eapply reach_step; [exact R|]. exists succs. auto.
Qed.

(* ------------------------------------------------------------------ table = decoder *)

Theorem table_matches_decode :
  forall e, In e optable -> In (fst e) table_exceptions \/ entry_matches e = true.
Proof.
  assert (F : forallb (fun e => existsb (N.eqb (fst e)) table_exceptions || entry_matches e) optable = true)
    by (vm_compute; reflexivity).
  intros e IN. rewrite forallb_forall in F. specialize (F e IN).
  apply orb_true_iff in F as [F|F]; [left | now right].
  apply existsb_exists in F as [x [IX EX]]. apply N.eqb_eq in EX. now subst.
Qed.

(* the table covers every opcode below OP_PREVIOUS, in order *)
Theorem table_is_complete : map fst optable = offsets OP_PREVIOUS.
Proof. vm_compute. reflexivity. Qed.

(* the fall-through successor of an instruction whose shape has a fixed length and effect is
   (pc + that length, height + that effect): what the table states is what [exec] does *)
Lemma adj_effect s a b s' : adj s a b = Some s' -> Z.of_N (ht s') = (Z.of_N (ht s) + (Z.of_N b - Z.of_N a))%Z /\ mk s' = mk s.
Proof.
  unfold adj. destruct (N.leb_spec a (ht s)); [|discriminate]. intro E. injection E as <-. cbn [ht mk]. split; [lia | reflexivity].
Qed.

Theorem exec_agrees_with_table_view p pc s succs op L z :
  byte p pc = Some op -> exec p pc s = Some succs ->
  shape_len (shape_of op) = Some L -> shape_effect (shape_of op) = Some z ->
  shape_of op <> ShEnd -> shape_of op <> ShJump -> shape_of op <> ShJumpBack ->
  shape_of op <> ShParam -> shape_of op <> ShRestore ->
  exists s', In (pc + L, s') succs /\ Z.of_N (ht s') = (Z.of_N (ht s) + z)%Z.
Proof.
  intros B E SL SE N1 N2 N3 N4 N5. unfold exec in E. rewrite B in E. cbn [opt_bind] in E.
  destruct (shape_of op) as [ | operand pops pushes | pops pushes | pops pushes | | | | | fixed recv ret | | | | | | | ];
    unfold shape_len in SL; unfold shape_effect in SE; cbn [exec_shape] in E; try congruence; try discriminate.
  - bind_in E. bind_in E. injection E as <-. injection SL as <-. injection SE as <-.
    apply adj_effect in X as [X _]. eexists; split; [left; apply f_equal2; [szs; lia | reflexivity] | exact X].
  - bind_in E. bind_in E. bind_in E. injection E as <-. injection SL as <-. injection SE as <-.
    apply adj_effect in X0 as [X0 _]. eexists; split; [left; apply f_equal2; [szs; lia | reflexivity] | exact X0].
  - bind_in E. bind_in E. bind_in E. bind_in E. bind_in E. injection E as <-. injection SL as <-. injection SE as <-.
    apply adj_effect in X1 as [X1 _]. eexists; split; [left; apply f_equal2; [szs; lia | reflexivity] | exact X1].
  - bind_in E. bind_in E. injection E as <-. injection SL as <-. injection SE as <-.
    apply adj_effect in X0 as [X0 _]. eexists; split; [left; apply f_equal2; [szs; lia | reflexivity] | lia].
  - bind_in E. bind_in E. injection E as <-. injection SL as <-. injection SE as <-.
    apply adj_effect in X0 as [X0 _]. eexists; split; [right; left; apply f_equal2; [szs; lia | reflexivity] | lia].
  - destruct fixed as [k|]; [|discriminate]. cbn [opt_bind] in E.
    bind_in E. bind_in E. bind_in E. injection SL as <-. injection SE as <-.
    apply adj_effect in X0 as [X0 _].
    destruct (is_control n).
    + bind_in E. injection E as <-. eexists; split; [left; apply f_equal2; [szs; lia | reflexivity]|].
      rewrite X0. destruct recv, ret; lia.
    + injection E as <-. eexists; split; [left; apply f_equal2; [szs; lia | reflexivity]|].
      rewrite X0. destruct recv, ret; lia.
  - injection E as <-. injection SL as <-. injection SE as <-.
    eexists; split; [left; apply f_equal2; [szs; lia | reflexivity] | cbn [ht]; lia].
  - bind_in E. bind_in E. bind_in E. injection E as <-. injection SL as <-. injection SE as <-.
    apply adj_effect in X1 as [X1 _]. eexists; split; [left; apply f_equal2; [szs; lia | reflexivity] | lia].
Qed.

(* ------------------------------------------------------------------ error paths *)

Lemma assoc_in {A} (l : list (N * A)) k v : assoc l k = Some v -> In (k, v) l.
Proof.
  induction l as [|[k' v'] r IH]; cbn [assoc]; [discriminate|].
  destruct (N.eqb_spec k k') as [->|NE].
  - intro E. injection E as <-. now left.
  - intro E. right. auto.
Qed.

Lemma shape_is_field_eq sh a b : shape_is_field sh a b = true -> sh = ShField a b.
Proof.
  destruct sh; cbn; try discriminate. intro E. apply andb_true_iff in E as [E1 E2].
  apply N.eqb_eq in E1. apply N.eqb_eq in E2. now subst.
Qed.

Lemma field_outcome_is_normal p pc s op a b succs :
  byte p pc = Some op -> shape_of op = ShField a b -> exec p pc s = Some succs ->
  forall c, In c (at_ (pc + fieldlen) s a b) -> In c succs.
Proof.
  intros B SH E c IN. unfold exec in E. rewrite B in E. cbn [opt_bind] in E. rewrite SH in E.
  cbn [exec_shape] in E. bind_in E. bind_in E. bind_in E. bind_in E. bind_in E. injection E as <-.
  unfold at_ in IN. rewrite X1 in IN. destruct IN as [<-|[]]. left. f_equal. unfold fieldlen. lia.
Qed.

Theorem error_path_preserves_discipline_partial p pc s op :
  byte p pc = Some op -> ~ In op err_defective -> err_discipline p pc s.
Proof.
  intros B ND succs E c IN. unfold exec_err in IN. rewrite B in IN.
  destruct (assoc err_table op) as [outcomes|] eqn:A.
  - apply assoc_in in A.
    assert (OK : err_row_ok (op, outcomes) = true).
    { destruct (err_row_ok (op, outcomes)) eqn:R; [reflexivity|]. exfalso. apply ND.
      unfold err_defective. apply in_map_iff. exists (op, outcomes). split; [reflexivity|].
      apply filter_In. split; [exact A | now rewrite R]. }
    unfold err_row_ok in OK. cbn [fst snd] in OK. rewrite forallb_forall in OK.
    apply in_flat_map in IN as [[a b] [IAB IC]]. cbn [fst snd] in IC.
    specialize (OK _ IAB). cbn [fst snd] in OK. apply shape_is_field_eq in OK.
    eapply field_outcome_is_normal; eauto.
  - rewrite E in IN. destruct (shape_of op); destruct succs as [|c0 [|c1 r]]; cbn in IN; intuition (subst; cbn; auto).
Qed.

(* when the table has no defective row the discipline holds for every instruction *)
Theorem error_path_preserves_discipline_if_no_defect :
  err_defective = [] -> forall p pc s, err_discipline p pc s.
Proof.
  intros ED p pc s. destruct (byte p pc) as [op|] eqn:B.
  - eapply error_path_preserves_discipline_partial; [exact B|]. rewrite ED. intros [].
  - intros succs E. unfold exec in E. rewrite B in E. discriminate.
Qed.

(* OP_LOAD_FIELD_VAR on a group: whatever the members do (any number, gone, not a listener, failing
   setter at the first, a middle or the last one), with or without a script error the instruction
   ends at its normal successor - behind the operands with two values popped - and the height
   never exceeds the height before the instruction *)
Lemma group_loop_inv operands ms : forall g g' threw,
  group_loop operands g ms = (g', threw) ->
  gh g' = gh g /\ N.max (gmax g) (gh g) <= N.max (gmax g') (gh g') /\ gmax g' <= N.max (gmax g) (gh g + 1).
Proof.
  induction ms as [|m r IH]; intros g g' threw E; cbn [group_loop] in E.
  - injection E as <- <-. repeat split; lia.
  - destruct m.
    + apply IH in E. cbn [gh gmax] in E. destruct E as [E1 [E2 E3]]. repeat split; lia.
    + apply IH in E. exact E.
    + injection E as <- <-. repeat split; lia.
    + injection E as <- <-. cbn [gh gmax]. repeat split; lia.
Qed.

Theorem group_store_keeps_discipline pc h ms :
  2 <= h ->
  exists mx threw, load_field_group pc h ms = Some (pc + fieldlen, h - 2, mx, threw) /\ mx <= h.
Proof.
  intro L. unfold load_field_group. destruct (N.leb_spec 2 h) as [_|C]; [|lia].
  destruct (group_loop (pc + 1) (mkG (pc + 1) (h - 1) (h - 1)) ms) as [g threw] eqn:E.
  apply group_loop_inv in E. cbn [gh gmax] in E. destruct E as [E1 [_ E3]].
  exists (gmax g), threw. split.
  - replace (pc + 1 + sz_op_name_t + sz_op_evName_t) with (pc + fieldlen) by (unfold fieldlen; lia).
    replace (gh g - 1) with (h - 2) by lia. reflexivity.
  - lia.
Qed.

(* ... which is the successor [exec] gives the instruction *)
Theorem group_store_is_the_normal_successor p pc s succs ms :
  byte p pc = Some OP_LOAD_FIELD_VAR -> exec p pc s = Some succs ->
  exists s' mx threw,
    load_field_group pc (ht s) ms = Some (pc + fieldlen, ht s', mx, threw) /\
    In (pc + fieldlen, s') succs /\ mk s' = mk s /\ mx <= ht s.
Proof.
  intros B E. unfold exec in E. rewrite B in E. cbn [opt_bind] in E.
  change (shape_of OP_LOAD_FIELD_VAR) with (ShField 2 0) in E. cbn [exec_shape] in E.
  bind_in E. bind_in E. bind_in E. bind_in E. bind_in E. injection E as <-.
  unfold adj in X1. destruct (N.leb_spec 2 (ht s)) as [L|]; [|discriminate]. injection X1 as <-.
  destruct (group_store_keeps_discipline pc (ht s) ms L) as [mx [threw [G M]]].
  exists (mkA (ht s - 2 + 0) (mk s)), mx, threw. cbn [ht mk]. repeat split.
  - rewrite G. replace (ht s - 2 + 0) with (ht s - 2) by lia. reflexivity.
  - left. f_equal. unfold fieldlen. lia.
  - exact M.
Qed.

(* on the current tree no row is defective *)
Theorem err_defective_now : err_defective = [].
Proof. vm_compute. reflexivity. Qed.

Theorem error_path_preserves_discipline : forall p pc s, err_discipline p pc s.
Proof. exact (error_path_preserves_discipline_if_no_defect err_defective_now). Qed.

(* the boolean form the driver evaluates agrees *)
Lemma err_ok_of_discipline p pc s : err_discipline p pc s -> err_ok p pc s = true.
Proof.
  intro D. unfold err_ok. destruct (exec p pc s) as [succs|] eqn:E; [|reflexivity].
  apply forallb_forall. intros c IC. apply existsb_exists. exists c. split.
  - exact (D succs E c IC).
  - now rewrite N.eqb_refl, astate_eqb_refl.
Qed.
