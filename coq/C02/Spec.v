(* C02/Spec.v - what "well-formed code that keeps the operand stack disciplined" means, stated on
   the abstract small-step execution of the instruction model (C02/Model.v).  No proofs here.

   [step]  one instruction: any of the successors [exec] lists (every branch, every case label,
           every label a goto/throw may select);
   [reach] the configurations (offset, abstract stack state) reachable in n steps from an entry
           point (offset 0, every label, case label and catch label) with the empty stack;
   [wf_config] what must hold of every reachable configuration. *)
From Coq Require Import NArith List Bool.
From Morfuse Require Import Base.Arr C02.Generated C02.Model.
Import ListNotations.
Local Open Scope N_scope.

Definition step (p : program) (c c' : config) : Prop :=
  exists succs, exec p (fst c) (snd c) = Some succs /\ In c' succs.

Inductive reach (p : program) : nat -> config -> Prop :=
| reach_entry : forall e, In e (pentries p) -> reach p O (e, init)
| reach_step : forall n c c', reach p n c -> step p c c' -> reach p (S n) c'.

(* number of bytes the interpreter consumes for the instruction at pc *)
Definition instr_len (p : program) (pc : N) : option N :=
  match byte p pc with
  | None => None
  | Some op =>
      match shape_of op with
      | ShFunc =>
          match rd p (pc + 1) sz_bool with
          | Some b => Some (if b =? 0 then 1 + sz_bool + sz_op_name_t + sz_op_parmNum_t
                            else 1 + sz_bool + sz_op_name_t + sz_op_name_t + sz_op_parmNum_t)
          | None => None
          end
      | sh => shape_len sh
      end
  end.

(* every reference embedded in the instruction at pc names an existing object *)
Definition refs_ok (p : program) (pc : N) : bool :=
  match byte p pc with
  | None => false
  | Some op =>
      match shape_of op with
      | ShStr _ _ =>
          match rd p (pc + 1) sz_op_name_t with Some i => valid_str p i | None => false end
      | ShField _ _ =>
          match rd p (pc + 1) sz_op_name_t, rd p (pc + 1 + sz_op_name_t) sz_op_evName_t with
          | Some i, Some e => valid_str p i && valid_evname p e
          | _, _ => false
          end
      | ShCmd fixed _ _ =>
          match rd p (match fixed with Some _ => pc + 1 | None => pc + 1 + sz_op_parmNum_t end) sz_op_ev_t with
          | Some ev => valid_ev p ev
          | None => false
          end
      | ShSwitch =>
          match rd p (pc + 1) sz_StateScriptPtr with
          | Some a => match assoc (pswitch p) a with Some _ => true | None => false end
          | None => false
          end
      | ShFunc =>
          match rd p (pc + 1) sz_bool with
          | Some b =>
              if b =? 0
              then match rd p (pc + 1 + sz_bool) sz_op_name_t with Some l => valid_str p l | None => false end
              else match rd p (pc + 1 + sz_bool) sz_op_name_t, rd p (pc + 1 + sz_bool + sz_op_name_t) sz_op_name_t with
                   | Some f, Some l => valid_str p f && valid_str p l
                   | _, _ => false
                   end
          | None => false
          end
      | ShUnknown => false
      | _ => true
      end
  end.

(* the thread executing the instruction at pc ends there (OP_DONE).  Commands whose event ends the
   thread or continues at a label (end, delete, goto, throw ...) are covered by [wf_progress]:
   [exec] is defined for them only when the stack is empty after their parameters were popped. *)
Definition may_end_at (p : program) (pc : N) : bool :=
  match byte p pc with
  | None => false
  | Some op =>
      match shape_of op with
      | ShEnd => true
      | _ => false
      end
  end.

Record wf_config (p : program) (c : config) : Prop := mkWf {
  wf_inside : fst c < plen p;                                   (* the offset is inside the program *)
  wf_decodes : exists L, instr_len p (fst c) = Some L /\ fst c + L <= plen p;
                                                                (* the whole instruction is, too *)
  wf_refs : refs_ok p (fst c) = true;                           (* its references exist *)
  wf_height : ht (snd c) < pstack p;                            (* the height fits the declared stack *)
  wf_progress : exists succs, exec p (fst c) (snd c) = Some succs;
                                                                (* no underflow, no unknown opcode, ... *)
  wf_end : may_end_at p (fst c) = true -> snd c = init          (* empty stack where the thread ends *)
}.

(* what [check] establishes: the configuration is the annotated one and it is well-formed *)
Definition safe (p : program) (H : arr (option astate)) (c : config) : Prop :=
  get H (fst c) = Some (snd c) /\ wf_config p c.

(* error paths: wherever a script error raised inside the instruction at pc leaves the VM is one
   of the instruction's normal successors (same code position, same height, same mark) *)
Definition err_discipline (p : program) (pc : N) (s : astate) : Prop :=
  forall succs, exec p pc s = Some succs -> forall c, In c (exec_err p pc s) -> In c succs.
