(* C20/Properties.v — the property theorems of C20 (lock protocol of the shared pools). *)
From Coq Require Import List Bool String.
From Morfuse Require Import C20.Model C20.Audit C20.Generated C20.Proofs.
Import ListNotations.

(* For EVERY lock table that follows the protocol (writers exclusive, readers any lock),
   every number of OS threads, every program of pool calls per thread and EVERY schedule,
   no two threads are ever inside the pool at once with one of them writing. *)
Theorem C20_exclusive_protocol_excludes_conflicts :
  forall mode_of, protocol_ok mode_of = true ->
  forall (progs : list (list meth)) (sched : list nat), ~ conflict (run mode_of progs sched).
Proof. exact exclusive_protocol_excludes_conflicts. Qed.
Print Assumptions C20_exclusive_protocol_excludes_conflicts.

(* The lock modes found in the current BlockAlloc.h (regenerated on every run) follow it. *)
Theorem C20_current_lock_modes_follow_the_protocol : protocol_ok Generated.mode_of = true.
Proof. vm_compute. reflexivity. Qed.
Print Assumptions C20_current_lock_modes_follow_the_protocol.

Theorem C20_current_pools_never_conflict :
  forall (progs : list (list meth)) (sched : list nat), ~ conflict (run Generated.mode_of progs sched).
Proof. exact (exclusive_protocol_excludes_conflicts Generated.mode_of C20_current_lock_modes_follow_the_protocol). Qed.
Print Assumptions C20_current_pools_never_conflict.

(* The per-thread singletons are declared thread_local and the default set allocator is the
   locked pool (facts read off the declarations on every run). *)
Theorem C20_per_thread_state_is_thread_local :
  context_singleton_is_thread_local && interpreter_depth_is_thread_local
  && default_set_pool_is_the_locked_one = true.
Proof. vm_compute. reflexivity. Qed.
Print Assumptions C20_per_thread_state_is_thread_local.

(* Why the protocol matters: with the lock modes the code had before the fix (shared lock in
   Alloc/Free/FreeAll), and with a method that forgets the lock, a conflict is reachable. *)
Theorem C20_shared_mode_allows_conflict : exists progs sched, conflict (run old_modes progs sched).
Proof. exact shared_mode_allows_conflict. Qed.
Print Assumptions C20_shared_mode_allows_conflict.

(* The audit of process-wide state, regenerated on every run from the library built from the
   current tree: every object in a writable section is thread-local, a locked pool, written
   only during initialisation / host configuration, or a value-less sink.  A new or changed
   global that fits no rule (e.g. a static that loses thread_local) breaks this theorem. *)
Theorem C20_every_process_wide_object_is_accounted_for :
  all_accounted (map snd global_audit) = true.
Proof. vm_compute. reflexivity. Qed.
Print Assumptions C20_every_process_wide_object_is_accounted_for.

(* the per-thread interpreter state is thread-local in the binary *)
Theorem C20_interpreter_state_is_thread_local_in_the_binary :
  forallb (fun n => existsb (fun p => andb (String.eqb (fst p) n)
                                           (match snd p with ThreadLocal => true | _ => false end)) global_audit)
          required_thread_local = true.
Proof. vm_compute. reflexivity. Qed.
Print Assumptions C20_interpreter_state_is_thread_local_in_the_binary.

(* Under the usage rules of the kinds, whatever two engine threads do, the only accesses of
   different threads that touch the same storage with a write among them are accesses to a
   locked pool, both made inside its critical sections - and those are never simultaneous
   (C20_current_pools_never_conflict). *)
Theorem C20_engines_interfere_only_inside_locked_pools :
  forall a b, a_global a < List.length (map snd global_audit) ->
    allowed (kind_of (map snd global_audit) (a_global a)) a = true ->
    allowed (kind_of (map snd global_audit) (a_global b)) b = true ->
    interfere (map snd global_audit) a b ->
    kind_of (map snd global_audit) (a_global a) = LockedPool /\
    a_in_pool_section a = true /\ a_in_pool_section b = true.
Proof. exact (interference_only_inside_locked_pools (map snd global_audit) C20_every_process_wide_object_is_accounted_for). Qed.
Print Assumptions C20_engines_interfere_only_inside_locked_pools.

Theorem C20_unaccounted_object_allows_interference :
  exists a b, allowed (kind_of [Unaccounted] (a_global a)) a = true /\
              allowed (kind_of [Unaccounted] (a_global b)) b = true /\
              interfere [Unaccounted] a b /\ a_in_pool_section a = false.
Proof. exact unaccounted_object_allows_interference. Qed.
Print Assumptions C20_unaccounted_object_allows_interference.
