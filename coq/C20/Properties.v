(* C20/Properties.v — the property theorems of C20 (lock protocol of the shared pools). *)
From Coq Require Import List Bool.
From Morfuse Require Import C20.Model C20.Generated C20.Proofs.
Import ListNotations.

(* For EVERY lock table that follows the protocol (writers exclusive, readers any lock),
   every number of OS threads, every program of pool calls per thread and EVERY schedule,
   no two threads are ever inside the pool at once with one of them writing. *)
Theorem C20_exclusive_protocol_excludes_conflicts :
  forall mode_of, protocol_ok mode_of = true ->
  forall (progs : list (list meth)) (sched : list nat), ~ conflict (run mode_of progs sched).
Proof. exact exclusive_protocol_excludes_conflicts. Qed.
Print Assumptions C20_exclusive_protocol_excludes_conflicts.

(* The lock modes found in the current BlockAlloc.h (regenerated on every run) follow it. *)
Theorem C20_current_lock_modes_follow_the_protocol : protocol_ok Generated.mode_of = true.
Proof. vm_compute. reflexivity. Qed.
Print Assumptions C20_current_lock_modes_follow_the_protocol.

Theorem C20_current_pools_never_conflict :
  forall (progs : list (list meth)) (sched : list nat), ~ conflict (run Generated.mode_of progs sched).
Proof. exact (exclusive_protocol_excludes_conflicts Generated.mode_of C20_current_lock_modes_follow_the_protocol). Qed.
Print Assumptions C20_current_pools_never_conflict.

(* The per-thread singletons are declared thread_local and the default set allocator is the
   locked pool (facts read off the declarations on every run). *)
Theorem C20_per_thread_state_is_thread_local :
  context_singleton_is_thread_local && interpreter_depth_is_thread_local
  && default_set_pool_is_the_locked_one = true.
Proof. vm_compute. reflexivity. Qed.
Print Assumptions C20_per_thread_state_is_thread_local.

(* Why the protocol matters: with the lock modes the code had before the fix (shared lock in
   Alloc/Free/FreeAll), and with a method that forgets the lock, a conflict is reachable. *)
Theorem C20_shared_mode_allows_conflict : exists progs sched, conflict (run old_modes progs sched).
Proof. exact shared_mode_allows_conflict. Qed.
Print Assumptions C20_shared_mode_allows_conflict.
