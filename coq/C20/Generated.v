(* C20/Generated.v - GENERATED on every run by props/C20.py from
   include/morfuse/Common/MEM/BlockAlloc.h (lock taken by each BlockAllocSafe method),
   ThreadSingleton.h, ScriptVM.h and set.h.  Do not edit. *)
From Morfuse Require Import C20.Model.

Definition mode_of (m : meth) : mode :=
  match m with
  | MAlloc => Exclusive
  | MFree => Exclusive
  | MFreeAll => Exclusive
  | MCount => Exclusive
  end.

Definition context_singleton_is_thread_local : bool := true.
Definition interpreter_depth_is_thread_local : bool := true.
Definition default_set_pool_is_the_locked_one : bool := true.
