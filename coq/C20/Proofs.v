(* C20/Proofs.v — safety of the pool lock protocol.

   Main result: if every mutating method takes the mutex in exclusive mode and no method
   forgets the lock ([protocol_ok]), then NO schedule of ANY number of threads running ANY
   programs reaches a state in which two threads are inside the pool and one of them writes.
   Conversely, the pre-fix lock table (mutating methods under a shared lock) and a table in
   which one method takes no lock both have a concrete conflicting schedule. *)
From Coq Require Import List Bool Arith Lia.
From Morfuse Require Import C20.Model.
Import ListNotations.

(* ------------------------------------------------------------------------------------ *)
(* counting the positions of a list that satisfy a boolean predicate                     *)

Definition b2n (b : bool) : nat := if b then 1 else 0.

Fixpoint countb {A} (p : A -> bool) (l : list A) : nat :=
  match l with
  | [] => 0
  | x :: l' => b2n (p x) + countb p l'
  end.

Lemma countb_set_nth : forall A (p : A -> bool) (l : list A) (i : nat) (x v : A),
  nth_error l i = Some x ->
  countb p (set_nth l i v) + b2n (p x) = countb p l + b2n (p v).
Proof.
  intros A p l.
  induction l as [|a l IH]; intros i x v Hn.
  - destruct i; discriminate Hn.
  - destruct i as [|i]; simpl in Hn |- *.
    + injection Hn as Hax. subst a. lia.
    + specialize (IH i x v Hn). lia.
Qed.

Lemma countb_nth_ge1 : forall A (p : A -> bool) (l : list A) (i : nat) (x : A),
  nth_error l i = Some x -> p x = true -> 1 <= countb p l.
Proof.
  intros A p l.
  induction l as [|a l IH]; intros i x Hn Hp.
  - destruct i; discriminate Hn.
  - destruct i as [|i]; simpl in Hn |- *.
    + injection Hn as Hax. subst a. rewrite Hp. simpl. lia.
    + specialize (IH i x Hn Hp). lia.
Qed.

Lemma countb_two_ge2 : forall A (p : A -> bool) (l : list A) (i j : nat) (x y : A),
  i <> j ->
  nth_error l i = Some x -> nth_error l j = Some y ->
  p x = true -> p y = true ->
  2 <= countb p l.
Proof.
  intros A p l.
  induction l as [|a l IH]; intros i j x y Hij Hi Hj Hx Hy.
  - destruct i; discriminate Hi.
  - destruct i as [|i]; destruct j as [|j]; simpl in Hi, Hj |- *.
    + exfalso. apply Hij. reflexivity.
    + injection Hi as Hax. subst a. rewrite Hx. simpl.
      pose proof (countb_nth_ge1 A p l j y Hj Hy) as H1. lia.
    + injection Hj as Hay. subst a. rewrite Hy. simpl.
      pose proof (countb_nth_ge1 A p l i x Hi Hx) as H1. lia.
    + assert (Hij' : i <> j) by (intro He; apply Hij; rewrite He; reflexivity).
      specialize (IH i j x y Hij' Hi Hj Hx Hy). lia.
Qed.

Lemma countb_map_false : forall A B (p : B -> bool) (f : A -> B) (l : list A),
  (forall a, p (f a) = false) -> countb p (map f l) = 0.
Proof.
  intros A B p f l Hf.
  induction l as [|a l IH]; simpl.
  - reflexivity.
  - rewrite Hf, IH. reflexivity.
Qed.

(* ------------------------------------------------------------------------------------ *)
(* what [protocol_ok] gives                                                              *)

Lemma protocol_ok_spec : forall mode_of, protocol_ok mode_of = true ->
  forall m, mode_of m <> NoLock /\ (mutates m = true -> mode_of m = Exclusive).
Proof.
  intros mode_of Hok m.
  unfold protocol_ok in Hok. simpl in Hok.
  repeat rewrite andb_true_iff in Hok.
  destruct Hok as (H1 & H2 & H3 & H4 & _).
  destruct m; simpl.
  - destruct (mode_of MAlloc); split; intros; try discriminate; reflexivity.
  - destruct (mode_of MFree); split; intros; try discriminate; reflexivity.
  - destruct (mode_of MFreeAll); split; intros; try discriminate; reflexivity.
  - destruct (mode_of MCount); split; intros; try discriminate; reflexivity.
Qed.

(* ------------------------------------------------------------------------------------ *)
(* the invariant                                                                         *)

Section Invariant.
  Variable mode_of : meth -> mode.

  (* thread holds the mutex exclusively / shared *)
  Definition isW (t : tstate) : bool :=
    match t with
    | Inside m _ => match mode_of m with Exclusive => true | _ => false end
    | Idle _ => false
    end.
  Definition isR (t : tstate) : bool :=
    match t with
    | Inside m _ => match mode_of m with Shared => true | _ => false end
    | Idle _ => false
    end.

  Definition Inv (s : st) : Prop :=
    countb isW (ths s) = b2n (writer (mx s)) /\
    countb isR (ths s) = readers (mx s) /\
    (writer (mx s) = true -> readers (mx s) = 0).

  Lemma Inv_init : forall progs, Inv (init progs).
  Proof.
    intros progs. unfold Inv, init. simpl.
    split; [|split].
    - apply countb_map_false. intros a. reflexivity.
    - apply countb_map_false. intros a. reflexivity.
    - intros H. reflexivity.
  Qed.

  Lemma Inv_step : forall s i, Inv s -> Inv (step mode_of s i).
  Proof.
    intros [[rd wr] l] i (HW & HR & HX).
    simpl in HW, HR, HX.
    unfold step. simpl.
    destruct (nth_error l i) as [t|] eqn:Hn.
    2:{ unfold Inv. simpl. auto. }
    destruct t as [[|m rest]|m rest].
    - unfold Inv. simpl. auto.
    - (* acquire *)
      pose proof (countb_set_nth _ isW l i _ (Inside m rest) Hn) as CW.
      pose proof (countb_set_nth _ isR l i _ (Inside m rest) Hn) as CR.
      simpl in CW, CR.
      unfold try_acquire. simpl.
      destruct (mode_of m) eqn:Hm.
      + (* Shared *)
        destruct wr.
        * unfold Inv. simpl. auto.
        * unfold Inv. simpl. simpl in CW, CR, HW.
          split; [|split].
          -- lia.
          -- lia.
          -- intros Hf. discriminate Hf.
      + (* Exclusive *)
        destruct wr.
        * unfold Inv. simpl. auto.
        * destruct rd as [|rd].
          -- unfold Inv. simpl. simpl in CW, CR, HW.
             split; [|split].
             ++ lia.
             ++ lia.
             ++ intros _. reflexivity.
          -- unfold Inv. simpl. auto.
      + (* NoLock *)
        unfold Inv. simpl. simpl in CW, CR.
        split; [|split].
        * lia.
        * lia.
        * exact HX.
    - (* release *)
      pose proof (countb_set_nth _ isW l i _ (Idle rest) Hn) as CW.
      pose proof (countb_set_nth _ isR l i _ (Idle rest) Hn) as CR.
      simpl in CW, CR.
      unfold release. simpl.
      destruct (mode_of m) eqn:Hm.
      + (* Shared *)
        unfold Inv. simpl. simpl in CW, CR.
        split; [|split].
        * lia.
        * lia.
        * intros Hw. specialize (HX Hw). lia.
      + (* Exclusive *)
        unfold Inv. simpl. simpl in CW, CR.
        destruct wr; simpl in HW.
        * split; [|split].
          -- lia.
          -- lia.
          -- intros Hf. discriminate Hf.
        * exfalso. lia.
      + (* NoLock *)
        unfold Inv. simpl. simpl in CW, CR.
        split; [|split].
        * lia.
        * lia.
        * exact HX.
  Qed.

  Lemma Inv_fold : forall sched s, Inv s -> Inv (fold_left (step mode_of) sched s).
  Proof.
    intros sched.
    induction sched as [|i sched IH]; intros s Hs; simpl.
    - exact Hs.
    - apply IH. apply Inv_step. exact Hs.
  Qed.

  Lemma Inv_run : forall progs sched, Inv (run mode_of progs sched).
  Proof.
    intros progs sched. unfold run. apply Inv_fold. apply Inv_init.
  Qed.

  (* in a state satisfying the invariant: a thread holding the mutex exclusively excludes
     every other thread from being inside under any lock *)
  Lemma Inv_writer_alone : forall s i j mi ri mj rj,
    Inv s ->
    (forall m, mode_of m <> NoLock) ->
    i <> j ->
    nth_error (ths s) i = Some (Inside mi ri) ->
    nth_error (ths s) j = Some (Inside mj rj) ->
    mode_of mi = Exclusive ->
    False.
  Proof.
    intros s i j mi ri mj rj (HW & HR & HX) Hnl Hij Hi Hj Hmi.
    assert (Wi : isW (Inside mi ri) = true) by (simpl; rewrite Hmi; reflexivity).
    pose proof (countb_nth_ge1 _ isW _ _ _ Hi Wi) as G1.
    destruct (writer (mx s)) eqn:Hw; simpl in HW.
    2:{ lia. }
    specialize (HX eq_refl).
    destruct (mode_of mj) eqn:Hmj.
    - assert (Rj : isR (Inside mj rj) = true) by (simpl; rewrite Hmj; reflexivity).
      pose proof (countb_nth_ge1 _ isR _ _ _ Hj Rj) as G2. lia.
    - assert (Wj : isW (Inside mj rj) = true) by (simpl; rewrite Hmj; reflexivity).
      pose proof (countb_two_ge2 _ isW _ _ _ _ _ Hij Hi Hj Wi Wj) as G2. lia.
    - exact (Hnl mj Hmj).
  Qed.
End Invariant.

(* ------------------------------------------------------------------------------------ *)
(* 1. the protocol excludes conflicts, for every number of threads, every program and     *)
(*    every schedule                                                                     *)

Theorem exclusive_protocol_excludes_conflicts :
  forall mode_of, protocol_ok mode_of = true ->
  forall (progs : list (list meth)) (sched : list nat),
    ~ conflict (run mode_of progs sched).
Proof.
  intros mode_of Hok progs sched Hc.
  pose proof (protocol_ok_spec mode_of Hok) as Hspec.
  assert (Hnl : forall m, mode_of m <> NoLock) by (intros m; apply (Hspec m)).
  pose proof (Inv_run mode_of progs sched) as HI.
  destruct Hc as (i & j & mi & ri & mj & rj & Hij & Hi & Hj & Hmut).
  apply orb_true_iff in Hmut.
  destruct Hmut as [Hmi | Hmj].
  - apply (Inv_writer_alone mode_of _ i j mi ri mj rj HI Hnl Hij Hi Hj).
    apply (Hspec mi). exact Hmi.
  - assert (Hji : j <> i) by (intro He; apply Hij; rewrite He; reflexivity).
    apply (Inv_writer_alone mode_of _ j i mj rj mi ri HI Hnl Hji Hj Hi).
    apply (Hspec mj). exact Hmj.
Qed.

(* ------------------------------------------------------------------------------------ *)
(* 2. the executable check is sound: a [conflictb] witness is a real conflict            *)

Definition il (l : list tstate) : list meth :=
  flat_map (fun t => match t with Inside m _ => [m] | Idle _ => [] end) l.

Lemma il_nth : forall l a m,
  nth_error (il l) a = Some m ->
  exists i r, nth_error l i = Some (Inside m r).
Proof.
  intros l.
  induction l as [|t l IH]; intros a m Ha.
  - destruct a; discriminate Ha.
  - destruct t as [todo | m0 r0]; simpl in Ha.
    + destruct (IH a m Ha) as (i & r & Hi).
      exists (S i), r. exact Hi.
    + destruct a as [|a]; simpl in Ha.
      * injection Ha as Hm. subst m0. exists 0, r0. reflexivity.
      * destruct (IH a m Ha) as (i & r & Hi).
        exists (S i), r. exact Hi.
Qed.

Lemma il_nth2 : forall l a b ma mb,
  a < b ->
  nth_error (il l) a = Some ma ->
  nth_error (il l) b = Some mb ->
  exists i j ra rb, i < j /\
    nth_error l i = Some (Inside ma ra) /\
    nth_error l j = Some (Inside mb rb).
Proof.
  intros l.
  induction l as [|t l IH]; intros a b ma mb Hab Ha Hb.
  - destruct a; discriminate Ha.
  - destruct t as [todo | m0 r0]; simpl in Ha, Hb.
    + destruct (IH a b ma mb Hab Ha Hb) as (i & j & ra & rb & Hij & Hi & Hj).
      exists (S i), (S j), ra, rb. simpl. split; [|split]; try assumption. lia.
    + destruct b as [|b]; [lia|].
      simpl in Hb.
      destruct a as [|a]; simpl in Ha.
      * injection Ha as Hm. subst m0.
        destruct (il_nth l b mb Hb) as (j & rb & Hj).
        exists 0, (S j), r0, rb. simpl. split; [lia|split; [reflexivity|assumption]].
      * assert (Hab' : a < b) by lia.
        destruct (IH a b ma mb Hab' Ha Hb) as (i & j & ra & rb & Hij & Hi & Hj).
        exists (S i), (S j), ra, rb. simpl. split; [|split]; try assumption. lia.
Qed.

Theorem conflictb_sound : forall s, conflictb s = true -> conflict s.
Proof.
  intros s Hb.
  unfold conflictb, inside_list in Hb.
  fold (il (ths s)) in Hb.
  destruct (il (ths s)) as [|m1 [|m2 rest]] eqn:Hil; try discriminate Hb.
  apply existsb_exists in Hb.
  destruct Hb as (x & Hin & Hx).
  apply In_nth_error in Hin.
  destruct Hin as (c & Hc).
  destruct c as [|c].
  - (* the mutating method is the first one inside; pair it with the second *)
    simpl in Hc. injection Hc as Hm. subst x.
    destruct (il_nth2 (ths s) 0 1 m1 m2) as (i & j & ra & rb & Hij & Hi & Hj).
    + lia.
    + rewrite Hil. reflexivity.
    + rewrite Hil. reflexivity.
    + exists i, j, m1, ra, m2, rb.
      split; [|split; [|split]]; try assumption.
      * lia.
      * rewrite Hx. reflexivity.
  - (* otherwise pair the first one inside with the mutating one *)
    destruct (il_nth2 (ths s) 0 (S c) m1 x) as (i & j & ra & rb & Hij & Hi & Hj).
    + lia.
    + rewrite Hil. reflexivity.
    + rewrite Hil. exact Hc.
    + exists i, j, m1, ra, x, rb.
      split; [|split; [|split]]; try assumption.
      * lia.
      * rewrite Hx. apply orb_true_r.
Qed.

(* ------------------------------------------------------------------------------------ *)
(* 3. the lock modes the C++ had before the fix: Alloc/Free/FreeAll under a SHARED lock  *)

Definition old_modes (m : meth) : mode :=
  match m with MCount => Exclusive | _ => Shared end.

Lemma old_modes_not_ok : protocol_ok old_modes = false.
Proof. reflexivity. Qed.

Theorem shared_mode_allows_conflict :
  exists progs sched, conflict (run old_modes progs sched).
Proof.
  exists [[MAlloc]; [MAlloc]], [0; 1].
  apply conflictb_sound. vm_compute. reflexivity.
Qed.

(* ------------------------------------------------------------------------------------ *)
(* 4. a method that forgets the lock                                                     *)

Definition nolock_modes (m : meth) : mode :=
  match m with MFree => NoLock | _ => Exclusive end.

Lemma nolock_modes_not_ok : protocol_ok nolock_modes = false.
Proof. reflexivity. Qed.

Theorem no_lock_allows_conflict :
  exists progs sched, conflict (run nolock_modes progs sched).
Proof.
  exists [[MAlloc]; [MFree]], [0; 1].
  apply conflictb_sound. vm_compute. reflexivity.
Qed.

Print Assumptions exclusive_protocol_excludes_conflicts.
Print Assumptions conflictb_sound.
Print Assumptions shared_mode_allows_conflict.
Print Assumptions no_lock_allows_conflict.
