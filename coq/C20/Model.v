(* C20/Model.v — the lock protocol of the process-wide pools (MEM::BlockAllocSafe, the
   allocator behind every con::set / con::map entry) as a transition system.

   A std::shared_mutex is (number of readers, writer flag).  Every OS thread repeatedly
   calls pool methods; a call acquires the mutex in the mode the C++ method uses (the table
   [mode_of] is GENERATED from include/morfuse/Common/MEM/BlockAlloc.h on every run, see
   C20/Generated.v), runs its body (one or more steps inside the critical section) and
   releases.  The scheduler is an arbitrary sequence of thread indices: every interleaving
   of every number of threads is a schedule.  A step that cannot acquire is a stutter. *)
From Coq Require Import List Bool Arith.
Import ListNotations.

Inductive mode := Shared | Exclusive | NoLock.
Inductive meth := MAlloc | MFree | MFreeAll | MCount.

(* which methods write the pool's data structures *)
Definition mutates (m : meth) : bool :=
  match m with MCount => false | _ => true end.

Record mutex := mkMx { readers : nat; writer : bool }.

Inductive tstate :=
| Idle (todo : list meth)
| Inside (m : meth) (todo : list meth).

Record st := mkSt { mx : mutex; ths : list tstate }.

Definition init (progs : list (list meth)) : st :=
  mkSt (mkMx 0 false) (map Idle progs).

Fixpoint set_nth {A} (l : list A) (i : nat) (v : A) : list A :=
  match l, i with
  | [], _ => []
  | _ :: l', O => v :: l'
  | x :: l', S j => x :: set_nth l' j v
  end.

Section WithModes.
  Variable mode_of : meth -> mode.

  Definition try_acquire (k : mutex) (md : mode) : option mutex :=
    match md with
    | NoLock => Some k
    | Shared => if writer k then None else Some (mkMx (S (readers k)) false)
    | Exclusive => if writer k then None
                   else match readers k with O => Some (mkMx 0 true) | S _ => None end
    end.

  Definition release (k : mutex) (md : mode) : mutex :=
    match md with
    | NoLock => k
    | Shared => mkMx (pred (readers k)) (writer k)
    | Exclusive => mkMx (readers k) false
    end.

  (* one step of thread i *)
  Definition step (s : st) (i : nat) : st :=
    match nth_error (ths s) i with
    | None => s
    | Some (Idle []) => s
    | Some (Idle (m :: rest)) =>
        match try_acquire (mx s) (mode_of m) with
        | Some k' => mkSt k' (set_nth (ths s) i (Inside m rest))
        | None => s                                   (* blocked *)
        end
    | Some (Inside m rest) =>
        mkSt (release (mx s) (mode_of m)) (set_nth (ths s) i (Idle rest))
    end.

  Definition run (progs : list (list meth)) (sched : list nat) : st :=
    fold_left step sched (init progs).

  (* two different threads are inside the pool at once and at least one of them writes *)
  Definition conflict (s : st) : Prop :=
    exists i j mi ri mj rj, i <> j /\
      nth_error (ths s) i = Some (Inside mi ri) /\
      nth_error (ths s) j = Some (Inside mj rj) /\
      (mutates mi || mutates mj) = true.

  (* executable version for witnesses *)
  Definition inside_list (s : st) : list meth :=
    flat_map (fun t => match t with Inside m _ => [m] | Idle _ => [] end) (ths s).
  Definition conflictb (s : st) : bool :=
    match inside_list s with
    | [] | [_] => false
    | l => existsb mutates l
    end.
End WithModes.

(* the protocol the property needs: every method that writes takes the exclusive mode,
   a method that only reads takes any lock *)
Definition protocol_ok (mode_of : meth -> mode) : bool :=
  forallb (fun m => match mode_of m, mutates m with
                    | Exclusive, _ => true
                    | Shared, false => true
                    | _, _ => false
                    end) [MAlloc; MFree; MFreeAll; MCount].
