(* C20/Audit.v — which process-wide objects two engines on different OS threads can both touch.

   The table of objects is GENERATED (C20/Generated.v, [global_audit]) on every run from the
   static library built from the current tree: every object symbol that lives in a writable
   section, with the kind assigned to it by props/C20_audit.json (thread-local objects are
   recognised by their ELF type).  This file states what each kind allows an engine thread
   to do with such an object while engines run, and proves that under these rules the only
   pairs of accesses by different threads that touch the same storage with a write among
   them are accesses to a locked pool made inside its critical section - the pairs that
   C20_current_pools_never_conflict shows are never simultaneous.  No proofs of the
   property theorems are in this file's users other than by [exact]. *)
From Coq Require Import List Bool Arith.
Import ListNotations.

Inductive gkind :=
| ThreadLocal      (* one instance per OS thread *)
| LockedPool       (* accessed only inside BlockAllocSafe's critical sections *)
| InitOnly         (* written only during (guarded) initialisation, read afterwards *)
| HostConfig       (* written only by the host before engines run, read afterwards *)
| Sink             (* written with values nobody reads *)
| Unaccounted.     (* no rule: anything may happen *)

Definition accounted (k : gkind) : bool :=
  match k with Unaccounted => false | _ => true end.

(* an access made by an engine thread while engines run *)
Record access := mkAcc {
  a_thread : nat;        (* the OS thread *)
  a_global : nat;        (* index of the object in the audit table *)
  a_write : bool;
  a_in_pool_section : bool   (* made inside a BlockAllocSafe method, i.e. holding its lock *)
}.

(* what an engine thread may do with an object of a given kind *)
Definition allowed (k : gkind) (a : access) : bool :=
  match k with
  | ThreadLocal => true
  | LockedPool => a_in_pool_section a
  | InitOnly | HostConfig => negb (a_write a)
  | Sink => true
  | Unaccounted => true
  end.

(* the storage an access touches: a thread-local object has one instance per thread *)
Definition storage (k : gkind) (a : access) : nat * option nat :=
  (a_global a, match k with ThreadLocal => Some (a_thread a) | _ => None end).

Section Table.
  Variable kinds : list gkind.
  Definition kind_of (g : nat) : gkind := nth g kinds Unaccounted.

  (* two accesses by different threads to the same storage, one of them a write, whose
     outcome somebody can observe *)
  Definition interfere (a b : access) : Prop :=
    a_thread a <> a_thread b /\
    a_global a = a_global b /\
    storage (kind_of (a_global a)) a = storage (kind_of (a_global b)) b /\
    (a_write a || a_write b) = true /\
    kind_of (a_global a) <> Sink.

  Definition all_accounted : bool := forallb accounted kinds.

  Lemma kind_of_accounted : all_accounted = true -> forall g, g < length kinds -> kind_of g <> Unaccounted.
  Proof.
    unfold all_accounted, kind_of. intros H g Hg Hk.
    rewrite forallb_forall in H.
    assert (Hin : In (nth g kinds Unaccounted) kinds) by (apply nth_In; exact Hg).
    apply H in Hin. rewrite Hk in Hin. discriminate.
  Qed.

  (* the only interfering pairs are pool accesses made inside the critical sections *)
  Theorem interference_only_inside_locked_pools :
    all_accounted = true ->
    forall a b, a_global a < length kinds ->
      allowed (kind_of (a_global a)) a = true ->
      allowed (kind_of (a_global b)) b = true ->
      interfere a b ->
      kind_of (a_global a) = LockedPool /\ a_in_pool_section a = true /\ a_in_pool_section b = true.
  Proof.
    intros Hacc a b Hlt Ha Hb [Hth [Hg [Hst [Hw Hns]]]].
    pose proof (kind_of_accounted Hacc _ Hlt) as Hk.
    rewrite <- Hg in Hb, Hst.
    destruct (kind_of (a_global a)) eqn:K; cbn in *.
    - (* ThreadLocal: distinct instances *) unfold storage in Hst. inversion Hst as [[Hg' Ht']]. exfalso. apply Hth. exact Ht'.
    - auto.
    - (* InitOnly *) apply negb_true_iff in Ha, Hb. rewrite Ha, Hb in Hw. discriminate.
    - apply negb_true_iff in Ha, Hb. rewrite Ha, Hb in Hw. discriminate.
    - exfalso. apply Hns. reflexivity.
    - exfalso. apply Hk. reflexivity.
  Qed.
End Table.

(* why the table has to be complete: with one unaccounted object two threads can interfere
   outside any lock *)
Theorem unaccounted_object_allows_interference :
  exists a b, allowed (kind_of [Unaccounted] (a_global a)) a = true /\
              allowed (kind_of [Unaccounted] (a_global b)) b = true /\
              interfere [Unaccounted] a b /\ a_in_pool_section a = false.
Proof.
  exists (mkAcc 0 0 true false), (mkAcc 1 0 false false).
  unfold interfere, kind_of; cbn. repeat split; try reflexivity; try discriminate.
Qed.
