(* C01/Proofs.v - part 1: the script table refines the total-map specification, for every
   history; consequences: a rejection leaves the master usable.  (Part 2 is in ProofsJump.v) *)
From Coq Require Import NArith List Bool Lia.
From Morfuse Require Import C01.Generated C01.Model C01.Spec.
Import ListNotations.
Local Open Scope N_scope.

(* ---------------------------------------------------------------- association lists *)

Lemma tfind_tset t n e k :
  tfind (tset t n e) k = if N.eqb k n then Some e else tfind t k.
Proof.
  induction t as [|[k0 e0] r IH]; cbn [tset tfind].
  - rewrite (N.eqb_sym n k). reflexivity.
  - destruct (N.eqb_spec k0 n) as [E0|E0]; cbn [tfind].
    + subst k0. rewrite (N.eqb_sym n k). destruct (N.eqb k n); reflexivity.
    + destruct (N.eqb_spec k0 k) as [E1|E1].
      * subst k0. destruct (N.eqb_spec k n) as [E|E]; [congruence|reflexivity].
      * exact IH.
Qed.

Lemma tfind_tremove t n k :
  tfind (tremove t n) k = if N.eqb k n then None else tfind t k.
Proof.
  induction t as [|[k0 e0] r IH]; cbn [tremove tfind].
  - now destruct (N.eqb k n).
  - destruct (N.eqb_spec k0 n) as [E0|E0].
    + subst k0. rewrite IH. rewrite (N.eqb_sym n k). destruct (N.eqb k n); reflexivity.
    + cbn [tfind]. destruct (N.eqb_spec k0 k) as [E1|E1].
      * subst k0. destruct (N.eqb_spec k n) as [E|E]; [congruence|reflexivity].
      * exact IH.
Qed.

(* ---------------------------------------------------------------- simulation *)

Definition R (m : mst) (a : sst) : Prop :=
  (forall n, tfind (tbl m) n = stbl a n) /\ (forall n, ffind (files m) n = sfiles a n).

Definition abs (m : mst) : sst := mkS1 (tfind (tbl m)) (ffind (files m)).

Lemma R_abs m : R m (abs m).
Proof. split; intro; reflexivity. Qed.

Lemma R_init : R minit sinit.
Proof. split; intro; reflexivity. Qed.

(* closes  R (model state) (spec state)  goals after the definitions are unfolded *)
Ltac solveR Ht Hf E :=
  unfold R; cbn [tbl files stbl sfiles fst snd]; split;
  [ let x := fresh "x" in intro x; rewrite ?tfind_tset, ?tfind_tremove; unfold upd;
    repeat match goal with
           | |- context [N.eqb x ?k] =>
               let Hx := fresh "Hx" in destruct (N.eqb_spec x k) as [Hx|Hx]; [subst x|]
           end;
    try reflexivity; try congruence; rewrite <- ?Ht; try exact E; try reflexivity; try (symmetry; exact E)
  | try exact Hf; intro; try apply Hf ].

Lemma load_sim m a n s :
  R m a -> R (fst (load m n s)) (fst (sload a n s)) /\ snd (load m n s) = snd (sload a n s).
Proof.
  intros [Ht Hf]. destruct s as [tag|k]; cbn [load sload fst snd]; (split; [|reflexivity]); solveR Ht Hf Ht.
Qed.

Lemma compile_sim m a n rc s :
  R m a -> R (fst (compile m n rc s)) (fst (scompile a n rc s)) /\ snd (compile m n rc s) = snd (scompile a n rc s).
Proof.
  intro HR. pose proof HR as [Ht Hf]. unfold compile, scompile. rewrite <- (Ht n).
  destruct (tfind (tbl m) n) as [[|tag]|] eqn:E; destruct rc; cbn [fst snd];
    try (split; [exact HR|reflexivity]); try (apply load_sim; exact HR);
    destruct s as [tg|k]; cbn [load sload fst snd tbl files]; (split; [|reflexivity]); solveR Ht Hf E.
Qed.

Lemma request_sim m a n rc :
  R m a -> R (fst (request m n rc)) (fst (srequest a n rc)) /\ snd (request m n rc) = snd (srequest a n rc).
Proof.
  intro HR. pose proof HR as [Ht Hf]. unfold request, srequest. rewrite <- (Ht n).
  destruct (tfind (tbl m) n) as [[|tag]|] eqn:E; destruct rc; cbn [fst snd files];
    try (split; [exact HR|reflexivity]);
    rewrite (Hf n); destruct (sfiles a n) as [[tg|k]|] eqn:Ef;
    unfold compile; cbn [tbl files]; rewrite ?tfind_tremove, ?N.eqb_refl, ?E;
    cbn [load sload fst snd tbl files]; (split; [|reflexivity]); solveR Ht Hf E.
Qed.

Lemma step_sim m a o :
  R m a -> R (fst (step m o)) (fst (sstep a o)) /\ snd (step m o) = snd (sstep a o).
Proof.
  intro HR. pose proof HR as [Ht Hf]. destruct o as [n s|n rc s|n rc|n|n|]; cbn [step sstep].
  - split; [|reflexivity]. split; cbn [fst tbl files stbl sfiles]; [exact Ht|].
    intro x. cbn [ffind]. unfold upd. rewrite N.eqb_sym. destruct (N.eqb x n); [reflexivity|apply Hf].
  - apply compile_sim; exact HR.
  - apply request_sim; exact HR.
  - rewrite <- (Ht n). destruct (tfind (tbl m) n) as [[|tag]|]; (split; [exact HR|reflexivity]).
  - destruct (request_sim m a n false HR) as [H1 H2].
    destruct (request m n false) as [m1 o1]. destruct (srequest a n false) as [a1 o1'].
    cbn [fst snd] in H1, H2. subst o1'. destruct o1; (split; [exact H1|reflexivity]).
  - split; [|reflexivity]. split; cbn [fst tbl files stbl sfiles]; [reflexivity|exact Hf].
Qed.

Lemma run_from_sim ops : forall m a, R m a -> run_from m ops = spec_from a ops.
Proof.
  induction ops as [|o r IH]; intros m a HR; [reflexivity|].
  cbn [run_from spec_from]. destruct (step_sim m a o HR) as [H1 H2].
  destruct (step m o) as [m1 b]. destruct (sstep a o) as [a1 b']. cbn [fst snd] in H1, H2. subst b'.
  f_equal. apply IH. exact H1.
Qed.

Theorem run_refines_spec : forall ops, run ops = spec_run ops.
Proof. intro ops. apply run_from_sim. exact R_init. Qed.

(* ---------------------------------------------------------------- non-interference *)

Definition agree (n : N) (a1 a2 : sst) : Prop :=
  (forall x, x <> n -> stbl a1 x = stbl a2 x) /\ (forall x, sfiles a1 x = sfiles a2 x).

Lemma sload_agree n a1 a2 k s :
  agree n a1 a2 -> k <> n ->
  snd (sload a1 k s) = snd (sload a2 k s) /\ agree n (fst (sload a1 k s)) (fst (sload a2 k s)).
Proof.
  intros [Ht Hf] Hk. destruct s; cbn [sload fst snd]; (split; [reflexivity|]); (split; cbn [stbl sfiles]; [|exact Hf]);
    intros x Hx; unfold upd; destruct (N.eqb x k); try reflexivity; apply Ht; exact Hx.
Qed.

Lemma sstep_agree n a1 a2 o :
  agree n a1 a2 -> op_name o <> Some n ->
  snd (sstep a1 o) = snd (sstep a2 o) /\ agree n (fst (sstep a1 o)) (fst (sstep a2 o)).
Proof.
  intros HA Hn0. pose proof HA as [Ht Hf].
  destruct o as [k s|k rc s|k rc|k|k|]; cbn [op_name] in Hn0; cbn [sstep];
    try (assert (Hn : k <> n) by congruence);
    [| | | | |split; [reflexivity|split; cbn [fst stbl sfiles]; [reflexivity|exact Hf]]].
  - split; [reflexivity|]. split; cbn [fst stbl sfiles]; [exact Ht|].
    intro x. unfold upd. destruct (N.eqb x k); [reflexivity|apply Hf].
  - unfold scompile. rewrite <- (Ht k Hn).
    destruct (stbl a1 k) as [[|tag]|]; destruct rc; cbn [fst snd];
      try (split; [reflexivity|exact HA]); apply sload_agree; assumption.
  - unfold srequest. rewrite <- (Ht k Hn), <- (Hf k).
    assert (Hrm : agree n (mkS1 (upd (stbl a1) k None) (sfiles a1)) (mkS1 (upd (stbl a2) k None) (sfiles a2))).
    { split; cbn [stbl sfiles]; [|exact Hf]. intros x Hx. unfold upd. destruct (N.eqb x k); [reflexivity|apply Ht; exact Hx]. }
    destruct (stbl a1 k) as [[|tag]|]; destruct rc; cbn [fst snd];
      try (split; [reflexivity|exact HA]);
      destruct (sfiles a1 k) as [s|]; try (apply sload_agree; assumption); (split; [reflexivity|exact Hrm]).
  - rewrite <- (Ht k Hn). destruct (stbl a1 k) as [[|tag]|]; (split; [reflexivity|exact HA]).
  - assert (H : snd (srequest a1 k false) = snd (srequest a2 k false)
                /\ agree n (fst (srequest a1 k false)) (fst (srequest a2 k false))).
    { unfold srequest. rewrite <- (Ht k Hn), <- (Hf k).
      assert (Hrm : agree n (mkS1 (upd (stbl a1) k None) (sfiles a1)) (mkS1 (upd (stbl a2) k None) (sfiles a2))).
      { split; cbn [stbl sfiles]; [|exact Hf]. intros x Hx. unfold upd. destruct (N.eqb x k); [reflexivity|apply Ht; exact Hx]. }
      destruct (stbl a1 k) as [[|tag]|]; cbn [fst snd];
        try (split; [reflexivity|exact HA]);
        destruct (sfiles a1 k) as [s|]; try (apply sload_agree; assumption); (split; [reflexivity|exact Hrm]). }
    destruct H as [H1 H2].
    destruct (srequest a1 k false) as [b1 o1]. destruct (srequest a2 k false) as [b2 o2].
    cbn [fst snd] in H1, H2. subst o2. destruct o1; (split; [reflexivity|exact H2]).
Qed.

Lemma spec_from_agree n ops : forall a1 a2,
  agree n a1 a2 -> (forall o, In o ops -> op_name o <> Some n) -> spec_from a1 ops = spec_from a2 ops.
Proof.
  induction ops as [|o r IH]; intros a1 a2 HA Hn; [reflexivity|].
  cbn [spec_from]. destruct (sstep_agree n a1 a2 o HA (Hn o (or_introl eq_refl))) as [H1 H2].
  destruct (sstep a1 o) as [b1 o1]. destruct (sstep a2 o) as [b2 o2]. cbn [fst snd] in H1, H2. subst o2.
  f_equal. apply IH; [exact H2|]. intros o' Hin. apply Hn. now right.
Qed.

(* ---------------------------------------------------------------- the property *)

(* For EVERY state m of the script table (in particular every state reachable by a history),
   every name n, recompile flag and rejection class: when the stream-variant compile of n is
   really performed and rejected, then *)
Theorem reject_leaves_master_usable :
  forall (m : mst) (n : N) (rc : bool) (k : N),
    snd (step m (OCompile n rc (Reject k))) = BRejected k ->
    let m' := fst (step m (OCompile n rc (Reject k))) in
    (* the name maps to Failed, every other entry and every file is unchanged *)
    tfind (tbl m') n = Some Failed
    /\ (forall x, x <> n -> tfind (tbl m') x = tfind (tbl m) x)
    /\ (forall x, ffind (files m') x = ffind (files m) x)
    (* asking again - by stream, by name, by ExecuteThread(name) - reports "not loaded"; a run sees a failed script *)
    /\ (forall s, snd (step m' (OCompile n false s)) = BNotLoaded)
    /\ snd (step m' (ORequest n false)) = BNotLoaded
    /\ snd (step m' (OExec n)) = BNotLoaded
    /\ snd (step m' (ORun n)) = BFailed
    (* every later history about other names observes what it observes on the table without the entry *)
    /\ (forall ops, (forall o, In o ops -> op_name o <> Some n) ->
          run_from m' ops = run_from (mkM (tremove (tbl m) n) (files m)) ops).
Proof.
  intros m n rc k Hrej m'.
  assert (Hshape : (forall x, tfind (tbl m') x = if N.eqb x n then Some Failed else tfind (tbl m) x)
                   /\ files m' = files m).
  { subst m'. revert Hrej. cbn [step]. unfold compile.
    destruct (tfind (tbl m) n) as [[|tag]|] eqn:E; destruct rc; cbn [load fst snd tbl files]; intro Hrej; try discriminate.
    - split; [|reflexivity]. intro x. rewrite tfind_tset, tfind_tremove. destruct (N.eqb x n); reflexivity.
    - split; [|reflexivity]. intro x. rewrite tfind_tset, tfind_tremove. destruct (N.eqb x n); reflexivity.
    - split; [|reflexivity]. intro x. rewrite tfind_tset. reflexivity.
    - split; [|reflexivity]. intro x. rewrite tfind_tset. reflexivity. }
  destruct Hshape as [Hs Hf].
  assert (Hn : tfind (tbl m') n = Some Failed) by (rewrite Hs, N.eqb_refl; reflexivity).
  repeat split.
  - exact Hn.
  - intros x Hx. rewrite Hs. destruct (N.eqb_spec x n) as [E|E]; [contradiction|reflexivity].
  - intro x. now rewrite Hf.
  - intro s. cbn [step]. unfold compile. now rewrite Hn.
  - cbn [step]. unfold request. now rewrite Hn.
  - cbn [step]. unfold request. now rewrite Hn.
  - cbn [step]. now rewrite Hn.
  - intros ops Hops.
    rewrite (run_from_sim ops m' (abs m') (R_abs m')).
    rewrite (run_from_sim ops _ (abs (mkM (tremove (tbl m) n) (files m))) (R_abs _)).
    apply (spec_from_agree n); [|exact Hops].
    split; cbn [abs stbl sfiles tbl files].
    + intros x Hx. rewrite Hs, tfind_tremove. destruct (N.eqb_spec x n) as [E|E]; [contradiction|reflexivity].
    + intro x. now rewrite Hf.
Qed.

(* the states of the theorem above include every reachable one: a direct corollary for histories *)
Corollary reject_after_any_history :
  forall (pre post : list op) (n k : N) (rc : bool),
    nth_error (run (pre ++ [OCompile n rc (Reject k)])) (length pre) = Some (BRejected k) ->
    (forall o, In o post -> op_name o <> Some n) ->
    forall s, nth_error (run (pre ++ OCompile n rc (Reject k) :: OCompile n false s :: post)) (S (length pre)) = Some BNotLoaded.
Proof.
  intros pre post n k rc Hrej Hpost s. unfold run in *.
  assert (G : forall ops m,
             nth_error (run_from m (ops ++ [OCompile n rc (Reject k)])) (length ops) = Some (BRejected k) ->
             nth_error (run_from m (ops ++ OCompile n rc (Reject k) :: OCompile n false s :: post)) (S (length ops)) = Some BNotLoaded).
  { induction ops as [|o r IH]; intros m H.
    - cbn [app length run_from nth_error] in *.
      destruct (step m (OCompile n rc (Reject k))) as [m1 b] eqn:E1. cbn [nth_error] in H. injection H as ->.
      pose proof (reject_leaves_master_usable m n rc k) as T. rewrite E1 in T. cbn [fst snd] in T.
      destruct (T eq_refl) as (_ & _ & _ & T4 & _).
      specialize (T4 s). destruct (step m1 (OCompile n false s)) as [m2 b2]. cbn [snd] in T4. subst b2. reflexivity.
    - cbn [app length run_from nth_error] in *. destruct (step m o) as [m1 b]. cbn [nth_error] in *. apply IH. exact H. }
  apply G. exact Hrej.
Qed.
