(* C01/Generated.v - GENERATED on every run by props/C01_gen.py from src/Script/Compiler.h and
   src/Script/Compiler.cpp of the current tree.  Do not edit. *)
From Coq Require Import NArith.
Local Open Scope N_scope.

(* which of the two jump tables / counters / limits / overflow errors *)
Inductive which := WB | WC.
(* how a nested counting emitter gets a flag: constant, or the enclosing emitter's current value *)
Inductive flagsrc := FTrue | FFalse | FInherit.

Definition break_limit : N := 100.
Definition continue_limit : N := 100.
Definition btab_size : N := 100.  (* apucBreakJumpLocations[BREAK_JUMP_LOCATION_COUNT] *)
Definition ctab_size : N := 100.  (* apucContinueJumpLocations[CONTINUE_JUMP_LOCATION_COUNT] *)

(* AddBreakJumpLocation: if (iBreakJumpLocCount < BREAK_JUMP_LOCATION_COUNT) apucBreakJumpLocations[iBreakJumpLocCount++] = pos; else { iBreakJumpLocCount = 0; throw BreakJumpLocOverflow } *)
Definition add_break_cnt := WB.
Definition add_break_lim := WB.
Definition add_break_tab := WB.
Definition add_break_exc := WB.
(* AddContinueJumpLocation: if (iContinueJumpLocCount < CONTINUE_JUMP_LOCATION_COUNT) apucContinueJumpLocations[iContinueJumpLocCount++] = pos; else { iContinueJumpLocCount = 0; throw ContinueJumpLocOverflow } *)
Definition add_continue_cnt := WC.
Definition add_continue_lim := WC.
Definition add_continue_tab := WC.
Definition add_continue_exc := WC.

(* ProcessBreakJumpLocations(start): if (iBreakJumpLocCount > start) do { iBreakJumpLocCount--; patch apucBreakJumpLocations[iBreakJumpLocCount] } while (iBreakJumpLocCount > start) *)
Definition proc_break_cnt := WB.
Definition proc_break_tab := WB.
Definition proc_break_idx := WB.
(* ProcessContinueJumpLocations(start): if (iContinueJumpLocCount > start) do { iContinueJumpLocCount--; patch apucContinueJumpLocations[iContinueJumpLocCount] } while (iContinueJumpLocCount > start) *)
Definition proc_continue_cnt := WC.
Definition proc_continue_tab := WC.
Definition proc_continue_idx := WC.

Definition switch_sub_depth : N := 18446744073709551615.   (* EmitSwitch: ScriptEmitter emitter(countManager, .., info): default maxDepth *)
Definition switch_sub_in_counting_pass : bool := false.   (* is EmitSwitch's nested count also run when the manager only counts? *)
Definition switch_sub_canbreak := FTrue.
Definition switch_sub_cancontinue := FInherit.
Definition catch_sub_in_counting_pass : bool := false.
Definition catch_sub_canbreak := FInherit.
Definition catch_sub_cancontinue := FInherit.
Definition max_depth : N := 18446744073709551615.   (* size_t maxDepth = -1 *)
