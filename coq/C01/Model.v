(* C01/Model.v - executable model of the two pieces of the compilation path whose
   behaviour is a state machine (the lexer, the parser and the emitter's byte output are
   NOT modelled: totality and memory safety of those are sampled under ASan by the harness).

   Part 1 - the script table of ScriptMaster (src/Script/ScriptMaster.cpp,
   src/Script/ProgramScript.cpp):
     GetProgramScript(name, stream, recompile)   [stream variant]
       scr = FindScript(name);
       if (scr && !recompile) { if (!scr->IsCompileSuccess()) throw "was not properly loaded"; return scr; }
       if (scr && recompile) DeleteProgramScript(scr);
       GetProgramScriptInternal: m_ProgramScripts[name] = new ProgramScript (successCompile = false:
       the entry is registered BEFORE compilation); scr->Load(stream): on success successCompile = true,
       on a parse/compile error the catch ladder closes the script and rethrows: the entry stays, failed.
     GetProgramScript(name, recompile)           [file variant, used by ExecuteThread(name), exec, thread]
       scr = FindScript(name);
       if (scr && !recompile) { if (!scr->IsCompileSuccess()) throw "was not properly loaded"; return scr; }
       if (scr && recompile) DeleteProgramScript(scr);
       file = OpenFile(name) (throws NotFound - AFTER the deletion); then the stream variant.
     ExecuteThread(name) = file variant, then run the returned script from GetProgBuffer().
   Abstracted: con::map is an association list (C18's subject); a source text is its outcome
   (Accept tag = compiles and, when run, prints tag; Reject k = rejected with error class k):
   what the compiler does with a text is an input of this machine.

   Part 2 - the break/continue jump tables of ScriptEmitter (src/Script/Compiler.cpp:
   AddBreakJumpLocation, AddContinueJumpLocation, ProcessBreakJumpLocations,
   ProcessContinueJumpLocations, EmitBreak, EmitContinue, EmitWhileJump, EmitDoWhileJump,
   EmitSwitch, EmitCatch, EmitValue's StackDepth guard) over loop skeletons: programs made of
   break, continue, a filler assignment, while(1){..}, do{..}while(1), switch(1){case 1: ..},
   try{..}catch{..}, if(local.a){..}.  Same order of updates: counts saved at loop entry,
   continue table processed after the body, break table after the loop; the switch records its own
   exit jump in the break table; EmitSwitch and EmitCatch first run a NESTED emitter with fresh
   tables and counts over the body (depth budget and canBreak/canContinue as translated into
   Generated.v: constant or inherited from the enclosing emitter) whose only surviving effect is
   an exception; every EmitValue call consumes one unit
   of the depth budget while it runs.  Which counter guards/indexes which table, the limits
   and the nested depth come from Generated.v (translated from the source on every run).
   Abstracted: a recorded code position is the ordinal (nloc) of the jump that records it;
   "patching" a location records which construct (pre-order ordinal of loops and switches)
   patched it, and how often.  A compilation is the counting pass (Preallocate, manager
   IsCounting() = true) followed by the emitting pass (EmitProgram, IsCounting() = false) of the
   same ScriptEmitter code; the nested emitters always count.  The uint16_t counters never exceed
   the limits (100), so no wrap-around is modelled. *)
From Coq Require Import NArith List Bool.
From Morfuse Require Import Base.Arr C01.Generated.
Import ListNotations.
Local Open Scope N_scope.

(* ------------------------------------------------------------------ Part 1: script table *)

Inductive src := Accept (tag : N) | Reject (kind : N).

Inductive entry := Failed | Loaded (tag : N).

Inductive op :=
| OSetFile (name : N) (s : src)                 (* the host's file manager serves s under name *)
| OCompile (name : N) (recompile : bool) (s : src)   (* stream variant *)
| ORequest (name : N) (recompile : bool)        (* file variant *)
| ORun (name : N)                               (* FindScript; IsCompileSuccess; ExecuteThread(scr) *)
| OExec (name : N)                              (* ExecuteThread(name) *)
| OReset.                                       (* ScriptMaster::Reset(): every script is destroyed; the host's files stay *)

Inductive obs :=
| BDone                (* OSetFile, OReset *)
| BOk (tag : N)        (* a successfully compiled script was returned: the one printing tag *)
| BRejected (kind : N) (* the compile error was thrown to the caller *)
| BNotLoaded           (* ScriptException "was not properly loaded" *)
| BNoFile              (* FileExceptions::NotFound *)
| BAbsent | BFailed    (* ORun: no entry / failed entry *)
| BRan (tag : N).      (* the script ran and printed tag *)

Definition table := list (N * entry).

Fixpoint tfind (t : table) (n : N) : option entry :=
  match t with
  | [] => None
  | (k, e) :: r => if N.eqb k n then Some e else tfind r n
  end.

Fixpoint tremove (t : table) (n : N) : table :=
  match t with
  | [] => []
  | (k, e) :: r => if N.eqb k n then tremove r n else (k, e) :: tremove r n
  end.

(* m_ProgramScripts[name] = scr : replace or add *)
Fixpoint tset (t : table) (n : N) (e : entry) : table :=
  match t with
  | [] => [(n, e)]
  | (k, e') :: r => if N.eqb k n then (k, e) :: r else (k, e') :: tset r n e
  end.

Record mst := mkM { tbl : table; files : list (N * src) }.

Definition minit : mst := mkM [] [].

Fixpoint ffind (f : list (N * src)) (n : N) : option src :=
  match f with
  | [] => None
  | (k, s) :: r => if N.eqb k n then Some s else ffind r n
  end.

(* GetProgramScriptInternal after FindScript returned null: register, then Load *)
Definition load (m : mst) (n : N) (s : src) : mst * obs :=
  let t1 := tset (tbl m) n Failed in                 (* registered with successCompile = false *)
  match s with
  | Accept tag => (mkM (tset t1 n (Loaded tag)) (files m), BOk tag)
  | Reject k => (mkM t1 (files m), BRejected k)
  end.

Definition compile (m : mst) (n : N) (rc : bool) (s : src) : mst * obs :=
  match tfind (tbl m) n, rc with
  | Some Failed, false => (m, BNotLoaded)
  | Some (Loaded tag), false => (m, BOk tag)
  | Some _, true => load (mkM (tremove (tbl m) n) (files m)) n s
  | None, _ => load m n s
  end.

Definition request (m : mst) (n : N) (rc : bool) : mst * obs :=
  match tfind (tbl m) n, rc with
  | Some Failed, false => (m, BNotLoaded)
  | Some (Loaded tag), false => (m, BOk tag)
  | found, _ =>
      let m1 := match found with Some _ => mkM (tremove (tbl m) n) (files m) | None => m end in
      match ffind (files m1) n with
      | None => (m1, BNoFile)
      | Some s => compile m1 n rc s
      end
  end.

Definition step (m : mst) (o : op) : mst * obs :=
  match o with
  | OSetFile n s => (mkM (tbl m) ((n, s) :: files m), BDone)
  | OCompile n rc s => compile m n rc s
  | ORequest n rc => request m n rc
  | ORun n =>
      match tfind (tbl m) n with
      | None => (m, BAbsent)
      | Some Failed => (m, BFailed)
      | Some (Loaded tag) => (m, BRan tag)
      end
  | OExec n =>
      let (m1, o1) := request m n false in
      match o1 with
      | BOk tag => (m1, BRan tag)
      | other => (m1, other)
      end
  | OReset => (mkM [] (files m), BDone)
  end.

Fixpoint run_from (m : mst) (ops : list op) : list obs :=
  match ops with
  | [] => []
  | o :: r => let (m1, b) := step m o in b :: run_from m1 r
  end.

Definition run (ops : list op) : list obs := run_from minit ops.

(* the state after a history *)
Fixpoint state_after (m : mst) (ops : list op) : mst :=
  match ops with
  | [] => m
  | o :: r => state_after (fst (step m o)) r
  end.

(* ------------------------------------------------------------------ Part 2: jump tables *)

Inductive stmt :=
| SBreak | SContinue | SFill
| SWhile (b : stmts) | SDo (b : stmts) | SSwitch (b : stmts)
| STry (t c : stmts) | SIf (b : stmts)
with stmts := SNil | SCons (s : stmt) (r : stmts).

Inductive err := EIllegalBreak | EIllegalContinue | EOverflow (w : which) | EStackOverflow.

Inductive res (A : Type) := Ok (a : A) | Err (e : err).
Arguments Ok {A} a.
Arguments Err {A} e.

Definition bind {A B} (r : res A) (f : A -> res B) : res B :=
  match r with Ok a => f a | Err e => Err e end.

Inductive ev :=
| EvWrite (w : which) (idx : N) (loc : N)                    (* TAB[idx] = pos *)
| EvPatch (w : which) (idx : N) (loc : option N) (owner : N). (* SetValueAtCodePosition(TAB[idx], ..) *)

Record est := mkE {
  counting : bool;                         (* manager.IsCounting(): a ScriptCountManager (true) or the ScriptProgramManager (false) *)
  bcnt : N; ccnt : N;                      (* iBreakJumpLocCount, iContinueJumpLocCount *)
  btab : arr (option N); ctab : arr (option N);   (* apucBreakJumpLocations, apucContinueJumpLocations *)
  canB : bool; canC : bool;                (* canBreak, canContinue *)
  depth : N;                               (* ScriptEmitter::depth *)
  nloc : N;                                (* next jump ordinal = the abstract code position *)
  ncons : N;                               (* next construct ordinal *)
  mown : arr (option N);                   (* location -> construct that patched it last *)
  npatch : arr N;                          (* location -> number of patches *)
  log : list ev }.

Definition fresh (k cb cc : bool) (d : N) : est :=
  mkE k 0 0 (aempty None) (aempty None) cb cc d 0 0 (aempty None) (aempty 0) [].

Definition flag_of (f : flagsrc) (cur : bool) : bool :=
  match f with FTrue => true | FFalse => false | FInherit => cur end.

Definition cnt (w : which) (s : est) : N := match w with WB => bcnt s | WC => ccnt s end.
Definition tab (w : which) (s : est) : arr (option N) := match w with WB => btab s | WC => ctab s end.
Definition lim (w : which) : N := match w with WB => break_limit | WC => continue_limit end.

Definition set_cnt (w : which) (v : N) (s : est) : est :=
  match w with
  | WB => mkE (counting s) v (ccnt s) (btab s) (ctab s) (canB s) (canC s) (depth s) (nloc s) (ncons s) (mown s) (npatch s) (log s)
  | WC => mkE (counting s) (bcnt s) v (btab s) (ctab s) (canB s) (canC s) (depth s) (nloc s) (ncons s) (mown s) (npatch s) (log s)
  end.
Definition set_tab (w : which) (t : arr (option N)) (s : est) : est :=
  match w with
  | WB => mkE (counting s) (bcnt s) (ccnt s) t (ctab s) (canB s) (canC s) (depth s) (nloc s) (ncons s) (mown s) (npatch s) (log s)
  | WC => mkE (counting s) (bcnt s) (ccnt s) (btab s) t (canB s) (canC s) (depth s) (nloc s) (ncons s) (mown s) (npatch s) (log s)
  end.
Definition set_flags (cb cc : bool) (s : est) : est :=
  mkE (counting s) (bcnt s) (ccnt s) (btab s) (ctab s) cb cc (depth s) (nloc s) (ncons s) (mown s) (npatch s) (log s).
Definition set_depth (d : N) (s : est) : est :=
  mkE (counting s) (bcnt s) (ccnt s) (btab s) (ctab s) (canB s) (canC s) d (nloc s) (ncons s) (mown s) (npatch s) (log s).
Definition set_nloc (v : N) (s : est) : est :=
  mkE (counting s) (bcnt s) (ccnt s) (btab s) (ctab s) (canB s) (canC s) (depth s) v (ncons s) (mown s) (npatch s) (log s).
Definition set_ncons (v : N) (s : est) : est :=
  mkE (counting s) (bcnt s) (ccnt s) (btab s) (ctab s) (canB s) (canC s) (depth s) (nloc s) v (mown s) (npatch s) (log s).
Definition add_log (e : ev) (s : est) : est :=
  mkE (counting s) (bcnt s) (ccnt s) (btab s) (ctab s) (canB s) (canC s) (depth s) (nloc s) (ncons s) (mown s) (npatch s) (e :: log s).
Definition set_own (o : arr (option N)) (p : arr N) (s : est) : est :=
  mkE (counting s) (bcnt s) (ccnt s) (btab s) (ctab s) (canB s) (canC s) (depth s) (nloc s) (ncons s) o p (log s).

(* Add*JumpLocation(pos) with the wiring (counter, limit, table, exception) of Generated.v:
   if (CNT < LIM) TAB[CNT++] = pos; else { CNT = 0; throw EXC }   (the state of a throw is dropped) *)
Definition add_loc (wc wl wt we : which) (pos : N) (s : est) : res est :=
  if cnt wc s <? lim wl then
    let i := cnt wc s in
    Ok (set_cnt wc (i + 1) (add_log (EvWrite wt i pos) (set_tab wt (set (tab wt s) i (Some pos)) s)))
  else Err (EOverflow we).

(* one patch: SetValueAtCodePosition(TAB[IDX], offset to here) done by construct owner *)
Definition patch (wt wi : which) (owner : N) (s : est) : est :=
  let i := cnt wi s in
  let l := get (tab wt s) i in
  let s1 := add_log (EvPatch wt i l owner) s in
  match l with
  | Some p => set_own (set (mown s1) p (Some owner)) (set (npatch s1) p (get (npatch s1) p + 1)) s1
  | None => s1                                   (* a null pointer would be written through: see Proofs *)
  end.

(* do { CNT--; patch TAB[IDX] } while (CNT > start): k = CNT - start iterations *)
Fixpoint patch_down (k : nat) (wc wt wi : which) (owner : N) (s : est) : est :=
  match k with
  | O => s
  | S k' => patch_down k' wc wt wi owner (patch wt wi owner (set_cnt wc (cnt wc s - 1) s))
  end.

(* Process*JumpLocations(start) *)
Definition process (wc wt wi : which) (start owner : N) (s : est) : est :=
  if start <? cnt wc s then patch_down (N.to_nat (cnt wc s - start)) wc wt wi owner s else s.

Definition process_break := process proc_break_cnt proc_break_tab proc_break_idx.
Definition process_continue := process proc_continue_cnt proc_continue_tab proc_continue_idx.

(* EmitBreak / EmitContinue: the jump gets the next ordinal as its position *)
Definition emit_break (s : est) : res est :=
  if canB s then
    add_loc add_break_cnt add_break_lim add_break_tab add_break_exc (nloc s) (set_nloc (nloc s + 1) s)
  else Err EIllegalBreak.

Definition emit_continue (s : est) : res est :=
  if canC s then
    add_loc add_continue_cnt add_continue_lim add_continue_tab add_continue_exc (nloc s) (set_nloc (nloc s + 1) s)
  else Err EIllegalContinue.

(* EmitValue's StackDepth guard around the emission of one node *)
Definition with_depth (s : est) (f : est -> res est) : res est :=
  if depth s =? 0 then Err EStackOverflow
  else bind (f (set_depth (depth s - 1) s)) (fun s' => Ok (set_depth (depth s) s')).

(* a node without children that matter (integer condition, field condition, case label,
   the None node of an absent increment statement or of an empty compound) *)
Definition leaf (s : est) : res est := with_depth s (fun s1 => Ok s1).

Fixpoint emit_stmt (x : stmt) (s : est) {struct x} : res est :=
  with_depth s (fun s1 =>
    match x with
    | SBreak => emit_break s1
    | SContinue => emit_continue s1
    | SFill => leaf s1                                         (* EmitValue(rhs); the lhs is a plain local *)
    | SWhile b =>
        let id := ncons s1 in
        bind (leaf (set_ncons (id + 1) s1)) (fun s2 =>         (* EmitValue(while_expr) *)
        let ob := canB s2 in let oc := canC s2 in
        let bc := bcnt s2 in let cc := ccnt s2 in
        bind (emit_block b (set_flags true true s2)) (fun s3 =>
        let s4 := process_continue cc id s3 in
        let s5 := set_flags (canB s4) oc s4 in
        bind (leaf s5) (fun s6 =>                              (* EmitValue(inc_stmt): a None node *)
        let s7 := process_break bc id s6 in
        Ok (set_flags ob (canC s7) s7))))
    | SDo b =>
        let id := ncons s1 in
        let s2 := set_ncons (id + 1) s1 in
        let ob := canB s2 in let oc := canC s2 in
        let bc := bcnt s2 in let cc := ccnt s2 in
        bind (emit_block b (set_flags true true s2)) (fun s3 =>
        let s4 := process_continue cc id s3 in
        let s5 := set_flags (canB s4) oc s4 in
        bind (leaf s5) (fun s6 =>                              (* EmitValue(while_expr) *)
        let s7 := process_break bc id s6 in
        Ok (set_flags ob (canC s7) s7)))
    | SSwitch b =>
        let id := ncons s1 in
        bind (leaf (set_ncons (id + 1) s1)) (fun s2 =>         (* EmitValue(switch expr) *)
        (* nested counting emitter (skipped when this manager only counts, unless Generated.v says otherwise):
           fresh tables, flags/depth of Generated.v; EmitRoot(body) *)
        bind (if counting s2 && negb switch_sub_in_counting_pass then Ok s2
              else emit_cases b (fresh true (flag_of switch_sub_canbreak (canB s2)) (flag_of switch_sub_cancontinue (canC s2))
                                       switch_sub_depth)) (fun _ =>
        let ob := canB s2 in let bc := bcnt s2 in
        bind (emit_break (set_flags true (canC s2) s2)) (fun s3 =>   (* the switch's own exit jump *)
        bind (emit_cases b s3) (fun s4 =>
        let s5 := process_break bc id s4 in
        Ok (set_flags ob (canC s5) s5)))))
    | STry t c =>
        bind (emit_block t s1) (fun s2 =>
        (* EmitCatch: nested counting emitter (same guard), fresh tables, flags of Generated.v; EmitRoot(catch body) *)
        bind (if counting s2 && negb catch_sub_in_counting_pass then Ok s2
              else emit_block c (fresh true (flag_of catch_sub_canbreak (canB s2)) (flag_of catch_sub_cancontinue (canC s2))
                                       max_depth)) (fun _ =>
        emit_block c s2))
    | SIf b =>
        bind (leaf s1) (fun s2 => emit_block b s2)             (* EmitValue(cond); EmitIfJump -> EmitValue(body) *)
    end)
(* a compound statement: { } is a None node, otherwise a StatementList node *)
with emit_block (b : stmts) (s : est) {struct b} : res est :=
  with_depth s (fun s1 =>
    match b with
    | SNil => Ok s1
    | SCons x r => bind (emit_stmt x s1) (fun s2 => emit_list r s2)
    end)
(* the body of a switch: StatementList [case 1: ; body] *)
with emit_cases (b : stmts) (s : est) {struct b} : res est :=
  with_depth s (fun s1 => bind (leaf s1) (fun s2 =>
    match b with
    | SNil => Ok s2
    | SCons x r => bind (emit_stmt x s2) (fun s3 => emit_list r s3)
    end))
with emit_list (b : stmts) (s : est) {struct b} : res est :=
  match b with
  | SNil => Ok s
  | SCons x r => bind (emit_stmt x s) (fun s1 => emit_list r s1)
  end.

(* the whole program: label main, the statements, end  (a StatementList node at the root) *)
Definition emit_root (k : bool) (p : stmts) : res est :=
  let s0 := fresh k false false max_depth in
  with_depth s0 (fun s1 =>
    bind (leaf s1) (fun s2 =>                 (* main: *)
    bind (emit_list p s2) (fun s3 => leaf s3)))   (* end *)
.

(* observable outcome of compiling a skeleton: the error, or for every jump ordinal the
   construct that patched it (None = never patched) and the number of patches *)
Fixpoint owners (k : nat) (i : N) (s : est) : list (option N * N) :=
  match k with
  | O => []
  | S k' => (get (mown s) i, get (npatch s) i) :: owners k' (i + 1) s
  end.

Inductive kout := KErr (e : err) | KOk (l : list (option N * N)).

(* ScriptCompiler::Compile: Preallocate runs the emitter on a ScriptCountManager, then EmitProgram
   runs it on the ScriptProgramManager; the first exception ends the compilation *)
Definition kcompile (p : stmts) : kout :=
  match emit_root true p with
  | Err e => KErr e
  | Ok _ =>
      match emit_root false p with
      | Err e => KErr e
      | Ok s => KOk (owners (N.to_nat (nloc s)) 0 s)
      end
  end.
