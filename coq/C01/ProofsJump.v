(* C01/ProofsJump.v - part 2: the jump-table discipline of ScriptEmitter over loop skeletons.
   Main invariant [Inv]: the pending entries of both tables are distinct unpatched locations,
   the entries above the base of the innermost construct belong (in the specification) to that
   construct, every other allocated location has been patched exactly once by its
   specification owner. *)
From Coq Require Import NArith List Bool Lia.
From Morfuse Require Import Base.Arr C01.Generated C01.Model C01.Spec.
Import ListNotations.
Local Open Scope N_scope.

(* ---------------------------------------------------------------- wiring (fails to compile when Generated.v changes) *)

Lemma wiring_break : process_break = process WB WB WB. Proof. reflexivity. Qed.
Lemma wiring_continue : process_continue = process WC WC WC. Proof. reflexivity. Qed.
Lemma wiring_emit_break s :
  emit_break s = if canB s then add_loc WB WB WB WB (nloc s) (set_nloc (nloc s + 1) s) else Err EIllegalBreak.
Proof. reflexivity. Qed.
Lemma wiring_emit_continue s :
  emit_continue s = if canC s then add_loc WC WC WC WC (nloc s) (set_nloc (nloc s + 1) s) else Err EIllegalContinue.
Proof. reflexivity. Qed.

Definition other (w : which) : which := match w with WB => WC | WC => WB end.

Lemma which_dec (w w' : which) : {w = w'} + {w <> w'}.
Proof. destruct w, w'; (now left) || (right; discriminate). Qed.

(* ---------------------------------------------------------------- add_loc *)

Lemma add_loc_ok w pos s s' :
  add_loc w w w w pos s = Ok s' ->
  cnt w s < lim w
  /\ cnt w s' = cnt w s + 1
  /\ tab w s' = set (tab w s) (cnt w s) (Some pos)
  /\ cnt (other w) s' = cnt (other w) s /\ tab (other w) s' = tab (other w) s
  /\ canB s' = canB s /\ canC s' = canC s /\ depth s' = depth s /\ nloc s' = nloc s /\ ncons s' = ncons s
  /\ mown s' = mown s /\ npatch s' = npatch s
  /\ log s' = EvWrite w (cnt w s) pos :: log s.
Proof.
  unfold add_loc. destruct (N.ltb_spec (cnt w s) (lim w)) as [Hlt|Hge]; [|discriminate].
  intro H. injection H as <-. destruct w; cbn; repeat split; try reflexivity; exact Hlt.
Qed.

Lemma add_loc_full w pos s :
  lim w <= cnt w s -> add_loc w w w w pos s = Err (EOverflow w).
Proof.
  intro H. unfold add_loc. destruct (N.ltb_spec (cnt w s) (lim w)) as [Hlt|Hge]; [lia|reflexivity].
Qed.

Lemma add_loc_room w pos s :
  cnt w s < lim w -> exists s', add_loc w w w w pos s = Ok s'.
Proof.
  intro H. unfold add_loc. destruct (N.ltb_spec (cnt w s) (lim w)) as [Hlt|Hge]; [eexists; reflexivity|lia].
Qed.

(* ---------------------------------------------------------------- patch / patch_down / process *)

Definition good_ev (e : ev) : Prop :=
  match e with
  | EvWrite w i _ => i < lim w
  | EvPatch w i l _ => i < lim w /\ l <> None
  end.
Definition good_log (l : list ev) : Prop := forall e, In e l -> good_ev e.

(* everything but counters of w, ownership and log is untouched by a process *)
Definition same_frame (s s' : est) : Prop :=
  btab s' = btab s /\ ctab s' = ctab s /\ canB s' = canB s /\ canC s' = canC s /\ depth s' = depth s
  /\ nloc s' = nloc s /\ ncons s' = ncons s.

Lemma patch_down_spec k w owner : forall s,
  N.of_nat k <= cnt w s -> cnt w s <= lim w ->
  (forall i, cnt w s - N.of_nat k <= i < cnt w s -> get (tab w s) i <> None) ->
  (forall i j, cnt w s - N.of_nat k <= i < cnt w s -> cnt w s - N.of_nat k <= j < cnt w s ->
               get (tab w s) i = get (tab w s) j -> i = j) ->
  good_log (log s) ->
  let s' := patch_down k w w w owner s in
  cnt w s' = cnt w s - N.of_nat k /\ cnt (other w) s' = cnt (other w) s /\ same_frame s s'
  /\ good_log (log s')
  /\ (forall loc, (forall i, cnt w s - N.of_nat k <= i < cnt w s -> get (tab w s) i <> Some loc) ->
                  get (mown s') loc = get (mown s) loc /\ get (npatch s') loc = get (npatch s) loc)
  /\ (forall i loc, cnt w s - N.of_nat k <= i < cnt w s -> get (tab w s) i = Some loc ->
                    get (mown s') loc = Some owner /\ get (npatch s') loc = get (npatch s) loc + 1).
Proof.
  induction k as [|k IH]; intros s Hk Hlim Hsome Hinj Hlog; cbn [patch_down].
  - cbn zeta. replace (cnt w s - N.of_nat 0) with (cnt w s) by (cbn; lia).
    split; [reflexivity|]. split; [reflexivity|]. split; [repeat split; reflexivity|]. split; [exact Hlog|]. split.
    + intros loc _. split; reflexivity.
    + intros i loc Hi. lia.
  - set (c := cnt w s) in *.
    assert (Hc : 1 <= c) by lia.
    set (s1 := set_cnt w (c - 1) s).
    assert (Hs1 : cnt w s1 = c - 1 /\ cnt (other w) s1 = cnt (other w) s /\ tab w s1 = tab w s
                  /\ mown s1 = mown s /\ npatch s1 = npatch s /\ log s1 = log s /\ same_frame s s1).
    { subst s1 c. destruct w; cbn; repeat split; reflexivity. }
    destruct Hs1 as (Hc1 & Ho1 & Ht1 & Hm1 & Hp1 & Hl1 & Hf1).
    destruct (get (tab w s) (c - 1)) as [p|] eqn:Ep; [|exfalso; apply (Hsome (c - 1)); [lia|exact Ep]].
    set (s2 := patch w w owner s1).
    assert (Hs2 : cnt w s2 = c - 1 /\ cnt (other w) s2 = cnt (other w) s /\ tab w s2 = tab w s /\ same_frame s s2
                  /\ mown s2 = set (mown s) p (Some owner)
                  /\ npatch s2 = set (npatch s) p (get (npatch s) p + 1)
                  /\ log s2 = EvPatch w (c - 1) (Some p) owner :: log s).
    { subst s2. unfold patch. rewrite Hc1, Ht1, Ep.
      destruct Hf1 as (F1 & F2 & F3 & F4 & F5 & F6 & F7).
      destruct w; cbn in *; rewrite ?Hm1, ?Hp1, ?Hl1; repeat split; try assumption; try reflexivity. }
    destruct Hs2 as (Hc2 & Ho2 & Ht2 & Hf2 & Hm2 & Hp2 & Hl2).
    assert (Hlog2 : good_log (log s2)).
    { intros e He. rewrite Hl2 in He. destruct He as [<-|He]; [|apply Hlog; exact He].
      cbn. split; [lia|discriminate]. }
    specialize (IH s2).
    rewrite Hc2, Ht2 in IH.
    assert (Hsub : c - 1 - N.of_nat k = c - N.of_nat (S k)) by lia.
    rewrite Hsub in IH.
    destruct IH as (I1 & I2 & I3 & I4 & I5 & I6).
    + lia.
    + lia.
    + intros i Hi. apply Hsome. lia.
    + intros i j Hi Hj. apply Hinj; lia.
    + exact Hlog2.
    + cbn zeta. fold s1. fold s2. split; [|split; [|split; [|split; [|split]]]].
      * rewrite I1. reflexivity.
      * rewrite I2. exact Ho2.
      * destruct I3 as (A1 & A2 & A3 & A4 & A5 & A6 & A7).
        destruct Hf2 as (B1 & B2 & B3 & B4 & B5 & B6 & B7).
        unfold same_frame. rewrite A1, A2, A3, A4, A5, A6, A7. repeat split; assumption.
      * exact I4.
      * intros loc Hloc.
        destruct (I5 loc) as [J1 J2]; [intros i Hi; apply Hloc; lia|].
        rewrite J1, J2, Hm2, Hp2.
        assert (p <> loc). { intro E. subst p. apply (Hloc (c - 1)); [lia|exact Ep]. }
        rewrite !gso by congruence. split; reflexivity.
      * intros i loc Hi Hloc.
        destruct (N.eq_dec i (c - 1)) as [->|Hne].
        -- rewrite Ep in Hloc. injection Hloc as ->.
           destruct (I5 loc) as [J1 J2].
           { intros j Hj Hjl. assert (j = c - 1); [apply Hinj; try lia; rewrite Hjl, Ep; reflexivity|lia]. }
           rewrite J1, J2, Hm2, Hp2, !gss. split; reflexivity.
        -- destruct (I6 i loc) as [J1 J2]; [lia|exact Hloc|].
           rewrite J1, J2, Hp2.
           assert (p <> loc).
           { intro E. subst p. assert (i = c - 1); [apply Hinj; try lia; rewrite Hloc, Ep; reflexivity|lia]. }
           rewrite gso by congruence. split; reflexivity.
Qed.

Lemma process_spec w start owner s :
  start <= cnt w s -> cnt w s <= lim w ->
  (forall i, start <= i < cnt w s -> get (tab w s) i <> None) ->
  (forall i j, start <= i < cnt w s -> start <= j < cnt w s -> get (tab w s) i = get (tab w s) j -> i = j) ->
  good_log (log s) ->
  let s' := process w w w start owner s in
  cnt w s' = start /\ cnt (other w) s' = cnt (other w) s /\ same_frame s s'
  /\ good_log (log s')
  /\ (forall loc, (forall i, start <= i < cnt w s -> get (tab w s) i <> Some loc) ->
                  get (mown s') loc = get (mown s) loc /\ get (npatch s') loc = get (npatch s) loc)
  /\ (forall i loc, start <= i < cnt w s -> get (tab w s) i = Some loc ->
                    get (mown s') loc = Some owner /\ get (npatch s') loc = get (npatch s) loc + 1).
Proof.
  intros Hs Hlim Hsome Hinj Hlog. unfold process.
  destruct (N.ltb_spec start (cnt w s)) as [Hlt|Hge].
  - pose proof (patch_down_spec (N.to_nat (cnt w s - start)) w owner s) as P.
    rewrite N2Nat.id in P.
    replace (cnt w s - (cnt w s - start)) with start in P by lia.
    apply P; try assumption. lia.
  - cbn zeta. assert (cnt w s = start) by lia.
    split; [assumption|]. split; [reflexivity|]. split; [repeat split; reflexivity|]. split; [exact Hlog|]. split.
    + intros loc _. split; reflexivity.
    + intros i loc Hi. lia.
Qed.

(* ---------------------------------------------------------------- specification: frame *)

Scheme stmt_mind := Induction for stmt Sort Prop
with stmts_mind := Induction for stmts Sort Prop.
Combined Scheme stmt_stmts_ind from stmt_mind, stmts_mind.

Lemma sp_frame :
  (forall x ob oc a, snloc a <= snloc (sp_stmt x ob oc a)
      /\ forall loc, loc < snloc a -> get (sown (sp_stmt x ob oc a)) loc = get (sown a) loc)
  /\ (forall b ob oc a, snloc a <= snloc (sp_list b ob oc a)
      /\ forall loc, loc < snloc a -> get (sown (sp_list b ob oc a)) loc = get (sown a) loc).
Proof.
  apply stmt_stmts_ind.
  - intros ob oc a. cbn [sp_stmt sjump snloc sown]. split; [lia|]. intros loc H. apply gso. lia.
  - intros ob oc a. cbn [sp_stmt sjump snloc sown]. split; [lia|]. intros loc H. apply gso. lia.
  - intros ob oc a. cbn [sp_stmt]. split; [lia|reflexivity].
  - intros b IH ob oc a. cbn [sp_stmt]. destruct (IH (Some (sncons a)) (Some (sncons a)) (snew a)) as [H1 H2].
    cbn [snew snloc sown] in *. split; [exact H1|exact H2].
  - intros b IH ob oc a. cbn [sp_stmt]. destruct (IH (Some (sncons a)) (Some (sncons a)) (snew a)) as [H1 H2].
    cbn [snew snloc sown] in *. split; [exact H1|exact H2].
  - intros b IH ob oc a. cbn [sp_stmt].
    destruct (IH (Some (sncons a)) oc (sjump (Some (sncons a)) (snew a))) as [H1 H2].
    cbn [snew sjump snloc sown] in *. split; [lia|].
    intros loc Hl. rewrite H2 by lia. apply gso. lia.
  - intros t IHt c IHc ob oc a. cbn [sp_stmt].
    destruct (IHt ob oc a) as [H1 H2]. destruct (IHc ob oc (sp_list t ob oc a)) as [H3 H4].
    split; [lia|]. intros loc Hl. rewrite H4 by lia. apply H2. exact Hl.
  - intros b IH ob oc a. cbn [sp_stmt]. apply IH.
  - intros ob oc a. cbn [sp_list]. split; [lia|reflexivity].
  - intros x IHx r IHr ob oc a. cbn [sp_list].
    destruct (IHx ob oc a) as [H1 H2]. destruct (IHr ob oc (sp_stmt x ob oc a)) as [H3 H4].
    split; [lia|]. intros loc Hl. rewrite H4 by lia. apply H2. exact Hl.
Qed.

(* ---------------------------------------------------------------- the invariant *)

Definition env := which -> option N.
Definition bases := which -> N.
Definition isSome {A} (o : option A) : bool := match o with Some _ => true | None => false end.
Definition updw {A} (f : which -> A) (w : which) (v : A) : which -> A :=
  fun w' => match w, w' with WB, WB => v | WC, WC => v | _, _ => f w' end.

Definition pending (s : est) (loc : N) : Prop := exists w i, i < cnt w s /\ get (tab w s) i = Some loc.

Record Inv0 (s : est) (a : sacc) (own : env) (base : bases) : Prop := mkInv0 {
  i_nloc : nloc s = snloc a;
  i_ncons : ncons s = sncons a;
  i_cnt : forall w, base w <= cnt w s /\ cnt w s <= lim w;
  i_ent : forall w i, i < cnt w s -> exists loc, get (tab w s) i = Some loc /\ loc < nloc s /\ get (npatch s) loc = 0;
  i_inj : forall w i w' j, i < cnt w s -> j < cnt w' s -> get (tab w s) i = get (tab w' s) j -> w = w' /\ i = j;
  i_fresh : forall loc, nloc s <= loc -> get (npatch s) loc = 0;
  i_own : forall w i loc, base w <= i < cnt w s -> get (tab w s) i = Some loc -> get (sown a) loc = own w;
  i_res : forall loc, loc < nloc s -> pending s loc \/ (get (mown s) loc = get (sown a) loc /\ get (npatch s) loc = 1);
  i_log : good_log (log s) }.

Definition Inv (s : est) (a : sacc) (own : env) (base : bases) : Prop :=
  Inv0 s a own base /\ canB s = isSome (own WB) /\ canC s = isSome (own WC).

(* two states that differ at most in flags and depth *)
Definition eqv (s s2 : est) : Prop :=
  bcnt s2 = bcnt s /\ ccnt s2 = ccnt s /\ btab s2 = btab s /\ ctab s2 = ctab s /\ nloc s2 = nloc s /\ ncons s2 = ncons s
  /\ mown s2 = mown s /\ npatch s2 = npatch s /\ log s2 = log s.

Lemma eqv_cnt s s2 w : eqv s s2 -> cnt w s2 = cnt w s.
Proof. intros (A & B & _). destruct w; assumption. Qed.
Lemma eqv_tab s s2 w : eqv s s2 -> tab w s2 = tab w s.
Proof. intros (_ & _ & A & B & _). destruct w; assumption. Qed.
Lemma eqv_refl s : eqv s s. Proof. repeat split. Qed.
Lemma eqv_trans s1 s2 s3 : eqv s1 s2 -> eqv s2 s3 -> eqv s1 s3.
Proof.
  intros (A1 & A2 & A3 & A4 & A5 & A6 & A7 & A8 & A9) (B1 & B2 & B3 & B4 & B5 & B6 & B7 & B8 & B9).
  unfold eqv. rewrite B1, B2, B3, B4, B5, B6, B7, B8, B9. repeat split; assumption.
Qed.
Lemma eqv_set_depth s d : eqv s (set_depth d s). Proof. repeat split. Qed.
Lemma eqv_set_flags s b c : eqv s (set_flags b c s). Proof. repeat split. Qed.

Lemma Inv0_eqv s s2 a own base : eqv s s2 -> Inv0 s a own base -> Inv0 s2 a own base.
Proof.
  intros E I. pose proof (fun w => eqv_cnt s s2 w E) as Hc. pose proof (fun w => eqv_tab s s2 w E) as Ht.
  destruct E as (_ & _ & _ & _ & En & Ek & Em & Ep & El). destruct I.
  constructor; unfold pending; intros; rewrite ?Hc, ?Ht, ?En, ?Ek, ?Em, ?Ep, ?El in *; eauto.
  - destruct (i_res0 loc) as [(w & i & H1 & H2)|H1]; [assumption| |right; exact H1].
    left. exists w, i. rewrite Hc, Ht. split; assumption.
Qed.

Definition weqb (w w' : which) : bool := match w, w' with WB, WB => true | WC, WC => true | _, _ => false end.
Lemma weqb_spec w w' : reflect (w = w') (weqb w w').
Proof. destruct w, w'; cbn; constructor; congruence. Qed.

Lemma updw_same {A} (f : which -> A) w v : updw f w v w = v.
Proof. destruct w; reflexivity. Qed.
Lemma updw_other {A} (f : which -> A) w w' v : w' <> w -> updw f w v w' = f w'.
Proof. destruct w, w'; cbn; congruence. Qed.

(* ---------------------------------------------------------------- recording a jump *)

Lemma add_inv w s a own base s' :
  Inv0 s a own base ->
  add_loc w w w w (nloc s) (set_nloc (nloc s + 1) s) = Ok s' ->
  Inv0 s' (sjump (own w) a) own base
  /\ (forall w', cnt w' s <= cnt w' s') /\ (forall w' i, i < cnt w' s -> get (tab w' s') i = get (tab w' s) i)
  /\ cnt (other w) s' = cnt (other w) s
  /\ canB s' = canB s /\ canC s' = canC s /\ depth s' = depth s.
Proof.
  intros I H. apply add_loc_ok in H.
  destruct H as (Hlt & Hc & Ht & Hoc & Hot & HcB & HcC & Hd & Hn & Hk & Hm & Hp & Hl).
  assert (Hc0 : forall w', cnt w' (set_nloc (nloc s + 1) s) = cnt w' s) by (intros []; reflexivity).
  assert (Ht0 : forall w', tab w' (set_nloc (nloc s + 1) s) = tab w' s) by (intros []; reflexivity).
  rewrite Hc0 in Hlt, Hc, Hoc, Hl. rewrite Ht0 in Ht, Hot. rewrite Hc0 in Ht.
  cbn [set_nloc nloc ncons mown npatch log canB canC depth] in Hn, Hk, Hm, Hp, Hl, HcB, HcC, Hd.
  assert (Hcnt : forall w', cnt w' s' = if weqb w' w then cnt w s + 1 else cnt w' s).
  { intro w'. destruct (weqb_spec w' w) as [->|Hne]; [exact Hc|]. destruct w, w'; try congruence; exact Hoc. }
  assert (Htab : forall w' i, get (tab w' s') i = if weqb w' w && (i =? cnt w s) then Some (nloc s) else get (tab w' s) i).
  { intros w' i. destruct (weqb_spec w' w) as [->|Hne]; cbn [andb].
    - rewrite Ht. rewrite get_set. reflexivity.
    - assert (tab w' s' = tab w' s) as -> by (destruct w, w'; try congruence; exact Hot). reflexivity. }
  destruct I.
  split; [|split; [|split; [|split; [|split; [|split]]]]]; try assumption.
  - constructor.
    + rewrite Hn. cbn [sjump snloc]. lia.
    + rewrite Hk. exact i_ncons0.
    + intro w'. rewrite Hcnt. destruct (i_cnt0 w') as [A B]. destruct (weqb_spec w' w) as [->|Hne]; lia.
    + intros w' i Hi. rewrite Hcnt in Hi. rewrite Htab, Hn, Hp.
      destruct (weqb_spec w' w) as [->|Hne]; cbn [andb].
      * destruct (N.eqb_spec i (cnt w s)) as [->|Hni].
        -- exists (nloc s). split; [reflexivity|]. split; [lia|]. apply i_fresh0. lia.
        -- destruct (i_ent0 w i) as (loc & L1 & L2 & L3); [lia|]. exists loc. split; [exact L1|]. split; [lia|exact L3].
      * destruct (i_ent0 w' i Hi) as (loc & L1 & L2 & L3). exists loc. split; [exact L1|]. split; [lia|exact L3].
    + intros w1 i w2 j Hi Hj. rewrite Hcnt in Hi, Hj. rewrite !Htab.
      destruct (weqb_spec w1 w) as [->|Hne1]; destruct (weqb_spec w2 w) as [->|Hne2]; cbn [andb].
      * destruct (N.eqb_spec i (cnt w s)) as [->|Hni]; destruct (N.eqb_spec j (cnt w s)) as [->|Hnj]; intro E.
        -- split; reflexivity.
        -- destruct (i_ent0 w j) as (loc & L1 & L2 & L3); [lia|]. rewrite L1 in E. injection E as E. lia.
        -- destruct (i_ent0 w i) as (loc & L1 & L2 & L3); [lia|]. rewrite L1 in E. injection E as E. lia.
        -- apply i_inj0; [lia|lia|exact E].
      * destruct (N.eqb_spec i (cnt w s)) as [->|Hni]; intro E.
        -- destruct (i_ent0 w2 j Hj) as (loc & L1 & L2 & L3). rewrite L1 in E. injection E as E. lia.
        -- apply i_inj0; [lia|exact Hj|exact E].
      * destruct (N.eqb_spec j (cnt w s)) as [->|Hnj]; intro E.
        -- destruct (i_ent0 w1 i Hi) as (loc & L1 & L2 & L3). rewrite L1 in E. injection E as E. lia.
        -- apply i_inj0; [exact Hi|lia|exact E].
      * apply i_inj0; assumption.
    + intros loc Hloc. rewrite Hp. apply i_fresh0. lia.
    + intros w' i loc Hi. rewrite Hcnt in Hi. rewrite Htab. cbn [sjump sown snloc].
      destruct (weqb_spec w' w) as [->|Hne]; cbn [andb].
      * destruct (N.eqb_spec i (cnt w s)) as [->|Hni]; intro E.
        -- injection E as <-. rewrite i_nloc0. apply gss.
        -- destruct (i_ent0 w i) as (l2 & L1 & L2 & L3); [lia|]. rewrite L1 in E. injection E as ->.
           rewrite gso by lia. apply (i_own0 w i); [lia|exact L1].
      * intro E. destruct (i_ent0 w' i) as (l2 & L1 & L2 & L3); [lia|]. rewrite L1 in E. injection E as ->.
        rewrite gso by lia. apply (i_own0 w' i); [lia|exact L1].
    + intros loc Hloc. rewrite Hn in Hloc. rewrite Hm, Hp. cbn [sjump sown].
      destruct (N.eq_dec loc (nloc s)) as [->|Hne].
      * left. exists w, (cnt w s). rewrite Hcnt, Htab.
        destruct (weqb_spec w w) as [_|F]; [|congruence]. cbn [andb]. rewrite N.eqb_refl. split; [lia|reflexivity].
      * destruct (i_res0 loc) as [(w' & i & P1 & P2)|[R1 R2]]; [lia| |].
        -- left. exists w', i. rewrite Hcnt, Htab. split.
           ++ destruct (weqb_spec w' w) as [->|Hnw]; lia.
           ++ destruct (weqb_spec w' w) as [->|Hnw]; cbn [andb]; [|exact P2].
              destruct (N.eqb_spec i (cnt w s)) as [->|Hni]; [lia|exact P2].
        -- right. rewrite gso by lia. split; assumption.
    + intros e He. rewrite Hl in He. destruct He as [<-|He]; [exact Hlt|apply i_log0; exact He].
  - intro w'. rewrite Hcnt. destruct (weqb_spec w' w) as [->|Hnw]; lia.
  - intros w' i Hi. rewrite Htab. destruct (weqb_spec w' w) as [->|Hne]; cbn [andb]; [|reflexivity].
    destruct (N.eqb_spec i (cnt w s)) as [->|Hni]; [lia|reflexivity].
Qed.

(* ---------------------------------------------------------------- closing a construct *)

Lemma close w s a own base id own_o base_o :
  Inv0 s a own base -> own w = Some id ->
  base_o <= base w ->
  (forall i loc, base_o <= i < base w -> get (tab w s) i = Some loc -> get (sown a) loc = own_o) ->
  let s' := process w w w (base w) id s in
  Inv0 s' a (updw own w own_o) (updw base w base_o)
  /\ cnt w s' = base w /\ cnt (other w) s' = cnt (other w) s /\ same_frame s s'.
Proof.
  intros I Hown Hbo Hout. destruct I.
  pose proof (process_spec w (base w) id s) as P.
  destruct P as (P1 & P2 & P3 & P4 & P5 & P6).
  - apply i_cnt0.
  - apply i_cnt0.
  - intros i Hi E. destruct (i_ent0 w i) as (loc & L1 & _); [lia|]. congruence.
  - intros i j Hi Hj E. apply (i_inj0 w i w j); [lia|lia|exact E].
  - exact i_log0.
  - cbn zeta. set (s' := process w w w (base w) id s) in *.
    assert (Hcnt : forall w', cnt w' s' = if weqb w' w then base w else cnt w' s).
    { intro w'. destruct (weqb_spec w' w) as [->|Hne]; [exact P1|]. destruct w, w'; try congruence; exact P2. }
    assert (Htab : forall w', tab w' s' = tab w' s).
    { pose proof P3 as (A & B & _). intros []; assumption. }
    assert (Hle : forall w', cnt w' s' <= cnt w' s).
    { intro w'. rewrite Hcnt. destruct (weqb_spec w' w) as [->|Hne]; [apply i_cnt0|lia]. }
    pose proof P3 as (_ & _ & _ & _ & _ & Pn & Pk).
    (* a location still pending in s' was not patched *)
    assert (Hkeep : forall w' i loc, i < cnt w' s' -> get (tab w' s) i = Some loc ->
                      get (mown s') loc = get (mown s) loc /\ get (npatch s') loc = get (npatch s) loc).
    { intros w' i loc Hi E. apply P5. intros j Hj Ej.
      destruct (i_inj0 w' i w j) as [-> ->]; [specialize (Hle w'); lia|lia|congruence|].
      rewrite Hcnt in Hi. destruct (weqb_spec w w) as [_|F]; [lia|congruence]. }
    split; [|split; [exact P1|split; [exact P2|exact P3]]].
    constructor.
    + rewrite Pn. exact i_nloc0.
    + rewrite Pk. exact i_ncons0.
    + intro w'. rewrite Hcnt. destruct (weqb_spec w' w) as [->|Hne].
      * rewrite updw_same. destruct (i_cnt0 w). lia.
      * rewrite updw_other by exact Hne. apply i_cnt0.
    + intros w' i Hi. rewrite Htab, Pn.
      destruct (i_ent0 w' i) as (loc & L1 & L2 & L3); [specialize (Hle w'); lia|].
      exists loc. split; [exact L1|]. split; [exact L2|].
      destruct (Hkeep w' i loc Hi L1) as [_ K]. rewrite K. exact L3.
    + intros w1 i w2 j Hi Hj. rewrite !Htab. apply i_inj0; [specialize (Hle w1); lia|specialize (Hle w2); lia].
    + intros loc Hloc. rewrite Pn in Hloc.
      destruct (P5 loc) as [_ K].
      { intros j Hj Ej. destruct (i_ent0 w j) as (l2 & L1 & L2 & _); [lia|]. rewrite L1 in Ej. injection Ej as ->. lia. }
      rewrite K. apply i_fresh0. exact Hloc.
    + intros w' i loc Hi. rewrite Htab. rewrite Hcnt in Hi.
      destruct (weqb_spec w' w) as [->|Hne].
      * rewrite updw_same in Hi. rewrite updw_same. intro E. apply (Hout i loc); [lia|exact E].
      * rewrite updw_other in Hi by exact Hne. rewrite updw_other by exact Hne. intro E. apply (i_own0 w' i); assumption.
    + intros loc Hloc. rewrite Pn in Hloc.
      destruct (i_res0 loc Hloc) as [(w' & i & Q1 & Q2)|[R1 R2]].
      * destruct (N.lt_ge_cases i (cnt w' s')) as [Hin|Hout'].
        -- left. exists w', i. rewrite Htab. split; assumption.
        -- right. rewrite Hcnt in Hout'.
           destruct (weqb_spec w' w) as [->|Hne]; [|lia].
           destruct (P6 i loc) as [M1 M2]; [lia|exact Q2|].
           destruct (i_ent0 w i Q1) as (l2 & L1 & _ & L3). rewrite L1 in Q2. injection Q2 as ->.
           rewrite M1, M2, L3. split; [|reflexivity].
           rewrite (i_own0 w i loc); [symmetry; exact Hown|lia|exact L1].
      * right. destruct (P5 loc) as [K1 K2].
        { intros j Hj Ej. destruct (i_ent0 w j) as (l2 & L1 & _ & L3); [lia|]. rewrite L1 in Ej. injection Ej as ->. lia. }
        rewrite K1, K2. split; assumption.
    + exact P4.
Qed.

(* ---------------------------------------------------------------- small facts about Inv0 / Inv *)

Lemma Inv0_ext s a own base own2 base2 :
  (forall w, own w = own2 w) -> (forall w, base w = base2 w) -> Inv0 s a own base -> Inv0 s a own2 base2.
Proof.
  intros E1 E2 I. destruct I. constructor; intros; rewrite <- ?E1, <- ?E2 in *; eauto.
Qed.

Lemma Inv0_snew s a own base :
  Inv0 s a own base -> Inv0 (set_ncons (ncons s + 1) s) (snew a) own base.
Proof.
  intro I. destruct I.
  assert (Hc : forall w, cnt w (set_ncons (ncons s + 1) s) = cnt w s) by (intros []; reflexivity).
  assert (Ht : forall w, tab w (set_ncons (ncons s + 1) s) = tab w s) by (intros []; reflexivity).
  constructor; unfold pending; cbn [set_ncons nloc ncons mown npatch log snew snloc sncons sown];
    intros; rewrite ?Hc, ?Ht in *; eauto.
  rewrite i_ncons0. reflexivity.
Qed.

Lemma Inv0_rebase w o s a own base :
  Inv0 s a own base -> Inv0 s a (updw own w o) (updw base w (cnt w s)).
Proof.
  intro I. destruct I. constructor; intros; eauto.
  - destruct (weqb_spec w0 w) as [->|Hne]; [rewrite updw_same|rewrite updw_other by exact Hne].
    + destruct (i_cnt0 w). lia.
    + apply i_cnt0.
  - destruct (weqb_spec w0 w) as [->|Hne].
    + rewrite updw_same in H. lia.
    + rewrite updw_other in H by exact Hne. rewrite updw_other by exact Hne. eapply i_own0; eauto.
Qed.

Lemma Inv_eqv s s2 a own base :
  eqv s s2 -> canB s2 = canB s -> canC s2 = canC s -> Inv s a own base -> Inv s2 a own base.
Proof.
  intros E B C (I & HB & HC). split; [eapply Inv0_eqv; eauto|]. rewrite B, C. split; assumption.
Qed.

(* what an emission may do to the tables of the state it started from *)
Definition Frame0 (s s' : est) (own : env) : Prop :=
  (forall w, cnt w s <= cnt w s') /\ (forall w i, i < cnt w s -> get (tab w s') i = get (tab w s) i)
  /\ (forall w, own w = None -> cnt w s' = cnt w s).

Lemma Frame0_refl s own : Frame0 s s own.
Proof. repeat split; intros; reflexivity || lia. Qed.

Lemma Frame0_trans s1 s2 s3 own : Frame0 s1 s2 own -> Frame0 s2 s3 own -> Frame0 s1 s3 own.
Proof.
  intros (A1 & A2 & A3) (B1 & B2 & B3). split; [|split].
  - intro w. specialize (A1 w). specialize (B1 w). lia.
  - intros w i Hi. rewrite B2 by (specialize (A1 w); lia). apply A2. exact Hi.
  - intros w Hw. rewrite B3, A3 by exact Hw. reflexivity.
Qed.

Lemma Frame0_eqv_l s s1 s' own : eqv s s1 -> Frame0 s1 s' own -> Frame0 s s' own.
Proof.
  intros E (A1 & A2 & A3). pose proof (fun w => eqv_cnt s s1 w E) as Hc. pose proof (fun w => eqv_tab s s1 w E) as Ht.
  split; [|split]; intros; rewrite <- ?Hc, <- ?Ht; eauto. apply A2. rewrite Hc. exact H.
Qed.

Lemma Frame0_ct_l s s1 s' own :
  (forall w, cnt w s1 = cnt w s) -> (forall w, tab w s1 = tab w s) -> Frame0 s1 s' own -> Frame0 s s' own.
Proof.
  intros Hc Ht (A1 & A2 & A3).
  split; [|split]; intros; rewrite <- ?Hc, <- ?Ht; eauto. apply A2. rewrite Hc. exact H.
Qed.

Lemma Frame0_eqv_r s s1 s' own : eqv s1 s' -> Frame0 s s1 own -> Frame0 s s' own.
Proof.
  intros E (A1 & A2 & A3). pose proof (fun w => eqv_cnt s1 s' w E) as Hc. pose proof (fun w => eqv_tab s1 s' w E) as Ht.
  split; [|split]; intros; rewrite ?Hc, ?Ht; eauto.
Qed.

(* ---------------------------------------------------------------- the depth guard *)

Lemma bind_ok {A B} (r : res A) (f : A -> res B) b : bind r f = Ok b -> exists a, r = Ok a /\ f a = Ok b.
Proof. destruct r as [a|e]; cbn; [eauto|discriminate]. Qed.

Lemma with_depth_ok s f s' :
  with_depth s f = Ok s' -> exists s1, f (set_depth (depth s - 1) s) = Ok s1 /\ s' = set_depth (depth s) s1.
Proof.
  unfold with_depth. destruct (depth s =? 0); [discriminate|]. intro H. apply bind_ok in H.
  destruct H as (s1 & H1 & H2). injection H2 as <-. eauto.
Qed.

Lemma leaf_ok s s' : leaf s = Ok s' -> eqv s s' /\ canB s' = canB s /\ canC s' = canC s /\ depth s' = depth s.
Proof.
  intro H. apply with_depth_ok in H. destruct H as (s1 & H1 & ->). injection H1 as <-.
  repeat split.
Qed.

(* the shape of every emit function: run f under the guard; f keeps Inv and Frame0 *)
Lemma guarded s f s' a' own base :
  with_depth s f = Ok s' ->
  (forall s1 s1', eqv s s1 -> canB s1 = canB s -> canC s1 = canC s -> f s1 = Ok s1' ->
                  Inv s1' a' own base /\ Frame0 s1 s1' own) ->
  Inv s' a' own base /\ Frame0 s s' own /\ depth s' = depth s.
Proof.
  intros H K. apply with_depth_ok in H. destruct H as (s1' & H1 & ->).
  destruct (K (set_depth (depth s - 1) s) s1' (eqv_set_depth _ _) eq_refl eq_refl H1) as [I F].
  split; [|split].
  - eapply Inv_eqv; [apply eqv_set_depth|reflexivity|reflexivity|exact I].
  - eapply Frame0_eqv_l; [apply eqv_set_depth|]. eapply Frame0_eqv_r; [apply eqv_set_depth|exact F].
  - reflexivity.
Qed.

Lemma emit_block_eq b s : emit_block b s = with_depth s (fun s1 => emit_list b s1).
Proof. destruct b; reflexivity. Qed.

Lemma emit_cases_eq b s : emit_cases b s = with_depth s (fun s1 => bind (leaf s1) (fun s2 => emit_list b s2)).
Proof. destruct b; reflexivity. Qed.

Definition Pl (b : stmts) : Prop :=
  forall s a own base s', Inv s a own base -> emit_list b s = Ok s' ->
    Inv s' (sp_list b (own WB) (own WC) a) own base /\ Frame0 s s' own.

Definition Ps (x : stmt) : Prop :=
  forall s a own base s', Inv s a own base -> emit_stmt x s = Ok s' ->
    Inv s' (sp_stmt x (own WB) (own WC) a) own base /\ Frame0 s s' own.

Lemma block_of_list b : Pl b ->
  forall s a own base s', Inv s a own base -> emit_block b s = Ok s' ->
    Inv s' (sp_list b (own WB) (own WC) a) own base /\ Frame0 s s' own /\ depth s' = depth s.
Proof.
  intros IH s a own base s' I H. rewrite emit_block_eq in H.
  eapply guarded; [exact H|]. intros s1 s1' E B C H1.
  eapply IH; [|exact H1]. eapply Inv_eqv; eauto.
Qed.

Lemma cases_of_list b : Pl b ->
  forall s a own base s', Inv s a own base -> emit_cases b s = Ok s' ->
    Inv s' (sp_list b (own WB) (own WC) a) own base /\ Frame0 s s' own /\ depth s' = depth s.
Proof.
  intros IH s a own base s' I H. rewrite emit_cases_eq in H.
  eapply guarded; [exact H|]. intros s1 s1' E B C H1.
  apply bind_ok in H1. destruct H1 as (s2 & L & H2). apply leaf_ok in L. destruct L as (E2 & B2 & C2 & _).
  destruct (IH s2 a own base s1') as [I2 F2]; [|exact H2|].
  - apply (Inv_eqv s s2); [exact (eqv_trans _ _ _ E E2) | congruence | congruence | exact I].
  - split; [exact I2|]. eapply Frame0_eqv_l; [exact E2|exact F2].
Qed.

(* ---------------------------------------------------------------- statements *)

Lemma isSome_true {A} (o : option A) : isSome o = true -> o <> None.
Proof. destruct o; [discriminate|intros; discriminate]. Qed.

Lemma jump_case w s a own base s' :
  Inv s a own base -> (match w with WB => canB s | WC => canC s end) = true ->
  add_loc w w w w (nloc s) (set_nloc (nloc s + 1) s) = Ok s' ->
  Inv s' (sjump (own w) a) own base /\ Frame0 s s' own.
Proof.
  intros (I & HB & HC) Hflag H.
  destruct (add_inv w s a own base s' I H) as (I' & F1 & F2 & F3 & F4 & F5 & _).
  split; [split; [exact I'|rewrite F4, F5; split; assumption]|].
  split; [exact F1|split; [exact F2|]].
  intros w' Hn. destruct (weqb_spec w' w) as [->|Hne].
  - exfalso. destruct w; [rewrite HB in Hflag|rewrite HC in Hflag]; apply isSome_true in Hflag; contradiction.
  - destruct w, w'; try congruence; exact F3.
Qed.

Lemma sown_sjump o a loc : loc < snloc a -> get (sown (sjump o a)) loc = get (sown a) loc.
Proof. intro H. cbn [sjump sown]. apply gso. lia. Qed.

(* tables of a processed state *)
Lemma same_frame_tab s s' w : same_frame s s' -> tab w s' = tab w s.
Proof. intros (A & B & _). destruct w; assumption. Qed.

(* the common tail of while and do-while:
   body; ProcessContinue; canContinue restored; a leaf; ProcessBreak; canBreak restored *)
Lemma loop_core b (IH : Pl b) s2 a2 own base id s' :
  Inv s2 a2 own base ->
  bind (emit_block b (set_flags true true s2)) (fun s3 =>
    let s4 := process_continue (ccnt s2) id s3 in
    let s5 := set_flags (canB s4) (canC s2) s4 in
    bind (leaf s5) (fun s6 =>
    let s7 := process_break (bcnt s2) id s6 in
    Ok (set_flags (canB s2) (canC s7) s7))) = Ok s' ->
  Inv s' (sp_list b (Some id) (Some id) a2) own base /\ Frame0 s2 s' own.
Proof.
  intros (I2 & HB2 & HC2) H.
  apply bind_ok in H. destruct H as (s3 & Hbody & H).
  cbn zeta in H. apply bind_ok in H. destruct H as (s6 & Hleaf & H). injection H as <-.
  rewrite wiring_continue in Hleaf. rewrite wiring_break.
  set (own' := updw (updw own WB (Some id)) WC (Some id)).
  set (base' := updw (updw base WB (cnt WB s2)) WC (cnt WC s2)).
  (* the body *)
  assert (Ib : Inv (set_flags true true s2) a2 own' base').
  { split; [|split; reflexivity].
    eapply Inv0_eqv; [apply eqv_set_flags|].
    unfold own', base'. apply (Inv0_rebase WC (Some id) s2 a2 (updw own WB (Some id)) (updw base WB (cnt WB s2))).
    apply Inv0_rebase. exact I2. }
  destruct (block_of_list b IH _ _ _ _ _ Ib Hbody) as ((I3 & HB3 & HC3) & F3 & _).
  change (own' WB) with (Some id) in I3. change (own' WC) with (Some id) in I3.
  set (a3 := sp_list b (Some id) (Some id) a2) in *.
  pose proof (eqv_set_flags s2 true true) as Ef.
  assert (Hc2 : forall w, cnt w (set_flags true true s2) = cnt w s2) by (intro; apply eqv_cnt; exact Ef).
  assert (Ht2 : forall w, tab w (set_flags true true s2) = tab w s2) by (intro; apply eqv_tab; exact Ef).
  destruct F3 as (F3a & F3b & F3c).
  (* entries of the enclosing construct are still below, with their owner *)
  assert (Hout : forall w i loc, base w <= i < cnt w s2 -> get (tab w s3) i = Some loc -> get (sown a3) loc = own w).
  { intros w i loc Hi E. rewrite F3b in E by (rewrite Hc2; lia). rewrite Ht2 in E.
    destruct (i_ent _ _ _ _ I2 w i) as (l2 & L1 & L2 & _); [lia|]. rewrite L1 in E. injection E as ->.
    unfold a3. rewrite (proj2 (proj2 sp_frame b (Some id) (Some id) a2)) by (rewrite <- (i_nloc _ _ _ _ I2); exact L2).
    apply (i_own _ _ _ _ I2 w i); [exact Hi|exact L1]. }
  (* ProcessContinue *)
  destruct (close WC s3 a3 own' base' id (own WC) (base WC) I3 eq_refl) as (I4 & C4a & C4b & SF4).
  { apply (i_cnt _ _ _ _ I2 WC). }
  { intros i loc Hi E. apply (Hout WC i loc); [exact Hi|exact E]. }
  change (base' WC) with (ccnt s2) in *.
  set (s4 := process WC WC WC (ccnt s2) id s3) in *.
  set (s5 := set_flags (canB s4) (canC s2) s4) in *.
  apply leaf_ok in Hleaf. destruct Hleaf as (E6 & B6 & C6 & _).
  assert (E46 : eqv s4 s6) by (eapply eqv_trans; [apply (eqv_set_flags s4 (canB s4) (canC s2))|exact E6]).
  pose proof (Inv0_eqv _ _ _ _ _ E46 I4) as I6.
  (* ProcessBreak *)
  set (own4 := updw own' WC (own WC)) in *. set (base4 := updw base' WC (base WC)) in *.
  destruct (close WB s6 a3 own4 base4 id (own WB) (base WB) I6 eq_refl) as (I7 & C7a & C7b & SF7).
  { apply (i_cnt _ _ _ _ I2 WB). }
  { intros i loc Hi E. change (base4 WB) with (cnt WB s2) in Hi.
    rewrite (eqv_tab _ _ WB E46), (same_frame_tab _ _ WB SF4) in E. apply (Hout WB i loc); [exact Hi|exact E]. }
  change (base4 WB) with (bcnt s2) in *.
  set (s7 := process WB WB WB (bcnt s2) id s6) in *.
  set (s8 := set_flags (canB s2) (canC s7) s7).
  assert (E78 : eqv s7 s8) by apply eqv_set_flags.
  split.
  - split; [|split].
    + eapply Inv0_eqv; [exact E78|]. eapply Inv0_ext; [| |exact I7]; intros []; reflexivity.
    + cbn [s8 set_flags canB]. exact HB2.
    + cbn [s8 set_flags canC]. destruct SF7 as (_ & _ & _ & SC & _). rewrite SC, C6. cbn [s5 set_flags canC]. exact HC2.
  - assert (Hc8 : forall w, cnt w s8 = cnt w s2).
    { intro w. rewrite (eqv_cnt _ _ w E78). destruct w.
      - exact C7a.
      - change (cnt WC s7) with (cnt (other WB) s7). rewrite C7b. change (other WB) with WC. rewrite (eqv_cnt _ _ WC E46). exact C4a. }
    assert (Ht8 : forall w, tab w s8 = tab w s3).
    { intro w. rewrite (eqv_tab _ _ w E78), (same_frame_tab _ _ w SF7), (eqv_tab _ _ w E46), (same_frame_tab _ _ w SF4). reflexivity. }
    split; [|split].
    + intro w. rewrite Hc8. lia.
    + intros w i Hi. rewrite Ht8, F3b by (rewrite Hc2; exact Hi). rewrite Ht2. reflexivity.
    + intros w _. apply Hc8.
Qed.

(* the switch after its expression and its nested counting pass:
   the exit jump; the cases; ProcessBreak; canBreak restored *)
Lemma switch_core b (IH : Pl b) s2 a2 own base id s' :
  Inv s2 a2 own base ->
  bind (emit_break (set_flags true (canC s2) s2)) (fun s3 =>
    bind (emit_cases b s3) (fun s4 =>
    let s5 := process_break (bcnt s2) id s4 in
    Ok (set_flags (canB s2) (canC s5) s5))) = Ok s' ->
  Inv s' (sp_list b (Some id) (own WC) (sjump (Some id) a2)) own base /\ Frame0 s2 s' own.
Proof.
  intros (I2 & HB2 & HC2) H.
  apply bind_ok in H. destruct H as (s3 & Hbrk & H).
  apply bind_ok in H. destruct H as (s4 & Hcases & H). cbn zeta in H. injection H as <-.
  rewrite wiring_break. rewrite wiring_emit_break in Hbrk. cbn [set_flags canB] in Hbrk.
  set (sf := set_flags true (canC s2) s2) in *.
  set (own' := updw own WB (Some id)). set (base' := updw base WB (cnt WB s2)).
  pose proof (eqv_set_flags s2 true (canC s2)) as Ef. fold sf in Ef.
  assert (Hcf : forall w, cnt w sf = cnt w s2) by (intro; apply eqv_cnt; exact Ef).
  assert (Htf : forall w, tab w sf = tab w s2) by (intro; apply eqv_tab; exact Ef).
  assert (If : Inv sf a2 own' base').
  { split; [|split].
    - eapply Inv0_eqv; [exact Ef|]. apply Inv0_rebase. exact I2.
    - reflexivity.
    - cbn [sf set_flags canC]. exact HC2. }
  destruct (jump_case WB sf a2 own' base' s3 If eq_refl Hbrk) as (I3 & F3).
  change (own' WB) with (Some id) in I3.
  destruct (cases_of_list b IH _ _ _ _ _ I3 Hcases) as ((I4 & HB4 & HC4) & F4 & _).
  change (own' WB) with (Some id) in I4. change (own' WC) with (own WC) in I4.
  set (a4 := sp_list b (Some id) (own WC) (sjump (Some id) a2)) in *.
  pose proof (Frame0_trans _ _ _ _ F3 F4) as (Fa & Fb & Fc).
  destruct (close WB s4 a4 own' base' id (own WB) (base WB) I4 eq_refl) as (I5 & C5a & C5b & SF5).
  { apply (i_cnt _ _ _ _ I2 WB). }
  { intros i loc Hi E. change (base' WB) with (cnt WB s2) in Hi.
    rewrite Fb in E by (rewrite Hcf; lia). rewrite Htf in E.
    destruct (i_ent _ _ _ _ I2 WB i) as (l2 & L1 & L2 & _); [lia|]. rewrite L1 in E. injection E as ->.
    assert (Hl : loc < snloc a2) by (rewrite <- (i_nloc _ _ _ _ I2); exact L2).
    unfold a4. rewrite (proj2 (proj2 sp_frame b (Some id) (own WC) (sjump (Some id) a2))) by (cbn [sjump snloc]; lia).
    rewrite sown_sjump by exact Hl. apply (i_own _ _ _ _ I2 WB i); [exact Hi|exact L1]. }
  change (base' WB) with (bcnt s2) in *.
  set (s5 := process WB WB WB (bcnt s2) id s4) in *.
  set (s6 := set_flags (canB s2) (canC s5) s5).
  assert (E56 : eqv s5 s6) by apply eqv_set_flags.
  split.
  - split; [|split].
    + eapply Inv0_eqv; [exact E56|]. eapply Inv0_ext; [| |exact I5]; intros []; reflexivity.
    + cbn [s6 set_flags canB]. exact HB2.
    + cbn [s6 set_flags canC]. destruct SF5 as (_ & _ & _ & SC & _). rewrite SC, HC4. reflexivity.
  - assert (Hc6 : cnt WB s6 = cnt WB s2) by (rewrite (eqv_cnt _ _ WB E56); exact C5a).
    assert (Hc6c : cnt WC s6 = cnt WC s4).
    { rewrite (eqv_cnt _ _ WC E56). exact C5b. }
    assert (Ht6 : forall w, tab w s6 = tab w s4).
    { intro w. rewrite (eqv_tab _ _ w E56), (same_frame_tab _ _ w SF5). reflexivity. }
    split; [|split].
    + intros []; [rewrite Hc6; lia|]. rewrite Hc6c. specialize (Fa WC). rewrite Hcf in Fa. exact Fa.
    + intros w i Hi. rewrite Ht6, Fb by (rewrite Hcf; exact Hi). rewrite Htf. reflexivity.
    + intros [] Hn; [exact Hc6|]. rewrite Hc6c. rewrite (Fc WC), Hcf by exact Hn. reflexivity.
Qed.

Theorem emit_inv : (forall x, Ps x) /\ (forall b, Pl b).
Proof.
  apply stmt_stmts_ind; unfold Ps, Pl.
  - (* break *)
    intros s a own base s' I H. cbn [emit_stmt] in H.
    destruct (guarded s _ s' (sjump (own WB) a) own base H) as (I' & F & _); [|split; assumption].
    intros s1 s1' E B C H1. rewrite wiring_emit_break in H1.
    destruct (canB s1) eqn:Eb; [|discriminate].
    eapply (jump_case WB); [eapply Inv_eqv; eauto|exact Eb|exact H1].
  - (* continue *)
    intros s a own base s' I H. cbn [emit_stmt] in H.
    destruct (guarded s _ s' (sjump (own WC) a) own base H) as (I' & F & _); [|split; assumption].
    intros s1 s1' E B C H1. rewrite wiring_emit_continue in H1.
    destruct (canC s1) eqn:Eb; [|discriminate].
    eapply (jump_case WC); [eapply Inv_eqv; eauto|exact Eb|exact H1].
  - (* filler *)
    intros s a own base s' I H. cbn [emit_stmt] in H.
    destruct (guarded s _ s' a own base H) as (I' & F & _); [|split; assumption].
    intros s1 s1' E B C H1. apply leaf_ok in H1. destruct H1 as (E1 & B1 & C1 & _).
    split; [apply (Inv_eqv s s1'); [exact (eqv_trans _ _ _ E E1)|congruence|congruence|exact I]|].
    eapply Frame0_eqv_r; [exact E1|apply Frame0_refl].
  - (* while *)
    intros b IH s a own base s' I H. cbn [emit_stmt] in H.
    destruct (guarded s _ s' (sp_stmt (SWhile b) (own WB) (own WC) a) own base H) as (I' & F & _); [|split; assumption].
    intros s1 s1' E B C H1. cbn zeta in H1.
    apply bind_ok in H1. destruct H1 as (s2 & Hl & H1). apply leaf_ok in Hl. destruct Hl as (E2 & B2 & C2 & _).
    pose proof (Inv_eqv _ _ _ _ _ E B C I) as (I1 & HB1 & HC1).
    assert (I2 : Inv s2 (snew a) own base).
    { split; [eapply Inv0_eqv; [exact E2|apply Inv0_snew; exact I1]|].
      rewrite B2, C2. cbn [set_ncons canB canC]. split; assumption. }
    assert (Hid : ncons s1 = sncons a) by apply (i_ncons _ _ _ _ I1).
    rewrite Hid in H1.
    destruct (loop_core b IH s2 (snew a) own base (sncons a) s1' I2 H1) as (I3 & F3).
    split; [exact I3|].
    apply (Frame0_ct_l s1 s2 s1' own); [| |exact F3].
    + intro w. rewrite (eqv_cnt _ _ w E2). destruct w; reflexivity.
    + intro w. rewrite (eqv_tab _ _ w E2). destruct w; reflexivity.
  - (* do *)
    intros b IH s a own base s' I H. cbn [emit_stmt] in H.
    destruct (guarded s _ s' (sp_stmt (SDo b) (own WB) (own WC) a) own base H) as (I' & F & _); [|split; assumption].
    intros s1 s1' E B C H1. cbn zeta in H1.
    pose proof (Inv_eqv _ _ _ _ _ E B C I) as (I1 & HB1 & HC1).
    assert (I2 : Inv (set_ncons (ncons s1 + 1) s1) (snew a) own base).
    { split; [apply Inv0_snew; exact I1|]. cbn [set_ncons canB canC]. split; assumption. }
    assert (Hid : ncons s1 = sncons a) by apply (i_ncons _ _ _ _ I1).
    destruct (loop_core b IH _ (snew a) own base (ncons s1) s1' I2 H1) as (I3 & F3).
    rewrite Hid in I3.
    split; [exact I3|].
    apply (Frame0_ct_l s1 (set_ncons (ncons s1 + 1) s1) s1' own); [| |exact F3]; intros []; reflexivity.
  - (* switch *)
    intros b IH s a own base s' I H. cbn [emit_stmt] in H.
    destruct (guarded s _ s' (sp_stmt (SSwitch b) (own WB) (own WC) a) own base H) as (I' & F & _); [|split; assumption].
    intros s1 s1' E B C H1. cbn zeta in H1.
    apply bind_ok in H1. destruct H1 as (s2 & Hl & H1). apply leaf_ok in Hl. destruct Hl as (E2 & B2 & C2 & _).
    apply bind_ok in H1. destruct H1 as (snest & _ & H1).
    pose proof (Inv_eqv _ _ _ _ _ E B C I) as (I1 & HB1 & HC1).
    assert (I2 : Inv s2 (snew a) own base).
    { split; [eapply Inv0_eqv; [exact E2|apply Inv0_snew; exact I1]|].
      rewrite B2, C2. cbn [set_ncons canB canC]. split; assumption. }
    assert (Hid : ncons s1 = sncons a) by apply (i_ncons _ _ _ _ I1).
    rewrite Hid in H1.
    destruct (switch_core b IH s2 (snew a) own base (sncons a) s1' I2 H1) as (I3 & F3).
    split; [exact I3|].
    apply (Frame0_ct_l s1 s2 s1' own); [| |exact F3].
    + intro w. rewrite (eqv_cnt _ _ w E2). destruct w; reflexivity.
    + intro w. rewrite (eqv_tab _ _ w E2). destruct w; reflexivity.
  - (* try / catch *)
    intros t IHt c IHc s a own base s' I H. cbn [emit_stmt] in H.
    destruct (guarded s _ s' (sp_stmt (STry t c) (own WB) (own WC) a) own base H) as (I' & F & _); [|split; assumption].
    intros s1 s1' E B C H1.
    apply bind_ok in H1. destruct H1 as (s2 & Ht & H1).
    apply bind_ok in H1. destruct H1 as (snest & _ & H1).
    pose proof (Inv_eqv _ _ _ _ _ E B C I) as I1.
    destruct (block_of_list t IHt _ _ _ _ _ I1 Ht) as (I2 & F2 & _).
    destruct (block_of_list c IHc _ _ _ _ _ I2 H1) as (I3 & F3 & _).
    split; [exact I3|]. eapply Frame0_trans; eassumption.
  - (* if *)
    intros b IH s a own base s' I H. cbn [emit_stmt] in H.
    destruct (guarded s _ s' (sp_stmt (SIf b) (own WB) (own WC) a) own base H) as (I' & F & _); [|split; assumption].
    intros s1 s1' E B C H1.
    apply bind_ok in H1. destruct H1 as (s2 & Hl & H1). apply leaf_ok in Hl. destruct Hl as (E2 & B2 & C2 & _).
    assert (I2 : Inv s2 a own base).
    { apply (Inv_eqv s s2); [exact (eqv_trans _ _ _ E E2)|congruence|congruence|exact I]. }
    destruct (block_of_list b IH _ _ _ _ _ I2 H1) as (I3 & F3 & _).
    split; [exact I3|]. eapply Frame0_eqv_l; [exact E2|exact F3].
  - (* nil *)
    intros s a own base s' I H. cbn [emit_list] in H. injection H as <-. split; [exact I|apply Frame0_refl].
  - (* cons *)
    intros x IHx r IHr s a own base s' I H. cbn [emit_list] in H.
    apply bind_ok in H. destruct H as (s1 & Hx & Hr).
    destruct (IHx _ _ _ _ _ I Hx) as (I1 & F1).
    destruct (IHr _ _ _ _ _ I1 Hr) as (I2 & F2).
    split; [exact I2|]. eapply Frame0_trans; eassumption.
Qed.

(* ---------------------------------------------------------------- whole programs *)

Definition own0 : env := fun _ => None.
Definition base0 : bases := fun _ => 0.
Definition a0 : sacc := mkS2 0 0 (aempty None).

Lemma Inv_fresh k d : Inv (fresh k false false d) a0 own0 base0.
Proof.
  split; [|split; reflexivity].
  assert (Hc : forall w, cnt w (fresh k false false d) = 0) by (intros []; reflexivity).
  constructor; cbn [fresh nloc ncons npatch mown log a0 snloc sncons sown]; intros; try reflexivity.
  - rewrite Hc. unfold base0. destruct w; cbn; lia.
  - rewrite Hc in H. lia.
  - rewrite Hc in H. lia.
  - apply get_empty.
  - rewrite Hc in H. lia.
  - lia.
  - intros e [].
Qed.

Lemma root_inv k p s :
  emit_root k p = Ok s ->
  Inv s (sp_root p) own0 base0 /\ bcnt s = 0 /\ ccnt s = 0.
Proof.
  intro H. unfold emit_root in H.
  destruct (guarded _ _ s (sp_root p) own0 base0 H) as (I & (_ & _ & F) & _).
  - intros s1 s1' E B C H1.
    apply bind_ok in H1. destruct H1 as (s2 & Hl & H1). apply leaf_ok in Hl. destruct Hl as (E2 & B2 & C2 & _).
    apply bind_ok in H1. destruct H1 as (s3 & Hp & Hl). apply leaf_ok in Hl. destruct Hl as (E3 & B3 & C3 & _).
    assert (I2 : Inv s2 a0 own0 base0).
    { apply (Inv_eqv (fresh k false false max_depth) s2); [exact (eqv_trans _ _ _ E E2)|congruence|congruence|apply Inv_fresh]. }
    destruct (proj2 emit_inv p s2 a0 own0 base0 s3 I2 Hp) as (I3 & F3).
    split.
    + eapply Inv_eqv; [exact E3|exact B3|exact C3|exact I3].
    + eapply Frame0_eqv_l; [exact E2|]. eapply Frame0_eqv_r; [exact E3|exact F3].
  - split; [exact I|]. split; [apply (F WB eq_refl)|apply (F WC eq_refl)].
Qed.

Lemma owners_spec k : forall i s a,
  (forall loc, i <= loc < i + N.of_nat k -> get (mown s) loc = get (sown a) loc /\ get (npatch s) loc = 1) ->
  owners k i s = map (fun o => (o, 1)) (sowners k i a).
Proof.
  induction k as [|k IH]; intros i s a H; [reflexivity|].
  cbn [owners sowners map]. destruct (H i) as [H1 H2]; [lia|]. rewrite H1, H2. f_equal.
  apply IH. intros loc Hl. apply H. lia.
Qed.

(* every jump of an accepted skeleton is patched exactly once, by the construct the text gives it *)
Theorem kcompile_owners p l :
  kcompile p = KOk l -> l = map (fun o => (o, 1)) (kspec p).
Proof.
  unfold kcompile, kspec. destruct (emit_root true p) as [s0|e0]; [|discriminate].
  destruct (emit_root false p) as [s|e] eqn:E; [|discriminate].
  intro H. injection H as <-.
  destruct (root_inv false p s E) as ((I & _ & _) & Hb & Hc).
  rewrite <- (i_nloc _ _ _ _ I).
  apply owners_spec. intros loc Hl. rewrite N2Nat.id in Hl.
  destruct (i_res _ _ _ _ I loc) as [(w & i & P1 & _)|R]; [lia| |exact R].
  destruct w; cbn [cnt] in P1; lia.
Qed.

(* the tables stay within their limits, no null slot is ever patched, both counts are back at 0 *)
Theorem tables_bounded k p s :
  emit_root k p = Ok s ->
  (forall w i loc, In (EvWrite w i loc) (log s) -> i < lim w)
  /\ (forall w i l o, In (EvPatch w i l o) (log s) -> i < lim w /\ l <> None)
  /\ bcnt s = 0 /\ ccnt s = 0.
Proof.
  intro E. destruct (root_inv k p s E) as ((I & _ & _) & Hb & Hc).
  pose proof (i_log _ _ _ _ I) as G.
  split; [|split; [|split; assumption]].
  - intros w i loc Hin. apply (G _ Hin).
  - intros w i l o Hin. apply (G _ Hin).
Qed.

(* the 101st entry: the overflow error, and nothing is written (no state is returned) *)
Theorem full_table_raises w pos s :
  cnt w s = lim w -> add_loc w w w w pos s = Err (EOverflow w).
Proof. intro H. apply add_loc_full. lia. Qed.

Theorem break_on_full_table s :
  canB s = true -> bcnt s = break_limit -> emit_break s = Err (EOverflow WB).
Proof.
  intros Hc Hf. rewrite wiring_emit_break, Hc. apply add_loc_full. cbn. lia.
Qed.

Theorem continue_on_full_table s :
  canC s = true -> ccnt s = continue_limit -> emit_continue s = Err (EOverflow WC).
Proof.
  intros Hc Hf. rewrite wiring_emit_continue, Hc. apply add_loc_full. cbn. lia.
Qed.

Theorem break_with_room s :
  canB s = true -> bcnt s < break_limit ->
  exists s', emit_break s = Ok s' /\ bcnt s' = bcnt s + 1 /\ get (btab s') (bcnt s) = Some (nloc s)
             /\ (forall i, i <> bcnt s -> get (btab s') i = get (btab s) i) /\ ctab s' = ctab s /\ ccnt s' = ccnt s.
Proof.
  intros Hc Hf. rewrite wiring_emit_break, Hc.
  destruct (add_loc_room WB (nloc s) (set_nloc (nloc s + 1) s)) as (s' & H); [exact Hf|].
  exists s'. split; [exact H|]. apply add_loc_ok in H.
  destruct H as (_ & H1 & H2 & H3 & H4 & _). cbn [cnt tab other set_nloc bcnt btab ccnt ctab] in *.
  rewrite H1, H2, H3, H4. repeat split; try reflexivity.
  - apply gss.
  - intros i Hi. apply gso. exact Hi.
Qed.

