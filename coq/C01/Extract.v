(* C01/Extract.v - extraction of the models and the specifications (ExtrOcamlBasic only). *)
Require Extraction.
Require Import ExtrOcamlBasic.
From Morfuse Require Import C01.Model C01.Spec.
Extraction "C01_model.ml" run spec_run kcompile kspec.
