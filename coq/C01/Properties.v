(* C01/Properties.v - the property theorems of unit C01, and nothing else.
   Every theorem is closed by [exact <lemma>] and followed by Print Assumptions.
   NOT covered by these theorems (sampled by the harness under ASan/UBSan, see props/C01.py):
   the lexer, the parser, the bytes the emitter writes, the arena. *)
From Coq Require Import NArith List Bool.
From Morfuse Require Import Base.Arr C01.Generated C01.Model C01.Spec C01.Proofs C01.ProofsJump.
Import ListNotations.
Local Open Scope N_scope.

(* (i) For EVERY history of compile (stream variant, with or without recompile), request by
   name (file variant), run, ExecuteThread(name) and file registration, the code-level script
   table - entry registered as failed BEFORE compilation, flipped on success, deleted first on
   recompile, the file opened only after the deletion - observes exactly what the total-map
   specification observes: the same returned scripts, the same rejections, "not loaded" for a
   failed name in both request variants, the same runs. *)
Theorem C01_script_table_refines_the_map :
  forall ops : list op, run ops = spec_run ops.
Proof. exact run_refines_spec. Qed.
Print Assumptions C01_script_table_refines_the_map.

(* For every state of the table (so: after every history), when the stream-variant compile of
   n is performed and rejected: n maps to Failed; every other entry and every file is
   unchanged; asking again by stream / by name / by ExecuteThread(name) answers "not loaded" and
   a run reports the failed script; and every later history that does not name n (Reset included)
   observes exactly what it observes on the table WITHOUT the failed entry. *)
Theorem C01_reject_leaves_master_usable :
  forall (m : mst) (n : N) (rc : bool) (k : N),
    snd (step m (OCompile n rc (Reject k))) = BRejected k ->
    let m' := fst (step m (OCompile n rc (Reject k))) in
    tfind (tbl m') n = Some Failed
    /\ (forall x, x <> n -> tfind (tbl m') x = tfind (tbl m) x)
    /\ (forall x, ffind (files m') x = ffind (files m) x)
    /\ (forall s, snd (step m' (OCompile n false s)) = BNotLoaded)
    /\ snd (step m' (ORequest n false)) = BNotLoaded
    /\ snd (step m' (OExec n)) = BNotLoaded
    /\ snd (step m' (ORun n)) = BFailed
    /\ (forall ops, (forall o, In o ops -> op_name o <> Some n) ->
          run_from m' ops = run_from (mkM (tremove (tbl m) n) (files m)) ops).
Proof. exact reject_leaves_master_usable. Qed.
Print Assumptions C01_reject_leaves_master_usable.

(* the same, phrased on histories: after any prefix, a rejected compile of n followed by a
   re-request of n answers "not loaded" *)
Theorem C01_rerequest_after_rejection_is_not_loaded :
  forall (pre post : list op) (n k : N) (rc : bool),
    nth_error (run (pre ++ [OCompile n rc (Reject k)])) (length pre) = Some (BRejected k) ->
    (forall o, In o post -> op_name o <> Some n) ->
    forall s, nth_error (run (pre ++ OCompile n rc (Reject k) :: OCompile n false s :: post)) (S (length pre)) = Some BNotLoaded.
Proof. exact reject_after_any_history. Qed.
Print Assumptions C01_rerequest_after_rejection_is_not_loaded.

(* (ii) jump_tables_bounded.  For EVERY loop skeleton and BOTH passes (k = true: the counting pass
   of Preallocate, k = false: the emitting pass), when the pass ends without exception: every write into
   either jump table has an index below its limit; every patch goes through a non-null slot
   with an index below the limit; both counts are back at 0 at the end of the program. *)
Theorem C01_jump_tables_bounded :
  forall (k : bool) (p : stmts) (s : est),
    emit_root k p = Ok s ->
    (forall w i loc, In (EvWrite w i loc) (log s) -> i < lim w)
    /\ (forall w i l o, In (EvPatch w i l o) (log s) -> i < lim w /\ l <> None)
    /\ bcnt s = 0 /\ ccnt s = 0.
Proof. exact tables_bounded. Qed.
Print Assumptions C01_jump_tables_bounded.

(* the entry after the last one raises the overflow error and nothing is written: no state is
   returned (the C++ throws; it resets the count to 0 first, the emitter is then abandoned) *)
Theorem C01_break_on_a_full_table_raises_without_a_write :
  forall s : est, canB s = true -> bcnt s = break_limit -> emit_break s = Err (EOverflow WB).
Proof. exact break_on_full_table. Qed.
Print Assumptions C01_break_on_a_full_table_raises_without_a_write.

Theorem C01_continue_on_a_full_table_raises_without_a_write :
  forall s : est, canC s = true -> ccnt s = continue_limit -> emit_continue s = Err (EOverflow WC).
Proof. exact continue_on_full_table. Qed.
Print Assumptions C01_continue_on_a_full_table_raises_without_a_write.

(* below the limit a break is recorded in the next free slot of the BREAK table only *)
Theorem C01_break_below_the_limit_is_recorded_in_the_break_table :
  forall s : est, canB s = true -> bcnt s < break_limit ->
    exists s', emit_break s = Ok s' /\ bcnt s' = bcnt s + 1 /\ get (btab s') (bcnt s) = Some (nloc s)
               /\ (forall i, i <> bcnt s -> get (btab s') i = get (btab s) i) /\ ctab s' = ctab s /\ ccnt s' = ccnt s.
Proof. exact break_with_room. Qed.
Print Assumptions C01_break_below_the_limit_is_recorded_in_the_break_table.

(* every recorded location is patched exactly once, by ITS construct: for every accepted
   skeleton the list (owner, number of patches) per jump, in source order, is the list of
   specification owners (innermost enclosing loop or switch for a break and a switch's exit
   jump, innermost enclosing loop for a continue), each with count 1 *)
Theorem C01_every_jump_is_patched_once_by_its_own_construct :
  forall (p : stmts) (l : list (option N * N)),
    kcompile p = KOk l -> l = map (fun o => (o, 1)) (kspec p).
Proof. exact kcompile_owners. Qed.
Print Assumptions C01_every_jump_is_patched_once_by_its_own_construct.

(* the wiring read from the source (Generated.v) is the one the proofs are about *)
Theorem C01_generated_wiring_is_the_modelled_one :
  process_break = process WB WB WB /\ process_continue = process WC WC WC
  /\ (forall s, emit_break s = if canB s then add_loc WB WB WB WB (nloc s) (set_nloc (nloc s + 1) s) else Err EIllegalBreak)
  /\ (forall s, emit_continue s = if canC s then add_loc WC WC WC WC (nloc s) (set_nloc (nloc s + 1) s) else Err EIllegalContinue).
Proof. exact (conj wiring_break (conj wiring_continue (conj wiring_emit_break wiring_emit_continue))). Qed.
Print Assumptions C01_generated_wiring_is_the_modelled_one.

(* ---------------------------------------------------------------- non-vacuity *)

(* a rejected compile, a refused re-request in both variants, an unharmed other script, a later
   successful recompile, a Reset *)
Example table_history :
  run [OCompile 0 false (Accept 7); OSetFile 1 (Reject 3); OCompile 1 false (Reject 0); OCompile 1 false (Accept 9);
       ORequest 1 false; OExec 1; ORun 0; OCompile 2 false (Accept 5); ORun 2; ORun 1; OCompile 1 true (Accept 9); ORun 1;
       ORequest 1 true; ORun 1; ORequest 3 false; OReset; ORun 0; ORequest 1 false; OCompile 0 false (Accept 4); ORun 0]
  = [BOk 7; BDone; BRejected 0; BNotLoaded; BNotLoaded; BNotLoaded; BRan 7; BOk 5; BRan 5; BFailed; BOk 9; BRan 9;
     BRejected 3; BFailed; BNoFile; BDone; BAbsent; BRejected 3; BOk 4; BRan 4].
Proof. vm_compute. reflexivity. Qed.

(* while { break continue switch { break } do { continue break } try { } catch { } } *)
Example skeleton_owners :
  kcompile (SCons (SWhile (SCons SBreak (SCons SContinue
              (SCons (SSwitch (SCons SBreak SNil))
              (SCons (SDo (SCons SContinue (SCons SBreak SNil)))
              (SCons (STry (SCons SFill SNil) (SCons SFill SNil)) SNil)))))) SNil)
  = KOk [(Some 0, 1); (Some 0, 1); (Some 1, 1); (Some 1, 1); (Some 2, 1); (Some 2, 1)].
Proof. vm_compute. reflexivity. Qed.

Fixpoint many (k : nat) (x : stmt) (r : stmts) : stmts :=
  match k with O => r | S k' => SCons x (many k' x r) end.

(* exactly at the limit: 100 breaks in one loop are accepted, the 101st is the overflow error;
   a switch holds its own exit jump, so its 100th break overflows *)
Example limit_100_ok : match kcompile (SCons (SWhile (many 100 SBreak SNil)) SNil) with KOk l => length l | KErr _ => 0%nat end = 100%nat.
Proof. vm_compute. reflexivity. Qed.
Example limit_101_err : kcompile (SCons (SWhile (many 101 SBreak SNil)) SNil) = KErr (EOverflow WB).
Proof. vm_compute. reflexivity. Qed.
Example limit_switch_100_err : kcompile (SCons (SSwitch (many 100 SBreak SNil)) SNil) = KErr (EOverflow WB).
Proof. vm_compute. reflexivity. Qed.
Example limit_continue_101_err : kcompile (SCons (SDo (many 101 SContinue SNil)) SNil) = KErr (EOverflow WC).
Proof. vm_compute. reflexivity. Qed.
(* pending entries of the outer loop count: 60 outside + 41 inside *)
Example limit_nested_err :
  kcompile (SCons (SWhile (many 60 SBreak (SCons (SWhile (many 41 SBreak SNil)) SNil))) SNil) = KErr (EOverflow WB).
Proof. vm_compute. reflexivity. Qed.
Example illegal_break : kcompile (SCons SBreak SNil) = KErr EIllegalBreak.
Proof. vm_compute. reflexivity. Qed.
Example illegal_continue_in_switch : kcompile (SCons (SSwitch (SCons SContinue SNil)) SNil) = KErr EIllegalContinue.
Proof. vm_compute. reflexivity. Qed.
