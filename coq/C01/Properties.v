(* placeholder - replaced below *)
From Coq Require Import NArith List Bool.
From Morfuse Require Import C01.Model C01.Spec.
Import ListNotations.
Local Open Scope N_scope.
Example ex1 : kcompile (SCons (SWhile (SCons SBreak SNil)) SNil) = KOk [(Some 0, 1)].
Proof. vm_compute. reflexivity. Qed.
