(* C01/Spec.v - the specifications.

   Part 1: the script table as a total map  name -> absent | failed | loaded tag  and the
   files as a total map name -> source.  A rejected compilation leaves `failed` under the
   name; a request for a failed name that does not recompile answers "not loaded" in both
   request variants.

   Part 2: who owns a jump, read off the program text: a break belongs to the innermost
   enclosing loop or switch, a continue to the innermost enclosing loop, the exit jump of a
   switch to that switch.  Jumps and constructs are numbered in source order. No tables,
   no counters, no depth budget, no errors. *)
From Coq Require Import NArith List Bool.
From Morfuse Require Import Base.Arr C01.Generated C01.Model.
Import ListNotations.
Local Open Scope N_scope.

(* ------------------------------------------------------------------ Part 1 *)

Record sst := mkS1 { stbl : N -> option entry; sfiles : N -> option src }.

Definition sinit : sst := mkS1 (fun _ => None) (fun _ => None).

Definition upd {A} (f : N -> A) (n : N) (v : A) : N -> A :=
  fun k => if N.eqb k n then v else f k.

Definition sload (a : sst) (n : N) (s : src) : sst * obs :=
  match s with
  | Accept tag => (mkS1 (upd (stbl a) n (Some (Loaded tag))) (sfiles a), BOk tag)
  | Reject k => (mkS1 (upd (stbl a) n (Some Failed)) (sfiles a), BRejected k)
  end.

Definition scompile (a : sst) (n : N) (rc : bool) (s : src) : sst * obs :=
  match stbl a n, rc with
  | Some Failed, false => (a, BNotLoaded)
  | Some (Loaded tag), false => (a, BOk tag)
  | _, _ => sload a n s
  end.

Definition srequest (a : sst) (n : N) (rc : bool) : sst * obs :=
  match stbl a n, rc with
  | Some Failed, false => (a, BNotLoaded)
  | Some (Loaded tag), false => (a, BOk tag)
  | _, _ =>
      match sfiles a n with
      | None => (mkS1 (upd (stbl a) n None) (sfiles a), BNoFile)
      | Some s => sload a n s
      end
  end.

Definition sstep (a : sst) (o : op) : sst * obs :=
  match o with
  | OSetFile n s => (mkS1 (stbl a) (upd (sfiles a) n (Some s)), BDone)
  | OCompile n rc s => scompile a n rc s
  | ORequest n rc => srequest a n rc
  | ORun n =>
      match stbl a n with
      | None => (a, BAbsent)
      | Some Failed => (a, BFailed)
      | Some (Loaded tag) => (a, BRan tag)
      end
  | OExec n =>
      let (a1, o1) := srequest a n false in
      match o1 with
      | BOk tag => (a1, BRan tag)
      | other => (a1, other)
      end
  | OReset => (mkS1 (fun _ => None) (sfiles a), BDone)
  end.

Fixpoint spec_from (a : sst) (ops : list op) : list obs :=
  match ops with
  | [] => []
  | o :: r => let (a1, b) := sstep a o in b :: spec_from a1 r
  end.

Definition spec_run (ops : list op) : list obs := spec_from sinit ops.

(* the name an operation is about *)
Definition op_name (o : op) : option N :=
  match o with
  | OSetFile n _ | OCompile n _ _ | ORequest n _ | ORun n | OExec n => Some n
  | OReset => None
  end.

(* ------------------------------------------------------------------ Part 2 *)

Record sacc := mkS2 { snloc : N; sncons : N; sown : arr (option N) }.

Definition sjump (o : option N) (a : sacc) : sacc :=
  mkS2 (snloc a + 1) (sncons a) (set (sown a) (snloc a) o).

Definition snew (a : sacc) : sacc := mkS2 (snloc a) (sncons a + 1) (sown a).

(* ob / oc : the construct a break / continue at this point belongs to *)
Fixpoint sp_stmt (x : stmt) (ob oc : option N) (a : sacc) {struct x} : sacc :=
  match x with
  | SBreak => sjump ob a
  | SContinue => sjump oc a
  | SFill => a
  | SWhile b | SDo b => let id := sncons a in sp_list b (Some id) (Some id) (snew a)
  | SSwitch b => let id := sncons a in sp_list b (Some id) oc (sjump (Some id) (snew a))
  | STry t c => sp_list c ob oc (sp_list t ob oc a)
  | SIf b => sp_list b ob oc a
  end
with sp_list (b : stmts) (ob oc : option N) (a : sacc) {struct b} : sacc :=
  match b with
  | SNil => a
  | SCons x r => sp_list r ob oc (sp_stmt x ob oc a)
  end.

Definition sp_root (p : stmts) : sacc := sp_list p None None (mkS2 0 0 (aempty None)).

Fixpoint sowners (k : nat) (i : N) (a : sacc) : list (option N) :=
  match k with
  | O => []
  | S k' => get (sown a) i :: sowners k' (i + 1) a
  end.

Definition kspec (p : stmts) : list (option N) :=
  let a := sp_root p in sowners (N.to_nat (snloc a)) 0 a.
