(* C03/ProofsCompile.v - compile-correctness of the constant integer expression fragment:
   the compiled code, run by the VM model, leaves exactly the value the language rules give,
   and that value is the one the reference evaluator computes for the same expression. *)
From Coq Require Import ZArith List Bool Lia.
From Morfuse Require Import C03.Ast C03.Codec C03.Generated C03.Sem C03.Compile
  C03.ProofsCodec C03.ProofsGen C03.ProofsSem.
Import ListNotations.
Local Open Scope Z_scope.

Lemma wrap_trunc : forall y, to_signed 64 (trunc 64 y) = wrap y.
Proof.
  intros y. unfold trunc, wrap, to_signed.
  change (64 <=? 0) with false. cbv iota. change (64 - 1) with 63.
  assert (P64 : 2 ^ 64 = 2 * 2 ^ 63) by reflexivity.
  assert (P63 : 0 < 2 ^ 63) by reflexivity.
  pose proof (Z.div_mod y (2 ^ 64)) as D. pose proof (Z.mod_pos_bound y (2 ^ 64)) as B.
  set (q := y / 2 ^ 64) in *. set (m := y mod 2 ^ 64) in *.
  assert (Hy : y = 2 ^ 64 * q + m) by (apply D; lia).
  assert (Hm : 0 <= m < 2 ^ 64) by (apply B; lia).
  destruct (Z.ltb_spec m (2 ^ 63)) as [H1|H1].
  - assert (E : (y + 2 ^ 63) mod 2 ^ 64 = m + 2 ^ 63).
    { symmetry. apply (Z.mod_unique _ _ q). left. lia. lia. }
    rewrite E. lia.
  - assert (E : (y + 2 ^ 63) mod 2 ^ 64 = m + 2 ^ 63 - 2 ^ 64).
    { symmetry. apply (Z.mod_unique _ _ (q + 1)). left. lia. lia. }
    rewrite E. lia.
Qed.

Lemma pushed_ok : forall v, 0 <= v < 2 ^ 64 -> pushed v = Some (to_signed 64 v).
Proof. exact generated_roundtrip. Qed.

Lemma folded_ok : forall v, 0 <= v < 2 ^ 64 -> folded v = Some (to_signed 64 v).
Proof. exact (codec_roundtrip enc_table enc_default fold_table generated_fold_wf). Qed.

Lemma vm_run_app : forall c1 c2 st,
  vm_run (c1 ++ c2) st = match vm_run c1 st with Some st' => vm_run c2 st' | None => None end.
Proof.
  induction c1 as [|i c1 IH]; intros c2 st; cbn [app vm_run].
  - reflexivity.
  - destruct (vm_step i st) as [st'|]; [apply IH|reflexivity].
Qed.

Lemma last_split : forall c i, last_instr c = Some i -> c = removelast c ++ [i].
Proof.
  induction c as [|x c IH]; intros i H.
  - discriminate.
  - destruct c as [|y c'].
    + cbn in H. inversion H. reflexivity.
    + change (last_instr (x :: y :: c')) with (last_instr (y :: c')) in H.
      change (removelast (x :: y :: c')) with (x :: removelast (y :: c')).
      cbn [app]. f_equal. apply IH. exact H.
Qed.

Definition push_ok (i : instr) : Prop :=
  match i with IPush v => 0 <= v < 2 ^ 64 | _ => True end.

Lemma forall_app : forall (l1 l2 : list instr), Forall push_ok l1 -> Forall push_ok l2 -> Forall push_ok (l1 ++ l2).
Proof. intros l1 l2 H1 H2. apply Forall_app. split; assumption. Qed.

Lemma forall_removelast : forall (l : list instr), Forall push_ok l -> Forall push_ok (removelast l).
Proof.
  induction l as [|x l IH]; intros H.
  - constructor.
  - destruct l as [|y l'].
    + constructor.
    + change (removelast (x :: y :: l')) with (x :: removelast (y :: l')).
      inversion H; subst. constructor; [assumption|]. apply IH. assumption.
Qed.

Lemma compile_range : forall e, lits_ok e = true -> Forall push_ok (compile e).
Proof.
  induction e as [v|a IH|a IH|o a IHa b IHb]; intros Hok; cbn [compile lits_ok] in *.
  - apply andb_true_iff in Hok. destruct Hok as [H0 H1]. apply Z.leb_le in H0. apply Z.ltb_lt in H1.
    constructor; [|constructor]. cbn [push_ok].
    rewrite (lit_path_id _ _ _ _ generated_path_wf) by lia.
    assert (P64 : 2 ^ 64 = 2 * 2 ^ 63) by reflexivity. lia.
  - specialize (IH Hok).
    destruct (last_instr (compile a)) as [[v| | |o]|] eqn:El; try (apply forall_app; [exact IH|repeat constructor]).
    destruct (folded v) as [x|]; [|apply forall_app; [exact IH|repeat constructor]].
    apply forall_app; [apply forall_removelast; exact IH|].
    constructor; [|constructor]. cbn [push_ok]. apply trunc_range. lia.
  - apply forall_app; [apply IH; exact Hok|repeat constructor].
  - apply andb_true_iff in Hok. destruct Hok as [Ha Hb].
    apply forall_app; [apply IHa; exact Ha|]. apply forall_app; [apply IHb; exact Hb|repeat constructor].
Qed.

Lemma forall_last : forall c i, Forall push_ok c -> last_instr c = Some i -> push_ok i.
Proof.
  intros c i HF HL. rewrite (last_split c i HL) in HF. apply Forall_app in HF.
  destruct HF as [_ H]. inversion H. assumption.
Qed.

(* the main lemma *)
Lemma compile_correct : forall e, lits_ok e = true ->
  forall z st, aeval e = Some z -> vm_run (compile e) st = Some (z :: st).
Proof.
  induction e as [v|a IH|a IH|o a IHa b IHb]; intros Hok z st Hz; cbn [compile lits_ok aeval] in *.
  - inversion Hz; subst z. apply andb_true_iff in Hok. destruct Hok as [H0 H1].
    apply Z.leb_le in H0. apply Z.ltb_lt in H1.
    cbn [vm_run vm_step]. unfold pushed. rewrite generated_literal by lia. reflexivity.
  - destruct (aeval a) as [za|] eqn:Ea; [|discriminate]. inversion Hz; subst z. clear Hz.
    pose proof (IH Hok za st eq_refl) as Hrun.
    pose proof (compile_range a Hok) as HF.
    destruct (last_instr (compile a)) as [[v| | |o]|] eqn:El;
      try (rewrite vm_run_app, Hrun; reflexivity).
    pose proof (forall_last _ _ HF El) as Hv. cbn [push_ok] in Hv.
    rewrite (folded_ok v Hv).
    rewrite (last_split _ _ El) in Hrun. rewrite vm_run_app in Hrun.
    rewrite vm_run_app.
    destruct (vm_run (removelast (compile a)) st) as [st1|]; [|discriminate].
    cbn [vm_run vm_step] in *. rewrite (pushed_ok v Hv) in Hrun. inversion Hrun; subst.
    unfold pushed.
    rewrite generated_roundtrip by (apply trunc_range; lia).
    rewrite trunc_conv64. rewrite wrap_trunc. reflexivity.
  - destruct (aeval a) as [za|] eqn:Ea; [|discriminate]. inversion Hz; subst z. clear Hz.
    rewrite vm_run_app, (IH Hok za st eq_refl). reflexivity.
  - apply andb_true_iff in Hok. destruct Hok as [Ha Hb].
    destruct (aeval a) as [za|] eqn:Ea; [|discriminate].
    destruct (aeval b) as [zb|] eqn:Eb; [|discriminate].
    rewrite vm_run_app, (IHa Ha za st eq_refl).
    rewrite vm_run_app, (IHb Hb zb (za :: st) eq_refl).
    cbn [vm_run vm_step].
    destruct (int_op o za zb) as [[| z' | | | |]|]; try discriminate. inversion Hz; subst. reflexivity.
Qed.

(* the language value of the fragment IS the reference evaluator's value *)
Lemma binop_int : forall o x y, binop_eval o (VInt x) (VInt y) = int_op o x y.
Proof. intros o x y. destruct o; reflexivity. Qed.

Lemma int_op_is_int : forall o x y v, int_op o x y = Some v -> exists z, v = VInt z.
Proof.
  intros o x y v H. destruct o; cbn [int_op] in H;
    repeat match type of H with
           | (if ?c then _ else _) = Some _ => destruct c
           end; inversion H; unfold vbool; eexists; reflexivity.
Qed.

Lemma aeval_is_eval : forall p e z, aeval e = Some z ->
  forall s, r_eval (ev p (adepth e)) (embed e) s = Some (VInt z, s).
Proof.
  intros p. induction e as [v|a IH|a IH|o a IHa b IHb]; intros z Hz s; cbn [aeval adepth embed] in *.
  - inversion Hz; subst. reflexivity.
  - destruct (aeval a) as [za|]; [|discriminate]. inversion Hz; subst.
    cbn [ev step r_eval]. unfold eval_body. rewrite (IH za eq_refl s). reflexivity.
  - destruct (aeval a) as [za|]; [|discriminate]. inversion Hz; subst.
    cbn [ev step r_eval]. unfold eval_body. rewrite (IH za eq_refl s). reflexivity.
  - destruct (aeval a) as [za|]; [|discriminate]. destruct (aeval b) as [zb|]; [|discriminate].
    cbn [ev step r_eval]. unfold eval_body.
    destruct (ev_mono p (adepth a) (Nat.max (adepth a) (adepth b)) (Nat.le_max_l _ _)) as [Ia _].
    destruct (ev_mono p (adepth b) (Nat.max (adepth a) (adepth b)) (Nat.le_max_r _ _)) as [Ib _].
    rewrite (Ia _ _ _ (IHa za eq_refl s)). rewrite (Ib _ _ _ (IHb zb eq_refl s)).
    rewrite binop_int.
    destruct (int_op o za zb) as [v|] eqn:Eo; [|discriminate].
    destruct (int_op_is_int _ _ _ _ Eo) as [z' Ev]. subst v. inversion Hz; subst. reflexivity.
Qed.

Lemma fragment_compile_correct : forall p e z s, lits_ok e = true ->
  r_eval (ev p (adepth e)) (embed e) s = Some (VInt z, s) ->
  aeval e <> None ->
  forall st, vm_run (compile e) st = Some (z :: st).
Proof.
  intros p e z s Hok Hev Hne st.
  destruct (aeval e) as [z'|] eqn:Ea; [|congruence].
  rewrite (aeval_is_eval p e z' Ea s) in Hev. inversion Hev; subst.
  apply compile_correct; assumption.
Qed.
