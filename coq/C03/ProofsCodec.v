(* C03/ProofsCodec.v - the literal codec round-trips for every table accepted by codec_wf. *)
From Coq Require Import ZArith List Bool Lia.
From Morfuse Require Import C03.Codec.
Import ListNotations.
Local Open Scope Z_scope.

Lemma pow_mono : forall a b, 0 <= a <= b -> 2 ^ a <= 2 ^ b.
Proof. intros a b H. apply Z.pow_le_mono_r; lia. Qed.

Lemma pow_pos : forall a, 0 <= a -> 0 < 2 ^ a.
Proof. intros a H. apply Z.pow_pos_nonneg; lia. Qed.

Lemma trunc_small : forall bits v, 0 <= v < 2 ^ bits -> trunc bits v = v.
Proof. intros bits v H. unfold trunc. apply Z.mod_small. exact H. Qed.

Lemma trunc_range : forall bits v, 0 <= bits -> 0 <= trunc bits v < 2 ^ bits.
Proof. intros bits v H. unfold trunc. apply Z.mod_pos_bound. apply pow_pos. exact H. Qed.

Lemma trunc_zero : forall bits, trunc bits 0 = 0.
Proof. intros bits. unfold trunc. apply Zmod_0_l. Qed.

Lemma to_signed_small : forall bits v, 0 < bits -> 0 <= v < 2 ^ (bits - 1) -> to_signed bits v = v.
Proof.
  intros bits v Hb Hv. unfold to_signed.
  destruct (Z.leb_spec bits 0) as [H0|H0]; [lia|].
  destruct (Z.ltb_spec v (2 ^ (bits - 1))) as [H1|H1]; [reflexivity|lia].
Qed.

Lemma to_signed_zero : forall bits, to_signed bits 0 = 0.
Proof.
  intros bits. unfold to_signed.
  destruct (Z.leb_spec bits 0) as [H0|H0]; [reflexivity|].
  destruct (Z.ltb_spec 0 (2 ^ (bits - 1))) as [H1|H1]; [reflexivity|].
  pose proof (pow_pos (bits - 1)). lia.
Qed.

Lemma conv_zero : forall bits sg, conv bits sg 0 = 0.
Proof.
  intros bits sg. unfold conv. rewrite trunc_zero. destruct sg; [apply to_signed_zero|reflexivity].
Qed.

Lemma trunc_to_signed : forall bits u, 0 < bits -> 0 <= u < 2 ^ bits -> trunc bits (to_signed bits u) = u.
Proof.
  intros bits u Hb Hu. unfold to_signed.
  destruct (Z.leb_spec bits 0) as [H0|H0]; [lia|].
  destruct (Z.ltb_spec u (2 ^ (bits - 1))) as [H1|H1].
  - apply trunc_small. exact Hu.
  - unfold trunc. replace (u - 2 ^ bits) with (u + (-1) * 2 ^ bits) by lia.
    rewrite Z.mod_add by (pose proof (pow_pos bits); lia). apply Z.mod_small. exact Hu.
Qed.

Lemma trunc_idem : forall bits v, 0 <= bits -> trunc bits (trunc bits v) = trunc bits v.
Proof. intros bits v H. apply trunc_small. apply trunc_range. exact H. Qed.

Lemma conv_small : forall bits (sg : bool) v,
  0 < bits -> 0 <= v -> v < 2 ^ (if sg then bits - 1 else bits) -> conv bits sg v = v.
Proof.
  intros bits sg v Hb H0 H1. unfold conv. destruct sg.
  - assert (H2 : 2 ^ (bits - 1) <= 2 ^ bits) by (apply pow_mono; lia).
    rewrite trunc_small by lia. apply to_signed_small; lia.
  - apply trunc_small. lia.
Qed.

(* conversions between 64-bit types keep the 64 bits *)
Lemma trunc_conv64 : forall sg v, trunc 64 (conv 64 sg v) = trunc 64 v.
Proof.
  intros sg v. unfold conv. destruct sg.
  - apply trunc_to_signed; [lia|]. apply trunc_range. lia.
  - apply trunc_idem. lia.
Qed.

Lemma conv64_chain : forall s1 s2 v,
  conv 64 true (conv 64 s1 (conv 64 s2 v)) = to_signed 64 (trunc 64 v).
Proof.
  intros s1 s2 v. unfold conv at 1. rewrite trunc_conv64. rewrite trunc_conv64. reflexivity.
Qed.

Lemma to_signed64_small : forall v, 0 <= v < 2 ^ 63 -> to_signed 64 v = v.
Proof. intros v H. apply to_signed_small; [lia|]. exact H. Qed.

(* a branch accepted by wf_row, taken for v, reads back v *)
Lemma row_roundtrip : forall dt r v,
  wf_row dt r = true -> holds (e_cmp r) v = true -> 0 <= v ->
  decode dt (e_tag r, trunc (8 * e_w r) v) = Some v /\ v < 2 ^ 63.
Proof.
  intros dt r v Hwf Hh Hv. unfold wf_row in Hwf. unfold decode. cbn [fst snd].
  destruct (find_d dt (e_tag r)) as [d|]; [|discriminate].
  apply andb_true_iff in Hwf. destruct Hwf as [Hwf Hc].
  apply andb_true_iff in Hwf. destruct Hwf as [Hwf Hs].
  apply andb_true_iff in Hwf. destruct Hwf as [Hw Hw0].
  apply Z.eqb_eq in Hw. apply Z.leb_le in Hw0. apply Z.ltb_lt in Hs.
  destruct (Z.eq_dec v 0) as [Hz|Hz].
  - subst v. rewrite trunc_zero. rewrite !conv_zero. split; [reflexivity|]. apply pow_pos. lia.
  - assert (Hb : exists k, 0 <= k /\ k <= row_bound d /\ v < 2 ^ k).
    { destruct (e_cmp r) as [|k|k]; cbn [holds] in Hh.
      - apply Z.eqb_eq in Hh. lia.
      - apply andb_true_iff in Hc. destruct Hc as [Hk0 Hk]. apply Z.leb_le in Hk0. apply Z.leb_le in Hk.
        apply Z.ltb_lt in Hh. exists k. lia.
      - apply andb_true_iff in Hc. destruct Hc as [Hk0 Hk]. apply Z.leb_le in Hk0. apply Z.leb_le in Hk.
        apply Z.leb_le in Hh. exists (k + 1). split; [lia|]. split; [lia|].
        rewrite Z.pow_add_r by lia. pose proof (pow_pos k Hk0). lia. }
    destruct Hb as [k [Hk0 [Hkb Hvk]]].
    assert (Hk1 : 1 <= k).
    { destruct (Z.eq_dec k 0) as [E|E]; [subst k; cbn in Hvk; lia|lia]. }
    unfold row_bound in Hkb.
    set (rb := if d_signed d then 8 * d_w d - 1 else 8 * d_w d) in Hkb.
    set (sb := if d_setsigned d then d_set d - 1 else d_set d) in Hkb.
    assert (Hrb : k <= rb) by lia. assert (Hsb : k <= sb) by lia. assert (H63 : k <= 63) by lia.
    assert (Hw8 : k <= 8 * d_w d) by (unfold rb in Hrb; destruct (d_signed d); lia).
    assert (Hv8 : v < 2 ^ (8 * e_w r)).
    { rewrite <- Hw. pose proof (pow_mono k (8 * d_w d)). lia. }
    rewrite trunc_small by lia.
    rewrite (conv_small (8 * d_w d) (d_signed d) v); [| lia | lia |].
    2:{ pose proof (pow_mono k rb). unfold rb in *. destruct (d_signed d); lia. }
    rewrite (conv_small (d_set d) (d_setsigned d) v); [| lia | lia |].
    2:{ pose proof (pow_mono k sb). unfold sb in *. destruct (d_setsigned d); lia. }
    assert (Hv63 : v < 2 ^ 63) by (pose proof (pow_mono k 63); lia).
    rewrite (conv_small 64 true v); [| lia | lia | exact Hv63].
    split; [reflexivity|exact Hv63].
Qed.

Lemma default_roundtrip : forall dt r v,
  wf_default dt r = true ->
  decode dt (e_tag r, trunc (8 * e_w r) v) = Some (to_signed 64 (trunc 64 v)).
Proof.
  intros dt r v Hwf. unfold wf_default in Hwf. unfold decode. cbn [fst snd].
  destruct (find_d dt (e_tag r)) as [d|]; [|discriminate].
  apply andb_true_iff in Hwf. destruct Hwf as [Hwf Hs].
  apply andb_true_iff in Hwf. destruct Hwf as [Hd He].
  apply Z.eqb_eq in Hd. apply Z.eqb_eq in He. apply Z.eqb_eq in Hs.
  rewrite Hd, He, Hs. change (8 * 8) with 64.
  rewrite conv64_chain. rewrite trunc_idem by lia. reflexivity.
Qed.

(* the main lemma: for EVERY pair of tables accepted by codec_wf *)
Lemma codec_roundtrip : forall et dflt dt,
  codec_wf et dflt dt = true ->
  forall v, 0 <= v < 2 ^ 64 -> decode dt (encode et dflt v) = Some (to_signed 64 v).
Proof.
  intros et dflt dt Hwf v Hv. unfold codec_wf in Hwf.
  apply andb_true_iff in Hwf. destruct Hwf as [Hrows Hdef].
  induction et as [|r et IH]; cbn [encode].
  - rewrite default_roundtrip by exact Hdef. rewrite trunc_small by lia. reflexivity.
  - cbn [forallb] in Hrows. apply andb_true_iff in Hrows. destruct Hrows as [Hr Hrest].
    destruct (holds (e_cmp r) v) eqn:Hh.
    + destruct (row_roundtrip dt r v Hr Hh) as [Hd H63]; [lia|].
      rewrite Hd. rewrite to_signed64_small by lia. reflexivity.
    + apply IH. exact Hrest.
Qed.

Lemma lit_path_id : forall a b c d,
  path_wf a b c d = true -> forall v, 0 <= v < 2 ^ 63 -> lit_path a b c d v = v.
Proof.
  intros a b c d Hwf v Hv. unfold path_wf in Hwf.
  apply andb_true_iff in Hwf. destruct Hwf as [Hwf Hd].
  apply andb_true_iff in Hwf. destruct Hwf as [Hwf Hc].
  apply andb_true_iff in Hwf. destruct Hwf as [Ha Hb].
  apply Z.leb_le in Ha. apply Z.leb_le in Hb. apply Z.leb_le in Hc. apply Z.leb_le in Hd.
  unfold lit_path.
  pose proof (pow_mono 63 a). pose proof (pow_mono 63 b). pose proof (pow_mono 63 c). pose proof (pow_mono 63 d).
  rewrite (trunc_small a) by lia. rewrite (trunc_small b) by lia.
  rewrite (trunc_small c) by lia. apply trunc_small. lia.
Qed.

Lemma neg_fold_correct : forall et dflt ft dt,
  codec_wf et dflt ft = true -> codec_wf et dflt dt = true ->
  forall v, 0 <= v < 2 ^ 63 -> neg_fold et dflt ft dt v = Some (- v).
Proof.
  intros et dflt ft dt Hf Hd v Hv. unfold neg_fold.
  assert (P64 : 2 ^ 64 = 2 * 2 ^ 63) by reflexivity.
  rewrite (codec_roundtrip et dflt ft Hf) by lia.
  rewrite to_signed64_small by lia.
  assert (Hc : trunc 64 (conv 64 true (- v)) = trunc 64 (- v)) by apply trunc_conv64.
  rewrite Hc.
  rewrite (codec_roundtrip et dflt dt Hd) by (apply trunc_range; lia).
  f_equal.
  destruct (Z.eq_dec v 0) as [E|E].
  - subst v. cbn. reflexivity.
  - unfold trunc. replace (- v) with ((2 ^ 64 - v) + (-1) * 2 ^ 64) by lia.
    rewrite Z.mod_add by lia. rewrite Z.mod_small by lia.
    unfold to_signed. cbn [Z.leb]. change (64 <=? 0) with false. cbv iota.
    change (64 - 1) with 63.
    destruct (Z.ltb_spec (2 ^ 64 - v) (2 ^ 63)) as [H1|H1]; lia.
Qed.

Lemma case_label_value : forall m c a b,
  case_wf m c a b = true ->
  forall v, 0 <= v < 2 ^ 63 -> case_pos m c a v = v /\ case_neg m c a v = - v.
Proof.
  intros m c a b Hwf v Hv. unfold case_wf in Hwf.
  apply andb_true_iff in Hwf. destruct Hwf as [Hwf _].
  apply andb_true_iff in Hwf. destruct Hwf as [Hwf Ha].
  apply andb_true_iff in Hwf. destruct Hwf as [Hm Hc].
  apply Z.eqb_eq in Hm. apply Z.eqb_eq in Hc. apply Z.eqb_eq in Ha. subst m c a.
  assert (P64 : 2 ^ 64 = 2 * 2 ^ 63) by reflexivity.
  unfold case_pos, case_neg. split.
  - rewrite (trunc_small 64 v) by lia.
    assert (Hcv : conv 64 true v = v).
    { apply conv_small; [lia | lia | exact (proj2 Hv)]. }
    rewrite Hcv. exact Hcv.
  - rewrite (trunc_small 64 v) by lia.
    destruct (Z.eq_dec v 0) as [E|E].
    + subst v. vm_compute. reflexivity.
    + assert (Ht : trunc 64 (0 - v) = 2 ^ 64 - v).
      { unfold trunc. replace (0 - v) with ((2 ^ 64 - v) + (-1) * 2 ^ 64) by lia.
        rewrite Z.mod_add by lia. apply Z.mod_small. lia. }
      rewrite Ht.
      assert (Hc : conv 64 true (2 ^ 64 - v) = - v).
      { unfold conv. rewrite trunc_small by lia. unfold to_signed.
        change (64 <=? 0) with false. cbv iota. change (64 - 1) with 63.
        destruct (Z.ltb_spec (2 ^ 64 - v) (2 ^ 63)) as [H1|H1]; lia. }
      rewrite Hc.
      unfold conv. unfold trunc. replace (- v) with ((2 ^ 64 - v) + (-1) * 2 ^ 64) by lia.
      rewrite Z.mod_add by lia. rewrite Z.mod_small by lia. unfold to_signed.
      change (64 <=? 0) with false. cbv iota. change (64 - 1) with 63.
      destruct (Z.ltb_spec (2 ^ 64 - v) (2 ^ 63)) as [H1|H1]; lia.
Qed.
