(* C03/ProofsSem.v - the reference evaluator does not depend on its fuel: more fuel never
   changes a result, hence any two sufficient amounts of fuel give the same observation. *)
From Coq Require Import ZArith List Ascii Bool Lia.
From Morfuse Require Import C03.Ast C03.Sem.
Import ListNotations.

(* R' answers everything R answers, with the same answer *)
Definition le_rec (R R' : rec) : Prop :=
  (forall e s r, r_eval R e s = Some r -> r_eval R' e s = Some r) /\
  (forall es s r, r_eval_list R es s = Some r -> r_eval_list R' es s = Some r) /\
  (forall f a b s r, r_call R f a b s = Some r -> r_call R' f a b s = Some r) /\
  (forall it s r, r_run_items R it s = Some r -> r_run_items R' it s = Some r) /\
  (forall c s r, r_exec R c s = Some r -> r_exec R' c s = Some r) /\
  (forall l s r, r_exec_list R l s = Some r -> r_exec_list R' l s = Some r) /\
  (forall l s r, r_exec_items R l s = Some r -> r_exec_items R' l s = Some r) /\
  (forall e i b s r, r_loop R e i b s = Some r -> r_loop R' e i b s = Some r) /\
  (forall h a s r, r_run_handlers R h a s = Some r -> r_run_handlers R' h a s = Some r).

Ltac finish I1 I2 I3 I4 I5 I6 I7 I8 I9 H :=
  first [ exact H | discriminate H
        | apply I1; exact H | apply I2; exact H | apply I3; exact H | apply I4; exact H | apply I5; exact H
        | apply I6; exact H | apply I7; exact H | apply I8; exact H | apply I9; exact H ].

Ltac lift I1 I2 I3 I4 I5 I6 I7 I8 I9 E :=
  first [ apply I1 in E | apply I2 in E | apply I3 in E | apply I4 in E | apply I5 in E
        | apply I6 in E | apply I7 in E | apply I8 in E | apply I9 in E ].

(* walk down the matches of the hypothesis; a scrutinee that is a call of R is answered
   identically by R' (rewrite), any other scrutinee is the same term in the goal (destruct) *)
Ltac crunch I1 I2 I3 I4 I5 I6 I7 I8 I9 H :=
  repeat match type of H with
  | match ?X with _ => _ end = Some _ =>
    let E := fresh "E" in
    destruct X eqn:E; try discriminate H;
    try (lift I1 I2 I3 I4 I5 I6 I7 I8 I9 E; rewrite E)
  end;
  finish I1 I2 I3 I4 I5 I6 I7 I8 I9 H.

Section Step.
Variable prog : program.
Variables R R' : rec.
Hypothesis HR : le_rec R R'.

Lemma step_mono : le_rec (step prog R) (step prog R').
Proof.
  destruct HR as [I1 [I2 [I3 [I4 [I5 [I6 [I7 [I8 I9]]]]]]]].
  unfold le_rec, step. cbn [r_eval r_eval_list r_call r_run_items r_exec r_exec_list r_exec_items r_loop r_run_handlers].
  repeat split.
  - intros e s r H. unfold eval_body in *. destruct e; crunch I1 I2 I3 I4 I5 I6 I7 I8 I9 H.
  - intros es s r H. unfold eval_list_body in *. destruct es; crunch I1 I2 I3 I4 I5 I6 I7 I8 I9 H.
  - intros f a b s r H. unfold call_body in *. crunch I1 I2 I3 I4 I5 I6 I7 I8 I9 H.
  - intros it s r H. unfold run_items_body in *. destruct it as [|[f ps|c] it']; crunch I1 I2 I3 I4 I5 I6 I7 I8 I9 H.
  - intros c s r H. unfold exec_body in *. destruct c; crunch I1 I2 I3 I4 I5 I6 I7 I8 I9 H.
  - intros l s r H. unfold exec_list_body in *. destruct l; crunch I1 I2 I3 I4 I5 I6 I7 I8 I9 H.
  - intros l s r H. unfold exec_items_body in *. destruct l as [|[lb|c] l']; crunch I1 I2 I3 I4 I5 I6 I7 I8 I9 H.
  - intros e i b s r H. unfold loop_body in *. crunch I1 I2 I3 I4 I5 I6 I7 I8 I9 H.
  - intros h a s r H. unfold run_handlers_body in *. destruct h as [|[f ps body] h']; crunch I1 I2 I3 I4 I5 I6 I7 I8 I9 H.
Qed.
End Step.

Lemma bottom_least : forall R, le_rec bottom R.
Proof. intros R. unfold le_rec, bottom. cbn. repeat split; intros; discriminate. Qed.

Lemma ev_mono : forall prog n m, n <= m -> le_rec (ev prog n) (ev prog m).
Proof.
  intros prog. induction n as [|n IH]; intros m Hle.
  - apply bottom_least.
  - destruct m as [|m]; [lia|]. cbn [ev]. apply step_mono. apply IH. lia.
Qed.

Lemma run_program_fuel_irrelevant : forall p n m entry args r,
  n <= m -> run_program n p entry args = Some r -> run_program m p entry args = Some r.
Proof.
  intros p n m entry args r Hle H. unfold run_program in *.
  destruct (r_call (ev p n) entry args false init_st) as [[v s]|] eqn:E; [|discriminate].
  destruct (ev_mono p n m Hle) as [_ [_ [I3 _]]].
  rewrite (I3 _ _ _ _ _ E). exact H.
Qed.

Lemma run_program_deterministic : forall p n m entry args r1 r2,
  run_program n p entry args = Some r1 -> run_program m p entry args = Some r2 -> r1 = r2.
Proof.
  intros p n m entry args r1 r2 H1 H2.
  destruct (Nat.le_ge_cases n m) as [Hle|Hle].
  - rewrite (run_program_fuel_irrelevant p n m entry args r1 Hle H1) in H2. congruence.
  - rewrite (run_program_fuel_irrelevant p m n entry args r2 Hle H2) in H1. congruence.
Qed.

(* compound assignment is, by the rules, the expanded assignment *)
Lemma compound_is_expanded : forall R o l e s,
  exec_body R (SCSet o l e) s = r_exec R (SSet l (EBin o (lval_expr l) e)) s.
Proof. intros. reflexivity. Qed.
