(* C03/Sem.v - reference semantics of the core script language: a big-step evaluator with fuel.

   What is modelled (the "language rules" of property C03, for error-free programs):
   - values: NIL, 64-bit signed integers (wrapping), strings, float literals as opaque printed
     text (copied, printed, negated, concatenated with strings, tested for truth - no arithmetic),
     hash arrays and constant arrays
     (both by reference: assignment copies the reference, element writes are seen through
     every alias);
   - scopes: local (per thread), group (shared by the threads started with `thread` from the
     same group; `waitthread` runs its callee in a new, empty group - as the engine does),
     level / game / parm (global);
   - expressions: literals, variables, a[i], unary - ! ~, + - * / % & | ^ << >> (a shift count
     outside 0..63 shifts everything out: 0, or the sign for >>), == != < <= > >=,
     && || (short circuit, result 0/1), string concatenation (int + string and string + int
     concatenate the decimal form), .size, e1::e2 constant arrays, `waitthread f args`;
   - statements: assignment (also to a[i], a[i][j]: missing intermediate arrays are created;
     assigning NIL removes the element), compound assignment (= the expanded form), ++ / --,
     if / else, while, for, do-while, break, continue, switch (labels are compared as
     strings: the decimal form of an integer; fall-through; default), blocks, goto to a
     top-level label, try / catch / throw (innermost enclosing try whose catch block has
     the label; parameters are bound from the thrown arguments), println, thread calls, end.
   A result of None means: out of fuel, or the program is outside the error-free core
   (type error, division by zero, unhandled throw, break outside a loop, missing label, call depth > max_depth, ...).
   Such programs are not part of the quantifier and are dropped by the check.
   No proofs in this file. *)
From Coq Require Import ZArith List Ascii Bool.
From Morfuse Require Import C03.Ast.
Import ListNotations.
Local Open Scope Z_scope.

Inductive value :=
| VNil
| VInt (z : Z)
| VStr (s : str)
| VFlt (shown : str) (nz : bool)   (* opaque float: printed text, truth value; only copied, printed, negated, concatenated *)
| VArr (a : nat)         (* reference to a hash array in the heap *)
| VCArr (a : nat).       (* reference to a constant array in the heap *)

Inductive key := KInt (z : Z) | KStr (s : str).

Inductive hobj := HArr (l : list (key * value)) | HCArr (l : list value).

Definition env := list (N * value).

Record glob := mkG {
  g_level : env; g_game : env; g_parm : env;
  g_heap : list hobj;
  g_out : list str         (* printed lines, newest first *)
}.

Record st := mkSt { s_loc : env; s_grp : env; s_g : glob; s_depth : nat }.

Inductive outcome :=
| ONormal | OBreak | OContinue
| OEnd (v : value)
| OGoto (f : N) (args : list value)
| OThrow (f : N) (args : list value).

Definition max_depth : nat := 12.

(* ------------------------------------------------------------------ integers and strings *)

Definition wrap (z : Z) : Z := ((z + 2 ^ 63) mod 2 ^ 64) - 2 ^ 63.

Definition digit_char (d : Z) : ascii := ascii_of_nat (48 + Z.to_nat d).

Fixpoint str_eqb (a b : str) : bool :=
  match a, b with
  | [], [] => true
  | x :: a', y :: b' => Ascii.eqb x y && str_eqb a' b'
  | _, _ => false
  end.

Fixpoint pos_digits (fuel : nat) (z : Z) (acc : str) : str :=
  match fuel with
  | O => acc
  | S f =>
    let acc' := digit_char (z mod 10) :: acc in
    if z <? 10 then acc' else pos_digits f (z / 10) acc'
  end.

Definition dec (z : Z) : str :=
  if z <? 0 then "-"%char :: pos_digits 20 (- z) [] else pos_digits 20 z [].

Definition s_nil : str := ["N"; "I"; "L"]%char.
Definition s_default : str := ["d"; "e"; "f"; "a"; "u"; "l"; "t"]%char.

Definition str_of_value (v : value) : option str :=
  match v with
  | VNil => Some s_nil
  | VInt z => Some (dec z)
  | VStr s => Some s
  | VFlt s _ => Some s
  | _ => None
  end.

Definition truthy (v : value) : bool :=
  match v with
  | VNil => false
  | VInt z => negb (z =? 0)
  | VStr s => negb (str_eqb s [])
  | VFlt _ nz => nz
  | _ => true
  end.

Definition vbool (b : bool) : value := VInt (if b then 1 else 0).

Definition value_eq (a b : value) : bool :=
  match a, b with
  | VNil, VNil => true
  | VInt x, VInt y => x =? y
  | VInt x, VStr t => str_eqb (dec x) t
  | VStr s, VInt y => str_eqb s (dec y)
  | VStr s, VStr t => str_eqb s t
  | _, _ => false
  end.

Definition int_op (o : binop) (x y : Z) : option value :=
  match o with
  | OAdd => Some (VInt (wrap (x + y)))
  | OSub => Some (VInt (wrap (x - y)))
  | OMul => Some (VInt (wrap (x * y)))
  | ODiv => if y =? 0 then None else Some (VInt (wrap (Z.quot x y)))
  | OMod => if y =? 0 then None else Some (VInt (Z.rem x y))
  | OBand => Some (VInt (Z.land x y))
  | OBor => Some (VInt (Z.lor x y))
  | OBxor => Some (VInt (Z.lxor x y))
  | OShl => if (0 <=? y) && (y <? 64) then Some (VInt (wrap (x * 2 ^ y))) else Some (VInt 0)
  | OShr => if (0 <=? y) && (y <? 64) then Some (VInt (Z.shiftr x y))
            else Some (VInt (if x <? 0 then -1 else 0))
  | OEq => Some (vbool (x =? y))
  | ONe => Some (vbool (negb (x =? y)))
  | OLt => Some (vbool (x <? y))
  | OLe => Some (vbool (x <=? y))
  | OGt => Some (vbool (y <? x))
  | OGe => Some (vbool (y <=? x))
  end.

Definition is_flt (v : value) : bool := match v with VFlt _ _ => true | _ => false end.

(* the sign of a printed float: "%.3f" of -x is "-" followed by "%.3f" of x (also for zero) *)
Definition flip_sign (s : str) : str :=
  match s with
  | c :: r => if Ascii.eqb c "-"%char then r else "-"%char :: s
  | [] => s
  end.

Definition binop_eval (o : binop) (a b : value) : option value :=
  if is_flt a || is_flt b then
    (* float arithmetic and comparison are outside the core; only concatenation with a string *)
    match o, a, b with
    | OAdd, VStr s, VFlt t _ => Some (VStr (s ++ t))
    | OAdd, VFlt s _, VStr t => Some (VStr (s ++ t))
    | OEq, VFlt _ _, VNil | OEq, VNil, VFlt _ _ => Some (VInt 0)
    | ONe, VFlt _ _, VNil | ONe, VNil, VFlt _ _ => Some (VInt 1)
    | _, _, _ => None
    end
  else
  match o with
  | OEq => Some (vbool (value_eq a b))
  | ONe => Some (vbool (negb (value_eq a b)))
  | OAdd =>
    match a, b with
    | VInt x, VInt y => int_op OAdd x y
    | VInt x, VStr t => Some (VStr (dec x ++ t))
    | VStr s, VInt y => Some (VStr (s ++ dec y))
    | VStr s, VStr t => Some (VStr (s ++ t))
    | _, _ => None
    end
  | _ =>
    match a, b with
    | VInt x, VInt y => int_op o x y
    | _, _ => None
    end
  end.

(* ------------------------------------------------------------------ environments, heap *)

Fixpoint env_get (e : env) (x : N) : value :=
  match e with
  | [] => VNil
  | (y, v) :: r => if N.eqb x y then v else env_get r x
  end.

Fixpoint env_set (e : env) (x : N) (v : value) : env :=
  match e with
  | [] => [(x, v)]
  | (y, w) :: r => if N.eqb x y then (y, v) :: r else (y, w) :: env_set r x v
  end.

Definition get_var (sc : scope) (x : N) (s : st) : value :=
  match sc with
  | SLocal => env_get (s_loc s) x
  | SGroup => env_get (s_grp s) x
  | SLevel => env_get (g_level (s_g s)) x
  | SGame => env_get (g_game (s_g s)) x
  | SParm => env_get (g_parm (s_g s)) x
  end.

Definition set_glob (s : st) (g : glob) : st := mkSt (s_loc s) (s_grp s) g (s_depth s).

Definition set_var (sc : scope) (x : N) (v : value) (s : st) : st :=
  let g := s_g s in
  match sc with
  | SLocal => mkSt (env_set (s_loc s) x v) (s_grp s) g (s_depth s)
  | SGroup => mkSt (s_loc s) (env_set (s_grp s) x v) g (s_depth s)
  | SLevel => set_glob s (mkG (env_set (g_level g) x v) (g_game g) (g_parm g) (g_heap g) (g_out g))
  | SGame => set_glob s (mkG (g_level g) (env_set (g_game g) x v) (g_parm g) (g_heap g) (g_out g))
  | SParm => set_glob s (mkG (g_level g) (g_game g) (env_set (g_parm g) x v) (g_heap g) (g_out g))
  end.

Definition set_heap (s : st) (h : list hobj) : st :=
  let g := s_g s in set_glob s (mkG (g_level g) (g_game g) (g_parm g) h (g_out g)).

Definition add_out (s : st) (line : str) : st :=
  let g := s_g s in set_glob s (mkG (g_level g) (g_game g) (g_parm g) (g_heap g) (line :: g_out g)).

Fixpoint replace_nth {A : Type} (l : list A) (n : nat) (x : A) : list A :=
  match l, n with
  | [], _ => []
  | _ :: r, O => x :: r
  | y :: r, S m => y :: replace_nth r m x
  end.

Definition key_eq (a b : key) : bool :=
  match a, b with
  | KInt x, KInt y => x =? y
  | KStr s, KStr t => str_eqb s t
  | _, _ => false
  end.

Definition key_of (v : value) : option key :=
  match v with
  | VInt z => Some (KInt z)
  | VStr s => Some (KStr s)
  | _ => None
  end.

Fixpoint arr_get (l : list (key * value)) (k : key) : value :=
  match l with
  | [] => VNil
  | (k', v) :: r => if key_eq k k' then v else arr_get r k
  end.

Fixpoint arr_remove (l : list (key * value)) (k : key) : list (key * value) :=
  match l with
  | [] => []
  | (k', v) :: r => if key_eq k k' then r else (k', v) :: arr_remove r k
  end.

Fixpoint arr_put (l : list (key * value)) (k : key) (v : value) : list (key * value) :=
  match l with
  | [] => [(k, v)]
  | (k', w) :: r => if key_eq k k' then (k', v) :: r else (k', w) :: arr_put r k v
  end.

(* element write as OP_LOAD_ARRAY_VAR does it: NIL removes *)
Definition arr_store (l : list (key * value)) (k : key) (v : value) : list (key * value) :=
  match v with
  | VNil => arr_remove l k
  | _ => arr_put l k v
  end.

Definition carr_index (l : list value) (k : key) : option nat :=
  match k with
  | KInt z => if (1 <=? z) && (z <=? Z.of_nat (List.length l)) then Some (Z.to_nat (z - 1)) else None
  | KStr _ => None
  end.

(* read a[k] *)
Definition index_value (h : list hobj) (a : value) (i : value) : option value :=
  match a with
  | VNil => Some VNil
  | VArr p =>
    match nth_error h p, key_of i with
    | Some (HArr l), Some k => Some (arr_get l k)
    | _, _ => None
    end
  | VCArr p =>
    match nth_error h p, key_of i with
    | Some (HCArr l), Some k =>
      match carr_index l k with
      | Some n => Some (nth n l VNil)
      | None => None
      end
    | _, _ => None
    end
  | _ => None
  end.

(* write through a path of keys into the container value c; returns the new container value
   (a NIL container becomes a fresh hash array) and the new heap *)
Fixpoint set_path (h : list hobj) (c : value) (ks : list key) (v : value) : option (value * list hobj) :=
  match ks with
  | [] => Some (v, h)
  | k :: rest =>
    match c with
    | VNil =>
      match rest with
      | [] =>
        let p := List.length h in
        Some (VArr p, h ++ [HArr (arr_store [] k v)])
      | _ :: _ =>
        (* the intermediate element is created first (as NIL), then filled *)
        let p := List.length h in
        match set_path (h ++ [HArr []]) VNil rest v with
        | Some (child, h') =>
          match nth_error h' p with
          | Some (HArr l) => Some (VArr p, replace_nth h' p (HArr (arr_put l k child)))
          | _ => None
          end
        | None => None
        end
      end
    | VArr p =>
      match nth_error h p with
      | Some (HArr l) =>
        match rest with
        | [] => Some (VArr p, replace_nth h p (HArr (arr_store l k v)))
        | _ :: _ =>
          match set_path h (arr_get l k) rest v with
          | Some (child, h') =>
            match nth_error h' p with
            | Some (HArr l') => Some (VArr p, replace_nth h' p (HArr (arr_put l' k child)))
            | _ => None
            end
          | None => None
          end
        end
      | _ => None
      end
    | VCArr p =>
      match nth_error h p with
      | Some (HCArr l) =>
        match carr_index l k with
        | Some n =>
          match rest with
          | [] => Some (VCArr p, replace_nth h p (HCArr (replace_nth l n v)))
          | _ :: _ =>
            match set_path h (nth n l VNil) rest v with
            | Some (child, h') =>
              match nth_error h' p with
              | Some (HCArr l') => Some (VCArr p, replace_nth h' p (HCArr (replace_nth l' n child)))
              | _ => None
              end
            | None => None
            end
          end
        | None => None
        end
      | _ => None
      end
    | _ => None
    end
  end.

Definition size_value (h : list hobj) (v : value) : option value :=
  match v with
  | VNil => Some (VInt (-1))
  | VInt _ => Some (VInt 1)
  | VStr s => Some (VInt (Z.of_nat (List.length s)))
  | VFlt _ _ => Some (VInt 1)
  | VArr p => match nth_error h p with Some (HArr l) => Some (VInt (Z.of_nat (List.length l))) | _ => None end
  | VCArr p => match nth_error h p with Some (HCArr l) => Some (VInt (Z.of_nat (List.length l))) | _ => None end
  end.

Fixpoint keys_of (vs : list value) : option (list key) :=
  match vs with
  | [] => Some []
  | v :: r =>
    match key_of v, keys_of r with
    | Some k, Some ks => Some (k :: ks)
    | _, _ => None
    end
  end.

Definition assign (sc : scope) (x : N) (ks : list key) (v : value) (s : st) : option st :=
  match ks with
  | [] => Some (set_var sc x v s)
  | _ :: _ =>
    match set_path (g_heap (s_g s)) (get_var sc x s) ks v with
    | Some (c, h) => Some (set_var sc x c (set_heap s h))
    | None => None
    end
  end.

(* label parameters take the next arguments of the "fast data" (missing ones are NIL) *)
Fixpoint bind_params (ps : list (scope * N)) (args : list value) (s : st) : st * list value :=
  match ps with
  | [] => (s, args)
  | (sc, x) :: r =>
    match args with
    | [] => bind_params r [] (set_var sc x VNil s)
    | v :: vs => bind_params r vs (set_var sc x v s)
    end
  end.

Fixpoint join_strings (l : list str) : str :=
  match l with
  | [] => []
  | [s] => s
  | s :: r => s ++ " "%char :: join_strings r
  end.

Fixpoint strs_of (vs : list value) : option (list str) :=
  match vs with
  | [] => Some []
  | v :: r =>
    match str_of_value v, strs_of r with
    | Some s, Some ss => Some (s :: ss)
    | _, _ => None
    end
  end.

(* ------------------------------------------------------------------ labels *)

Fixpoint find_label (f : N) (p : program) : option (list (scope * N) * program) :=
  match p with
  | [] => None
  | TLabel g ps :: r => if N.eqb f g then Some (ps, r) else find_label f r
  | TStmt _ :: r => find_label f r
  end.

Definition label_name (l : swlabel) : str :=
  match l with
  | LInt z => dec z
  | LStr s => s
  | LDefault => s_default
  end.

Fixpoint find_case (name : str) (items : list switem) : option (list switem) :=
  match items with
  | [] => None
  | ILabel l :: r => if str_eqb (label_name l) name then Some r else find_case name r
  | IStmt _ :: r => find_case name r
  end.

Fixpoint find_handler (f : N) (hs : list handler) : option (list handler) :=
  match hs with
  | [] => None
  | Handler g ps b :: r => if N.eqb f g then Some (Handler g ps b :: r) else find_handler f r
  end.

Definition lval_expr (l : lval) : expr :=
  fold_left (fun a i => EIdx a i) (lv_idx l) (EVar (lv_sc l) (lv_x l)).

(* ------------------------------------------------------------------ the evaluator *)

(* The evaluator is written with open recursion: every function body takes the record R of the
   functions to call for sub-terms; [ev n] ties the knot n times (fuel n), starting from the
   functions that never return. *)

Record rec := mkRec {
  r_eval : expr -> st -> option (value * st);
  r_eval_list : list expr -> st -> option (list value * st);
  r_call : N -> list value -> bool -> st -> option (value * st);
  r_run_items : program -> st -> option (value * st);
  r_exec : stmt -> st -> option (outcome * st);
  r_exec_list : list stmt -> st -> option (outcome * st);
  r_exec_items : list switem -> st -> option (outcome * st);
  r_loop : expr -> stmt -> stmt -> st -> option (outcome * st);
  r_run_handlers : list handler -> list value -> st -> option (outcome * st)
}.

Section Eval.
Variable prog : program.
Variable R : rec.

Definition eval_body (e : expr) (s : st) : option (value * st) :=
  match e with
  | EInt z => Some (VInt z, s)
  | EStr t => Some (VStr t, s)
  | EFlt t nz => Some (VFlt t nz, s)
  | ENil => Some (VNil, s)
  | EVar sc x => Some (get_var sc x s, s)
  | EIdx a i =>
    match r_eval R a s with
    | Some (va, s1) =>
      match r_eval R i s1 with
      | Some (vi, s2) =>
        match index_value (g_heap (s_g s2)) va vi with
        | Some v => Some (v, s2)
        | None => None
        end
      | None => None
      end
    | None => None
    end
  | ENeg a =>
    match r_eval R a s with
    | Some (VInt z, s1) => Some (VInt (wrap (- z)), s1)
    | Some (VFlt t nz, s1) => Some (VFlt (flip_sign t) nz, s1)
    | _ => None
    end
  | ENot a =>
    match r_eval R a s with
    | Some (v, s1) => Some (vbool (negb (truthy v)), s1)
    | None => None
    end
  | ECpl a =>
    match r_eval R a s with
    | Some (VInt z, s1) => Some (VInt (Z.lnot z), s1)
    | _ => None
    end
  | EBin o a b =>
    match r_eval R a s with
    | Some (va, s1) =>
      match r_eval R b s1 with
      | Some (vb, s2) =>
        match binop_eval o va vb with
        | Some v => Some (v, s2)
        | None => None
        end
      | None => None
      end
    | None => None
    end
  | EAnd a b =>
    match r_eval R a s with
    | Some (va, s1) =>
      if truthy va then
        match r_eval R b s1 with
        | Some (vb, s2) => Some (vbool (truthy vb), s2)
        | None => None
        end
      else Some (VInt 0, s1)
    | None => None
    end
  | EOr a b =>
    match r_eval R a s with
    | Some (va, s1) =>
      if truthy va then Some (VInt 1, s1)
      else
        match r_eval R b s1 with
        | Some (vb, s2) => Some (vbool (truthy vb), s2)
        | None => None
        end
    | None => None
    end
  | ECall f args =>
    match r_eval_list R args s with
    | Some (vs, s1) => r_call R f vs false s1
    | None => None
    end
  | ESize a =>
    match r_eval R a s with
    | Some (va, s1) =>
      match size_value (g_heap (s_g s1)) va with
      | Some v => Some (v, s1)
      | None => None
      end
    | None => None
    end
  | ECArr es =>
    match r_eval_list R es s with
    | Some (vs, s1) =>
      let h := g_heap (s_g s1) in
      Some (VCArr (List.length h), set_heap s1 (h ++ [HCArr vs]))
    | None => None
    end
  end.

Definition eval_list_body (es : list expr) (s : st) : option (list value * st) :=
  match es with
  | [] => Some ([], s)
  | e :: r =>
    match r_eval R e s with
    | Some (v, s1) =>
      match r_eval_list R r s1 with
      | Some (vs, s2) => Some (v :: vs, s2)
      | None => None
      end
    | None => None
    end
  end.

(* start label f with the arguments args; share = the callee runs in the caller's group *)
Definition call_body (f : N) (args : list value) (share : bool) (s : st) : option (value * st) :=
  match find_label f prog with
  | None => None
  | Some (ps, rest) =>
    if Nat.leb max_depth (s_depth s) then None
    else
      let callee := mkSt [] (if share then s_grp s else []) (s_g s) (S (s_depth s)) in
      let (callee', _) := bind_params ps args callee in
      match r_run_items R rest callee' with
      | Some (v, s') =>
        Some (v, mkSt (s_loc s) (if share then s_grp s' else s_grp s) (s_g s') (s_depth s))
      | None => None
      end
  end.

(* run a thread from a position of the file *)
Definition run_items_body (items : program) (s : st) : option (value * st) :=
  match items with
  | [] => Some (VNil, s)
  | TLabel _ [] :: r => r_run_items R r s
  | TLabel _ (_ :: _) :: _ => None
  | TStmt c :: r =>
    match r_exec R c s with
    | Some (ONormal, s1) => r_run_items R r s1
    | Some (OEnd v, s1) => Some (v, s1)
    | Some (OGoto g args, s1) =>
      match find_label g prog with
      | Some (ps, rest) => let (s2, _) := bind_params ps args s1 in r_run_items R rest s2
      | None => None
      end
    | _ => None
    end
  end.

Definition exec_body (c : stmt) (s : st) : option (outcome * st) :=
  match c with
  | SNop => Some (ONormal, s)
  | SSet l e =>
    match r_eval R e s with
    | Some (v, s1) =>
      match r_eval_list R (lv_idx l) s1 with
      | Some (is, s2) =>
        match keys_of is with
        | Some ks =>
          match assign (lv_sc l) (lv_x l) ks v s2 with
          | Some s3 => Some (ONormal, s3)
          | None => None
          end
        | None => None
        end
      | None => None
      end
    | None => None
    end
  | SCSet o l e => r_exec R (SSet l (EBin o (lval_expr l) e)) s
  | SInc l =>
    match r_eval R (lval_expr l) s with
    | Some (VNil, s1) => r_exec R (SSet l ENil) s1
    | Some (VInt z, s1) => r_exec R (SSet l (EInt (wrap (z + 1)))) s1
    | _ => None
    end
  | SDec l =>
    match r_eval R (lval_expr l) s with
    | Some (VNil, s1) => r_exec R (SSet l ENil) s1
    | Some (VInt z, s1) => r_exec R (SSet l (EInt (wrap (z - 1)))) s1
    | _ => None
    end
  | SIf e t =>
    match r_eval R e s with
    | Some (v, s1) => if truthy v then r_exec R t s1 else Some (ONormal, s1)
    | None => None
    end
  | SIfElse e t f =>
    match r_eval R e s with
    | Some (v, s1) => if truthy v then r_exec R t s1 else r_exec R f s1
    | None => None
    end
  | SWhile e body => r_loop R e SNop body s
  | SFor init e inc body =>
    match r_exec R init s with
    | Some (ONormal, s1) => r_loop R e inc body s1
    | other => other
    end
  | SDo body e =>
    match r_exec R body s with
    | Some (ONormal, s1) | Some (OContinue, s1) =>
      match r_eval R e s1 with
      | Some (v, s2) => if truthy v then r_exec R (SDo body e) s2 else Some (ONormal, s2)
      | None => None
      end
    | Some (OBreak, s1) => Some (ONormal, s1)
    | other => other
    end
  | SBreak => Some (OBreak, s)
  | SContinue => Some (OContinue, s)
  | SSwitch e items =>
    match r_eval R e s with
    | Some (v, s1) =>
      match str_of_value v with
      | Some name =>
        let target :=
          match find_case name items with
          | Some r => Some r
          | None => find_case s_default items
          end in
        match target with
        | None => Some (ONormal, s1)
        | Some r =>
          match r_exec_items R r s1 with
          | Some (OBreak, s2) => Some (ONormal, s2)
          | other => other
          end
        end
      | None => None
      end
    | None => None
    end
  | SBlock l => r_exec_list R l s
  | SGoto f args =>
    match r_eval_list R args s with
    | Some (vs, s1) => Some (OGoto f vs, s1)
    | None => None
    end
  | STry body hs =>
    match r_exec R body s with
    | Some (OThrow f args, s1) =>
      match find_handler f hs with
      | Some hs' => r_run_handlers R hs' args s1
      | None => Some (OThrow f args, s1)
      end
    | other => other
    end
  | SThrow f args =>
    match r_eval_list R args s with
    | Some (vs, s1) => Some (OThrow f vs, s1)
    | None => None
    end
  | SPrint args =>
    match r_eval_list R args s with
    | Some (vs, s1) =>
      match strs_of vs with
      | Some ss => Some (ONormal, add_out s1 (join_strings ss))
      | None => None
      end
    | None => None
    end
  | SThread f args =>
    match r_eval_list R args s with
    | Some (vs, s1) =>
      match r_call R f vs true s1 with
      | Some (_, s2) => Some (ONormal, s2)
      | None => None
      end
    | None => None
    end
  | SEnd None => Some (OEnd VNil, s)
  | SEnd (Some e) =>
    match r_eval R e s with
    | Some (v, s1) => Some (OEnd v, s1)
    | None => None
    end
  end.

Definition exec_list_body (l : list stmt) (s : st) : option (outcome * st) :=
  match l with
  | [] => Some (ONormal, s)
  | c :: r =>
    match r_exec R c s with
    | Some (ONormal, s1) => r_exec_list R r s1
    | other => other
    end
  end.

(* the body of a switch from the selected position on: labels are passed over *)
Definition exec_items_body (l : list switem) (s : st) : option (outcome * st) :=
  match l with
  | [] => Some (ONormal, s)
  | ILabel _ :: r => r_exec_items R r s
  | IStmt c :: r =>
    match r_exec R c s with
    | Some (ONormal, s1) => r_exec_items R r s1
    | other => other
    end
  end.

(* while (e) { body ; inc }  with `continue` going to inc *)
Definition loop_body (e : expr) (inc body : stmt) (s : st) : option (outcome * st) :=
  match r_eval R e s with
  | Some (v, s1) =>
    if truthy v then
      match r_exec R body s1 with
      | Some (ONormal, s2) | Some (OContinue, s2) =>
        match r_exec R inc s2 with
        | Some (ONormal, s3) => r_loop R e inc body s3
        | other => other
        end
      | Some (OBreak, s2) => Some (ONormal, s2)
      | other => other
      end
    else Some (ONormal, s1)
  | None => None
  end.

(* the catch block from the selected label on: every label binds its parameters from the
   remaining thrown arguments, then its statements run; control falls into the next label *)
Definition run_handlers_body (hs : list handler) (args : list value) (s : st) : option (outcome * st) :=
  match hs with
  | [] => Some (ONormal, s)
  | Handler _ ps body :: r =>
    let (s1, args') := bind_params ps args s in
    match r_exec_list R body s1 with
    | Some (ONormal, s2) => r_run_handlers R r args' s2
    | other => other
    end
  end.

End Eval.

Definition bottom : rec :=
  mkRec (fun _ _ => None) (fun _ _ => None) (fun _ _ _ _ => None) (fun _ _ => None) (fun _ _ => None)
        (fun _ _ => None) (fun _ _ => None) (fun _ _ _ _ => None) (fun _ _ _ => None).

Definition step (prog : program) (R : rec) : rec :=
  mkRec (eval_body R) (eval_list_body R) (call_body prog R) (run_items_body prog R) (exec_body R)
        (exec_list_body R) (exec_items_body R) (loop_body R) (run_handlers_body R).

Fixpoint ev (prog : program) (n : nat) : rec :=
  match n with
  | O => bottom
  | S n' => step prog (ev prog n')
  end.

Definition empty_glob : glob := mkG [] [] [] [] [].
Definition init_st : st := mkSt [] [] empty_glob O.

(* what the host observes: the value given to `end` by the thread started at label `entry`
   with the host's arguments, and the final global state (printed lines, level/game/parm) *)
Definition run_program (fuel : nat) (p : program) (entry : N) (args : list value) : option (value * glob) :=
  match r_call (ev p fuel) entry args false init_st with
  | Some (v, s) => Some (v, s_g s)
  | None => None
  end.
