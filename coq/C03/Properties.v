(* C03/Properties.v - the property theorems of C03, and nothing else.
   Every theorem is closed by [exact <lemma>] and followed by Print Assumptions. *)
From Coq Require Import ZArith List Bool Ascii.
From Morfuse Require Import C03.Ast C03.Codec C03.Generated C03.Sem C03.Compile C03.ProofsCodec C03.ProofsGen C03.ProofsSem C03.ProofsCompile.
Import ListNotations.
Local Open Scope Z_scope.

(* The tables below (enc_table, dec_table, fold_table, the member widths) are regenerated from
   /repo's current sources on every run (C03/Generated.v).  For EVERY 64-bit value the operand
   written by ScriptEmitter::EmitInteger and read back by the OP_STORE_INT* cases of the VM is
   the value the script sees (as a 64-bit two's complement integer). *)
Theorem C03_int_literal_roundtrip :
  forall v, 0 <= v < 2 ^ 64 ->
    decode dec_table (encode enc_table enc_default v) = Some (to_signed 64 v).
Proof. exact generated_roundtrip. Qed.
Print Assumptions C03_int_literal_roundtrip.

(* A literal of the source text (0 <= v < 2^63: the lexer's range) reaches the script unchanged:
   through the parse-tree member the lexer writes, the member the token type names, the member
   the emitter reads, the argument of EmitInteger, the operand encoding and the VM's decoding. *)
Theorem C03_source_literal_value :
  forall v, 0 <= v < 2 ^ 63 ->
    decode dec_table (encode enc_table enc_default (lit_path lex_bits gram_bits emit_bits arg_bits v)) = Some v.
Proof. exact generated_literal. Qed.
Print Assumptions C03_source_literal_value.

(* Unary minus applied to a literal is folded at compile time (EvalPrevValue, minus, EmitValue):
   the folded operand evaluates to the negation, for every literal. *)
Theorem C03_negated_literal_folds_to_its_negation :
  forall v, 0 <= v < 2 ^ 63 ->
    neg_fold enc_table enc_default fold_table dec_table v = Some (- v).
Proof. exact generated_neg_fold. Qed.
Print Assumptions C03_negated_literal_folds_to_its_negation.

(* The general statement behind the three: ANY encoder/decoder tables accepted by the decidable
   predicate codec_wf round-trip every 64-bit value (the generated tables are accepted: by
   computation, generated_codec_wf). *)
Theorem C03_every_wellformed_codec_roundtrips :
  forall et dflt dt, codec_wf et dflt dt = true ->
    forall v, 0 <= v < 2 ^ 64 -> decode dt (encode et dflt v) = Some (to_signed 64 v).
Proof. exact codec_roundtrip. Qed.
Print Assumptions C03_every_wellformed_codec_roundtrips.

Theorem C03_generated_tables_are_wellformed :
  codec_wf enc_table enc_default dec_table = true /\
  codec_wf enc_table enc_default fold_table = true /\
  path_wf lex_bits gram_bits emit_bits arg_bits = true.
Proof. exact (conj generated_codec_wf (conj generated_fold_wf generated_path_wf)). Qed.
Print Assumptions C03_generated_tables_are_wellformed.

(* Integer case labels keep their value (and their negation for `case -v:`) on the way from
   the parse tree to the label text: the member read, the cast, EmitCaseLabel's argument type and
   the size of the text buffer (regenerated from Compiler.cpp). *)
Theorem C03_case_label_value :
  forall v, 0 <= v < 2 ^ 63 ->
    case_pos case_member_bits case_cast_bits case_arg_bits v = v /\
    case_neg case_member_bits case_cast_bits case_arg_bits v = - v.
Proof. exact generated_case_label. Qed.
Print Assumptions C03_case_label_value.

(* The reference semantics (C03/Sem.v) is a partial function of the program alone: a result
   obtained with some fuel is obtained with every larger fuel, and two runs with any two amounts
   of fuel cannot disagree.  (Totality: run_program is a Coq function; None = no result.) *)
Theorem C03_reference_result_does_not_depend_on_fuel :
  forall p n m entry args r,
    (n <= m)%nat -> run_program n p entry args = Some r -> run_program m p entry args = Some r.
Proof. exact run_program_fuel_irrelevant. Qed.
Print Assumptions C03_reference_result_does_not_depend_on_fuel.

Theorem C03_reference_semantics_is_deterministic :
  forall p n m entry args r1 r2,
    run_program n p entry args = Some r1 -> run_program m p entry args = Some r2 -> r1 = r2.
Proof. exact run_program_deterministic. Qed.
Print Assumptions C03_reference_semantics_is_deterministic.

(* Equivalent spellings by the rules: `x op= e` is `x = x op e` (for every evaluator state). *)
Theorem C03_compound_assignment_is_the_expanded_assignment :
  forall R o l e s, exec_body R (SCSet o l e) s = r_exec R (SSet l (EBin o (lval_expr l) e)) s.
Proof. exact compound_is_expanded. Qed.
Print Assumptions C03_compound_assignment_is_the_expanded_assignment.

(* Compile-correctness of a small fragment (constant integer expressions: literals, unary minus
   with its compile-time folding, ~, the 16 binary integer operators) for the compiler and VM
   MODEL of C03/Compile.v over the generated operand tables: the emitted code leaves exactly the
   value of the expression on the operand stack, above whatever was there. *)
Theorem C03_constant_expression_code_computes_its_value :
  forall e, lits_ok e = true ->
    forall z st, aeval e = Some z -> vm_run (compile e) st = Some (z :: st).
Proof. exact compile_correct. Qed.
Print Assumptions C03_constant_expression_code_computes_its_value.

(* and that value is the one the reference evaluator assigns to the same expression *)
Theorem C03_constant_expression_value_is_the_reference_value :
  forall p e z, aeval e = Some z ->
    forall s, r_eval (ev p (adepth e)) (embed e) s = Some (VInt z, s).
Proof. exact aeval_is_eval. Qed.
Print Assumptions C03_constant_expression_value_is_the_reference_value.

Example folded_code : compile (ABin OSub (ANeg (ANeg (ALit 70000))) (ANeg (ABin OAdd (ALit 1) (ALit 256)))) =
  [IPush 70000; IPush 1; IPush 256; IBin OAdd; INeg; IBin OSub].
Proof. vm_compute. reflexivity. Qed.

(* non-vacuity: the boundary literals in both directions *)
Example literal_256 : decode dec_table (encode enc_table enc_default 256) = Some 256.
Proof. vm_compute. reflexivity. Qed.
Example literal_2_32 : encode enc_table enc_default 4294967296 = (8, 4294967296).
Proof. vm_compute. reflexivity. Qed.
Example literal_max : decode dec_table (encode enc_table enc_default (2 ^ 64 - 1)) = Some (-1).
Proof. vm_compute. reflexivity. Qed.
Example fold_min : neg_fold enc_table enc_default fold_table dec_table (2 ^ 63 - 1) = Some (- (2 ^ 63 - 1)).
Proof. vm_compute. reflexivity. Qed.

(* non-vacuity of the reference semantics: a loop with break/continue, a switch with
   fall-through, an aliased array and a thread call, evaluated by the evaluator itself *)
Definition ex_prog : program :=
  [ TLabel 0%N [];
    TStmt (SSet (mkLval SLocal 6%N [EInt 1]) (EInt 5));
    TStmt (SSet (mkLval SLocal 7%N []) (EVar SLocal 6%N));
    TStmt (SSet (mkLval SLocal 7%N [EInt 1]) (ECall 1%N [EInt 4]));
    TStmt (SFor (SSet (mkLval SLocal 0%N []) (EInt 0)) (EBin OLt (EVar SLocal 0%N) (EInt 5)) (SInc (mkLval SLocal 0%N []))
             (SBlock [ SIf (EBin OEq (EVar SLocal 0%N) (EInt 1)) SContinue;
                       SIf (EBin OEq (EVar SLocal 0%N) (EInt 3)) SBreak;
                       SSwitch (EVar SLocal 0%N) [ ILabel (LInt 0); IStmt (SPrint [EStr ["z"%char]]);
                                                   ILabel (LInt 2); IStmt (SPrint [EVar SLocal 0%N]); IStmt SBreak;
                                                   ILabel LDefault; IStmt (SPrint [EStr ["d"%char]]) ] ]));
    TStmt (SEnd (Some (EIdx (EVar SLocal 6%N) (EInt 1))));
    TLabel 1%N [(SLocal, 10%N)];
    TStmt (SEnd (Some (EBin OMul (EVar SLocal 10%N) (ENeg (EInt 3))))) ].

Example ex_prog_runs :
  option_map (fun r => (fst r, g_out (snd r))) (run_program 200 ex_prog 0%N []) =
  Some (VInt (-12), [["2"%char]; ["0"%char]; ["z"%char]]).
Proof. vm_compute. reflexivity. Qed.
