(* C03/Generated.v - GENERATED on every run by props/C03_extract.py from /repo's current
   sources (Compiler.cpp EmitInteger / EvalPrevValue, ScriptVMOperation.cpp OP_STORE_INT*,
   ScriptVariable.cpp setIntValue / setLongValue, short3.h, yyLexer.l, yyParser.yy, parsetree.h).
   Do not edit. *)
From Coq Require Import ZArith List Bool.
From Morfuse Require Import C03.Codec.
Import ListNotations.
Local Open Scope Z_scope.

(* EmitInteger: condition on the value, n of OP_STORE_INTn, bytes written *)
Definition enc_table : list erow := [
  mkE CEq0 0 0;
  mkE (CLt 8) 1 1;
  mkE (CLt 16) 2 2;
  mkE (CLt 24) 3 3;
  mkE (CLt 32) 4 4
].
Definition enc_default : erow := mkE CEq0 8 8.   (* the final else (its condition is not used) *)

(* ScriptVM::Process: n of OP_STORE_INTn, bytes read, signed read, setter argument bits, setter argument signed *)
Definition dec_table : list drow := [
  mkD 0 0 false 32 false;
  mkD 1 1 false 32 false;
  mkD 2 2 false 32 false;
  mkD 3 3 false 32 false;
  mkD 4 4 false 32 false;
  mkD 8 8 false 64 false
].

(* ScriptEmitter::EvalPrevValue (constant folding of unary minus) *)
Definition fold_table : list drow := [
  mkD 0 0 false 32 false;
  mkD 1 1 false 32 false;
  mkD 2 2 false 32 false;
  mkD 3 3 false 32 false;
  mkD 4 4 false 32 false;
  mkD 8 8 false 64 false
].

(* lexer: val.longValue; token type: val.longValue; emitter: node[1].longValue; EmitInteger's argument *)
Definition lex_bits : Z := 64.
Definition gram_bits : Z := 64.
Definition emit_bits : Z := 64.
Definition arg_bits : Z := 64.

(* EmitCaseLabel: node[1].longValue, the cast, the label argument, the size of the text buffer *)
Definition case_member_bits : Z := 64.
Definition case_cast_bits : Z := 64.
Definition case_arg_bits : Z := 64.
Definition case_buf : Z := 24.
