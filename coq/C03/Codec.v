(* C03/Codec.v - executable model of the integer-literal path of the compiler and the VM.

   Modelled (as written in /repo):
   - ScriptEmitter::EmitInteger (src/Script/Compiler.cpp): a chain of comparisons on the
     64-bit unsigned literal value; the first branch whose condition holds selects the
     opcode OP_STORE_INT<tag> and writes static_cast<T>(value), i.e. the low 8*w bits;
     the final `else` writes all 64 bits.
   - the OP_STORE_INT<tag> cases of ScriptVM::Process (src/Script/ScriptVMOperation.cpp): read
     an operand of type T (w bytes, signed or unsigned), pass it to setIntValue / setLongValue
     (conversion to the setter's argument type), which stores it into the 64-bit signed
     member long64Value (conversion to int64).
   - ScriptEmitter::EvalPrevValue (the constant folder of unary minus) has the same shape as
     the VM decode table and is modelled by a second decode table.
   - the path of the literal from the lexer to EmitInteger: the parse-tree member written by
     the lexer, the member named by the grammar's token type, the member read by the emitter
     and the width of EmitInteger's argument: each one truncates to its width.
   The concrete tables are in Generated.v, regenerated from the sources on every run.
   Abstracted: byte order and the position of the operand in the program (the same bytes are
   written and read back; operand lengths are C02's subject). No proofs in this file. *)
From Coq Require Import ZArith List Bool.
Import ListNotations.
Local Open Scope Z_scope.

Inductive cmp := CEq0 | CLt (k : Z) | CLe (k : Z).

(* one branch of EmitInteger: condition, opcode tag (the n of OP_STORE_INTn), bytes written *)
Record erow := mkE { e_cmp : cmp; e_tag : Z; e_w : Z }.

(* one OP_STORE_INTn case: tag, bytes read, signedness of the type read, width and signedness
   of the setter's argument type *)
Record drow := mkD { d_tag : Z; d_w : Z; d_signed : bool; d_set : Z; d_setsigned : bool }.

Definition holds (c : cmp) (v : Z) : bool :=
  match c with
  | CEq0 => v =? 0
  | CLt k => v <? 2 ^ k
  | CLe k => v <=? 2 ^ k
  end.

Definition trunc (bits v : Z) : Z := v mod 2 ^ bits.

Definition to_signed (bits v : Z) : Z :=
  if bits <=? 0 then 0 else if v <? 2 ^ (bits - 1) then v else v - 2 ^ bits.

(* conversion of a mathematical integer to a C++ integer type of the given width *)
Definition conv (bits : Z) (signed : bool) (x : Z) : Z :=
  if signed then to_signed bits (trunc bits x) else trunc bits x.

Fixpoint encode (t : list erow) (dflt : erow) (v : Z) : Z * Z :=
  match t with
  | [] => (e_tag dflt, trunc (8 * e_w dflt) v)
  | r :: t' => if holds (e_cmp r) v then (e_tag r, trunc (8 * e_w r) v) else encode t' dflt v
  end.

Fixpoint find_d (t : list drow) (tag : Z) : option drow :=
  match t with
  | [] => None
  | d :: t' => if d_tag d =? tag then Some d else find_d t' tag
  end.

(* the value the script sees: the 64-bit signed member *)
Definition decode (t : list drow) (c : Z * Z) : option Z :=
  match find_d t (fst c) with
  | None => None
  | Some d =>
    let x := conv (8 * d_w d) (d_signed d) (snd c) in
    let y := conv (d_set d) (d_setsigned d) x in
    Some (conv 64 true y)
  end.

(* lexer member -> grammar member -> emitter member -> EmitInteger's argument *)
Definition lit_path (lexbits grambits emitbits argbits v : Z) : Z :=
  trunc argbits (trunc emitbits (trunc grambits (trunc lexbits v))).

(* unary minus applied to a literal at compile time: EvalPrevValue decodes the literal just
   emitted (table ft), ScriptVariable::minus negates the 64-bit member, EmitValue re-emits
   longValue() as an unsigned 64-bit literal *)
Definition neg_fold (et : list erow) (dflt : erow) (ft dt : list drow) (v : Z) : option Z :=
  match decode ft (encode et dflt v) with
  | None => None
  | Some x => decode dt (encode et dflt (trunc 64 (conv 64 true (- x))))
  end.

(* decidable well-formedness: every branch's condition confines the value to what the
   operand written, the operand read and the setter's argument can all hold *)
Definition row_bound (d : drow) : Z :=
  Z.min (Z.min (if d_signed d then 8 * d_w d - 1 else 8 * d_w d)
               (if d_setsigned d then d_set d - 1 else d_set d)) 63.

Definition wf_row (dt : list drow) (r : erow) : bool :=
  match find_d dt (e_tag r) with
  | None => false
  | Some d =>
    (d_w d =? e_w r) && (0 <=? e_w r) && (0 <? d_set d) &&
    match e_cmp r with
    | CEq0 => true
    | CLt k => (0 <=? k) && (k <=? row_bound d)
    | CLe k => (0 <=? k) && (k + 1 <=? row_bound d)
    end
  end.

Definition wf_default (dt : list drow) (r : erow) : bool :=
  match find_d dt (e_tag r) with
  | None => false
  | Some d => (d_w d =? 8) && (e_w r =? 8) && (d_set d =? 64)
  end.

Definition codec_wf (et : list erow) (dflt : erow) (dt : list drow) : bool :=
  forallb (wf_row dt) et && wf_default dt dflt.

Definition path_wf (lexbits grambits emitbits argbits : Z) : bool :=
  (63 <=? lexbits) && (63 <=? grambits) && (63 <=? emitbits) && (63 <=? argbits).

(* integer case labels: `case v:` hands (T)node.<member> and `case -v:` hands (T)(0 - node.<member>)
   (unsigned arithmetic of the member's width) to EmitCaseLabel(A label), which prints the
   decimal text into a buffer of `buf` characters (20 characters + the terminating 0 are needed
   for the most negative 64-bit value) *)
Definition case_pos (membits castbits argbits v : Z) : Z :=
  conv argbits true (conv castbits true (trunc membits v)).
Definition case_neg (membits castbits argbits v : Z) : Z :=
  conv argbits true (conv castbits true (trunc membits (0 - trunc membits v))).
Definition case_wf (membits castbits argbits buf : Z) : bool :=
  (membits =? 64) && (castbits =? 64) && (argbits =? 64) && (21 <=? buf).
