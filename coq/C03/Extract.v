(* C03/Extract.v - extraction of the reference semantics and the literal codec (ExtrOcamlBasic only). *)
Require Extraction.
Require Import ExtrOcamlBasic.
From Morfuse Require Import C03.Ast C03.Codec C03.Generated C03.Sem C03.Compile.
Definition lit_roundtrip (v : BinNums.Z) := decode dec_table (encode enc_table enc_default (lit_path lex_bits gram_bits emit_bits arg_bits v)).
Definition lit_negfold (v : BinNums.Z) := neg_fold enc_table enc_default fold_table dec_table v.
Extraction "C03_model.ml" run_program lit_roundtrip lit_negfold compile aeval vm_run.
