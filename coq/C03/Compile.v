(* C03/Compile.v - a model of the compiler and the VM for a SMALL fragment: constant integer
   expressions built from literals, unary minus, ~ and the binary integer operators.

   compile follows ScriptEmitter::EmitValue as written for this fragment: operands left to
   right, then the operator's opcode; a literal is emitted by EmitInteger (operand selected by
   the generated table); unary minus on an operand whose LAST emitted opcode is an integer
   literal is folded at compile time (EmitFunc1: EvalPrevValue reads the literal back through
   the fold table, ScriptVariable::minus, AbsorbPrevOpcode, EmitValue(var) emits the negated
   64 bits as a new literal).  vm_run follows ScriptVM::Process for the same opcodes:
   OP_STORE_INT* pushes the decoded operand, OP_UN_MINUS / OP_UN_COMPLEMENT replace the top,
   OP_BIN_* pops a, replaces the new top b by (b op a).
   Abstracted: the previous-opcode ring (the last emitted opcode is the last of the list), code
   bytes and offsets (C02), everything outside the fragment.  The correspondence of `compile`
   with the real compiler is checked by comparing the instruction trace of the real VM (H4
   step hook) with `compile` on generated expressions (props/C03.py, origin `compile`).
   No proofs in this file. *)
From Coq Require Import ZArith List Bool.
From Morfuse Require Import C03.Ast C03.Codec C03.Generated C03.Sem.
Import ListNotations.
Local Open Scope Z_scope.

Inductive aexpr :=
| ALit (v : Z)                    (* 0 <= v < 2^63 *)
| ANeg (e : aexpr)
| ACpl (e : aexpr)
| ABin (o : binop) (a b : aexpr).

Inductive instr :=
| IPush (v : Z)                   (* EmitInteger(v), 0 <= v < 2^64 *)
| INeg
| ICpl
| IBin (o : binop).

Definition pushed (v : Z) : option Z := decode dec_table (encode enc_table enc_default v).
Definition folded (v : Z) : option Z := decode fold_table (encode enc_table enc_default v).

Fixpoint last_instr (c : list instr) : option instr :=
  match c with
  | [] => None
  | [i] => Some i
  | _ :: r => last_instr r
  end.

Fixpoint compile (e : aexpr) : list instr :=
  match e with
  | ALit v => [IPush (lit_path lex_bits gram_bits emit_bits arg_bits v)]
  | ANeg a =>
    let c := compile a in
    match last_instr c with
    | Some (IPush v) =>
      match folded v with
      | Some x => removelast c ++ [IPush (trunc 64 (conv 64 true (- x)))]
      | None => c ++ [INeg]
      end
    | _ => c ++ [INeg]
    end
  | ACpl a => compile a ++ [ICpl]
  | ABin o a b => compile a ++ compile b ++ [IBin o]
  end.

Definition vm_step (i : instr) (st : list Z) : option (list Z) :=
  match i with
  | IPush v => match pushed v with Some z => Some (z :: st) | None => None end
  | INeg => match st with z :: r => Some (wrap (- z) :: r) | [] => None end
  | ICpl => match st with z :: r => Some (Z.lnot z :: r) | [] => None end
  | IBin o =>
    match st with
    | a :: b :: r => match int_op o b a with Some (VInt z) => Some (z :: r) | _ => None end
    | _ => None
    end
  end.

Fixpoint vm_run (c : list instr) (st : list Z) : option (list Z) :=
  match c with
  | [] => Some st
  | i :: r => match vm_step i st with Some st' => vm_run r st' | None => None end
  end.

(* the value the language rules give (the same operations as Sem.eval on the embedding) *)
Fixpoint aeval (e : aexpr) : option Z :=
  match e with
  | ALit v => Some v
  | ANeg a => match aeval a with Some z => Some (wrap (- z)) | None => None end
  | ACpl a => match aeval a with Some z => Some (Z.lnot z) | None => None end
  | ABin o a b =>
    match aeval a, aeval b with
    | Some x, Some y => match int_op o x y with Some (VInt z) => Some z | _ => None end
    | _, _ => None
    end
  end.

Fixpoint embed (e : aexpr) : expr :=
  match e with
  | ALit v => EInt v
  | ANeg a => ENeg (embed a)
  | ACpl a => ECpl (embed a)
  | ABin o a b => EBin o (embed a) (embed b)
  end.

Fixpoint lits_ok (e : aexpr) : bool :=
  match e with
  | ALit v => (0 <=? v) && (v <? 2 ^ 63)
  | ANeg a | ACpl a => lits_ok a
  | ABin _ a b => lits_ok a && lits_ok b
  end.

Fixpoint adepth (e : aexpr) : nat :=
  match e with
  | ALit _ => 1
  | ANeg a | ACpl a => S (adepth a)
  | ABin _ a b => S (Nat.max (adepth a) (adepth b))
  end.
