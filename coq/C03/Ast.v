(* C03/Ast.v - abstract syntax of the core script language (the fragment quantified over by
   property C03).  Names are numbers: variable n of a scope, label n; the printers (python
   for the concrete syntax, the OCaml driver for the prefix text form) map them to
   identifiers.  No proofs in this file. *)
From Coq Require Import ZArith List Ascii.
Import ListNotations.

(* strings are lists of characters (the extracted code must not define a type called
   `string`: the shared OCaml helpers use OCaml's) *)
Definition str := list ascii.

Inductive scope := SLocal | SGroup | SLevel | SGame | SParm.

Inductive binop :=
| OAdd | OSub | OMul | ODiv | OMod | OBand | OBor | OBxor | OShl | OShr
| OEq | ONe | OLt | OLe | OGt | OGe.

Inductive expr :=
| EInt (z : Z)                       (* literal as lexed: 0 <= z < 2^63 *)
| EStr (s : str)
| EFlt (shown : str) (nz : bool)     (* a float literal, opaque: the text it prints as ("%.3f"), and whether |x| >= 0.0001 *)
| ENil
| EVar (sc : scope) (x : N)
| EIdx (a i : expr)                  (* a[i] *)
| ENeg (e : expr)                    (* unary minus (constant-folded by the compiler on literals) *)
| ENot (e : expr)                    (* !e *)
| ECpl (e : expr)                    (* ~e *)
| EBin (o : binop) (a b : expr)
| EAnd (a b : expr)                  (* && short circuit *)
| EOr (a b : expr)                   (* || short circuit *)
| ECall (f : N) (args : list expr)   (* waitthread f args : the value given to `end` *)
| ESize (e : expr)                   (* e.size *)
| ECArr (es : list expr).            (* e1::e2::...  constant array *)

Record lval := mkLval { lv_sc : scope; lv_x : N; lv_idx : list expr }.

Inductive swlabel := LInt (z : Z) | LStr (s : str) | LDefault.

Inductive stmt :=
| SNop
| SSet (l : lval) (e : expr)
| SCSet (o : binop) (l : lval) (e : expr)     (* l op= e *)
| SInc (l : lval)
| SDec (l : lval)
| SIf (c : expr) (t : stmt)
| SIfElse (c : expr) (t e : stmt)
| SWhile (c : expr) (body : stmt)
| SFor (init : stmt) (c : expr) (inc : stmt) (body : stmt)
| SDo (body : stmt) (c : expr)
| SBreak
| SContinue
| SSwitch (e : expr) (items : list switem)
| SBlock (l : list stmt)
| SGoto (f : N) (args : list expr)           (* goto f args : the label's parameters take the arguments *)
| STry (body : stmt) (handlers : list handler)
| SThrow (f : N) (args : list expr)
| SPrint (args : list expr)
| SThread (f : N) (args : list expr)           (* thread f args (result ignored) *)
| SEnd (e : option expr)
with switem := ILabel (l : swlabel) | IStmt (s : stmt)
with handler := Handler (f : N) (params : list (scope * N)) (body : list stmt).

(* a script file: a flat list of labels (thread entry points / goto targets) and statements *)
Inductive item := TLabel (f : N) (params : list (scope * N)) | TStmt (s : stmt).
Definition program := list item.
