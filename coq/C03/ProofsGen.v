(* C03/ProofsGen.v - the tables generated from the current sources are accepted by the
   decidable well-formedness predicates (by computation), hence the general lemmas apply. *)
From Coq Require Import ZArith List Bool Lia.
From Morfuse Require Import C03.Codec C03.ProofsCodec C03.Generated.
Import ListNotations.
Local Open Scope Z_scope.

Lemma generated_codec_wf : codec_wf enc_table enc_default dec_table = true.
Proof. vm_compute. reflexivity. Qed.

Lemma generated_fold_wf : codec_wf enc_table enc_default fold_table = true.
Proof. vm_compute. reflexivity. Qed.

Lemma generated_path_wf : path_wf lex_bits gram_bits emit_bits arg_bits = true.
Proof. vm_compute. reflexivity. Qed.

Lemma generated_roundtrip : forall v, 0 <= v < 2 ^ 64 ->
  decode dec_table (encode enc_table enc_default v) = Some (to_signed 64 v).
Proof. exact (codec_roundtrip enc_table enc_default dec_table generated_codec_wf). Qed.

Lemma generated_literal : forall v, 0 <= v < 2 ^ 63 ->
  decode dec_table (encode enc_table enc_default (lit_path lex_bits gram_bits emit_bits arg_bits v)) = Some v.
Proof.
  intros v Hv. rewrite (lit_path_id _ _ _ _ generated_path_wf) by exact Hv.
  assert (P64 : 2 ^ 64 = 2 * 2 ^ 63) by reflexivity.
  rewrite generated_roundtrip by lia.
  rewrite to_signed64_small by exact Hv. reflexivity.
Qed.

Lemma generated_neg_fold : forall v, 0 <= v < 2 ^ 63 ->
  neg_fold enc_table enc_default fold_table dec_table v = Some (- v).
Proof. exact (neg_fold_correct enc_table enc_default fold_table dec_table generated_fold_wf generated_codec_wf). Qed.

Lemma generated_case_wf : case_wf case_member_bits case_cast_bits case_arg_bits case_buf = true.
Proof. vm_compute. reflexivity. Qed.

Lemma generated_case_label : forall v, 0 <= v < 2 ^ 63 ->
  case_pos case_member_bits case_cast_bits case_arg_bits v = v /\
  case_neg case_member_bits case_cast_bits case_arg_bits v = - v.
Proof. exact (case_label_value _ _ _ _ generated_case_wf). Qed.
