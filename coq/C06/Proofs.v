(* C06/Proofs.v — the code-level timer model (insertion-ordered element list, the backward
   scan of GetNextElement, the dirty flag, two time bases) refines the due-time bag
   specification of C06/Spec.v for every history; the resume loop ends within its fuel;
   nothing due stays waiting after an Execute; nobody is resumed early or twice; the engine
   is busy while anybody waits. *)
From Coq Require Import NArith List Bool Lia Sorted PeanoNat.
From Morfuse Require Import C06.Model C06.Spec.
Import ListNotations.
Local Open Scope N_scope.

(* ---- the order on (due time, registration sequence) ------------------------------------- *)
Definition lt_w (x y : waiter) : Prop :=
  wdue x < wdue y \/ (wdue x = wdue y /\ wseq x < wseq y).
Definition le_w (x y : waiter) : Prop :=
  wdue x < wdue y \/ (wdue x = wdue y /\ wseq x <= wseq y).

Lemma w_ltb_spec x y : w_ltb x y = true <-> lt_w x y.
Proof.
  unfold w_ltb, lt_w.
  rewrite orb_true_iff, andb_true_iff, N.ltb_lt, N.eqb_eq, N.ltb_lt. tauto.
Qed.

Lemma le_w_trans x y z : le_w x y -> le_w y z -> le_w x z.
Proof. unfold le_w. lia. Qed.

Lemma min_w_spec l : forall n,
  In (min_w n l) (n :: l) /\ forall y, In y (n :: l) -> le_w (min_w n l) y.
Proof.
  induction l as [|x l IH]; intro n; cbn [min_w].
  - split; [now left|]. intros y [<-|[]]. unfold le_w. lia.
  - destruct (IH (if w_ltb x n then x else n)) as [Hin Hle].
    set (n' := if w_ltb x n then x else n) in *.
    assert (Hn' : In n' [n; x] /\ le_w n' n /\ le_w n' x).
    { subst n'. destruct (w_ltb x n) eqn:E.
      - apply w_ltb_spec in E. unfold lt_w, le_w in *. cbn [In]. split; [tauto|lia].
      - assert (Hx : ~ lt_w x n) by (rewrite <- w_ltb_spec; congruence).
        unfold lt_w, le_w in *. cbn [In]. split; [tauto|lia]. }
    destruct Hn' as [Hi [Hl1 Hl2]]. split.
    + destruct Hin as [E|Hin]; [|right; right; exact Hin]. rewrite <- E.
      destruct Hi as [<-|[<-|[]]]; [now left | right; now left].
    + intros y [<-|[<-|Hy]].
      * eapply le_w_trans; [apply Hle; now left | exact Hl1].
      * eapply le_w_trans; [apply Hle; now left | exact Hl2].
      * apply Hle. now right.
Qed.

Definition notdue (fr : N) (l : list waiter) : Prop := forall w, In w l -> fr < wdue w.

Lemma notdue_min fr x r : fr < wdue (min_w x r) -> notdue fr (x :: r).
Proof.
  intros Hlt w Hw. destruct (min_w_spec r x) as [_ Hle]. specialize (Hle _ Hw).
  unfold le_w in Hle. lia.
Qed.

(* ---- lists with strictly increasing sequence numbers -------------------------------------- *)
Definition seq_lt (x y : waiter) : Prop := wseq x < wseq y.
Notation sseq := (StronglySorted seq_lt).

Lemma sseq_split l1 m l2 :
  sseq (l1 ++ m :: l2) ->
  (forall y, In y l1 -> wseq y < wseq m) /\ (forall y, In y l2 -> wseq m < wseq y) /\
  sseq (l1 ++ l2).
Proof.
  induction l1 as [|a l1 IH]; cbn [app]; intro H;
    apply StronglySorted_inv in H; destruct H as [Hs Hf]; rewrite Forall_forall in Hf.
  - split; [intros y []|]. split; [exact Hf | exact Hs].
  - destruct (IH Hs) as (H1 & H2 & H3). split; [|split].
    + intros y [<-|Hy]; [|now apply H1]. apply Hf, in_or_app. right. now left.
    + exact H2.
    + constructor; [exact H3|]. apply Forall_forall. intros y Hy. apply Hf.
      apply in_app_or in Hy. apply in_or_app. destruct Hy as [Hy|Hy]; [now left|right; now right].
Qed.

Lemma sseq_snoc l n : sseq l -> (forall x, In x l -> wseq x < wseq n) -> sseq (l ++ [n]).
Proof.
  induction 1 as [|x l Hs IH Hf]; intro Hn; cbn [app].
  - constructor; constructor.
  - constructor.
    + apply IH. intros y Hy. apply Hn. now right.
    + rewrite Forall_forall in *. intros y Hy. apply in_app_or in Hy.
      destruct Hy as [Hy|[<-|[]]]; [now apply Hf | apply Hn; now left].
Qed.

Record qinv (l : list waiter) (k : N) : Prop := {
  qi_sseq : sseq l;
  qi_bound : forall w, In w l -> wseq w < k }.

Lemma qinv_nil k : qinv [] k.
Proof. split; [constructor | intros w []]. Qed.

Lemma qinv_snoc l k t due p : qinv l k -> qinv (l ++ [mkW t due k p]) (k + 1).
Proof.
  intros [Hs Hb]. split.
  - apply sseq_snoc; [exact Hs|]. intros x Hx. cbn [wseq]. now apply Hb.
  - intros w Hw. apply in_app_or in Hw. destruct Hw as [Hw|[<-|[]]].
    + specialize (Hb _ Hw). lia.
    + cbn [wseq]. lia.
Qed.

Lemma qinv_split l1 m l2 k : qinv (l1 ++ m :: l2) k -> qinv (l1 ++ l2) k.
Proof.
  intros [Hs Hb]. split.
  - apply sseq_split in Hs. tauto.
  - intros w Hw. apply Hb. apply in_app_or in Hw. apply in_or_app.
    destruct Hw as [Hw|Hw]; [now left | right; now right].
Qed.

Lemma filter_seq_notin k l :
  (forall y, In y l -> wseq y <> k) -> filter (fun x => negb (wseq x =? k)) l = l.
Proof.
  induction l as [|a l IH]; cbn [filter]; intro H; [reflexivity|].
  destruct (N.eqb_spec (wseq a) k) as [E|E]; cbn [negb].
  - exfalso. apply (H a); [now left | exact E].
  - f_equal. apply IH. intros y Hy. apply H. now right.
Qed.

Lemma remove_w_split l1 m l2 :
  (forall y, In y l1 -> wseq y < wseq m) -> (forall y, In y l2 -> wseq m < wseq y) ->
  remove_w (wseq m) (l1 ++ m :: l2) = l1 ++ l2.
Proof.
  intros H1 H2. unfold remove_w. rewrite filter_app. cbn [filter]. rewrite N.eqb_refl. cbn [negb].
  f_equal; apply filter_seq_notin; intros y Hy.
  - specialize (H1 _ Hy). lia.
  - specialize (H2 _ Hy). lia.
Qed.

(* the (due, seq)-minimal waiter of a seq-increasing list: everything before it is due
   strictly later, everything after it is due no earlier *)
Lemma min_split x r :
  sseq (x :: r) ->
  exists l1 l2, x :: r = l1 ++ min_w x r :: l2 /\
    (forall y, In y l1 -> wdue (min_w x r) < wdue y /\ wseq y < wseq (min_w x r)) /\
    (forall y, In y l2 -> wdue (min_w x r) <= wdue y /\ wseq (min_w x r) < wseq y).
Proof.
  intro Hs. destruct (min_w_spec r x) as [Hin Hle].
  destruct (in_split _ _ Hin) as (l1 & l2 & E). exists l1, l2.
  split; [exact E|]. rewrite E in Hs, Hle. apply sseq_split in Hs. destruct Hs as (H1 & H2 & _).
  split; intros y Hy.
  - specialize (H1 _ Hy). assert (Hl : le_w (min_w x r) y) by (apply Hle, in_or_app; now left).
    unfold le_w in Hl. lia.
  - specialize (H2 _ Hy).
    assert (Hl : le_w (min_w x r) y) by (apply Hle, in_or_app; right; now right).
    unfold le_w in Hl. lia.
Qed.

(* ---- the scan of GetNextElement ------------------------------------------------------------ *)
Definition w2e (w : waiter) : elem := mkElem (wtid w) (wdue w) (wprog w).

Lemma scan_skip rl : forall i best found,
  (forall y, In y rl -> best < etime y) -> scan rl i best found = found.
Proof.
  induction rl as [|e rl IH]; intros i best found H; cbn [scan]; [reflexivity|].
  destruct (N.leb_spec (etime e) best) as [Hle|Hgt].
  - exfalso. specialize (H e (or_introl eq_refl)). lia.
  - apply IH. intros y Hy. apply H. now right.
Qed.

Lemma scan_pre rl : forall rest i best found t,
  (forall y, In y rl -> t <= etime y) -> t <= best ->
  exists best' found',
    t <= best' /\ scan (rl ++ rest) (length rl + i) best found = scan rest i best' found'.
Proof.
  induction rl as [|e rl IH]; intros rest i best found t H Hb.
  - exists best, found. split; [exact Hb | reflexivity].
  - cbn [app length Nat.add scan]. rewrite Nat.pred_succ.
    destruct (N.leb_spec (etime e) best) as [Hle|Hgt].
    + apply IH; [intros y Hy; apply H; now right | apply H; now left].
    + apply IH; [intros y Hy; apply H; now right | exact Hb].
Qed.

(* the scan ends on the first of the elements with the minimal time, when that is <= best *)
Lemma scan_split l1 m l2 best found :
  (forall y, In y l1 -> etime m < etime y) -> (forall y, In y l2 -> etime m <= etime y) ->
  etime m <= best ->
  scan (rev (l1 ++ m :: l2)) (length (l1 ++ m :: l2)) best found = Some (S (length l1)).
Proof.
  intros H1 H2 Hb. rewrite rev_app_distr. cbn [rev]. rewrite <- app_assoc. cbn [app].
  replace (length (l1 ++ m :: l2)) with (length (rev l2) + S (length l1))%nat
    by (rewrite app_length, rev_length; cbn [length]; lia).
  destruct (scan_pre (rev l2) (m :: rev l1) (S (length l1)) best found (etime m))
    as (b' & f' & Hb' & ->).
  { intros y Hy. rewrite <- in_rev in Hy. now apply H2. }
  { exact Hb. }
  cbn [scan]. rewrite Nat.pred_succ. destruct (N.leb_spec (etime m) b') as [_|Hgt]; [|lia].
  apply scan_skip. intros y Hy. rewrite <- in_rev in Hy. now apply H1.
Qed.

Lemma remove_at_split (l1 : list elem) m l2 : remove_at (l1 ++ m :: l2) (S (length l1)) = l1 ++ l2.
Proof.
  induction l1 as [|a l1 IH]; [reflexivity|].
  cbn [app length]. cbn [remove_at]. rewrite IH. reflexivity.
Qed.

Lemma get_next_none l fr d sc' lc sc c nl tid :
  notdue fr l -> get_next (mkSt (map w2e l) fr d sc' lc sc c nl tid) = None.
Proof.
  intro Hn. unfold get_next. cbn [elems mtime]. rewrite scan_skip; [reflexivity|].
  intros y Hy. rewrite <- in_rev in Hy. apply in_map_iff in Hy. destruct Hy as [w [<- Hw]].
  cbn [etime w2e]. now apply Hn.
Qed.

Lemma get_next_split l1 m l2 fr d sc' lc sc c nl tid :
  (forall y, In y l1 -> wdue m < wdue y) -> (forall y, In y l2 -> wdue m <= wdue y) ->
  wdue m <= fr ->
  get_next (mkSt (map w2e (l1 ++ m :: l2)) fr d sc' lc sc c nl tid) =
  Some (w2e m, mkSt (map w2e (l1 ++ l2)) fr d sc' lc sc c nl tid).
Proof.
  intros H1 H2 Hm. unfold get_next.
  cbn [elems mtime dirty scaled lastclk startclk clock nlive nexttid].
  rewrite !map_app. cbn [map].
  rewrite (scan_split (map w2e l1) (w2e m) (map w2e l2) fr None).
  - rewrite Nat.pred_succ. rewrite nth_error_app2 by lia. rewrite Nat.sub_diag.
    cbn [nth_error]. rewrite remove_at_split. reflexivity.
  - intros y Hy. apply in_map_iff in Hy. destruct Hy as [w [<- Hw]]. cbn [etime w2e]. now apply H1.
  - intros y Hy. apply in_map_iff in Hy. destruct Hy as [w [<- Hw]]. cbn [etime w2e]. now apply H2.
  - exact Hm.
Qed.

(* ---- the simulation relation ---------------------------------------------------------------- *)
(* the element list is the image, in order, of the waiting list; sequence numbers increase
   along it; m_time = scaled time = lastclk - startclk = the frame time; the spec's clock is
   clock - startclk; a clean timer has nothing due *)
Inductive R : st -> abs -> Prop :=
| R_intro : forall l k fr d lc sc c nl tid,
    qinv l k -> sc <= lc -> lc <= c -> fr = lc - sc -> (d = false -> notdue fr l) ->
    R (mkSt (map w2e l) fr d fr lc sc c nl tid) (mkAbs l fr (c - sc) nl tid k).

Lemma R_init : R (init 1000) abs_init.
Proof.
  apply (R_intro [] 0 0 false 1000 1000 1000 0%nat 0).
  - apply qinv_nil.
  - lia.
  - lia.
  - reflexivity.
  - intros _ w [].
Qed.

Lemma R_clear s a :
  R s a -> notdue (frame a) (pend a) ->
  R (mkSt (elems s) (mtime s) false (scaled s) (lastclk s) (startclk s) (clock s) (nlive s)
          (nexttid s)) a.
Proof.
  intro HR. destruct HR as [l k fr d lc sc c nl tid Hq H1 H2 Hfr Hd].
  cbn [elems mtime scaled lastclk startclk clock nlive nexttid frame pend]. intro Hn.
  apply R_intro; auto.
Qed.

Lemma R_dirty s a : R s a -> dirty s = false -> notdue (frame a) (pend a).
Proof. intro HR. destruct HR. cbn [dirty frame pend]. auto. Qed.

Lemma run_thread_R p : forall s a tid log,
  R s a ->
  R (fst (run_thread s tid p log)) (fst (spec_thread a tid p log)) /\
  snd (run_thread s tid p log) = snd (spec_thread a tid p log).
Proof.
  induction p as [|[m|dl] p IH]; intros s a tid log HR; cbn [run_thread spec_thread].
  - destruct HR as [l k fr d lc sc c nl tid0 Hq H1 H2 Hfr Hd].
    cbn [fst snd elems mtime dirty scaled lastclk startclk clock nlive nexttid
         pend frame aclock alive atid aseq].
    split; [|reflexivity]. now apply R_intro.
  - apply IH, HR.
  - destruct HR as [l k fr d lc sc c nl tid0 Hq H1 H2 Hfr Hd].
    cbn [fst snd elems mtime dirty scaled lastclk startclk clock nlive nexttid
         pend frame aclock alive atid aseq].
    split; [|reflexivity].
    replace (map w2e l ++ [mkElem tid (fr + dl) p])
      with (map w2e (l ++ [mkW tid (fr + dl) k p])) by (rewrite map_app; reflexivity).
    apply R_intro; auto.
    + now apply qinv_snoc.
    + destruct (N.leb_spec (fr + dl) fr) as [Hle|Hgt]; [discriminate|].
      intros Hd0 w Hw. apply in_app_or in Hw. destruct Hw as [Hw|[<-|[]]].
      * now apply Hd.
      * cbn [wdue]. exact Hgt.
Qed.

(* what GetNextElement finds corresponds to what the spec resumes *)
Lemma front s a :
  R s a ->
  (notdue (frame a) (pend a) /\ get_next s = None) \/
  (exists x r s1,
     pend a = x :: r /\ (frame a <? wdue (min_w x r)) = false /\
     get_next s = Some (w2e (min_w x r), s1) /\
     R s1 (mkAbs (remove_w (wseq (min_w x r)) (pend a)) (frame a) (aclock a) (alive a)
                 (atid a) (aseq a))).
Proof.
  intro HR. destruct HR as [l k fr d lc sc c nl tid Hq H1 H2 Hfr Hd].
  cbn [pend frame aclock alive atid aseq].
  destruct l as [|x r].
  - left. split; [intros w []|]. apply get_next_none. intros w [].
  - destruct (fr <? wdue (min_w x r)) eqn:Hlt.
    + apply N.ltb_lt in Hlt. left.
      split; [|apply get_next_none]; apply notdue_min; exact Hlt.
    + pose proof Hlt as Hlt'. apply N.ltb_ge in Hlt. right.
      destruct (min_split x r (qi_sseq _ _ Hq)) as (l1 & l2 & E & Hl1 & Hl2).
      exists x, r, (mkSt (map w2e (l1 ++ l2)) fr d fr lc sc c nl tid).
      split; [reflexivity|]. split; [exact Hlt'|].
      rewrite E in Hq, Hd |- *.
      split.
      * apply get_next_split; [intros y Hy; now apply Hl1 | intros y Hy; now apply Hl2 | exact Hlt].
      * rewrite remove_w_split; [|intros y Hy; now apply Hl1 | intros y Hy; now apply Hl2].
        apply R_intro; auto.
        -- eapply qinv_split; exact Hq.
        -- intros Hd0 w Hw. apply (Hd Hd0). apply in_app_or in Hw. apply in_or_app.
           destruct Hw as [Hw|Hw]; [now left | right; now right].
Qed.

Lemma exec_loop_eq f s log :
  exec_loop f s log =
  match get_next s with
  | None => Some (mkSt (elems s) (mtime s) false (scaled s) (lastclk s) (startclk s) (clock s)
                       (nlive s) (nexttid s), log)
  | Some (e, s1) =>
      match f with
      | O => None
      | S f' => let '(s2, log2) := run_thread s1 (eobj e) (eprog e) log in exec_loop f' s2 log2
      end
  end.
Proof. destruct f; reflexivity. Qed.

Lemma spec_resume_eq f a log :
  spec_resume f a log =
  match pend a with
  | [] => Some (a, log)
  | x :: r =>
      if frame a <? wdue (min_w x r) then Some (a, log)
      else match f with
           | O => None
           | S f' =>
               let '(a2, log2) :=
                 spec_thread (mkAbs (remove_w (wseq (min_w x r)) (pend a)) (frame a) (aclock a)
                                    (alive a) (atid a) (aseq a))
                             (wtid (min_w x r)) (wprog (min_w x r)) log in
               spec_resume f' a2 log2
           end
  end.
Proof. destruct f; reflexivity. Qed.

Lemma spec_resume_notdue f a log :
  notdue (frame a) (pend a) -> spec_resume f a log = Some (a, log).
Proof.
  intro Hn. rewrite spec_resume_eq. destruct (pend a) as [|x r]; [reflexivity|].
  destruct (N.ltb_spec (frame a) (wdue (min_w x r))) as [Hlt|Hge]; [reflexivity|].
  exfalso. destruct (min_w_spec r x) as [Hin _]. specialize (Hn _ Hin). lia.
Qed.

Definition res_rel (r1 : option (st * list pr)) (r2 : option (abs * list pr)) : Prop :=
  match r1, r2 with
  | Some (s', l1), Some (a', l2) => R s' a' /\ l1 = l2
  | None, None => True
  | _, _ => False
  end.

Lemma exec_loop_R f : forall s a log,
  R s a -> res_rel (exec_loop f s log) (spec_resume f a log).
Proof.
  induction f as [|f IH]; intros s a log HR; rewrite exec_loop_eq;
    destruct (front s a HR) as [[Hn Hg]|(x & r & s1 & E & Hlt & Hg & HR1)]; rewrite Hg.
  1,3: rewrite (spec_resume_notdue _ _ _ Hn); split; [now apply R_clear | reflexivity].
  - rewrite spec_resume_eq, E, Hlt. exact I.
  - rewrite spec_resume_eq. rewrite E in HR1 |- *. rewrite Hlt.
    cbn [eobj eprog w2e].
    generalize (run_thread_R (wprog (min_w x r)) s1 _ (wtid (min_w x r)) log HR1).
    destruct (run_thread s1 (wtid (min_w x r)) (wprog (min_w x r)) log) as [s2 l2].
    destruct (spec_thread _ (wtid (min_w x r)) (wprog (min_w x r)) log) as [a2 l2'].
    cbn [fst snd]. intros [HR2 ->]. apply IH, HR2.
Qed.

Lemma execute_running_R f s a log :
  R s a -> res_rel (execute_running f s log) (spec_resume f a log).
Proof.
  intro HR. unfold execute_running. destruct (dirty s) eqn:Ed.
  - now apply exec_loop_R.
  - rewrite (spec_resume_notdue _ _ _ (R_dirty _ _ HR Ed)). split; [exact HR | reflexivity].
Qed.

(* ---- observations and whole histories ---------------------------------------------------------- *)
Definition wt (l : list waiter) : nat :=
  fold_right (fun w acc => S (length (wprog w)) + acc)%nat O l.

Lemma wt_cons x l : wt (x :: l) = (S (length (wprog x)) + wt l)%nat.
Proof. reflexivity. Qed.

Lemma wt_app l1 l2 : wt (l1 ++ l2) = (wt l1 + wt l2)%nat.
Proof. induction l1 as [|x l1 IH]; cbn [app]; rewrite ?wt_cons; [reflexivity|lia]. Qed.

Lemma weight_map l fr d sc' lc sc c nl tid :
  weight (mkSt (map w2e l) fr d sc' lc sc c nl tid) = wt l.
Proof.
  unfold weight. cbn [elems]. induction l as [|x l IH]; [reflexivity|].
  cbn [map fold_right]. rewrite IH, wt_cons. reflexivity.
Qed.

Lemma weight_R s a : R s a -> weight s = aweight a.
Proof. intro HR. destruct HR. apply weight_map. Qed.

Lemma observe_R s a log : R s a -> observe s log = aobserve a log.
Proof.
  intro HR. destruct HR as [l k fr d lc sc c nl tid Hq H1 H2 Hfr Hd].
  unfold observe, aobserve. cbn [nlive elems alive pend]. destruct l; reflexivity.
Qed.

Definition step_rel (r1 : option (st * obs)) (r2 : option (abs * obs)) : Prop :=
  match r1, r2 with
  | Some (s', o1), Some (a', o2) => R s' a' /\ o1 = o2
  | None, None => True
  | _, _ => False
  end.

Lemma finish_R s a log :
  R s a ->
  step_rel
    (match execute_running (weight s) s log with
     | Some (s2, log2) => Some (s2, observe s2 log2) | None => None end)
    (match spec_resume (aweight a) a log with
     | Some (a2, log2) => Some (a2, aobserve a2 log2) | None => None end).
Proof.
  intro HR. rewrite (weight_R _ _ HR).
  pose proof (execute_running_R (aweight a) s a log HR) as H. unfold res_rel in H.
  destruct (execute_running (aweight a) s log) as [[s2 l2]|],
           (spec_resume (aweight a) a log) as [[a2 l2']|]; cbn [step_rel]; try exact H.
  destruct H as [H ->]. split; [exact H | now apply observe_R].
Qed.

Lemma step_R s a o : R s a -> step_rel (step s o) (spec_step a o).
Proof.
  intro HR. destruct o as [p|dt|]; cbn [step spec_step].
  - assert (HR0 : R (mkSt (elems s) (mtime s) (dirty s) (scaled s) (lastclk s) (startclk s)
                          (clock s) (S (nlive s)) (nexttid s + 1))
                    (mkAbs (pend a) (frame a) (aclock a) (S (alive a)) (atid a + 1) (aseq a))).
    { destruct HR as [l k fr d lc sc c nl tid Hq H1 H2 Hfr Hd].
      cbn [elems mtime dirty scaled lastclk startclk clock nlive nexttid
           pend frame aclock alive atid aseq]. now apply R_intro. }
    replace (atid a) with (nexttid s) at 2 by (destruct HR; reflexivity).
    generalize (run_thread_R p _ _ (nexttid s) [] HR0).
    destruct (run_thread _ (nexttid s) p []) as [s1 l1].
    destruct (spec_thread _ (nexttid s) p []) as [a1 l1'].
    cbn [fst snd]. intros [HR1 ->]. now apply finish_R.
  - destruct HR as [l k fr d lc sc c nl tid Hq H1 H2 Hfr Hd].
    cbn [elems mtime dirty scaled lastclk startclk clock nlive nexttid
         pend frame aclock alive atid aseq].
    replace (c - sc + dt) with (c + dt - sc) by lia.
    assert (HR' : R (mkSt (map w2e l) fr d fr lc sc (c + dt) nl tid)
                    (mkAbs l fr (c + dt - sc) nl tid k)) by (apply R_intro; auto; lia).
    split; [exact HR' | now apply observe_R].
  - assert (HR1 : R (mkSt (elems s) (clock s - startclk s) true
                          (scaled s + (clock s - lastclk s)) (clock s) (startclk s) (clock s)
                          (nlive s) (nexttid s))
                    (mkAbs (pend a) (aclock a) (aclock a) (alive a) (atid a) (aseq a))).
    { destruct HR as [l k fr d lc sc c nl tid Hq H1 H2 Hfr Hd].
      cbn [elems mtime dirty scaled lastclk startclk clock nlive nexttid
           pend frame aclock alive atid aseq].
      replace (fr + (c - lc)) with (c - sc) by lia.
      apply R_intro; auto; try lia; try discriminate. }
    now apply finish_R.
Qed.

Lemma run_from_R ops : forall s a, R s a -> run_from s ops = spec_from a ops.
Proof.
  induction ops as [|o ops IH]; intros s a HR; cbn [run_from spec_from]; [reflexivity|].
  pose proof (step_R s a o HR) as H. unfold step_rel in H.
  destruct (step s o) as [[s' o1]|], (spec_step a o) as [[a' o2]|]; try contradiction.
  - destruct H as [H ->]. f_equal. now apply IH.
  - reflexivity.
Qed.

(* The main theorem: for every history the model's observations (the prints of every
   operation in order, idle, waiting) are those of the due-time bag specification. *)
Theorem run_refines_spec : forall ops : list op, run ops = spec_run ops.
Proof. intro ops. apply run_from_R, R_init. Qed.

(* ---- the shape of a thread's run --------------------------------------------------------------- *)
(* a thread either ends (one live thread less) or registers exactly one wait, due at
   frame + d, with a strictly shorter rest of program; nothing else changes *)
Lemma spec_thread_shape p : forall a tid log,
  exists log',
    spec_thread a tid p log =
      (mkAbs (pend a) (frame a) (aclock a) (pred (alive a)) (atid a) (aseq a), log') \/
    exists d p',
      spec_thread a tid p log =
        (mkAbs (pend a ++ [mkW tid (frame a + d) (aseq a) p']) (frame a) (aclock a) (alive a)
               (atid a) (aseq a + 1), log') /\ (length p' < length p)%nat.
Proof.
  induction p as [|[m|d] p IH]; intros a tid log; cbn [spec_thread].
  - exists log. left. reflexivity.
  - destruct (IH a tid ((tid, m) :: log)) as [log' [E|(d & p' & E & Hl)]]; exists log'.
    + left. exact E.
    + right. exists d, p'. split; [exact E | cbn [length]; lia].
  - exists log. right. exists d, p. split; [reflexivity | cbn [length]; lia].
Qed.

(* ---- (a) the resume loop ends within its fuel --------------------------------------------------- *)
Lemma wt_single w : wt [w] = S (length (wprog w)).
Proof. cbn. lia. Qed.

Lemma wt_filter f l : (wt (filter f l) <= wt l)%nat.
Proof.
  induction l as [|x l IH]; cbn [filter]; [lia|].
  destruct (f x); rewrite ?wt_cons; lia.
Qed.

Lemma wt_remove_min x r :
  (S (length (wprog (min_w x r))) + wt (remove_w (wseq (min_w x r)) (x :: r)) <= wt (x :: r))%nat.
Proof.
  destruct (min_w_spec r x) as [Hin _]. revert Hin.
  generalize (min_w x r) as m. generalize (x :: r) as l. clear x r.
  induction l as [|y l IH]; intros m Hin; [destruct Hin|].
  unfold remove_w in *. cbn [filter]. destruct Hin as [->|Hin].
  - rewrite N.eqb_refl. cbn [negb]. rewrite wt_cons.
    pose proof (wt_filter (fun x => negb (wseq x =? wseq m)) l). lia.
  - specialize (IH m Hin). destruct (negb (wseq y =? wseq m)); rewrite ?wt_cons; lia.
Qed.

Lemma spec_thread_wt p a tid log :
  (wt (pend (fst (spec_thread a tid p log))) <= length p + wt (pend a))%nat.
Proof.
  destruct (spec_thread_shape p a tid log) as [log' [E|(d & p' & E & Hl)]];
    rewrite E; cbn [fst pend].
  - lia.
  - rewrite wt_app, wt_single. cbn [wprog]. lia.
Qed.

Lemma spec_resume_enough_fuel f : forall a log,
  (wt (pend a) <= f)%nat -> spec_resume f a log <> None.
Proof.
  induction f as [|f IH]; intros a log Hw; rewrite spec_resume_eq;
    destruct (pend a) as [|x r] eqn:E; try discriminate;
    (destruct (frame a <? wdue (min_w x r)); [discriminate|]);
    pose proof (wt_remove_min x r) as Hm; [lia|].
  match goal with |- context [spec_thread ?a1 ?t ?p ?l] =>
    pose proof (spec_thread_wt p a1 t l) as H; destruct (spec_thread a1 t p l) as [a2 log2] end.
  cbn [fst pend] in H. apply IH. lia.
Qed.

Theorem spec_resume_never_hangs : forall a log, spec_resume (aweight a) a log <> None.
Proof. intros a log. apply spec_resume_enough_fuel. apply le_n. Qed.

Lemma spec_step_some a o : spec_step a o <> None.
Proof.
  destruct o as [p|dt|]; cbn [spec_step]; try discriminate.
  - destruct (spec_thread _ (atid a) p []) as [a1 log].
    pose proof (spec_resume_never_hangs a1 log) as H.
    destruct (spec_resume (aweight a1) a1 log) as [[a2 l2]|]; [discriminate | exfalso; now apply H].
  - match goal with |- context [spec_resume (aweight ?a1) ?a1 ?l] =>
      pose proof (spec_resume_never_hangs a1 l) as H;
      destruct (spec_resume (aweight a1) a1 l) as [[a2 l2]|]; [discriminate | exfalso; now apply H] end.
Qed.

Theorem spec_never_hangs : forall ops, ~ In None (spec_run ops).
Proof.
  intro ops. unfold spec_run. generalize abs_init as a.
  induction ops as [|o ops IH]; intro a; cbn [spec_from]; [intros []|].
  destruct (spec_step a o) as [[a' ob]|] eqn:E.
  - intros [H|H]; [discriminate | exact (IH a' H)].
  - exfalso. exact (spec_step_some a o E).
Qed.

(* no history of the model ever reports a resume loop that did not end *)
Theorem never_hangs : forall ops, ~ In None (run ops).
Proof. intro ops. rewrite run_refines_spec. apply spec_never_hangs. Qed.

(* the same on every model state related to a spec state (all reachable ones: step_keeps_R) *)
Theorem execute_never_hangs : forall s a log, R s a -> execute_running (weight s) s log <> None.
Proof.
  intros s a log HR H. pose proof (execute_running_R (weight s) s a log HR) as Hr.
  rewrite H in Hr. rewrite (weight_R _ _ HR) in Hr. unfold res_rel in Hr.
  pose proof (spec_resume_never_hangs a log) as Hs.
  destruct (spec_resume (aweight a) a log) as [[a2 l2]|]; [exact Hr | now apply Hs].
Qed.

(* ---- (b) nothing that is due stays waiting after an Execute -------------------------------------- *)
Lemma spec_thread_frame p a tid log : frame (fst (spec_thread a tid p log)) = frame a.
Proof.
  destruct (spec_thread_shape p a tid log) as [log' [E|(d & p' & E & Hl)]]; rewrite E; reflexivity.
Qed.

Theorem nothing_due_remains : forall f a log a' log',
  spec_resume f a log = Some (a', log') ->
  frame a' = frame a /\ forall w, In w (pend a') -> frame a' < wdue w.
Proof.
  induction f as [|f IH]; intros a log a' log'; rewrite spec_resume_eq;
    destruct (pend a) as [|x r] eqn:E.
  1,3: intro H; injection H as <- <-; split; [reflexivity|]; rewrite E; intros y [].
  all: destruct (N.ltb_spec (frame a) (wdue (min_w x r))) as [Hlt|Hge].
  1,3: intro H; injection H as <- <-; split; [reflexivity|]; rewrite E; now apply notdue_min.
  - discriminate.
  - match goal with |- context [spec_thread ?a1 ?t ?p ?l] =>
      pose proof (spec_thread_frame p a1 t l) as Hf; destruct (spec_thread a1 t p l) as [a2 log2] end.
    cbn [fst frame] in Hf. intro H. apply IH in H. rewrite Hf in H. exact H.
Qed.

Lemma R_mtime s a : R s a -> mtime s = frame a.
Proof. intro HR. destruct HR. reflexivity. Qed.

Lemma R_elems s a : R s a -> elems s = map w2e (pend a).
Proof. intro HR. destruct HR. reflexivity. Qed.

(* the same for the model: after ExecuteRunning m_time is unchanged and every element left
   in the timer has a time > m_time *)
Theorem execute_leaves_nothing_due : forall f s a log s' log',
  R s a -> execute_running f s log = Some (s', log') ->
  mtime s' = mtime s /\ forall e, In e (elems s') -> mtime s' < etime e.
Proof.
  intros f s a log s' log' HR H. pose proof (execute_running_R f s a log HR) as Hr.
  rewrite H in Hr. unfold res_rel in Hr.
  destruct (spec_resume f a log) as [[a' l2]|] eqn:E; [|contradiction].
  destruct Hr as [HR' _]. apply nothing_due_remains in E. destruct E as [Ef En].
  rewrite (R_mtime _ _ HR'), (R_mtime _ _ HR), (R_elems _ _ HR'). split; [exact Ef|].
  intros e He. apply in_map_iff in He. destruct He as [w [<- Hw]]. cbn [etime w2e]. now apply En.
Qed.

Theorem step_keeps_R : forall s a o s' ob,
  R s a -> step s o = Some (s', ob) -> exists a', spec_step a o = Some (a', ob) /\ R s' a'.
Proof.
  intros s a o s' ob HR H. pose proof (step_R s a o HR) as Hr. rewrite H in Hr.
  unfold step_rel in Hr. destruct (spec_step a o) as [[a' ob']|]; [|contradiction].
  destruct Hr as [HR' ->]. exists a'. split; [reflexivity | exact HR'].
Qed.

(* ---- (c) never early, exactly once ------------------------------------------------------------------ *)
(* spec_resume with the trace of the waiters it resumed (latest first) *)
Fixpoint spec_resume_tr (fuel : nat) (a : abs) (log : list pr) (tr : list waiter)
  : option (abs * list pr * list waiter) :=
  match pend a with
  | [] => Some (a, log, tr)
  | x :: r =>
      let m := min_w x r in
      if frame a <? wdue m then Some (a, log, tr)
      else match fuel with
           | O => None
           | S f =>
               let a1 := mkAbs (remove_w (wseq m) (pend a)) (frame a) (aclock a) (alive a)
                               (atid a) (aseq a) in
               let '(a2, log2) := spec_thread a1 (wtid m) (wprog m) log in
               spec_resume_tr f a2 log2 (m :: tr)
           end
  end.

Lemma spec_resume_tr_eq f a log tr :
  spec_resume_tr f a log tr =
  match pend a with
  | [] => Some (a, log, tr)
  | x :: r =>
      if frame a <? wdue (min_w x r) then Some (a, log, tr)
      else match f with
           | O => None
           | S f' =>
               let '(a2, log2) :=
                 spec_thread (mkAbs (remove_w (wseq (min_w x r)) (pend a)) (frame a) (aclock a)
                                    (alive a) (atid a) (aseq a))
                             (wtid (min_w x r)) (wprog (min_w x r)) log in
               spec_resume_tr f' a2 log2 (min_w x r :: tr)
           end
  end.
Proof. destruct f; reflexivity. Qed.

(* forgetting the trace gives spec_resume *)
Theorem spec_resume_tr_agrees : forall f a log tr,
  option_map (fun r => (fst (fst r), snd (fst r))) (spec_resume_tr f a log tr) =
  spec_resume f a log.
Proof.
  induction f as [|f IH]; intros a log tr; rewrite spec_resume_tr_eq, spec_resume_eq;
    (destruct (pend a) as [|x r]; [reflexivity|]);
    (destruct (frame a <? wdue (min_w x r)); [reflexivity|]); [reflexivity|].
  match goal with |- context [spec_thread ?a1 ?t ?p ?l] =>
    destruct (spec_thread a1 t p l) as [a2 log2] end.
  apply IH.
Qed.

(* never early: whoever is resumed was due (due <= frame time), and was either waiting when
   the Execute began or registered its wait during this Execute *)
Theorem resumed_only_when_due : forall f a log tr a' log' tr',
  spec_resume_tr f a log tr = Some (a', log', tr') ->
  forall w, In w tr' ->
    In w tr \/ (wdue w <= frame a /\ (In w (pend a) \/ aseq a <= wseq w)).
Proof.
  induction f as [|f IH]; intros a log tr a' log' tr'; rewrite spec_resume_tr_eq;
    destruct (pend a) as [|x r] eqn:E.
  1,3: intro H; injection H as <- <- <-; intros w Hw; now left.
  all: destruct (N.ltb_spec (frame a) (wdue (min_w x r))) as [Hlt|Hge].
  1,3: intro H; injection H as <- <- <-; intros w Hw; now left.
  - discriminate.
  - destruct (min_w_spec r x) as [Hin _].
    match goal with |- context [spec_thread ?a1 ?t ?p ?l] =>
      destruct (spec_thread_shape p a1 t l) as [log2 [E2|(d & p' & E2 & _)]]; rewrite E2 end;
      intros H w Hw; destruct (IH _ _ _ _ _ _ H w Hw) as [[<-|Ht]|[Hd Hp]];
      cbn [frame pend aseq] in *.
    1,4: right; split; [exact Hge | left; exact Hin].
    1,3: now left.
    + right. split; [exact Hd|]. destruct Hp as [Hp|Hp]; [left|right; exact Hp].
      unfold remove_w in Hp. apply filter_In in Hp. tauto.
    + right. split; [exact Hd|]. destruct Hp as [Hp|Hp]; [|right; lia].
      apply in_app_or in Hp. destruct Hp as [Hp|[<-|[]]].
      * left. unfold remove_w in Hp. apply filter_In in Hp. tauto.
      * right. cbn [wseq]. lia.
Qed.

(* exactly once: the sequence numbers of the resumed waiters are pairwise distinct and none
   of them is waiting any more *)
Definition trinv (a : abs) (tr : list waiter) : Prop :=
  qinv (pend a) (aseq a) /\ NoDup (map wseq tr) /\
  forall w, In w tr -> wseq w < aseq a /\ ~ In (wseq w) (map wseq (pend a)).

Lemma trinv_pop a tr x r :
  trinv a tr -> pend a = x :: r ->
  trinv (mkAbs (remove_w (wseq (min_w x r)) (x :: r)) (frame a) (aclock a) (alive a) (atid a)
               (aseq a)) (min_w x r :: tr).
Proof.
  intros (Hq & Hnd & Ht) E. rewrite E in Hq, Ht.
  destruct (min_split x r (qi_sseq _ _ Hq)) as (l1 & l2 & E2 & Hl1 & Hl2).
  destruct (min_w_spec r x) as [Hin _].
  assert (Hnm : ~ In (wseq (min_w x r)) (map wseq (l1 ++ l2))).
  { intro Hi. apply in_map_iff in Hi. destruct Hi as [y [Ey Hy]]. apply in_app_or in Hy.
    destruct Hy as [Hy|Hy]; [specialize (Hl1 _ Hy) | specialize (Hl2 _ Hy)]; lia. }
  unfold trinv. cbn [pend aseq]. rewrite E2 in Hq |- *.
  rewrite remove_w_split; [|intros y Hy; now apply Hl1 | intros y Hy; now apply Hl2].
  split; [eapply qinv_split; exact Hq|]. split.
  - cbn [map]. constructor; [|exact Hnd]. intro Hi. apply in_map_iff in Hi.
    destruct Hi as [w [Ew Hw]]. apply (proj2 (Ht _ Hw)). rewrite Ew. now apply in_map.
  - intros w [<-|Hw].
    + split; [|exact Hnm]. apply (qi_bound _ _ Hq). apply in_or_app. right. now left.
    + destruct (Ht _ Hw) as [Hb Hn]. split; [exact Hb|]. intro Hi. apply Hn. rewrite E2.
      apply in_map_iff in Hi. destruct Hi as [y [Ey Hy]]. apply in_map_iff. exists y.
      split; [exact Ey|]. apply in_app_or in Hy. apply in_or_app.
      destruct Hy as [Hy|Hy]; [now left | right; now right].
Qed.

Lemma spec_thread_trinv p a tid log tr :
  trinv a tr -> trinv (fst (spec_thread a tid p log)) tr.
Proof.
  intros (Hq & Hnd & Ht).
  destruct (spec_thread_shape p a tid log) as [log' [E|(d & p' & E & Hl)]]; rewrite E;
    unfold trinv; cbn [fst pend aseq].
  - auto.
  - split; [now apply qinv_snoc|]. split; [exact Hnd|]. intros w Hw.
    destruct (Ht _ Hw) as [Hb Hn]. split; [lia|]. rewrite map_app. intro Hi.
    apply in_app_or in Hi. destruct Hi as [Hi|[Hi|[]]]; [now apply Hn|]. cbn [wseq] in Hi. lia.
Qed.

Theorem resumed_exactly_once : forall f a log tr a' log' tr',
  trinv a tr -> spec_resume_tr f a log tr = Some (a', log', tr') -> trinv a' tr'.
Proof.
  induction f as [|f IH]; intros a log tr a' log' tr' Hi; rewrite spec_resume_tr_eq;
    destruct (pend a) as [|x r] eqn:E.
  1,3: intro H; injection H as <- <- <-; exact Hi.
  all: destruct (frame a <? wdue (min_w x r)).
  1,3: intro H; injection H as <- <- <-; exact Hi.
  - discriminate.
  - pose proof (trinv_pop a tr x r Hi E) as Hi1.
    match goal with |- context [spec_thread ?a1 ?t ?p ?l] =>
      pose proof (spec_thread_trinv p a1 t l _ Hi1) as Hi2;
      destruct (spec_thread a1 t p l) as [a2 log2] end.
    cbn [fst] in Hi2. intro H. exact (IH _ _ _ _ _ _ Hi2 H).
Qed.

Theorem resumed_exactly_once_from_empty : forall f a log a' log' tr',
  qinv (pend a) (aseq a) -> spec_resume_tr f a log [] = Some (a', log', tr') ->
  NoDup (map wseq tr') /\
  (forall w, In w tr' -> ~ In (wseq w) (map wseq (pend a'))) /\
  qinv (pend a') (aseq a').
Proof.
  intros f a log a' log' tr' Hq H.
  assert (Hi : trinv a []) by (split; [exact Hq | split; [constructor | intros w []]]).
  destruct (resumed_exactly_once _ _ _ _ _ _ _ Hi H) as (Hq' & Hnd & Ht).
  split; [exact Hnd|]. split; [|exact Hq']. intros w Hw. exact (proj2 (Ht _ Hw)).
Qed.

(* every reachable spec state has distinct, increasing sequence numbers below aseq *)
Lemma spec_resume_qinv f a log a' log' :
  qinv (pend a) (aseq a) -> spec_resume f a log = Some (a', log') -> qinv (pend a') (aseq a').
Proof.
  intros Hq H. pose proof (spec_resume_tr_agrees f a log []) as Ha. rewrite H in Ha.
  destruct (spec_resume_tr f a log []) as [[[a'' l''] tr']|] eqn:E; [|discriminate].
  cbn [option_map fst snd] in Ha. injection Ha as -> ->.
  exact (proj2 (proj2 (resumed_exactly_once_from_empty _ _ _ _ _ _ Hq E))).
Qed.

Lemma spec_thread_qinv p a tid log :
  qinv (pend a) (aseq a) ->
  qinv (pend (fst (spec_thread a tid p log))) (aseq (fst (spec_thread a tid p log))).
Proof.
  intro Hq. destruct (spec_thread_shape p a tid log) as [log' [E|(d & p' & E & Hl)]]; rewrite E;
    cbn [fst pend aseq]; [exact Hq | now apply qinv_snoc].
Qed.

Theorem spec_step_keeps_qinv : forall a o a' ob,
  qinv (pend a) (aseq a) -> spec_step a o = Some (a', ob) -> qinv (pend a') (aseq a').
Proof.
  intros a o a' ob Hq. destruct o as [p|dt|]; cbn [spec_step].
  - match goal with |- context [spec_thread ?a0 ?t p ?l] =>
      pose proof (spec_thread_qinv p a0 t l Hq) as H1; destruct (spec_thread a0 t p l) as [a1 log] end.
    cbn [fst] in H1. destruct (spec_resume (aweight a1) a1 log) as [[a2 l2]|] eqn:E; [|discriminate].
    intro H. injection H as <- _. exact (spec_resume_qinv _ _ _ _ _ H1 E).
  - intro H. injection H as <- _. exact Hq.
  - match goal with |- context [spec_resume (aweight ?a1) ?a1 ?l] =>
      destruct (spec_resume (aweight a1) a1 l) as [[a2 l2]|] eqn:E; [|discriminate] end.
    intro H. injection H as <- _. eapply spec_resume_qinv; [|exact E]. exact Hq.
Qed.

(* ---- (d) busy while anybody waits --------------------------------------------------------------------- *)
Definition winv (a : abs) : Prop := (length (pend a) <= alive a)%nat.

Lemma filter_len_le {A} (f : A -> bool) l : (length (filter f l) <= length l)%nat.
Proof. induction l as [|x l IH]; cbn [filter]; [lia|]. destruct (f x); cbn [length]; lia. Qed.

Lemma filter_len_lt {A} (f : A -> bool) l m :
  In m l -> f m = false -> (length (filter f l) < length l)%nat.
Proof.
  induction l as [|x l IH]; intros Hin Hf; [destruct Hin|]. cbn [filter]. destruct Hin as [->|Hin].
  - rewrite Hf. pose proof (filter_len_le f l). cbn [length]. lia.
  - specialize (IH Hin Hf). destruct (f x); cbn [length]; lia.
Qed.

Lemma spec_thread_winv p a tid log :
  (length (pend a) < alive a)%nat -> winv (fst (spec_thread a tid p log)).
Proof.
  intro H. destruct (spec_thread_shape p a tid log) as [log' [E|(d & p' & E & Hl)]]; rewrite E;
    unfold winv; cbn [fst pend alive].
  - lia.
  - rewrite app_length. cbn [length]. lia.
Qed.

Lemma spec_resume_winv f : forall a log a' log',
  winv a -> spec_resume f a log = Some (a', log') -> winv a'.
Proof.
  induction f as [|f IH]; intros a log a' log' Hw; rewrite spec_resume_eq;
    destruct (pend a) as [|x r] eqn:E.
  1,3: intro H; injection H as <- _; exact Hw.
  all: destruct (frame a <? wdue (min_w x r)).
  1,3: intro H; injection H as <- _; exact Hw.
  - discriminate.
  - destruct (min_w_spec r x) as [Hin _].
    assert (Hl : (length (remove_w (wseq (min_w x r)) (x :: r)) < alive a)%nat).
    { unfold winv in Hw. rewrite E in Hw. unfold remove_w.
      pose proof (filter_len_lt (fun y => negb (wseq y =? wseq (min_w x r))) _ _ Hin) as Hf.
      cbn beta in Hf. rewrite N.eqb_refl in Hf. specialize (Hf eq_refl). lia. }
    match goal with |- context [spec_thread ?a1 ?t ?p ?l] =>
      pose proof (spec_thread_winv p a1 t l Hl) as H2; destruct (spec_thread a1 t p l) as [a2 log2] end.
    cbn [fst] in H2. intro H. exact (IH _ _ _ _ H2 H).
Qed.

Theorem spec_step_keeps_winv : forall a o a' ob,
  winv a -> spec_step a o = Some (a', ob) -> winv a' /\ exists log, ob = aobserve a' log.
Proof.
  intros a o a' ob Hw. destruct o as [p|dt|]; cbn [spec_step].
  - match goal with |- context [spec_thread ?a0 ?t p ?l] =>
      assert (H1 : winv (fst (spec_thread a0 t p l)))
        by (apply spec_thread_winv; cbn [pend alive]; unfold winv in Hw; lia);
      destruct (spec_thread a0 t p l) as [a1 log] end.
    cbn [fst] in H1. destruct (spec_resume (aweight a1) a1 log) as [[a2 l2]|] eqn:E; [|discriminate].
    intro H. injection H as <- <-. split; [exact (spec_resume_winv _ _ _ _ _ H1 E) | now exists l2].
  - intro H. injection H as <- <-. split; [exact Hw | now exists []].
  - match goal with |- context [spec_resume (aweight ?a1) ?a1 ?l] =>
      destruct (spec_resume (aweight a1) a1 l) as [[a2 l2]|] eqn:E; [|discriminate] end.
    intro H. injection H as <- <-. split; [eapply spec_resume_winv; [|exact E]; exact Hw | now exists l2].
Qed.

Lemma aobserve_busy a log :
  winv a -> waiting (aobserve a log) = true -> idle (aobserve a log) = false.
Proof.
  unfold winv, aobserve. cbn [waiting idle]. destruct (pend a) as [|w l]; cbn [negb length].
  - discriminate.
  - intros H _. destruct (alive a); [lia | reflexivity].
Qed.

Theorem spec_busy_while_waiting : forall ops ob,
  In (Some ob) (spec_run ops) -> waiting ob = true -> idle ob = false.
Proof.
  intros ops ob. unfold spec_run.
  assert (H0 : winv abs_init) by (unfold winv; cbn; lia). revert H0. generalize abs_init as a.
  induction ops as [|o ops IH]; intros a Hw; cbn [spec_from]; [intros []|].
  destruct (spec_step a o) as [[a' ob']|] eqn:E.
  - destruct (spec_step_keeps_winv _ _ _ _ Hw E) as [Hw' [log Eo]].
    intros [H|H]; [|exact (IH a' Hw' H)]. injection H as <-. rewrite Eo. now apply aobserve_busy.
  - intros [H|[]]. discriminate.
Qed.

(* in every observation of every history of the model: a waiting thread keeps the engine busy *)
Theorem busy_while_waiting : forall ops ob,
  In (Some ob) (run ops) -> waiting ob = true -> idle ob = false.
Proof. intros ops ob. rewrite run_refines_spec. apply spec_busy_while_waiting. Qed.
