(* C06/Spec.v — the abstract specification of timed waits.  The engine's frame time is a
   single number (the time of the last Execute); `wait d` at frame time t makes the thread
   due at t + d; an Execute at frame time T repeatedly resumes the waiting thread that is
   minimal in (due time, order in which the waits were registered) as long as its due time
   is <= T; a thread that is not due is never resumed; the engine is busy while any thread
   is alive.  No list positions, no dirty flag, no separate time bases. *)
From Coq Require Import NArith List Bool.
From Morfuse Require Import C06.Model.
Import ListNotations.
Local Open Scope N_scope.

Record waiter := mkW { wtid : N; wdue : N; wseq : N; wprog : list instr }.

Record abs := mkAbs {
  pend : list waiter;
  frame : N;            (* the engine's frame time *)
  aclock : N;           (* the host's clock, relative to the engine's start *)
  alive : nat;
  atid : N;
  aseq : N }.

Definition abs_init : abs := mkAbs [] 0 0 0 0 0.

Definition w_ltb (a c : waiter) : bool :=
  (wdue a <? wdue c) || ((wdue a =? wdue c) && (wseq a <? wseq c)).

Fixpoint min_w (m : waiter) (l : list waiter) : waiter :=
  match l with
  | [] => m
  | x :: l' => min_w (if w_ltb x m then x else m) l'
  end.

Definition remove_w (k : N) (l : list waiter) : list waiter :=
  filter (fun x => negb (N.eqb (wseq x) k)) l.

Fixpoint spec_thread (a : abs) (tid : N) (p : list instr) (log : list pr) : abs * list pr :=
  match p with
  | [] => (mkAbs (pend a) (frame a) (aclock a) (pred (alive a)) (atid a) (aseq a), log)
  | IPrint m :: p' => spec_thread a tid p' ((tid, m) :: log)
  | IWait d :: p' =>
      (mkAbs (pend a ++ [mkW tid (frame a + d) (aseq a) p']) (frame a) (aclock a)
             (alive a) (atid a) (aseq a + 1), log)
  end.

Fixpoint spec_resume (fuel : nat) (a : abs) (log : list pr) : option (abs * list pr) :=
  match pend a with
  | [] => Some (a, log)
  | x :: r =>
      let m := min_w x r in
      if frame a <? wdue m then Some (a, log)
      else match fuel with
           | O => None
           | S f =>
               let a1 := mkAbs (remove_w (wseq m) (pend a)) (frame a) (aclock a) (alive a)
                               (atid a) (aseq a) in
               let '(a2, log2) := spec_thread a1 (wtid m) (wprog m) log in
               spec_resume f a2 log2
           end
  end.

Definition aweight (a : abs) : nat :=
  fold_right (fun w acc => S (length (wprog w)) + acc)%nat O (pend a).

Definition aobserve (a : abs) (log : list pr) : obs :=
  mkObs (rev log) (Nat.eqb (alive a) 0) (negb (match pend a with [] => true | _ => false end)).

Definition spec_step (a : abs) (o : op) : option (abs * obs) :=
  match o with
  | OStart p =>
      let tid := atid a in
      let a0 := mkAbs (pend a) (frame a) (aclock a) (S (alive a)) (tid + 1) (aseq a) in
      let '(a1, log) := spec_thread a0 tid p [] in
      (* a thread that is already due (wait 0 inside a frame) resumes at once *)
      match spec_resume (aweight a1) a1 log with
      | Some (a2, log2) => Some (a2, aobserve a2 log2)
      | None => None
      end
  | OAdvance dt =>
      let a' := mkAbs (pend a) (frame a) (aclock a + dt) (alive a) (atid a) (aseq a) in
      Some (a', aobserve a' [])
  | OExecute =>
      let a1 := mkAbs (pend a) (aclock a) (aclock a) (alive a) (atid a) (aseq a) in
      match spec_resume (aweight a1) a1 [] with
      | Some (a2, log2) => Some (a2, aobserve a2 log2)
      | None => None
      end
  end.

Fixpoint spec_from (a : abs) (ops : list op) : list (option obs) :=
  match ops with
  | [] => []
  | o :: ops' =>
      match spec_step a o with
      | Some (a', ob) => Some ob :: spec_from a' ops'
      | None => [None]
      end
  end.

Definition spec_run (ops : list op) : list (option obs) := spec_from abs_init ops.
