(* C06/Extract.v — extraction of the model and the specification (ExtrOcamlBasic only). *)
Require Extraction.
Require Import ExtrOcamlBasic.
From Morfuse Require Import C06.Model C06.Spec.
Extraction "C06_model.ml" run spec_run.
