From Morfuse Require Import C06.Model C06.Spec.
