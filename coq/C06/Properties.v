(* C06/Properties.v — the property theorems of C06, and nothing else.
   Every theorem is closed by [exact <lemma>] and followed by Print Assumptions. *)
From Coq Require Import NArith List Bool.
From Morfuse Require Import C06.Model C06.Spec C06.Proofs.
Import ListNotations.
Local Open Scope N_scope.

(* For EVERY history of thread starts (any program of prints and waits, also wait 0), clock
   advances and Executes, the code-level timer - elements in insertion order, the backward
   scan of GetNextElement with `time <= best`, the dirty flag that lets ExecuteRunning do
   nothing, m_time set by SetTime and the scaled time accumulated by Frame - observes
   exactly what the due-time bag specification of C06/Spec.v observes: the same prints in
   the same order ((due time, registration order) minimal first, only when due), the same
   idle and waiting flags, and never an unfinished resume loop. *)
Theorem C06_timer_refines_the_due_time_bag :
  forall ops : list op, run ops = spec_run ops.
Proof. exact run_refines_spec. Qed.
Print Assumptions C06_timer_refines_the_due_time_bag.

(* The resume loop always ends within its fuel (every resume removes one element and the
   resumed thread registers at most one wait with a strictly shorter rest of program). *)
Theorem C06_no_history_reports_a_hung_resume_loop :
  forall ops : list op, ~ In None (run ops).
Proof. exact never_hangs. Qed.
Print Assumptions C06_no_history_reports_a_hung_resume_loop.

Theorem C06_a_spec_resume_never_hangs :
  forall a log, spec_resume (aweight a) a log <> None.
Proof. exact spec_resume_never_hangs. Qed.
Print Assumptions C06_a_spec_resume_never_hangs.

Theorem C06_execute_running_never_hangs :
  forall s a log, R s a -> execute_running (weight s) s log <> None.
Proof. exact execute_never_hangs. Qed.
Print Assumptions C06_execute_running_never_hangs.

(* After an Execute the frame time is unchanged and nothing that is due stays waiting: a
   waiter is resumed no later than the end of the first Execute whose frame time is >= its
   due time. *)
Theorem C06_spec_execute_leaves_nothing_due :
  forall f a log a' log',
    spec_resume f a log = Some (a', log') ->
    frame a' = frame a /\ forall w, In w (pend a') -> frame a' < wdue w.
Proof. exact nothing_due_remains. Qed.
Print Assumptions C06_spec_execute_leaves_nothing_due.

(* The same for the model, on every state related to a spec state by the simulation
   relation R; [step] preserves being related (and R holds initially: the main theorem). *)
Theorem C06_execute_running_leaves_nothing_due :
  forall f s a log s' log',
    R s a -> execute_running f s log = Some (s', log') ->
    mtime s' = mtime s /\ forall e, In e (elems s') -> mtime s' < etime e.
Proof. exact execute_leaves_nothing_due. Qed.
Print Assumptions C06_execute_running_leaves_nothing_due.

Theorem C06_every_operation_keeps_the_simulation :
  forall s a o s' ob,
    R s a -> step s o = Some (s', ob) -> exists a', spec_step a o = Some (a', ob) /\ R s' a'.
Proof. exact step_keeps_R. Qed.
Print Assumptions C06_every_operation_keeps_the_simulation.

(* [spec_resume_tr] is [spec_resume] that also returns the waiters it resumed. *)
Theorem C06_the_resume_trace_is_faithful :
  forall f a log tr,
    option_map (fun r => (fst (fst r), snd (fst r))) (spec_resume_tr f a log tr) =
    spec_resume f a log.
Proof. exact spec_resume_tr_agrees. Qed.
Print Assumptions C06_the_resume_trace_is_faithful.

(* Never early: whoever is resumed is due (due time <= frame time) and was waiting when the
   Execute began or registered its wait during this Execute. *)
Theorem C06_nobody_is_resumed_early :
  forall f a log tr a' log' tr',
    spec_resume_tr f a log tr = Some (a', log', tr') ->
    forall w, In w tr' ->
      In w tr \/ (wdue w <= frame a /\ (In w (pend a) \/ aseq a <= wseq w)).
Proof. exact resumed_only_when_due. Qed.
Print Assumptions C06_nobody_is_resumed_early.

(* Exactly once: the waits resumed by one Execute are pairwise distinct registrations and
   none of them is waiting afterwards (qinv: sequence numbers increase along the waiting
   list and are below aseq; every operation keeps it). *)
Theorem C06_nobody_is_resumed_twice :
  forall f a log a' log' tr',
    qinv (pend a) (aseq a) -> spec_resume_tr f a log [] = Some (a', log', tr') ->
    NoDup (map wseq tr') /\
    (forall w, In w tr' -> ~ In (wseq w) (map wseq (pend a'))) /\
    qinv (pend a') (aseq a').
Proof. exact resumed_exactly_once_from_empty. Qed.
Print Assumptions C06_nobody_is_resumed_twice.

Theorem C06_every_operation_keeps_the_registrations_distinct :
  forall a o a' ob,
    qinv (pend a) (aseq a) -> spec_step a o = Some (a', ob) -> qinv (pend a') (aseq a').
Proof. exact spec_step_keeps_qinv. Qed.
Print Assumptions C06_every_operation_keeps_the_registrations_distinct.

(* Busy while anybody waits: in every observation of every history, waiting implies not
   idle (there are never more waiters than live threads). *)
Theorem C06_busy_while_a_thread_waits :
  forall ops ob, In (Some ob) (run ops) -> waiting ob = true -> idle ob = false.
Proof. exact busy_while_waiting. Qed.
Print Assumptions C06_busy_while_a_thread_waits.

Theorem C06_never_more_waiters_than_live_threads :
  forall a o a' ob,
    winv a -> spec_step a o = Some (a', ob) -> winv a' /\ exists log, ob = aobserve a' log.
Proof. exact spec_step_keeps_winv. Qed.
Print Assumptions C06_never_more_waiters_than_live_threads.

(* Non-vacuity.  Threads 0 and 1 both wait 5 at frame 0 (due 5); a frame without clock
   advance and a frame at time 4 resume nobody; the frame at time 5 resumes 0 then 1
   (registration order) and thread 1's `wait 0` is resumed within the same Execute; then
   thread 2 waits 7 (due 12), thread 3 waits 3 (due 8), thread 4's `wait 0` at start is
   resumed at once; the clock jumps by 20 over both due times: 3 (due 8) before 2 (due 12),
   and 3's `wait 0` (due 25) after 2; a last frame without clock advance does nothing.
   Shown: (prints (thread, marker), idle, waiting) of every operation. *)
Example C06_history_example :
  map (option_map (fun o => (prints o, idle o, waiting o)))
      (run [ OStart [IPrint 1; IWait 5; IPrint 2];
             OStart [IPrint 3; IWait 5; IPrint 4; IWait 0; IPrint 5];
             OExecute;
             OAdvance 4; OExecute;
             OAdvance 1; OExecute;
             OStart [IWait 7; IPrint 6];
             OStart [IWait 3; IPrint 7; IWait 0; IPrint 8];
             OStart [IWait 0; IPrint 9];
             OAdvance 20; OExecute;
             OExecute ]) =
  [ Some ([(0, 1)], false, true); Some ([(1, 3)], false, true);
    Some ([], false, true);
    Some ([], false, true); Some ([], false, true);
    Some ([], false, true); Some ([(0, 2); (1, 4); (1, 5)], true, false);
    Some ([], false, true);
    Some ([], false, true);
    Some ([(4, 9)], false, true);
    Some ([], false, true); Some ([(3, 7); (2, 6); (3, 8)], true, false);
    Some ([], true, false) ].
Proof. vm_compute. reflexivity. Qed.

(* one Execute of the specification at frame time 6 with waiters due 5, 5, 3, 9: resumed
   (latest first, as (thread, due, seq)) and the prints; the waiter due 9 is not resumed *)
Example C06_resume_trace_example :
  option_map (fun r => (map (fun w => (wtid w, wdue w, wseq w)) (snd r), rev (snd (fst r)),
                        map wtid (pend (fst (fst r)))))
    (spec_resume_tr 10
       (mkAbs [ mkW 0 5 0 [IPrint 2]; mkW 1 5 1 [IPrint 4; IWait 0; IPrint 5];
                mkW 2 3 2 [IPrint 6]; mkW 3 9 3 [] ] 6 6 4 4 4) [] []) =
  Some ([(1, 6, 4); (1, 5, 1); (0, 5, 0); (2, 3, 2)], [(2, 6); (0, 2); (1, 4); (1, 5)], [3]).
Proof. vm_compute. reflexivity. Qed.
