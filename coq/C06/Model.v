(* C06/Model.v — executable model of timed waits: con::timer (src/Script/timer.cpp),
   ScriptMaster::AddTiming / ExecuteRunning / SetTime (src/Script/ScriptMaster.cpp),
   TimeManager::Frame / GetTime / GetScaledTime under the injected integral clock
   (src/Common/Time.cpp, hook H1) and ScriptContext::Execute (src/Script/Context.cpp).

   Code level: the timer keeps its elements in insertion order (Container::AddObject
   appends, RemoveObjectAt keeps the order); AddElement marks the timer dirty when the new
   time is <= m_time; GetNextElement scans from the LAST element down to the first with
   `e.time <= best_time` starting from best_time = m_time, removes the found element or
   clears the dirty flag; ExecuteRunning does nothing unless dirty and loops while
   GetNextElement finds something; Frame adds the clock delta to the scaled time;
   SetTime stores GetTime() (= clock - start) and marks dirty; `wait d` registers
   scaled time + d.  A thread is an abstract program: a list of Print / Wait. *)
From Coq Require Import NArith List Bool.
Import ListNotations.
Local Open Scope N_scope.

Inductive instr := IPrint (m : N) | IWait (d : N).

Inductive op :=
| OStart (prog : list instr)    (* host ExecuteThread of a fresh script *)
| OAdvance (dt : N)             (* the host's clock moves *)
| OExecute.                     (* ScriptContext::Execute() *)

Record elem := mkElem { eobj : N; etime : N; eprog : list instr }.
(* eprog: what the waiting thread still has to run (the VM's saved code position) *)

Record st := mkSt {
  elems : list elem;     (* timer::m_Elements, first = index 1 *)
  mtime : N;             (* timer::m_time *)
  dirty : bool;          (* timer::m_bDirty *)
  scaled : N;            (* TimeManager::scaledTime *)
  lastclk : N;           (* TimeManager::lastClockTime *)
  startclk : N;          (* TimeManager::startTime *)
  clock : N;             (* the injected clock *)
  nlive : nat;           (* live script instances (GetNumRunningScripts) *)
  nexttid : N }.

Definition init (c : N) : st := mkSt [] 0 false 0 c c c 0 0.

(* a print: (thread, marker) *)
Definition pr := (N * N)%type.

(* run a thread until it waits or ends *)
Fixpoint run_thread (s : st) (tid : N) (p : list instr) (log : list pr) : st * list pr :=
  match p with
  | [] => (mkSt (elems s) (mtime s) (dirty s) (scaled s) (lastclk s) (startclk s) (clock s)
                (pred (nlive s)) (nexttid s), log)
  | IPrint m :: p' => run_thread s tid p' ((tid, m) :: log)
  | IWait d :: p' =>
      (* AddTiming(this, d): AddElement(thread, scaled + d) *)
      let t := scaled s + d in
      (mkSt (elems s ++ [mkElem tid t p']) (mtime s)
            (if t <=? mtime s then true else dirty s)
            (scaled s) (lastclk s) (startclk s) (clock s) (nlive s) (nexttid s), log)
  end.

(* timer::GetNextElement: the scan.  [scan l i best found] walks the REVERSED list
   (last element first); i = 1-based index of the head of l in the original numbering *)
Fixpoint scan (rl : list elem) (i : nat) (best : N) (found : option nat) : option nat :=
  match rl with
  | [] => found
  | e :: rl' =>
      if etime e <=? best then scan rl' (pred i) (etime e) (Some i)
      else scan rl' (pred i) best found
  end.

Fixpoint remove_at (l : list elem) (i : nat) : list elem :=     (* i is 1-based *)
  match l, i with
  | [], _ => []
  | _ :: l', 1%nat => l'
  | x :: l', S j => x :: remove_at l' j
  | l, O => l
  end.

Definition get_next (s : st) : option (elem * st) :=
  match scan (rev (elems s)) (length (elems s)) (mtime s) None with
  | Some i =>
      match nth_error (elems s) (pred i) with
      | Some e => Some (e, mkSt (remove_at (elems s) i) (mtime s) (dirty s) (scaled s)
                                (lastclk s) (startclk s) (clock s) (nlive s) (nexttid s))
      | None => None
      end
  | None => None
  end.

(* ScriptMaster::ExecuteRunning (no current thread): None = out of fuel *)
Fixpoint exec_loop (fuel : nat) (s : st) (log : list pr) : option (st * list pr) :=
  match get_next s with
  | None => Some (mkSt (elems s) (mtime s) false (scaled s) (lastclk s) (startclk s) (clock s)
                       (nlive s) (nexttid s), log)
  | Some (e, s1) =>
      match fuel with
      | O => None
      | S f => let '(s2, log2) := run_thread s1 (eobj e) (eprog e) log in exec_loop f s2 log2
      end
  end.

Definition execute_running (fuel : nat) (s : st) (log : list pr) : option (st * list pr) :=
  if dirty s then exec_loop fuel s log else Some (s, log).

(* the loop measure: every resume consumes the element and runs at least to the next wait *)
Definition weight (s : st) : nat :=
  fold_right (fun e acc => S (length (eprog e)) + acc)%nat O (elems s).

Record obs := mkObs { prints : list pr; idle : bool; waiting : bool }.

Definition observe (s : st) (log : list pr) : obs :=
  mkObs (rev log) (Nat.eqb (nlive s) 0) (negb (match elems s with [] => true | _ => false end)).

Definition step (s : st) (o : op) : option (st * obs) :=
  match o with
  | OStart p =>
      let tid := nexttid s in
      let s0 := mkSt (elems s) (mtime s) (dirty s) (scaled s) (lastclk s) (startclk s) (clock s)
                     (S (nlive s)) (tid + 1) in
      let '(s1, log) := run_thread s0 tid p [] in
      (* ScriptExecuteInternal ends with Director.ExecuteRunning() *)
      match execute_running (weight s1) s1 log with
      | Some (s2, log2) => Some (s2, observe s2 log2)
      | None => None
      end
  | OAdvance dt =>
      let s' := mkSt (elems s) (mtime s) (dirty s) (scaled s) (lastclk s) (startclk s)
                     (clock s + dt) (nlive s) (nexttid s) in
      Some (s', observe s' [])
  | OExecute =>
      (* Frame(): scaled += clock - last; last = clock.  SetTime(GetTime()): m_time = clock - start; dirty *)
      let s1 := mkSt (elems s) (clock s - startclk s) true
                     (scaled s + (clock s - lastclk s)) (clock s) (startclk s) (clock s)
                     (nlive s) (nexttid s) in
      match execute_running (weight s1) s1 [] with
      | Some (s2, log2) => Some (s2, observe s2 log2)
      | None => None
      end
  end.

Fixpoint run_from (s : st) (ops : list op) : list (option obs) :=
  match ops with
  | [] => []
  | o :: ops' =>
      match step s o with
      | Some (s', ob) => Some ob :: run_from s' ops'
      | None => [None]
      end
  end.

Definition run (ops : list op) : list (option obs) := run_from (init 1000) ops.
