(* C12/Spec.v — the abstract specification of weak references: a finite map
   reference-slot -> (null | object), and a finite map object-slot -> object identity.
   Destroying an object sets exactly the references that point to it to null; every other
   operation changes exactly the reference it names.  "Is last reference" = exactly one
   live reference has that target. *)
From Coq Require Import NArith List Bool.
From Morfuse Require Import Base.Arr C12.Model.
Import ListNotations.
Local Open Scope N_scope.

Record abs := mkAbs {
  aobjs : list (N * N);            (* object slot, object identity *)
  arefs : list (N * option N);     (* live reference slot, target identity *)
  anext : N }.

Definition abs_init : abs := mkAbs [] [] 0.

Fixpoint alookup {V} (k : N) (l : list (N * V)) : option V :=
  match l with
  | [] => None
  | (k', v) :: l' => if N.eqb k k' then Some v else alookup k l'
  end.

Fixpoint aremove {V} (k : N) (l : list (N * V)) : list (N * V) :=
  match l with
  | [] => []
  | (k', v) :: l' => if N.eqb k k' then aremove k l' else (k', v) :: aremove k l'
  end.

Definition aset {V} (k : N) (v : V) (l : list (N * V)) : list (N * V) :=
  (k, v) :: aremove k l.

Definition asrc (a : abs) (f : src) : option N :=
  match f with
  | SNull => None
  | SObj os => alookup os (aobjs a)
  | SRef rs => match alookup rs (arefs a) with Some t => t | None => None end
  end.

Definition spec_step (a : abs) (o : op) : abs :=
  match o with
  | ONewObj os =>
      match alookup os (aobjs a) with
      | Some _ => a
      | None => mkAbs ((os, anext a) :: aobjs a) (arefs a) (anext a + 1)
      end
  | ODelObj os =>
      match alookup os (aobjs a) with
      | None => a
      | Some o =>
          mkAbs (aremove os (aobjs a))
                (map (fun p => (fst p, if opt_eqb (snd p) (Some o) then None else snd p)) (arefs a))
                (anext a)
      end
  | ONewRef rs f =>
      match alookup rs (arefs a) with
      | Some _ => a
      | None => mkAbs (aobjs a) ((rs, asrc a f) :: arefs a) (anext a)
      end
  | OAssign rs f =>
      match alookup rs (arefs a) with
      | None => a
      | Some _ => mkAbs (aobjs a) (aset rs (asrc a f) (arefs a)) (anext a)
      end
  | OClear rs =>
      match alookup rs (arefs a) with
      | None => a
      | Some _ => mkAbs (aobjs a) (aset rs None (arefs a)) (anext a)
      end
  | ODelRef rs => mkAbs (aobjs a) (aremove rs (arefs a)) (anext a)
  end.

Fixpoint afind_oslot (a : abs) (o : N) (n : nat) : option N :=
  match n with
  | O => None
  | S m => match alookup (N.of_nat m) (aobjs a) with
           | Some o' => if N.eqb o o' then Some (N.of_nat m) else afind_oslot a o m
           | None => afind_oslot a o m
           end
  end.

Definition count_to (a : abs) (o : N) : nat :=
  length (filter (fun p => opt_eqb (snd p) (Some o)) (arefs a)).

Definition aobserve_ref (no : nat) (a : abs) (rs : N) : robs :=
  match alookup rs (arefs a) with
  | None => RDead
  | Some None => RNull
  | Some (Some o) => RTo (afind_oslot a o no) (Nat.eqb (count_to a o) 1)
  end.

Definition aobserve (no nr : nat) (a : abs) : list robs :=
  map (fun i => aobserve_ref no a (N.of_nat i)) (seq 0 nr).

Fixpoint spec_from (no nr : nat) (a : abs) (ops : list op) : list (list robs) :=
  match ops with
  | [] => []
  | o :: ops' => let a' := spec_step a o in aobserve no nr a' :: spec_from no nr a' ops'
  end.

Definition spec_run (no nr : nat) (ops : list op) : list (list robs) :=
  spec_from no nr abs_init ops.
