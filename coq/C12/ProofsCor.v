(* C12/ProofsCor.v — corollaries of the refinement theorem of C12 that state the sentences of
   the property directly, for EVERY history, about the code-level model [run]:
   never dangles / destroying an object nulls exactly the references to it / a null reference
   stays null until it is written / operations on one reference do not disturb the target of
   the others / "is last reference" = exactly one reference shows that object.
   Method: facts about the states reached by [spec_step] (induction over the op list), read
   through [aobserve_ref], transferred to [run] with [run_refines_spec]. *)
From Coq Require Import NArith PeanoNat List Bool Lia.
From Morfuse Require Import Base.Arr Base.ListX C12.Model C12.Spec C12.ProofsLib C12.Proofs.
Import ListNotations.
Local Open Scope N_scope.

(* ---- the vocabulary of the statements ------------------------------------------------------ *)

(* after the i-th operation (0-based) of history [ops], reference slot [j] shows [x] *)
Definition shows (no nr : nat) (ops : list op) (i j : nat) (x : robs) : Prop :=
  exists obs, nth_error (run no nr ops) i = Some (Some obs) /\ nth_error obs j = Some x.

(* side conditions: every object (reference) the history creates lives in an observed slot *)
Definition obj_ok (no : nat) (o : op) : bool :=
  match o with ONewObj os => Nat.ltb (N.to_nat os) no | _ => true end.
Definition objs_below (no : nat) (ops : list op) : bool := forallb (obj_ok no) ops.

Definition ref_ok (nr : nat) (o : op) : bool :=
  match o with ONewRef rs _ => Nat.ltb (N.to_nat rs) nr | _ => true end.
Definition refs_below (nr : nat) (ops : list op) : bool := forallb (ref_ok nr) ops.

(* object slot [os] holds a live object after the history [ops]: read off the history alone *)
Definition alive_step (os : N) (b : bool) (o : op) : bool :=
  match o with
  | ONewObj os' => if N.eqb os os' then true else b
  | ODelObj os' => if N.eqb os os' then false else b
  | _ => b
  end.
Definition obj_alive (ops : list op) (os : N) : bool := fold_left (alive_step os) ops false.

(* the reference slot an operation names *)
Definition op_ref (o : op) : option N :=
  match o with
  | ONewRef rs _ | OAssign rs _ | OClear rs | ODelRef rs => Some rs
  | ONewObj _ | ODelObj _ => None
  end.

(* the operations that can give reference slot [rs] a (new) target *)
Definition writes_ref (rs : N) (o : op) : bool :=
  match o with
  | ONewRef rs' _ | OAssign rs' _ => N.eqb rs rs'
  | _ => false
  end.

(* what a reference slot shows, without the is-last flag *)
Inductive rtgt := TDead | TNull | TTo (t : option N).
Definition target_of (x : robs) : rtgt :=
  match x with RDead => TDead | RNull => TNull | RTo t _ => TTo t end.

(* how many slots of an observation show the object in slot [os] *)
Definition shows_obj (os : N) (x : robs) : bool :=
  match x with RTo (Some os') _ => N.eqb os os' | _ => false end.
Definition count_shown (os : N) (obs : list robs) : nat := length (filter (shows_obj os) obs).

(* ---- small list facts ------------------------------------------------------------------------ *)
Lemma nth_error_seq0 : forall n s j,
  nth_error (seq s n) j = if Nat.ltb j n then Some (s + j)%nat else None.
Proof.
  induction n as [|n IH]; intros s j; cbn [seq].
  - destruct j; reflexivity.
  - destruct j as [|j]; cbn [nth_error].
    + change (Nat.ltb 0 (S n)) with true. cbv iota. f_equal. lia.
    + rewrite IH. change (Nat.ltb (S j) (S n)) with (Nat.ltb j n).
      destruct (Nat.ltb j n); [f_equal; lia | reflexivity].
Qed.

Lemma firstn_S_nth {A} : forall (l : list A) n x,
  nth_error l n = Some x -> firstn (S n) l = firstn n l ++ [x].
Proof.
  induction l as [|a l IH]; intros n x H.
  - destruct n; discriminate.
  - destruct n as [|n]; cbn [nth_error] in H.
    + injection H as ->. reflexivity.
    + change (firstn (S (S n)) (a :: l)) with (a :: firstn (S n) l).
      rewrite (IH n x H). reflexivity.
Qed.

Lemma forallb_firstn {A} (c : A -> bool) : forall (l : list A) n,
  forallb c l = true -> forallb c (firstn n l) = true.
Proof.
  induction l as [|a l IH]; intros n H.
  - destruct n; reflexivity.
  - destruct n as [|n]; [reflexivity|]. cbn [firstn forallb] in *.
    apply andb_true_iff in H. destruct H as [Ha Hl]. rewrite Ha. cbn [andb]. now apply IH.
Qed.

Lemma filter_map_length {A B} (f : A -> B) (P : B -> bool) (l : list A) :
  length (filter P (map f l)) = length (filter (fun i => P (f i)) l).
Proof.
  induction l as [|a l IH]; cbn [map filter]; [reflexivity|].
  destruct (P (f a)); cbn [length]; now rewrite IH.
Qed.

Lemma nth_error_some_lt {A} (l : list A) n :
  (n < length l)%nat -> exists x, nth_error l n = Some x.
Proof.
  intro H. destruct (nth_error l n) as [x|] eqn:E; [now exists x|].
  apply nth_error_None in E. lia.
Qed.

(* ---- the states of the specification along a history ------------------------------------------ *)
Definition st_at (ops : list op) (n : nat) : abs := fold_left spec_step (firstn n ops) abs_init.

Lemma st_at_S ops n o :
  nth_error ops n = Some o -> st_at ops (S n) = spec_step (st_at ops n) o.
Proof.
  intro H. unfold st_at. rewrite (firstn_S_nth ops n o H), fold_left_app. reflexivity.
Qed.

Lemma spec_from_nth no nr : forall ops a i,
  nth_error (spec_from no nr a ops) i =
  if Nat.ltb i (length ops)
  then Some (aobserve no nr (fold_left spec_step (firstn (S i) ops) a)) else None.
Proof.
  induction ops as [|o ops IH]; intros a i.
  - destruct i; reflexivity.
  - destruct i as [|i].
    + reflexivity.
    + change (nth_error (spec_from no nr a (o :: ops)) (S i))
        with (nth_error (spec_from no nr (spec_step a o) ops) i).
      rewrite IH. reflexivity.
Qed.

Lemma run_nth no nr ops i obs :
  nth_error (run no nr ops) i = Some (Some obs) <->
  (i < length ops)%nat /\ obs = aobserve no nr (st_at ops (S i)).
Proof.
  rewrite run_refines_spec, nth_error_map. unfold spec_run. rewrite spec_from_nth.
  fold (st_at ops (S i)).
  destruct (Nat.ltb_spec i (length ops)) as [Hlt|Hge]; cbn [option_map].
  - split.
    + intro E. injection E as <-. split; [exact Hlt | reflexivity].
    + intros [_ ->]. reflexivity.
  - split; [discriminate | intros [Hlt _]; lia].
Qed.

Lemma aobserve_nth no nr a j x :
  nth_error (aobserve no nr a) j = Some x <->
  (j < nr)%nat /\ x = aobserve_ref no a (N.of_nat j).
Proof.
  unfold aobserve. rewrite nth_error_map, nth_error_seq0.
  destruct (Nat.ltb_spec j nr) as [Hlt|Hge]; cbn [option_map Nat.add].
  - split.
    + intro E. injection E as <-. split; [exact Hlt | reflexivity].
    + intros [_ ->]. reflexivity.
  - split; [discriminate | intros [Hlt _]; lia].
Qed.

Lemma shows_iff no nr ops i j x :
  shows no nr ops i j x <->
  (i < length ops)%nat /\ (j < nr)%nat /\ x = aobserve_ref no (st_at ops (S i)) (N.of_nat j).
Proof.
  unfold shows. split.
  - intros [obs [Hr Ho]]. apply run_nth in Hr. destruct Hr as [Hi ->].
    apply aobserve_nth in Ho. tauto.
  - intros (Hi & Hj & ->). exists (aobserve no nr (st_at ops (S i))). split.
    + apply run_nth. tauto.
    + apply aobserve_nth. tauto.
Qed.

(* ---- reading an observation -------------------------------------------------------------------- *)
Lemma aobs_dead no a rs : aobserve_ref no a rs = RDead <-> alookup rs (arefs a) = None.
Proof.
  unfold aobserve_ref. destruct (alookup rs (arefs a)) as [[o|]|]; split; congruence.
Qed.

Lemma aobs_null no a rs : aobserve_ref no a rs = RNull <-> alookup rs (arefs a) = Some None.
Proof.
  unfold aobserve_ref. destruct (alookup rs (arefs a)) as [[o|]|]; split; congruence.
Qed.

Lemma aobs_to no a rs t b :
  aobserve_ref no a rs = RTo t b <->
  exists o, alookup rs (arefs a) = Some (Some o) /\ t = afind_oslot a o no /\
            b = Nat.eqb (count_to a o) 1.
Proof.
  unfold aobserve_ref. destruct (alookup rs (arefs a)) as [[o|]|]; split.
  - intro E. injection E as <- <-. exists o. auto.
  - intros [o' [E [-> ->]]]. injection E as <-. reflexivity.
  - discriminate.
  - intros [o' [E _]]. discriminate.
  - discriminate.
  - intros [o' [E _]]. discriminate.
Qed.

Lemma afind_some a o : forall n os,
  afind_oslot a o n = Some os -> alookup os (aobjs a) = Some o /\ (N.to_nat os < n)%nat.
Proof.
  induction n as [|m IH]; intros os H; cbn [afind_oslot] in H; [discriminate|].
  assert (Hrec : afind_oslot a o m = Some os ->
                 alookup os (aobjs a) = Some o /\ (N.to_nat os < S m)%nat).
  { intro H'. destruct (IH os H') as [H1 H2]. split; [exact H1 | lia]. }
  destruct (alookup (N.of_nat m) (aobjs a)) as [o'|] eqn:E; [|now apply Hrec].
  destruct (N.eqb_spec o o') as [->|Hne]; [|now apply Hrec].
  injection H as <-. split; [exact E | lia].
Qed.

Lemma afind_complete a o : forall n os,
  alookup os (aobjs a) = Some o -> (N.to_nat os < n)%nat -> afind_oslot a o n <> None.
Proof.
  induction n as [|m IH]; intros os H Hlt; [lia|]. cbn [afind_oslot].
  destruct (Nat.eq_dec (N.to_nat os) m) as [Em|Em].
  - replace (N.of_nat m) with os by lia. rewrite H, N.eqb_refl. discriminate.
  - assert (Hrec : afind_oslot a o m <> None) by (apply (IH os H); lia).
    destruct (alookup (N.of_nat m) (aobjs a)) as [o'|]; [|exact Hrec].
    destruct (N.eqb o o'); [discriminate | exact Hrec].
Qed.

(* [afind_oslot a o] only depends on the set of object slots that hold [o] *)
Lemma afind_ext a a' o :
  (forall os, alookup os (aobjs a') = Some o <-> alookup os (aobjs a) = Some o) ->
  forall n, afind_oslot a' o n = afind_oslot a o n.
Proof.
  intros H n. induction n as [|m IH]; cbn [afind_oslot]; [reflexivity|].
  destruct (alookup (N.of_nat m) (aobjs a')) as [o1|] eqn:E1;
    destruct (alookup (N.of_nat m) (aobjs a)) as [o2|] eqn:E2;
    pose proof (H (N.of_nat m)) as Hm; rewrite E1, E2 in Hm; destruct Hm as [H1 H2].
  - destruct (N.eqb_spec o o1) as [Q1|N1]; destruct (N.eqb_spec o o2) as [Q2|N2].
    + reflexivity.
    + subst o1. specialize (H1 eq_refl). congruence.
    + subst o2. specialize (H2 eq_refl). congruence.
    + exact IH.
  - destruct (N.eqb_spec o o1) as [Q1|N1]; [|exact IH].
    subst o1. specialize (H1 eq_refl). discriminate.
  - destruct (N.eqb_spec o o2) as [Q2|N2]; [|exact IH].
    subst o2. specialize (H2 eq_refl). discriminate.
  - exact IH.
Qed.

Lemma afind_same_objs a a' o n : aobjs a' = aobjs a -> afind_oslot a' o n = afind_oslot a o n.
Proof. intro E. apply afind_ext. intro os. rewrite E. tauto. Qed.

(* ---- well-formedness of the reachable specification states ---------------------------------- *)
Record wf (a : abs) : Prop := {
  wf_nd : NoDup (map fst (arefs a));
  wf_live : forall rs o, alookup rs (arefs a) = Some (Some o) ->
                         exists os, alookup os (aobjs a) = Some o;
  wf_lt : forall os o, alookup os (aobjs a) = Some o -> o < anext a;
  wf_inj : forall os os' o, alookup os (aobjs a) = Some o -> alookup os' (aobjs a) = Some o ->
                            os = os' }.

Lemma wf_init : wf abs_init.
Proof.
  constructor; cbn [abs_init aobjs arefs anext alookup map].
  - constructor.
  - discriminate.
  - discriminate.
  - discriminate.
Qed.

Lemma wf_refs a refs' :
  wf a -> NoDup (map fst refs') ->
  (forall rs o, alookup rs refs' = Some (Some o) -> exists os, alookup os (aobjs a) = Some o) ->
  wf (mkAbs (aobjs a) refs' (anext a)).
Proof.
  intros [Wn Wl Wt Wi] Hn Hl. constructor; cbn [aobjs arefs anext]; assumption.
Qed.

Lemma asrc_live a f o :
  wf a -> asrc a f = Some o -> exists os, alookup os (aobjs a) = Some o.
Proof.
  intros W H. destruct f as [|os|rs]; cbn [asrc] in H.
  - discriminate.
  - now exists os.
  - destruct (alookup rs (arefs a)) as [t|] eqn:E; [|discriminate]. subst t.
    eapply wf_live; eauto.
Qed.

Lemma wf_step a o : wf a -> wf (spec_step a o).
Proof.
  intro W. pose proof W as [Wn Wl Wt Wi].
  destruct o as [os|os|rs f|rs f|rs|rs]; cbn [spec_step].
  - (* ONewObj *)
    destruct (alookup os (aobjs a)) as [o0|] eqn:E; [exact W|].
    constructor; cbn [aobjs arefs anext alookup].
    + exact Wn.
    + intros rs o Hr. destruct (Wl rs o Hr) as [os' Hos']. exists os'.
      destruct (N.eqb_spec os' os) as [->|Hne]; [congruence | exact Hos'].
    + intros os' o. destruct (N.eqb os' os).
      * intro Eo. injection Eo as <-. lia.
      * intro Eo. apply Wt in Eo. lia.
    + intros os1 os2 o.
      destruct (N.eqb_spec os1 os) as [->|N1]; destruct (N.eqb_spec os2 os) as [->|N2];
        intros E1 E2.
      * reflexivity.
      * injection E1 as <-. apply Wt in E2. lia.
      * injection E2 as <-. apply Wt in E1. lia.
      * eapply Wi; eauto.
  - (* ODelObj *)
    destruct (alookup os (aobjs a)) as [od|] eqn:E; [|exact W].
    set (g := fun t : option N => if opt_eqb t (Some od) then None else t).
    change (fun p : N * option N => (fst p, if opt_eqb (snd p) (Some od) then None else snd p))
      with (fun p : N * option N => (fst p, g (snd p))).
    constructor; cbn [aobjs arefs anext].
    + rewrite (map_fst_map_snd g). exact Wn.
    + intros rs o. rewrite (alookup_map_snd g).
      destruct (alookup rs (arefs a)) as [t|] eqn:Er; cbn [option_map]; [|discriminate].
      unfold g. destruct (opt_eqb_spec t (Some od)) as [Et|Et]; intro H; [discriminate|].
      injection H as ->. destruct (Wl rs o Er) as [os' Hos']. exists os'.
      rewrite alookup_aremove. destruct (N.eqb_spec os' os) as [->|Hne]; [congruence|exact Hos'].
    + intros os' o. rewrite alookup_aremove. destruct (N.eqb os' os); [discriminate|apply Wt].
    + intros os1 os2 o. rewrite !alookup_aremove.
      destruct (N.eqb os1 os); [discriminate|]. destruct (N.eqb os2 os); [discriminate|].
      apply Wi.
  - (* ONewRef *)
    destruct (alookup rs (arefs a)) as [t|] eqn:E; [exact W|].
    apply wf_refs; [exact W| |].
    + cbn [map fst]. constructor; [|exact Wn]. apply alookup_none_iff. exact E.
    + intros rs' o. cbn [alookup]. destruct (N.eqb rs' rs).
      * intro H. injection H as H. eapply asrc_live; eauto.
      * apply Wl.
  - (* OAssign *)
    destruct (alookup rs (arefs a)) as [t|] eqn:E; [|exact W].
    apply wf_refs; [exact W| |].
    + now apply nodup_keys_aset.
    + intros rs' o. rewrite alookup_aset. destruct (N.eqb rs' rs).
      * intro H. injection H as H. eapply asrc_live; eauto.
      * apply Wl.
  - (* OClear *)
    destruct (alookup rs (arefs a)) as [t|] eqn:E; [|exact W].
    apply wf_refs; [exact W| |].
    + now apply nodup_keys_aset.
    + intros rs' o. rewrite alookup_aset. destruct (N.eqb rs' rs); [discriminate | apply Wl].
  - (* ODelRef *)
    apply wf_refs; [exact W| |].
    + now apply nodup_keys_aremove.
    + intros rs' o. rewrite alookup_aremove. destruct (N.eqb rs' rs); [discriminate | apply Wl].
Qed.

Lemma fold_inv (P : abs -> Prop) (c : op -> bool) :
  (forall a o, P a -> c o = true -> P (spec_step a o)) ->
  forall ops a, P a -> forallb c ops = true -> P (fold_left spec_step ops a).
Proof.
  intro Hstep. induction ops as [|o ops IH]; intros a Pa Hc; cbn [fold_left]; [exact Pa|].
  cbn [forallb] in Hc. apply andb_true_iff in Hc. destruct Hc as [Ho Hc].
  apply IH; [|exact Hc]. now apply Hstep.
Qed.

Lemma wf_st ops n : wf (st_at ops n).
Proof.
  unfold st_at.
  apply (fold_inv wf (fun _ => true)); [intros a o Wa _; now apply wf_step | exact wf_init |].
  apply forallb_forall. reflexivity.
Qed.

Lemma afind_eq a o os n :
  wf a -> alookup os (aobjs a) = Some o -> (N.to_nat os < n)%nat -> afind_oslot a o n = Some os.
Proof.
  intros W H Hlt. pose proof (afind_complete a o n os H Hlt) as Hc.
  destruct (afind_oslot a o n) as [os'|] eqn:F; [|congruence].
  apply afind_some in F. destruct F as [F _]. f_equal. eapply wf_inj; eauto.
Qed.

(* ---- the side conditions as invariants --------------------------------------------------------- *)
Definition objs_lt (no : nat) (a : abs) : Prop :=
  forall os o, alookup os (aobjs a) = Some o -> (N.to_nat os < no)%nat.

Lemma objs_lt_step no a o : objs_lt no a -> obj_ok no o = true -> objs_lt no (spec_step a o).
Proof.
  intros H Hok. destruct o as [os|os|rs f|rs f|rs|rs]; cbn [spec_step].
  - destruct (alookup os (aobjs a)) as [o0|] eqn:E; [exact H|].
    intros os' o. cbn [aobjs alookup]. destruct (N.eqb_spec os' os) as [->|Hne].
    + intros _. cbn [obj_ok] in Hok. apply Nat.ltb_lt in Hok. exact Hok.
    + apply H.
  - destruct (alookup os (aobjs a)) as [od|] eqn:E; [|exact H].
    intros os' o. cbn [aobjs]. rewrite alookup_aremove.
    destruct (N.eqb os' os); [discriminate | apply H].
  - destruct (alookup rs (arefs a)); exact H.
  - destruct (alookup rs (arefs a)); exact H.
  - destruct (alookup rs (arefs a)); exact H.
  - exact H.
Qed.

Lemma objs_lt_st no ops n : objs_below no ops = true -> objs_lt no (st_at ops n).
Proof.
  intro Hb. unfold st_at. apply (fold_inv (objs_lt no) (obj_ok no)).
  - apply objs_lt_step.
  - intros os o. cbn. discriminate.
  - apply forallb_firstn. exact Hb.
Qed.

Definition refs_lt (nr : nat) (a : abs) : Prop :=
  forall rs, alookup rs (arefs a) <> None -> (N.to_nat rs < nr)%nat.

Lemma refs_lt_step nr a o : refs_lt nr a -> ref_ok nr o = true -> refs_lt nr (spec_step a o).
Proof.
  intros H Hok. destruct o as [os|os|rs f|rs f|rs|rs]; cbn [spec_step].
  - destruct (alookup os (aobjs a)); exact H.
  - destruct (alookup os (aobjs a)) as [od|] eqn:E; [|exact H].
    set (g := fun t : option N => if opt_eqb t (Some od) then None else t).
    change (fun p : N * option N => (fst p, if opt_eqb (snd p) (Some od) then None else snd p))
      with (fun p : N * option N => (fst p, g (snd p))).
    intros rs. cbn [arefs]. rewrite (alookup_map_snd g). intro Hn. apply H.
    destruct (alookup rs (arefs a)); [discriminate | exact Hn].
  - destruct (alookup rs (arefs a)) as [t|] eqn:E; [exact H|].
    intros rs'. cbn [arefs alookup]. destruct (N.eqb_spec rs' rs) as [->|Hne].
    + intros _. cbn [ref_ok] in Hok. apply Nat.ltb_lt in Hok. exact Hok.
    + apply H.
  - destruct (alookup rs (arefs a)) as [t|] eqn:E; [|exact H].
    intros rs'. cbn [arefs]. rewrite alookup_aset. destruct (N.eqb_spec rs' rs) as [->|Hne].
    + intros _. apply H. congruence.
    + apply H.
  - destruct (alookup rs (arefs a)) as [t|] eqn:E; [|exact H].
    intros rs'. cbn [arefs]. rewrite alookup_aset. destruct (N.eqb_spec rs' rs) as [->|Hne].
    + intros _. apply H. congruence.
    + apply H.
  - intros rs'. cbn [arefs]. rewrite alookup_aremove.
    destruct (N.eqb rs' rs); [congruence | apply H].
Qed.

Lemma refs_lt_st nr ops n : refs_below nr ops = true -> refs_lt nr (st_at ops n).
Proof.
  intro Hb. unfold st_at. apply (fold_inv (refs_lt nr) (ref_ok nr)).
  - apply refs_lt_step.
  - intros rs. cbn. congruence.
  - apply forallb_firstn. exact Hb.
Qed.

(* liveness of an object slot, read off the history *)
Definition olive (a : abs) (os : N) : bool :=
  match alookup os (aobjs a) with Some _ => true | None => false end.

Lemma olive_step a o os : olive (spec_step a o) os = alive_step os (olive a os) o.
Proof.
  unfold olive. destruct o as [os'|os'|rs f|rs f|rs|rs]; cbn [spec_step alive_step].
  - destruct (alookup os' (aobjs a)) as [o0|] eqn:E.
    + destruct (N.eqb_spec os os') as [->|Hne]; [now rewrite E | reflexivity].
    + cbn [aobjs alookup]. destruct (N.eqb os os'); reflexivity.
  - destruct (alookup os' (aobjs a)) as [od|] eqn:E.
    + cbn [aobjs]. rewrite alookup_aremove. destruct (N.eqb os os'); reflexivity.
    + destruct (N.eqb_spec os os') as [->|Hne]; [now rewrite E | reflexivity].
  - destruct (alookup rs (arefs a)); reflexivity.
  - destruct (alookup rs (arefs a)); reflexivity.
  - destruct (alookup rs (arefs a)); reflexivity.
  - reflexivity.
Qed.

Lemma olive_fold os : forall ops a,
  olive (fold_left spec_step ops a) os = fold_left (alive_step os) ops (olive a os).
Proof.
  induction ops as [|o ops IH]; intro a; cbn [fold_left]; [reflexivity|].
  rewrite IH, olive_step. reflexivity.
Qed.

Lemma olive_st ops n os : olive (st_at ops n) os = obj_alive (firstn n ops) os.
Proof. unfold st_at, obj_alive. rewrite olive_fold. reflexivity. Qed.

(* ---- 1. a reference never dangles --------------------------------------------------------------- *)
Lemma never_dangles : forall (no nr : nat) (ops : list op),
  objs_below no ops = true ->
  forall (i j : nat) (t : option N) (b : bool),
    shows no nr ops i j (RTo t b) ->
    exists os, t = Some os /\ (N.to_nat os < no)%nat /\
               obj_alive (firstn (S i) ops) os = true.
Proof.
  intros no nr ops Hb i j t b Hs. apply shows_iff in Hs. destruct Hs as (Hi & Hj & Hx).
  symmetry in Hx. apply aobs_to in Hx. destruct Hx as [o (Er & -> & _)].
  pose proof (wf_st ops (S i)) as W.
  destruct (wf_live _ W _ _ Er) as [os Hos].
  pose proof (objs_lt_st no ops (S i) Hb os o Hos) as Hlt.
  exists os. split; [apply afind_eq; assumption|]. split; [exact Hlt|].
  rewrite <- olive_st. unfold olive. now rewrite Hos.
Qed.

(* ---- 2. destroying an object nulls exactly the references to it ---------------------------------- *)
Lemma del_eqb o od t :
  o <> od -> opt_eqb (if opt_eqb t (Some od) then None else t) (Some o) = opt_eqb t (Some o).
Proof.
  intro Hne. destruct (opt_eqb_spec t (Some od)) as [->|Ht]; [|reflexivity].
  cbn [opt_eqb]. symmetry. apply N.eqb_neq. congruence.
Qed.

Lemma count_del o od (l : list (N * option N)) :
  o <> od ->
  length (filter (fun p => opt_eqb (snd p) (Some o))
            (map (fun p => (fst p, if opt_eqb (snd p) (Some od) then None else snd p)) l)) =
  length (filter (fun p => opt_eqb (snd p) (Some o)) l).
Proof.
  intro Hne. rewrite filter_map_length. cbn [snd].
  induction l as [|[k t] l IH]; cbn [filter snd]; [reflexivity|].
  rewrite (del_eqb o od t Hne). destruct (opt_eqb t (Some o)); cbn [length]; now rewrite IH.
Qed.

Lemma del_obj_obs no a os rs :
  wf a ->
  let x := aobserve_ref no a rs in
  let x' := aobserve_ref no (spec_step a (ODelObj os)) rs in
  (forall b, x = RTo (Some os) b -> x' = RNull) /\
  ((N.to_nat os < no)%nat -> (forall b, x <> RTo (Some os) b) -> x' = x).
Proof.
  intros W x x'. subst x x'. cbn [spec_step].
  destruct (alookup os (aobjs a)) as [od|] eqn:E.
  - set (g := fun t : option N => if opt_eqb t (Some od) then None else t).
    change (fun p : N * option N => (fst p, if opt_eqb (snd p) (Some od) then None else snd p))
      with (fun p : N * option N => (fst p, g (snd p))).
    set (a' := mkAbs (aremove os (aobjs a)) (map (fun p => (fst p, g (snd p))) (arefs a))
                     (anext a)).
    assert (Hl : alookup rs (arefs a') = option_map g (alookup rs (arefs a))).
    { unfold a'. cbn [arefs]. apply alookup_map_snd. }
    split.
    + intros b Hx. apply aobs_to in Hx. destruct Hx as [o (Er & Ef & _)].
      symmetry in Ef. apply afind_some in Ef. destruct Ef as [Ef _].
      assert (o = od) by congruence. subst o.
      apply aobs_null. rewrite Hl, Er. cbn [option_map]. unfold g.
      cbn [opt_eqb]. now rewrite N.eqb_refl.
    + intros Hlt Hx. unfold aobserve_ref at 1 2. rewrite Hl.
      destruct (alookup rs (arefs a)) as [[o|]|] eqn:Er; cbn [option_map].
      * assert (Hne : o <> od).
        { intro; subst o. apply (Hx (Nat.eqb (count_to a od) 1)).
          apply aobs_to. exists od. split; [exact Er|]. split; [|reflexivity].
          symmetry. apply afind_eq; assumption. }
        unfold g. destruct (opt_eqb_spec (Some o) (Some od)) as [Eo|_]; [congruence|].
        f_equal.
        -- apply afind_ext. intro os'. unfold a'. cbn [aobjs]. rewrite alookup_aremove.
           destruct (N.eqb_spec os' os) as [->|Hn']; [|tauto].
           split; [discriminate | congruence].
        -- f_equal. unfold count_to, a'. cbn [arefs]. unfold g. apply count_del. exact Hne.
      * reflexivity.
      * reflexivity.
  - split.
    + intros b Hx. apply aobs_to in Hx. destruct Hx as [o (_ & Ef & _)].
      symmetry in Ef. apply afind_some in Ef. destruct Ef as [Ef _]. congruence.
    + reflexivity.
Qed.

Lemma destroy_nulls_exactly : forall (no nr : nat) (ops : list op) (i : nat) (os : N),
  nth_error ops (S i) = Some (ODelObj os) ->
  forall (j : nat) (x x' : robs),
    shows no nr ops i j x -> shows no nr ops (S i) j x' ->
    (forall b, x = RTo (Some os) b -> x' = RNull) /\
    ((N.to_nat os < no)%nat -> (forall b, x <> RTo (Some os) b) -> x' = x).
Proof.
  intros no nr ops i os Hop j x x' Hs Hs'.
  apply shows_iff in Hs. destruct Hs as (_ & _ & ->).
  apply shows_iff in Hs'. destruct Hs' as (_ & _ & ->).
  rewrite (st_at_S ops (S i) _ Hop).
  apply (del_obj_obs no (st_at ops (S i)) os (N.of_nat j)). apply wf_st.
Qed.

(* ---- 3. a null reference stays null until it is written ------------------------------------------- *)
Lemma step_keeps_null a o rs :
  writes_ref rs o = false -> alookup rs (arefs a) = Some None ->
  alookup rs (arefs (spec_step a o)) = Some None \/
  (o = ODelRef rs /\ alookup rs (arefs (spec_step a o)) = None).
Proof.
  intros Hw H. destruct o as [os|os|rs' f|rs' f|rs'|rs']; cbn [spec_step writes_ref] in *.
  - left. destruct (alookup os (aobjs a)); exact H.
  - left. destruct (alookup os (aobjs a)) as [od|]; [|exact H].
    set (g := fun t : option N => if opt_eqb t (Some od) then None else t).
    change (fun p : N * option N => (fst p, if opt_eqb (snd p) (Some od) then None else snd p))
      with (fun p : N * option N => (fst p, g (snd p))).
    cbn [arefs]. rewrite (alookup_map_snd g), H. reflexivity.
  - left. apply N.eqb_neq in Hw.
    destruct (alookup rs' (arefs a)); [exact H|]. cbn [arefs alookup].
    destruct (N.eqb_spec rs rs'); [contradiction | exact H].
  - left. destruct (alookup rs' (arefs a)); [|exact H]. cbn [arefs].
    rewrite alookup_aset, Hw. exact H.
  - left. destruct (alookup rs' (arefs a)); [|exact H]. cbn [arefs].
    rewrite alookup_aset. destruct (N.eqb rs rs'); [reflexivity | exact H].
  - cbn [arefs]. rewrite alookup_aremove. destruct (N.eqb_spec rs rs') as [->|Hne].
    + right. split; reflexivity.
    + left. exact H.
Qed.

Lemma step_keeps_dead a o rs :
  writes_ref rs o = false -> alookup rs (arefs a) = None ->
  alookup rs (arefs (spec_step a o)) = None.
Proof.
  intros Hw H. destruct o as [os|os|rs' f|rs' f|rs'|rs']; cbn [spec_step writes_ref] in *.
  - destruct (alookup os (aobjs a)); exact H.
  - destruct (alookup os (aobjs a)) as [od|]; [|exact H].
    set (g := fun t : option N => if opt_eqb t (Some od) then None else t).
    change (fun p : N * option N => (fst p, if opt_eqb (snd p) (Some od) then None else snd p))
      with (fun p : N * option N => (fst p, g (snd p))).
    cbn [arefs]. rewrite (alookup_map_snd g), H. reflexivity.
  - apply N.eqb_neq in Hw.
    destruct (alookup rs' (arefs a)); [exact H|]. cbn [arefs alookup].
    destruct (N.eqb_spec rs rs'); [contradiction | exact H].
  - destruct (alookup rs' (arefs a)); [|exact H]. cbn [arefs].
    rewrite alookup_aset, Hw. exact H.
  - destruct (alookup rs' (arefs a)) eqn:E; [|exact H]. cbn [arefs].
    rewrite alookup_aset. destruct (N.eqb_spec rs rs') as [->|Hne]; [congruence | exact H].
  - cbn [arefs]. rewrite alookup_aremove. destruct (N.eqb rs rs'); [reflexivity | exact H].
Qed.

Lemma stays_null_st ops rs i : forall d,
  (i + d < length ops)%nat ->
  alookup rs (arefs (st_at ops (S i))) = Some None ->
  (forall m o, (i < m <= i + d)%nat -> nth_error ops m = Some o -> writes_ref rs o = false) ->
  (alookup rs (arefs (st_at ops (S (i + d)))) = Some None \/
   alookup rs (arefs (st_at ops (S (i + d)))) = None) /\
  ((forall m, (i < m <= i + d)%nat -> nth_error ops m <> Some (ODelRef rs)) ->
   alookup rs (arefs (st_at ops (S (i + d)))) = Some None).
Proof.
  induction d as [|d IH]; intros Hlen H0 Hw.
  - rewrite Nat.add_0_r. split; [now left | intros _; exact H0].
  - assert (Hlen' : (i + d < length ops)%nat) by lia.
    assert (Hw' : forall m o, (i < m <= i + d)%nat -> nth_error ops m = Some o ->
                              writes_ref rs o = false).
    { intros m o Hm. apply Hw. lia. }
    destruct (IH Hlen' H0 Hw') as [IH1 IH2].
    replace (i + S d)%nat with (S (i + d)) in * by lia.
    destruct (nth_error_some_lt ops (S (i + d)) Hlen) as [o Ho].
    rewrite (st_at_S ops (S (i + d)) o Ho).
    assert (Hwo : writes_ref rs o = false) by (apply (Hw (S (i + d))); [lia | exact Ho]).
    split.
    + destruct IH1 as [E|E].
      * destruct (step_keeps_null _ o rs Hwo E) as [E'|[_ E']]; [now left | now right].
      * right. now apply step_keeps_dead.
    + intro Hnd.
      assert (E : alookup rs (arefs (st_at ops (S (i + d)))) = Some None).
      { apply IH2. intros m Hm. apply Hnd. lia. }
      destruct (step_keeps_null _ o rs Hwo E) as [E'|[Eo _]]; [exact E'|].
      exfalso. apply (Hnd (S (i + d))); [lia | congruence].
Qed.

Lemma stays_null : forall (no nr : nat) (ops : list op) (i k j : nat),
  (i <= k < length ops)%nat ->
  shows no nr ops i j RNull ->
  (forall m o, (i < m <= k)%nat -> nth_error ops m = Some o ->
               writes_ref (N.of_nat j) o = false) ->
  exists x, shows no nr ops k j x /\
            (x = RNull \/ x = RDead) /\
            ((forall m, (i < m <= k)%nat -> nth_error ops m <> Some (ODelRef (N.of_nat j))) ->
             x = RNull).
Proof.
  intros no nr ops i k j Hik Hs Hw.
  apply shows_iff in Hs. destruct Hs as (Hi & Hj & Hx).
  symmetry in Hx. apply aobs_null in Hx.
  replace k with (i + (k - i))%nat in * by lia.
  set (d := (k - i)%nat) in *.
  destruct (stays_null_st ops (N.of_nat j) i d (proj2 Hik) Hx Hw) as [H1 H2].
  exists (aobserve_ref no (st_at ops (S (i + d))) (N.of_nat j)). split.
  - apply shows_iff. split; [lia|]. split; [exact Hj | reflexivity].
  - split.
    + destruct H1 as [E|E]; [left; now apply aobs_null | right; now apply aobs_dead].
    + intro Hnd. apply aobs_null. now apply H2.
Qed.

(* ---- 4. frame: an operation on one reference slot does not move the others ------------------------- *)
Lemma ref_op_frame a o rs rs' :
  op_ref o = Some rs -> rs' <> rs ->
  aobjs (spec_step a o) = aobjs a /\
  alookup rs' (arefs (spec_step a o)) = alookup rs' (arefs a).
Proof.
  intros Hop Hne. destruct o as [os|os|r f|r f|r|r]; cbn [op_ref] in Hop;
    try discriminate; injection Hop as ->; cbn [spec_step].
  - destruct (alookup rs (arefs a)); [split; reflexivity|]. cbn [aobjs arefs alookup].
    split; [reflexivity|]. destruct (N.eqb_spec rs' rs); [contradiction | reflexivity].
  - destruct (alookup rs (arefs a)); [|split; reflexivity]. cbn [aobjs arefs].
    split; [reflexivity|]. rewrite alookup_aset.
    destruct (N.eqb_spec rs' rs); [contradiction | reflexivity].
  - destruct (alookup rs (arefs a)); [|split; reflexivity]. cbn [aobjs arefs].
    split; [reflexivity|]. rewrite alookup_aset.
    destruct (N.eqb_spec rs' rs); [contradiction | reflexivity].
  - cbn [aobjs arefs]. split; [reflexivity|]. rewrite alookup_aremove.
    destruct (N.eqb_spec rs' rs); [contradiction | reflexivity].
Qed.

Lemma frame_other_refs : forall (no nr : nat) (ops : list op) (i : nat) (o : op) (rs : N),
  nth_error ops (S i) = Some o -> op_ref o = Some rs ->
  forall (j : nat) (x x' : robs),
    N.of_nat j <> rs ->
    shows no nr ops i j x -> shows no nr ops (S i) j x' ->
    target_of x' = target_of x.
Proof.
  intros no nr ops i o rs Hop Hr j x x' Hne Hs Hs'.
  apply shows_iff in Hs. destruct Hs as (_ & _ & ->).
  apply shows_iff in Hs'. destruct Hs' as (_ & _ & ->).
  rewrite (st_at_S ops (S i) _ Hop).
  destruct (ref_op_frame (st_at ops (S i)) o rs (N.of_nat j) Hr Hne) as [Eo El].
  unfold aobserve_ref. rewrite El.
  destruct (alookup (N.of_nat j) (arefs (st_at ops (S i)))) as [[t|]|]; cbn [target_of];
    [|reflexivity|reflexivity].
  f_equal. now apply afind_same_objs.
Qed.

(* creating an object changes nothing that any reference shows *)
Lemma new_obj_obs no a os rs :
  wf a -> aobserve_ref no (spec_step a (ONewObj os)) rs = aobserve_ref no a rs.
Proof.
  intro W. cbn [spec_step]. destruct (alookup os (aobjs a)) as [o0|] eqn:E; [reflexivity|].
  unfold aobserve_ref. cbn [arefs].
  destruct (alookup rs (arefs a)) as [[o|]|] eqn:Er; [|reflexivity|reflexivity].
  f_equal. apply afind_ext. intro os'. cbn [aobjs alookup].
  destruct (N.eqb_spec os' os) as [->|Hne]; [|tauto].
  destruct (wf_live _ W _ _ Er) as [os1 H1]. apply (wf_lt _ W) in H1.
  split; [|congruence]. intro H. injection H as H. lia.
Qed.

Lemma new_object_changes_nothing : forall (no nr : nat) (ops : list op) (i : nat) (os : N),
  nth_error ops (S i) = Some (ONewObj os) ->
  forall (j : nat) (x x' : robs),
    shows no nr ops i j x -> shows no nr ops (S i) j x' -> x' = x.
Proof.
  intros no nr ops i os Hop j x x' Hs Hs'.
  apply shows_iff in Hs. destruct Hs as (_ & _ & ->).
  apply shows_iff in Hs'. destruct Hs' as (_ & _ & ->).
  rewrite (st_at_S ops (S i) _ Hop). apply new_obj_obs. apply wf_st.
Qed.

(* ---- 5. "is last reference" = exactly one slot shows that object -------------------------------------- *)
Lemma keys_to (l : list (N * option N)) o rs :
  NoDup (map fst l) ->
  (In rs (map fst (filter (fun p => opt_eqb (snd p) (Some o)) l)) <->
   alookup rs l = Some (Some o)).
Proof.
  intro Hnd. split.
  - intro H. apply in_map_iff in H. destruct H as [[k t] [Ek Hin]]. cbn [fst] in Ek. subst k.
    apply filter_In in Hin. destruct Hin as [Hin Ht]. cbn [snd] in Ht.
    apply opt_eqb_eq in Ht. subst t. now apply in_alookup.
  - intro H. apply in_map_iff. exists (rs, Some o). split; [reflexivity|].
    apply filter_In. split; [now apply alookup_in|]. cbn [snd opt_eqb]. apply N.eqb_refl.
Qed.

Lemma shows_obj_iff no a os o rs :
  afind_oslot a o no = Some os ->
  (shows_obj os (aobserve_ref no a rs) = true <-> alookup rs (arefs a) = Some (Some o)).
Proof.
  intro F. pose proof (afind_some a o no os F) as [Ho _]. unfold aobserve_ref. split.
  - destruct (alookup rs (arefs a)) as [[o'|]|]; cbn [shows_obj]; try discriminate.
    destruct (afind_oslot a o' no) as [os'|] eqn:F'; [|discriminate].
    intro H. apply N.eqb_eq in H. subst os'.
    apply afind_some in F'. destruct F' as [F' _]. congruence.
  - intros ->. rewrite F. cbn [shows_obj]. apply N.eqb_refl.
Qed.

Lemma count_shown_ok no nr a os o :
  NoDup (map fst (arefs a)) -> refs_lt nr a -> afind_oslot a o no = Some os ->
  count_shown os (aobserve no nr a) = count_to a o.
Proof.
  intros Hnd Hlt F. unfold count_shown, aobserve, count_to.
  rewrite filter_map_length.
  set (Q := fun i : nat => shows_obj os (aobserve_ref no a (N.of_nat i))).
  set (P := fun p : N * option N => opt_eqb (snd p) (Some o)).
  rewrite <- (map_length N.of_nat (filter Q (seq 0 nr))), <- (map_length fst (filter P (arefs a))).
  apply same_members_length.
  - apply nodup_map_inj_on; [intros x y _ _; apply Nat2N.inj|].
    apply NoDup_filter. apply seq_NoDup.
  - now apply nodup_keys_filter.
  - intro rs. unfold P. rewrite (keys_to (arefs a) o rs Hnd). rewrite in_map_iff. split.
    + intros [i [Ei Hi]]. subst rs. apply filter_In in Hi. destruct Hi as [_ Hq].
      unfold Q in Hq. now apply (shows_obj_iff no a os o) in Hq.
    + intro H. exists (N.to_nat rs). split; [apply N2Nat.id|].
      apply filter_In. split.
      * apply in_seq. assert (N.to_nat rs < nr)%nat by (apply Hlt; congruence). lia.
      * unfold Q. rewrite N2Nat.id. now apply (shows_obj_iff no a os o).
Qed.

Lemma last_reference_exact : forall (no nr : nat) (ops : list op),
  refs_below nr ops = true ->
  forall (i : nat) (obs : list robs),
    nth_error (run no nr ops) i = Some (Some obs) ->
    forall (j : nat) (os : N) (b : bool),
      nth_error obs j = Some (RTo (Some os) b) ->
      (b = true <-> count_shown os obs = 1%nat).
Proof.
  intros no nr ops Hb i obs Hr j os b Hj.
  apply run_nth in Hr. destruct Hr as [Hi ->].
  apply aobserve_nth in Hj. destruct Hj as [Hj Hx].
  symmetry in Hx. apply aobs_to in Hx. destruct Hx as [o (Er & Ef & ->)].
  rewrite (count_shown_ok no nr (st_at ops (S i)) os o).
  - apply Nat.eqb_eq.
  - apply wf_nd. apply wf_st.
  - now apply refs_lt_st.
  - now symmetry.
Qed.
